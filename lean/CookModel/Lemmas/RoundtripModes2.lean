import CookModel.Lemmas.RoundtripModes
/-
  C01, analysis layer, the remaining mode switches (`rtn_` prefix):
  * every `>> [mode]: …` / `>> [define]: …` / `>> [duplicate]: …` line, in closed form (`defineModeOf`,
    `duplicateModeOf`: the accepted values and their aliases);
  * text mode: a block — whatever its kind — becomes a text paragraph made of the shown texts and, for a
    component, of its source characters (with a warning per component; nothing enters the tables);
  * steps mode and duplicate mode `reference`: `resolve_reference` in closed form for a component without
    `&`: when it becomes an (implicit) reference, when it stays a definition, and when nothing is reported.
-/
set_option linter.unusedSectionVars false
set_option linter.unusedSimpArgs false
set_option linter.unusedVariables false
namespace Cook
variable {α : Type} [Arith α]

/-! ### the switch lines -/

/-- the define mode a value of `[mode]` / `[define]` selects (`all|default`, `components|ingredients`,
    `steps`, `text`); anything else is an error of the code (`config-invalid-value`) -/
def defineModeOf (v : Str) : Option DefineMode :=
  if v = "all".toList ∨ v = "default".toList then some .all
  else if v = "components".toList ∨ v = "ingredients".toList then some .components
  else if v = "steps".toList then some .steps
  else if v = "text".toList then some .text
  else none

/-- the duplicate mode a value of `[duplicate]` selects (`new|default`, `reference|ref`) -/
def duplicateModeOf (v : Str) : Option DuplicateMode :=
  if v = "new".toList ∨ v = "default".toList then some .new
  else if v = "reference".toList ∨ v = "ref".toList then some .reference
  else none

/-- `>> [mode]: v` (or `[define]`) under MODES, with a value that selects the define mode `m` -/
structure DefineLine (env : Env) (k v : Text) (m : DefineMode) : Prop where
  modes : env.ext.has Gen.EXT_MODES = true
  key : k.trimmed env.cs = "[mode]".toList ∨ k.trimmed env.cs = "[define]".toList
  value : defineModeOf (v.outerTrimmed env.cs) = some m

/-- `>> [duplicate]: v` under MODES, with a value that selects the duplicate mode `m` -/
structure DuplicateLine (env : Env) (k v : Text) (m : DuplicateMode) : Prop where
  modes : env.ext.has Gen.EXT_MODES = true
  key : k.trimmed env.cs = "[duplicate]".toList
  value : duplicateModeOf (v.outerTrimmed env.cs) = some m

theorem rtn_defineLine (env : Env) (k v : Text) (s : Col α) (m : DefineMode) (h : DefineLine env k v m) :
    (metadataA env k v s).2 = { s with defineMode := m } := by
  obtain ⟨hm, hk, hv⟩ := h
  unfold defineModeOf at hv
  unfold metadataA
  split at hv
  · rename_i hc
    cases hv
    rcases hk with hk | hk <;> rcases hc with hc | hc <;>
      simp [bind, StateT.bind, get, getThe, MonadStateOf.get, StateT.get, pure, StateT.pure, hm, hk, hc, modify, modifyGet,
        MonadStateOf.modifyGet, StateT.modifyGet] <;> rfl
  split at hv
  · rename_i hc
    cases hv
    rcases hk with hk | hk <;> rcases hc with hc | hc <;>
      simp [bind, StateT.bind, get, getThe, MonadStateOf.get, StateT.get, pure, StateT.pure, hm, hk, hc, modify, modifyGet,
        MonadStateOf.modifyGet, StateT.modifyGet] <;> rfl
  split at hv
  · rename_i hc
    cases hv
    rcases hk with hk | hk <;>
      simp [bind, StateT.bind, get, getThe, MonadStateOf.get, StateT.get, pure, StateT.pure, hm, hk, hc, modify, modifyGet,
        MonadStateOf.modifyGet, StateT.modifyGet] <;> rfl
  split at hv
  · rename_i hc
    cases hv
    rcases hk with hk | hk <;>
      simp [bind, StateT.bind, get, getThe, MonadStateOf.get, StateT.get, pure, StateT.pure, hm, hk, hc, modify, modifyGet,
        MonadStateOf.modifyGet, StateT.modifyGet] <;> rfl
  · cases hv

theorem rtn_duplicateLine (env : Env) (k v : Text) (s : Col α) (m : DuplicateMode) (h : DuplicateLine env k v m) :
    (metadataA env k v s).2 = { s with duplicateMode := m } := by
  obtain ⟨hm, hk, hv⟩ := h
  unfold duplicateModeOf at hv
  unfold metadataA
  split at hv
  · rename_i hc
    cases hv
    rcases hc with hc | hc <;>
      simp [bind, StateT.bind, get, getThe, MonadStateOf.get, StateT.get, pure, StateT.pure, hm, hk, hc, modify, modifyGet,
        MonadStateOf.modifyGet, StateT.modifyGet] <;> rfl
  split at hv
  · rename_i hc
    cases hv
    rcases hc with hc | hc <;>
      simp [bind, StateT.bind, get, getThe, MonadStateOf.get, StateT.get, pure, StateT.pure, hm, hk, hc, modify, modifyGet,
        MonadStateOf.modifyGet, StateT.modifyGet] <;> rfl
  · cases hv

/-! ### text mode -/

/-- text mode: `Start` opens a TEXT buffer whatever the kind of the block -/
theorem rtn_text_start (env : Env) (input : Str) (kind : BlockKind) (s : Col α) (hd : s.defineMode = .text) :
    (processEvent env input (.start kind) s).2 = { s with block := some (.text []) } := by
  simp [processEvent, modify, modifyGet, MonadStateOf.modifyGet, StateT.modifyGet, pure, StateT.pure, hd]

/-- a text event while a text buffer is open: its shown text is appended (in every mode) -/
theorem rtn_text_text (env : Env) (input : Str) (t : Text) (s : Col α) (buf : Str) (hb : s.block = some (.text buf)) :
    (processEvent env input (.text t) s).2 = { s with block := some (.text (buf ++ t.text)) } := by
  have e : processEvent env input (.text t) s = inStepText env t s := rfl
  rw [e]
  unfold inStepText
  simp [bind, StateT.bind, get, getThe, MonadStateOf.get, StateT.get, pure, StateT.pure, hb, modify, modifyGet,
    MonadStateOf.modifyGet, StateT.modifyGet]

/-- text mode: `End` (whatever the kind) closes the buffer into a text paragraph of the current section —
    nothing when the buffer is empty; it is not a step: the step counter does not move -/
theorem rtn_text_stop (env : Env) (input : Str) (kind : BlockKind) (s : Col α) (buf : Str) (hd : s.defineMode = .text)
    (hb : s.block = some (.text buf)) :
    (processEvent env input (.stop kind) s).2 =
      { s with cur := ⟨s.cur.name, s.cur.content ++ xParaContent buf⟩, block := none } := by
  by_cases hbuf : buf.isEmpty = true <;>
    simp [processEvent, endBlock, endBlockContent, pushContent, Content.isStep, Content.isEmptyContent, hbuf, bind,
      StateT.bind, get, getThe, MonadStateOf.get, StateT.get, pure, StateT.pure, modify, modifyGet,
      MonadStateOf.modifyGet, StateT.modifyGet, hd, hb, xParaContent]

/-- what an item of a block adds to the buffer in text mode: a text its shown text, a component the
    characters of the source it was written with (`&self.input[span.range()]`) -/
def textModePiece (input : Str) : SItem α → Option Str
  | .text t => some t.text
  | .ingredient i => sliceBytes input i.span.start i.span.stop
  | .cookware c => sliceBytes input c.span.start c.span.stop
  | .timer t => sliceBytes input t.span.start t.span.stop

/-- what it reports: a component is "ignored" with a warning placed on it -/
def textModeWarn : SItem α → List Diag
  | .text _ => []
  | .ingredient i => [⟨.warning, .analysis, "component-in-text-mode:ingredient", [i.span]⟩]
  | .cookware c => [⟨.warning, .analysis, "component-in-text-mode:cookware", [c.span]⟩]
  | .timer t => [⟨.warning, .analysis, "component-in-text-mode:timer", [t.span]⟩]

theorem rtn_text_item (env : Env) (input : Str) (it : SItem α) (s : Col α) (buf p : Str)
    (hd : s.defineMode = .text) (hb : s.block = some (.text buf)) (hp : textModePiece input it = some p) :
    (processEvent env input it.ev s).2 =
      { s with block := some (.text (buf ++ p)), diags := s.diags ++ (textModeWarn it).toArray } := by
  cases it with
  | text t =>
    simp only [textModePiece, Option.some.injEq] at hp
    subst hp
    rw [SItem.ev, rtn_text_text env input t s buf hb]
    simp [textModeWarn]
  | ingredient i =>
    have e : processEvent env input (.ingredient i) s = inBlockComponent env input (.ingredient i) s := rfl
    simp only [textModePiece] at hp
    rw [SItem.ev, e]
    unfold inBlockComponent
    simp only [bind, StateT.bind, get, getThe, MonadStateOf.get, StateT.get, pure, StateT.pure, hb]
    unfold inTextComponent
    simp [awarn, modify, modifyGet, MonadStateOf.modifyGet, StateT.modifyGet, hp, pure, StateT.pure, bind, StateT.bind,
      get, getThe, MonadStateOf.get, StateT.get, hd, textModeWarn]
    rfl
  | cookware c =>
    have e : processEvent env input (.cookware c) s = inBlockComponent env input (.cookware c) s := rfl
    simp only [textModePiece] at hp
    rw [SItem.ev, e]
    unfold inBlockComponent
    simp only [bind, StateT.bind, get, getThe, MonadStateOf.get, StateT.get, pure, StateT.pure, hb]
    unfold inTextComponent
    simp [awarn, modify, modifyGet, MonadStateOf.modifyGet, StateT.modifyGet, hp, pure, StateT.pure, bind, StateT.bind,
      get, getThe, MonadStateOf.get, StateT.get, hd, textModeWarn]
    rfl
  | timer t =>
    have e : processEvent env input (.timer t) s = inBlockComponent env input (.timer t) s := rfl
    simp only [textModePiece] at hp
    rw [SItem.ev, e]
    unfold inBlockComponent
    simp only [bind, StateT.bind, get, getThe, MonadStateOf.get, StateT.get, pure, StateT.pure, hb]
    unfold inTextComponent
    simp [awarn, modify, modifyGet, MonadStateOf.modifyGet, StateT.modifyGet, hp, pure, StateT.pure, bind, StateT.bind,
      get, getThe, MonadStateOf.get, StateT.get, hd, textModeWarn]
    rfl

theorem rtn_text_items (env : Env) (input : Str) (rest : List (Ev α)) :
    ∀ (st : List (SItem α)) (pieces : List Str) (s : Col α) (buf : Str), s.defineMode = .text →
      s.block = some (.text buf) → st.map (textModePiece input) = pieces.map some →
      parseEventsLoop env input (st.map SItem.ev ++ rest) s =
        parseEventsLoop env input rest
          { s with block := some (.text (buf ++ pieces.flatten)),
                   diags := s.diags ++ (st.flatMap textModeWarn).toArray } := by
  intro st
  induction st with
  | nil =>
    intro pieces s buf hd hb hp
    cases pieces with
    | nil =>
      have : s = { s with block := some (.text (buf ++ ([] : List Str).flatten)),
                          diags := s.diags ++ (([] : List (SItem α)).flatMap textModeWarn).toArray } := by
        cases s; simp_all
      simp only [List.map_nil, List.nil_append]
      rw [← this]
    | cons p ps => cases hp
  | cons it r ih =>
    intro pieces s buf hd hb hp
    cases pieces with
    | nil => cases hp
    | cons p ps =>
      simp only [List.map_cons, List.cons.injEq] at hp
      rw [List.map_cons, List.cons_append, parseEventsLoop_cons_nonerror env input _ _ _ (rta_ev_not_error it),
        rtn_text_item env input it s buf p hd hb hp.1]
      refine (ih ps _ (buf ++ p) ?_ ?_ hp.2).trans ?_
      · exact hd
      · rfl
      · simp [List.append_assoc]

/-- **A block in text mode.**  `Start`, the items, `End` (of any block kind): the current section gets ONE
    text paragraph made of the pieces of the items (nothing if they are all empty), one warning per
    component is reported, and nothing else changes: no table entry, no step, no step number. -/
theorem rtn_text_block (env : Env) (input : Str) (rest : List (Ev α)) (kind : BlockKind) (st : List (SItem α))
    (pieces : List Str) (s : Col α) (hd : s.defineMode = .text)
    (hp : st.map (textModePiece input) = pieces.map some) :
    parseEventsLoop env input ([Ev.start kind] ++ st.map SItem.ev ++ [Ev.stop kind] ++ rest) s =
      parseEventsLoop env input rest
        { s with cur := ⟨s.cur.name, s.cur.content ++ xParaContent pieces.flatten⟩, block := none,
                 diags := s.diags ++ (st.flatMap textModeWarn).toArray } := by
  have e : [Ev.start kind] ++ st.map SItem.ev ++ [Ev.stop kind] ++ rest =
      Ev.start kind :: (st.map SItem.ev ++ (Ev.stop kind :: rest)) := by simp
  rw [e, parseEventsLoop_cons_nonerror env input _ _ _ (by rintro ⟨d, h⟩; cases h), rtn_text_start env input kind s hd]
  refine (rtn_text_items env input _ st pieces _ [] ?_ ?_ hp).trans ?_
  · exact hd
  · rfl
  rw [parseEventsLoop_cons_nonerror env input _ _ _ (by rintro ⟨d, h⟩; cases h)]
  congr 1
  refine (rtn_text_stop env input kind _ ([] ++ pieces.flatten) ?_ ?_).trans ?_
  · exact hd
  · rfl
  · simp

/-! ### `resolve_reference` in every mode, for components that raise nothing -/

/-- a component that stays a DEFINITION and raises nothing: it has no `&`, and either it has `+` and the mode
    would otherwise have made it a reference (steps mode; duplicate mode `reference` with an earlier
    definition of the name), or it has no `+`, the define mode is not `steps`, and the duplicate mode is `new`
    or the name was not defined before -/
theorem rtn_resolve_def (env : Env) (container : String) (inherit : Nat) (existing : List (Str × Modifiers))
    (name : Str) (mods : Modifiers) (loc modLoc : Span) (s : Col α)
    (hREF : mods.contains Modifiers.REF = false)
    (hq : (mods.contains Modifiers.NEW = true ∧
            (s.defineMode = .steps ∨
              (s.duplicateMode = .reference ∧ (sameNameIdx env existing name).isSome = true))) ∨
          (mods.contains Modifiers.NEW = false ∧ s.defineMode ≠ .steps ∧
            (s.duplicateMode = .new ∨ sameNameIdx env existing name = none))) :
    resolveReference env container inherit existing name mods loc modLoc s = ((mods, none), s) := by
  unfold resolveReference
  rcases hq with ⟨hN, hq⟩ | ⟨hN, hq1, hq2⟩
  · rcases hq with hq | ⟨hq, hf⟩
    · simp [bind, pure, StateT.bind, StateT.pure, get, getThe, MonadStateOf.get, StateT.get, hN, hREF, hq]
    · have hne : sameNameIdx env existing name ≠ none := by intro h; rw [h] at hf; cases hf
      cases hdm : s.defineMode <;>
        simp [bind, pure, StateT.bind, StateT.pure, get, getThe, MonadStateOf.get, StateT.get, hN, hREF, hq, hf, hdm, hne]
  · rcases hq2 with hq2 | hq2
    · cases hdm : s.defineMode <;>
        simp_all [bind, pure, StateT.bind, StateT.pure, get, getThe, MonadStateOf.get, StateT.get]
    · cases hdm : s.defineMode <;> cases hdu : s.duplicateMode <;>
        simp_all [bind, pure, StateT.bind, StateT.pure, get, getThe, MonadStateOf.get, StateT.get]

/-- a component that becomes a REFERENCE and raises nothing: no `+`; it has `&`, or the define mode is
    `steps`, or the duplicate mode is `reference` (then the reference is implicit); an explicit `&` is not
    redundant (default modes only); the name has an earlier non-REF definition, the last one at `t`; no
    modifier that definition lacks.  The outcome: target `t`, the written modifiers plus the inherited ones
    plus REF, `implicit` iff `&` was not written. -/
theorem rtn_resolve_ref (env : Env) (container : String) (inherit : Nat) (existing : List (Str × Modifiers))
    (name : Str) (mods : Modifiers) (loc modLoc : Span) (s : Col α) (t : Nat)
    (hNEW : mods.contains Modifiers.NEW = false)
    (htreat : mods.contains Modifiers.REF = true ∨ s.defineMode = .steps ∨ s.duplicateMode = .reference)
    (hquiet : mods.contains Modifiers.REF = true → s.defineMode ≠ .steps ∧ s.duplicateMode = .new)
    (hfound : sameNameIdx env existing name = some t)
    (hconf : refConflict mods ⟨(((existing[t]?).map (·.2)).getD Modifiers.empty).bits &&& inherit⟩ = 0) :
    resolveReference env container inherit existing name mods loc modLoc s =
      ((⟨mods.bits ||| ((((existing[t]?).map (·.2)).getD Modifiers.empty).bits &&& inherit) ||| Modifiers.REF⟩,
        some ⟨t, !mods.contains Modifiers.REF⟩), s) := by
  have hc : (refConflict mods ⟨(((existing[t]?).map (·.2)).getD Modifiers.empty).bits &&& inherit⟩ != 0) = false := by
    simp [hconf]
  unfold refConflict at hc
  unfold resolveReference
  cases hR : mods.contains Modifiers.REF
  · have ht : s.defineMode = .steps ∨ s.duplicateMode = .reference := by
      rcases htreat with h | h
      · rw [hR] at h; cases h
      · exact h
    cases hdm : s.defineMode <;> cases hdu : s.duplicateMode <;> rw [hdm, hdu] at ht <;>
      first
      | (exfalso; rcases ht with h | h <;> exact absurd h (by decide))
      | simp +instances only [A_bind, A_pure, A_get, A_ite, aerr, awarn, A_modify, hNEW, hR, hfound, hdm, hdu,
          Bool.false_and, Bool.and_false, Bool.false_eq_true, if_false, Bool.true_or, Bool.or_false, Bool.or_self,
          Bool.not_true, Bool.not_false, if_true, Bool.and_true, Bool.and_self, Bool.or_true, Bool.true_and, hc,
          Option.isSome_some, beq_self_eq_true, Bool.false_or,
          show (DefineMode.all == DefineMode.steps) = false from by decide,
          show (DefineMode.components == DefineMode.steps) = false from by decide,
          show (DefineMode.text == DefineMode.steps) = false from by decide,
          show (DefineMode.steps == DefineMode.steps) = true from by decide,
          show (DuplicateMode.new == DuplicateMode.reference) = false from by decide,
          show (DuplicateMode.reference == DuplicateMode.reference) = true from by decide]
  · obtain ⟨h1, h2⟩ := hquiet hR
    have h3 : (s.defineMode == DefineMode.steps) = false := by
      cases hdm : s.defineMode <;> first | rfl | exact absurd hdm h1
    have h4 : (DuplicateMode.new == DuplicateMode.reference) = false := by decide
    simp +instances only [A_bind, A_pure, A_get, A_ite, aerr, awarn, A_modify, hNEW, hR, hfound, h2, h3, h4,
      Bool.false_and, Bool.and_false, Bool.false_eq_true, if_false, Bool.true_or, Bool.or_false, Bool.or_self,
      Bool.not_true, if_true, Bool.and_true, Bool.and_self, hc]

end Cook
