import CookModel.Lemmas.Roundtrip
/-
  C02, the converse clause at value level, for ALL values: a value that contains a token that cannot be
  part of a number (a `-`, a word, …) is not numeric, so with RANGE_VALUES off (and, for `1 kg`,
  ADVANCED_UNITS off so that `parse_quantity` is the regular parser) it is read as a text value.
-/
set_option linter.unusedSectionVars false
set_option linter.unusedSimpArgs false
set_option linter.unusedVariables false
namespace Cook

variable {α : Type} [Arith α]

/-- the token kinds a number is made of -/
def numTokKind (k : TK) : Bool := k == .int || k == .zeroInt || k == .dot || k == .slash

theorem mem_dropWhile_or {p : Tok → Bool} {l : List Tok} {t : Tok} (h : t ∈ l) :
    p t = true ∨ t ∈ l.dropWhile p := by
  induction l with
  | nil => cases h
  | cons a l ih =>
    rw [List.dropWhile_cons]
    by_cases hp : p a = true
    · simp only [hp, if_true]
      rcases List.mem_cons.mp h with rfl | h
      · exact Or.inl hp
      · exact ih h
    · simp only [hp, Bool.false_eq_true, if_false]
      exact Or.inr h

theorem mem_trimTokens_or {l : List Tok} {t : Tok} (h : t ∈ l) :
    isWsComment t.kind = true ∨ t ∈ trimTokens l := by
  unfold trimTokens
  rcases mem_dropWhile_or (p := fun t => isWsComment t.kind) h with h1 | h1
  · exact Or.inl h1
  · rcases mem_dropWhile_or (p := fun t => isWsComment t.kind) (List.mem_reverse.mpr h1) with h2 | h2
    · exact Or.inl h2
    · exact Or.inr (List.mem_reverse.mpr h2)

theorem mem_filter_notWs {l : List Tok} {t : Tok} (h : t ∈ l) :
    isWsComment t.kind = true ∨ t ∈ l.filter notWsComment := by
  by_cases hp : isWsComment t.kind = true
  · exact Or.inl hp
  · right
    rw [List.mem_filter]
    exact ⟨h, by simp [notWsComment, hp]⟩

/-- a numeric value is made of blanks and number tokens only -/
theorem numericValue_some_kinds (tokens : List Tok) (r : Except Diag (Value α))
    (h : numericValue (α := α) tokens = some r) :
    ∀ t ∈ tokens, isWsComment t.kind = true ∨ numTokKind t.kind = true := by
  have key : ∀ t ∈ trimTokens tokens, isWsComment t.kind = true ∨ numTokKind t.kind = true := by
    unfold numericValue at h
    generalize trimTokens tokens = tr at h ⊢
    dsimp only at h
    have h3 : ∀ (x s y : Tok), tr.filter notWsComment = [x, s, y] →
        (x.kind == .int && s.kind == .slash && y.kind == .int) = true →
        ∀ t ∈ tr, isWsComment t.kind = true ∨ numTokKind t.kind = true := by
      intro x s y hf hc t ht
      rcases mem_filter_notWs ht with h1 | h1
      · exact Or.inl h1
      · right
        rw [hf] at h1
        simp only [Bool.and_eq_true, beq_iff_eq] at hc
        simp only [List.mem_cons, List.not_mem_nil, or_false] at h1
        rcases h1 with rfl | rfl | rfl <;> simp [numTokKind, hc.1.1, hc.1.2, hc.2]
    split at h
    · cases h
    · split at h
      · rename_i a
        split at h
        · rename_i hc
          intro t ht
          simp only [List.mem_cons, List.not_mem_nil, or_false] at ht
          subst ht
          right
          simp only [beq_iff_eq] at hc
          simp [numTokKind, hc]
        · cases h
      · rename_i a d b _
        split at h
        · rename_i hc
          intro t ht
          simp only [Bool.and_eq_true, beq_iff_eq] at hc
          have hb : b.kind = .int ∨ b.kind = .zeroInt := by
            have := hc.2
            simpa [isIntLike] using this
          simp only [List.mem_cons, List.not_mem_nil, or_false] at ht
          right
          rcases ht with rfl | rfl | rfl
          · simp [numTokKind, hc.1.1]
          · simp [numTokKind, hc.1.2]
          · rcases hb with hb | hb <;> simp [numTokKind, hb]
        · split at h
          · rename_i x s y hf
            split at h
            · rename_i hc; exact h3 x s y hf hc
            · cases h
          · cases h
      · rename_i d b _
        split at h
        · rename_i hc
          intro t ht
          simp only [Bool.and_eq_true, beq_iff_eq] at hc
          have hb : b.kind = .int ∨ b.kind = .zeroInt := by
            have := hc.2
            simpa [isIntLike] using this
          simp only [List.mem_cons, List.not_mem_nil, or_false] at ht
          right
          rcases ht with rfl | rfl
          · simp [numTokKind, hc.1]
          · rcases hb with hb | hb <;> simp [numTokKind, hb]
        · cases h
      · split at h
        · rename_i i x s y hf
          split at h
          · rename_i hc
            intro t ht
            rcases mem_filter_notWs ht with h1 | h1
            · exact Or.inl h1
            · right
              rw [hf] at h1
              simp only [Bool.and_eq_true, beq_iff_eq] at hc
              simp only [List.mem_cons, List.not_mem_nil, or_false] at h1
              rcases h1 with rfl | rfl | rfl | rfl <;> simp [numTokKind, hc.1.1.1, hc.1.1.2, hc.1.2, hc.2]
          · cases h
        · rename_i x s y hf
          split at h
          · rename_i hc; exact h3 x s y hf hc
          · cases h
        · cases h
  intro t ht
  rcases mem_trimTokens_or ht with h1 | h1
  · exact Or.inl h1
  · exact key t h1

/-- a token that is neither a blank nor part of a number (`-`, a word, `%`, …) -/
def foreignTok (k : TK) : Bool := !isWsComment k && !numTokKind k

theorem numericValue_none_of_foreign (tokens : List Tok) (t : Tok) (ht : t ∈ tokens) (hk : foreignTok t.kind = true) :
    numericValue (α := α) tokens = none := by
  cases h : numericValue (α := α) tokens with
  | none => rfl
  | some r =>
    exfalso
    unfold foreignTok at hk
    simp only [Bool.and_eq_true, Bool.not_eq_true'] at hk
    rcases numericValue_some_kinds tokens r h t ht with h1 | h1
    · rw [hk.1] at h1; cases h1
    · rw [hk.2] at h1; cases h1

/-- with RANGE_VALUES off a value that contains such a token is read as the text value with exactly
    the text of the tokens (trimmed), nothing pushed, the state untouched -/
theorem parseValue_foreign_text {off : Nat} (tokens : List Tok) (s : BP α) (hr : RunAt off tokens)
    (hoff : s.ext.has Gen.EXT_RANGE_VALUES = false) (t : Tok) (ht : t ∈ tokens) (hk : foreignTok t.kind = true)
    (hne : (buildText (valStart tokens s) tokens).isTextEmpty s.cs = false) :
    parseValue tokens s =
      (⟨.text ((buildText (valStart tokens s) tokens).trimmed s.cs), ⟨valStart tokens s, offAt s.toks s.cur⟩⟩, s) := by
  refine parseValue_text_run tokens s hr ?_ hne
  rw [hoff]
  show (match rangeValue (α := α) false tokens with
    | some r => some r
    | none => numericValue tokens) = none
  have : rangeValue (α := α) false tokens = none := rfl
  rw [this]
  exact numericValue_none_of_foreign tokens t ht hk

end Cook
