import CookModel.Lemmas.TrailDoc
/-
  C17 (wave 6, tag `w6d`): the STEP conditions of the round-trip grammar (`DocItem.ok`: every segment
  within the grammar, every component followed as the grammar demands — also the conditions that look
  at the whole rest of the step, `restOK`, `noParenNext`, `shortRestOK`/`noBraceFirst` —, block shape)
  are inherited by the step with filler tokens inserted: obstacle (iii) of notes/audit-C17.md.
-/
set_option linter.unusedSectionVars false
set_option linter.unusedVariables false
set_option linter.unusedSimpArgs false
namespace Cook

/-! ### token lists -/

theorem w6d_find_filler (F : List Tok) (hF : IsFiller F) :
    F.find? (fun t => t.kind == .openBrace || isMarker t.kind) = none := by
  rw [List.find?_eq_none]
  intro t ht
  have := hF t ht
  revert this
  cases t.kind <;> simp [isWsComment, isMarker]

/-- filler shows neither a `{` nor a marker: the first `{`-or-marker of a token list is the same -/
theorem w6d_noBraceFirst (A F B : List Tok) (hF : IsFiller F) : noBraceFirst (A ++ F ++ B) = noBraceFirst (A ++ B) := by
  unfold noBraceFirst
  simp only [List.find?_append, w6d_find_filler F hF, Option.none_or, Option.or_none]

/-- a condition on the first token that every filler token meets survives the insertion -/
theorem w6d_head_all (p : Tok → Bool) (A F B : List Tok) (hF : ∀ t ∈ F, p t = true)
    (h : (A ++ B).head?.all p = true) : (A ++ F ++ B).head?.all p = true := by
  cases A with
  | cons a r => simpa using h
  | nil =>
    cases F with
    | nil => simpa using h
    | cons f r => simpa using hF f (by simp)

theorem w6d_filler_noParen (F : List Tok) (hF : IsFiller F) : ∀ t ∈ F, (t.kind != .openParen) = true := by
  intro t ht
  have := hF t ht
  revert this
  cases t.kind <;> simp [isWsComment]

theorem w6d_filler_noParenWord (F : List Tok) (hF : IsFiller F) :
    ∀ t ∈ F, (t.kind != .openParen && !wordKind t.kind) = true := by
  intro t ht
  have := hF t ht
  revert this
  cases t.kind <;> simp [isWsComment, wordKind]

theorem w6d_restOK (c : AComp) (A F B : List Tok) (hF : IsFiller F) (h : restOK c (A ++ B) = true) :
    restOK c (A ++ F ++ B) = true := by
  unfold restOK at *
  rw [Bool.or_eq_true] at h ⊢
  rcases h with h | h
  · exact Or.inl h
  · exact Or.inr (w6d_head_all _ A F B (w6d_filler_noParen F hF) h)

theorem w6d_noParenNext (A F B : List Tok) (hF : IsFiller F) (h : noParenNext (A ++ B) = true) :
    noParenNext (A ++ F ++ B) = true := w6d_head_all _ A F B (w6d_filler_noParen F hF) h

theorem w6d_shortRestOK (c : AComp) (A F B : List Tok) (hF : IsFiller F) (h : shortRestOK c (A ++ B) = true) :
    shortRestOK c (A ++ F ++ B) = true := by
  unfold shortRestOK at *
  rw [Bool.and_eq_true, Bool.or_eq_true] at h ⊢
  refine ⟨?_, ?_⟩
  · have := w6d_noBraceFirst (spellNote c.note ++ A) F B hF
    simp only [List.append_assoc] at this ⊢
    rw [this]; simpa using h.1
  · rcases h.2 with h2 | h2
    · exact Or.inl h2
    · exact Or.inr (w6d_head_all _ A F B (w6d_filler_noParenWord F hF) h2)

/-! ### segments -/

/-- what follows a COMPONENT is read through the tokens of the rest only, and filler in the rest
    keeps the condition -/
theorem w6d_followOK_comp (seg : SegX) (hseg : seg.isText = false) (R R' : List SegX) (A F B : List Tok)
    (hF : IsFiller F) (e' : R'.flatMap SegX.spell = A ++ F ++ B) (e : R.flatMap SegX.spell = A ++ B)
    (h : seg.followOK R = true) : seg.followOK R' = true := by
  cases seg with
  | text l => cases hseg
  | ingredient c p => simp only [SegX.followOK, e, e'] at h ⊢; exact w6d_restOK c A F B hF h
  | cookware c p => simp only [SegX.followOK, e, e'] at h ⊢; exact w6d_restOK c A F B hF h
  | timer c p => simp only [SegX.followOK, e, e'] at h ⊢; exact w6d_noParenNext A F B hF h
  | ingredient1 c => simp only [SegX.followOK, e, e'] at h ⊢; exact w6d_shortRestOK c A F B hF h
  | cookware1 c => simp only [SegX.followOK, e, e'] at h ⊢; exact w6d_shortRestOK c A F B hF h
  | ingredientI pre post i ip c p => simp only [SegX.followOK, e, e'] at h ⊢; exact w6d_restOK c A F B hF h

/-- what follows a TEXT RUN is read through the kind of the next segment only -/
theorem w6d_followOK_text (l l' : List Tok) (R R' : List SegX)
    (hh : R'.head?.map SegX.isText = R.head?.map SegX.isText) (h : (SegX.text l).followOK R = true) :
    (SegX.text l').followOK R' = true := by
  cases R' with
  | nil => rfl
  | cons a r =>
    cases a with
    | text l' =>
      cases R with
      | nil => simp at hh
      | cons b r2 =>
        cases b <;> simp [SegX.isText] at hh
        simp [SegX.followOK] at h
    | _ => rfl

theorem w6d_text_ok (cs : CharSpec) (e : Ext) (l1 F l2 : List Tok) (hF : IsFiller F)
    (h : (SegX.text (l1 ++ l2)).ok cs e = true) : (SegX.text (l1 ++ F ++ l2)).ok cs e = true := by
  simp only [SegX.ok, Bool.and_eq_true, Bool.not_eq_true', List.isEmpty_eq_false_iff, List.all_eq_true, ne_eq] at h ⊢
  obtain ⟨⟨h1, h2⟩, h3⟩ := h
  refine ⟨⟨?_, ?_⟩, ?_⟩
  · intro h0
    simp only [List.append_eq_nil_iff] at h0
    exact h1 (by rw [h0.1.1, h0.2]; rfl)
  · intro t ht
    simp only [List.mem_append] at ht
    rcases ht with (ht | ht) | ht
    · exact h2 t (List.mem_append_left _ ht)
    · have := hF t ht
      revert this
      cases t.kind <;> simp [isWsComment, isMarker]
    · exact h2 t (List.mem_append_right _ ht)
  · intro h0
    simp only [List.flatMap_append, List.append_eq_nil_iff] at h0
    exact h3 (by simp only [List.flatMap_append, h0.1.1, h0.2]; rfl)

theorem w6d_flatMap_spell_mid (S1 S2 : List SegX) (l : List Tok) :
    (S1 ++ SegX.text l :: S2).flatMap SegX.spell = S1.flatMap SegX.spell ++ l ++ S2.flatMap SegX.spell := by
  simp [List.flatMap_append, SegX.spell]

/-- **filler inside a text run: the segments stay within the grammar**, whatever follow-conditions
    the components in front of the run carry -/
theorem w6d_segsXOK_inText (cs : CharSpec) (e : Ext) (S2 : List SegX) (l1 F l2 : List Tok) (hF : IsFiller F) :
    ∀ S1 : List SegX, segsXOK cs e (S1 ++ SegX.text (l1 ++ l2) :: S2) = true →
      segsXOK cs e (S1 ++ SegX.text (l1 ++ F ++ l2) :: S2) = true := by
  intro S1
  induction S1 with
  | nil =>
    intro h
    simp only [List.nil_append, segsXOK, Bool.and_eq_true] at h ⊢
    exact ⟨⟨w6d_text_ok cs e l1 F l2 hF h.1.1, w6d_followOK_text _ _ S2 S2 rfl h.1.2⟩, h.2⟩
  | cons seg r ih =>
    intro h
    simp only [List.cons_append, segsXOK, Bool.and_eq_true] at h ⊢
    refine ⟨⟨h.1.1, ?_⟩, ih h.2⟩
    cases hs : seg.isText with
    | false =>
      refine w6d_followOK_comp seg hs (r ++ SegX.text (l1 ++ l2) :: S2) _ (r.flatMap SegX.spell ++ l1) F
        (l2 ++ S2.flatMap SegX.spell) hF ?_ ?_ h.1.2
      · rw [w6d_flatMap_spell_mid]; simp [List.append_assoc]
      · rw [w6d_flatMap_spell_mid]; simp [List.append_assoc]
    | true =>
      cases seg with
      | text l =>
        refine w6d_followOK_text l l (r ++ SegX.text (l1 ++ l2) :: S2) _ ?_ h.1.2
        cases r <;> simp [SegX.isText]
      | _ => cases hs

/-- **filler as a text run of its own** between two components / at the start / at the end of the
    step: the run shows something, the segment in front of it and the one behind it are not text -/
theorem w6d_segsXOK_newText (cs : CharSpec) (e : Ext) (S2 : List SegX) (F : List Tok) (hF : IsFiller F)
    (hvis : F.flatMap vis ≠ []) (hS2 : ∀ s, S2.head? = some s → s.isText = false) :
    ∀ S1 : List SegX, (∀ s, S1.getLast? = some s → s.isText = false) → segsXOK cs e (S1 ++ S2) = true →
      segsXOK cs e (S1 ++ SegX.text F :: S2) = true := by
  intro S1
  induction S1 with
  | nil =>
    intro _ h
    simp only [List.nil_append, segsXOK, Bool.and_eq_true] at h ⊢
    refine ⟨⟨?_, ?_⟩, h⟩
    · simp only [SegX.ok, Bool.and_eq_true, Bool.not_eq_true', List.isEmpty_eq_false_iff, List.all_eq_true, ne_eq]
      refine ⟨⟨?_, ?_⟩, hvis⟩
      · intro h0; rw [h0] at hvis; exact hvis rfl
      · intro t ht
        have := hF t ht
        revert this
        cases t.kind <;> simp [isWsComment, isMarker]
    · cases S2 with
      | nil => rfl
      | cons s r =>
        have := hS2 s rfl
        cases s <;> first | rfl | cases this
  | cons seg r ih =>
    intro hlast h
    simp only [List.cons_append, segsXOK, Bool.and_eq_true] at h ⊢
    have hlast' : ∀ s, r.getLast? = some s → s.isText = false := by
      intro s hs
      apply hlast s
      cases r with
      | nil => cases hs
      | cons a r' => simpa [List.getLast?_cons_cons] using hs
    refine ⟨⟨h.1.1, ?_⟩, ih hlast' h.2⟩
    cases hs : seg.isText with
    | false =>
      refine w6d_followOK_comp seg hs (r ++ S2) _ (r.flatMap SegX.spell) F (S2.flatMap SegX.spell) hF ?_ ?_ h.1.2
      · rw [w6d_flatMap_spell_mid]
      · simp [List.flatMap_append]
    | true =>
      cases seg with
      | text l =>
        cases r with
        | nil => exact absurd (hlast _ rfl) (by simp [SegX.isText])
        | cons a r' =>
          refine w6d_followOK_text l l ((a :: r') ++ S2) _ ?_ h.1.2
          simp
      | _ => cases hs

/-! ### the shape of the block -/

theorem w6d_filler_kinds (t : Tok) (h : isWsComment t.kind = true) :
    (t.kind == TK.newline) = false ∧ isEmptyTok t.kind = true ∧ kIsMarker t.kind = false ∧
    (t.kind != .metaStart && t.kind != .eq && t.kind != .textStep) = true := by
  revert h
  cases t.kind <;> simp [isWsComment, isEmptyTok, kIsMarker]

theorem w6d_contShape_ls (nb : Bool) (Y : List TK) (ls : Bool) (h : contShapeK ls nb Y = true) :
    contShapeK false nb Y = true := by
  cases Y with
  | nil => simpa [contShapeK] using h
  | cons k r =>
    simp only [contShapeK] at h ⊢
    split
    · rename_i hk; simpa [hk] using h
    · rename_i hk
      simp only [hk, Bool.false_eq_true, if_false, Bool.and_eq_true] at h
      simpa using h.2

theorem w6d_contShape_filler (F : List Tok) (hF : IsFiller F) (Y : List TK) :
    ∀ (ls nb : Bool), contShapeK ls nb Y = true → contShapeK ls nb (F.map (·.kind) ++ Y) = true := by
  induction F with
  | nil => intro ls nb h; simpa using h
  | cons t r ih =>
    intro ls nb h
    obtain ⟨k1, k2, k3, _⟩ := w6d_filler_kinds t (hF t (by simp))
    simp only [List.map_cons, List.cons_append, contShapeK, k1, Bool.false_eq_true, if_false, k3, Bool.and_false,
      Bool.not_false, Bool.true_and, k2, Bool.not_true, Bool.or_false]
    exact ih (fun x hx => hF x (by simp [hx])) false nb (w6d_contShape_ls nb Y ls h)

theorem w6d_contShape_insert (F : List Tok) (hF : IsFiller F) (Y : List TK) :
    ∀ (X : List TK) (ls nb : Bool), contShapeK ls nb (X ++ Y) = true →
      contShapeK ls nb (X ++ (F.map (·.kind) ++ Y)) = true := by
  intro X
  induction X with
  | nil => intro ls nb h; exact w6d_contShape_filler F hF Y ls nb (by simpa using h)
  | cons k r ih =>
    intro ls nb h
    simp only [List.cons_append, contShapeK] at h ⊢
    split
    · rename_i hk
      simp only [hk, if_true, Bool.and_eq_true] at h
      rw [Bool.and_eq_true]
      exact ⟨h.1, ih _ _ h.2⟩
    · rename_i hk
      simp only [hk, if_false, Bool.false_eq_true, Bool.and_eq_true] at h
      rw [Bool.and_eq_true]
      exact ⟨h.1, ih _ _ h.2⟩

theorem w6d_stepShape (A F B : List Tok) (hF : IsFiller F) (h : stepShape (A ++ B) = true) :
    stepShape (A ++ F ++ B) = true := by
  unfold stepShape at *
  simp only [List.map_append, List.append_assoc] at h ⊢
  exact w6d_contShape_insert F hF _ _ _ _ h

theorem w6d_stepBlockOK (A F B : List Tok) (hF : IsFiller F) (h : stepBlockOK (A ++ B) = true) :
    stepBlockOK (A ++ F ++ B) = true := by
  unfold stepBlockOK at *
  rw [Bool.and_eq_true] at h ⊢
  refine ⟨w6d_head_all _ A F B (fun t ht => (w6d_filler_kinds t (hF t ht)).2.2.2) h.1, ?_⟩
  have h2 := h.2
  simp only [List.any_append, Bool.or_eq_true] at h2 ⊢
  rcases h2 with h2 | h2
  · exact Or.inl (Or.inl h2)
  · exact Or.inr h2

/-- **a step with filler inserted (either form of `SegsIns`) is a block of the grammar again**:
    `DocItem.ok` — segments, follow-conditions, first token, block shape — of the transformed step
    follows from that of the original and from the filler being white space / comment tokens
    (`IsFiller`); for a run of its own: the filler shows something (holds a blank) and is not placed
    directly behind a text run (that insertion is the `inText` form at the end of that run). -/
theorem w6d_step_ok_inText (cs : CharSpec) (e : Ext) (S1 S2 : List SegX) (l1 F l2 : List Tok) (hF : IsFiller F)
    (h : (DocItem.step (S1 ++ SegX.text (l1 ++ l2) :: S2)).ok cs e = true) :
    (DocItem.step (S1 ++ SegX.text (l1 ++ F ++ l2) :: S2)).ok cs e = true := by
  simp only [DocItem.ok, Bool.and_eq_true] at h ⊢
  have e' : (S1 ++ SegX.text (l1 ++ F ++ l2) :: S2).flatMap SegX.spell =
      (S1.flatMap SegX.spell ++ l1) ++ F ++ (l2 ++ S2.flatMap SegX.spell) := by
    rw [w6d_flatMap_spell_mid]; simp [List.append_assoc]
  have e0 : (S1 ++ SegX.text (l1 ++ l2) :: S2).flatMap SegX.spell =
      (S1.flatMap SegX.spell ++ l1) ++ (l2 ++ S2.flatMap SegX.spell) := by
    rw [w6d_flatMap_spell_mid]; simp [List.append_assoc]
  rw [e0] at h
  rw [e']
  exact ⟨⟨w6d_segsXOK_inText cs e S2 l1 F l2 hF S1 h.1.1, w6d_stepBlockOK _ F _ hF h.1.2⟩, w6d_stepShape _ F _ hF h.2⟩

theorem w6d_step_ok_newText (cs : CharSpec) (e : Ext) (S1 S2 : List SegX) (F : List Tok) (hF : IsFiller F)
    (hvis : F.flatMap vis ≠ []) (hS2 : ∀ s, S2.head? = some s → s.isText = false)
    (hS1 : ∀ s, S1.getLast? = some s → s.isText = false)
    (h : (DocItem.step (S1 ++ S2)).ok cs e = true) :
    (DocItem.step (S1 ++ SegX.text F :: S2)).ok cs e = true := by
  simp only [DocItem.ok, Bool.and_eq_true] at h ⊢
  have e' : (S1 ++ SegX.text F :: S2).flatMap SegX.spell = S1.flatMap SegX.spell ++ F ++ S2.flatMap SegX.spell :=
    w6d_flatMap_spell_mid S1 S2 F
  have e0 : (S1 ++ S2).flatMap SegX.spell = S1.flatMap SegX.spell ++ S2.flatMap SegX.spell := by
    simp [List.flatMap_append]
  rw [e0] at h
  rw [e']
  exact ⟨⟨w6d_segsXOK_newText cs e S2 F hF hvis hS2 S1 hS1 h.1.1, w6d_stepBlockOK _ F _ hF h.1.2⟩,
    w6d_stepShape _ F _ hF h.2⟩

/-- the other step-level fields of `DocWF`: a text run is a plain definition -/
theorem w6d_step_simple_inText (S1 S2 : List SegX) (l l' : List Tok)
    (h : (DocItem.step (S1 ++ SegX.text l :: S2)).simple = true) :
    (DocItem.step (S1 ++ SegX.text l' :: S2)).simple = true := by
  simp only [DocItem.simple, List.all_append, List.all_cons, Bool.and_eq_true] at h ⊢
  exact ⟨h.1, by simpa [SegX.simple] using h.2.2⟩

theorem w6d_step_simple_newText (S1 S2 : List SegX) (F : List Tok)
    (h : (DocItem.step (S1 ++ S2)).simple = true) : (DocItem.step (S1 ++ SegX.text F :: S2)).simple = true := by
  simp only [DocItem.simple, List.all_append, List.all_cons, Bool.and_eq_true] at h ⊢
  exact ⟨h.1, by simp [SegX.simple], h.2⟩

/-! ### the document -/

variable {α : Type} [Arith α]

/-- **`DocWF` of the transformed document, filler inside a text run of one step**: every field of
    `DocWF` that speaks of blocks, segments, follow-conditions, separators is DERIVED from the
    original's `DocWF` and `IsFiller F`.  Still asked of the transformed text: its spelling
    (`C17_well_spelled_insertion` reduces it to the filler and its two neighbours), no front-matter
    fence, and — only under INLINE_QUANTITIES — that the inline-quantity scan finds nothing in the
    changed run. -/
theorem w6d_docWF_inText (env : Env) (pre : List Tok) (D1 D2 : List (DocItem × List Tok)) (sep : List Tok)
    (S1 S2 : List SegX) (l1 F l2 : List Tok) (hF : IsFiller F)
    (h : DocWF α env pre (D1 ++ (DocItem.step (S1 ++ SegX.text (l1 ++ l2) :: S2), sep) :: D2))
    (hext : (SegX.text (l1 ++ F ++ l2)).extOK α env)
    (hw : WellSpelled env.cs (pre ++ docSpec (D1 ++ (DocItem.step (S1 ++ SegX.text (l1 ++ F ++ l2) :: S2), sep) :: D2)))
    (hfm : parseFrontmatter env.cs
      (render (pre ++ docSpec (D1 ++ (DocItem.step (S1 ++ SegX.text (l1 ++ F ++ l2) :: S2), sep) :: D2))) = none) :
    DocWF α env pre (D1 ++ (DocItem.step (S1 ++ SegX.text (l1 ++ F ++ l2) :: S2), sep) :: D2) := by
  have hmem : ∀ d ∈ D1 ++ (DocItem.step (S1 ++ SegX.text (l1 ++ F ++ l2) :: S2), sep) :: D2,
      d ∈ D1 ++ (DocItem.step (S1 ++ SegX.text (l1 ++ l2) :: S2), sep) :: D2 ∨
      d = (DocItem.step (S1 ++ SegX.text (l1 ++ F ++ l2) :: S2), sep) := by
    intro d hd
    simp only [List.mem_append, List.mem_cons] at hd ⊢
    rcases hd with hd | hd | hd
    · exact Or.inl (Or.inl hd)
    · exact Or.inr hd
    · exact Or.inl (Or.inr (Or.inr hd))
  have hin : (DocItem.step (S1 ++ SegX.text (l1 ++ l2) :: S2), sep) ∈
      D1 ++ (DocItem.step (S1 ++ SegX.text (l1 ++ l2) :: S2), sep) :: D2 := by simp
  refine ⟨h.hpre, ?_, ?_, ?_, ?_, ?_, hw, hfm⟩
  · intro d hd
    rcases hmem d hd with hd | rfl
    · exact h.ok d hd
    · exact w6d_step_ok_inText env.cs env.ext S1 S2 l1 F l2 hF (h.ok _ hin)
  · intro d hd
    rcases hmem d hd with hd | rfl
    · exact h.simple d hd
    · exact w6d_step_simple_inText S1 S2 _ _ (h.simple _ hin)
  · intro d hd
    rcases hmem d hd with hd | rfl
    · exact h.plain d hd
    · trivial
  · intro d hd
    rcases hmem d hd with hd | rfl
    · exact h.ext d hd
    · intro sg hsg
      have h0 := h.ext _ hin
      simp only [List.mem_append, List.mem_cons] at hsg
      rcases hsg with hsg | rfl | hsg
      · exact h0 sg (by simp [hsg])
      · exact hext
      · exact h0 sg (by simp [hsg])
  · have : (D1 ++ (DocItem.step (S1 ++ SegX.text (l1 ++ F ++ l2) :: S2), sep) :: D2).map (·.2) =
        (D1 ++ (DocItem.step (S1 ++ SegX.text (l1 ++ l2) :: S2), sep) :: D2).map (·.2) := by simp
    rw [this]; exact h.seps

/-- the same for filler as a text run of its own (behind a component / at the start of the step,
    in front of a component / at the end of the step) -/
theorem w6d_docWF_newText (env : Env) (pre : List Tok) (D1 D2 : List (DocItem × List Tok)) (sep : List Tok)
    (S1 S2 : List SegX) (F : List Tok) (hF : IsFiller F) (hvis : F.flatMap vis ≠ [])
    (hS2 : ∀ s, S2.head? = some s → s.isText = false) (hS1 : ∀ s, S1.getLast? = some s → s.isText = false)
    (h : DocWF α env pre (D1 ++ (DocItem.step (S1 ++ S2), sep) :: D2))
    (hext : (SegX.text F).extOK α env)
    (hw : WellSpelled env.cs (pre ++ docSpec (D1 ++ (DocItem.step (S1 ++ SegX.text F :: S2), sep) :: D2)))
    (hfm : parseFrontmatter env.cs
      (render (pre ++ docSpec (D1 ++ (DocItem.step (S1 ++ SegX.text F :: S2), sep) :: D2))) = none) :
    DocWF α env pre (D1 ++ (DocItem.step (S1 ++ SegX.text F :: S2), sep) :: D2) := by
  have hmem : ∀ d ∈ D1 ++ (DocItem.step (S1 ++ SegX.text F :: S2), sep) :: D2,
      d ∈ D1 ++ (DocItem.step (S1 ++ S2), sep) :: D2 ∨ d = (DocItem.step (S1 ++ SegX.text F :: S2), sep) := by
    intro d hd
    simp only [List.mem_append, List.mem_cons] at hd ⊢
    rcases hd with hd | hd | hd
    · exact Or.inl (Or.inl hd)
    · exact Or.inr hd
    · exact Or.inl (Or.inr (Or.inr hd))
  have hin : (DocItem.step (S1 ++ S2), sep) ∈ D1 ++ (DocItem.step (S1 ++ S2), sep) :: D2 := by simp
  refine ⟨h.hpre, ?_, ?_, ?_, ?_, ?_, hw, hfm⟩
  · intro d hd
    rcases hmem d hd with hd | rfl
    · exact h.ok d hd
    · exact w6d_step_ok_newText env.cs env.ext S1 S2 F hF hvis hS2 hS1 (h.ok _ hin)
  · intro d hd
    rcases hmem d hd with hd | rfl
    · exact h.simple d hd
    · exact w6d_step_simple_newText S1 S2 F (h.simple _ hin)
  · intro d hd
    rcases hmem d hd with hd | rfl
    · exact h.plain d hd
    · trivial
  · intro d hd
    rcases hmem d hd with hd | rfl
    · exact h.ext d hd
    · intro sg hsg
      have h0 := h.ext _ hin
      simp only [List.mem_append, List.mem_cons] at hsg
      rcases hsg with hsg | rfl | hsg
      · exact h0 sg (by simp [hsg])
      · exact hext
      · exact h0 sg (by simp [hsg])
  · have : (D1 ++ (DocItem.step (S1 ++ SegX.text F :: S2), sep) :: D2).map (·.2) =
        (D1 ++ (DocItem.step (S1 ++ S2), sep) :: D2).map (·.2) := by simp
    rw [this]; exact h.seps

/-- without INLINE_QUANTITIES the condition on the inline-quantity scan is void -/
theorem w6d_text_extOK_off (env : Env) (hoff : env.ext.has Gen.EXT_INLINE_QUANTITIES = false) (l : List Tok) :
    (SegX.text l).extOK α env := by
  intro hon
  rw [hoff] at hon
  cases hon

end Cook
