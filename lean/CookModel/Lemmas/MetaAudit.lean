import CookModel.Lemmas.MetaParseDiagsReport
import CookModel.Lemmas.MetaFront
import CookModel.Lemmas.CollectorAgree
/-
  C14, audit wave: (1) the only error event the metadata-only parser can emit is the
  `empty-metadata-key` error of `metadata_entry`, so every error of the metadata-only stream is
  also in the full stream: whenever `parse` has output, `parse_metadata` has output too;
  (2) `parse_events` has output exactly when the event list has no error event.
-/
set_option linter.unusedSectionVars false
namespace Cook
variable {α : Type} [Arith α]

/-- an error event that is NOT one of the metadata-line diagnostics -/
def Ev.isForeignErr : Ev α → Bool
  | .error d => !parseMetaKind d.kind
  | _ => false

/-- the foreign error events of a queue -/
def foreignOf (evs : Array (Ev α)) : List (Ev α) := evs.toList.filter Ev.isForeignErr

theorem foreignOf_push (evs : Array (Ev α)) (e : Ev α) :
    foreignOf (evs.push e) = foreignOf evs ++ (if e.isForeignErr then [e] else []) := by
  unfold foreignOf
  rw [Array.toList_push, List.filter_append]
  cases h : e.isForeignErr <;> simp [List.filter, h]

/-- `f` adds no foreign error event to the queue -/
structure EF {β : Type} (f : P α β) : Prop where
  run : ∀ s, foreignOf (f s).2.evs = foreignOf s.evs

theorem EF.pure {β : Type} (a : β) : EF (α := α) (pure a) := ⟨fun _ => rfl⟩

theorem EF.bind {β γ : Type} {f : P α β} {g : β → P α γ}
    (hf : EF f) (hg : ∀ a, EF (g a)) : EF (f >>= g) :=
  ⟨fun s => ((hg (f s).1).run (f s).2).trans (hf.run s)⟩

theorem EF.get : EF (α := α) (get : P α (BP α)) := ⟨fun _ => rfl⟩

theorem EF.modify (k : BP α → BP α) (h : ∀ s, (k s).evs = s.evs) : EF (α := α) (modify k : P α Unit) :=
  ⟨fun s => by show foreignOf (k s).evs = _; rw [h]⟩

syntax "ef_leaf" : tactic
macro_rules | `(tactic| ef_leaf) => `(tactic| with_reducible exact EF.get)
macro_rules | `(tactic| ef_leaf) => `(tactic| with_reducible exact EF.pure _)
macro_rules | `(tactic| ef_leaf) => `(tactic| assumption)

/-- structural decomposition of a `do` block -/
macro "ef" : tactic => `(tactic| repeat' (first
  | intro _
  | ef_leaf
  | dsimp only
  | with_reducible apply EF.bind
  | split))

theorem ef_panicWith (site : String) : EF (α := α) (panicWith site) := by
  unfold panicWith
  apply EF.modify
  intro s; split <;> rfl
macro_rules | `(tactic| ef_leaf) => `(tactic| with_reducible exact ef_panicWith _)

theorem ef_pushEv (e : Ev α) (h : e.isForeignErr = false) : EF (α := α) (pushEv e) := by
  refine ⟨fun s => ?_⟩
  show foreignOf (s.evs.push e) = _
  rw [foreignOf_push, h]; simp

theorem ef_pwarn (k : String) (l : List Span) : EF (α := α) (pwarn k l) := ef_pushEv _ rfl
macro_rules | `(tactic| ef_leaf) => `(tactic| with_reducible exact ef_pwarn _ _)

theorem ef_restToks : EF (α := α) restToks := by unfold restToks; ef
macro_rules | `(tactic| ef_leaf) => `(tactic| with_reducible exact ef_restToks)
theorem ef_tokensSpanP (site : String) (ts : List Tok) : EF (α := α) (tokensSpanP site ts) := by
  unfold tokensSpanP; ef
macro_rules | `(tactic| ef_leaf) => `(tactic| with_reducible exact ef_tokensSpanP _ _)
theorem ef_baseOffset : EF (α := α) baseOffset := by unfold baseOffset; ef
macro_rules | `(tactic| ef_leaf) => `(tactic| with_reducible exact ef_baseOffset)
theorem ef_currentOffset : EF (α := α) currentOffset := by unfold currentOffset; ef
macro_rules | `(tactic| ef_leaf) => `(tactic| with_reducible exact ef_currentOffset)
theorem ef_bpSpan : EF (α := α) bpSpan := by unfold bpSpan; ef
macro_rules | `(tactic| ef_leaf) => `(tactic| with_reducible exact ef_bpSpan)
theorem ef_peekK : EF (α := α) peekK := by unfold peekK; ef
macro_rules | `(tactic| ef_leaf) => `(tactic| with_reducible exact ef_peekK)
theorem ef_atK (k : TK) : EF (α := α) (atK k) := by unfold atK; ef
macro_rules | `(tactic| ef_leaf) => `(tactic| with_reducible exact ef_atK _)

theorem ef_nextToken : EF (α := α) nextToken := by
  refine ⟨fun s => ?_⟩
  simp only [nextToken, bind, StateT.bind, get, getThe, MonadStateOf.get, StateT.get, set, pure]
  cases s.toks[s.cur]? <;> rfl
macro_rules | `(tactic| ef_leaf) => `(tactic| with_reducible exact ef_nextToken)

theorem ef_bumpAny : EF (α := α) bumpAny := by unfold bumpAny; ef
macro_rules | `(tactic| ef_leaf) => `(tactic| with_reducible exact ef_bumpAny)
theorem ef_bump (k : TK) : EF (α := α) (bump k) := by unfold bump; ef
macro_rules | `(tactic| ef_leaf) => `(tactic| with_reducible exact ef_bump _)

theorem ef_untilK (f : TK → Bool) : EF (α := α) (untilK f) := by
  unfold untilK; ef
  exact EF.modify _ (fun _ => rfl)
macro_rules | `(tactic| ef_leaf) => `(tactic| with_reducible exact ef_untilK _)
theorem ef_consumeK (k : TK) : EF (α := α) (consumeK k) := by unfold consumeK; ef
macro_rules | `(tactic| ef_leaf) => `(tactic| with_reducible exact ef_consumeK _)
theorem ef_consumeRest : EF (α := α) consumeRest := by
  unfold consumeRest; ef
  exact EF.modify _ (fun _ => rfl)
macro_rules | `(tactic| ef_leaf) => `(tactic| with_reducible exact ef_consumeRest)
theorem ef_bpText (o : Nat) (ts : List Tok) : EF (α := α) (bpText o ts) := by unfold bpText; ef
macro_rules | `(tactic| ef_leaf) => `(tactic| with_reducible exact ef_bpText _ _)

/-- the one error `metadata_entry` pushes is `empty-metadata-key` -/
theorem ef_perr_key (l : List Span) : EF (α := α) (perr "empty-metadata-key" l) :=
  ef_pushEv _ (by
    show (!parseMetaKind "empty-metadata-key") = false
    decide)
macro_rules | `(tactic| ef_leaf) => `(tactic| with_reducible exact ef_perr_key _)

/-- `metadata_entry` pushes no error other than `empty-metadata-key` -/
theorem ef_metadataEntry : EF (α := α) (metadataEntry (α := α)) := by unfold metadataEntry; ef

/-- one block of the metadata-only parser adds no foreign error -/
theorem runMetaBlock_foreign (cs : CharSpec) (ext : Ext) (b : List Tok) (evs : Array (Ev α)) (p : Option String) :
    foreignOf (runMetaBlock (α := α) cs ext b evs p).1 = foreignOf evs := by
  have h : EF (α := α) (do
      if b.isEmpty then panicWith "BlockParser::new: empty tokens"
      match ← metadataEntry with
      | some ev =>
        pushEv ev
        let s ← get
        if s.cur ≠ s.toks.length then panicWith "Block tokens not parsed"
      | none => pure ()) := by
    have hjp : EF (α := α) (do
        match ← metadataEntry with
        | some ev =>
          pushEv ev
          let s ← get
          if s.cur ≠ s.toks.length then panicWith "Block tokens not parsed"
        | none => pure ()) := by
      refine ⟨fun s => ?_⟩
      have hret := metadataEntry_ret (α := α) s
      have hev := ef_metadataEntry.run (α := α) s
      show foreignOf ((match (metadataEntry (α := α) s).1 with
        | some ev => (do
          pushEv ev
          let s ← get
          if s.cur ≠ s.toks.length then panicWith "Block tokens not parsed" : P α Unit)
        | none => pure ()) (metadataEntry (α := α) s).2).2.evs = _
      cases hr : (metadataEntry (α := α) s).1 with
      | none => exact hev
      | some ev =>
        obtain ⟨k, v, rfl⟩ := hret ev hr
        have h2 : EF (α := α) (do
            pushEv (.metadata k v)
            let s ← get
            if s.cur ≠ s.toks.length then panicWith "Block tokens not parsed" : P α Unit) := by
          apply EF.bind (ef_pushEv _ rfl)
          ef
        exact (h2.run _).trans hev
    dsimp only
    split
    · exact EF.bind (ef_panicWith _) (fun _ => hjp)
    · exact hjp
  exact h.run ⟨b, 0, ext, cs, evs, p⟩

theorem fold_runMetaBlock_foreign (cs : CharSpec) (ext : Ext) : ∀ (bs : List (List Tok))
    (acc : Array (Ev α) × Option String),
    foreignOf (bs.foldl (fun acc b => runMetaBlock (α := α) cs ext b acc.1 acc.2) acc).1 = foreignOf acc.1 := by
  intro bs
  induction bs with
  | nil => intro acc; rfl
  | cons b bs ih => intro acc; simp only [List.foldl_cons]; rw [ih, runMetaBlock_foreign]

/-- **every error event of the metadata-only parser is a metadata-line error**
    (`empty-metadata-key`), for every input -/
theorem pullMetaEvents_errors_are_meta (cs : CharSpec) (ext : Ext) (input : List Char) (d : Diag)
    (h : Ev.error d ∈ (pullMetaEvents (α := α) cs ext input).1.toList) : parseMetaKind d.kind = true := by
  have hf : foreignOf (pullMetaEvents (α := α) cs ext input).1 = [] := by
    unfold pullMetaEvents
    cases parseFrontmatter cs input with
    | none => simp only; rw [fold_runMetaBlock_foreign]; rfl
    | some fm => rfl
  cases hk : parseMetaKind d.kind with
  | true => rfl
  | false =>
    have : Ev.error d ∈ foreignOf (pullMetaEvents (α := α) cs ext input).1 :=
      List.mem_filter.2 ⟨h, by simp [Ev.isForeignErr, hk]⟩
    rw [hf] at this
    simp at this

/-! ### `parse_events` has output iff the events carry no error -/

theorem loop_has_output (env : Env) (input : Str) : ∀ (l : List (Ev α)) (s : Col α),
    (∀ ev ∈ l, ev.isErr = false) → (parseEventsLoop env input l s).output.isSome = true := by
  intro l
  induction l with
  | nil => intro s _; simp [parseEventsLoop]
  | cons ev rest ih =>
    intro s h
    have hr : ∀ e ∈ rest, e.isErr = false := fun e he => h e (List.mem_cons_of_mem _ he)
    cases ev with
    | error d => have := h (.error d) (List.mem_cons_self ..); simp [Ev.isErr] at this
    | _ => simp only [parseEventsLoop]; exact ih _ hr

/-- `parse_events` returns an output exactly when no event is a parser error -/
theorem parseEvents_output_iff (env : Env) (input : Str) (l : List (Ev α)) :
    (parseEvents env input l).output.isSome = true ↔ ∀ ev ∈ l, ev.isErr = false := by
  constructor
  · intro h
    obtain ⟨r, hr⟩ := Option.isSome_iff_exists.1 h
    exact (loop_output env input l _ r hr).1
  · exact loop_has_output env input l _

/-- **whenever `parse` has output, `parse_metadata` has output**, for every input and environment:
    the only error the metadata-only parser can emit is an `empty-metadata-key` error, and (without
    front matter) the full parser emits the same one; with front matter the metadata-only parser
    emits no error at all. -/
theorem full_output_gives_meta_output (env : Env) (input : Str)
    (h1 : (parseRecipe (α := α) env input).output.isSome = true) :
    (parseMetadata (α := α) env input).output.isSome = true := by
  cases hf : parseFrontmatter env.cs input with
  | some fm =>
    obtain ⟨r2, e, _⟩ := analysis_front_meta (α := α) env input fm hf
    rw [e]; rfl
  | none =>
    have h1' : (parseEvents (α := α) env input (pullEvents (α := α) env.cs env.ext input).1.toList).output.isSome = true := h1
    show (parseEvents (α := α) env input (pullMetaEvents (α := α) env.cs env.ext input).1.toList).output.isSome = true
    rw [parseEvents_output_iff] at h1' ⊢
    intro ev hev
    cases ev with
    | error d =>
      have hk := pullMetaEvents_errors_are_meta env.cs env.ext input d hev
      have ht : Ev.error d ∈ (pullMetaEvents (α := α) env.cs env.ext input).1.toList.filter Ev.isTrace :=
        List.mem_filter.2 ⟨hev, by simpa [Ev.isTrace] using hk⟩
      have hta : traceOf (pullMetaEvents (α := α) env.cs env.ext input).1 =
          traceOf (pullEvents (α := α) env.cs env.ext input).1 :=
        (metadata_trace_agree env.cs env.ext input hf).symm
      unfold traceOf at hta
      rw [hta] at ht
      exact h1' _ (List.mem_filter.1 ht).1
    | _ => rfl

/-! ### the metadata a caller sees, for an arbitrary YAML decoder -/

/-- `Recipe::metadata` / the result of `parse_metadata`, as a function of the collector state and
    of the external YAML decoder: with a front-matter event the map is what `process_frontmatter`
    makes of the YAML slice (`serde_yaml::from_str` + std-key checks; the code REPLACES the map by
    the decoded mapping), otherwise it is the `>>` map.  `decode` stands for that external
    function of the slice (text and offset). -/
def Col.metadataOut {β : Type} (decode : Text → β) (r : Col α) : List (Str × Str) ⊕ β :=
  match r.frontMatter with
  | some t => .inr (decode t)
  | none => .inl r.metaMap

theorem metadataOut_agree {β : Type} (decode : Text → β) (env : Env) (input : Str) (r1 r2 : Col α)
    (h1 : (parseRecipe (α := α) env input).output = some r1)
    (h2 : (parseMetadata (α := α) env input).output = some r2) :
    r1.metadataOut decode = r2.metadataOut decode := by
  have e := analysis_agree_all env input r1 r2 h1 h2
  have e1 : r1.frontMatter = r2.frontMatter := congrArg MS.frontMatter e
  have e2 : r1.metaMap = r2.metaMap := congrArg MS.metaMap e
  unfold Col.metadataOut
  rw [e1, e2]

end Cook
