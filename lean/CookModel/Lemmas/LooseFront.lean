import CookModel.Lemmas.RecipeSimBlank
import CookModel.Lemmas.SimFront
/-
  C17, wave 5 (tag `bl17`): blank / comment-only lines AROUND the front matter.

  `bl17_frontmatter_intro`: what `parse_frontmatter` returns on a source of the shape
  `blank lines, fence, YAML lines, fence, rest`, for ANY rest `X` — the YAML text, the rest, and the
  two offsets.  Hence
  * a further blank line in front of the opening fence (`bl17_frontmatter_leading_blank`): the same
    YAML text and recipe text, offsets shifted;
  * anything inserted directly behind the closing fence (`bl17_frontmatter_after_fence`): the same
    YAML text at the same offset, the recipe text with the insertion in front.
  Then the events of the whole `PullParser` run and the recipe (`bl17_blank_before_front_events`,
  `bl17_line_after_front_events`, `…_recipe`).

  A comment-only line IN FRONT of the opening fence is not covered and not true: `parse_frontmatter`
  accepts only lines that are blank under `str::trim` there (a comment is Cooklang, the front
  matter is looked for before the lexer runs); see notes/audit-C17.md, O6.
-/
set_option linter.unusedSectionVars false
set_option linter.unusedVariables false
set_option linter.unusedSimpArgs false
namespace Cook

/-- a complete source line: no line feed inside, one at the end -/
def StrLine (l : List Char) : Prop := ∃ w, l = w ++ ['\n'] ∧ '\n' ∉ w

theorem bl17_split_line (w s : List Char) (hw : '\n' ∉ w) :
    splitInclusive (w ++ '\n' :: s) = (w ++ ['\n']) :: splitInclusive s := by
  induction w with
  | nil => simp [splitInclusive]
  | cons c r ih =>
    have hc : c ≠ '\n' := fun h => hw (by simp [h])
    have hr : '\n' ∉ r := fun h => hw (by simp [h])
    simp only [List.cons_append, splitInclusive, hc, if_false, ih hr]

theorem bl17_split_lines (L : List (List Char)) (hL : ∀ l ∈ L, StrLine l) (X : List Char) :
    splitInclusive (L.flatten ++ X) = L ++ splitInclusive X := by
  induction L with
  | nil => rfl
  | cons l r ih =>
    obtain ⟨w, rfl, hw⟩ := hL l (by simp)
    have := bl17_split_line w (r.flatten ++ X) hw
    simp only [List.flatten_cons, List.append_assoc, List.cons_append, List.nil_append] at this ⊢
    rw [this, ih (fun x hx => hL x (by simp [hx]))]

theorem bl17_lwo_append (A B : List (List Char)) (off : Nat) :
    linesWithOffset (A ++ B) off = linesWithOffset A off ++ linesWithOffset B (off + utf8Len A.flatten) := by
  induction A generalizing off with
  | nil => simp [linesWithOffset, utf8Len]
  | cons a r ih =>
    simp only [List.cons_append, linesWithOffset, ih, List.flatten_cons, utf8Len_append]
    rw [Nat.add_assoc]

theorem bl17_lwo_mem (A : List (List Char)) (off : Nat) : ∀ p ∈ linesWithOffset A off, p.1 ∈ A := by
  induction A generalizing off with
  | nil => intro p hp; simp [linesWithOffset] at hp
  | cons a r ih =>
    intro p hp
    simp only [linesWithOffset, List.mem_cons] at hp
    rcases hp with rfl | hp
    · simp
    · exact List.mem_cons_of_mem _ (ih _ p hp)

theorem bl17_takeWhile_app {β : Type} (p : β → Bool) (A R : List β) (h : ∀ a ∈ A, p a = true) :
    (A ++ R).takeWhile p = A ++ R.takeWhile p := by
  induction A with
  | nil => rfl
  | cons a r ih => simp [List.takeWhile_cons, h a (by simp), ih (fun x hx => h x (by simp [hx]))]

theorem bl17_dropWhile_app {β : Type} (p : β → Bool) (A R : List β) (h : ∀ a ∈ A, p a = true) :
    (A ++ R).dropWhile p = R.dropWhile p := by
  induction A with
  | nil => rfl
  | cons a r ih => simp [List.dropWhile_cons, h a (by simp), ih (fun x hx => h x (by simp [hx]))]

theorem bl17_blank_not_fence (cs : CharSpec) (l : List Char) (h : (trim cs.uws l).isEmpty = true) : isFence cs l = false := by
  rw [simfront_trim_isEmpty] at h
  have := tsp_trimEnd_append cs.uws [] l h
  simp only [List.nil_append] at this
  unfold isFence
  rw [this]
  simp [trimEnd]

/-- **the front matter of `blank lines, fence, YAML lines, fence, X`** -/
theorem bl17_frontmatter_intro (cs : CharSpec) (B Y : List (List Char)) (f1 f2 X : List Char)
    (hB : ∀ l ∈ B, StrLine l ∧ (trim cs.uws l).isEmpty = true)
    (hf1 : StrLine f1 ∧ isFence cs f1 = true) (hY : ∀ l ∈ Y, StrLine l ∧ isFence cs l = false)
    (hf2 : StrLine f2 ∧ isFence cs f2 = true) :
    parseFrontmatter cs (B.flatten ++ (f1 ++ (Y.flatten ++ (f2 ++ X)))) =
      some ⟨Y.flatten, utf8Len B.flatten + utf8Len f1, X,
        utf8Len B.flatten + utf8Len f1 + utf8Len Y.flatten + utf8Len f2⟩ := by
  have hin : B.flatten ++ (f1 ++ (Y.flatten ++ (f2 ++ X))) = (B ++ f1 :: (Y ++ [f2])).flatten ++ X := by simp
  have hL : ∀ l ∈ B ++ f1 :: (Y ++ [f2]), StrLine l := by
    intro l hl
    simp only [List.mem_append, List.mem_cons, List.mem_singleton, List.not_mem_nil, or_false] at hl
    rcases hl with hl | rfl | hl | rfl
    · exact (hB l hl).1
    · exact hf1.1
    · exact (hY l hl).1
    · exact hf2.1
  unfold parseFrontmatter
  rw [hin, bl17_split_lines _ hL X]
  have e1 : linesWithOffset (B ++ f1 :: (Y ++ [f2]) ++ splitInclusive X) 0 =
      linesWithOffset B 0 ++ ((f1, utf8Len B.flatten) ::
        (linesWithOffset Y (utf8Len B.flatten + utf8Len f1) ++
          ((f2, utf8Len B.flatten + utf8Len f1 + utf8Len Y.flatten) ::
            linesWithOffset (splitInclusive X) (utf8Len B.flatten + utf8Len f1 + utf8Len Y.flatten + utf8Len f2)))) := by
    rw [List.append_assoc, bl17_lwo_append]
    simp only [List.cons_append, linesWithOffset, Nat.zero_add, bl17_lwo_append, List.nil_append]
    simp [utf8Len_append, utf8Len, Nat.add_assoc]
  rw [e1]
  have hBp : ∀ a ∈ linesWithOffset B 0, (!isFence cs a.1) = true := by
    intro a ha
    rw [bl17_blank_not_fence cs a.1 (hB a.1 (bl17_lwo_mem B 0 a ha)).2]; rfl
  have hYp : ∀ a ∈ linesWithOffset Y (utf8Len B.flatten + utf8Len f1), (!isFence cs a.1) = true := by
    intro a ha
    rw [(hY a.1 (bl17_lwo_mem Y _ a ha)).2]; rfl
  have hBb : (linesWithOffset B 0).all (fun l => (trim cs.uws l.1).isEmpty) = true := by
    rw [List.all_eq_true]
    intro a ha
    exact (hB a.1 (bl17_lwo_mem B 0 a ha)).2
  simp only [bl17_takeWhile_app _ _ _ hBp, bl17_dropWhile_app _ _ _ hBp, List.takeWhile_cons, List.dropWhile_cons, hf1.2,
    Bool.not_true, Bool.false_eq_true, if_false, List.append_nil, hBb, Bool.not_true, bl17_takeWhile_app _ _ _ hYp,
    bl17_dropWhile_app _ _ _ hYp, hf2.2, blocks_linesWithOffset_text, blocks_splitInclusive_flatten]

/-- **a further blank line in front of everything** (in front of the blank lines and the opening
    fence): the same front matter, offsets shifted by the length of the line -/
theorem bl17_frontmatter_leading_blank (cs : CharSpec) (e : List Char) (B Y : List (List Char)) (f1 f2 X : List Char)
    (he : StrLine e ∧ (trim cs.uws e).isEmpty = true)
    (hB : ∀ l ∈ B, StrLine l ∧ (trim cs.uws l).isEmpty = true)
    (hf1 : StrLine f1 ∧ isFence cs f1 = true) (hY : ∀ l ∈ Y, StrLine l ∧ isFence cs l = false)
    (hf2 : StrLine f2 ∧ isFence cs f2 = true) :
    parseFrontmatter cs (e ++ (B.flatten ++ (f1 ++ (Y.flatten ++ (f2 ++ X))))) =
      some ⟨Y.flatten, utf8Len e + (utf8Len B.flatten + utf8Len f1), X,
        utf8Len e + (utf8Len B.flatten + utf8Len f1 + utf8Len Y.flatten + utf8Len f2)⟩ := by
  have := bl17_frontmatter_intro cs (e :: B) Y f1 f2 X
    (by intro l hl; rcases List.mem_cons.1 hl with rfl | hl; exact he; exact hB l hl) hf1 hY hf2
  simp only [List.flatten_cons, List.append_assoc, utf8Len_append] at this
  rw [this]
  congr 2 <;> omega

variable {α : Type} [Arith α]

theorem bl17_lex_tokSim (cs : CharSpec) (o' o : Nat) (x : List Char) : LRel TokSim (lexFrom cs o' x) (lexFrom cs o x) :=
  lrel_sameKT_tokSim (lexFrom_offset_sameKT cs o' o x) (fun t ht => (lexFrom_kindText cs o x t ht).2.2.1)

theorem bl17_fromStr_sim (uws : Char → Bool) (y : List Char) (o' o : Nat) : TextSim uws (Text.fromStr y o') (Text.fromStr y o) := by
  unfold Text.fromStr
  exact TextSim.appendStr (t' := Text.empty o') (t := Text.empty o) .nil y o' o

/-- two sources with the same front matter (same YAML text, same recipe text, any offsets): related events -/
theorem bl17_pullEvents_same_front (cs : CharSpec) (hu : UwsNL cs) (ext : Ext) (s' s : List Char) (fm' fm : FrontMatter)
    (h' : parseFrontmatter cs s' = some fm') (h : parseFrontmatter cs s = some fm)
    (hy : fm'.yamlText = fm.yamlText) (hc : fm'.cookText = fm.cookText) :
    LRel (EvSim cs.uws) (pullEvents (α := α) cs ext s').1.toList (pullEvents (α := α) cs ext s).1.toList := by
  unfold pullEvents
  simp only [h', h, hy, hc]
  have hb := sim_allBlocks (R := TokSim) tokSim_kindPres ((lexFrom cs fm'.cookOffset fm.cookText).length + 1)
    (bl17_lex_tokSim cs fm'.cookOffset fm.cookOffset fm.cookText)
  rw [LRel.length_eq (bl17_lex_tokSim cs fm'.cookOffset fm.cookOffset fm.cookText)] at hb ⊢
  refine foldl_runBlock_relF hu ext false hb ?_
  exact .cons (Or.inl (bl17_fromStr_sim cs.uws fm.yamlText fm'.yamlOffset fm.yamlOffset)) .nil

/-- **Blank line in front of the front matter: the same events** (all spans shifted) -/
theorem bl17_blank_before_front_events (cs : CharSpec) (hu : UwsNL cs) (ext : Ext) (e : List Char)
    (B Y : List (List Char)) (f1 f2 X : List Char)
    (he : StrLine e ∧ (trim cs.uws e).isEmpty = true)
    (hB : ∀ l ∈ B, StrLine l ∧ (trim cs.uws l).isEmpty = true)
    (hf1 : StrLine f1 ∧ isFence cs f1 = true) (hY : ∀ l ∈ Y, StrLine l ∧ isFence cs l = false)
    (hf2 : StrLine f2 ∧ isFence cs f2 = true) :
    LRel (EvSim cs.uws)
      (pullEvents (α := α) cs ext (e ++ (B.flatten ++ (f1 ++ (Y.flatten ++ (f2 ++ X)))))).1.toList
      (pullEvents (α := α) cs ext (B.flatten ++ (f1 ++ (Y.flatten ++ (f2 ++ X))))).1.toList :=
  bl17_pullEvents_same_front cs hu ext _ _ _ _ (bl17_frontmatter_leading_blank cs e B Y f1 f2 X he hB hf1 hY hf2)
    (bl17_frontmatter_intro cs B Y f1 f2 X hB hf1 hY hf2) rfl rfl

/-- **Blank / comment-only line directly behind the closing fence: the same events.**  `e` is any
    source line that lexes (at the offset behind the fence) to an empty line: blanks, tabs, a
    `-- comment`, a `[- block comment -]`. -/
theorem bl17_line_after_front_events (cs : CharSpec) (hu : UwsNL cs) (ext : Ext) (e : List Char)
    (B Y : List (List Char)) (f1 f2 X : List Char)
    (hB : ∀ l ∈ B, StrLine l ∧ (trim cs.uws l).isEmpty = true)
    (hf1 : StrLine f1 ∧ isFence cs f1 = true) (hY : ∀ l ∈ Y, StrLine l ∧ isFence cs l = false)
    (hf2 : StrLine f2 ∧ isFence cs f2 = true)
    (hE : EmptyLine (lexFrom cs (utf8Len B.flatten + utf8Len f1 + utf8Len Y.flatten + utf8Len f2) e)) :
    LRel (EvSim cs.uws)
      (pullEvents (α := α) cs ext (B.flatten ++ (f1 ++ (Y.flatten ++ (f2 ++ (e ++ X)))))).1.toList
      (pullEvents (α := α) cs ext (B.flatten ++ (f1 ++ (Y.flatten ++ (f2 ++ X))))).1.toList := by
  unfold pullEvents
  simp only [bl17_frontmatter_intro cs B Y f1 f2 (e ++ X) hB hf1 hY hf2, bl17_frontmatter_intro cs B Y f1 f2 X hB hf1 hY hf2]
  generalize hco : utf8Len B.flatten + utf8Len f1 + utf8Len Y.flatten + utf8Len f2 = co at hE ⊢
  have hlex : lexFrom cs co (e ++ X) = lexFrom cs co e ++ lexFrom cs (co + utf8Len e) X :=
    lexFrom_append_nl cs co e X hE.1.endsNL
  have hb : LRel (LRel TokSim) (blocksOf (lexFrom cs co e ++ lexFrom cs (co + utf8Len e) X)) (blocksOf (lexFrom cs co X)) :=
    blocks_leading_empty_line_rel tokSim_kindPres _ _ hE _ (bl17_lex_tokSim cs (co + utf8Len e) co X)
  rw [hlex]
  exact foldl_runBlock_relF hu ext false hb
    (.cons (Or.inl (bl17_fromStr_sim cs.uws Y.flatten _ _)) .nil)

/-- … and the same recipe (`ResSim`: equal recipe content, same validity), when the text-mode slice
    branch is not taken (always so with MODES off) -/
theorem bl17_blank_before_front_recipe (env : Env) (hu : UwsNL env.cs) (e : List Char)
    (B Y : List (List Char)) (f1 f2 X : List Char)
    (he : StrLine e ∧ (trim env.cs.uws e).isEmpty = true)
    (hB : ∀ l ∈ B, StrLine l ∧ (trim env.cs.uws l).isEmpty = true)
    (hf1 : StrLine f1 ∧ isFence env.cs f1 = true) (hY : ∀ l ∈ Y, StrLine l ∧ isFence env.cs l = false)
    (hf2 : StrLine f2 ∧ isFence env.cs f2 = true)
    (hf : TextModeFree env (B.flatten ++ (f1 ++ (Y.flatten ++ (f2 ++ X))))
      (pullEvents (α := α) env.cs env.ext (B.flatten ++ (f1 ++ (Y.flatten ++ (f2 ++ X))))).1.toList {}) :
    ResSim env.cs.uws (parseRecipe (α := α) env (e ++ (B.flatten ++ (f1 ++ (Y.flatten ++ (f2 ++ X))))))
      (parseRecipe (α := α) env (B.flatten ++ (f1 ++ (Y.flatten ++ (f2 ++ X))))) := by
  unfold parseRecipe
  exact (parseEvents_sim env _ _ (bl17_blank_before_front_events env.cs hu env.ext e B Y f1 f2 X he hB hf1 hY hf2) hf).setPanic _ _

theorem bl17_line_after_front_recipe (env : Env) (hu : UwsNL env.cs) (e : List Char)
    (B Y : List (List Char)) (f1 f2 X : List Char)
    (hB : ∀ l ∈ B, StrLine l ∧ (trim env.cs.uws l).isEmpty = true)
    (hf1 : StrLine f1 ∧ isFence env.cs f1 = true) (hY : ∀ l ∈ Y, StrLine l ∧ isFence env.cs l = false)
    (hf2 : StrLine f2 ∧ isFence env.cs f2 = true)
    (hE : EmptyLine (lexFrom env.cs (utf8Len B.flatten + utf8Len f1 + utf8Len Y.flatten + utf8Len f2) e))
    (hf : TextModeFree env (B.flatten ++ (f1 ++ (Y.flatten ++ (f2 ++ X))))
      (pullEvents (α := α) env.cs env.ext (B.flatten ++ (f1 ++ (Y.flatten ++ (f2 ++ X))))).1.toList {}) :
    ResSim env.cs.uws (parseRecipe (α := α) env (B.flatten ++ (f1 ++ (Y.flatten ++ (f2 ++ (e ++ X))))))
      (parseRecipe (α := α) env (B.flatten ++ (f1 ++ (Y.flatten ++ (f2 ++ X))))) := by
  unfold parseRecipe
  exact (parseEvents_sim env _ _ (bl17_line_after_front_events env.cs hu env.ext e B Y f1 f2 X hB hf1 hY hf2 hE) hf).setPanic _ _

end Cook
