import CookModel.Lemmas.StdMetaNumber
import CookModel.Lemmas.StdMetaCompact
/-
  `parse_time_with_units`, the float fall-back and `parse_time` over `Rat` against the Spec.
-/
namespace Cook.SM
open Cook Spec Gen.SM

/-! ### split_whitespace -/

theorem split_sep_cons {p : Char → Bool} {c : Char} (t : Str) (h : p c = true) : split p (c :: t) = [] :: split p t := by
  simp [split, splitAux, h]

theorem words_ws_cons {c : Char} (t : Str) (h : isWs c = true) : words (c :: t) = words t := by
  simp [words, split_sep_cons t h]

theorem words_ws_append {g : Str} (hg : AllSat isWs g) (t : Str) : words (g ++ t) = words t := by
  induction g with
  | nil => rfl
  | cons c cs ih =>
    rw [List.cons_append, words_ws_cons _ (hg c (by simp))]
    exact ih (fun d hd => hg d (by simp [hd]))

theorem words_nil : words [] = [] := by simp [words, split, splitAux]

theorem words_word {w rest : Str} (hne : w ≠ []) (hw : NoneSat isWs w) (hr : StopsAt (fun c => !isWs c) rest) :
    words (w ++ rest) = w :: words rest := by
  have hwne : (!w.isEmpty) = true := by cases w with
    | nil => exact absurd rfl hne
    | cons c t => rfl
  rcases hr with rfl | ⟨c, r, rfl, hc⟩
  · simp only [List.append_nil, words_nil]
    simp [words, split, splitAux_nosep hw, hwne]
  · have hc' : isWs c = true := by simpa using hc
    rw [words_ws_cons r hc']
    simp only [words, split, splitAux_append_sep hw hc']
    simp [hwne]

theorem words_of_spec {s : Str} {ws : List Str} (h : Words s ws) : words s = ws := by
  induction h with
  | nil hg =>
    have := words_ws_append hg []
    rw [List.append_nil] at this
    rw [this, words_nil]
  | cons hg hne hw hr _ ih =>
    rw [List.append_assoc, words_ws_append hg, words_word hne hw hr, ih]

theorem spec_words (s : Str) : Words s (words s) := by
  have hs : s.takeWhile isWs ++ s.dropWhile isWs = s := List.takeWhile_append_dropWhile
  have hg : AllSat isWs (s.takeWhile isWs) := takeWhile_all s
  rcases dropWhile_stops (p := isWs) s with h | ⟨c, r, h, hc⟩
  · rw [h, List.append_nil] at hs
    have hw : words s = [] := by
      have := words_ws_append hg []
      rw [List.append_nil, hs] at this
      rw [this, words_nil]
    rw [hw, ← hs]
    exact Words.nil hg
  · -- the first word and what follows it
    let s' := s.dropWhile isWs
    have hs' : s' = c :: r := h
    have hsplit : s'.takeWhile (fun c => !isWs c) ++ s'.dropWhile (fun c => !isWs c) = s' :=
      List.takeWhile_append_dropWhile
    have hw : NoneSat isWs (s'.takeWhile (fun c => !isWs c)) := by
      intro d hd
      have := takeWhile_all (p := fun c => !isWs c) s' d hd
      simpa using this
    have hne : s'.takeWhile (fun c => !isWs c) ≠ [] := by
      rw [hs']; simp [List.takeWhile, hc]
    have hstop : StopsAt (fun c => !isWs c) (s'.dropWhile (fun c => !isWs c)) := dropWhile_stops s'
    have hlen : (s'.dropWhile (fun c => !isWs c)).length < s.length := by
      have h1 : s.length = (s.takeWhile isWs).length + s'.length := by
        have := congrArg List.length hs
        rw [List.length_append] at this; exact this.symm
      have h2 : s'.length = (s'.takeWhile (fun c => !isWs c)).length + (s'.dropWhile (fun c => !isWs c)).length := by
        have := congrArg List.length hsplit
        rw [List.length_append] at this; exact this.symm
      have h3 : 0 < (s'.takeWhile (fun c => !isWs c)).length := List.length_pos_iff.mpr hne
      omega
    have ih := spec_words (s'.dropWhile (fun c => !isWs c))
    have hwords : words s = s'.takeWhile (fun c => !isWs c) :: words (s'.dropWhile (fun c => !isWs c)) := by
      conv => lhs; rw [← hs]
      rw [words_ws_append hg]
      show words s' = _
      conv => lhs; rw [← hsplit]
      exact words_word hne hw hstop
    rw [hwords]
    have hfull : s = s.takeWhile isWs ++ s'.takeWhile (fun c => !isWs c) ++ s'.dropWhile (fun c => !isWs c) := by
      rw [List.append_assoc, hsplit]; exact hs.symm
    rw [hfull]
    exact Words.cons hg hne hw hstop ih
termination_by s.length

/-- `split_whitespace` is characterised by `Spec.Words` -/
theorem words_iff (s : Str) (ws : List Str) : words s = ws ↔ Words s ws :=
  ⟨fun h => h ▸ spec_words s, words_of_spec⟩

/-! ### rounding -/

theorem roundMinutes_rat (x : Rat) (n : Nat) : roundMinutes x = some n ↔ (n : Int) = ratRound x ∧ n < u32Bound := by
  have hm1 : SM.u32Max = 4294967295 := rfl
  have hm2 : Cook.u32Max = 4294967295 := rfl
  have hb : u32Bound = 4294967296 := rfl
  have c1 : (((0 : Nat) : Rat) ≤ ((ratRound x : Int) : Rat)) ↔ 0 ≤ ratRound x := by
    rw [← Rat.intCast_natCast, Rat.intCast_le_intCast]; simp
  have c2 : (((ratRound x : Int) : Rat) ≤ ((SM.u32Max : Nat) : Rat)) ↔ ratRound x ≤ (SM.u32Max : Int) := by
    rw [← Rat.intCast_natCast, Rat.intCast_le_intCast]
  unfold roundMinutes
  simp only [rat_ge, rat_le, rat_round, rat_ofNat, rat_toU32, ratTrunc_intCast, Bool.and_eq_true, decide_eq_true_eq, c1, c2]
  by_cases h : 0 ≤ ratRound x ∧ ratRound x ≤ (SM.u32Max : Int)
  · simp only [h, and_self, if_true, Option.some.injEq]
    unfold clampInt
    rw [hm2]
    rw [hm1] at h
    split
    · omega
    · split
      · omega
      · omega
  · simp only [h, if_false]
    constructor
    · intro h2; exact absurd h2 (by simp)
    · rintro ⟨h1, h2⟩
      exfalso; apply h; rw [hm1]; omega

/-! ### units -/

theorem hardCoded_eq (x : Rat) (u : Str) : hardCoded x u = (hardFactor u).map (fun f => x * f) := by
  unfold hardCoded hardFactor HC_UNITS
  by_cases h1 : u = ['s'] ∨ u = ['s','e','c'] ∨ u = ['s','e','c','s'] ∨ u = ['s','e','c','o','n','d'] ∨ u = ['s','e','c','o','n','d','s']
  · rw [List.find?_cons_of_pos (by simpa [List.contains_cons, beq_iff_eq] using h1), if_pos h1]
    simp only [applySteps, rat_div, rat_const, Option.map_some]
    congr 1; grind
  · rw [List.find?_cons_of_neg (by simpa [List.contains_cons, beq_iff_eq] using h1), if_neg h1]
    by_cases h2 : u = ['m'] ∨ u = ['m','i','n'] ∨ u = ['m','i','n','u','t','e'] ∨ u = ['m','i','n','u','t','e','s']
    · rw [List.find?_cons_of_pos (by simpa [List.contains_cons, beq_iff_eq] using h2), if_pos h2]
      simp only [applySteps, Option.map_some]
      congr 1; grind
    · rw [List.find?_cons_of_neg (by simpa [List.contains_cons, beq_iff_eq] using h2), if_neg h2]
      by_cases h3 : u = ['h'] ∨ u = ['h','o','u','r'] ∨ u = ['h','o','u','r','s']
      · rw [List.find?_cons_of_pos (by simpa [List.contains_cons, beq_iff_eq] using h3), if_pos h3]
        simp only [applySteps, rat_mul, rat_const, Option.map_some]
      · rw [List.find?_cons_of_neg (by simpa [List.contains_cons, beq_iff_eq] using h3), if_neg h3]
        by_cases h4 : u = ['d'] ∨ u = ['d','a','y'] ∨ u = ['d','a','y','s']
        · rw [List.find?_cons_of_pos (by simpa [List.contains_cons, beq_iff_eq] using h4), if_pos h4]
          simp only [applySteps, rat_mul, rat_const, Option.map_some]
          congr 1; grind
        · rw [List.find?_cons_of_neg (by simpa [List.contains_cons, beq_iff_eq] using h4), if_neg h4]
          simp

theorem findMinutes_eq (c : Conv Rat) : findMinutes c = minuteUnit c := by
  unfold findMinutes minuteUnit MINUTES_NAMES
  simp only [List.findSome?]
  cases c.find ['m','i','n'] <;> simp only
  cases c.find ['m','i','n','u','t','e'] <;> simp only
  cases c.find ['m','i','n','u','t','e','s'] <;> simp only
  cases c.find ['m'] <;> rfl

/-- every time unit of the converter has a non-zero ratio -/
def TimeRatiosNonzero (c : Conv Rat) : Prop := ∀ u ∈ c.units, u.isTime = true → u.ratio ≠ 0

theorem find_unit_mem {c : Conv Rat} {name : Str} {u : Nat × TUnit Rat} (h : c.find name = some u) :
    c.units[u.1]? = some u.2 := by
  unfold Conv.find at h
  cases hi : c.index name with
  | none => rw [hi] at h; exact absurd h (by simp)
  | some i =>
    rw [hi] at h
    simp only at h
    cases hu : c.units[i]? with
    | none => rw [hu] at h; exact absurd h (by simp)
    | some un =>
      rw [hu] at h
      simp only [Option.some.injEq] at h
      rw [← h]; exact hu

theorem toMinutes_eq (c : Conv Rat) (hr : TimeRatiosNonzero c) (x : Rat) (u : Str) :
    toMinutes c x u = unitMinutes c x u := by
  unfold toMinutes unitMinutes
  by_cases h0 : c.units = []
  · simp [h0, hardCoded_eq]
  · have hlen : ¬ c.units.length = 0 := by simpa using h0
    simp only [hlen, h0, if_false]
    unfold dynamicTime
    rw [findMinutes_eq]
    cases hm : minuteUnit c with
    | none => rfl
    | some m =>
      simp only
      by_cases hmt : m.2.isTime = true
      · simp only [hmt, Bool.not_true, Bool.false_eq_true, if_false, true_and]
        cases hu : c.find u with
        | none => rfl
        | some un =>
          simp only
          by_cases hut : un.2.isTime = true
          · simp only [hut, Bool.not_true, Bool.false_eq_true, if_false, if_true]
            congr 1
            unfold convertF64
            by_cases hid : un.1 = m.1
            · simp only [hid, if_true, rat_add, rat_mul, rat_div, rat_sub]
              have hmm : c.units[m.1]? = some m.2 := by
                rw [← findMinutes_eq] at hm
                unfold findMinutes at hm
                obtain ⟨name, -, hname⟩ := List.exists_of_findSome?_eq_some hm
                exact find_unit_mem hname
              have hun := find_unit_mem hu
              rw [hid, hmm] at hun
              simp only [Option.some.injEq] at hun
              have hne : m.2.ratio ≠ 0 := hr m.2 (List.mem_of_getElem? hmm) hmt
              rw [← hun]; grind
            · simp only [hid, if_false, rat_add, rat_mul, rat_div, rat_sub]
          · have : un.2.isTime = false := by simpa using hut
            simp [this]
      · have : m.2.isTime = false := by simpa using hmt
        simp [this]
        cases c.find u <;> rfl

/-! ### the pair loop -/

theorem pairStep_iff (c : Conv Rat) (total : Rat) (number unit : Str) (hn : ∀ ch ∈ number, isNumCh ch = true) (r : Rat) :
    pairStep c total number unit = some r ↔ ∃ x m, DecNum number x ∧ toMinutes c x unit = some m ∧ r = total + m := by
  unfold pairStep
  constructor
  · intro h
    cases hp : parseF64 (α := Rat) number with
    | err => rw [hp] at h; exact absurd h (by simp)
    | nonfinite => rw [hp] at h; exact absurd h (by simp)
    | val x =>
      rw [hp] at h
      simp only at h
      cases ht : toMinutes c x unit with
      | none => rw [ht] at h; exact absurd h (by simp)
      | some m =>
        rw [ht] at h
        simp only [Option.some.injEq, rat_add] at h
        exact ⟨x, m, (parseF64_numch_iff hn x).mp hp, ht, h.symm⟩
  · rintro ⟨x, m, hx, ht, rfl⟩
    rw [(parseF64_numch_iff hn x).mpr hx]
    simp only [ht, rat_add]

theorem all_numch_iff (s : Str) : s.all isNumCh = true ↔ ∀ c ∈ s, isNumCh c = true := List.all_eq_true

theorem pairLoop_sound (c : Conv Rat) (total : Rat) (parts : List Str) (r : Rat)
    (h : pairLoop c total parts = some r) : ∃ t, PairWords (toMinutes c) parts t ∧ r = total + t := by
  induction total, parts using pairLoop.induct c generalizing r with
  | case1 total =>
    rw [pairLoop] at h
    simp only [Option.some.injEq] at h
    exact ⟨0, PairWords.nil, by rw [← h]; grind⟩
  | case2 total t hall =>
    rw [pairLoop.eq_def] at h
    simp [hall] at h
  | case3 total t hall u ts m hstep ih =>
    rw [pairLoop.eq_def] at h
    simp only [hall, if_true, hstep] at h
    obtain ⟨t', hpw, hr⟩ := ih r h
    obtain ⟨x, mm, hx, htm, hm⟩ := (pairStep_iff c total t u ((all_numch_iff t).mp hall) m).mp hstep
    exact ⟨mm + t', PairWords.spaced hx htm hpw, by rw [hr, hm]; grind⟩
  | case4 total t hall u ts hstep =>
    rw [pairLoop.eq_def] at h
    simp [hall, hstep] at h
  | case5 total t ts hall m hstep ih =>
    rw [pairLoop.eq_def] at h
    simp only [hall, hstep] at h
    obtain ⟨t', hpw, hr⟩ := ih r h
    have hnum : ∀ ch ∈ t.takeWhile isNumCh, isNumCh ch = true := takeWhile_all t
    obtain ⟨x, mm, hx, htm, hm⟩ := (pairStep_iff c total _ _ hnum m).mp hstep
    have hne : t.dropWhile isNumCh ≠ [] := by
      intro h0
      exact hall ((all_numch_iff t).mpr (all_of_dropWhile_nil h0))
    have hpw' := PairWords.attached hx (dropWhile_stops t) hne htm hpw
    rw [List.takeWhile_append_dropWhile] at hpw'
    exact ⟨mm + t', hpw', by rw [hr, hm]; grind⟩
  | case6 total t ts hall hstep =>
    rw [pairLoop.eq_def] at h
    simp [hall, hstep] at h

theorem pairLoop_complete (c : Conv Rat) (parts : List Str) (t : Rat) (h : PairWords (toMinutes c) parts t) :
    ∀ total, pairLoop c total parts = some (total + t) := by
  induction h with
  | nil => intro total; rw [pairLoop]; congr 1; grind
  | @attached num unit x m t' ws hx hstop hne htm _ ih =>
    intro total
    have hnum := decNum_numch hx
    have hall : ¬ ((num ++ unit).all isNumCh = true) := by
      intro hall
      rcases hstop with h0 | ⟨ch, r, h0, hch⟩
      · exact hne h0
      · have := (all_numch_iff _).mp hall ch (by simp [h0])
        rw [hch] at this; exact absurd this (by simp)
    have hstep : pairStep c total num unit = some (total + m) :=
      (pairStep_iff c total num unit hnum _).mpr ⟨x, m, hx, htm, rfl⟩
    rw [pairLoop.eq_def]
    simp only [hall, takeWhile_append_stop hnum hstop, dropWhile_append_stop hnum hstop, hstep]
    rw [ih (total + m)]
    congr 1; grind
  | @spaced num unit x m t' ws hx htm _ ih =>
    intro total
    have hnum := decNum_numch hx
    have hall : num.all isNumCh = true := (all_numch_iff _).mpr hnum
    have hstep : pairStep c total num unit = some (total + m) :=
      (pairStep_iff c total num unit hnum _).mpr ⟨x, m, hx, htm, rfl⟩
    rw [pairLoop.eq_def]
    simp only [hall, if_true, hstep]
    rw [ih (total + m)]
    congr 1; grind

theorem pairLoop_iff (c : Conv Rat) (parts : List Str) (r : Rat) :
    pairLoop c (Arith.ofNat 0) parts = some r ↔ PairWords (toMinutes c) parts r := by
  constructor
  · intro h
    obtain ⟨t, hpw, hr⟩ := pairLoop_sound c _ parts r h
    have : r = t := by rw [hr]; simp only [rat_ofNat]; grind
    rw [this]; exact hpw
  · intro h
    rw [pairLoop_complete c parts r h]
    congr 1; simp only [rat_ofNat]; grind

theorem toMinutes_funext (c : Conv Rat) (hr : TimeRatiosNonzero c) : toMinutes c = unitMinutes c := by
  funext x u; exact toMinutes_eq c hr x u

/-- `parse_time_with_units` reads exactly the pair forms whose rounded total a `u32` holds -/
theorem parseTimeWithUnits_iff (c : Conv Rat) (hr : TimeRatiosNonzero c) (s : Str) (n : Nat) :
    parseTimeWithUnits c s = some n ↔ PairsReading c s n ∧ n < u32Bound := by
  unfold parseTimeWithUnits PairsReading
  rw [← toMinutes_funext c hr]
  constructor
  · intro h
    cases hp : pairLoop c (Arith.ofNat 0) (words s) with
    | none => rw [hp] at h; exact absurd h (by simp)
    | some total =>
      rw [hp] at h
      simp only at h
      obtain ⟨h1, h2⟩ := (roundMinutes_rat total n).mp h
      exact ⟨⟨words s, total, spec_words s, (pairLoop_iff c _ _).mp hp, h1⟩, h2⟩
  · rintro ⟨⟨ws, t, hw, hpw, hn⟩, hlt⟩
    have := words_of_spec hw
    subst this
    rw [(pairLoop_iff c _ _).mpr hpw]
    exact (roundMinutes_rat t n).mpr ⟨hn, hlt⟩

theorem floatFallback_iff (s : Str) (n : Nat) :
    floatFallback (α := Rat) s = some n ↔ NumberReading s n ∧ n < u32Bound := by
  unfold floatFallback NumberReading
  constructor
  · intro h
    cases hp : parseF64 (α := Rat) s with
    | err => rw [hp] at h; exact absurd h (by simp)
    | nonfinite => rw [hp] at h; exact absurd h (by simp)
    | val x =>
      rw [hp] at h
      simp only at h
      obtain ⟨h1, h2⟩ := (roundMinutes_rat x n).mp h
      exact ⟨⟨x, (parseF64_val_iff s x).mp hp, h1⟩, h2⟩
  · rintro ⟨⟨x, hx, hn⟩, hlt⟩
    rw [(parseF64_val_iff s x).mpr hx]
    exact (roundMinutes_rat x n).mpr ⟨hn, hlt⟩

/-- `parse_time`: the first of the three forms with a representable reading -/
theorem parseTime_iff (c : Conv Rat) (hr : TimeRatiosNonzero c) (s : Str) (n : Nat) :
    parseTime c s = some n ↔ Minutes c s n := by
  unfold parseTime Minutes
  by_cases hs : s = []
  · subst hs; simp
  · have hse : s.isEmpty = false := by
      cases s with
      | nil => exact absurd rfl hs
      | cons a b => rfl
    simp only [hse, Bool.false_eq_true, if_false, ne_eq, hs, not_false_eq_true, true_and]
    cases hc : commonTime s with
    | some k =>
      have hk := (commonTime_iff s k).mp hc
      simp only [Option.some.injEq]
      constructor
      · rintro rfl; exact ⟨hk.2, Or.inl hk.1⟩
      · rintro ⟨hlt, h | ⟨hno, -⟩ | ⟨hno, -⟩⟩
        · have := (commonTime_iff s n).mpr ⟨h, hlt⟩
          rw [hc] at this; simpa using this
        · exact absurd ⟨k, hk⟩ hno
        · exact absurd ⟨k, hk⟩ hno
    | none =>
      have hno : ¬ ∃ k, HhMm s k ∧ k < u32Bound := by
        rintro ⟨k, hk⟩
        have := (commonTime_iff s k).mpr hk
        rw [hc] at this; exact absurd this (by simp)
      simp only
      cases hp : parseTimeWithUnits c s with
      | some k =>
        have hk := (parseTimeWithUnits_iff c hr s k).mp hp
        simp only [Option.some.injEq]
        constructor
        · rintro rfl; exact ⟨hk.2, Or.inr (Or.inl ⟨hno, hk.1⟩)⟩
        · rintro ⟨hlt, h | ⟨-, h⟩ | ⟨-, hnp, -⟩⟩
          · exact absurd ⟨n, h, hlt⟩ hno
          · have := (parseTimeWithUnits_iff c hr s n).mpr ⟨h, hlt⟩
            rw [hp] at this; simpa using this
          · exact absurd ⟨k, hk⟩ hnp
      | none =>
        have hnp : ¬ ∃ k, PairsReading c s k ∧ k < u32Bound := by
          rintro ⟨k, hk⟩
          have := (parseTimeWithUnits_iff c hr s k).mpr hk
          rw [hp] at this; exact absurd this (by simp)
        simp only
        rw [floatFallback_iff]
        constructor
        · rintro ⟨h, hlt⟩; exact ⟨hlt, Or.inr (Or.inr ⟨hno, hnp, h⟩)⟩
        · rintro ⟨hlt, h | ⟨-, h⟩ | ⟨-, -, h⟩⟩
          · exact absurd ⟨n, h, hlt⟩ hno
          · exact absurd ⟨n, h, hlt⟩ hnp
          · exact ⟨h, hlt⟩

/-! ### yaml values -/

theorem valueAsMinutes_iff (c : Conv Rat) (hr : TimeRatiosNonzero c) (v : Y) (n : Nat) :
    valueAsMinutes c v = .ok n ↔ MinutesOf c v n := by
  cases v with
  | str s =>
    simp only [valueAsMinutes, MinutesOf]
    rw [← parseTime_iff c hr]
    cases parseTime c s <;> simp
  | num k =>
    simp only [valueAsMinutes, MinutesOf]
    cases ha : asU32 (.num k) with
    | none =>
      simp only
      constructor
      · intro h; exact absurd h (by simp)
      · rintro ⟨h1, h2⟩
        have := (asU32_iff (.num k) n).mpr ⟨k, rfl, h1, h2⟩
        rw [ha] at this; exact absurd this (by simp)
    | some j =>
      obtain ⟨k', hk, h1, h2⟩ := (asU32_iff _ _).mp ha
      simp only [Y.num.injEq] at hk; subst hk
      simp only [Except.ok.injEq]
      constructor
      · rintro rfl; exact ⟨h1, h2⟩
      · rintro ⟨h3, -⟩; rw [h1] at h3; simpa using h3
  | null => simp [valueAsMinutes, MinutesOf, asU32]
  | bool => simp [valueAsMinutes, MinutesOf, asU32]
  | seq l => simp [valueAsMinutes, MinutesOf, asU32]
  | map m => simp [valueAsMinutes, MinutesOf, asU32]
  | tagged => simp [valueAsMinutes, MinutesOf, asU32]

theorem valueAsMinutes_badType (c : Conv Rat) (v : Y) :
    valueAsMinutes c v = .error .badType ↔ (∀ s, v ≠ .str s) ∧ asU32 v = none := by
  cases v with
  | str s =>
    simp only [valueAsMinutes]
    cases parseTime c s <;> simp
  | num k =>
    simp only [valueAsMinutes]
    cases asU32 (.num k) <;> simp
  | null => simp [valueAsMinutes, asU32]
  | bool => simp [valueAsMinutes, asU32]
  | seq l => simp [valueAsMinutes, asU32]
  | map m => simp [valueAsMinutes, asU32]
  | tagged => simp [valueAsMinutes, asU32]

theorem optMinutes_iff (c : Conv Rat) (hr : TimeRatiosNonzero c) (o : Option Y) (r : Option Nat) :
    optMinutes c o = .ok r ↔ OptMinutes c o r := by
  cases o with
  | none => simp [optMinutes, OptMinutes, eq_comm]
  | some v =>
    simp only [optMinutes, OptMinutes]
    cases hv : valueAsMinutes c v with
    | error e =>
      simp only
      constructor
      · intro h; exact absurd h (by simp)
      · rintro ⟨n, hn, -⟩
        have := (valueAsMinutes_iff c hr v n).mpr hn
        rw [hv] at this; exact absurd this (by simp)
    | ok n =>
      have hn := (valueAsMinutes_iff c hr v n).mp hv
      simp only [Except.ok.injEq]
      constructor
      · rintro rfl; exact ⟨n, hn, rfl⟩
      · rintro ⟨n', hn', rfl⟩
        have := (valueAsMinutes_iff c hr v n').mpr hn'
        rw [hv] at this
        simp only [Except.ok.injEq] at this
        rw [this]

theorem composedTime_iff (c : Conv Rat) (hr : TimeRatiosNonzero c) (m : List (Y × Y)) (p k : Option Nat) :
    composedTime c m = .ok (.composed p k) ↔
      OptMinutes c (mapGet prepKey m) p ∧ OptMinutes c (mapGet cookKey m) k ∧ (p ≠ none ∨ k ≠ none) := by
  unfold composedTime
  cases hp : optMinutes c (mapGet prepKey m) with
  | error e =>
    simp only
    constructor
    · intro h; exact absurd h (by simp)
    · rintro ⟨h1, -, -⟩
      have := (optMinutes_iff c hr _ _).mpr h1
      rw [hp] at this; exact absurd this (by simp)
  | ok p0 =>
    have hp0 := (optMinutes_iff c hr _ _).mp hp
    simp only
    cases hk : optMinutes c (mapGet cookKey m) with
    | error e =>
      simp only
      constructor
      · intro h; exact absurd h (by simp)
      · rintro ⟨-, h2, -⟩
        have := (optMinutes_iff c hr _ _).mpr h2
        rw [hk] at this; exact absurd this (by simp)
    | ok k0 =>
      have hk0 := (optMinutes_iff c hr _ _).mp hk
      simp only
      have huniq : ∀ p k, OptMinutes c (mapGet prepKey m) p → OptMinutes c (mapGet cookKey m) k → p = p0 ∧ k = k0 := by
        intro p k h1 h2
        have e1 := (optMinutes_iff c hr _ _).mpr h1
        have e2 := (optMinutes_iff c hr _ _).mpr h2
        rw [hp] at e1; rw [hk] at e2
        simp only [Except.ok.injEq] at e1 e2
        exact ⟨e1.symm, e2.symm⟩
      by_cases hb : (p0.isNone && k0.isNone) = true
      · simp only [hb, if_true]
        simp only [Bool.and_eq_true, Option.isNone_iff_eq_none] at hb
        constructor
        · intro h; exact absurd h (by simp)
        · rintro ⟨h1, h2, h3⟩
          obtain ⟨rfl, rfl⟩ := huniq p k h1 h2
          rcases h3 with h3 | h3
          · exact absurd hb.1 h3
          · exact absurd hb.2 h3
      · simp only [hb, Bool.false_eq_true, if_false, Except.ok.injEq, RecipeTime.composed.injEq]
        simp only [Bool.and_eq_true, Option.isNone_iff_eq_none] at hb
        constructor
        · rintro ⟨rfl, rfl⟩
          refine ⟨hp0, hk0, ?_⟩
          by_cases h1 : p0 = none
          · right; intro h2; exact hb ⟨h1, h2⟩
          · left; exact h1
        · rintro ⟨h1, h2, -⟩
          obtain ⟨rfl, rfl⟩ := huniq p k h1 h2
          exact ⟨rfl, rfl⟩

theorem composedTime_not_total (c : Conv Rat) (m : List (Y × Y)) (n : Nat) : composedTime c m ≠ .ok (.total n) := by
  unfold composedTime
  cases optMinutes c (mapGet prepKey m) with
  | error e => simp
  | ok p =>
    simp only
    cases optMinutes c (mapGet cookKey m) with
    | error e => simp
    | ok k =>
      simp only
      split <;> simp

/-- `value_as_time`: a total, or the mapping form -/
theorem valueAsTime_iff (c : Conv Rat) (hr : TimeRatiosNonzero c) (v : Y) (t : RecipeTime) :
    valueAsTime c v = .ok t ↔ TimeOf c v t := by
  unfold valueAsTime
  cases hv : valueAsMinutes c v with
  | ok n =>
    have hn := (valueAsMinutes_iff c hr v n).mp hv
    simp only [Except.ok.injEq]
    cases t with
    | total n' =>
      simp only [RecipeTime.total.injEq, TimeOf]
      constructor
      · rintro rfl; exact hn
      · intro h
        have := (valueAsMinutes_iff c hr v n').mpr h
        rw [hv] at this; simpa using this
    | composed p k =>
      simp only [TimeOf]
      constructor
      · intro h; exact absurd h (by simp)
      · rintro ⟨m, rfl, -⟩
        simp [MinutesOf] at hn
  | error e =>
    have hno : ∀ n, ¬ MinutesOf c v n := by
      intro n h
      have := (valueAsMinutes_iff c hr v n).mpr h
      rw [hv] at this; exact absurd this (by simp)
    cases e with
    | other =>
      simp only
      constructor
      · intro h; exact absurd h (by simp)
      · intro h
        cases t with
        | total n => exact absurd h (hno n)
        | composed p k =>
          obtain ⟨m, rfl, -⟩ := h
          have := (valueAsMinutes_badType c (.map m)).mpr ⟨by simp, by simp [asU32]⟩
          rw [hv] at this; exact absurd this (by simp)
    | badType =>
      simp only
      cases v with
      | map m =>
        simp only
        cases t with
        | total n =>
          simp only [TimeOf]
          constructor
          · intro h; exact absurd h (composedTime_not_total c m n)
          · intro h; exact absurd h (hno n)
        | composed p k =>
          rw [composedTime_iff c hr]
          simp only [TimeOf, Y.map.injEq, exists_eq_left']
      | str s =>
        have := (valueAsMinutes_badType c (.str s)).mp hv
        exact absurd rfl (this.1 s)
      | null => cases t <;> simp [TimeOf, MinutesOf]
      | bool => cases t <;> simp [TimeOf, MinutesOf]
      | num k =>
        cases t with
        | total n => simp only [TimeOf]; constructor
                     · intro h; exact absurd h (by simp)
                     · intro h; exact absurd h (hno n)
        | composed p k => simp [TimeOf]
      | seq l => cases t <;> simp [TimeOf, MinutesOf]
      | tagged => cases t <;> simp [TimeOf, MinutesOf]

end Cook.SM
