import CookModel.Lemmas.DiagPlaceInst
import CookModel.Lemmas.DiagInterRef
import CookModel.Lemmas.RoundtripInter
/-
  C07, arbitrary placement: components whose modifier tokens hold a parenthesised group `&( … )` (`c07i_` prefix,
  wave 9).  `PlShape(N).hm` admits plain modifier tokens only; `PlShapeI` is the separate shape for modifier tokens
  `pre ++ & ( inner ) ++ post` (COMPONENT_MODIFIERS and INTERMEDIATE_PREPARATIONS on), with its own cut lemma from
  `rti_modifiersP`, and the ingredient piece for the intermediate-reference SYNTAX errors (group alone, no quantity).
-/
set_option linter.unusedSectionVars false
set_option linter.unusedSimpArgs false
set_option linter.unusedVariables false
namespace Cook

variable {α : Type} [Arith α]

/-- the modifier tokens `pre & ( inner ) post` -/
def c07i_mods (pre : List Tok) (tand top : Tok) (inner : List Tok) (tcp : Tok) (post : List Tok) : List Tok :=
  pre ++ tand :: top :: (inner ++ tcp :: post)

/-- the shape of a braces component whose modifier tokens hold one parenthesised group `&( … )`: marker, plain
    modifier tokens `pre`, `&`, `(`, `inner` without `)`, `)`, plain modifier tokens `post`, then the body as in
    `PlShape`; not followed by `(` -/
structure PlShapeI (e : Ext) (k : TK) (tm : Tok) (pre : List Tok) (tand top : Tok) (inner : List Tok) (tcp : Tok)
    (post nameT : List Tok) (tob : Tok) (Q : List Tok) (tcb : Tok) (rest : List Tok) : Prop where
  hk : tm.kind = k
  hmod : e.has Gen.EXT_COMPONENT_MODIFIERS = true
  hint : e.has Gen.EXT_INTERMEDIATE_PREPARATIONS = true
  hpre : ∀ m ∈ pre, isModifierTok m.kind = true
  hand : tand.kind = .and
  hop : top.kind = .openParen
  hin : ∀ t ∈ inner, t.kind ≠ .closeParen
  hcp : tcp.kind = .closeParen
  hpost : ∀ m ∈ post, modKind m.kind = true
  hx : ∀ x, (nameT ++ [tob]).head? = some x → modKind x.kind = false ∧ x.kind ≠ .openParen
  hn : ∀ t ∈ nameT, (t.kind == .openBrace || isMarker t.kind) = false
  hob : tob.kind = .openBrace
  hQ : ∀ t ∈ Q, t.kind ≠ .closeBrace
  hcb : tcb.kind = .closeBrace
  hrest : ∀ t, rest.head? = some t → t.kind ≠ .openParen

/-- the cut of a braces component with a parenthesised modifier group, in context -/
theorem c07i_cut (k : TK) (s : BP α) (A : List Tok) (tm : Tok) (pre : List Tok) (tand top : Tok) (inner : List Tok)
    (tcp : Tok) (post nameT : List Tok) (tob : Tok) (Q : List Tok) (tcb : Tok) (rest : List Tok)
    (sh : PlShapeI s.ext k tm pre tand top inner tcp post nameT tob Q tcb rest)
    (ht : s.toks = A ++ (c07p_comp tm (c07i_mods pre tand top inner tcp post) nameT tob Q tcb ++ rest))
    (hc : s.cur = A.length) :
    Cut k s (c07i_mods pre tand top inner tcp post) (c07p_body nameT tob Q tcb)
      { s with cur := A.length + 1 } { s with cur := A.length + 1 + (c07i_mods pre tand top inner tcp post).length }
      { s with cur := A.length + (c07p_comp tm (c07i_mods pre tand top inner tcp post) nameT tob Q tcb).length } ∧
    noteP ({ s with cur := A.length +
        (c07p_comp tm (c07i_mods pre tand top inner tcp post) nameT tob Q tcb).length } : BP α) =
      (none, { s with cur := A.length +
        (c07p_comp tm (c07i_mods pre tand top inner tcp post) nameT tob Q tcb).length }) := by
  generalize hms : c07i_mods pre tand top inner tcp post = ms at *
  have ht' : s.toks = A ++ tm :: (ms ++ (nameT ++ tob :: (Q ++ tcb :: rest))) := by
    rw [ht]; simp [c07p_comp]
  have h1 := consumeK_split_some k s A tm _ ht' hc sh.hk
  have h2 : modifiersP ({ s with cur := A.length + 1 } : BP α) = (ms, { s with cur := A.length + 1 + ms.length }) := by
    obtain ⟨x, R', hxr⟩ : ∃ x R', nameT ++ tob :: (Q ++ tcb :: rest) = x :: R' := by
      cases nameT with
      | nil => exact ⟨_, _, rfl⟩
      | cons n ns => exact ⟨_, _, rfl⟩
    have hxh : (nameT ++ [tob]).head? = some x := by
      cases nameT with
      | nil => simp at hxr ⊢; exact hxr.1
      | cons n ns => simp at hxr ⊢; exact hxr.1
    have hx' := sh.hx x hxh
    have := rti_modifiersP ({ s with cur := A.length + 1 } : BP α) sh.hmod sh.hint (A ++ [tm]) pre tand top inner tcp
      post x R' (by show s.toks = _; rw [ht', hxr, ← hms]; simp [c07i_mods]) (by simp) sh.hpre sh.hand sh.hop sh.hin
      sh.hcp sh.hpost hx'.1 hx'.2
    rw [this, ← hms]
    exact congrArg (fun c => (c07i_mods pre tand top inner tcp post, ({ s with cur := c } : BP α)))
      (by simp [c07i_mods])
  have h3 := compBody_run ({ s with cur := A.length + 1 + ms.length } : BP α) (A ++ tm :: ms) nameT tob Q tcb rest
    (by show s.toks = _; rw [ht']; simp) (by simp; omega) sh.hn sh.hob sh.hQ sh.hcb
  have hlen : (A ++ tm :: ms).length + nameT.length + 1 + Q.length + 1 =
      A.length + (c07p_comp tm ms nameT tob Q tcb).length := by
    rw [c07p_comp_length]; simp only [List.length_append, List.length_cons]; omega
  rw [hlen] at h3
  refine ⟨⟨⟨tm, h1⟩, h2, h3⟩, ?_⟩
  exact noteP_none _ (A ++ c07p_comp tm ms nameT tob Q tcb) rest (by show s.toks = _; rw [ht]; simp)
    (by simp) sh.hrest

/-- `ingredient` on such a component in context is its tail on the pieces -/
theorem c07i_ingredient_run (s : BP α) (A : List Tok) (tm : Tok) (pre : List Tok) (tand top : Tok)
    (inner : List Tok) (tcp : Tok) (post nameT : List Tok) (tob : Tok) (Q : List Tok) (tcb : Tok) (rest : List Tok)
    (sh : PlShapeI s.ext .at tm pre tand top inner tcp post nameT tob Q tcb rest)
    (ht : s.toks = A ++ (c07p_comp tm (c07i_mods pre tand top inner tcp post) nameT tob Q tcb ++ rest))
    (hc : s.cur = A.length) :
    ingredientP s = ingredientTail (offAt s.toks A.length)
      (offAt s.toks (A.length + (c07p_comp tm (c07i_mods pre tand top inner tcp post) nameT tob Q tcb).length))
      (offAt s.toks (A.length + 1)) (offAt s.toks (A.length + 1 + (c07i_mods pre tand top inner tcp post).length))
      (c07i_mods pre tand top inner tcp post) (c07p_body nameT tob Q tcb) none
      { s with cur := A.length + (c07p_comp tm (c07i_mods pre tand top inner tcp post) nameT tob Q tcb).length } := by
  obtain ⟨hcut, hnote⟩ := c07i_cut .at s A tm pre tand top inner tcp post nameT tob Q tcb rest sh ht hc
  have := ingredientP_cut hcut hnote
  rw [this]
  simp only [curOff, hc]

/-- **An ingredient `@&( inner )name{}` whose group is rejected with `ev`, wherever it stands**: exactly `ev`, then
    the ingredient with the `&` flag, no intermediate data, on the byte range of the construct. -/
theorem c07i_ingredient_inter_piece (T A rest : List Tok) (cs : CharSpec) (e : Ext) (tm tand top : Tok)
    (inner : List Tok) (tcp : Tok) (nameT : List Tok) (tob : Tok) (Q : List Tok) (tcb : Tok)
    (hT : T = A ++ (c07p_comp tm (c07i_mods [] tand top inner tcp []) nameT tob Q tcb ++ rest)) (hw : WF T)
    (sh : PlShapeI e .at tm [] tand top inner tcp [] nameT tob Q tcb rest)
    (hQ : ∀ t ∈ Q, isPadK t = true)
    (ha : e.has Gen.EXT_COMPONENT_ALIAS = false ∨ ∀ t ∈ nameT, t.kind ≠ .or)
    (hname : (buildText (offAt T (A.length + 1 + (c07i_mods [] tand top inner tcp []).length)) nameT).isTextEmpty cs
      = false)
    (ev : Ev α)
    (hPI : ∀ s0 : BP α, parseInterRef (α := α) (top :: (inner ++ tcp :: [])) s0 =
      ((none, []), { s0 with evs := s0.evs.push ev })) :
    PlPieceAt (α := α) T cs e A ⟨c07p_comp tm (c07i_mods [] tand top inner tcp []) nameT tob Q tcb, fun evs =>
      evs = [ev,
        .ingredient ⟨⟨⟨Modifiers.empty.insert Modifiers.REF, tokensSpan (tand :: top :: (inner ++ [tcp]))⟩, none,
          buildText (offAt T (A.length + 1 + (c07i_mods [] tand top inner tcp []).length)) nameT, none, none, none⟩,
        ⟨offAt T A.length,
         offAt T (A.length + (c07p_comp tm (c07i_mods [] tand top inner tcp []) nameT tob Q tcb).length)⟩⟩]⟩ := by
  apply c07p_piece_of_ingredient T A _ rest cs e hT hw tm _ rfl sh.hk
  intro s h1 h2 h3 h4 h5
  subst h1 h2 h3
  have hrun := c07i_ingredient_run s A tm [] tand top inner tcp [] nameT tob Q tcb rest sh hT h5
  have hbody := c07p_body_qty_none nameT tob Q tcb hQ
  have ht := ingredientTail_interref_err (α := α) (offAt s.toks A.length)
    (offAt s.toks (A.length + (c07p_comp tm (c07i_mods [] tand top inner tcp []) nameT tob Q tcb).length))
    (offAt s.toks (A.length + 1)) (offAt s.toks (A.length + 1 + (c07i_mods [] tand top inner tcp []).length))
    tand top tcp inner (c07p_body nameT tob Q tcb) none ev
    ({ s with cur := A.length + (c07p_comp tm (c07i_mods [] tand top inner tcp []) nameT tob Q tcb).length } : BP α)
    sh.hand sh.hint hPI hbody ha hname
  unfold Sat at ht
  have hrun' : ingredientP s = ingredientTail (offAt s.toks A.length)
      (offAt s.toks (A.length + (c07p_comp tm (c07i_mods [] tand top inner tcp []) nameT tob Q tcb).length))
      (offAt s.toks (A.length + 1)) (offAt s.toks (A.length + 1 + (c07i_mods [] tand top inner tcp []).length))
      (tand :: top :: (inner ++ [tcp])) (c07p_body nameT tob Q tcb) none
      { s with cur := A.length + (c07p_comp tm (c07i_mods [] tand top inner tcp []) nameT tob Q tcb).length } := hrun
  rw [← hrun'] at ht
  obtain ⟨hpu, hr⟩ := ht
  refine ⟨[ev], _, hr, hpu, ?_, ?_⟩
  · rw [hrun']
    exact (c07p_indep_fields (Indep.ingredientTail ..) _).1
  · simp [c07p_body]

end Cook
