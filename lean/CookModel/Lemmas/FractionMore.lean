import CookModel.Num.Fraction
import CookModel.Lemmas.Fraction
/-
  More lemmas about the fraction model (audit of C12): the lookup table is structurally well formed
  whatever arithmetic it is built with; non-finite inputs are declined at every instance.
  Names carry the prefix `fracm_`.
-/
namespace Cook
open Arith

theorem fracm_foldl_inv {β γ : Type} (P : β → Prop) (f : β → γ → β) (l : List γ) (b : β) (hb : P b)
    (hf : ∀ b x, x ∈ l → P b → P (f b x)) : P (l.foldl f b) := by
  induction l generalizing b with
  | nil => exact hb
  | cons x xs ih =>
    simp only [List.foldl_cons]
    exact ih (f b x) (hf b x (by simp) hb) (fun b y hy hp => hf b y (by simp [hy]) hp)

/-- inserting an entry with property `p` into a table whose entries all have it -/
theorem fracm_tableInsert_all (p : FracEntry → Bool) (e : FracEntry) (t : List FracEntry)
    (he : p e = true) (ht : t.all p = true) : (tableInsert e t).all p = true := by
  induction t with
  | nil => simp [tableInsert, he]
  | cons x xs ih =>
    simp only [List.all_cons, Bool.and_eq_true] at ht
    unfold tableInsert
    split
    · simp [he, ht.1, ht.2]
    · split
      · simp [ht.1, ht.2]
      · simp [ht.1, ih ht.2]

/-- `FractionLookupTable::new`, whatever the arithmetic used for the keys (exact, f64, …): every
    entry is `num/den` with `den` one of the denominators and `0 < num < den`. -/
theorem fracm_mkTable_ok (α : Type) [Arith α] (denoms : List Nat) :
    tableOK denoms (mkTable α denoms) = true := by
  unfold tableOK mkTable
  refine fracm_foldl_inv (fun t => t.all (entryOK denoms) = true) _ denoms [] (by simp) ?_
  intro t den hden ht
  refine fracm_foldl_inv (fun t => t.all (entryOK denoms) = true) _ _ t ht ?_
  intro t' num hnum ht'
  apply fracm_tableInsert_all _ _ _ _ ht'
  have := List.mem_range'_1.mp hnum
  simp only [entryOK, Bool.and_eq_true, decide_eq_true_eq, List.contains_eq_mem]
  exact ⟨⟨by omega, by omega⟩, hden⟩

/-- the first test of `new_approx`, at every arithmetic instance: a non-finite value is declined -/
theorem fracm_newApprox_nonfinite {α : Type} [Arith α] (t : List FracEntry) (v acc : α)
    (maxDen maxWhole : Nat) (h : Arith.isFinite v = false) :
    newApprox t v acc maxDen maxWhole = none := by
  unfold newApprox
  simp [h]

/-- …and so is a value that compares `≤ 0` -/
theorem fracm_newApprox_le_zero {α : Type} [Arith α] (t : List FracEntry) (v acc : α)
    (maxDen maxWhole : Nat) (h : Arith.le v (Arith.ofNat 0) = true) :
    newApprox t v acc maxDen maxWhole = none := by
  unfold newApprox
  simp [h]

theorem fracm_eps_pos : 0 < Gen.APPROX_EPS.rat := by decide +kernel

end Cook
