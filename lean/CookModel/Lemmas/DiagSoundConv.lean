import CookModel.Lemmas.RoundtripDocRecipe
import CookModel.Lemmas.ExtLawsEvents
/-
  C07, soundness under every extension set (prefix `c07c_`): the second premise of
  `parseRecipe_ext_irrelevant` (C02) — every event of the printed text satisfies `evConvCore`: a step text is
  not empty and shows no inline quantity to the converter, a timer amount is numeric in a time unit —
  derived from a predicate on the ABSTRACT document (`SegX.convCore`), through C01's description of the
  events of a printed document.
-/
set_option linter.unusedSectionVars false
set_option linter.unusedSimpArgs false
set_option linter.unusedVariables false
namespace Cook

variable {α : Type} [Arith α]

/-- the converter-related side condition of a segment, independent of the extension set: a text run shows
    something and `find_inline_quantity` finds nothing in it (e.g. it has no ASCII digit); a timer amount is
    numeric and its unit, if any, is a time unit of the converter -/
def SegX.convCore (α : Type) [Arith α] (env : Env) : SegX → Prop
  | .text l => l.flatMap vis ≠ [] ∧
      findInlineQuantity (α := α) env ((l.flatMap vis).length + 1) [] (l.flatMap vis) = none
  | .timer c _ => ∀ q, c.qty = some q →
      q.val.isText = false ∧ ∀ u, q.unit = some u → env.findUnit (leafText u) = some env.timeQ
  | _ => True

/-- both converter-reading flags on -/
def c07c_convExt : Ext := ⟨Gen.EXT_INLINE_QUANTITIES ||| Gen.EXT_ADVANCED_UNITS⟩

theorem c07c_convExt_has : c07c_convExt.has Gen.EXT_INLINE_QUANTITIES = true ∧
    c07c_convExt.has Gen.EXT_ADVANCED_UNITS = true := by decide

theorem c07c_extOK_of_convCore (env : Env) (e : Ext) (seg : SegX) (h : seg.convCore α env) :
    seg.extOK α (env.withExt e) := by
  cases seg <;> try trivial
  · intro _
    refine ⟨h.1, ?_⟩
    rw [findInlineQuantity_withExt]; exact h.2
  · intro _ q hq
    exact h q hq

/-- one segment, one event: the event satisfies `evConvCore` -/
theorem c07c_pair (env : Env) (seg : SegX) (it : SItem α) (h : SegXEv env.cs seg it.ev) (hx : seg.convCore α env)
    (hit : it.Simple) : evConvCore α env it.ev = true := by
  have hsx := rtx_pair (env.withExt c07c_convExt) seg it h (c07c_extOK_of_convCore env _ seg hx) hit
  cases it with
  | text t =>
    have := hsx c07c_convExt_has.1
    rw [findInlineQuantity_withExt] at this
    simp only [SItem.ev, evConvCore, textCoreX, Bool.and_eq_true, Bool.not_eq_true', Option.isNone_iff_eq_none]
    refine ⟨?_, this.2⟩
    cases ht : t.text with
    | nil => exact absurd ht this.1
    | cons a l => rfl
  | ingredient i => rfl
  | cookware c => rfl
  | timer lt =>
    have := hsx.2 c07c_convExt_has.2
    simp only [SItem.ev, evConvCore, timerCoreX]
    cases hq : lt.val.quantity with
    | none => rfl
    | some q =>
      obtain ⟨h1, h2⟩ := this q hq
      simp only [h1, Bool.not_false, Bool.true_and]
      cases hu : q.val.unit with
      | none => rfl
      | some u =>
        have := h2 u hu
        simp only [Env.withExt] at this
        simp [this]

theorem c07c_items (env : Env) (segs : List SegX) (st : List (SItem α)) (h : SegsItems env.cs segs st)
    (hx : ∀ sg ∈ segs, sg.convCore α env) (hs : ∀ it ∈ st, it.Simple) :
    ∀ ev ∈ stepEvents st, evConvCore α env ev = true := by
  have hall : ∀ it ∈ st, evConvCore α env it.ev = true := by
    induction h with
    | nil => intro it hit; cases hit
    | @cons seg it segs' st' hd _ ih =>
      intro x hxm
      simp only [List.mem_cons] at hxm
      rcases hxm with rfl | hxm
      · exact c07c_pair env seg x hd (hx seg (by simp)) (hs x (by simp))
      · exact ih (fun sg hsg => hx sg (by simp [hsg])) (fun y hy => hs y (by simp [hy])) x hxm
  intro ev hev
  simp only [stepEvents, List.mem_append, List.mem_singleton, List.mem_map] at hev
  rcases hev with (rfl | ⟨it, hit, rfl⟩) | rfl
  · rfl
  · exact hall it hit
  · rfl

/-- **the events of a printed document of steps satisfy `evConvCore`** when every segment satisfies the
    abstract predicate `SegX.convCore` -/
theorem c07c_steps_evConvCore (env : Env) (pre : List Tok) (doc : List (List SegX × List Tok))
    (hpre : blankLinesOK pre = true) (hok : ∀ d ∈ doc, (DocItem.step d.1).ok env.cs env.ext = true)
    (hsimple : ∀ d ∈ doc, d.1.all SegX.simple = true) (hseps : sepsOK (doc.map (·.2)) = true)
    (hw : WellSpelled env.cs (pre ++ docSpec (stepsDoc doc)))
    (hfm : parseFrontmatter env.cs (render (pre ++ docSpec (stepsDoc doc))) = none)
    (hx : ∀ d ∈ doc, ∀ sg ∈ d.1, sg.convCore α env) :
    (pullEvents (α := α) env.cs env.ext (render (pre ++ docSpec (stepsDoc doc)))).1.toList.all
      (evConvCore α env) = true := by
  obtain ⟨blocks, evss, arr, -, -, hpe, harr, hevs⟩ := rtd_pullEvents_doc (α := α) env.cs env.ext pre (stepsDoc doc) hpre
    (by
      intro d hd
      obtain ⟨x, hx', rfl⟩ := List.mem_map.1 hd
      exact hok x hx')
    (by simpa [stepsDoc, List.map_map, Function.comp_def] using hseps) hw hfm
  obtain ⟨steps, e1, e2, -, e4⟩ := rtr_steps_events env.cs doc evss hevs hsimple
    (fun d hd => rtr_step_ne env.cs env.ext d.1 (hok d hd))
  rw [hpe]
  simp only [harr, e1]
  rw [List.all_eq_true]
  intro ev hev
  rw [List.mem_flatMap] at hev
  obtain ⟨st, hst, hev⟩ := hev
  -- find the document item of this step
  have key : ∀ (doc : List (List SegX × List Tok)) (steps : List (List (SItem α))),
      All2 (fun (d : List SegX × List Tok) st => SegsItems env.cs d.1 st) doc steps →
      (∀ d ∈ doc, ∀ sg ∈ d.1, sg.convCore α env) → (∀ st ∈ steps, ∀ it ∈ st, it.Simple) →
      ∀ st ∈ steps, ∀ ev ∈ stepEvents st, evConvCore α env ev = true := by
    intro doc steps h
    induction h with
    | nil => intro _ _ st hst; cases hst
    | @cons d st0 doc' steps' hd _ ih =>
      intro hx hs st hst
      simp only [List.mem_cons] at hst
      rcases hst with rfl | hst
      · exact c07c_items env d.1 st hd (hx d (by simp)) (hs st (by simp))
      · exact ih (fun d' hd' => hx d' (by simp [hd'])) (fun s' hs' => hs s' (by simp [hs'])) st hst
  exact key doc steps e4 hx e2 st hst ev hev

end Cook
