import CookModel.Lemmas.Spans
/-
  The byte / character correspondence behind C04.

  The model's text is `List Char`; its offsets are sums of `Char.utf8Size` (`utf8Len`) and "on a
  character boundary" is `Boundary`: the position is the `utf8Len` of a prefix of the characters.
  Rust works on the UTF-8 bytes of the same text: offsets index the byte string, "on a character
  boundary" is `str::is_char_boundary` (the position is the length, or the byte there is not a
  continuation byte), and slicing is `&input[a..b]` on the bytes.

  This file ties the two, against Lean core's UTF-8 encoder (`List.utf8Encode`, the byte array of
  `String.ofList`) and core's byte-level notion of a valid position (`String.Pos.Raw.IsValid`):
    * `spansBytes_utf8Len`       `utf8Len l` is the number of bytes of the UTF-8 encoding of `l`;
    * `spansBytes_boundary_iff`  `Boundary 0 l p` ⇔ `p` is a valid position of the encoded string
                                 ⇔ `p` is the byte length, or the byte at `p` is the first byte of a character;
    * `spansBytes_slice`         `SliceAt 0 l o t` ⇒ the bytes `o .. o + utf8Len t` of the encoding of
                                 `l` are exactly the encoding of `t`.
-/
namespace Cook

theorem spansBytes_utf8Len (l : List Char) : utf8Len l = (String.ofList l).utf8ByteSize := by
  induction l with
  | nil => simp [utf8Len]
  | cons c t ih =>
    have : String.ofList (c :: t) = String.singleton c ++ String.ofList t := by
      rw [String.singleton_eq_ofList, ← String.ofList_append]; rfl
    rw [this, String.utf8ByteSize_append, String.utf8ByteSize_singleton, ← ih]
    simp [utf8Len]

theorem spansBytes_utf8Len_encode (l : List Char) : utf8Len l = l.utf8Encode.size := by
  rw [spansBytes_utf8Len, ← String.size_toByteArray, String.toByteArray_ofList]

/-- a model boundary is exactly a valid byte position of the UTF-8 encoded string -/
theorem spansBytes_boundary_iff (l : List Char) (p : Nat) :
    Boundary 0 l p ↔ (⟨p⟩ : String.Pos.Raw).IsValid (String.ofList l) := by
  rw [String.Pos.Raw.isValid_ofList]
  constructor
  · rintro ⟨pre, suf, rfl, hp⟩
    refine ⟨pre.length, ?_⟩
    simp only [List.take_left', Nat.zero_add] at hp ⊢
    rw [← spansBytes_utf8Len]; simpa using hp
  · rintro ⟨i, hi⟩
    refine ⟨l.take i, l.drop i, (List.take_append_drop i l).symm, ?_⟩
    rw [spansBytes_utf8Len]; simpa using hi

/-- … and exactly what `str::is_char_boundary` tests on the bytes: `p` is the length of the byte string, or
    the byte at `p` is the first byte of a character (for the bytes of a valid UTF-8 string: not a
    continuation byte `10xxxxxx`) -/
theorem spansBytes_boundary_iff_first_byte (l : List Char) (p : Nat) :
    Boundary 0 l p ↔ p = l.utf8Encode.size ∨ ∃ h : p < l.utf8Encode.size, (l.utf8Encode[p]'h).IsUTF8FirstByte := by
  rw [spansBytes_boundary_iff, String.Pos.Raw.isValid_iff_isUTF8FirstByte]
  have hsz : (String.ofList l).utf8ByteSize = l.utf8Encode.size := by
    rw [← String.size_toByteArray, String.toByteArray_ofList]
  constructor
  · rintro (h | ⟨h, hb⟩)
    · left
      have := congrArg String.Pos.Raw.byteIdx h
      simpa [hsz] using this
    · right
      have hlt : p < l.utf8Encode.size := by
        have := String.Pos.Raw.lt_iff.1 h
        simpa [hsz] using this
      refine ⟨hlt, ?_⟩
      simpa [String.getUTF8Byte] using hb
  · rintro (h | ⟨h, hb⟩)
    · left
      apply String.Pos.Raw.ext
      simpa [hsz] using h
    · right
      have hlt : (⟨p⟩ : String.Pos.Raw) < (String.ofList l).rawEndPos := by
        rw [String.Pos.Raw.lt_iff]; simpa [hsz] using h
      refine ⟨hlt, ?_⟩
      simpa [String.getUTF8Byte] using hb

/-- a model slice is the byte slice: if `t` is the slice of `l` at byte `o` (`SliceAt`), then the bytes
    `o .. o + utf8Len t` of the UTF-8 encoding of `l` (Rust: `&input[o..o + t.len()]`) are the encoding of `t` -/
theorem spansBytes_slice (l : List Char) (o : Nat) (t : List Char) (h : SliceAt 0 l o t) :
    l.utf8Encode.extract o (o + utf8Len t) = t.utf8Encode := by
  obtain ⟨pre, suf, rfl, ho⟩ := h
  rw [Nat.zero_add, spansBytes_utf8Len_encode] at ho
  rw [spansBytes_utf8Len_encode, List.utf8Encode_append, List.utf8Encode_append, ByteArray.append_assoc, ho]
  have := ByteArray.extract_append_size_add (a := pre.utf8Encode) (b := t.utf8Encode ++ suf.utf8Encode)
    (i := 0) (j := t.utf8Encode.size)
  rw [Nat.add_zero] at this
  rw [this]
  exact ByteArray.extract_append_eq_left rfl

end Cook
