import CookModel.Lemmas.ExtLawsEvents
import CookModel.Lemmas.C02Lift
/-
  C02, MODES: on an input no block of which is a `>> [key]` line (`metaKeyCore`) no `>>` EVENT has a
  `[…]` key as the analysis tests it — for blocks with arbitrary step content (the version for
  `UsesNone` blocks is `pullEvents_QSyn`).
-/
set_option linter.unusedSectionVars false
set_option linter.unusedSimpArgs false
set_option linter.unusedVariables false
namespace Cook

variable {α : Type} [Arith α]

/-- a `>>` event has no `[…]` key; nothing is asked of the other events -/
def QMeta (cs : CharSpec) : Ev α → Prop
  | .metadata k _ => bracketedKey cs k = false
  | _ => True

instance (cs : CharSpec) : DiagQ (QMeta (α := α) cs) := ⟨fun _ => trivial, fun _ => trivial⟩
instance (cs : CharSpec) : TextStable (AllQ (QMeta (α := α) cs)) := ⟨fun evs t h => h.push trivial⟩

section shape
variable {I : Array (Ev α) → Prop} [DiagStable I]

theorem c02meta_ingredientP_shape :
    Keeps I (ingredientP (α := α)) (fun r => ∀ ev, r = some ev → ∃ c, ev = .ingredient c) := by
  unfold ingredientP
  keeps
  all_goals (refine Keeps.pure ?_; intro ev h; first | (cases h; done) | (cases h; exact ⟨_, rfl⟩))

end shape

theorem c02meta_stepComp (cs : CharSpec) (s : BP α) (hI : AllQ (QMeta (α := α) cs) s.evs) :
    AllQ (QMeta cs) (stepComp s).2.evs ∧ (∀ ev, (stepComp s).1 = some ev → QMeta cs ev) := by
  unfold stepComp
  rw [P_bind_run]
  have hp : peekK s = ((s.toks[s.cur]?).map (·.kind), s) := rfl
  rw [hp]
  dsimp only
  generalize (s.toks[s.cur]?).map (·.kind) = k
  split
  · have := (Keeps.withRecover (c02meta_ingredientP_shape (α := α) (I := AllQ (QMeta cs)))).run s hI
    refine ⟨this.1, ?_⟩
    intro ev hev
    obtain ⟨c, rfl⟩ := this.2 ev hev
    trivial
  · have := (Keeps.withRecover (cookwareP_shape (α := α) (I := AllQ (QMeta cs)))).run s hI
    refine ⟨this.1, ?_⟩
    intro ev hev
    obtain ⟨c, rfl⟩ := this.2 ev hev
    trivial
  · have := (Keeps.withRecover (timerP_shape (α := α) (I := AllQ (QMeta cs)))).run s hI
    refine ⟨this.1, ?_⟩
    intro ev hev
    obtain ⟨c, rfl⟩ := this.2 ev hev
    trivial
  · exact ⟨hI, fun ev h => by cases h⟩

theorem c02meta_stepTail (cs : CharSpec) (comp : Option (Ev α)) (hr : ∀ ev, comp = some ev → QMeta cs ev) :
    Keeps (AllQ (QMeta (α := α) cs)) (stepTail comp) (fun _ => True) := by
  cases comp with
  | some ev => exact Keeps.pushEv (fun evs h => h.push (hr ev rfl))
  | none => unfold stepTail; keeps

theorem c02meta_stepOne (cs : CharSpec) (s : BP α) (hI : AllQ (QMeta (α := α) cs) s.evs) :
    AllQ (QMeta cs) (stepOne s).2.evs := by
  rw [stepOne_eq, P_bind_run]
  obtain ⟨h1, h2⟩ := c02meta_stepComp cs s hI
  exact ((c02meta_stepTail cs _ h2).run _ h1).1

theorem c02meta_stepLoop (cs : CharSpec) (fuel : Nat) (s : BP α) (hI : AllQ (QMeta (α := α) cs) s.evs) :
    AllQ (QMeta cs) (stepLoop fuel s).2.evs := by
  induction fuel generalizing s with
  | zero =>
    have : Keeps (AllQ (QMeta (α := α) cs)) (stepLoop 0) (fun _ => True) := by unfold stepLoop; keeps
    exact (this.run s hI).1
  | succ fuel ih =>
    unfold stepLoop
    rw [P_bind_run]
    have hr : restToks s = (s.toks.drop s.cur, s) := rfl
    rw [hr]
    dsimp only
    split
    · exact hI
    · rw [P_bind_run]
      exact ih _ (c02meta_stepOne cs s hI)

theorem c02meta_parseStep (cs : CharSpec) (s : BP α) (hI : AllQ (QMeta (α := α) cs) s.evs) :
    AllQ (QMeta cs) (parseStep s).2.evs := by
  have e : (parseStep s).2.evs =
      ((stepLoop ((s.toks.drop s.cur).length) ({ s with evs := s.evs.push (.start .step) } : BP α)).2.evs).push
        (.stop .step) := rfl
  rw [e]
  exact (c02meta_stepLoop cs _ ({ s with evs := s.evs.push (.start .step) } : BP α)
    (hI.push (ev := .start .step) trivial)).push (ev := .stop .step) trivial

theorem c02meta_parseMultilineBlock (cs : CharSpec) (s : BP α) (hI : AllQ (QMeta (α := α) cs) s.evs) :
    AllQ (QMeta cs) (parseMultilineBlock s).2.evs := by
  have htext : Keeps (AllQ (QMeta (α := α) cs)) (parseTextBlock (α := α)) (fun _ => True) := by
    have h1 : Keeps (AllQ (QMeta (α := α) cs)) (pushEv (α := α) (.start .text)) (fun _ => True) :=
      Keeps.pushEv (fun _ h => h.push trivial)
    have h2 : Keeps (AllQ (QMeta (α := α) cs)) (pushEv (α := α) (.stop .text)) (fun _ => True) :=
      Keeps.pushEv (fun _ h => h.push trivial)
    unfold parseTextBlock; keeps
  unfold parseMultilineBlock
  rw [P_bind_run]
  have ha : allToks s = (s.toks, s) := rfl
  rw [ha]
  dsimp only
  split
  · have : Keeps (AllQ (QMeta (α := α) cs)) (do let _ ← consumeRest (α := α)) (fun _ => True) := by keeps
    exact (this.run s hI).1
  · rw [P_bind_run]
    have hp : peekK s = ((s.toks[s.cur]?).map (·.kind), s) := rfl
    rw [hp]
    dsimp only
    split
    · exact (htext.run s hI).1
    · exact c02meta_parseStep cs s hI

theorem c02meta_parseBlock (cs : CharSpec) (hkey : KeyTestsAgree cs) (oldStyle : Bool) (s : BP α)
    (hc : s.cur = 0) (hm : metaKeyCore cs s.toks = true)
    (hI : AllQ (QMeta (α := α) cs) s.evs) : AllQ (QMeta cs) (parseBlock oldStyle s).2.evs := by
  rw [parseBlock_eq, P_bind_run]
  obtain ⟨ht, -, hev⟩ := blockHead_fact oldStyle s
  have hI1 := ((blockHead_keeps (I := AllQ (QMeta (α := α) cs)) oldStyle).run s hI).1
  cases hr : (blockHead oldStyle s).1 with
  | none =>
    dsimp only
    exact c02meta_parseMultilineBlock cs _ hI1
  | some ev =>
    dsimp only
    show AllQ _ ((blockHead oldStyle s).2.evs.push ev)
    apply hI1.push
    rcases hev ev hr with ⟨n, rfl⟩ | ⟨key, value, rfl, hme⟩
    · trivial
    · have hk := metadataEntry_key s hc key value hme
      unfold metaKeyCore at hm
      rw [hk] at hm
      exact hkey key (by simpa using hm)

theorem c02meta_runBlock (cs : CharSpec) (hkey : KeyTestsAgree cs) (e : Ext) (oldStyle : Bool) (block : List Tok)
    (evs : Array (Ev α)) (p : Option String) (h : metaKeyCore cs block = true)
    (hI : AllQ (QMeta (α := α) cs) evs) : AllQ (QMeta cs) (runBlock cs e oldStyle block evs p).1 := by
  rw [runBlock_eq]
  dsimp only
  unfold runBlockBody
  rw [P_bind_run]
  have h1 : ∀ s0 : BP α, ((if block.isEmpty then panicWith "BlockParser::new: empty tokens" else pure () : P α Unit) s0).2.toks = s0.toks ∧
      ((if block.isEmpty then panicWith "BlockParser::new: empty tokens" else pure () : P α Unit) s0).2.cur = s0.cur ∧
      ((if block.isEmpty then panicWith "BlockParser::new: empty tokens" else pure () : P α Unit) s0).2.evs = s0.evs := by
    intro s0
    split
    · exact panicWith_fields _ s0
    · exact ⟨rfl, rfl, rfl⟩
  obtain ⟨t1, c1, e1⟩ := h1 ⟨block, 0, e, cs, evs, p⟩
  rw [P_bind_run]
  have hpb := c02meta_parseBlock cs hkey oldStyle _ c1 (by rw [t1]; exact h) (by rw [e1]; exact hI)
  have tail : Keeps (AllQ (QMeta (α := α) cs)) (get >>= fun s : BP α =>
      if s.cur ≠ s.toks.length then panicWith "Block tokens not parsed" else pure ()) (fun _ => True) := by
    keeps
  exact (tail.run _ hpb).1

theorem c02meta_foldl (cs : CharSpec) (hkey : KeyTestsAgree cs) (e : Ext) (oldStyle : Bool)
    (bs : List (List Tok)) (h : ∀ b ∈ bs, metaKeyCore cs b = true) (acc : Array (Ev α) × Option String)
    (hI : AllQ (QMeta (α := α) cs) acc.1) :
    AllQ (QMeta cs) (bs.foldl (fun acc b => runBlock cs e oldStyle b acc.1 acc.2) acc).1 := by
  induction bs generalizing acc with
  | nil => exact hI
  | cons b bs ih =>
    rw [List.foldl_cons]
    exact ih (fun b' hb' => h b' (by simp [hb'])) _
      (c02meta_runBlock cs hkey e oldStyle b acc.1 acc.2 (h b (by simp)) hI)

/-- no `>>` event of an input none of whose blocks is a `>> [key]` line has a `[…]` key -/
theorem c02meta_pullEvents (cs : CharSpec) (hkey : KeyTestsAgree cs) (e : Ext) (input : List Char)
    (h : AllBlocksOf cs input (metaKeyCore cs) = true) :
    ∀ ev ∈ (pullEvents (α := α) cs e input).1.toList, QMeta cs ev := by
  unfold AllBlocksOf inputTokens at h
  unfold pullEvents
  rw [List.all_eq_true] at h
  cases hfm : parseFrontmatter cs input with
  | none =>
    rw [hfm] at h
    exact c02meta_foldl cs hkey e true _ h _ (fun ev hev => by simp at hev)
  | some fm =>
    rw [hfm] at h
    refine c02meta_foldl cs hkey e false _ h _ ?_
    intro ev hev
    simp only [List.mem_singleton] at hev
    subst hev
    trivial

theorem c02meta_evNoBracket (cs : CharSpec) (hkey : KeyTestsAgree cs) (e : Ext) (input : List Char)
    (h : AllBlocksOf cs input (metaKeyCore cs) = true) :
    (pullEvents (α := α) cs e input).1.toList.all (evNoBracket cs) = true := by
  rw [List.all_eq_true]
  intro ev hev
  have := c02meta_pullEvents cs hkey e input h ev hev
  cases ev with
  | metadata k v =>
    have h' : bracketedKey cs k = false := this
    simp [evNoBracket, h']
  | _ => rfl

end Cook
