import CookModel.Lemmas.RecipeText
import CookModel.Lemmas.CollectorLast
import CookModel.Lemmas.CollectorMeta
/-
  C05 through the analysis, wave 6 (recipe level): a generic description of the fold of `parse_events`
  ("the state in which the event after `pre` is analysed", "what every later event keeps"), and on top of it
  * section names: the section list of the recipe holds the names of the `Section` events, in order;
  * `>>` metadata: the map holds, for every key that is not a config key, the value of the LAST entry
    written for it.
  Specification-side vocabulary only (`secNames`, `Ev.secName`, `metaLookup`, `rkConfigKey`): no new model
  function.
-/
set_option linter.unusedSectionVars false
set_option linter.unusedSimpArgs false
set_option linter.unusedVariables false
namespace Cook
variable {α : Type} [Arith α]

/-! ### the fold, generically -/

/-- everything the fold knows about the state `s` in which the event `ev` is analysed -/
structure RkAt (env : Env) (input : Str) (ev : Ev α) (s : Col α) (o o' : Option BlockKind) : Prop where
  np : NP env s
  rel : BlockRel s o
  wb : wbStep o ev = some o'
  ok : EvOK' ev
  sp : CompSpanOnBoundaries input ev
  ne : ¬ ∃ d, ev = .error d

theorem RkAt.next {env : Env} {input : Str} {ev : Ev α} {s : Col α} {o o' : Option BlockKind}
    (h : RkAt env input ev s o o') :
    NP env (processEvent env input ev s).2 ∧ BlockRel (processEvent env input ev s).2 o' :=
  processEvent_np env input ev s o o' h.np h.rel h.wb h.ok h.sp

theorem rk_collectorAfter_cons (env : Env) (input : Str) (e : Ev α) (pre : List (Ev α)) (s : Col α) :
    collectorAfter env input (e :: pre) s = collectorAfter env input pre (processEvent env input e s).2 := rfl

/-- a property every event keeps holds of the state the fold ends in -/
theorem rk_fold_pres (env : Env) (input : Str) (K : Col α → Prop) (evs : List (Ev α))
    (hK : ∀ ev ∈ evs, ∀ (s : Col α) (o o' : Option BlockKind), RkAt env input ev s o o' → K s →
      K (processEvent env input ev s).2)
    (s : Col α) (o : Option BlockKind) (hnp : NP env s) (hb : BlockRel s o)
    (hw : WBFrom o (evs ++ [Ev.start .step])) (hev : ∀ ev ∈ evs, EvOK' ev) (hsp : SpansOK input evs)
    (c : Col α) (hout : (parseEventsLoop env input evs s).output = some c) (hk : K s) :
    ∃ sF, K sF ∧ NP env sF ∧ sF.block = none ∧
      (parseEventsLoop env input ([] : List (Ev α)) sF).output = some c := by
  induction evs generalizing s o with
  | nil =>
    obtain ⟨o', hw1, -⟩ := hw
    have ho : o = none := by
      simp only [wbStep] at hw1
      split at hw1
      · assumption
      · cases hw1
    subst ho
    exact ⟨s, hk, hnp, hb, hout⟩
  | cons ev rest ih =>
    by_cases he : ∃ d0, ev = .error d0
    · obtain ⟨d0, rfl⟩ := he
      simp only [parseEventsLoop] at hout
      cases hout
    · rw [parseEventsLoop_cons_nonerror env input ev rest s he] at hout
      obtain ⟨o', hw1, hw2⟩ := hw
      have hat : RkAt env input ev s o o' :=
        ⟨hnp, hb, hw1, hev ev List.mem_cons_self, hsp ev List.mem_cons_self, he⟩
      obtain ⟨hnp', hb'⟩ := hat.next
      exact ih (fun e he' => hK e (List.mem_cons_of_mem _ he')) _ o' hnp' hb' hw2
        (fun e he' => hev e (List.mem_cons_of_mem _ he'))
        (fun e he' => hsp e (List.mem_cons_of_mem _ he')) hout (hK ev List.mem_cons_self s o o' hat hk)

/-- the state in which the event after `pre` is analysed, and the rest of the fold -/
theorem rk_fold_reach (env : Env) (input : Str) (pre : List (Ev α)) (ev : Ev α) (post : List (Ev α))
    (s : Col α) (o : Option BlockKind) (hnp : NP env s) (hb : BlockRel s o)
    (hw : WBFrom o ((pre ++ ev :: post) ++ [Ev.start .step])) (hev : ∀ e ∈ pre ++ ev :: post, EvOK' e)
    (hsp : SpansOK input (pre ++ ev :: post)) (c : Col α)
    (hout : (parseEventsLoop env input (pre ++ ev :: post) s).output = some c) :
    ∃ o1 o1', RkAt env input ev (collectorAfter env input pre s) o1 o1' ∧
      WBFrom o1' (post ++ [Ev.start .step]) ∧ (∀ e ∈ post, EvOK' e) ∧ SpansOK input post ∧
      (parseEventsLoop env input post (processEvent env input ev (collectorAfter env input pre s)).2).output
        = some c := by
  induction pre generalizing s o with
  | nil =>
    simp only [List.nil_append] at hw hev hsp hout
    by_cases he : ∃ d0, ev = .error d0
    · obtain ⟨d0, rfl⟩ := he
      simp only [parseEventsLoop] at hout
      cases hout
    · rw [parseEventsLoop_cons_nonerror env input ev post s he] at hout
      obtain ⟨o', hw1, hw2⟩ := hw
      exact ⟨o, o', ⟨hnp, hb, hw1, hev ev List.mem_cons_self, hsp ev List.mem_cons_self, he⟩, hw2,
        fun e he' => hev e (List.mem_cons_of_mem _ he'), fun e he' => hsp e (List.mem_cons_of_mem _ he'), hout⟩
  | cons e pre ih =>
    simp only [List.cons_append] at hw hev hsp hout
    by_cases he : ∃ d0, e = .error d0
    · obtain ⟨d0, rfl⟩ := he
      simp only [parseEventsLoop] at hout
      cases hout
    · rw [parseEventsLoop_cons_nonerror env input e _ s he] at hout
      obtain ⟨o', hw1, hw2⟩ := hw
      obtain ⟨hnp', hb'⟩ := processEvent_np env input e s o o' hnp hb hw1 (hev e List.mem_cons_self)
        (hsp e List.mem_cons_self)
      rw [rk_collectorAfter_cons]
      exact ih _ o' hnp' hb' hw2 (fun x hx => hev x (List.mem_cons_of_mem _ hx))
        (fun x hx => hsp x (List.mem_cons_of_mem _ hx)) hout

/-- what the end of the fold does: the last section is pushed, the deprecation notice is added; the tables
    and the metadata map are returned as they are -/
theorem rk_final (env : Env) (input : Str) (s c : Col α)
    (hout : (parseEventsLoop env input ([] : List (Ev α)) s).output = some c) :
    c.ingredients = s.ingredients ∧ c.cookware = s.cookware ∧ c.timers = s.timers ∧ c.inlineQ = s.inlineQ ∧
    c.metaMap = s.metaMap ∧
    c.sections = (if (!s.cur.isEmpty) = true then s.sections ++ [s.cur] else s.sections) := by
  unfold parseEventsLoop at hout
  simp only [Option.some.injEq] at hout
  rw [← hout]
  refine ⟨?_, ?_, ?_, ?_, ?_, ?_⟩ <;> split <;> split <;> simp_all

/-- the whole run of `parse`, from the initial state, split at one event of the stream -/
theorem rk_parse_reach (env : Env) (input : Str) (c : Col α)
    (hout : (parseRecipe (α := α) env input).output = some c) (pre post : List (Ev α)) (ev : Ev α)
    (hsplit : (pullEvents (α := α) env.cs env.ext input).1.toList = pre ++ ev :: post) :
    ∃ o1 o1', RkAt env input ev (collectorAfter env input pre ({} : Col α)) o1 o1' ∧
      WBFrom o1' (post ++ [Ev.start .step]) ∧ (∀ e ∈ post, EvOK' e) ∧ SpansOK input post ∧
      (parseEventsLoop env input post
        (processEvent env input ev (collectorAfter env input pre ({} : Col α))).2).output = some c := by
  have hw := pullEvents_closedStart (α := α) env.cs env.ext input
  have hev := pullEvents_evOK' (α := α) env.cs env.ext input
  have hsp := pullEvents_spansOK (α := α) env.cs env.ext input
  rw [hsplit] at hw hev hsp
  have hout' : (parseEventsLoop env input (pre ++ ev :: post) ({} : Col α)).output = some c := by
    rw [← hsplit]; exact hout
  exact rk_fold_reach env input pre ev post {} none (NP.init env) rfl hw hev hsp c hout'

/-! ### section names -/

/-- the names of the named sections, in order -/
def secNames (l : List Section) : List Str := l.filterMap (·.name)

/-- the name a `Section` event gives to the section it opens (`text_trimmed` of the name text) -/
def Ev.secName (env : Env) : Ev α → Option Str
  | .«section» (some n) => some (n.trimmed env.cs)
  | _ => none

theorem rk_secNames_snoc (l : List Section) (x : Section) : secNames (l ++ [x]) = secNames l ++ x.name.toList := by
  unfold secNames
  rw [List.filterMap_append]
  cases h : x.name <;> simp [h]

theorem rk_secNames_push (secs : List Section) (cur : Section) :
    secNames (if (!cur.isEmpty) = true then secs ++ [cur] else secs) = secNames (secs ++ [cur]) := by
  split
  · rfl
  · rename_i h
    rw [rk_secNames_snoc]
    have hn : cur.name = none := by
      unfold Section.isEmpty at h
      cases hc : cur.name with
      | none => rfl
      | some n => rw [hc] at h; simp at h
    rw [hn]; simp

/-- one event: the names of the sections (finished and current) grow by the name the event gives -/
theorem rk_sections_step (env : Env) (input : Str) (ev : Ev α) (s : Col α) (hi : Inv env s) (hev : EvOK ev) :
    secNames ((processEvent env input ev s).2.sections ++ [(processEvent env input ev s).2.cur]) =
      secNames (s.sections ++ [s.cur]) ++ (ev.secName env).toList := by
  by_cases hs : ∃ name, ev = .«section» name
  · obtain ⟨name, rfl⟩ := hs
    simp only [processEvent, A_modify]
    rw [rk_secNames_snoc, rk_secNames_push]
    cases name with
    | none => rfl
    | some n => rfl
  · have hnone : ev.secName env = none := by
      cases ev <;> first | rfl | exact absurd ⟨_, rfl⟩ hs
    rw [hnone]
    simp only [Option.toList_none, List.append_nil]
    have ht := processEvent_trans env input ev s hi hev
    cases ht with
    | keep hsec hcur => rw [hsec, hcur]
    | newSection name hsecEv =>
      exfalso
      cases ev <;> first | exact absurd ⟨_, rfl⟩ hs | cases hsecEv
    | pushBlock c hsec hcur => rw [hsec, hcur, rk_secNames_snoc, rk_secNames_snoc]
    | ingr ings igr hsec hcur => rw [hsec, hcur]
    | cw cws cwn hsec hcur => rw [hsec, hcur]

/-- the names of the sections of the recipe: those present when the remaining events start, then the
    names the remaining `Section` events give, in order -/
theorem rk_sections_fold (env : Env) (input : Str) (evs : List (Ev α)) (s c : Col α) (hi : Inv env s)
    (hev : ∀ ev ∈ evs, EvOK ev) (hc : (parseEventsLoop env input evs s).output = some c) :
    secNames c.sections = secNames (s.sections ++ [s.cur]) ++ evs.filterMap (Ev.secName env) := by
  induction evs generalizing s with
  | nil =>
    rw [(rk_final env input s c hc).2.2.2.2.2, rk_secNames_push]
    simp
  | cons ev rest ih =>
    by_cases he : ∃ d0, ev = .error d0
    · obtain ⟨d0, rfl⟩ := he
      simp only [parseEventsLoop] at hc
      cases hc
    · rw [parseEventsLoop_cons_nonerror env input ev rest s he] at hc
      rw [ih _ (processEvent_inv env input ev s hi (hev ev List.mem_cons_self))
        (fun e he' => hev e (List.mem_cons_of_mem _ he')) hc,
        rk_sections_step env input ev s hi (hev ev List.mem_cons_self), List.filterMap_cons]
      cases hn : Ev.secName env ev <;> simp

/-- **`parse`: the sections of the recipe carry the names of the `Section` events, in order** -/
theorem rk_parse_sections (env : Env) (input : Str) (c : Col α)
    (hout : (parseRecipe (α := α) env input).output = some c) :
    secNames c.sections = (pullEvents (α := α) env.cs env.ext input).1.toList.filterMap (Ev.secName env) := by
  have hev := pullEvents_evOK' (α := α) env.cs env.ext input
  have := rk_sections_fold env input _ {} c (Inv.init env) (fun ev h => (hev ev h).evOK) hout
  rw [this]
  rfl

/-- the last element of a list that satisfies a test -/
theorem rk_split_last {β : Type} (p : β → Bool) (l : List β) (h : ∃ x ∈ l, p x = true) :
    ∃ pre x post, l = pre ++ x :: post ∧ p x = true ∧ ∀ y ∈ post, p y = false := by
  induction l with
  | nil => obtain ⟨x, hx, _⟩ := h; cases hx
  | cons a t ih =>
    by_cases ht : ∃ x ∈ t, p x = true
    · obtain ⟨pre, x, post, e, hx, hp⟩ := ih ht
      exact ⟨a :: pre, x, post, by rw [e]; rfl, hx, hp⟩
    · obtain ⟨x, hx, hpx⟩ := h
      have hall : ∀ y ∈ t, p y = false := fun y hy => by
        cases hpy : p y with
        | false => rfl
        | true => exact absurd ⟨y, hy, hpy⟩ ht
      rcases List.mem_cons.1 hx with rfl | hx
      · exact ⟨[], x, t, rfl, hpx, hall⟩
      · exact absurd ⟨x, hx, hpx⟩ ht

/-! ### `>>` metadata -/

/-- the value the insertion-ordered map holds for a key -/
def metaLookup (m : List (Str × Str)) (k : Str) : Option Str := (m.find? (fun p => p.1 == k)).map (·.2)

/-- the key of a `>>` entry is read as a config key (`[mode]`, `[duplicate]`, …): MODES extension on, the
    trimmed key starts with `[` and ends with `]` -/
def rkConfigKey (env : Env) (keyT : Str) : Bool :=
  env.ext.has Gen.EXT_MODES && keyT.head? == some '[' && keyT.getLast? == some ']'

theorem rk_find_map (k v k' : Str) (m : List (Str × Str)) :
    (m.map (fun p => if p.1 == k then (k, v) else p)).find? (fun p => p.1 == k') =
      (m.find? (fun p => p.1 == k')).map (fun p => if p.1 == k then (k, v) else p) := by
  induction m with
  | nil => rfl
  | cons p t ih =>
    have hkey : (if p.1 == k then (k, v) else p).1 = p.1 := by
      split
      · rename_i h; simp at h; exact h.symm
      · rfl
    simp only [List.map_cons, List.find?_cons, hkey]
    split
    · rfl
    · exact ih

theorem rk_lookup_insert_same (m : List (Str × Str)) (k v : Str) : metaLookup (metaInsert m k v) k = some v := by
  unfold metaLookup metaInsert
  split
  · rename_i hany
    rw [rk_find_map]
    obtain ⟨p, hp, hk⟩ := List.any_eq_true.1 hany
    cases hf : m.find? (fun p => p.1 == k) with
    | none =>
      have := List.find?_eq_none.1 hf p hp
      exact absurd hk this
    | some q =>
      have hq := List.find?_some hf
      simp only [Option.map_some, hq, if_true]
  · rename_i hany
    have hnone : m.find? (fun p => p.1 == k) = none := by
      apply List.find?_eq_none.2
      intro p hp hk
      exact hany (List.any_eq_true.2 ⟨p, hp, hk⟩)
    simp [List.find?_append, hnone]

theorem rk_lookup_insert_other (m : List (Str × Str)) (k v k' : Str) (hne : k' ≠ k) :
    metaLookup (metaInsert m k v) k' = metaLookup m k' := by
  unfold metaLookup metaInsert
  split
  · rw [rk_find_map]
    cases hf : m.find? (fun p => p.1 == k') with
    | none => rfl
    | some q =>
      have hq := List.find?_some hf
      have hqk : (q.1 == k) = false := by
        simp only [beq_iff_eq] at hq
        rw [hq]
        simpa using hne
      simp only [Option.map_some, hqk, Bool.false_eq_true, if_false]
  · have : ((k == k') = false) := by simpa using fun h => hne h.symm
    simp [List.find?_append, this]

theorem rk_timeOverrideCheck_map (k : StdKey) (s : Col α) : (timeOverrideCheck k s).2.metaMap = s.metaMap := by
  unfold timeOverrideCheck
  simp +instances only [A_bind, A_get, A_ite, A_modify, A_pure, awarn, apanic]
  repeat' split
  all_goals rfl

/-- a `>>` entry leaves the map alone or writes its own (trimmed) key and value -/
theorem rk_metadataA_map (env : Env) (k v : Text) (s : Col α) :
    (metadataA env k v s).2.metaMap = s.metaMap ∨
    (metadataA env k v s).2.metaMap = metaInsert s.metaMap (k.trimmed env.cs) (v.outerTrimmed env.cs) := by
  unfold metadataA
  dsimp only
  cases h1 : StdKey.ofStr (String.ofList (k.trimmed env.cs)) with
  | none =>
    simp +instances only [A_bind, A_get, A_ite, A_modify, A_pure, awarn, aerr, apanic]
    repeat' split
    all_goals first
      | (left; rfl)
      | (right; rfl)
  | some sk =>
    cases h2 : env.stdCheck sk (v.outerTrimmed env.cs) <;>
    simp +instances only [A_bind, A_get, A_ite, A_modify, A_pure, awarn, aerr, apanic, h2] <;>
    repeat' split
    all_goals first
      | (left; rfl)
      | (right; rfl)
      | (right; simp only [rk_timeOverrideCheck_map]; done)

/-- … and writes them when the key is not read as a config key -/
theorem rk_metadataA_map_plain (env : Env) (k v : Text) (s : Col α)
    (hnc : rkConfigKey env (k.trimmed env.cs) = false) :
    (metadataA env k v s).2.metaMap = metaInsert s.metaMap (k.trimmed env.cs) (v.outerTrimmed env.cs) := by
  unfold rkConfigKey at hnc
  unfold metadataA
  dsimp only
  cases h1 : StdKey.ofStr (String.ofList (k.trimmed env.cs)) with
  | none =>
    simp +instances only [A_bind, A_get, A_ite, A_modify, A_pure, awarn, aerr, apanic, hnc, Bool.false_and,
      Bool.false_eq_true, if_false]
  | some sk =>
    cases h2 : env.stdCheck sk (v.outerTrimmed env.cs) <;>
    simp +instances only [A_bind, A_get, A_ite, A_modify, A_pure, awarn, aerr, apanic, hnc, Bool.false_and,
      Bool.false_eq_true, if_false, h2] <;>
    repeat' split
    all_goals first
      | rfl
      | (simp only [rk_timeOverrideCheck_map]; done)

/-- only a `>>` entry touches the metadata map -/
theorem rk_processEvent_map (env : Env) (input : Str) (ev : Ev α) (s : Col α)
    (hnm : ∀ k v, ev ≠ .metadata k v) : (processEvent env input ev s).2.metaMap = s.metaMap := by
  cases ev with
  | metadata k v => exact absurd rfl (hnm k v)
  | frontMatter t => rfl
  | «section» name => rfl
  | start kind => rfl
  | error d => rfl
  | warning d => rfl
  | stop kind => exact congrArg MS.metaMap ((pf_endBlock s.ms kind).run s rfl)
  | text t => exact congrArg MS.metaMap ((pf_inStepText s.ms env t).run s rfl)
  | ingredient i => exact congrArg MS.metaMap ((pf_inBlockComponent s.ms env input _).run s rfl)
  | cookware c => exact congrArg MS.metaMap ((pf_inBlockComponent s.ms env input _).run s rfl)
  | timer t => exact congrArg MS.metaMap ((pf_inBlockComponent s.ms env input _).run s rfl)

/-- an event that is not a `>>` entry for the key `key` keeps the value the map holds for `key` -/
theorem rk_processEvent_lookup (env : Env) (input : Str) (ev : Ev α) (s : Col α) (key : Str)
    (hk : ∀ k v, ev = .metadata k v → k.trimmed env.cs ≠ key) :
    metaLookup (processEvent env input ev s).2.metaMap key = metaLookup s.metaMap key := by
  by_cases hm : ∃ k v, ev = .metadata k v
  · obtain ⟨k, v, rfl⟩ := hm
    simp only [processEvent]
    rcases rk_metadataA_map env k v s with h | h
    · rw [h]
    · rw [h, rk_lookup_insert_other _ _ _ _ (fun e => hk k v rfl e.symm)]
  · rw [rk_processEvent_map env input ev s (fun k v e => hm ⟨k, v, e⟩)]

/-- **`parse`: the metadata map holds the LAST value written for a key.**  For a `>>` entry of the stream whose
    (trimmed) key is not read as a config key and which no later `>>` entry of the same key follows, the map
    of the recipe holds its (outer-trimmed) value for that key. -/
theorem rk_parse_meta_last (env : Env) (input : Str) (c : Col α)
    (hout : (parseRecipe (α := α) env input).output = some c) (pre post : List (Ev α)) (k v : Text)
    (hsplit : (pullEvents (α := α) env.cs env.ext input).1.toList = pre ++ Ev.metadata k v :: post)
    (hnc : rkConfigKey env (k.trimmed env.cs) = false)
    (hlast : ∀ k' v', Ev.metadata k' v' ∈ post → k'.trimmed env.cs ≠ k.trimmed env.cs) :
    metaLookup c.metaMap (k.trimmed env.cs) = some (v.outerTrimmed env.cs) := by
  obtain ⟨o1, o1', hat, hw, hev, hsp, hrest⟩ := rk_parse_reach env input c hout pre post _ hsplit
  obtain ⟨hnp', hb'⟩ := hat.next
  have h0 : metaLookup (processEvent env input (Ev.metadata k v) (collectorAfter env input pre ({} : Col α))).2.metaMap
      (k.trimmed env.cs) = some (v.outerTrimmed env.cs) := by
    simp only [processEvent]
    rw [rk_metadataA_map_plain env k v _ hnc, rk_lookup_insert_same]
  obtain ⟨sF, hK, -, -, hfin⟩ := rk_fold_pres env input
    (fun s => metaLookup s.metaMap (k.trimmed env.cs) = some (v.outerTrimmed env.cs)) post
    (fun ev hmem s o o' _ hk => by
      show metaLookup _ _ = _
      rw [rk_processEvent_lookup env input ev s _ (fun k' v' e => hlast k' v' (e ▸ hmem))]
      exact hk)
    _ o1' hnp' hb' hw hev hsp c hrest h0
  rw [(rk_final env input sF c hfin).2.2.2.2.1]
  exact hK

/-- … hence the key of EVERY `>>` entry that is not a config key is in the map of the recipe, with the value
    of some `>>` entry of that key (the last one) -/
theorem rk_parse_meta_key (env : Env) (input : Str) (c : Col α)
    (hout : (parseRecipe (α := α) env input).output = some c) (k v : Text)
    (hmem : Ev.metadata k v ∈ (pullEvents (α := α) env.cs env.ext input).1.toList)
    (hnc : rkConfigKey env (k.trimmed env.cs) = false) :
    ∃ k' v', Ev.metadata k' v' ∈ (pullEvents (α := α) env.cs env.ext input).1.toList ∧
      k'.trimmed env.cs = k.trimmed env.cs ∧
      metaLookup c.metaMap (k.trimmed env.cs) = some (v'.outerTrimmed env.cs) := by
  -- the last entry of the key: split the stream at the last event that is a `>>` entry of this key
  generalize hl : (pullEvents (α := α) env.cs env.ext input).1.toList = l at hmem
  have hP : ∃ x ∈ l, (match x with
      | Ev.metadata k' _ => decide (k'.trimmed env.cs = k.trimmed env.cs)
      | _ => false) = true := ⟨_, hmem, by simp⟩
  obtain ⟨pre, x, post, hsplit, hx, hpost⟩ := rk_split_last _ l hP
  cases x with
  | metadata k' v' =>
    simp only [decide_eq_true_eq] at hx
    refine ⟨k', v', by rw [hsplit]; simp, hx, ?_⟩
    rw [← hx]
    refine rk_parse_meta_last env input c hout pre post k' v' (hl.trans hsplit) (by rw [hx]; exact hnc) ?_
    intro k2 v2 h2 e
    have := hpost _ h2
    simp [e, hx] at this
  | _ => simp at hx

end Cook
