import CookModel.Lemmas.CoverAll
import CookModel.Lemmas.MetaFront
/-
  C05, the whole input by byte positions: every letter or digit of the input lies inside a comment
  token of the body or inside the source span of an event (front matter included).
-/
set_option linter.unusedSectionVars false
set_option linter.unusedSimpArgs false
set_option linter.unusedVariables false
namespace Cook

variable {α : Type} [Arith α]

/-- the source span of an event for coverage: `Ev.srcSpan`, plus the span of the YAML text for the
    front-matter event -/
def Ev.covSpan : Ev α → Option Span
  | .frontMatter t => some t.span
  | ev => ev.srcSpan

theorem Ev.covSpan_of_srcSpan {ev : Ev α} {sp : Span} (h : ev.srcSpan = some sp) : ev.covSpan = some sp := by
  cases ev <;> first | exact h | (simp [Ev.srcSpan] at h)

/-- the bytes `[p, q)` of the input lie inside the span of some event -/
def BytesCovered (evs : Array (Ev α)) (p q : Nat) : Prop :=
  ∃ ev ∈ evs.toList, ∃ sp, ev.covSpan = some sp ∧ sp.start ≤ p ∧ q ≤ sp.stop

/-- the bytes `[p, q)` lie inside a comment token of the body -/
def InComment (cs : CharSpec) (input : List Char) (p q : Nat) : Prop :=
  ∃ t ∈ bodyToks cs input, (t.kind = .lineComment ∨ t.kind = .blockComment) ∧ t.start ≤ p ∧ q ≤ t.stop

/-! ### the token that holds a given character -/

theorem cov_tok_at_char {off : Nat} {ts : List Tok} (hc : Chain off ts) {a z : List Char} {c : Char}
    (h : ts.flatMap (·.text) = a ++ c :: z) :
    ∃ t ∈ ts, ∃ a' z', t.text = a' ++ c :: z' ∧ t.start + utf8Len a' = off + utf8Len a := by
  induction ts generalizing off a with
  | nil => simp at h
  | cons t ts ih =>
    simp only [List.flatMap_cons] at h
    obtain ⟨h1, h2⟩ := hc
    rcases List.append_eq_append_iff.mp h with ⟨a', e1, e2⟩ | ⟨c', e1, e2⟩
    · -- a = t.text ++ a'
      obtain ⟨u, hu, x, y, k1, k2⟩ := ih h2 e2
      refine ⟨u, by simp [hu], x, y, k1, ?_⟩
      rw [k2, e1, utf8Len_append]
      simp only [Tok.stop]; omega
    · cases c' with
      | nil =>
        simp only [List.nil_append] at e2
        simp only [List.append_nil] at e1
        obtain ⟨u, hu, x, y, k1, k2⟩ := ih (a := []) h2 (by simpa using e2.symm)
        refine ⟨u, by simp [hu], x, y, k1, ?_⟩
        rw [k2, ← e1]
        simp only [Tok.stop, utf8Len]; simp; omega
      | cons d r =>
        simp only [List.cons_append, List.cons.injEq] at e2
        obtain ⟨rfl, -⟩ := e2
        exact ⟨t, by simp, a, r, e1, by omega⟩

/-- a letter or digit inside a token of the body: in a comment, or covered by an event -/
theorem cov_body_char_covered (cs : CharSpec) (hs : AlnumSpec cs) (ext : Ext) (input : List Char)
    {t : Tok} (ht : t ∈ bodyToks cs input) {a' z' : List Char} {c : Char} (htx : t.text = a' ++ c :: z')
    (ha : cs.alnum c = true) :
    InComment cs input (t.start + utf8Len a') (t.start + utf8Len a' + c.utf8Size) ∨
    BytesCovered (pullEvents (α := α) cs ext input).1 (t.start + utf8Len a') (t.start + utf8Len a' + c.utf8Size) := by
  have hstop : t.start + utf8Len a' + c.utf8Size ≤ t.stop := by
    simp only [Tok.stop, htx, utf8Len_append, utf8Len_cons]; omega
  by_cases hk : t.kind = .lineComment ∨ t.kind = .blockComment
  · exact Or.inl ⟨t, ht, hk, by omega, hstop⟩
  · right
    have hlc : t.kind ≠ .lineComment := fun h => hk (Or.inl h)
    have hbc : t.kind ≠ .blockComment := fun h => hk (Or.inr h)
    have hmem : c ∈ t.text := by rw [htx]; simp
    obtain ⟨ev, hev, sp, k1, k2, k3⟩ :=
      pullEvents_alnum_covered (α := α) cs hs ext input t ht hlc hbc c hmem ha
    refine ⟨ev, hev, sp, Ev.covSpan_of_srcSpan k1, ?_, by omega⟩
    -- the body starts at or before the character
    unfold tokBodyStart at k2
    split at k2
    · rename_i hesc
      -- an escape: the first character is the backslash, which is no letter or digit
      have hwsp : WellSpelled cs (bodyToks cs input) := by
        unfold bodyToks
        split
        · exact lexFrom_wellSpelled cs _ _
        · exact lexFrom_wellSpelled cs _ _
      obtain ⟨nx, hsp⟩ := wellSpelled_mem hwsp ht
      have hne : a' ≠ [] := by
        intro h0
        rw [hesc, htx, h0] at hsp
        simp only [List.nil_append, spellOK, Bool.and_eq_true, beq_iff_eq] at hsp
        exact (hs.notSyntax c ha).2.2.1 hsp.1
      have := utf8Len_pos hne
      omega
    · omega

/-! ### the lines around the front matter carry no letter or digit -/

theorem cov_dropWhile_head_not {β : Type} (p : β → Bool) (l : List β) (x : β) (t : List β)
    (h : l.dropWhile p = x :: t) : p x = false := by
  induction l with
  | nil => simp at h
  | cons a l ih =>
    rw [List.dropWhile_cons] at h
    split at h
    · exact ih h
    · rename_i hp
      simp only [List.cons.injEq] at h
      rw [← h.1]; simpa using hp

theorem cov_fence_chars {cs : CharSpec} {l : List Char} (h : isFence cs l = true) :
    ∀ c ∈ l, cs.uws c = true ∨ c = '-' := by
  unfold isFence trimEnd at h
  have hsplit := List.takeWhile_append_dropWhile (p := cs.uws) (l := l.reverse)
  have hd : l.reverse.dropWhile cs.uws = ['-', '-', '-'] := by
    have := congrArg List.reverse (by simpa using h : (l.reverse.dropWhile cs.uws).reverse = ['-', '-', '-'])
    simpa using this
  intro c hc
  have hc' : c ∈ l.reverse := by simpa using hc
  rw [← hsplit, hd] at hc'
  simp only [List.mem_append, List.mem_cons, List.not_mem_nil, or_false] at hc'
  rcases hc' with hc' | hc'
  · left
    have hall := List.all_takeWhile (l := l.reverse) (p := cs.uws)
    rw [List.all_eq_true] at hall
    exact hall c hc'
  · right; rcases hc' with h | h | h <;> exact h

theorem cov_blank_chars {cs : CharSpec} {l : List Char} (h : (trim cs.uws l).isEmpty = true) :
    ∀ c ∈ l, cs.uws c = true := by
  intro c hc
  cases hu : cs.uws c with
  | true => rfl
  | false =>
    have := trim_nonempty (cs := cs) (s := l) ⟨c, hc, hu⟩
    rw [h] at this; cases this

/-- the front-matter split, with what the skipped parts consist of: `pre` (blank lines and the
    opening fence) and `mid` (the closing fence) contain only white space and `-` -/
theorem cov_frontmatter_layout (cs : CharSpec) (s : List Char) (fm : FrontMatter)
    (h : parseFrontmatter cs s = some fm) :
    ∃ pre mid, s = pre ++ fm.yamlText ++ mid ++ fm.cookText ∧
      fm.yamlOffset = utf8Len pre ∧ fm.cookOffset = utf8Len (pre ++ fm.yamlText ++ mid) ∧
      (∀ c ∈ pre, cs.uws c = true ∨ c = '-') ∧ (∀ c ∈ mid, cs.uws c = true ∨ c = '-') := by
  unfold parseFrontmatter at h
  simp only at h
  generalize hL : linesWithOffset (splitInclusive s) 0 = L at h
  have htext : L.flatMap (·.1) = s := by
    rw [← hL, blocks_linesWithOffset_text, blocks_splitInclusive_flatten]
  have hsplit1 := List.takeWhile_append_dropWhile (p := fun l : List Char × Nat => !isFence cs l.1) (l := L)
  split at h
  · cases h
  · rename_i f1 rest1 hd1
    have hf1 : isFence cs f1.1 = true := by
      have := cov_dropWhile_head_not _ _ _ _ hd1
      simpa using this
    split at h
    · cases h
    · rename_i hall
      have hsplit2 := List.takeWhile_append_dropWhile (p := fun l : List Char × Nat => !isFence cs l.1) (l := rest1)
      split at h
      · cases h
      · rename_i f2 rest2 hd2
        have hf2 : isFence cs f2.1 = true := by
          have := cov_dropWhile_head_not _ _ _ _ hd2
          simpa using this
        simp only [Option.some.injEq] at h
        rw [hd1] at hsplit1
        rw [hd2] at hsplit2
        generalize List.takeWhile (fun l : List Char × Nat => !isFence cs l.1) L = before at hsplit1 hall
        generalize hy : List.takeWhile (fun l : List Char × Nat => !isFence cs l.1) rest1 = yaml at hsplit2 h
        have e1 : linesWithOffset (splitInclusive s) 0 = before ++ f1 :: rest1 := by rw [hL, hsplit1]
        have e2 : linesWithOffset (splitInclusive s) 0 = (before ++ f1 :: yaml) ++ f2 :: rest2 := by
          rw [e1, ← hsplit2]; simp
        have o1 := blocks_linesWithOffset_offset _ _ _ _ _ e1
        have o2 := blocks_linesWithOffset_offset _ _ _ _ _ e2
        refine ⟨before.flatMap (·.1) ++ f1.1, f2.1, ?_, ?_, ?_, ?_, ?_⟩
        · rw [← h, ← htext, ← hsplit1, ← hsplit2]
          simp [List.flatMap_append, List.append_assoc]
        · rw [← h]; simp only [o1, utf8Len_append]; omega
        · rw [← h]
          simp only [o2, List.flatMap_append, List.flatMap_cons, utf8Len_append]
          omega
        · intro c hc
          simp only [List.mem_append, List.mem_flatMap] at hc
          rcases hc with ⟨l, hl, hcl⟩ | hc
          · left
            have hb : (before.all (fun l => (trim cs.uws l.1).isEmpty)) = true := by simpa using hall
            rw [List.all_eq_true] at hb
            exact cov_blank_chars (hb l hl) c hcl
          · exact cov_fence_chars hf1 c hc
        · exact cov_fence_chars hf2

/-! ### every letter or digit of the input -/

theorem cov_char_in_append {x y a z : List Char} {c : Char} (h : a ++ c :: z = x ++ y) :
    (∃ z', x = a ++ c :: z') ∨ (∃ a', a = x ++ a' ∧ y = a' ++ c :: z) := by
  rcases List.append_eq_append_iff.mp h with ⟨a1, e1, e2⟩ | ⟨c1, e1, e2⟩
  · cases a1 with
    | nil =>
      right
      exact ⟨[], by simpa using e1.symm, by simpa using e2.symm⟩
    | cons d r =>
      left
      simp only [List.cons_append, List.cons.injEq] at e2
      obtain ⟨rfl, -⟩ := e2
      exact ⟨r, e1⟩
  · exact Or.inr ⟨c1, e1, e2⟩

theorem cov_fromStr_span (s : List Char) (off : Nat) (hne : s ≠ []) :
    (Text.fromStr s off).span = ⟨off, off + utf8Len s⟩ := by
  cases s with
  | nil => exact absurd rfl hne
  | cons x r =>
    simp [Text.fromStr, Text.appendStr, Text.appendFrag, Text.empty, Text.span, Span.pos, Frag.stop]

/-- **C05, whole input.**  Every letter or digit of the input — the character `c` at byte
    `utf8Len a` when the input is `a ++ c :: z` — lies inside a comment token of the body or inside
    the source span of an event of the pull parser: a text, an ingredient, a cookware, a timer, a
    metadata entry (key start to value end), a section name, or the front matter.  No hypothesis on
    the diagnostics is needed. -/
theorem cov_input_conservation (cs : CharSpec) (hs : AlnumSpec cs) (ext : Ext) (input a z : List Char)
    (c : Char) (hin : input = a ++ c :: z) (ha : cs.alnum c = true) :
    InComment cs input (utf8Len a) (utf8Len a + c.utf8Size) ∨
    BytesCovered (pullEvents (α := α) cs ext input).1 (utf8Len a) (utf8Len a + c.utf8Size) := by
  have hnu : ¬ (cs.uws c = true ∨ c = '-') := by
    rintro (h | h)
    · rw [(hs.notWs c ha).1] at h; cases h
    · exact (hs.notSyntax c ha).2.2.2.2.2 h
  cases hp : parseFrontmatter cs input with
  | none =>
    have hb : bodyToks cs input = lexFrom cs 0 input := by unfold bodyToks lex; rw [hp]
    have htile : (lexFrom cs 0 input).flatMap (·.text) = a ++ c :: z := by
      rw [← hin]; exact lexFrom_tile cs 0 input
    obtain ⟨t, ht, a', z', k1, k2⟩ := cov_tok_at_char (lexFrom_chain cs 0 input) htile
    have := cov_body_char_covered (α := α) cs hs ext input (t := t) (by rw [hb]; exact ht) k1 ha
    have e : t.start + utf8Len a' = utf8Len a := by omega
    rw [e] at this; exact this
  | some fm =>
    have hb : bodyToks cs input = lexFrom cs fm.cookOffset fm.cookText := by unfold bodyToks; rw [hp]
    obtain ⟨pre, mid, e, o1, o2, hpre, hmid⟩ := cov_frontmatter_layout cs input fm hp
    have hsplit : a ++ c :: z = pre ++ (fm.yamlText ++ (mid ++ fm.cookText)) := by rw [← hin, e]; simp
    rcases cov_char_in_append hsplit with ⟨z', e1⟩ | ⟨a2, e1, e2⟩
    · exact absurd (hpre c (by rw [e1]; simp)) hnu
    rcases cov_char_in_append e2.symm with ⟨z', e3⟩ | ⟨a3, e3, e4⟩
    · -- inside the YAML text: the front-matter event
      right
      obtain ⟨L, hL, -⟩ := mfront_pullEvents (α := α) cs ext input fm hp
      have hmem : Ev.frontMatter (Text.fromStr fm.yamlText fm.yamlOffset) ∈
          (pullEvents (α := α) cs ext input).1.toList := by
        have : Ev.frontMatter (Text.fromStr fm.yamlText fm.yamlOffset) ∈
            metaOf (pullEvents (α := α) cs ext input).1 := by rw [hL]; simp
        unfold metaOf at this
        exact (List.mem_filter.mp this).1
      have hne : fm.yamlText ≠ [] := by rw [e3]; simp
      refine ⟨_, hmem, _, rfl, ?_, ?_⟩
      · rw [cov_fromStr_span _ _ hne, o1, e1, utf8Len_append]
        show utf8Len pre ≤ utf8Len pre + utf8Len a2
        omega
      · rw [cov_fromStr_span _ _ hne, o1, e1, utf8Len_append]
        show utf8Len pre + utf8Len a2 + c.utf8Size ≤ utf8Len pre + utf8Len fm.yamlText
        rw [e3, utf8Len_append, utf8Len_cons]
        omega
    rcases cov_char_in_append e4.symm with ⟨z', e5⟩ | ⟨a4, e5, e6⟩
    · exact absurd (hmid c (by rw [e5]; simp)) hnu
    · -- inside the body
      have htile : (lexFrom cs fm.cookOffset fm.cookText).flatMap (·.text) = a4 ++ c :: z := by
        rw [lexFrom_tile, e6]
      obtain ⟨t, ht, a', z', k1, k2⟩ := cov_tok_at_char (lexFrom_chain cs fm.cookOffset fm.cookText) htile
      have := cov_body_char_covered (α := α) cs hs ext input (t := t) (by rw [hb]; exact ht) k1 ha
      have e : t.start + utf8Len a' = utf8Len a := by
        rw [k2, o2, e1, e3, e5]
        simp only [utf8Len_append]
        omega
      rw [e] at this; exact this

/-- the toy character table of the examples satisfies `AlnumSpec` -/
theorem toyCharSpec_alnumSpec : AlnumSpec toyCharSpec := by
  have key : ∀ c : Char, c.isAlphanum = true → ∀ d : Char, d.isAlphanum = false → c ≠ d := by
    intro c h d hd e; subst e; rw [h] at hd; cases hd
  constructor
  · intro c h
    have h' : c.isAlphanum = true := h
    have k1 := key c h' ' ' (by decide)
    have k2 := key c h' '\t' (by decide)
    have k3 := key c h' '\r' (by decide)
    have k4 := key c h' '\n' (by decide)
    refine ⟨?_, ?_⟩
    · show c.isWhitespace = false
      simp [Char.isWhitespace, k1, k2, k3, k4]
    · show decide (c = ' ' ∨ c = '\t') = false
      simp [k1, k2]
  · intro c h
    have h' : c.isAlphanum = true := h
    exact ⟨key c h' '>' (by decide), key c h' '=' (by decide), key c h' '\\' (by decide),
      key c h' '\n' (by decide), key c h' '\r' (by decide), key c h' '-' (by decide)⟩

/-- the three component parsers: the returned event spans exactly the consumed bytes, so every
    consumed token lies inside it -/
theorem cov_component_span_exact {ts : List Tok} (hw : WF ts) {e : Ext} {s : BP α} (hg : G ts e s)
    (p : P α (Option (Ev α))) (hp : p = ingredientP ∨ p = cookwareP ∨ p = timerP) (ev : Ev α)
    (hr : (p s).1 = some ev) :
    ev.srcSpan = some ⟨offAt ts s.cur, offAt ts (p s).2.cur⟩ ∧
    ∀ (i : Nat) (t : Tok), s.cur ≤ i → i < (p s).2.cur → ts[i]? = some t →
      offAt ts s.cur ≤ t.start ∧ t.stop ≤ offAt ts (p s).2.cur := by
  have hwi := cov_wf_wfi hw
  have hc : Ctx 0 _ (fun _ : Array (Ev α) => True) ts := ⟨hwi, fun _ _ _ _ => ⟨trivial, trivial⟩⟩
  have hge : GE (fun _ : Array (Ev α) => True) ts e s := ⟨hg, trivial⟩
  have hat : EvAt ts s.cur (p s).2.cur (p s).1 := by
    rcases hp with rfl | rfl | rfl
    · exact (ingredientP_evx hc hge).2.2.2
    · exact (cookwareP_evx hc hge).2.2.2
    · exact (timerP_evx hc Boundary.first hge).2.2.2
  refine ⟨hat ev hr, ?_⟩
  intro i t h1 h2 ht
  have := hwi.tokAt ht
  have := hwi.offAt_mono h1
  have := hwi.offAt_mono (show i + 1 ≤ (p s).2.cur by omega)
  omega

end Cook
