import CookModel.Lemmas.Convert
import CookModel.Lemmas.ConvertMore
/-
  Which unit `BestConversions::best_unit` (src/convert/mod.rs:361) picks.  Lemmas at `α := Rat`, prefix `bu_`.

  The code: `norm` = |value| (the number, or the START of a range) converted to the list's first unit (the base);
  scanning the list from its END, the first entry `(th, id)` with `norm >= th - 0.001` wins; if there is none,
  the first entry of the list.

  Specification-side vocabulary only (no model of code is added here): `ConvertValue.lead`, `buPick`,
  `BestListOK` / `bestListOKB`, `Converter.PosRatios`.
-/
namespace Cook
open Arith

/-- the number `best_unit` looks at: the number itself, or the START of a range -/
def ConvertValue.lead : ConvertValue Rat → Rat
  | .number n => n
  | .range s _ => s

/-- the literal `0.001` of `best_unit` -/
def buEps : Rat := Gen.BEST_EPS.rat

theorem buEps_val : buEps = 1 / 1000 := by decide +kernel
theorem bu_eps_nonneg : 0 ≤ buEps := by decide +kernel

/-- the entry test of `best_unit`: `norm >= th - 0.001` -/
def buTest (norm : Rat) (e : Rat × Unit Rat) : Bool := decide (e.1 - buEps ≤ norm)

/-- the choice of `best_unit` as a function of the list and the normalised value alone:
    the LAST entry that passes the test, else the first entry -/
def buPick (entries : List (Rat × Unit Rat)) (base : Rat × Unit Rat) (norm : Rat) : Unit Rat :=
  match entries.reverse.find? (buTest norm) with
  | some e => e.2
  | none => base.2

theorem bu_test_fun (norm : Rat) :
    (fun e : Rat × Unit Rat => Arith.ge norm (e.1 - Arith.const Gen.BEST_EPS)) = buTest norm := by
  funext e; simp only [buTest, buEps, rat_ge, rat_sub, rat_const]; exact decide_eq_decide.mpr Iff.rfl

/-- `best_unit` with a known base and normalised value is the pick -/
theorem bu_bestUnit_of {bc : BestConversions Rat} {value : ConvertValue Rat} {unit : Unit Rat}
    {base : Rat × Unit Rat} {rest : List (Rat × Unit Rat)} {norm : Rat}
    (he : bc.entries = base :: rest) (hn : convertF64 (Rat.abs value.lead) unit base.2 = some norm) :
    bc.bestUnit value unit = .ok (some (buPick bc.entries base norm)) := by
  unfold BestConversions.bestUnit
  cases value with
  | number n =>
    simp only [ConvertValue.lead] at hn
    simp only [he, List.head?_cons, rat_abs, rat_abs_eq, hn, bu_test_fun, buPick]
    cases (base :: rest).reverse.find? (buTest norm) <;> rfl
  | range s e =>
    simp only [ConvertValue.lead] at hn
    simp only [he, List.head?_cons, rat_abs, rat_abs_eq, hn, bu_test_fun, buPick]
    cases (base :: rest).reverse.find? (buTest norm) <;> rfl

/-- reading a successful `best_unit`: there is a base, the normalised value is defined, and the result is the pick -/
theorem bu_bestUnit_some {bc : BestConversions Rat} {value : ConvertValue Rat} {unit b : Unit Rat}
    (h : bc.bestUnit value unit = .ok (some b)) :
    ∃ base rest norm, bc.entries = base :: rest ∧
      convertF64 (Rat.abs value.lead) unit base.2 = some norm ∧ b = buPick bc.entries base norm := by
  cases he : bc.entries with
  | nil => rw [bestUnit_empty bc value unit he] at h; cases h
  | cons base rest =>
    cases hn : convertF64 (Rat.abs value.lead) unit base.2 with
    | none =>
      exfalso
      unfold BestConversions.bestUnit at h
      cases value with
      | number n =>
        simp only [ConvertValue.lead] at hn
        simp only [he, List.head?_cons, rat_abs, rat_abs_eq, hn] at h
        cases h
      | range s e =>
        simp only [ConvertValue.lead] at hn
        simp only [he, List.head?_cons, rat_abs, rat_abs_eq, hn] at h
        cases h
    | some norm =>
      rw [bu_bestUnit_of he hn] at h
      simp only [Except.ok.injEq, Option.some.injEq] at h
      exact ⟨base, rest, norm, rfl, hn, by rw [← h, he]⟩

/-! ### the pick: last passing entry, else the first entry -/

theorem bu_reverse_find {β : Type} (p : β → Bool) (l : List β) (e : β) :
    l.reverse.find? p = some e ↔ p e = true ∧ ∃ pre post, l = pre ++ e :: post ∧ ∀ x ∈ post, p x = false := by
  rw [List.find?_eq_some_iff_append]
  constructor
  · rintro ⟨hp, as, bs, hl, has⟩
    refine ⟨hp, bs.reverse, as.reverse, ?_, ?_⟩
    · have := congrArg List.reverse hl
      simpa using this
    · intro x hx
      have := has x (List.mem_reverse.mp hx)
      simpa using this
  · rintro ⟨hp, pre, post, hl, hpost⟩
    refine ⟨hp, post.reverse, pre.reverse, ?_, ?_⟩
    · rw [hl]; simp
    · intro x hx
      have := hpost x (List.mem_reverse.mp hx)
      simp [this]

/-- The exact rule of the choice: either `b` is the unit of the LAST entry of the list that passes the test
    `th - 0.001 ≤ norm` (every later entry fails it), or no entry passes and `b` is the unit of the first entry. -/
theorem bu_pick_rule (entries : List (Rat × Unit Rat)) (base : Rat × Unit Rat) (norm : Rat) :
    (∃ pre e post, entries = pre ++ e :: post ∧ buPick entries base norm = e.2 ∧ e.1 - buEps ≤ norm ∧
        ∀ x ∈ post, norm < x.1 - buEps) ∨
    ((∀ x ∈ entries, norm < x.1 - buEps) ∧ buPick entries base norm = base.2) := by
  unfold buPick
  cases hf : entries.reverse.find? (buTest norm) with
  | some e =>
    left
    obtain ⟨hp, pre, post, hl, hpost⟩ := (bu_reverse_find _ _ _).mp hf
    refine ⟨pre, e, post, hl, rfl, by simpa [buTest] using hp, ?_⟩
    intro x hx
    have := hpost x hx
    simp only [buTest, decide_eq_false_iff_not] at this
    exact Rat.not_le.mp this
  | none =>
    right
    refine ⟨?_, rfl⟩
    intro x hx
    have := List.find?_eq_none.mp hf x (List.mem_reverse.mpr hx)
    simp only [buTest, decide_eq_true_eq] at this
    exact Rat.not_le.mp this

/-! ### the invariant of a best list (`BestConversions::new`), decidable -/

/-- what `BestConversions::new` establishes for a list: sorted by ratio (non-decreasing), the first entry carries the
    literal threshold `1.0`, every other entry the threshold `convert_f64(1.0, unit, base)` (the free function) -/
structure BestListOK (bc : BestConversions Rat) : Prop where
  sorted : bc.entries.Pairwise (fun a b => a.2.ratio ≤ b.2.ratio)
  thresholds : ∀ base rest, bc.entries = base :: rest →
    base.1 = 1 ∧ ∀ e ∈ rest, e.1 = convertF64Raw 1 e.2 base.2

def bestListOKB (bc : BestConversions Rat) : Bool :=
  decide (bc.entries.Pairwise (fun a b => a.2.ratio ≤ b.2.ratio)) &&
  match bc.entries with
  | [] => true
  | base :: rest => decide (base.1 = 1) && rest.all (fun e => decide (e.1 = convertF64Raw 1 e.2 base.2))

theorem bu_bestListOKB {bc : BestConversions Rat} (h : bestListOKB bc = true) : BestListOK bc := by
  simp only [bestListOKB, Bool.and_eq_true, decide_eq_true_eq] at h
  refine ⟨h.1, ?_⟩
  intro base rest he
  have h2 := h.2
  rw [he] at h2
  simp only [Bool.and_eq_true, decide_eq_true_eq, List.all_eq_true] at h2
  exact h2

/-- every best list of the converter (five quantities × two systems) satisfies the invariant -/
def Converter.BestOK (c : Converter Rat) : Prop := ∀ q s, BestListOK ((c.best q).conversions s)

def bestOKB (c : Converter Rat) : Bool :=
  PhysQ.all.all (fun q => [System.metric, System.imperial].all (fun s => bestListOKB ((c.best q).conversions s)))

theorem bu_bestOKB {c : Converter Rat} (h : bestOKB c = true) : c.BestOK := by
  intro q s
  simp only [bestOKB, List.all_eq_true, PhysQ.all] at h
  have hq : q ∈ [PhysQ.volume, .mass, .length, .temperature, .time] := by cases q <;> simp
  have hs : s ∈ [System.metric, System.imperial] := by cases s <;> simp
  exact bu_bestListOKB (h q hq s hs)

/-- every ratio is positive (true of every real units file; the builder only rejects nothing here, so it is a premise) -/
def Converter.PosRatios (c : Converter Rat) : Prop := ∀ u ∈ c.allUnits, 0 < u.ratio

def posRatiosB (c : Converter Rat) : Bool := c.allUnits.all (fun u => decide (0 < u.ratio))

theorem bu_posRatiosB {c : Converter Rat} (h : posRatiosB c = true) : c.PosRatios := by
  intro u hu
  simpa using (List.all_eq_true.mp h) u hu

/-! ### the test in terms of physical amounts -/

theorem bu_mul_le_mul_right {a b r : Rat} (hr : 0 < r) : a * r ≤ b * r ↔ a ≤ b := by
  rw [← Rat.not_lt, ← Rat.not_lt (a := b), Rat.mul_lt_mul_right hr]

/-- the value a conversion produces, from the amount -/
theorem bu_convert_value {x w : Rat} {a b : Unit Rat} (h : convertF64 x a b = some w) (hb : b.ratio ≠ 0)
    (hid : a.id = b.id → a = b) : w = amount x a / b.ratio - b.difference := by
  have := convertF64_some_amount h hb hid
  rw [← this, amount_rat]
  have : (w + b.difference) * b.ratio / b.ratio = w + b.difference := by
    rw [Rat.div_def, Rat.mul_assoc, Rat.mul_inv_cancel _ hb, Rat.mul_one]
  rw [this]; grind

theorem bu_raw_value (x : Rat) (a b : Unit Rat) :
    convertF64Raw x a b = amount x a / b.ratio - b.difference := by
  rw [convertF64Raw_rat, amount_rat]

/-- `th - 0.001 ≤ norm` between two values normalised to the base, in terms of amounts -/
theorem bu_test_amount (A1 A r d : Rat) (hr : 0 < r) :
    (A1 / r - d) - buEps ≤ A / r - d ↔ A1 - buEps * r ≤ A := by
  have hne : r ≠ 0 := by intro h; rw [h] at hr; exact absurd hr (by decide)
  have e1 : A1 = A1 / r * r := (Rat.div_mul_cancel hne).symm
  have e2 : A = A / r * r := (Rat.div_mul_cancel hne).symm
  constructor
  · intro h
    have h' : A1 / r - buEps ≤ A / r := by grind
    have := (bu_mul_le_mul_right hr).mpr h'
    rw [e1, e2]; grind
  · intro h
    have h' : (A1 / r - buEps) * r ≤ A / r * r := by rw [← e2]; grind
    have := (bu_mul_le_mul_right hr).mp h'
    grind

/-! ### the rule for a sound converter, in physical amounts -/

/-- `x` passes the test of `best_unit` for the amount `A` (in base units of the quantity): `A` is at least one `x`,
    less the slack of 0.001 of the list's FIRST unit -/
def buPasses (base x : Unit Rat) (A : Rat) : Prop := amount 1 x - buEps * base.ratio ≤ A

instance (base x : Unit Rat) (A : Rat) : Decidable (buPasses base x A) := by unfold buPasses; infer_instance

/-- what `best_unit` returned, for a list satisfying the invariant, in terms of amounts -/
structure BestChoice (bc : BestConversions Rat) (A : Rat) (b : Unit Rat) : Prop where
  mem : b ∈ bc.unitsOf
  rule : (buPasses (bc.unitsOf.headD b) b A ∧ ∀ x ∈ bc.unitsOf, b.ratio < x.ratio → ¬ buPasses (bc.unitsOf.headD b) x A)
       ∨ (bc.unitsOf.head? = some b ∧ ∀ x ∈ bc.unitsOf, ¬ buPasses b x A)
  base_least : ∀ x ∈ bc.unitsOf, (bc.unitsOf.headD b).ratio ≤ x.ratio

theorem bu_lt_le_absurd {a b : Rat} (h1 : a < b) (h2 : b ≤ a) : False := by grind

theorem bu_entry_threshold {bc : BestConversions Rat} (hok : BestListOK bc) {base : Rat × Unit Rat}
    {rest : List (Rat × Unit Rat)} (he : bc.entries = base :: rest) (hr : base.2.ratio ≠ 0) :
    ∀ e ∈ bc.entries, e.1 = amount 1 e.2 / base.2.ratio - base.2.difference := by
  obtain ⟨h1, hrest⟩ := hok.thresholds base rest he
  intro e hmem
  rw [he] at hmem
  rcases List.mem_cons.mp hmem with rfl | hmem
  · rw [h1, amount_rat]
    have : (1 + e.2.difference) * e.2.ratio / e.2.ratio = 1 + e.2.difference := by
      rw [Rat.div_def, Rat.mul_assoc, Rat.mul_inv_cancel _ hr, Rat.mul_one]
    rw [this]; grind
  · rw [hrest e hmem, bu_raw_value]

theorem bu_choice {c : Converter Rat} (hc : c.Sound) (hok : c.BestOK) (hpos : c.PosRatios)
    {u : Unit Rat} (hu : u ∈ c.allUnits) (s : System) {value : ConvertValue Rat} {b : Unit Rat}
    (h : ((c.best u.pq).conversions s).bestUnit value u = .ok (some b)) :
    BestChoice ((c.best u.pq).conversions s) (amount (Rat.abs value.lead) u) b := by
  obtain ⟨base, rest, norm, he, hn, hb⟩ := bu_bestUnit_some h
  have hmemL : ∀ e ∈ ((c.best u.pq).conversions s).entries, e.2 ∈ c.allUnits ∧ e.2.pq = u.pq :=
    fun e hm => hc.best_mem _ _ _ (List.mem_map.mpr ⟨e, hm, rfl⟩)
  have hbase := hmemL base (by rw [he]; simp)
  have hrpos : 0 < base.2.ratio := hpos _ hbase.1
  have hrne : base.2.ratio ≠ 0 := hc.ratio_ne _ hbase.1
  have hnorm : norm = amount (Rat.abs value.lead) u / base.2.ratio - base.2.difference :=
    bu_convert_value hn hrne (hc.id_inj _ _ hu hbase.1)
  have hth := bu_entry_threshold (hok u.pq s) he hrne
  have hhead : ((c.best u.pq).conversions s).unitsOf.headD b = base.2 := by
    simp [BestConversions.unitsOf, he]
  have hhead? : ((c.best u.pq).conversions s).unitsOf.head? = some base.2 := by
    simp [BestConversions.unitsOf, he]
  have htest : ∀ e ∈ ((c.best u.pq).conversions s).entries,
      (e.1 - buEps ≤ norm ↔ buPasses base.2 e.2 (amount (Rat.abs value.lead) u)) := by
    intro e hm
    rw [hth e hm, hnorm]
    exact bu_test_amount _ _ _ _ hrpos
  have hsorted := (hok u.pq s).sorted
  refine ⟨bestUnit_mem h, ?_, ?_⟩
  · rw [hhead]
    rcases bu_pick_rule ((c.best u.pq).conversions s).entries base norm with
      ⟨pre, e, post, hl, hpick, hpass, hpost⟩ | ⟨hall, hpick⟩
    · left
      rw [← hb] at hpick
      have hem : e ∈ ((c.best u.pq).conversions s).entries := by rw [hl]; simp
      refine ⟨by rw [hpick]; exact (htest e hem).mp hpass, ?_⟩
      intro x hx hlt
      obtain ⟨e', he', rfl⟩ := List.mem_map.mp hx
      have he'' := he'
      rw [hl] at he'
      rw [hl, List.pairwise_append] at hsorted
      rcases List.mem_append.mp he' with hp | hp
      · have := hsorted.2.2 e' hp e (by simp)
        rw [hpick] at hlt
        exact (bu_lt_le_absurd hlt this).elim
      · rcases List.mem_cons.mp hp with rfl | hp
        · rw [hpick] at hlt; exact (bu_lt_le_absurd hlt Rat.le_refl).elim
        · intro hpass'
          have := (htest e' he'').mpr hpass'
          exact bu_lt_le_absurd (hpost e' hp) this
    · right
      rw [← hb] at hpick
      rw [hpick]
      refine ⟨hhead?, ?_⟩
      intro x hx hpass'
      obtain ⟨e', he', rfl⟩ := List.mem_map.mp hx
      have := (htest e' he').mpr hpass'
      exact bu_lt_le_absurd (hall e' he') this
  · rw [hhead]
    intro x hx
    obtain ⟨e', he', rfl⟩ := List.mem_map.mp hx
    rw [he] at he' hsorted
    rcases List.mem_cons.mp he' with rfl | hp
    · exact Rat.le_refl
    · exact (List.pairwise_cons.mp hsorted).1 e' hp

/-! ### consequences: the value in the chosen unit, idempotence -/

theorem bu_mul_lt_mul_right' {a b r : Rat} (hr : 0 < r) (h : a * r < b * r) : a < b :=
  (Rat.mul_lt_mul_right hr).mp h

/-- a value whose amount passes the test of `b` reads at least `1 - 0.001` in `b` (the slack is 0.001 of the FIRST
    unit, which is not larger than `b`) -/
theorem bu_passes_value {base b a : Unit Rat} {x w : Rat} (hbase : 0 < base.ratio) (hle : base.ratio ≤ b.ratio)
    (hp : buPasses base b (amount x a)) (hw : amount w b = amount x a) : 1 - buEps ≤ w := by
  have hb : 0 < b.ratio := by grind
  unfold buPasses at hp
  rw [← hw, amount_rat, amount_rat] at hp
  have heps : 0 ≤ buEps := bu_eps_nonneg
  have h1 : buEps * base.ratio ≤ buEps * b.ratio := Rat.mul_le_mul_of_nonneg_left hle heps
  have h2 : (1 + b.difference - buEps) * b.ratio ≤ (w + b.difference) * b.ratio := by grind
  have := (bu_mul_le_mul_right hb).mp h2
  grind

/-- a value whose amount fails the test of `x` reads less than `1` in `x` -/
theorem bu_fails_value {base x a : Unit Rat} {v w : Rat} (hbase : 0 < base.ratio) (hx : 0 < x.ratio)
    (hp : ¬ buPasses base x (amount v a)) (hw : amount w x = amount v a) : w < 1 := by
  unfold buPasses at hp
  rw [← hw, amount_rat, amount_rat] at hp
  have hp' := Rat.not_le.mp hp
  have heps : 0 ≤ buEps := bu_eps_nonneg
  have h1 : 0 ≤ buEps * base.ratio := Rat.mul_nonneg heps (Rat.le_of_lt hbase)
  have h2 : (w + x.difference) * x.ratio < (1 + x.difference) * x.ratio := by grind
  have := bu_mul_lt_mul_right' hx h2
  grind

/-- the normalised value depends on the amount only -/
theorem bu_norm_of_amount {c : Converter Rat} (hc : c.Sound) {a b base : Unit Rat} (ha : a ∈ c.allUnits)
    (hb : b ∈ c.allUnits) (hbase : base ∈ c.allUnits) (hab : b.pq = a.pq) {x y norm : Rat}
    (hn : convertF64 x a base = some norm) (hamt : amount y b = amount x a) :
    convertF64 y b base = some norm := by
  have hpq : a.pq = base.pq := convertF64_some_pq hn (hc.id_inj _ _ ha hbase)
  obtain ⟨n', hn', ha'⟩ := convertF64_amount y b base (hab.trans hpq) (hc.ratio_ne _ hbase) (hc.id_inj _ _ hb hbase)
  have h1 := convertF64_some_amount hn (hc.ratio_ne _ hbase) (hc.id_inj _ _ ha hbase)
  have : n' = norm := amount_inj (hc.ratio_ne _ hbase) (by rw [ha', hamt, h1])
  rw [hn', this]

/-- **Idempotence of the choice.**  If `best_unit` picks `b` for a value in `u`, it picks `b` again for every value in
    `b` whose leading number has the same physical amount (same list: `b` is of `u`'s quantity). -/
theorem bu_idempotent {c : Converter Rat} (hc : c.Sound) {u : Unit Rat} (hu : u ∈ c.allUnits) (s : System)
    {value value' : ConvertValue Rat} {b : Unit Rat}
    (h : ((c.best u.pq).conversions s).bestUnit value u = .ok (some b))
    (hamt : amount (Rat.abs value'.lead) b = amount (Rat.abs value.lead) u) :
    ((c.best b.pq).conversions s).bestUnit value' b = .ok (some b) := by
  have hbm := hc.best_mem _ _ _ (bestUnit_mem h)
  rw [hbm.2]
  obtain ⟨base, rest, norm, he, hn, hb⟩ := bu_bestUnit_some h
  have hbase := hc.best_mem _ _ _ (List.mem_map.mpr ⟨base, (by rw [he]; simp), rfl⟩)
  have hn' := bu_norm_of_amount hc hu hbm.1 hbase.1 hbm.2 hn hamt
  rw [bu_bestUnit_of he hn', ← hb]

theorem bu_convertValue_lead {value value' : ConvertValue Rat} {a b : Unit Rat}
    (h : convertValue value a b = .ok value') : convertF64 value.lead a b = some value'.lead := by
  unfold convertValue at h
  cases value with
  | number n =>
    simp only at h
    split at h
    · cases h
    · rename_i r hr
      simp only [Except.ok.injEq] at h; subst h
      exact hr
  | range s e =>
    simp only at h
    split at h
    · cases h
    · rename_i s' hs
      split at h
      · cases h
      · simp only [Except.ok.injEq] at h; subst h
        exact hs

theorem bu_convertValue_self (value : ConvertValue Rat) (b : Unit Rat) : convertValue value b b = .ok value := by
  cases value <;> simp [convertValue, convertF64]

/-- `convert_to_best` applied to its own result is the identity, for non-negative leading numbers (the case of every
    quantity of a recipe; with offsets — temperatures — a negative value does not have the amount of its absolute
    value, and the choice is made on the absolute value) -/
theorem bu_convertToBest_idempotent {c : Converter Rat} (hc : c.Sound) {u : Unit Rat} (hu : u ∈ c.allUnits)
    (s : System) {value value' : ConvertValue Rat} {b : Unit Rat}
    (h : c.convertToBest value u s = .ok (value', b)) (h0 : 0 ≤ value.lead) (h0' : 0 ≤ value'.lead) :
    c.convertToBest value' b s = .ok (value', b) := by
  unfold Converter.convertToBest at h
  split at h
  · cases h
  · cases h
  · rename_i best hbest
    split at h
    · cases h
    · rename_i v hv
      simp only [Except.ok.injEq, Prod.mk.injEq] at h
      obtain ⟨rfl, rfl⟩ := h
      have hbm := hc.best_mem _ _ _ (bestUnit_mem hbest)
      have hlead := bu_convertValue_lead hv
      have hamt := convertF64_some_amount hlead (hc.ratio_ne _ hbm.1) (hc.id_inj _ _ hu hbm.1)
      have := bu_idempotent hc hu s (value' := v) hbest
        (by rw [Rat.abs_of_nonneg h0, Rat.abs_of_nonneg h0']; exact hamt)
      unfold Converter.convertToBest
      rw [this]
      simp only [bu_convertValue_self]

/-! ### `Converter::convert` to a system -/

theorem bu_convertToBest_inv {c : Converter Rat} {value v' : ConvertValue Rat} {u b : Unit Rat} {s : System}
    (h : c.convertToBest value u s = .ok (v', b)) :
    ((c.best u.pq).conversions s).bestUnit value u = .ok (some b) ∧ convertValue value u b = .ok v' := by
  unfold Converter.convertToBest at h
  split at h
  · cases h
  · cases h
  · rename_i best hbest
    split at h
    · cases h
    · rename_i v hv
      simp only [Except.ok.injEq, Prod.mk.injEq] at h
      obtain ⟨rfl, rfl⟩ := h
      exact ⟨hbest, hv⟩

/-- the system `Converter::convert` converts to: the given one, or the unit's own (the default one for a unit of none) -/
def ConvertTo.systemFor (c : Converter Rat) (u : Unit Rat) : ConvertTo Rat → Option System
  | .best s => some s
  | .sameSystem => some (u.system.getD c.defaultSystem)
  | .unit _ => none

theorem bu_convert_inv {c : Converter Rat} {value v' : ConvertValue Rat} {u b : Unit Rat} {to : ConvertTo Rat}
    {s : System} (hs : to.systemFor c u = some s) (h : c.convert value (.unit u) to = .ok (v', b)) :
    c.convertToBest value u s = .ok (v', b) := by
  unfold Converter.convert at h
  simp only [getUnit_unit] at h
  cases to with
  | unit t => cases hs
  | best s' => simp only [ConvertTo.systemFor, Option.some.injEq] at hs; subst hs; exact h
  | sameSystem => simp only [ConvertTo.systemFor, Option.some.injEq] at hs; subst hs; exact h

theorem bu_convert_of {c : Converter Rat} {value v' : ConvertValue Rat} {u b : Unit Rat} {to : ConvertTo Rat}
    {s : System} (hs : to.systemFor c u = some s) (h : c.convertToBest value u s = .ok (v', b)) :
    c.convert value (.unit u) to = .ok (v', b) := by
  unfold Converter.convert
  simp only [getUnit_unit]
  cases to with
  | unit t => cases hs
  | best s' => simp only [ConvertTo.systemFor, Option.some.injEq] at hs; subst hs; exact h
  | sameSystem => simp only [ConvertTo.systemFor, Option.some.injEq] at hs; subst hs; exact h

end Cook
