import CookModel.Lemmas.Diag
/-
  Diagnostics of the component parsers (C07, completeness in isolation).

  Each of `ingredient`, `cookware`, `timer` first CUTS the component into pieces (marker, modifier
  tokens, body = name tokens + braces, note) without pushing anything, and then runs a TAIL that
  interprets the pieces and pushes the diagnostics.  `…P_cut` is that decomposition; the lemmas
  after it say which diagnostic the tail pushes for which shape of the pieces.
-/
set_option linter.unusedSectionVars false
set_option linter.unusedSimpArgs false
set_option linter.unusedVariables false
namespace Cook

variable {α : Type} [Arith α]

/-- `current_offset` of a state -/
def curOff (s : BP α) : Nat := offAt s.toks s.cur

/-- the part of `ingredient` after the pieces are cut -/
def ingredientTail (start stop modPos nameOffset : Nat) (mtoks : List Tok) (body : Body) (note : Option Text) :
    P α (Option (Ev α)) := do
  let (name, alias) ← parseAlias "ingredient" body.name nameOffset
  checkEmptyName "ingredient" name
  let pm ← parseModifiers mtoks modPos
  let quantity ← (match body.quantity with
    | some qt => do let q ← parseQuantity qt; pure (some q.quantity)
    | none => pure none)
  return some (.ingredient ⟨⟨pm.flags, pm.inter, name, alias, quantity, note⟩, ⟨start, stop⟩⟩)

/-- the quantity of a cookware item: `parse_quantity` and the unit check -/
def cookwareQty (body : Body) : P α (Option (Loc (PQValue α))) :=
  match body.quantity with
  | some qt => do
    let q ← parseQuantity qt
    match q.quantity.val.unit with
    | some unit =>
      let span : Span := match q.unitSep with
        | some sep => ⟨sep.start, unit.span.stop⟩
        | none => unit.span
      perr "cookware-unit" [span]
    | none => pure ()
    pure (some ⟨q.quantity.val.value, q.quantity.span⟩)
  | none => pure none

def cookwareTail (start stop modPos nameOffset : Nat) (mtoks : List Tok) (body : Body) (note : Option Text) :
    P α (Option (Ev α)) := do
  let (name, alias) ← parseAlias "cookware" body.name nameOffset
  checkEmptyName "cookware" name
  let quantity : Option (Loc (PQValue α)) ← cookwareQty body
  let pm ← parseModifiers mtoks modPos
  match pm.inter with
  | some d => perr "inter-ref-not-allowed:cookware" [d.span]
  | none => pure ()
  if pm.flags.val.contains Modifiers.RECIPE then
    match mtoks.find? (fun t => t.kind == .at) with
    | some t => perr "cookware-recipe-modifier" [⟨t.start, t.stop⟩]
    | none => panicWith "no recipe token in modifiers with recipe"
  return some (.cookware ⟨⟨pm.flags, name, alias, quantity, note⟩, ⟨start, stop⟩⟩)

def timerQty (body : Body) : P α (Option (Loc (PQuantity α))) :=
  match body.quantity with
  | some qt => do
    let q ← parseQuantity qt
    if q.quantity.val.unit.isNone then
      perr "timer-missing-unit" [Span.pos q.quantity.val.value.value.span.stop]
    pure (some q.quantity)
  | none => pure none

def timerFinish (start stop nameOffset : Nat) (body : Body) (name : Text) (cs : CharSpec)
    (quantity0 : Option (Loc (PQuantity α))) : P α (Option (Ev α)) := do
  let mut quantity := quantity0
  if quantity.isNone && (← hasExt Gen.EXT_TIMER_REQUIRES_TIME) then
    let span := body.close.getD (Span.pos name.span.stop)
    perr "timer-missing-quantity" [span]
    quantity := some recoverPQuantity
  let nameO := if name.isTextEmpty cs then none else some name
  if nameO.isNone && quantity.isNone then
    let span : Span := match body.close with
      | some s => ⟨nameOffset, s.stop⟩
      | none => Span.pos nameOffset
    perr "timer-neither-name-nor-quantity" [span]
    quantity := some recoverPQuantity
  return some (.timer ⟨⟨nameO, quantity⟩, ⟨start, stop⟩⟩)

def timerTail (start stop nameOffset : Nat) (mtoks : List Tok) (body : Body) : P α (Option (Ev α)) := do
  if !mtoks.isEmpty then perr "modifiers-not-allowed:timer" [tokensSpan mtoks]
  if ← hasExt Gen.EXT_COMPONENT_ALIAS then
    match body.name.findIdx? (fun t => t.kind == .or) with
    | some i =>
      let sep := (body.name[i]?).getD dummyTok
      perr "alias-not-allowed:timer" [⟨sep.start, ((body.name.getLast?).getD sep).stop⟩]
    | none => pure ()
  checkNoteTimer
  let name ← bpText nameOffset body.name
  let cs := (← get).cs
  let quantity ← timerQty body
  timerFinish start stop nameOffset body name cs quantity

/-- how a component was cut: the marker `k` was there, `modifiers()` returned `mtoks` and
    `comp_body()` returned `body`, leaving the parser in state `s3` -/
def Cut (k : TK) (s : BP α) (mtoks : List Tok) (body : Body) (s1 s2 s3 : BP α) : Prop :=
  (∃ t, consumeK k s = (some t, s1)) ∧ modifiersP s1 = (mtoks, s2) ∧ compBody s2 = (some body, s3)

theorem ingredientP_cut {s s1 s2 s3 s4 : BP α} {mtoks : List Tok} {body : Body} {note : Option Text}
    (hc : Cut .at s mtoks body s1 s2 s3) (hn : noteP s3 = (note, s4)) :
    ingredientP s = ingredientTail (curOff s) (curOff s4) (curOff s1) (curOff s2) mtoks body note s4 := by
  obtain ⟨⟨t, h1⟩, h2, h3⟩ := hc
  unfold ingredientP ingredientTail curOff
  simp only [bind, StateT.bind, currentOffset_run, h1, h2, h3, hn]
  rfl

theorem cookwareP_cut {s s1 s2 s3 s4 : BP α} {mtoks : List Tok} {body : Body} {note : Option Text}
    (hc : Cut .hash s mtoks body s1 s2 s3) (hn : noteP s3 = (note, s4)) :
    cookwareP s = cookwareTail (curOff s) (curOff s4) (curOff s1) (curOff s2) mtoks body note s4 := by
  obtain ⟨⟨t, h1⟩, h2, h3⟩ := hc
  unfold cookwareP cookwareTail cookwareQty curOff
  simp only [bind, StateT.bind, currentOffset_run, h1, h2, h3, hn]
  rfl

theorem timerP_cut {s s1 s2 s3 : BP α} {mtoks : List Tok} {body : Body}
    (hc : Cut .tilde s mtoks body s1 s2 s3) :
    timerP s = timerTail (curOff s) (curOff s3) (curOff s2) mtoks body s3 := by
  obtain ⟨⟨t, h1⟩, h2, h3⟩ := hc
  unfold timerP timerTail timerQty timerFinish curOff
  simp only [bind, StateT.bind, currentOffset_run, h1, h2, h3]
  rfl

/-! ### every successful run has a cut, and cutting pushes nothing -/

theorem ingredientP_some_cut {s s' : BP α} {ev : Ev α} (h : ingredientP s = (some ev, s')) :
    ∃ mtoks body note s1 s2 s3 s4, Cut .at s mtoks body s1 s2 s3 ∧ noteP s3 = (note, s4) := by
  rcases h1 : consumeK (α := α) .at s with ⟨r1, s1⟩
  rcases h2 : modifiersP s1 with ⟨mtoks, s2⟩
  rcases h3 : compBody s2 with ⟨r3, s3⟩
  rcases h4 : noteP s3 with ⟨note, s4⟩
  unfold ingredientP at h
  simp only [bind, StateT.bind, currentOffset_run, h1] at h
  cases r1 with
  | none => simp only [pure, StateT.pure] at h; cases h
  | some t =>
    simp only [bind, StateT.bind, currentOffset_run, h2, h3] at h
    cases r3 with
    | none => simp only [pure, StateT.pure] at h; cases h
    | some body => exact ⟨mtoks, body, note, s1, s2, s3, s4, ⟨⟨t, h1⟩, h2, h3⟩, h4⟩

theorem cookwareP_some_cut {s s' : BP α} {ev : Ev α} (h : cookwareP s = (some ev, s')) :
    ∃ mtoks body note s1 s2 s3 s4, Cut .hash s mtoks body s1 s2 s3 ∧ noteP s3 = (note, s4) := by
  rcases h1 : consumeK (α := α) .hash s with ⟨r1, s1⟩
  rcases h2 : modifiersP s1 with ⟨mtoks, s2⟩
  rcases h3 : compBody s2 with ⟨r3, s3⟩
  rcases h4 : noteP s3 with ⟨note, s4⟩
  unfold cookwareP at h
  simp only [bind, StateT.bind, currentOffset_run, h1] at h
  cases r1 with
  | none => simp only [pure, StateT.pure] at h; cases h
  | some t =>
    simp only [bind, StateT.bind, currentOffset_run, h2, h3] at h
    cases r3 with
    | none => simp only [pure, StateT.pure] at h; cases h
    | some body => exact ⟨mtoks, body, note, s1, s2, s3, s4, ⟨⟨t, h1⟩, h2, h3⟩, h4⟩

theorem timerP_some_cut {s s' : BP α} {ev : Ev α} (h : timerP s = (some ev, s')) :
    ∃ mtoks body s1 s2 s3, Cut .tilde s mtoks body s1 s2 s3 := by
  rcases h1 : consumeK (α := α) .tilde s with ⟨r1, s1⟩
  rcases h2 : modifiersP s1 with ⟨mtoks, s2⟩
  rcases h3 : compBody s2 with ⟨r3, s3⟩
  unfold timerP at h
  simp only [bind, StateT.bind, currentOffset_run, h1] at h
  cases r1 with
  | none => simp only [pure, StateT.pure] at h; cases h
  | some t =>
    simp only [bind, StateT.bind, currentOffset_run, h2, h3] at h
    cases r3 with
    | none => simp only [pure, StateT.pure] at h; cases h
    | some body => exact ⟨mtoks, body, s1, s2, s3, ⟨⟨t, h1⟩, h2, h3⟩⟩

theorem FQ.same_of_run {β : Type} {m : P α β} (h : FQ m) {s s' : BP α} {a : β} (hr : m s = (a, s')) :
    Same s s' := by
  have := h.out s; rw [hr] at this; exact this

theorem FG.grow_of_run {β : Type} {m : P α β} (h : FG m) {s s' : BP α} {a : β} (hr : m s = (a, s')) :
    Grow s s' := by
  have := h.out s; rw [hr] at this; exact this

theorem compBodyShort_some_same (s : BP α) :
    Sat (compBodyShort (α := α)) s (fun r s' => r.isSome = true → Same s s') := by
  unfold compBodyShort
  apply withRecover_sat
  refine Sat.bind (Sat.mono ((FQ.consumeWhile _).sat s) ?_)
  intro toks s1 q1
  split
  · refine Sat.bind (Sat.restToks ?_)
    refine Sat.bind (Sat.atK ?_)
    split
    · refine Sat.bind (Sat.currentOffset ?_)
      refine Sat.bind (Sat.pwarn ?_)
      intro evs
      exact Sat.pure (by intro h; cases h)
    · exact Sat.pure (by intro h; cases h)
  · exact Sat.pure (fun _ => q1)

theorem compBody_some_same {s s' : BP α} {b : Body} (h : compBody s = (some b, s')) : Same s s' := by
  have h0 : Sat (compBody (α := α)) s (fun r s' => r.isSome = true → Same s s') := by
    unfold compBody
    refine Sat.bind (Sat.mono (FQ.compBodyLong.sat s) ?_)
    intro r s1 q1
    cases r with
    | some b => exact Sat.pure (fun _ => q1)
    | none =>
      refine Sat.mono (compBodyShort_some_same s1) ?_
      intro r s2 h2 hr
      exact q1.trans (h2 hr)
  have := h0
  unfold Sat at this
  rw [h] at this
  exact this rfl

theorem Cut.same {k : TK} {s s1 s2 s3 : BP α} {mtoks : List Tok} {body : Body} (hc : Cut k s mtoks body s1 s2 s3) :
    Same s s3 := by
  obtain ⟨⟨t, h1⟩, h2, h3⟩ := hc
  have a1 : Same s s1 := (FQ.consumeK k).same_of_run h1
  have a2 : Same s1 s2 := FQ.modifiersP.same_of_run h2
  exact (a1.trans a2).trans (compBody_some_same h3)

theorem noteP_same {s3 s4 : BP α} {note : Option Text} (h : noteP s3 = (note, s4)) : Same s3 s4 :=
  FQ.noteP.same_of_run h

/-! ### the pieces of the tails -/

def emptyNameEv (container : String) (name : Text) : Ev α :=
  .error ⟨.error, .parse, s!"empty-name:{container}", [name.span]⟩

theorem checkEmptyName_spec (c : String) (name : Text) (s : BP α) :
    Sat (checkEmptyName (α := α) c name) s (fun _ s' => Grow s s' ∧
      (name.isTextEmpty s.cs = true → Has (emptyNameEv c name) s s')) := by
  unfold checkEmptyName
  refine Sat.bind (Sat.get ?_)
  split
  · refine Sat.perrE ?_
    exact ⟨Grow.push _ _, fun _ => Has.push _ _⟩
  · rename_i hne
    exact Sat.pure ⟨Grow.refl _, fun h => absurd h hne⟩

theorem optQty_FG (body : Body) : FG (α := α) (match body.quantity with
    | some qt => do let q ← parseQuantity qt; pure (some q.quantity)
    | none => pure none) := by
  split <;> fg_auto

/-- **empty ingredient name**: the tail pushes `empty-name:ingredient` on the name's span -/
theorem ingredientTail_empty_name (start stop modPos nameOffset : Nat) (mtoks : List Tok) (body : Body)
    (note : Option Text) (s : BP α) :
    Sat (ingredientTail (α := α) start stop modPos nameOffset mtoks body note) s (fun r s' =>
      ∀ i, r = some (.ingredient i) → i.span = ⟨start, stop⟩ ∧
        (i.val.name.isTextEmpty s.cs = true → Has (emptyNameEv "ingredient" i.val.name) s s')) := by
  unfold ingredientTail
  refine Sat.bind (Sat.mono ((FG.parseAlias _ _ _).sat s) ?_)
  rintro ⟨name, alias⟩ s5 g5
  dsimp only
  refine Sat.bind (Sat.mono (checkEmptyName_spec "ingredient" name s5) ?_)
  rintro _ s6 ⟨g6, h6⟩
  refine Sat.bind (Sat.mono ((FG.parseModifiers _ _).sat s6) ?_)
  intro pm s7 g7
  refine Sat.bind (Sat.mono ((optQty_FG body).sat s7) ?_)
  intro q s8 g8
  refine Sat.pure ?_
  intro i hi
  simp only [Option.some.injEq, Ev.ingredient.injEq] at hi
  subst hi
  refine ⟨rfl, fun hb => ?_⟩
  rw [← g5.1] at hb
  exact ((h6 hb).left (g7.trans g8)).right g5

theorem Sat.bind_any {β γ : Type} {m : P α β} {k : β → P α γ} {s : BP α} {Q : γ → BP α → Prop}
    (h : ∀ a s1, Sat (k a) s1 Q) : Sat (m >>= k) s Q := h _ _

theorem bpText_spec (o : Nat) (l : List Tok) (s : BP α) :
    Sat (bpText (α := α) o l) s (fun r s' => r = buildText o l ∧ Same s s') := by
  unfold bpText
  dsimp only
  split
  · refine Sat.bind (Sat.mono ((FQ.panicWith _).sat s) ?_)
    intro _ s1 q1
    exact Sat.pure ⟨rfl, q1⟩
  · exact Sat.pure ⟨rfl, Same.refl _⟩

/-- **empty cookware name** -/
theorem cookwareTail_empty_name (start stop modPos nameOffset : Nat) (mtoks : List Tok) (body : Body)
    (note : Option Text) (s : BP α) :
    Sat (cookwareTail (α := α) start stop modPos nameOffset mtoks body note) s (fun r s' =>
      ∀ c, r = some (.cookware c) → c.span = ⟨start, stop⟩ ∧
        (c.val.name.isTextEmpty s.cs = true → Has (emptyNameEv "cookware" c.val.name) s s')) := by
  unfold cookwareTail
  refine Sat.bind (Sat.mono ((FG.parseAlias _ _ _).sat s) ?_)
  rintro ⟨name, alias⟩ s5 g5
  dsimp only
  refine Sat.bind (Sat.mono (checkEmptyName_spec "cookware" name s5) ?_)
  rintro _ s6 ⟨g6, h6⟩
  refine Sat.mono (Sat.and (Q2 := fun r s' => ∀ c, r = some (.cookware c) → c.span = ⟨start, stop⟩ ∧ c.val.name = name)
    (FG.sat ?_ _) ?_) ?_
  · have hq : FG (cookwareQty (α := α) body) := by unfold cookwareQty; fg_auto
    fg_auto
  · refine Sat.bind_any ?_; intro _ _
    refine Sat.bind_any ?_; intro _ _
    repeat (first
      | (refine Sat.bind_any (α := α) ?_; intro _ _)
      | split
      | (refine Sat.pure (α := α) ?_; intro c hc; simp only [Option.some.injEq, Ev.cookware.injEq] at hc
         subst hc; exact ⟨rfl, rfl⟩))
  · rintro r s' ⟨g, hr⟩ c hc
    obtain ⟨h1, h2⟩ := hr c hc
    refine ⟨h1, fun hb => ?_⟩
    rw [h2, ← g5.1] at hb
    rw [h2]
    exact ((h6 hb).left g).right g5

def cookwareUnitSpan (q : ParsedQuantity α) (unit : Text) : Span :=
  match q.unitSep with
  | some sep => ⟨sep.start, unit.span.stop⟩
  | none => unit.span

/-- **unit on cookware**: when `parse_quantity` (run where the tail reaches it: same tables and
    extensions) returns a quantity with a unit, `cookware-unit` is pushed, labelled from the
    separator (or the unit's start) to the unit's end -/
theorem cookwareQty_unit (body : Body) (s : BP α) :
    Sat (cookwareQty (α := α) body) s (fun _ s' => Grow s s' ∧
      ∀ qt unit, body.quantity = some qt → (parseQuantity (α := α) qt s).1.quantity.val.unit = some unit →
        Has (.error ⟨.error, .parse, "cookware-unit", [cookwareUnitSpan (parseQuantity (α := α) qt s).1 unit]⟩) s s') := by
  unfold cookwareQty
  split
  · rename_i qt hqt
    refine Sat.bind (Sat.mono (Sat.and (Sat.run (parseQuantity qt) s) ((FG.parseQuantity qt).sat s)) ?_)
    rintro q s1 ⟨hrun, g1⟩
    have hq : (parseQuantity (α := α) qt s).1 = q := by rw [hrun]
    dsimp only
    split
    · rename_i unit hu
      refine Sat.bind (Sat.perrE ?_)
      refine Sat.pure ⟨g1.trans (Grow.push _ _), ?_⟩
      intro qt' unit' hqt' hu'
      rw [hqt] at hqt'; cases hqt'
      rw [hq] at hu' ⊢; rw [hu] at hu'; cases hu'
      exact (Has.push _ _).right g1
    · rename_i hu
      refine Sat.pure ⟨g1, ?_⟩
      intro qt' unit' hqt' hu'
      rw [hqt] at hqt'; cases hqt'
      rw [hq, hu] at hu'; cases hu'
  · rename_i hq
    exact Sat.pure ⟨Grow.refl _, fun qt unit h => by rw [hq] at h; cases h⟩

theorem cookwareTail_unit (start stop modPos nameOffset : Nat) (mtoks : List Tok) (body : Body)
    (note : Option Text) (s : BP α) :
    Sat (cookwareTail (α := α) start stop modPos nameOffset mtoks body note) s (fun _ s' =>
      ∃ sq, Grow s sq ∧ ∀ qt unit, body.quantity = some qt →
        (parseQuantity (α := α) qt sq).1.quantity.val.unit = some unit →
        Has (.error ⟨.error, .parse, "cookware-unit", [cookwareUnitSpan (parseQuantity (α := α) qt sq).1 unit]⟩) s s') := by
  unfold cookwareTail
  refine Sat.bind (Sat.mono ((FG.parseAlias _ _ _).sat s) ?_)
  rintro ⟨name, alias⟩ s5 g5
  dsimp only
  refine Sat.bind (Sat.mono ((FG.checkEmptyName _ _).sat s5) ?_)
  rintro _ s6 g6
  refine Sat.bind (Sat.mono (cookwareQty_unit body s6) ?_)
  rintro q s7 ⟨g7, h7⟩
  refine Sat.mono (FG.sat ?_ _) ?_
  · fg_auto
  · intro r s' g
    refine ⟨s6, g5.trans g6, ?_⟩
    intro qt unit hqt hu
    exact ((h7 qt unit hqt hu).left g).right (g5.trans g6)

/-! ### timers -/

def timerRest (start stop nameOffset : Nat) (body : Body) : P α (Option (Ev α)) := do
  checkNoteTimer
  let name ← bpText nameOffset body.name
  let cs := (← get).cs
  let quantity ← timerQty body
  timerFinish start stop nameOffset body name cs quantity

def timerAliasEv (body : Body) (i : Nat) : Ev α :=
  .error ⟨.error, .parse, "alias-not-allowed:timer",
    [⟨((body.name[i]?).getD dummyTok).start, ((body.name.getLast?).getD ((body.name[i]?).getD dummyTok)).stop⟩]⟩

/-- the two checks at the head of the timer tail: modifiers and alias are not allowed -/
theorem timerTail_head (start stop nameOffset : Nat) (mtoks : List Tok) (body : Body) (s : BP α) :
    Sat (timerTail (α := α) start stop nameOffset mtoks body) s (fun r s' => ∃ sB, Grow s sB ∧
      (r, s') = timerRest start stop nameOffset body sB ∧
      (mtoks.isEmpty = false →
        Has (.error ⟨.error, .parse, "modifiers-not-allowed:timer", [tokensSpan mtoks]⟩) s sB) ∧
      (∀ i, s.ext.has Gen.EXT_COMPONENT_ALIAS = true →
        body.name.findIdx? (fun t => t.kind == .or) = some i → Has (timerAliasEv body i) s sB)) := by
  unfold timerTail
  dsimp only
  split
  · rename_i hm
    refine Sat.bind (Sat.perrE ?_)
    refine Sat.bind (Sat.hasExt ?_)
    split
    · rename_i he
      split
      · rename_i i hi
        refine Sat.bind (Sat.perrE ?_)
        refine ⟨_, (Grow.push _ _).trans (Grow.push _ _), rfl, fun _ => (Has.push _ _).left (Grow.push _ _), ?_⟩
        intro i' _ hi'
        rw [hi] at hi'; cases hi'
        exact (Has.push _ _).right (Grow.push _ _)
      · rename_i hi
        refine ⟨_, Grow.push _ _, rfl, fun _ => Has.push _ _, ?_⟩
        intro i' _ hi'
        rw [hi] at hi'; cases hi'
    · rename_i he
      refine ⟨_, Grow.push _ _, rfl, fun _ => Has.push _ _, ?_⟩
      intro i' he' _
      exact absurd he' he
  · rename_i hm
    have hm' : ¬ mtoks.isEmpty = false := by
      intro h0; apply hm; rw [h0]; rfl
    refine Sat.bind (Sat.hasExt ?_)
    split
    · rename_i he
      split
      · rename_i i hi
        refine Sat.bind (Sat.perrE ?_)
        refine ⟨_, Grow.push _ _, rfl, fun h0 => absurd h0 hm', ?_⟩
        intro i' _ hi'
        rw [hi] at hi'; cases hi'
        exact Has.push _ _
      · rename_i hi
        refine ⟨_, Grow.refl _, rfl, fun h0 => absurd h0 hm', ?_⟩
        intro i' _ hi'
        rw [hi] at hi'; cases hi'
    · rename_i he
      refine ⟨_, Grow.refl _, rfl, fun h0 => absurd h0 hm', ?_⟩
      intro i' he' _
      exact absurd he' he

theorem timerQty_spec (body : Body) (s : BP α) :
    Sat (timerQty (α := α) body) s (fun r s' => Grow s s' ∧ (body.quantity = none → r = none) ∧
      ∀ qt, body.quantity = some qt → (parseQuantity (α := α) qt s).1.quantity.val.unit = none →
        Has (.error ⟨.error, .parse, "timer-missing-unit",
          [Span.pos (parseQuantity (α := α) qt s).1.quantity.val.value.value.span.stop]⟩) s s') := by
  unfold timerQty
  split
  · rename_i qt hqt
    refine Sat.bind (Sat.mono (Sat.and (Sat.run (parseQuantity qt) s) ((FG.parseQuantity qt).sat s)) ?_)
    rintro q s1 ⟨hrun, g1⟩
    have hq : (parseQuantity (α := α) qt s).1 = q := by rw [hrun]
    dsimp only
    split
    · refine Sat.bind (Sat.perrE ?_)
      refine Sat.pure ⟨g1.trans (Grow.push _ _), ?_, ?_⟩
      · intro h0; rw [hqt] at h0; cases h0
      intro qt' hqt' hu
      rw [hqt] at hqt'; cases hqt'
      rw [hq]
      exact (Has.push _ _).right g1
    · rename_i hu
      refine Sat.pure ⟨g1, ?_, ?_⟩
      · intro h0; rw [hqt] at h0; cases h0
      intro qt' hqt' hu'
      rw [hqt] at hqt'; cases hqt'
      rw [hq] at hu'
      exfalso; apply hu; rw [hu']; rfl
  · rename_i hq
    exact Sat.pure ⟨Grow.refl _, fun _ => rfl, fun qt h => by rw [hq] at h; cases h⟩

def timerNeitherSpan (nameOffset : Nat) (body : Body) : Span :=
  match body.close with
  | some s => ⟨nameOffset, s.stop⟩
  | none => Span.pos nameOffset

theorem timerFinish_spec (start stop nameOffset : Nat) (body : Body) (name : Text) (cs : CharSpec) (s : BP α) :
    Sat (timerFinish (α := α) start stop nameOffset body name cs none) s (fun _ s' => Grow s s' ∧
      (s.ext.has Gen.EXT_TIMER_REQUIRES_TIME = true →
        Has (.error ⟨.error, .parse, "timer-missing-quantity", [body.close.getD (Span.pos name.span.stop)]⟩) s s') ∧
      (s.ext.has Gen.EXT_TIMER_REQUIRES_TIME = false → name.isTextEmpty cs = true →
        Has (.error ⟨.error, .parse, "timer-neither-name-nor-quantity", [timerNeitherSpan nameOffset body]⟩) s s')) := by
  unfold timerFinish
  dsimp only
  refine Sat.bind (Sat.hasExt ?_)
  cases he : s.ext.has Gen.EXT_TIMER_REQUIRES_TIME
  · simp only [Option.isNone_none, Bool.and_false, Bool.false_eq_true, if_false]
    cases hn : name.isTextEmpty cs
    · simp only [Bool.false_eq_true, if_false, Option.isNone_some, Bool.false_and]
      refine Sat.pure ⟨Grow.refl _, ?_, ?_⟩
      · intro h; simp at h
      · intro _ h; simp at h
    · simp only [if_true, Option.isNone_none, Bool.and_self]
      refine Sat.bind (Sat.perrE ?_)
      refine Sat.pure ⟨Grow.push _ _, ?_, ?_⟩
      · intro h; simp at h
      · intro _ _; exact Has.push _ _
  · simp only [Option.isNone_none, Bool.and_self, if_true]
    refine Sat.bind (Sat.perrE ?_)
    refine Sat.mono (FG.sat ?_ _) ?_
    · fg_auto
    · intro _ s' g
      refine ⟨(Grow.push _ _).trans g, fun _ => (Has.push _ _).left g, ?_⟩
      intro h; simp at h

theorem timerFinish_FG (start stop nameOffset : Nat) (body : Body) (name : Text) (cs : CharSpec)
    (q0 : Option (Loc (PQuantity α))) : FG (timerFinish (α := α) start stop nameOffset body name cs q0) := by
  unfold timerFinish; fg_auto

def timerMissingUnitEv (q : ParsedQuantity α) : Ev α :=
  .error ⟨.error, .parse, "timer-missing-unit", [Span.pos q.quantity.val.value.value.span.stop]⟩

theorem timerRest_spec (start stop nameOffset : Nat) (body : Body) (s : BP α) :
    Sat (timerRest (α := α) start stop nameOffset body) s (fun _ s' => Grow s s' ∧ ∃ sq, Grow s sq ∧
      (∀ qt, body.quantity = some qt → (parseQuantity (α := α) qt sq).1.quantity.val.unit = none →
        Has (timerMissingUnitEv (parseQuantity (α := α) qt sq).1) s s') ∧
      (body.quantity = none → s.ext.has Gen.EXT_TIMER_REQUIRES_TIME = true →
        Has (.error ⟨.error, .parse, "timer-missing-quantity",
          [body.close.getD (Span.pos (buildText nameOffset body.name).span.stop)]⟩) s s') ∧
      (body.quantity = none → s.ext.has Gen.EXT_TIMER_REQUIRES_TIME = false →
        (buildText nameOffset body.name).isTextEmpty s.cs = true →
        Has (.error ⟨.error, .parse, "timer-neither-name-nor-quantity", [timerNeitherSpan nameOffset body]⟩) s s')) := by
  unfold timerRest
  refine Sat.bind (Sat.mono (FG.checkNoteTimer.sat s) ?_)
  intro _ s1 g1
  refine Sat.bind (Sat.mono (bpText_spec nameOffset body.name s1) ?_)
  rintro name s2 ⟨rfl, q2⟩
  refine Sat.bind (Sat.get ?_)
  dsimp only
  have g2 : Grow s s2 := g1.trans q2.grow
  refine Sat.bind (Sat.mono (timerQty_spec body s2) ?_)
  rintro r s3 ⟨g3, hnone, hunit⟩
  cases hq : body.quantity with
  | some qt =>
    refine Sat.mono ((timerFinish_FG ..).sat s3) ?_
    intro _ s' g
    refine ⟨(g2.trans g3).trans g, s2, g2, ?_, ?_, ?_⟩
    · intro qt' hqt' hu
      cases hqt'
      exact ((hunit qt hq hu).left g).right g2
    · intro h; cases h
    · intro h; cases h
  | none =>
    rw [hnone hq]
    refine Sat.mono (timerFinish_spec start stop nameOffset body _ s2.cs s3) ?_
    rintro _ s' ⟨g, h1, h2⟩
    have he : s3.ext = s.ext := g3.2.1.trans g2.2.1
    have hc : s2.cs = s.cs := g2.1
    refine ⟨(g2.trans g3).trans g, s2, g2, ?_, ?_, ?_⟩
    · intro qt h; cases h
    · intro _ hx
      exact (h1 (by rw [he]; exact hx)).right (g2.trans g3)
    · intro _ hx hb
      exact (h2 (by rw [he]; exact hx) (by rw [hc]; exact hb)).right (g2.trans g3)

/-- **the diagnostics of a timer**, from the pieces it was cut into -/
theorem timerTail_spec (start stop nameOffset : Nat) (mtoks : List Tok) (body : Body) (s : BP α) :
    Sat (timerTail (α := α) start stop nameOffset mtoks body) s (fun _ s' =>
      (mtoks.isEmpty = false →
        Has (.error ⟨.error, .parse, "modifiers-not-allowed:timer", [tokensSpan mtoks]⟩) s s') ∧
      (∀ i, s.ext.has Gen.EXT_COMPONENT_ALIAS = true →
        body.name.findIdx? (fun t => t.kind == .or) = some i → Has (timerAliasEv body i) s s') ∧
      (∃ sq, Grow s sq ∧ ∀ qt, body.quantity = some qt →
        (parseQuantity (α := α) qt sq).1.quantity.val.unit = none →
        Has (timerMissingUnitEv (parseQuantity (α := α) qt sq).1) s s') ∧
      (body.quantity = none → s.ext.has Gen.EXT_TIMER_REQUIRES_TIME = true →
        Has (.error ⟨.error, .parse, "timer-missing-quantity",
          [body.close.getD (Span.pos (buildText nameOffset body.name).span.stop)]⟩) s s') ∧
      (body.quantity = none → s.ext.has Gen.EXT_TIMER_REQUIRES_TIME = false →
        (buildText nameOffset body.name).isTextEmpty s.cs = true →
        Has (.error ⟨.error, .parse, "timer-neither-name-nor-quantity", [timerNeitherSpan nameOffset body]⟩) s s')) := by
  have h0 := timerTail_head (α := α) start stop nameOffset mtoks body s
  unfold Sat at h0 ⊢
  obtain ⟨sB, gB, heq, hA, hB⟩ := h0
  have h1 := timerRest_spec (α := α) start stop nameOffset body sB
  unfold Sat at h1
  rw [← heq] at h1
  obtain ⟨g, sq, gq, h2, h3, h4⟩ := h1
  refine ⟨fun h => (hA h).left g, fun i he hi => (hB i he hi).left g, ⟨sq, gB.trans gq, ?_⟩, ?_, ?_⟩
  · intro qt hqt hu
    exact (h2 qt hqt hu).right gB
  · intro hq he
    exact (h3 hq (by rw [gB.2.1]; exact he)).right gB
  · intro hq he hb
    exact (h4 hq (by rw [gB.2.1]; exact he) (by rw [gB.1]; exact hb)).right gB

/-! ### soundness of the simplest shape: nothing is pushed -/

theorem parseAlias_quiet (c : String) (toks : List Tok) (off : Nat) (s : BP α)
    (ha : s.ext.has Gen.EXT_COMPONENT_ALIAS = false ∨ ∀ t ∈ toks, t.kind ≠ .or) :
    Sat (parseAlias (α := α) c toks off) s (fun r s' => Same s s' ∧ r = (buildText off toks, none)) := by
  have hsep : (if s.ext.has Gen.EXT_COMPONENT_ALIAS = true then toks.findIdx? (fun t => t.kind == .or) else none)
      = none := by
    rcases ha with h | h
    · simp [h]
    · split
      · rw [List.findIdx?_eq_none_iff]
        intro t ht; simpa using h t ht
      · rfl
  unfold parseAlias
  refine Sat.bind (Sat.hasExt ?_)
  simp only [hsep]
  refine Sat.bind (Sat.mono (bpText_spec off toks s) ?_)
  rintro _ s1 ⟨rfl, q⟩
  exact Sat.pure ⟨q, rfl⟩

/-- an ingredient without modifiers, alias separator, quantity and with a non-blank name: the tail
    pushes nothing -/
theorem ingredientTail_quiet (start stop modPos nameOffset : Nat) (body : Body) (note : Option Text) (s : BP α)
    (hq : body.quantity = none)
    (ha : s.ext.has Gen.EXT_COMPONENT_ALIAS = false ∨ ∀ t ∈ body.name, t.kind ≠ .or)
    (hn : (buildText nameOffset body.name).isTextEmpty s.cs = false) :
    Sat (ingredientTail (α := α) start stop modPos nameOffset [] body note) s (fun r s' => Same s s' ∧
      r = some (.ingredient ⟨⟨⟨Modifiers.empty, Span.pos modPos⟩, none, buildText nameOffset body.name, none, none, note⟩,
        ⟨start, stop⟩⟩)) := by
  unfold ingredientTail
  refine Sat.bind (Sat.mono (parseAlias_quiet "ingredient" body.name nameOffset s ha) ?_)
  rintro ⟨name, alias⟩ s5 ⟨q5, heq⟩
  cases heq
  dsimp only
  refine Sat.bind ?_
  unfold checkEmptyName
  refine Sat.bind (Sat.get ?_)
  rw [q5.1, hn]
  simp only [Bool.false_eq_true, if_false]
  refine Sat.pure ?_
  refine Sat.bind ?_
  unfold parseModifiers
  simp only [List.isEmpty_nil, if_true]
  refine Sat.pure ?_
  rw [hq]
  refine Sat.bind (Sat.pure ?_)
  exact Sat.pure ⟨q5, rfl⟩

theorem cookwareTail_quiet (start stop modPos nameOffset : Nat) (body : Body) (note : Option Text) (s : BP α)
    (hq : body.quantity = none)
    (ha : s.ext.has Gen.EXT_COMPONENT_ALIAS = false ∨ ∀ t ∈ body.name, t.kind ≠ .or)
    (hn : (buildText nameOffset body.name).isTextEmpty s.cs = false) :
    Sat (cookwareTail (α := α) start stop modPos nameOffset [] body note) s (fun r s' => Same s s' ∧
      r = some (.cookware ⟨⟨⟨Modifiers.empty, Span.pos modPos⟩, buildText nameOffset body.name, none, none, note⟩,
        ⟨start, stop⟩⟩)) := by
  unfold cookwareTail
  refine Sat.bind (Sat.mono (parseAlias_quiet "cookware" body.name nameOffset s ha) ?_)
  rintro ⟨name, alias⟩ s5 ⟨q5, heq⟩
  cases heq
  dsimp only
  refine Sat.bind ?_
  unfold checkEmptyName
  refine Sat.bind (Sat.get ?_)
  rw [q5.1, hn]
  simp only [Bool.false_eq_true, if_false]
  refine Sat.pure ?_
  refine Sat.bind ?_
  unfold cookwareQty
  rw [hq]
  refine Sat.pure ?_
  refine Sat.bind ?_
  unfold parseModifiers
  simp only [List.isEmpty_nil, if_true]
  refine Sat.pure ?_
  have h0 : Modifiers.empty.contains Modifiers.RECIPE = false := by decide
  simp only [h0, Bool.false_eq_true, if_false]
  refine Sat.bind (Sat.pure ?_)
  refine Sat.bind (Sat.pure ?_)
  exact Sat.pure ⟨q5, rfl⟩

end Cook
