import CookModel.Lemmas.DiagAnalysisExact
/-
  C07, analysis stage (prefix `c07r_`): the EXACT list of diagnostics of the checks of a resolved
  ingredient / cookware reference against its definition (`ingrRefChecks`, `cwRefChecks`), including the
  ADVANCED_UNITS compatibility loop (`ingrUnitChecks`, a `for` over the definition and its other
  references), as a pure function of the inputs and of the two tables the loop reads.
-/
namespace Cook
variable {α : Type} [Arith α]
set_option linter.unusedSectionVars false
set_option linter.unusedSimpArgs false
set_option linter.unusedVariables false

/-! ### a frame lemma for `for` loops that only push diagnostics -/

/-- a `for` loop over `l` whose body always continues and appends `g b` to the diagnostics appends
    `l.flatMap g` -/
theorem c07r_forIn_diags {β : Type} (l : List β) (f : β → PUnit → A α (ForInStep PUnit)) (g : β → List Diag)
    (hf : ∀ b u s, (f b u s).1 = .yield PUnit.unit ∧ (f b u s).2.diags.toList = s.diags.toList ++ g b) (s : Col α) :
    (forIn l PUnit.unit f s).2.diags.toList = s.diags.toList ++ l.flatMap g := by
  induction l generalizing s with
  | nil => simp [A_pure]
  | cons x xs ih =>
    simp only [List.forIn_cons, A_bind, List.flatMap_cons]
    rw [(hf x PUnit.unit s).1]
    simp only []
    rw [ih, (hf x PUnit.unit s).2, List.append_assoc]

theorem c07r_A_map {β γ : Type} (f : β → γ) (m : A α β) (s : Col α) : (f <$> m) s = (f (m s).1, (m s).2) := rfl

/-! ### the unit compatibility loop -/

/-- the label on the new reference's side: its unit, else its whole quantity -/
def c07r_qSpan (q : Option (Loc (PQuantity α))) : Span :=
  match q with
  | some nq => (nq.val.unit.map (·.span)).getD nq.span
  | none => ⟨0, 0⟩

/-- what one iteration of `ingrUnitChecks` pushes for the table entry `idx` -/
def c07r_unitDiag (env : Env) (i : PIngredient α) (newQ : Quantity (ScalableValue α))
    (ings : Array (Ingredient (ScalableValue α))) (locs : Array (Loc (PIngredient α))) (idx : Nat) : List Diag :=
  match ings[idx]?, locs[idx]? with
  | some other, some otherLoc =>
    match other.quantity with
    | some q =>
      match compatibleUnit env q.unit newQ.unit with
      | some _ => [adiag .warning "incompatible-units" [c07r_qSpan i.quantity, c07r_qSpan otherLoc.val.quantity]]
      | none => []
    | none => []
  | _, _ => []

theorem c07r_ingrUnitChecks_exact (env : Env) (i : PIngredient α) (newQ : Quantity (ScalableValue α))
    (idxs : List Nat) (s : Col α) :
    (ingrUnitChecks env i newQ idxs s).2.diags.toList =
      s.diags.toList ++ idxs.flatMap (c07r_unitDiag env i newQ s.ingredients s.locIngr) := by
  unfold ingrUnitChecks
  simp +instances only [A_bind, A_get, A_pure]
  apply c07r_forIn_diags
  intro idx u s'
  unfold c07r_unitDiag c07r_qSpan
  repeat' split
  all_goals simp +instances only [A_bind, A_pure, A_ite, awarn, apanic, A_modify]
  all_goals repeat' split
  all_goals simp_all +instances [adiag, c07r_A_map, A_modify, A_bind, A_pure]
  all_goals (repeat' split) <;> simp_all

/-! ### the four parts of the checks, as lists -/

/-- ADVANCED_UNITS: the compatibility warnings against the definition and its other references -/
def c07r_unitDiags (env : Env) (i : PIngredient α) (newQ : Option (Quantity (ScalableValue α))) (idxs : List Nat)
    (ings : Array (Ingredient (ScalableValue α))) (locs : Array (Loc (PIngredient α))) : List Diag :=
  if env.ext.has Gen.EXT_ADVANCED_UNITS then
    match newQ with
    | some q => idxs.flatMap (c07r_unitDiag env i q ings locs)
    | none => []
  else []

/-- a note on the reference -/
def c07r_noteDiags (input : Str) (note : Option Text) (defSpan : Span) (defNote : Option Text) : List Diag :=
  match note with
  | some n => [adiag .error "note-in-reference"
      [noteRefSpan input n.span, (defNote.map (·.span)).getD (Span.pos defSpan.stop)]]
  | none => []

/-- an amount on the reference AND on a definition made outside a step -/
def c07r_qtyDiags (defHas refHas definedInStep : Bool) (refQ defSpan : Span) : List Diag :=
  if defHas && refHas && !definedInStep then [adiag .error "conflicting-ref-quantity" [refQ, defSpan]] else []

/-- text value against numeric value (`rt`, `dt`: is the reference's / the definition's value a text?) -/
def c07r_textDiags (rt dt : Option Bool) (rl dl : Span) : List Diag :=
  match rt, dt with
  | some a, some b =>
    if a != b then [adiag .warning "text-value-in-ref" (if a then [rl, dl] else [dl, rl])] else []
  | _, _ => []

/-- everything `ingrRefChecks` pushes, in order -/
def c07r_ingrRefDiags (env : Env) (input : Str) (li : Loc (PIngredient α)) (igr : Ingredient (ScalableValue α))
    (refTo : Nat) (defn : Ingredient (ScalableValue α)) (defLoc : Loc (PIngredient α))
    (ings : Array (Ingredient (ScalableValue α))) (locs : Array (Loc (PIngredient α))) : List Diag :=
  c07r_unitDiags env li.val igr.quantity (refTo :: defn.relation.relation.referencedFrom) ings locs ++
  (c07r_noteDiags input li.val.note defLoc.span defLoc.val.note ++
  (c07r_qtyDiags defn.quantity.isSome igr.quantity.isSome (ircDefinedInStep defn)
    ((li.val.quantity.map (·.span)).getD ⟨0, 0⟩) defLoc.span ++
  c07r_textDiags (igr.quantity.map (·.value.val.isText)) (defn.quantity.map (·.value.val.isText))
    ((li.val.quantity.map (·.span)).getD ⟨0, 0⟩) ((defLoc.val.quantity.map (·.span)).getD ⟨0, 0⟩)))

/-- everything `cwRefChecks` pushes, in order -/
def c07r_cwRefDiags (input : Str) (lc : Loc (PCookware α)) (cw : Cookware (ScalableValue α))
    (defn : Cookware (ScalableValue α)) (defLoc : Loc (PCookware α)) : List Diag :=
  c07r_noteDiags input lc.val.note defLoc.span defLoc.val.note ++
  (c07r_qtyDiags defn.quantity.isSome cw.quantity.isSome (crcDefinedInStep defn)
    ((lc.val.quantity.map (·.span)).getD ⟨0, 0⟩) defLoc.span ++
  c07r_textDiags (cw.quantity.map (·.val.isText)) (defn.quantity.map (·.val.isText))
    ((lc.val.quantity.map (·.span)).getD ⟨0, 0⟩) ((defLoc.val.quantity.map (·.span)).getD ⟨0, 0⟩))

theorem c07r_apanic_frame (site : String) (s : Col α) :
    (apanic (α := α) site s).2.diags = s.diags ∧ (apanic (α := α) site s).2.ingredients = s.ingredients ∧
    (apanic (α := α) site s).2.locIngr = s.locIngr := by
  unfold apanic; rw [A_modify]; split <;> simp

section parts
variable (env : Env) (input : Str) (li : Loc (PIngredient α)) (igr : Ingredient (ScalableValue α))
  (refTo : Nat) (defn : Ingredient (ScalableValue α)) (defLoc : Loc (PIngredient α))

theorem c07r_irc1_exact (s : Col α) :
    (irc1 env li igr refTo defn s).2.diags.toList = s.diags.toList ++
      c07r_unitDiags env li.val igr.quantity (refTo :: defn.relation.relation.referencedFrom) s.ingredients s.locIngr := by
  unfold irc1 c07r_unitDiags
  obtain ⟨p1, p2, p3⟩ := c07r_apanic_frame (α := α) "definition is a reference" s
  cases he : env.ext.has Gen.EXT_ADVANCED_UNITS <;> cases hq : igr.quantity <;>
    cases hr : defn.relation.relation.isReference <;>
    simp +instances only [A_bind, A_pure, A_ite, Bool.not_false, Bool.not_true, Bool.false_eq_true, if_false, if_true,
      c07r_ingrUnitChecks_exact, p1, p2, p3, List.append_nil]

theorem c07r_ircNote_exact (s : Col α) :
    (ircNote input li defLoc s).2.diags.toList = s.diags.toList ++
      c07r_noteDiags input li.val.note defLoc.span defLoc.val.note := by
  unfold ircNote c07r_noteDiags
  cases li.val.note with
  | none => simp [A_pure]
  | some n => simp only [noteReferenceError_run]; simp

theorem c07r_ircQty_exact (s : Col α) :
    (ircQty li igr defn defLoc s).2.diags.toList = s.diags.toList ++
      c07r_qtyDiags defn.quantity.isSome igr.quantity.isSome (ircDefinedInStep defn)
        ((li.val.quantity.map (·.span)).getD ⟨0, 0⟩) defLoc.span := by
  unfold ircQty c07r_qtyDiags
  split <;> simp [A_pure, aerr, A_modify, adiag]

theorem c07r_ircText_exact (s : Col α) :
    (ircText li igr defn defLoc s).2.diags.toList = s.diags.toList ++
      c07r_textDiags (igr.quantity.map (·.value.val.isText)) (defn.quantity.map (·.value.val.isText))
        ((li.val.quantity.map (·.span)).getD ⟨0, 0⟩) ((defLoc.val.quantity.map (·.span)).getD ⟨0, 0⟩) := by
  unfold ircText c07r_textDiags
  cases hr : igr.quantity <;> cases hd : defn.quantity <;> try (simp [A_pure]; done)
  rename_i rq dq
  obtain ⟨p1, -, -⟩ := c07r_apanic_frame (α := α) "definition location quantity unwrap" s
  cases ha : rq.value.val.isText <;> cases hb : dq.value.val.isText <;>
    cases hl : defLoc.val.quantity.isNone <;>
    simp +instances [A_bind, A_pure, A_ite, awarn, A_modify, adiag, ha, hb, hl, p1]

end parts

/-- **`ingrRefChecks` appends exactly `c07r_ingrRefDiags`** (the tables read by the unit loop are those of the
    state the checks start from) -/
theorem c07r_ingrRefChecks_exact (env : Env) (input : Str) (li : Loc (PIngredient α))
    (igr : Ingredient (ScalableValue α)) (refTo : Nat) (defn : Ingredient (ScalableValue α))
    (defLoc : Loc (PIngredient α)) (s : Col α) :
    (ingrRefChecks env input li igr refTo defn defLoc s).2.diags.toList =
      s.diags.toList ++ c07r_ingrRefDiags env input li igr refTo defn defLoc s.ingredients s.locIngr := by
  rw [ingrRefChecks_parts]
  simp only [A_bind]
  rw [c07r_ircText_exact, c07r_ircQty_exact, c07r_ircNote_exact, c07r_irc1_exact]
  unfold c07r_ingrRefDiags
  simp only [List.append_assoc]

section cwparts
variable (input : Str) (lc : Loc (PCookware α)) (cw : Cookware (ScalableValue α))
  (defn : Cookware (ScalableValue α)) (defLoc : Loc (PCookware α))

theorem c07r_crc1_exact (s : Col α) : (crc1 defn s).2.diags.toList = s.diags.toList := by
  unfold crc1
  split
  · rw [(c07r_apanic_frame _ s).1]
  · rfl

theorem c07r_crcNote_exact (s : Col α) :
    (crcNote input lc defLoc s).2.diags.toList = s.diags.toList ++
      c07r_noteDiags input lc.val.note defLoc.span defLoc.val.note := by
  unfold crcNote c07r_noteDiags
  cases lc.val.note with
  | none => simp [A_pure]
  | some n => simp only [noteReferenceError_run]; simp

theorem c07r_crcQty_exact (s : Col α) :
    (crcQty lc cw defn defLoc s).2.diags.toList = s.diags.toList ++
      c07r_qtyDiags defn.quantity.isSome cw.quantity.isSome (crcDefinedInStep defn)
        ((lc.val.quantity.map (·.span)).getD ⟨0, 0⟩) defLoc.span := by
  unfold crcQty c07r_qtyDiags
  split <;> simp [A_pure, aerr, A_modify, adiag]

theorem c07r_crcText_exact (s : Col α) :
    (crcText lc cw defn defLoc s).2.diags.toList = s.diags.toList ++
      c07r_textDiags (cw.quantity.map (·.val.isText)) (defn.quantity.map (·.val.isText))
        ((lc.val.quantity.map (·.span)).getD ⟨0, 0⟩) ((defLoc.val.quantity.map (·.span)).getD ⟨0, 0⟩) := by
  unfold crcText c07r_textDiags
  cases hr : cw.quantity <;> cases hd : defn.quantity <;> try (simp [A_pure]; done)
  rename_i rq dq
  obtain ⟨p1, -, -⟩ := c07r_apanic_frame (α := α) "definition location quantity unwrap" s
  cases ha : rq.val.isText <;> cases hb : dq.val.isText <;>
    cases hl : defLoc.val.quantity.isNone <;>
    simp +instances [A_bind, A_pure, A_ite, awarn, A_modify, adiag, ha, hb, hl, p1]

end cwparts

/-- **`cwRefChecks` appends exactly `c07r_cwRefDiags`** -/
theorem c07r_cwRefChecks_exact (input : Str) (lc : Loc (PCookware α)) (cw : Cookware (ScalableValue α))
    (defn : Cookware (ScalableValue α)) (defLoc : Loc (PCookware α)) (s : Col α) :
    (cwRefChecks input lc cw defn defLoc s).2.diags.toList = s.diags.toList ++ c07r_cwRefDiags input lc cw defn defLoc := by
  rw [cwRefChecks_parts]
  simp only [A_bind]
  rw [c07r_crcText_exact, c07r_crcQty_exact, c07r_crcNote_exact, c07r_crc1_exact]
  unfold c07r_cwRefDiags
  simp only [List.append_assoc]

/-! ### which kind is in the list, exactly when -/

theorem c07r_unitDiag_kind (env : Env) (i : PIngredient α) (q : Quantity (ScalableValue α))
    (ings : Array (Ingredient (ScalableValue α))) (locs : Array (Loc (PIngredient α))) (idx : Nat) :
    ∀ d ∈ c07r_unitDiag env i q ings locs idx, d.kind = "incompatible-units" := by
  unfold c07r_unitDiag
  intro d hd
  repeat' split at hd
  all_goals simp_all [adiag]

theorem c07r_unitDiags_kind (env : Env) (i : PIngredient α) (newQ : Option (Quantity (ScalableValue α))) (idxs : List Nat)
    (ings : Array (Ingredient (ScalableValue α))) (locs : Array (Loc (PIngredient α))) :
    ∀ d ∈ c07r_unitDiags env i newQ idxs ings locs, d.kind = "incompatible-units" := by
  unfold c07r_unitDiags
  intro d hd
  split at hd
  · split at hd
    · rw [List.mem_flatMap] at hd
      obtain ⟨idx, -, h⟩ := hd
      exact c07r_unitDiag_kind env i _ ings locs idx d h
    · cases hd
  · cases hd

/-- the entry `idx` raises an incompatibility: it exists in both tables, has an amount, and
    `compatible_unit` of its unit with the new one fails -/
def c07r_incompatAt (env : Env) (q : Quantity (ScalableValue α))
    (ings : Array (Ingredient (ScalableValue α))) (locs : Array (Loc (PIngredient α))) (idx : Nat) : Prop :=
  ∃ other otherLoc oq, ings[idx]? = some other ∧ locs[idx]? = some otherLoc ∧ other.quantity = some oq ∧
    compatibleUnit env oq.unit q.unit ≠ none

theorem c07r_unitDiag_iff (env : Env) (i : PIngredient α) (q : Quantity (ScalableValue α))
    (ings : Array (Ingredient (ScalableValue α))) (locs : Array (Loc (PIngredient α))) (idx : Nat) :
    (c07r_unitDiag env i q ings locs idx ≠ [] ↔ c07r_incompatAt env q ings locs idx) ∧
    (∀ otherLoc, locs[idx]? = some otherLoc → ∀ d ∈ c07r_unitDiag env i q ings locs idx,
      d = adiag .warning "incompatible-units" [c07r_qSpan i.quantity, c07r_qSpan otherLoc.val.quantity]) := by
  unfold c07r_unitDiag c07r_incompatAt
  cases h1 : ings[idx]? with
  | none => simp
  | some other =>
    cases h2 : locs[idx]? with
    | none => simp
    | some otherLoc =>
      cases h3 : other.quantity with
      | none => simp [h3]
      | some oq => cases h4 : compatibleUnit env oq.unit q.unit <;> simp [h3, h4]

theorem c07r_uniform {L : List Diag} {k k' : String} (h : ∀ d ∈ L, d.kind = k) :
    (∃ d ∈ L, d.kind = k') ↔ (L ≠ [] ∧ k = k') := by
  constructor
  · rintro ⟨d, hd, hk⟩
    exact ⟨List.ne_nil_of_mem hd, by rw [← h d hd, hk]⟩
  · rintro ⟨hne, rfl⟩
    cases L with
    | nil => exact absurd rfl hne
    | cons a l => exact ⟨a, by simp, h a (by simp)⟩

theorem c07r_noteDiags_spec (input : Str) (note : Option Text) (defSpan : Span) (defNote : Option Text) :
    (∀ d ∈ c07r_noteDiags input note defSpan defNote, d.kind = "note-in-reference") ∧
    (c07r_noteDiags input note defSpan defNote ≠ [] ↔ note.isSome = true) := by
  unfold c07r_noteDiags
  cases note <;> simp [adiag]

theorem c07r_qtyDiags_spec (a b c : Bool) (x y : Span) :
    (∀ d ∈ c07r_qtyDiags a b c x y, d.kind = "conflicting-ref-quantity") ∧
    (c07r_qtyDiags a b c x y ≠ [] ↔ (a = true ∧ b = true ∧ c = false)) := by
  unfold c07r_qtyDiags
  cases a <;> cases b <;> cases c <;> simp [adiag]

theorem c07r_textDiags_spec (rt dt : Option Bool) (rl dl : Span) :
    (∀ d ∈ c07r_textDiags rt dt rl dl, d.kind = "text-value-in-ref") ∧
    (c07r_textDiags rt dt rl dl ≠ [] ↔ ∃ a b, rt = some a ∧ dt = some b ∧ a ≠ b) := by
  unfold c07r_textDiags
  cases rt <;> cases dt <;> try (simp; done)
  rename_i a b
  cases a <;> cases b <;> simp [adiag]

theorem c07r_unitDiags_ne (env : Env) (i : PIngredient α) (newQ : Option (Quantity (ScalableValue α))) (idxs : List Nat)
    (ings : Array (Ingredient (ScalableValue α))) (locs : Array (Loc (PIngredient α))) :
    c07r_unitDiags env i newQ idxs ings locs ≠ [] ↔
      (env.ext.has Gen.EXT_ADVANCED_UNITS = true ∧ ∃ q, newQ = some q ∧ ∃ idx ∈ idxs, c07r_incompatAt env q ings locs idx) := by
  unfold c07r_unitDiags
  cases he : env.ext.has Gen.EXT_ADVANCED_UNITS
  · simp
  · cases newQ with
    | none => simp
    | some q =>
      simp only [if_true, true_and, Option.some.injEq, exists_eq_left', ne_eq, List.flatMap_eq_nil_iff]
      constructor
      · intro h
        apply Classical.byContradiction
        intro hno
        apply h
        intro idx hm
        apply Classical.byContradiction
        intro hne
        exact hno ⟨idx, hm, (c07r_unitDiag_iff env i q ings locs idx).1.1 hne⟩
      · rintro ⟨idx, hm, hi⟩ h
        exact (c07r_unitDiag_iff env i q ings locs idx).1.2 hi (h idx hm)

theorem c07r_exists_append {L1 L2 : List Diag} {p : Diag → Prop} :
    (∃ d ∈ L1 ++ L2, p d) ↔ ((∃ d ∈ L1, p d) ∨ (∃ d ∈ L2, p d)) := by
  constructor
  · rintro ⟨d, hd, hp⟩
    rcases List.mem_append.1 hd with h | h
    · exact Or.inl ⟨d, h, hp⟩
    · exact Or.inr ⟨d, h, hp⟩
  · rintro (⟨d, h, hp⟩ | ⟨d, h, hp⟩)
    · exact ⟨d, List.mem_append_left _ h, hp⟩
    · exact ⟨d, List.mem_append_right _ h, hp⟩

/-- **each diagnostic of the checks of an ingredient reference is raised IFF its condition holds** -/
theorem c07r_ingrRefDiags_kinds (env : Env) (input : Str) (li : Loc (PIngredient α)) (igr : Ingredient (ScalableValue α))
    (refTo : Nat) (defn : Ingredient (ScalableValue α)) (defLoc : Loc (PIngredient α))
    (ings : Array (Ingredient (ScalableValue α))) (locs : Array (Loc (PIngredient α))) :
    ((∃ d ∈ c07r_ingrRefDiags env input li igr refTo defn defLoc ings locs, d.kind = "note-in-reference") ↔
      li.val.note.isSome = true) ∧
    ((∃ d ∈ c07r_ingrRefDiags env input li igr refTo defn defLoc ings locs, d.kind = "conflicting-ref-quantity") ↔
      (defn.quantity.isSome = true ∧ igr.quantity.isSome = true ∧ ircDefinedInStep defn = false)) ∧
    ((∃ d ∈ c07r_ingrRefDiags env input li igr refTo defn defLoc ings locs, d.kind = "text-value-in-ref") ↔
      ∃ rq dq, igr.quantity = some rq ∧ defn.quantity = some dq ∧ rq.value.val.isText ≠ dq.value.val.isText) ∧
    ((∃ d ∈ c07r_ingrRefDiags env input li igr refTo defn defLoc ings locs, d.kind = "incompatible-units") ↔
      (env.ext.has Gen.EXT_ADVANCED_UNITS = true ∧ ∃ q, igr.quantity = some q ∧
        ∃ idx ∈ refTo :: defn.relation.relation.referencedFrom, c07r_incompatAt env q ings locs idx)) := by
  unfold c07r_ingrRefDiags
  have u := c07r_unitDiags_kind env li.val igr.quantity (refTo :: defn.relation.relation.referencedFrom) ings locs
  have un := c07r_unitDiags_ne env li.val igr.quantity (refTo :: defn.relation.relation.referencedFrom) ings locs
  obtain ⟨n1, n2⟩ := c07r_noteDiags_spec input li.val.note defLoc.span defLoc.val.note
  obtain ⟨q1, q2⟩ := c07r_qtyDiags_spec defn.quantity.isSome igr.quantity.isSome (ircDefinedInStep defn)
    ((li.val.quantity.map (·.span)).getD ⟨0, 0⟩) defLoc.span
  obtain ⟨t1, t2⟩ := c07r_textDiags_spec (igr.quantity.map (·.value.val.isText)) (defn.quantity.map (·.value.val.isText))
    ((li.val.quantity.map (·.span)).getD ⟨0, 0⟩) ((defLoc.val.quantity.map (·.span)).getD ⟨0, 0⟩)
  have t2' : (∃ a b, igr.quantity.map (·.value.val.isText) = some a ∧ defn.quantity.map (·.value.val.isText) = some b ∧ a ≠ b) ↔
      ∃ rq dq, igr.quantity = some rq ∧ defn.quantity = some dq ∧ rq.value.val.isText ≠ dq.value.val.isText := by
    cases igr.quantity <;> cases defn.quantity <;> simp
  simp only [c07r_exists_append, c07r_uniform u, c07r_uniform n1, c07r_uniform q1, c07r_uniform t1]
  refine ⟨?_, ?_, ?_, ?_⟩
  · simp [n2]
  · simp [q2]
  · rw [← t2', ← t2]; simp
  · simp [un]

/-- the same for a cookware reference -/
theorem c07r_cwRefDiags_kinds (input : Str) (lc : Loc (PCookware α)) (cw : Cookware (ScalableValue α))
    (defn : Cookware (ScalableValue α)) (defLoc : Loc (PCookware α)) :
    ((∃ d ∈ c07r_cwRefDiags input lc cw defn defLoc, d.kind = "note-in-reference") ↔ lc.val.note.isSome = true) ∧
    ((∃ d ∈ c07r_cwRefDiags input lc cw defn defLoc, d.kind = "conflicting-ref-quantity") ↔
      (defn.quantity.isSome = true ∧ cw.quantity.isSome = true ∧ crcDefinedInStep defn = false)) ∧
    ((∃ d ∈ c07r_cwRefDiags input lc cw defn defLoc, d.kind = "text-value-in-ref") ↔
      ∃ rq dq, cw.quantity = some rq ∧ defn.quantity = some dq ∧ rq.val.isText ≠ dq.val.isText) := by
  unfold c07r_cwRefDiags
  obtain ⟨n1, n2⟩ := c07r_noteDiags_spec input lc.val.note defLoc.span defLoc.val.note
  obtain ⟨q1, q2⟩ := c07r_qtyDiags_spec defn.quantity.isSome cw.quantity.isSome (crcDefinedInStep defn)
    ((lc.val.quantity.map (·.span)).getD ⟨0, 0⟩) defLoc.span
  obtain ⟨t1, t2⟩ := c07r_textDiags_spec (cw.quantity.map (·.val.isText)) (defn.quantity.map (·.val.isText))
    ((lc.val.quantity.map (·.span)).getD ⟨0, 0⟩) ((defLoc.val.quantity.map (·.span)).getD ⟨0, 0⟩)
  have t2' : (∃ a b, cw.quantity.map (·.val.isText) = some a ∧ defn.quantity.map (·.val.isText) = some b ∧ a ≠ b) ↔
      ∃ rq dq, cw.quantity = some rq ∧ defn.quantity = some dq ∧ rq.val.isText ≠ dq.val.isText := by
    cases cw.quantity <;> cases defn.quantity <;> simp
  simp only [c07r_exists_append, c07r_uniform n1, c07r_uniform q1, c07r_uniform t1]
  refine ⟨?_, ?_, ?_⟩
  · simp [n2]
  · simp [q2]
  · rw [← t2', ← t2]; simp

end Cook
