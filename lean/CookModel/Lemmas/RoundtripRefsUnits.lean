import CookModel.Lemmas.RoundtripModes3
/-
  C01, analysis layer, ADVANCED_UNITS together with ingredient references (`rtu_` prefix).
  With the extension on, `ingredient()` compares the unit of a reference that carries an amount with the unit
  of its definition and of every EARLIER reference to the same definition (`compatible_unit`, through the
  converter's `find_unit`), and warns `incompatible-units` when they differ in physical quantity (both known),
  in spelling (one unknown), or when exactly one side has a unit.  The side condition under which that loop is
  quiet is a computable check on the ingredient table (`unitsQuietB`); with it the per-event closed form of a
  reference holds for EVERY extension set.
-/
set_option linter.unusedSectionVars false
set_option linter.unusedSimpArgs false
set_option linter.unusedVariables false
namespace Cook
variable {α : Type} [Arith α]

/-- a `for` loop whose body, on the elements of `l`, continues and leaves the state `s` alone, does nothing -/
theorem rtu_forIn_id {β : Type} (l : List β) (f : β → PUnit → A α (ForInStep PUnit)) (s : Col α)
    (hf : ∀ b ∈ l, ∀ u, f b u s = (.yield PUnit.unit, s)) : forIn l PUnit.unit f s = (PUnit.unit, s) := by
  induction l with
  | nil => simp [A_pure]
  | cons x xs ih =>
    simp only [List.forIn_cons, A_bind]
    rw [hf x (by simp) PUnit.unit]
    simp only []
    exact ih (fun b hb => hf b (by simp [hb]))

/-- `compatible_unit` finds nothing to report: both without unit; or both with a unit, and either both known
    to the converter with the same physical quantity, or (one unknown) spelled the same -/
def unitsAgreeB (env : Env) (a b : Option Str) : Bool := (compatibleUnit env a b).isNone

/-- the unit loop of a new reference with the unit `newUnit` is quiet against the table entries `idxs` (the
    definition and its earlier references): every index is in the table, and an entry that has an amount
    agrees in unit with the new reference -/
def unitsQuietB (env : Env) (tbl : Array (Ingredient (ScalableValue α))) (newUnit : Option Str) (idxs : List Nat) :
    Bool :=
  idxs.all (fun idx =>
    match tbl[idx]? with
    | some other => other.quantity.all (fun q => unitsAgreeB env q.unit newUnit)
    | none => false)

theorem rtu_ingrUnitChecks (env : Env) (i : PIngredient α) (newQ : Quantity (ScalableValue α)) (idxs : List Nat)
    (s : Col α) (h : unitsQuietB env s.ingredients newQ.unit idxs = true)
    (hloc : ∀ idx ∈ idxs, (s.locIngr[idx]?).isSome = true) :
    ingrUnitChecks env i newQ idxs s = ((), s) := by
  unfold ingrUnitChecks
  simp +instances only [A_bind, A_get, A_pure]
  apply rtu_forIn_id
  intro idx hidx u
  have h1 := List.all_eq_true.1 h idx hidx
  have h2 := hloc idx hidx
  cases ho : s.ingredients[idx]? with
  | none => rw [ho] at h1; cases h1
  | some other =>
    simp only [ho] at h1
    cases hl : s.locIngr[idx]? with
    | none => rw [hl] at h2; cases h2
    | some otherLoc =>
      cases hq : other.quantity with
      | none => simp +instances only [ho, hl, hq, A_bind, A_pure]
      | some q =>
        rw [hq] at h1
        simp only [Option.all_some, unitsAgreeB, Option.isNone_iff_eq_none] at h1
        simp +instances only [ho, hl, hq, h1, A_bind, A_pure]

/-- the conditions under which the checks of a resolved ingredient reference report nothing, for EVERY
    extension set: as `RefChecksQuiet`, the requirement "ADVANCED_UNITS off" replaced by the unit condition
    (needed only when the extension is on and the reference carries an amount) -/
structure RefChecksQuietU (env : Env) (li : Loc (PIngredient α)) (quantity : Option (Quantity (ScalableValue α)))
    (defn : Ingredient (ScalableValue α)) (b : Bool) (t : Nat) (rf : List Nat) (s : Col α) : Prop where
  units : env.ext.has Gen.EXT_ADVANCED_UNITS = true → ∀ newQ, quantity = some newQ →
    unitsQuietB env s.ingredients newQ.unit (t :: rf) = true ∧ ∀ idx ∈ t :: rf, (s.locIngr[idx]?).isSome = true
  note : li.val.note = none
  qty : (defn.quantity.isSome && quantity.isSome && !b) = false
  text : ∀ rq dq, quantity = some rq → defn.quantity = some dq → rq.value.val.isText = dq.value.val.isText

/-- the earlier condition is the special case "extension off" -/
theorem rtu_quiet_of_off (env : Env) (li : Loc (PIngredient α)) (quantity : Option (Quantity (ScalableValue α)))
    (defn : Ingredient (ScalableValue α)) (b : Bool) (t : Nat) (rf : List Nat) (s : Col α)
    (h : RefChecksQuiet env li quantity defn b) : RefChecksQuietU env li quantity defn b t rf s :=
  ⟨fun hon => (by rw [h.adv] at hon; cases hon), h.note, h.qty, h.text⟩

theorem rtu_ingrRefChecks (env : Env) (input : Str) (li : Loc (PIngredient α)) (igr : Ingredient (ScalableValue α))
    (t : Nat) (defn : Ingredient (ScalableValue α)) (defLoc : Loc (PIngredient α)) (rf : List Nat) (b : Bool)
    (tg : Option RefTarget) (s : Col α) (hrel : defn.relation = ⟨.definition rf b, tg⟩)
    (hq : RefChecksQuietU env li igr.quantity defn b t rf s) :
    ingrRefChecks env input li igr t defn defLoc s = ((), s) := by
  obtain ⟨h1, h2, h3, h4⟩ := hq
  unfold ingrRefChecks
  have hnr : defn.relation.relation.isReference = false := by rw [hrel]; rfl
  have hrf : defn.relation.relation.referencedFrom = rf := by rw [hrel]; rfl
  simp only [bind, StateT.bind, pure, StateT.pure, hnr, Bool.not_false, Bool.not_true, Bool.false_eq_true, if_false,
    h2, hrel, h3, ComponentRelation.isReference, ComponentRelation.referencedFrom, Bool.not_not]
  have tail : (match igr.quantity, defn.quantity with
      | some rq, some dq =>
        if (rq.value.val.isText != dq.value.val.isText) = true then
          if defLoc.val.quantity.isNone = true then
            StateT.bind (apanic "definition location quantity unwrap") fun __r =>
              if rq.value.val.isText = true then
                awarn "text-value-in-ref"
                  [(Option.map (fun x => Loc.span x) li.val.quantity).getD { start := 0, stop := 0 },
                    (Option.map (fun x => Loc.span x) defLoc.val.quantity).getD { start := 0, stop := 0 }]
              else
                awarn "text-value-in-ref"
                  [(Option.map (fun x => Loc.span x) defLoc.val.quantity).getD { start := 0, stop := 0 },
                    (Option.map (fun x => Loc.span x) li.val.quantity).getD { start := 0, stop := 0 }]
          else
            if rq.value.val.isText = true then
              awarn "text-value-in-ref"
                [(Option.map (fun x => Loc.span x) li.val.quantity).getD { start := 0, stop := 0 },
                  (Option.map (fun x => Loc.span x) defLoc.val.quantity).getD { start := 0, stop := 0 }]
            else
              awarn "text-value-in-ref"
                [(Option.map (fun x => Loc.span x) defLoc.val.quantity).getD { start := 0, stop := 0 },
                  (Option.map (fun x => Loc.span x) li.val.quantity).getD { start := 0, stop := 0 }]
        else StateT.pure ()
      | x, x_1 => (StateT.pure () : A α Unit)) s = ((), s) := by
    cases hq1 : igr.quantity with
    | none => rfl
    | some rq =>
      cases hq2 : defn.quantity with
      | none => rfl
      | some dq =>
        have := h4 rq dq hq1 hq2
        simp [this, pure, StateT.pure]
  cases he : env.ext.has Gen.EXT_ADVANCED_UNITS with
  | false =>
    simp only [Bool.false_eq_true, if_false]
    exact tail
  | true =>
    simp only [if_true]
    cases hqq : igr.quantity with
    | none => rw [hqq] at tail; exact tail
    | some newQ =>
      obtain ⟨a1, a2⟩ := h1 he newQ hqq
      have hb : ∀ k : Unit → A α Unit, StateT.bind (ingrUnitChecks env li.val newQ (t :: rf)) k s = k () s := by
        intro k
        show k (ingrUnitChecks env li.val newQ (t :: rf) s).1 (ingrUnitChecks env li.val newQ (t :: rf) s).2 = k () s
        rw [rtu_ingrUnitChecks env li.val newQ (t :: rf) s a1 a2]
      simp only []
      rw [hb]
      rw [hqq] at tail; exact tail

/-! ### the condition as a computable check on the table -/

/-- `ingrTargetOKB` for every extension set: the requirement "ADVANCED_UNITS off" is replaced by the unit check
    against the definition and its earlier references (asked only when the extension is on and the new
    reference carries an amount) -/
def ingrTargetOKUB (env : Env) (tbl : Array (Ingredient (ScalableValue α))) (igr0 : Ingredient (ScalableValue α)) : Bool :=
  igr0.note.isNone &&
  (match sameNameIdx env (tbl.toList.map (fun x => (x.name, x.modifiers))) igr0.name with
   | some t =>
     match tbl[t]? with
     | some defn =>
       match defn.relation with
       | ⟨.definition rf b, tg⟩ =>
         refConflict igr0.modifiers
           ⟨defn.modifiers.bits &&& (Modifiers.HIDDEN ||| Modifiers.OPT ||| Modifiers.RECIPE)⟩ == 0 &&
         !(defn.quantity.isSome && igr0.quantity.isSome && !b) &&
         (match igr0.quantity, defn.quantity with
          | some rq, some dq => rq.value.val.isText == dq.value.val.isText
          | _, _ => true) &&
         (!env.ext.has Gen.EXT_ADVANCED_UNITS ||
           igr0.quantity.all (fun newQ => unitsQuietB env tbl newQ.unit (t :: rf)))
       | _ => false
     | none => false
   | none => false)

/-- with the extension off it is the earlier check -/
theorem rtu_ingrTargetOKUB_off (env : Env) (tbl : Array (Ingredient (ScalableValue α)))
    (igr0 : Ingredient (ScalableValue α)) (hoff : env.ext.has Gen.EXT_ADVANCED_UNITS = false) :
    ingrTargetOKUB env tbl igr0 = ingrTargetOKB env tbl igr0 := by
  unfold ingrTargetOKUB ingrTargetOKB
  simp only [hoff, Bool.not_false, Bool.true_or, Bool.and_true, Bool.true_and]
  congr 1

theorem rtu_unitsQuietB_bound (env : Env) (tbl : Array (Ingredient (ScalableValue α))) (u : Option Str) (idxs : List Nat)
    (h : unitsQuietB env tbl u idxs = true) : ∀ idx ∈ idxs, idx < tbl.size := by
  intro idx hidx
  have h1 := List.all_eq_true.1 h idx hidx
  by_cases hlt : idx < tbl.size
  · exact hlt
  · rw [Array.getElem?_eq_none (by omega)] at h1
    cases h1

/-- the check implies the quiet conditions, in a state whose two ingredient arrays have the same length (an
    invariant of the analysis) -/
theorem rtu_ingrTargetOKUB (env : Env) (li : Loc (PIngredient α)) (igr0 : Ingredient (ScalableValue α)) (s : Col α)
    (hsize : s.locIngr.size = s.ingredients.size) (hnote : li.val.note = none)
    (h : ingrTargetOKUB env s.ingredients igr0 = true) :
    ∃ t defn rf b tg,
      sameNameIdx env (s.ingredients.toList.map (fun x => (x.name, x.modifiers))) igr0.name = some t ∧
      s.ingredients[t]? = some defn ∧ defn.relation = ⟨.definition rf b, tg⟩ ∧
      refConflict igr0.modifiers
        ⟨defn.modifiers.bits &&& (Modifiers.HIDDEN ||| Modifiers.OPT ||| Modifiers.RECIPE)⟩ = 0 ∧
      RefChecksQuietU env li igr0.quantity defn b t rf s := by
  unfold ingrTargetOKUB at h
  simp only [Bool.and_eq_true] at h
  obtain ⟨-, h5⟩ := h
  split at h5
  · rename_i t ht
    split at h5
    · rename_i defn hdefn
      split at h5
      · rename_i rf b tg hrel
        simp only [Bool.and_eq_true, beq_iff_eq, Bool.not_eq_true', Bool.or_eq_true] at h5
        obtain ⟨⟨⟨c1, c2⟩, c3⟩, c4⟩ := h5
        refine ⟨t, defn, rf, b, tg, ht, hdefn, hrel, c1, ?_, hnote, c2, ?_⟩
        · intro hon newQ hq
          rcases c4 with c4 | c4
          · rw [hon] at c4; cases c4
          simp only [hq, Option.all_some] at c4
          refine ⟨c4, ?_⟩
          intro idx hidx
          have := rtu_unitsQuietB_bound env _ _ _ c4 idx hidx
          rw [Array.getElem?_eq_getElem (by omega)]
          rfl
        · intro rq dq e1 e2
          rw [e1, e2] at c3
          simpa using c3
      · cases h5
    · cases h5
  · cases h5

/-! ### the reference event, every mode, every extension set (copies of `rtn_ingrRegular` … with the weaker condition) -/

theorem rtu_ingrRegular (env : Env) (input : Str) (li : Loc (PIngredient α)) (igr0 : Ingredient (ScalableValue α))
    (s : Col α) (t : Nat) (defn : Ingredient (ScalableValue α)) (defLoc : Loc (PIngredient α)) (rf : List Nat)
    (b : Bool) (tg : Option RefTarget)
    (hNEW : igr0.modifiers.contains Modifiers.NEW = false)
    (htreat : igr0.modifiers.contains Modifiers.REF = true ∨ s.defineMode = .steps ∨ s.duplicateMode = .reference)
    (hquiet : igr0.modifiers.contains Modifiers.REF = true → s.defineMode ≠ .steps ∧ s.duplicateMode = .new)
    (hfound : sameNameIdx env (s.ingredients.toList.map (fun x => (x.name, x.modifiers))) igr0.name = some t)
    (hdefn : s.ingredients[t]? = some defn) (hloc : s.locIngr[t]? = some defLoc)
    (hrel : defn.relation = ⟨.definition rf b, tg⟩)
    (hconf : refConflict igr0.modifiers
      ⟨defn.modifiers.bits &&& (Modifiers.HIDDEN ||| Modifiers.OPT ||| Modifiers.RECIPE)⟩ = 0)
    (hq : RefChecksQuietU env li igr0.quantity defn b t rf s) :
    ingrRegular env input li igr0 s =
      (asReference igr0 defn.modifiers t,
       { s with ingredients := s.ingredients.setIfInBounds t (backlinked defn rf s.ingredients.size b tg) }) := by
  have hex : (((s.ingredients.toList.map (fun x => (x.name, x.modifiers)))[t]?).map (·.2)).getD Modifiers.empty =
      defn.modifiers := by
    simp [hdefn]
  unfold ingrRegular
  simp only [bind, StateT.bind, get, getThe, MonadStateOf.get, StateT.get, pure, StateT.pure]
  rw [rtn_resolve_ref env "ingredient" _ _ igr0.name igr0.modifiers li.span li.val.modifiers.span s t hNEW htreat hquiet
    hfound (by rw [hex]; exact hconf)]
  have hchk := rtu_ingrRefChecks env input li (asReference igr0 defn.modifiers t) t defn defLoc rf b tg s hrel hq
  unfold asReference refMods at hchk
  simp only [bind, StateT.bind, get, getThe, MonadStateOf.get, StateT.get, pure, StateT.pure, hex, hdefn, hloc, hchk,
    ingrSetReferencedFrom, hrel, modify, modifyGet, MonadStateOf.modifyGet, StateT.modifyGet]
  rfl

theorem rtu_ingrBuild (env : Env) (input : Str) (li : Loc (PIngredient α)) (igr0 : Ingredient (ScalableValue α))
    (s : Col α) (t : Nat) (defn : Ingredient (ScalableValue α)) (defLoc : Loc (PIngredient α)) (rf : List Nat)
    (b : Bool) (tg : Option RefTarget) (hinter : li.val.inter = none)
    (hNEW : igr0.modifiers.contains Modifiers.NEW = false)
    (htreat : igr0.modifiers.contains Modifiers.REF = true ∨ s.defineMode = .steps ∨ s.duplicateMode = .reference)
    (hquiet : igr0.modifiers.contains Modifiers.REF = true → s.defineMode ≠ .steps ∧ s.duplicateMode = .new)
    (hfound : sameNameIdx env (s.ingredients.toList.map (fun x => (x.name, x.modifiers))) igr0.name = some t)
    (hdefn : s.ingredients[t]? = some defn) (hloc : s.locIngr[t]? = some defLoc)
    (hrel : defn.relation = ⟨.definition rf b, tg⟩)
    (hconf : refConflict igr0.modifiers
      ⟨defn.modifiers.bits &&& (Modifiers.HIDDEN ||| Modifiers.OPT ||| Modifiers.RECIPE)⟩ = 0)
    (hq : RefChecksQuietU env li igr0.quantity defn b t rf s) :
    ingrBuild env input li igr0 s =
      (s.ingredients.size,
       { s with locIngr := s.locIngr.push li,
                ingredients := (s.ingredients.setIfInBounds t (backlinked defn rf s.ingredients.size b tg)).push
                  (asReference igr0 defn.modifiers t) }) := by
  unfold ingrBuild
  simp only [hinter, bind, StateT.bind]
  rw [rtu_ingrRegular env input li igr0 s t defn defLoc rf b tg hNEW htreat hquiet hfound hdefn hloc hrel hconf hq]
  simp only [get, getThe, MonadStateOf.get, StateT.get, pure, StateT.pure, modify, modifyGet, MonadStateOf.modifyGet,
    StateT.modifyGet, Array.size_push, Array.size_setIfInBounds, Nat.add_sub_cancel]

/-- **An ingredient that becomes a reference, in every mode, under every extension set** (inside a step block; the
    unit condition of ADVANCED_UNITS is part of `RefChecksQuietU`): written with `&` in the
    default modes, or without `&` in steps mode or in duplicate mode `reference` (an IMPLICIT reference), never
    with `+`; its name has an earlier non-REF definition, the last one at `t`; the checks of a reference are
    quiet.  The new table entry is the reference to `t` with the written and the inherited modifiers and REF
    (`asReference`), the definition lists the new index back, the step gets the item, nothing is reported. -/
theorem rtu_proc_ingredient_ref (env : Env) (input : Str) (li : Loc (PIngredient α)) (s : Col α) (items : List Item)
    (t : Nat) (defn : Ingredient (ScalableValue α)) (defLoc : Loc (PIngredient α)) (rf : List Nat) (b : Bool)
    (tg : Option RefTarget) (hb : s.block = some (.step items))
    (hinter : li.val.inter = none) (hlock : ∀ q, li.val.quantity = some q → lockOK q.val.value true)
    (hNEW : li.val.modifiers.val.contains Modifiers.NEW = false)
    (htreat : li.val.modifiers.val.contains Modifiers.REF = true ∨ s.defineMode = .steps ∨
      s.duplicateMode = .reference)
    (hquiet : li.val.modifiers.val.contains Modifiers.REF = true → s.defineMode ≠ .steps ∧ s.duplicateMode = .new)
    (hfound : sameNameIdx env (s.ingredients.toList.map (fun x => (x.name, x.modifiers))) (ingrOf env li).name = some t)
    (hdefn : s.ingredients[t]? = some defn) (hloc : s.locIngr[t]? = some defLoc)
    (hrel : defn.relation = ⟨.definition rf b, tg⟩)
    (hconf : refConflict li.val.modifiers.val
      ⟨defn.modifiers.bits &&& (Modifiers.HIDDEN ||| Modifiers.OPT ||| Modifiers.RECIPE)⟩ = 0)
    (hq : RefChecksQuietU env li (ingrOf env li).quantity defn b t rf s) :
    (processEvent env input (.ingredient li) s).2 =
      { s with
        locIngr := s.locIngr.push li,
        ingredients := (s.ingredients.setIfInBounds t (backlinked defn rf s.ingredients.size b tg)).push
          (asReference (ingrOf env li) defn.modifiers t),
        block := some (.step (items ++ [.ingredient s.ingredients.size])) } := by
  have e : processEvent env input (.ingredient li) s = inBlockComponent env input (.ingredient li) s := rfl
  rw [e, rta_inBlock_step env input _ s items hb]
  have hA : ingredientA env input li s =
      (s.ingredients.size,
       { s with locIngr := s.locIngr.push li,
                ingredients := (s.ingredients.setIfInBounds t (backlinked defn rf s.ingredients.size b tg)).push
                  (asReference (ingrOf env li) defn.modifiers t) }) := by
    unfold ingredientA
    simp only [bind, StateT.bind, rta_optQuantityOf env _ true s hlock, get, getThe, MonadStateOf.get, StateT.get, pure,
      StateT.pure]
    refine (rtu_ingrBuild env input li _ s t defn defLoc rf b tg hinter ?_ ?_ ?_ ?_ hdefn hloc hrel ?_ ?_).trans ?_
    · exact hNEW
    · exact htreat
    · exact hquiet
    · exact hfound
    · exact hconf
    · exact hq
    · rfl
  simp only [inStepComponent, bind, StateT.bind, hA]
  rw [rta_pushItem _ _ items (by exact hb)]

end Cook
