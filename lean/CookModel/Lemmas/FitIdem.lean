import CookModel.Lemmas.FitChoice
/-
  `ScaledQuantity::fit` (src/convert/mod.rs:505) is idempotent over ℚ also when fractions are ENABLED and `fit_fraction`
  finds a fraction (wave `w6numeric`; the disabled case is Lemmas/FitChoice.lean).  The second call starts from the
  selected unit with the selected number; over ℚ a `new_approx` result has exactly the value it approximates
  (`approx_value`) and conversions compose exactly, so it sees the same candidates and selects the same one.
  Prefix `fid_`.
-/
namespace Cook
open Arith

/-- converting on from an intermediate unit is converting from the original one (exact over ℚ) -/
theorem fid_convert_via {v nv : Rat} {u b e : Unit Rat} (h : convertF64 v u b = some nv)
    (hb : b.ratio ≠ 0) (he : e.ratio ≠ 0) (hub : u.id = b.id → u = b) (hbe : b.id = e.id → b = e)
    (hue : u.id = e.id → u = e) (hpq : e.pq = u.pq) :
    convertF64 nv b e = convertF64 v u e := by
  have hpq1 := convertF64_some_pq h hub
  obtain ⟨w1, h1, a1⟩ := convertF64_amount nv b e (by rw [← hpq1, hpq]) he hbe
  obtain ⟨w2, h2, a2⟩ := convertF64_amount v u e hpq.symm he hue
  have h3 := convertF64_some_amount h hb hub
  rw [h1, h2, amount_inj he (a1.trans (h3.trans a2.symm))]

theorem fid_filterMap_congr {α β : Type} (f g : α → Option β) :
    ∀ l : List α, (∀ x ∈ l, f x = g x) → l.filterMap f = l.filterMap g
  | [], _ => rfl
  | x :: xs, h => by
    simp only [List.filterMap_cons, h x (by simp)]
    rw [fid_filterMap_congr f g xs (fun y hy => h y (by simp [hy]))]

theorem fid_candOf_via {c : Converter Rat} (hc : c.Sound) {v nv : Rat} {u b : Unit Rat} (hu : u ∈ c.allUnits)
    (hbm : b ∈ c.allUnits) (h : convertF64 v u b = some nv) (e : Rat × Unit Rat) (hem : e.2 ∈ c.allUnits)
    (hpq : e.2.pq = u.pq) :
    fracCandOf c nv b e = fracCandOf c v u e := by
  unfold fracCandOf
  rw [fid_convert_via h (hc.ratio_ne _ hbm) (hc.ratio_ne _ hem) (hc.id_inj _ _ hu hbm) (hc.id_inj _ _ hbm hem)
    (hc.id_inj _ _ hu hem) hpq]

/-- the candidates seen from the intermediate unit are the candidates seen from the original unit -/
theorem fid_candidates_via {c : Converter Rat} (hc : c.Sound) {v nv : Rat} {u b : Unit Rat} (hu : u ∈ c.allUnits)
    (hbm : b ∈ c.allUnits) (h : convertF64 v u b = some nv) (es : List (Rat × Unit Rat))
    (hes : ∀ e ∈ es, e.2 ∈ c.allUnits ∧ e.2.pq = u.pq) {cands : List (Number Rat × Unit Rat)}
    (hcands : fracCandidates c v u es = .ok cands) :
    fracCandidates c nv b es = .ok cands := by
  have hpqb : u.pq = b.pq := convertF64_some_pq h (hc.id_inj _ _ hu hbm)
  obtain ⟨cands', hc'⟩ := fracCandidates_ok c nv b es (fun e he => by rw [(hes e he).2, hpqb])
  rw [hc', ffc_candidates _ _ _ _ _ hc', ffc_candidates _ _ _ _ _ hcands]
  congr 1
  apply fid_filterMap_congr
  intro e he
  exact fid_candOf_via hc hu hbm h e (hes e he).1 (hes e he).2

theorem fid_convert_self (v : Rat) (b : Unit Rat) : convertF64 v b b = some v := by
  simp [convertF64]

/-- what a second approximation of an already approximated range end gives: the same -/
theorem fid_approx_getD_again (c : Converter Rat) (e' : Rat) (cfg : FracCfg Rat) :
    (c.approx ((c.approx e' cfg).getD (.regular e')).value cfg).getD
      (.regular ((c.approx e' cfg).getD (.regular e')).value) = (c.approx e' cfg).getD (.regular e') := by
  cases ha : c.approx e' cfg with
  | none => simp [Number.value, ha]
  | some f => simp [approx_value ha, ha]

/-- the shape of what a successful `fit_fraction` (target system) leaves: the selected candidate's number (and, for a
    range, the end approximated or plain in the selected unit) under the selected unit's symbol -/
structure FidSel (c : Converter Rat) (q' : SQuantity Rat) (sel : Number Rat × Unit Rat) (sym : Str) : Prop where
  symbol : sel.2.symbol? = some sym
  enabled : (c.fractionsConfig sel.2).enabled = true
  approx : c.approx sel.1.value (c.fractionsConfig sel.2) = some sel.1
  shape : q' = ⟨.number sel.1, some sym⟩ ∨
    ∃ e2, q' = ⟨.range sel.1 e2, some sym⟩ ∧
      (c.approx e2.value (c.fractionsConfig sel.2)).getD (.regular e2.value) = e2

/-- **`fit_fraction` with a target system, run again from its own result, returns it** — whatever list `L'` the second
    call uses, provided it has the entries of the first one (`SystemsCoherent` gives that for the selected unit's own
    system). -/
theorem fid_fitFractionWith_again {c : Converter Rat} (hc : c.Sound) (q q' : SQuantity Rat) (u : Unit Rat)
    (s : System) (v : Rat) (hu : u ∈ c.allUnits)
    (h : fitFractionWith c q u s v = (q', .ok true)) :
    ∃ sel sym, sel.2 ∈ ((c.best u.pq).conversions s).unitsOf ∧ FidSel c q' sel sym ∧
      ∀ s', ((c.best sel.2.pq).conversions s').entries = ((c.best u.pq).conversions s).entries →
        fitFractionWith c q' sel.2 s' sel.1.value = (q', .ok true) := by
  unfold fitFractionWith at h
  cases hcands : fracCandidates c v u ((c.best u.pq).conversions s).entries with
  | error e => rw [hcands] at h; cases h
  | ok cands =>
    rw [hcands] at h
    simp only at h
    cases hm : minByKey cands with
    | none => rw [hm] at h; cases h
    | some sel =>
      rw [hm] at h
      simp only at h
      have hsel := minByKey_mem hm
      have hspec := fracCandidates_spec c v u _ _ hcands sel hsel
      have hb := hc.best_mem _ _ _ hspec.1
      have hmem : sel ∈ (((c.best u.pq).conversions s).entries).filterMap (fracCandOf c v u) := by
        rw [← ffc_candidates c v u _ _ hcands]; exact hsel
      obtain ⟨e0, _, he0⟩ := List.mem_filterMap.mp hmem
      obtain ⟨_, hen, nv, hnv, hap⟩ := ffc_candOf_spec he0
      have hval : sel.1.value = nv := approx_value hap
      have hap' : c.approx sel.1.value (c.fractionsConfig sel.2) = some sel.1 := by rw [hval]; exact hap
      have hes : ∀ e ∈ ((c.best u.pq).conversions s).entries, e.2 ∈ c.allUnits ∧ e.2.pq = u.pq :=
        fun e he => hc.best_mem _ _ _ (List.mem_map.mpr ⟨e, he, rfl⟩)
      have hagain := fid_candidates_via hc hu hb.1 hspec.2 _ hes hcands
      unfold fitFractionApply at h
      cases hs : sel.2.symbol? with
      | none => rw [hs] at h; cases h
      | some sym =>
        rw [hs] at h
        simp only at h
        cases hq : q.value with
        | text t => rw [hq] at h; cases h
        | number n =>
          rw [hq] at h
          simp only [Prod.mk.injEq, and_true] at h
          refine ⟨sel, sym, hspec.1, ⟨hs, hen, hap', Or.inl h.symm⟩, ?_⟩
          intro s' hL
          unfold fitFractionWith
          rw [hL, hagain]
          simp only [hm]
          unfold fitFractionApply
          rw [hs, ← h]
        | range a e =>
          rw [hq] at h
          simp only at h
          cases he : convertF64 e.value u sel.2 with
          | none => rw [he] at h; cases h
          | some e' =>
            rw [he] at h
            simp only [Prod.mk.injEq, and_true] at h
            have hfix := fid_approx_getD_again c e' (c.fractionsConfig sel.2)
            refine ⟨sel, sym, hspec.1, ⟨hs, hen, hap', Or.inr ⟨_, h.symm, hfix⟩⟩, ?_⟩
            intro s' hL
            unfold fitFractionWith
            rw [hL, hagain]
            simp only [hm]
            unfold fitFractionApply
            rw [hs, ← h]
            simp only [fid_convert_self, hfix]

/-- `try_fraction` run again on its own successful result returns it -/
theorem fid_tryFraction_again {c : Converter Rat} (q q' : SQuantity Rat)
    (h : tryFraction c q = (q', true)) : tryFraction c q' = (q', true) := by
  have hunit : q'.unit = q.unit := by
    have := tryFraction_unit c q
    rw [h] at this; exact this
  have hinfo := unitInfo_congr c hunit
  unfold tryFraction at h ⊢
  rw [hinfo]
  cases hu : unitInfo c q with
  | none => rw [hu] at h; cases h
  | some u =>
    rw [hu] at h
    simp only at h ⊢
    split at h
    · cases h
    · rename_i hen
      simp only [hen, if_false]
      cases hq : q.value with
      | text t => rw [hq] at h; cases h
      | number n =>
        rw [hq] at h
        simp only [Prod.mk.injEq] at h
        obtain ⟨h1, h2⟩ := h
        have hta : tryApprox c (tryApprox c n (c.fractionsConfig u)).1 (c.fractionsConfig u) =
            ((tryApprox c n (c.fractionsConfig u)).1, true) := by
          unfold tryApprox at h2 ⊢
          cases ha : c.approx n.value (c.fractionsConfig u) with
          | none => rw [ha] at h2; cases h2
          | some f => simp [approx_value ha, ha]
        rw [← h1]
        simp [hta]
      | range a e =>
        rw [hq] at h
        simp only at h
        split at h
        · rename_i hst
          simp only [Prod.mk.injEq, and_true] at h
          have hta : tryApprox c (tryApprox c a (c.fractionsConfig u)).1 (c.fractionsConfig u) =
              ((tryApprox c a (c.fractionsConfig u)).1, true) := by
            unfold tryApprox at hst ⊢
            cases ha : c.approx a.value (c.fractionsConfig u) with
            | none => rw [ha] at hst; cases hst
            | some f => simp [approx_value ha, ha]
          rw [← h]
          simp [hta]
        · rename_i hst
          simp only [Prod.mk.injEq] at h
          obtain ⟨h1, h2⟩ := h
          have hta : tryApprox c (tryApprox c e (c.fractionsConfig u)).1 (c.fractionsConfig u) =
              ((tryApprox c e (c.fractionsConfig u)).1, true) := by
            unfold tryApprox at h2 ⊢
            cases ha : c.approx e.value (c.fractionsConfig u) with
            | none => rw [ha] at h2; cases h2
            | some f => simp [approx_value ha, ha]
          rw [← h1]
          simp only [hst, hta]
          simp

/-- `try_fraction` on what a successful `fit_fraction` left, in the selected unit: the same again -/
theorem fid_tryFraction_sel {c : Converter Rat} (hc : c.Sound) {q' : SQuantity Rat} {sel : Number Rat × Unit Rat}
    {sym : Str} (hm : sel.2 ∈ c.allUnits) (hs : FidSel c q' sel sym) : tryFraction c q' = (q', true) := by
  have hinfo : unitInfo c q' = some sel.2 := by
    rcases hs.shape with h | ⟨e2, h, _⟩ <;>
      (rw [h]; exact unitInfo_symbol hc hm (by simp [hs.symbol]) rfl)
  have hta : tryApprox c sel.1 (c.fractionsConfig sel.2) = (sel.1, true) := by
    unfold tryApprox; rw [hs.approx]
  unfold tryFraction
  rw [hinfo]
  simp only [hs.enabled, Bool.not_true, Bool.false_eq_true, if_false]
  rcases hs.shape with h | ⟨e2, h, _⟩
  · rw [h]; simp only [hta]
  · rw [h]; simp only [hta, if_true]

/-- `fit` of what a successful `fit_fraction` (target system) left returns it unchanged -/
theorem fid_fit_after_with {c : Converter Rat} (hc : c.Sound) (hcoh : c.SystemsCoherent)
    (q q' : SQuantity Rat) (u : Unit Rat) (s : System) (v : Rat) (hum : u ∈ c.allUnits)
    (hw : fitFractionWith c q u s v = (q', .ok true)) : fit c q' = (q', .ok ()) := by
  obtain ⟨sel, sym, hin, hs, hagain⟩ := fid_fitFractionWith_again hc q q' u s v hum hw
  have hb := hc.best_mem _ _ _ hin
  have hinfo : unitInfo c q' = some sel.2 := by
    rcases hs.shape with h | ⟨e2, h, _⟩ <;>
      (rw [h]; exact unitInfo_symbol hc hb.1 (by simp [hs.symbol]) rfl)
  unfold fit
  simp only [hinfo, hs.enabled, if_true]
  have hff' : fitFraction c q' sel.2 sel.2.system = (q', .ok true) := by
    cases hbs : sel.2.system with
    | none =>
      unfold fitFraction
      simp only [fid_tryFraction_sel hc hb.1 hs]
    | some s' =>
      have hL : ((c.best sel.2.pq).conversions s').entries = ((c.best u.pq).conversions s).entries := by
        have := hcoh u.pq s sel.2 hin
        rw [hbs] at this
        rw [hb.2]; exact this
      have := hagain s' hL
      unfold fitFraction
      simp only
      rcases hs.shape with h | ⟨e2, h, _⟩
      · rw [h] at this ⊢; exact this
      · rw [h] at this ⊢; exact this
  simp only [hff']

/-- `fit_fraction` with a target system is `fitFractionWith` on the leading number -/
theorem fid_fitFraction_some {c : Converter Rat} {q q' : SQuantity Rat} {u : Unit Rat} {s : System} {bl : Bool}
    (h : fitFraction c q u (some s) = (q', .ok bl)) : ∃ v, fitFractionWith c q u s v = (q', .ok bl) := by
  unfold fitFraction at h
  simp only at h
  cases hq : q.value with
  | text t => rw [hq] at h; cases h
  | number n => rw [hq] at h; exact ⟨_, h⟩
  | range a e => rw [hq] at h; exact ⟨_, h⟩

/-- **`fit` is idempotent over ℚ when `fit_fraction` finds a fraction.**  A quantity in a known unit with fractions
    enabled for which `fit_fraction` answers `true` (a fraction was written): `fit` returns that quantity, and fitting it
    again returns it unchanged — same unit text, same numbers.  No sign condition; for a unit with a system the lists
    must not be mixed across systems (`SystemsCoherent`, decided for the shipped table). -/
theorem fid_fit_idempotent_fraction {c : Converter Rat} (hc : c.Sound) (hcoh : c.SystemsCoherent)
    (q q' : SQuantity Rat) (u : Unit Rat) (hu : unitInfo c q = some u)
    (hen : (c.fractionsConfig u).enabled = true)
    (hff : fitFraction c q u u.system = (q', .ok true)) :
    fit c q = (q', .ok ()) ∧ fit c q' = (q', .ok ()) := by
  have hum := unitInfo_mem hu
  constructor
  · unfold fit
    simp only [hu, hen, if_true, hff]
  · cases hsys : u.system with
    | none =>
      rw [hsys] at hff
      unfold fitFraction at hff
      simp only [Prod.mk.injEq, Except.ok.injEq] at hff
      have h1 : tryFraction c q = (q', true) := Prod.ext hff.1 hff.2
      have h2 := fid_tryFraction_again q q' h1
      have hunit : q'.unit = q.unit := by
        have := tryFraction_unit c q
        rw [h1] at this; exact this
      have hinfo : unitInfo c q' = some u := (unitInfo_congr c hunit).trans hu
      unfold fit
      simp only [hinfo, hen, if_true, hsys]
      unfold fitFraction
      simp only [h2]
    | some s =>
      rw [hsys] at hff
      obtain ⟨v, hw⟩ := fid_fitFraction_some hff
      exact fid_fit_after_with hc hcoh q q' u s v hum hw

/-! ### the general case for a unit with a system: no hypothesis on the fractions configuration -/

theorem fid_apply_not_false {c : Converter Rat} {q q' : SQuantity Rat} {u : Unit Rat} {sel : Number Rat × Unit Rat}
    (h : fitFractionApply c q u sel = (q', .ok false)) : False := by
  unfold fitFractionApply at h
  split at h
  · cases h
  · split at h
    · simp at h
    · split at h
      · cases h
      · simp at h
    · cases h

/-- a `fit_fraction` (target system) that answers `false` left the quantity alone -/
theorem fid_with_false {c : Converter Rat} {q q' : SQuantity Rat} {u : Unit Rat} {s : System} {v : Rat}
    (h : fitFractionWith c q u s v = (q', .ok false)) : q' = q := by
  unfold fitFractionWith at h
  split at h
  · cases h
  · split at h
    · simp only [Prod.mk.injEq, and_true] at h; exact h.symm
    · exact (fid_apply_not_false h).elim

/-- `fit_fraction` (target system) only reads the entries of the list -/
theorem fid_fitFraction_list {c : Converter Rat} (q : SQuantity Rat) (b : Unit Rat) (s s' : System)
    (hL : (c.best b.pq).conversions s' = (c.best b.pq).conversions s) :
    fitFraction c q b (some s') = fitFraction c q b (some s) := by
  unfold fitFraction
  simp only
  cases q.value <;> simp only [fitFractionWith, hL]

/-- a successful `convert(SameSystem)` of a quantity in a unit with a system, read backwards -/
theorem fid_convertImpl_same_inv {c : Converter Rat} (q q' : SQuantity Rat) (u : Unit Rat) (s : System)
    (hu : unitInfo c q = some u) (hsys : u.system = some s)
    (h : convertImpl c q .sameSystem = (q', .ok ())) :
    ∃ value v' b0 sym0 bl, ConvertValue.ofValue q.value = .ok value ∧
      c.convertToBest value u s = .ok (v', b0) ∧ b0.symbol? = some sym0 ∧
      fitFraction c ⟨v'.toValue, some sym0⟩ b0 (some s) = (q', .ok bl) := by
  obtain ⟨k, hk, hf⟩ := unitInfo_some hu
  unfold convertImpl at h
  simp only [hk, hf] at h
  cases hval : ConvertValue.ofValue q.value with
  | error e => rw [hval] at h; cases h
  | ok value =>
    rw [hval] at h
    simp only at h
    cases hcv : c.convert value (.unit u) .sameSystem with
    | error e => rw [hcv] at h; cases h
    | ok r =>
      rw [hcv] at h
      simp only at h
      cases hsym : r.2.symbol? with
      | none => rw [hsym] at h; cases h
      | some sym0 =>
        rw [hsym, hsys] at h
        simp only at h
        have hcb : c.convertToBest value u s = .ok (r.1, r.2) :=
          bu_convert_inv (to := .sameSystem) (by simp [ConvertTo.systemFor, hsys]) hcv
        cases hR : fitFraction c ⟨r.1.toValue, some sym0⟩ r.2 (some s) with
        | mk p e =>
          rw [hR] at h
          cases e with
          | error e => cases h
          | ok bl =>
            simp only [dropBool, Prod.mk.injEq, and_true] at h
            exact ⟨value, r.1, r.2, sym0, bl, rfl, hcb, hsym, by rw [← h]; exact hR⟩

/-- `convert(SameSystem)` of a quantity that already sits in the unit `best_unit` picks for it -/
theorem fid_convertImpl_same_of {c : Converter Rat} (hc : c.Sound) (b : Unit Rat) (s' : System)
    (v' : ConvertValue Rat) (sym : Str) (hb : b ∈ c.allUnits) (hsym : b.symbol? = some sym)
    (hbs : b.system = some s') (hconv : c.convertToBest v' b s' = .ok (v', b)) :
    convertImpl c ⟨v'.toValue, some sym⟩ .sameSystem =
      dropBool (fitFraction c ⟨v'.toValue, some sym⟩ b (some s')) := by
  have hf : c.findUnit sym = some b := hc.find_symbol hb hsym
  have hcv : c.convert v' (.unit b) .sameSystem = .ok (v', b) :=
    bu_convert_of (to := .sameSystem) (by simp [ConvertTo.systemFor, hbs]) hconv
  unfold convertImpl
  simp only [hf, fc_ofValue_toValue, hcv, hsym, hbs]

theorem fid_convertToBest_self {c : Converter Rat} {v' : ConvertValue Rat} {b : Unit Rat} {s : System}
    (h : ((c.best b.pq).conversions s).bestUnit v' b = .ok (some b)) :
    c.convertToBest v' b s = .ok (v', b) := by
  unfold Converter.convertToBest
  rw [h]
  simp only [bu_convertValue_self]

/-- **`fit` is idempotent over ℚ for every unit that has a system, whatever the fractions configuration.**
    `hlist`: the units of the system's list have a system themselves (with `SystemsCoherent`: the list's own);
    `hpick`: when the result is the plainly converted value, `best_unit`, asked again about it in the unit it picked,
    picks that unit again
    (`fid_pick_*` below: non-negative leading numbers; or offset-free units of positive ratio; or a one-entry list). -/
theorem fid_fit_idempotent {c : Converter Rat} (hc : c.Sound) (hcoh : c.SystemsCoherent)
    (q q' : SQuantity Rat) (u : Unit Rat) (s : System) (hu : unitInfo c q = some u) (hsys : u.system = some s)
    (hlist : ∀ x ∈ ((c.best u.pq).conversions s).unitsOf, x.system ≠ none)
    (hpick : ∀ value v' b0, ConvertValue.ofValue q.value = .ok value →
      c.convertToBest value u s = .ok (v', b0) → q'.value = v'.toValue →
      ((c.best u.pq).conversions s).bestUnit v' b0 = .ok (some b0))
    (h : fit c q = (q', .ok ())) : fit c q' = (q', .ok ()) := by
  have hum := unitInfo_mem hu
  -- either `fit_fraction` wrote a fraction, or the result is that of `convert(SameSystem)`
  have hcases : (∃ v, fitFractionWith c q u s v = (q', .ok true)) ∨
      convertImpl c q .sameSystem = (q', .ok ()) := by
    unfold fit at h
    simp only [hu] at h
    split at h
    · rw [hsys] at h
      cases hR : fitFraction c q u (some s) with
      | mk p e =>
        rw [hR] at h
        cases e with
        | error e => cases h
        | ok bl =>
          obtain ⟨v, hw⟩ := fid_fitFraction_some hR
          cases bl with
          | true =>
            simp only [Prod.mk.injEq, and_true] at h
            left; exact ⟨v, by rw [← h]; exact hw⟩
          | false =>
            simp only at h
            have := fid_with_false hw
            right; rw [← this]; exact h
    · right; exact h
  rcases hcases with ⟨v, hw⟩ | hci
  · exact fid_fit_after_with hc hcoh q q' u s v hum hw
  · obtain ⟨value, v', b0, sym0, bl, hval, hcb, hsym0, hR⟩ := fid_convertImpl_same_inv q q' u s hu hsys hci
    have hs := convertToBest_spec hc hum hcb
    -- hs.1 : b0 ∈ list, hs.2.1 : b0 ∈ allUnits, hs.2.2.1 : b0.pq = u.pq
    cases bl with
    | true =>
      obtain ⟨v, hw⟩ := fid_fitFraction_some hR
      exact fid_fit_after_with hc hcoh _ q' b0 s v hs.2.1 hw
    | false =>
      obtain ⟨v, hw⟩ := fid_fitFraction_some hR
      have hq' : q' = ⟨v'.toValue, some sym0⟩ := fid_with_false hw
      obtain ⟨s', hbs⟩ := Option.ne_none_iff_exists'.mp (hlist b0 hs.1)
      have hL : (c.best b0.pq).conversions s' = (c.best b0.pq).conversions s := by
        apply fc_bc_ext
        have := hcoh u.pq s b0 hs.1
        rw [hbs] at this
        rw [hs.2.2.1]; exact this
      have hR' : fitFraction c q' b0 (some s') = (q', .ok false) := by
        rw [fid_fitFraction_list _ _ _ _ hL, hq']
        rw [hq'] at hR; exact hR
      have hpk := hpick value v' b0 hval hcb (by rw [hq'])
      have hconv : c.convertToBest v' b0 s' = .ok (v', b0) := by
        apply fid_convertToBest_self
        rw [hL, hs.2.2.1]; exact hpk
      have hci' : convertImpl c q' .sameSystem = (q', .ok ()) := by
        rw [hq', fid_convertImpl_same_of hc b0 s' v' sym0 hs.2.1 hsym0 hbs hconv, ← hq', hR']
        rfl
      have hinfo : unitInfo c q' = some b0 := by
        rw [hq']; exact unitInfo_symbol hc hs.2.1 (by simp [hsym0]) rfl
      unfold fit
      simp only [hinfo, hbs, hR']
      split
      · exact hci'
      · exact hci'

/-! ### when `best_unit` picks its own pick again -/

/-- non-negative leading numbers (every quantity of a recipe but a negative temperature) -/
theorem fid_pick_nonneg {c : Converter Rat} (hc : c.Sound) {u : Unit Rat} (hu : u ∈ c.allUnits) (s : System)
    {value v' : ConvertValue Rat} {b0 : Unit Rat} (h : c.convertToBest value u s = .ok (v', b0))
    (h0 : 0 ≤ value.lead) (h0' : 0 ≤ v'.lead) :
    ((c.best u.pq).conversions s).bestUnit v' b0 = .ok (some b0) := by
  obtain ⟨hbest, hv⟩ := bu_convertToBest_inv h
  have hbm := hc.best_mem _ _ _ (bestUnit_mem hbest)
  have hlead := bu_convertValue_lead hv
  have hamt := convertF64_some_amount hlead (hc.ratio_ne _ hbm.1) (hc.id_inj _ _ hu hbm.1)
  have := bu_idempotent hc hu s (value' := v') hbest
    (by rw [Rat.abs_of_nonneg h0, Rat.abs_of_nonneg h0']; exact hamt)
  rw [hbm.2] at this; exact this

theorem fid_abs_amount {v v' : Rat} {u b : Unit Rat} (hu0 : u.difference = 0) (hb0 : b.difference = 0)
    (hur : 0 < u.ratio) (hbr : 0 < b.ratio) (h : amount v' b = amount v u) :
    amount (Rat.abs v') b = amount (Rat.abs v) u := by
  rw [amount_rat, amount_rat, hu0, hb0] at *
  simp only [← rat_abs_eq]
  by_cases h1 : 0 ≤ v' <;> by_cases h2 : 0 ≤ v <;> simp only [h1, h2, if_true, if_false]
  · exact h
  · exfalso
    have a1 : 0 ≤ v' * b.ratio := Rat.mul_nonneg h1 (Rat.le_of_lt hbr)
    have a2 : 0 < (-v) * u.ratio := Rat.mul_pos (by grind) hur
    grind
  · exfalso
    have a1 : 0 ≤ v * u.ratio := Rat.mul_nonneg h2 (Rat.le_of_lt hur)
    have a2 : 0 < (-v') * b.ratio := Rat.mul_pos (by grind) hbr
    grind
  · grind

/-- any sign, when neither unit has an additive offset and both ratios are positive (everything but temperatures) -/
theorem fid_pick_offset_free {c : Converter Rat} (hc : c.Sound) {u : Unit Rat} (hu : u ∈ c.allUnits) (s : System)
    {value v' : ConvertValue Rat} {b0 : Unit Rat} (h : c.convertToBest value u s = .ok (v', b0))
    (hu0 : u.difference = 0) (hb0 : b0.difference = 0) (hur : 0 < u.ratio) (hbr : 0 < b0.ratio) :
    ((c.best u.pq).conversions s).bestUnit v' b0 = .ok (some b0) := by
  obtain ⟨hbest, hv⟩ := bu_convertToBest_inv h
  have hbm := hc.best_mem _ _ _ (bestUnit_mem hbest)
  have hlead := bu_convertValue_lead hv
  have hamt := convertF64_some_amount hlead (hc.ratio_ne _ hbm.1) (hc.id_inj _ _ hu hbm.1)
  have := bu_idempotent hc hu s (value' := v') hbest (fid_abs_amount hu0 hb0 hur hbr hamt)
  rw [hbm.2] at this; exact this

/-- any sign and any offset, when the list has a single entry (the shipped temperature lists: °C alone, °F alone):
    there is nothing to choose -/
theorem fid_pick_single {c : Converter Rat} (hc : c.Sound) {u : Unit Rat} (hu : u ∈ c.allUnits) (s : System)
    {value v' : ConvertValue Rat} {b0 : Unit Rat} (h : c.convertToBest value u s = .ok (v', b0))
    (hone : ((c.best u.pq).conversions s).entries.length = 1) :
    ((c.best u.pq).conversions s).bestUnit v' b0 = .ok (some b0) := by
  obtain ⟨hbest, hv⟩ := bu_convertToBest_inv h
  obtain ⟨base, rest, norm, he, hn, hb⟩ := bu_bestUnit_some hbest
  have hrest : rest = [] := by
    rw [he] at hone
    simp only [List.length_cons, Nat.add_eq_right, List.length_eq_zero_iff] at hone
    exact hone
  subst hrest
  have hpick : ∀ n, buPick [base] base n = base.2 := by
    intro n
    unfold buPick
    simp only [List.reverse_cons, List.reverse_nil, List.nil_append, List.find?_cons, List.find?_nil]
    split <;> rename_i hx
    · split at hx
      · cases hx; rfl
      · cases hx
    · rfl
  have hb0 : b0 = base.2 := by rw [hb, he, hpick]
  have hbm := hc.best_mem _ _ _ (bestUnit_mem hbest)
  cases hn' : convertF64 (Rat.abs v'.lead) b0 base.2 with
  | none => exact absurd hn' (convertF64_ne_none _ _ _ (by rw [hb0]))
  | some n' =>
    rw [bu_bestUnit_of he hn', he, hpick, hb0]

/-! ### fractions disabled on the way (units without a system in the shipped file), any rule for the pick -/

/-- `fc_fit_idempotent` with the sign condition replaced by the condition it is used for -/
theorem fid_fit_off_idempotent_of {c : Converter Rat} (hc : c.Sound) (hcoh : c.SystemsCoherent)
    (q q' : SQuantity Rat) (u : Unit Rat) (hu : unitInfo c q = some u)
    (hoff : FractionsOffFor c u (u.system.getD c.defaultSystem))
    (hpick : ∀ value v' b0, ConvertValue.ofValue q.value = .ok value →
      c.convertToBest value u (u.system.getD c.defaultSystem) = .ok (v', b0) → q'.value = v'.toValue →
      ((c.best u.pq).conversions (u.system.getD c.defaultSystem)).bestUnit v' b0 = .ok (some b0))
    (h : fit c q = (q', .ok ())) : fit c q' = (q', .ok ()) := by
  obtain ⟨value, v', b, hval, hconv, rfl⟩ := fc_fit_off_inv hc q _ u hu hoff h
  have hum := unitInfo_mem hu
  have hs := convertToBest_spec hc hum hconv
  obtain ⟨sym, hsym⟩ := Option.isSome_iff_exists.mp (hc.symbol b hs.2.1)
  have hq1 : unitInfo c ⟨v'.toValue, b.symbol?⟩ = some b :=
    unitInfo_symbol hc hs.2.1 rfl (by simp [hsym])
  have hlist : (c.best b.pq).conversions (b.system.getD c.defaultSystem) =
      (c.best u.pq).conversions (u.system.getD c.defaultSystem) := by
    rw [hs.2.2.1]
    exact fc_bc_ext (hcoh _ _ b hs.1)
  have hpk := hpick value v' b hval hconv rfl
  have hconv' : c.convertToBest v' b (b.system.getD c.defaultSystem) = .ok (v', b) := by
    apply fid_convertToBest_self
    rw [hlist]; exact hpk
  have hoff' : FractionsOffFor c b (b.system.getD c.defaultSystem) := by
    refine ⟨hoff.2 b hs.1, ?_⟩
    rw [hlist]; exact hoff.2
  exact fc_fit_off hc _ b hq1 (fc_ofValue_toValue v') hconv' hoff'

/-! ### a decidable condition under which `fit` is idempotent for EVERY quantity -/

/-- for every unit `u`, with `L` the best list `fit` uses for it (its own system's, the default system's for a unit
    of none): (pick) `u` and all of `L` are offset-free, or `L` has one entry; and (fractions) if `u` has a system every
    unit of `L` has one, if it has none fractions are disabled for `u` and for `L` -/
def fitIdemB (c : Converter Rat) : Bool :=
  c.allUnits.all (fun u =>
    ((decide (u.difference = 0) &&
        ((c.best u.pq).conversions (u.system.getD c.defaultSystem)).unitsOf.all (fun x => decide (x.difference = 0))) ||
      decide (((c.best u.pq).conversions (u.system.getD c.defaultSystem)).entries.length = 1)) &&
    (match u.system with
     | some _ => ((c.best u.pq).conversions (u.system.getD c.defaultSystem)).unitsOf.all (fun x => x.system.isSome)
     | none => decide (FractionsOffFor c u (u.system.getD c.defaultSystem))))

/-- **`fit` is idempotent over ℚ for every quantity** — any value kind, any sign, any unit text — of a sound converter
    with positive ratios that satisfies `fitIdemB` (decided for the shipped converter). -/
theorem fid_fit_idempotent_all {c : Converter Rat} (hc : c.Sound) (hcoh : c.SystemsCoherent) (hpos : c.PosRatios)
    (hB : fitIdemB c = true) (q q' : SQuantity Rat) (h : fit c q = (q', .ok ())) :
    fit c q' = (q', .ok ()) := by
  cases hu : unitInfo c q with
  | none =>
    have : fit c q = (q, .ok ()) := by unfold fit; simp only [hu]
    rw [this] at h
    simp only [Prod.mk.injEq, and_true] at h
    rw [← h]; exact this
  | some u =>
    have hum := unitInfo_mem hu
    have hBu := (List.all_eq_true.mp hB) u hum
    simp only [Bool.and_eq_true, Bool.or_eq_true, decide_eq_true_eq, List.all_eq_true] at hBu
    obtain ⟨hpk, hfr⟩ := hBu
    have hpick : ∀ value v' b0, ConvertValue.ofValue q.value = .ok value →
        c.convertToBest value u (u.system.getD c.defaultSystem) = .ok (v', b0) → q'.value = v'.toValue →
        ((c.best u.pq).conversions (u.system.getD c.defaultSystem)).bestUnit v' b0 = .ok (some b0) := by
      intro value v' b0 _ hconv _
      have hs := convertToBest_spec hc hum hconv
      rcases hpk with ⟨hu0, hall⟩ | hone
      · exact fid_pick_offset_free hc hum _ hconv hu0 (hall b0 hs.1) (hpos u hum) (hpos b0 hs.2.1)
      · exact fid_pick_single hc hum _ hconv hone
    cases hsys : u.system with
    | none =>
      have hfr' : FractionsOffFor c u (u.system.getD c.defaultSystem) := by
        rw [hsys] at hfr ⊢
        simpa using hfr
      exact fid_fit_off_idempotent_of hc hcoh q q' u hu hfr' hpick h
    | some s =>
      rw [hsys] at hfr hpick
      simp only [Option.getD_some, List.all_eq_true] at hfr hpick
      refine fid_fit_idempotent hc hcoh q q' u s hu hsys ?_ hpick h
      intro x hx hn
      have := hfr x hx
      rw [hn] at this; cases this

end Cook
