import CookModel.Lemmas.FitChoice
/-
  `ScaledQuantity::fit` (src/convert/mod.rs:505) is idempotent over ℚ also when fractions are ENABLED and `fit_fraction`
  finds a fraction (wave `w6numeric`; the disabled case is Lemmas/FitChoice.lean).  The second call starts from the
  selected unit with the selected number; over ℚ a `new_approx` result has exactly the value it approximates
  (`approx_value`) and conversions compose exactly, so it sees the same candidates and selects the same one.
  Prefix `fid_`.
-/
namespace Cook
open Arith

/-- converting on from an intermediate unit is converting from the original one (exact over ℚ) -/
theorem fid_convert_via {v nv : Rat} {u b e : Unit Rat} (h : convertF64 v u b = some nv)
    (hb : b.ratio ≠ 0) (he : e.ratio ≠ 0) (hub : u.id = b.id → u = b) (hbe : b.id = e.id → b = e)
    (hue : u.id = e.id → u = e) (hpq : e.pq = u.pq) :
    convertF64 nv b e = convertF64 v u e := by
  have hpq1 := convertF64_some_pq h hub
  obtain ⟨w1, h1, a1⟩ := convertF64_amount nv b e (by rw [← hpq1, hpq]) he hbe
  obtain ⟨w2, h2, a2⟩ := convertF64_amount v u e hpq.symm he hue
  have h3 := convertF64_some_amount h hb hub
  rw [h1, h2, amount_inj he (a1.trans (h3.trans a2.symm))]

theorem fid_filterMap_congr {α β : Type} (f g : α → Option β) :
    ∀ l : List α, (∀ x ∈ l, f x = g x) → l.filterMap f = l.filterMap g
  | [], _ => rfl
  | x :: xs, h => by
    simp only [List.filterMap_cons, h x (by simp)]
    rw [fid_filterMap_congr f g xs (fun y hy => h y (by simp [hy]))]

theorem fid_candOf_via {c : Converter Rat} (hc : c.Sound) {v nv : Rat} {u b : Unit Rat} (hu : u ∈ c.allUnits)
    (hbm : b ∈ c.allUnits) (h : convertF64 v u b = some nv) (e : Rat × Unit Rat) (hem : e.2 ∈ c.allUnits)
    (hpq : e.2.pq = u.pq) :
    fracCandOf c nv b e = fracCandOf c v u e := by
  unfold fracCandOf
  rw [fid_convert_via h (hc.ratio_ne _ hbm) (hc.ratio_ne _ hem) (hc.id_inj _ _ hu hbm) (hc.id_inj _ _ hbm hem)
    (hc.id_inj _ _ hu hem) hpq]

/-- the candidates seen from the intermediate unit are the candidates seen from the original unit -/
theorem fid_candidates_via {c : Converter Rat} (hc : c.Sound) {v nv : Rat} {u b : Unit Rat} (hu : u ∈ c.allUnits)
    (hbm : b ∈ c.allUnits) (h : convertF64 v u b = some nv) (es : List (Rat × Unit Rat))
    (hes : ∀ e ∈ es, e.2 ∈ c.allUnits ∧ e.2.pq = u.pq) {cands : List (Number Rat × Unit Rat)}
    (hcands : fracCandidates c v u es = .ok cands) :
    fracCandidates c nv b es = .ok cands := by
  have hpqb : u.pq = b.pq := convertF64_some_pq h (hc.id_inj _ _ hu hbm)
  obtain ⟨cands', hc'⟩ := fracCandidates_ok c nv b es (fun e he => by rw [(hes e he).2, hpqb])
  rw [hc', ffc_candidates _ _ _ _ _ hc', ffc_candidates _ _ _ _ _ hcands]
  congr 1
  apply fid_filterMap_congr
  intro e he
  exact fid_candOf_via hc hu hbm h e (hes e he).1 (hes e he).2

theorem fid_convert_self (v : Rat) (b : Unit Rat) : convertF64 v b b = some v := by
  simp [convertF64]

/-- what a second approximation of an already approximated range end gives: the same -/
theorem fid_approx_getD_again (c : Converter Rat) (e' : Rat) (cfg : FracCfg Rat) :
    (c.approx ((c.approx e' cfg).getD (.regular e')).value cfg).getD
      (.regular ((c.approx e' cfg).getD (.regular e')).value) = (c.approx e' cfg).getD (.regular e') := by
  cases ha : c.approx e' cfg with
  | none => simp [Number.value, ha]
  | some f => simp [approx_value ha, ha]

/-- the shape of what a successful `fit_fraction` (target system) leaves: the selected candidate's number (and, for a
    range, the end approximated or plain in the selected unit) under the selected unit's symbol -/
structure FidSel (c : Converter Rat) (q' : SQuantity Rat) (sel : Number Rat × Unit Rat) (sym : Str) : Prop where
  symbol : sel.2.symbol? = some sym
  enabled : (c.fractionsConfig sel.2).enabled = true
  approx : c.approx sel.1.value (c.fractionsConfig sel.2) = some sel.1
  shape : q' = ⟨.number sel.1, some sym⟩ ∨
    ∃ e2, q' = ⟨.range sel.1 e2, some sym⟩ ∧
      (c.approx e2.value (c.fractionsConfig sel.2)).getD (.regular e2.value) = e2

/-- **`fit_fraction` with a target system, run again from its own result, returns it** — whatever list `L'` the second
    call uses, provided it has the entries of the first one (`SystemsCoherent` gives that for the selected unit's own
    system). -/
theorem fid_fitFractionWith_again {c : Converter Rat} (hc : c.Sound) (q q' : SQuantity Rat) (u : Unit Rat)
    (s : System) (v : Rat) (hu : u ∈ c.allUnits)
    (h : fitFractionWith c q u s v = (q', .ok true)) :
    ∃ sel sym, sel.2 ∈ ((c.best u.pq).conversions s).unitsOf ∧ FidSel c q' sel sym ∧
      ∀ s', ((c.best sel.2.pq).conversions s').entries = ((c.best u.pq).conversions s).entries →
        fitFractionWith c q' sel.2 s' sel.1.value = (q', .ok true) := by
  unfold fitFractionWith at h
  cases hcands : fracCandidates c v u ((c.best u.pq).conversions s).entries with
  | error e => rw [hcands] at h; cases h
  | ok cands =>
    rw [hcands] at h
    simp only at h
    cases hm : minByKey cands with
    | none => rw [hm] at h; cases h
    | some sel =>
      rw [hm] at h
      simp only at h
      have hsel := minByKey_mem hm
      have hspec := fracCandidates_spec c v u _ _ hcands sel hsel
      have hb := hc.best_mem _ _ _ hspec.1
      have hmem : sel ∈ (((c.best u.pq).conversions s).entries).filterMap (fracCandOf c v u) := by
        rw [← ffc_candidates c v u _ _ hcands]; exact hsel
      obtain ⟨e0, _, he0⟩ := List.mem_filterMap.mp hmem
      obtain ⟨_, hen, nv, hnv, hap⟩ := ffc_candOf_spec he0
      have hval : sel.1.value = nv := approx_value hap
      have hap' : c.approx sel.1.value (c.fractionsConfig sel.2) = some sel.1 := by rw [hval]; exact hap
      have hes : ∀ e ∈ ((c.best u.pq).conversions s).entries, e.2 ∈ c.allUnits ∧ e.2.pq = u.pq :=
        fun e he => hc.best_mem _ _ _ (List.mem_map.mpr ⟨e, he, rfl⟩)
      have hagain := fid_candidates_via hc hu hb.1 hspec.2 _ hes hcands
      unfold fitFractionApply at h
      cases hs : sel.2.symbol? with
      | none => rw [hs] at h; cases h
      | some sym =>
        rw [hs] at h
        simp only at h
        cases hq : q.value with
        | text t => rw [hq] at h; cases h
        | number n =>
          rw [hq] at h
          simp only [Prod.mk.injEq, and_true] at h
          refine ⟨sel, sym, hspec.1, ⟨hs, hen, hap', Or.inl h.symm⟩, ?_⟩
          intro s' hL
          unfold fitFractionWith
          rw [hL, hagain]
          simp only [hm]
          unfold fitFractionApply
          rw [hs, ← h]
        | range a e =>
          rw [hq] at h
          simp only at h
          cases he : convertF64 e.value u sel.2 with
          | none => rw [he] at h; cases h
          | some e' =>
            rw [he] at h
            simp only [Prod.mk.injEq, and_true] at h
            have hfix := fid_approx_getD_again c e' (c.fractionsConfig sel.2)
            refine ⟨sel, sym, hspec.1, ⟨hs, hen, hap', Or.inr ⟨_, h.symm, hfix⟩⟩, ?_⟩
            intro s' hL
            unfold fitFractionWith
            rw [hL, hagain]
            simp only [hm]
            unfold fitFractionApply
            rw [hs, ← h]
            simp only [fid_convert_self, hfix]

/-- `try_fraction` run again on its own successful result returns it -/
theorem fid_tryFraction_again {c : Converter Rat} (q q' : SQuantity Rat)
    (h : tryFraction c q = (q', true)) : tryFraction c q' = (q', true) := by
  have hunit : q'.unit = q.unit := by
    have := tryFraction_unit c q
    rw [h] at this; exact this
  have hinfo := unitInfo_congr c hunit
  unfold tryFraction at h ⊢
  rw [hinfo]
  cases hu : unitInfo c q with
  | none => rw [hu] at h; cases h
  | some u =>
    rw [hu] at h
    simp only at h ⊢
    split at h
    · cases h
    · rename_i hen
      simp only [hen, if_false]
      cases hq : q.value with
      | text t => rw [hq] at h; cases h
      | number n =>
        rw [hq] at h
        simp only [Prod.mk.injEq] at h
        obtain ⟨h1, h2⟩ := h
        have hta : tryApprox c (tryApprox c n (c.fractionsConfig u)).1 (c.fractionsConfig u) =
            ((tryApprox c n (c.fractionsConfig u)).1, true) := by
          unfold tryApprox at h2 ⊢
          cases ha : c.approx n.value (c.fractionsConfig u) with
          | none => rw [ha] at h2; cases h2
          | some f => simp [approx_value ha, ha]
        rw [← h1]
        simp [hta]
      | range a e =>
        rw [hq] at h
        simp only at h
        split at h
        · rename_i hst
          simp only [Prod.mk.injEq, and_true] at h
          have hta : tryApprox c (tryApprox c a (c.fractionsConfig u)).1 (c.fractionsConfig u) =
              ((tryApprox c a (c.fractionsConfig u)).1, true) := by
            unfold tryApprox at hst ⊢
            cases ha : c.approx a.value (c.fractionsConfig u) with
            | none => rw [ha] at hst; cases hst
            | some f => simp [approx_value ha, ha]
          rw [← h]
          simp [hta]
        · rename_i hst
          simp only [Prod.mk.injEq] at h
          obtain ⟨h1, h2⟩ := h
          have hta : tryApprox c (tryApprox c e (c.fractionsConfig u)).1 (c.fractionsConfig u) =
              ((tryApprox c e (c.fractionsConfig u)).1, true) := by
            unfold tryApprox at h2 ⊢
            cases ha : c.approx e.value (c.fractionsConfig u) with
            | none => rw [ha] at h2; cases h2
            | some f => simp [approx_value ha, ha]
          rw [← h1]
          simp only [hst, hta]
          simp

/-- `try_fraction` on what a successful `fit_fraction` left, in the selected unit: the same again -/
theorem fid_tryFraction_sel {c : Converter Rat} (hc : c.Sound) {q' : SQuantity Rat} {sel : Number Rat × Unit Rat}
    {sym : Str} (hm : sel.2 ∈ c.allUnits) (hs : FidSel c q' sel sym) : tryFraction c q' = (q', true) := by
  have hinfo : unitInfo c q' = some sel.2 := by
    rcases hs.shape with h | ⟨e2, h, _⟩ <;>
      (rw [h]; exact unitInfo_symbol hc hm (by simp [hs.symbol]) rfl)
  have hta : tryApprox c sel.1 (c.fractionsConfig sel.2) = (sel.1, true) := by
    unfold tryApprox; rw [hs.approx]
  unfold tryFraction
  rw [hinfo]
  simp only [hs.enabled, Bool.not_true, Bool.false_eq_true, if_false]
  rcases hs.shape with h | ⟨e2, h, _⟩
  · rw [h]; simp only [hta]
  · rw [h]; simp only [hta, if_true]

/-- **`fit` is idempotent over ℚ when `fit_fraction` finds a fraction.**  A quantity in a known unit with fractions
    enabled for which `fit_fraction` answers `true` (a fraction was written): `fit` returns that quantity, and fitting it
    again returns it unchanged — same unit text, same numbers.  No sign condition; for a unit with a system the lists
    must not be mixed across systems (`SystemsCoherent`, decided for the shipped table). -/
theorem fid_fit_idempotent_fraction {c : Converter Rat} (hc : c.Sound) (hcoh : c.SystemsCoherent)
    (q q' : SQuantity Rat) (u : Unit Rat) (hu : unitInfo c q = some u)
    (hen : (c.fractionsConfig u).enabled = true)
    (hff : fitFraction c q u u.system = (q', .ok true)) :
    fit c q = (q', .ok ()) ∧ fit c q' = (q', .ok ()) := by
  have hum := unitInfo_mem hu
  constructor
  · unfold fit
    simp only [hu, hen, if_true, hff]
  · cases hsys : u.system with
    | none =>
      rw [hsys] at hff
      unfold fitFraction at hff
      simp only [Prod.mk.injEq, Except.ok.injEq] at hff
      have h1 : tryFraction c q = (q', true) := Prod.ext hff.1 hff.2
      have h2 := fid_tryFraction_again q q' h1
      have hunit : q'.unit = q.unit := by
        have := tryFraction_unit c q
        rw [h1] at this; exact this
      have hinfo : unitInfo c q' = some u := (unitInfo_congr c hunit).trans hu
      unfold fit
      simp only [hinfo, hen, if_true, hsys]
      unfold fitFraction
      simp only [h2]
    | some s =>
      rw [hsys] at hff
      have hw : ∃ v, fitFractionWith c q u s v = (q', .ok true) := by
        unfold fitFraction at hff
        simp only at hff
        cases hq : q.value with
        | text t => rw [hq] at hff; cases hff
        | number n => rw [hq] at hff; exact ⟨_, hff⟩
        | range a e => rw [hq] at hff; exact ⟨_, hff⟩
      obtain ⟨v, hw⟩ := hw
      obtain ⟨sel, sym, hin, hs, hagain⟩ := fid_fitFractionWith_again hc q q' u s v hum hw
      have hb := hc.best_mem _ _ _ hin
      have hinfo : unitInfo c q' = some sel.2 := by
        rcases hs.shape with h | ⟨e2, h, _⟩ <;>
          (rw [h]; exact unitInfo_symbol hc hb.1 (by simp [hs.symbol]) rfl)
      unfold fit
      simp only [hinfo, hs.enabled, if_true]
      have hff' : fitFraction c q' sel.2 sel.2.system = (q', .ok true) := by
        cases hbs : sel.2.system with
        | none =>
          unfold fitFraction
          simp only [fid_tryFraction_sel hc hb.1 hs]
        | some s' =>
          have hL : ((c.best sel.2.pq).conversions s').entries = ((c.best u.pq).conversions s).entries := by
            have := hcoh u.pq s sel.2 hin
            rw [hbs] at this
            rw [hb.2]; exact this
          have := hagain s' hL
          unfold fitFraction
          simp only
          rcases hs.shape with h | ⟨e2, h, _⟩
          · rw [h] at this ⊢; exact this
          · rw [h] at this ⊢; exact this
      simp only [hff']

end Cook
