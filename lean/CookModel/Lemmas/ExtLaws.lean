import CookModel.Lemmas.ParserWp
/-
  Extension-independence layer for the block parser monad (property C02).

  `Ind m s`  : running `m` from `s` gives the same result, events, cursor and panic flag whatever
               the extension set of the state is (the extension set itself is carried along), and
               `m` hands back the token list it was given.
  `IndA m`   : `Ind m s` for every state: `m` never looks at the extension set in a way that
               matters.  Closed under `bind`, `if`, `match`; the tactic `ind_auto` decomposes a
               `do` block along its structure.
  The gated parsers are `Ind` under a syntactic premise on the tokens they work on (second half).
-/
set_option linter.unusedSectionVars false
set_option linter.unusedSimpArgs false
set_option linter.unusedVariables false
namespace Cook

variable {α : Type} [Arith α]

/-- the same parser state under another extension set -/
def BP.withExt (s : BP α) (e : Ext) : BP α := { s with ext := e }

@[simp] theorem BP.withExt_toks (s : BP α) (e : Ext) : (s.withExt e).toks = s.toks := rfl
@[simp] theorem BP.withExt_cur (s : BP α) (e : Ext) : (s.withExt e).cur = s.cur := rfl
@[simp] theorem BP.withExt_cs (s : BP α) (e : Ext) : (s.withExt e).cs = s.cs := rfl
@[simp] theorem BP.withExt_evs (s : BP α) (e : Ext) : (s.withExt e).evs = s.evs := rfl
@[simp] theorem BP.withExt_panic (s : BP α) (e : Ext) : (s.withExt e).panic = s.panic := rfl
@[simp] theorem BP.withExt_ext (s : BP α) (e : Ext) : (s.withExt e).ext = e := rfl
@[simp] theorem BP.withExt_withExt (s : BP α) (e e' : Ext) : (s.withExt e).withExt e' = s.withExt e' := rfl
@[simp] theorem BP.withExt_self (s : BP α) : s.withExt s.ext = s := rfl

/-- `m`, run from `s`, does not depend on the extension set, and keeps the token list -/
structure Ind {β : Type} (m : P α β) (s : BP α) : Prop where
  ext : ∀ e, m (s.withExt e) = ((m s).1, (m s).2.withExt e)
  toks : (m s).2.toks = s.toks
  cs : (m s).2.cs = s.cs

/-- `m` does not depend on the extension set from any state -/
structure IndA {β : Type} (m : P α β) : Prop where
  all : ∀ s, Ind m s

section rules
variable {β γ : Type}

theorem P_bind_run (m : P α β) (k : β → P α γ) (s : BP α) : (m >>= k) s = k (m s).1 (m s).2 := rfl

theorem Ind.pure (a : β) (s : BP α) : Ind (Pure.pure a : P α β) s := ⟨fun _ => rfl, rfl, rfl⟩

theorem Ind.bind {m : P α β} {k : β → P α γ} {s : BP α} (hm : Ind m s)
    (hk : Ind (k (m s).1) (m s).2) : Ind (m >>= k) s := by
  constructor
  · intro e
    rw [P_bind_run, hm.ext e, P_bind_run]
    exact hk.ext e
  · rw [P_bind_run, hk.toks, hm.toks]
  · rw [P_bind_run, hk.cs, hm.cs]

/-- bind with a fact about the first part (from a `Sat` lemma) -/
theorem Ind.bindS {m : P α β} {k : β → P α γ} {s : BP α} {Q : β → BP α → Prop} (hm : Ind m s)
    (hq : Sat m s Q) (hk : ∀ a s', s'.toks = s.toks → Q a s' → Ind (k a) s') : Ind (m >>= k) s :=
  Ind.bind hm (hk _ _ hm.toks hq)

/-- the same, also handing on that the character tables are unchanged -/
theorem Ind.bindS' {m : P α β} {k : β → P α γ} {s : BP α} {Q : β → BP α → Prop} (hm : Ind m s)
    (hq : Sat m s Q) (hk : ∀ a s', s'.toks = s.toks → s'.cs = s.cs → Q a s' → Ind (k a) s') :
    Ind (m >>= k) s :=
  Ind.bind hm (hk _ _ hm.toks hm.cs hq)

/-- bind after a read-only first part -/
theorem Ind.bindRO {m : P α β} {k : β → P α γ} {s : BP α} (hm : IndA m) (hro : (m s).2 = s)
    (hk : ∀ a, Ind (k a) s) : Ind (m >>= k) s := by
  refine Ind.bind (hm.all s) ?_
  rw [hro]; exact hk _

/-- bind after a part that is known to return `a` and leave the state alone under every
    extension set -/
theorem Ind.bindEq {m : P α β} {k : β → P α γ} {s : BP α} {a : β}
    (hm : ∀ e, m (s.withExt e) = (a, s.withExt e)) (hk : Ind (k a) s) : Ind (m >>= k) s := by
  have h0 : m s = (a, s) := hm s.ext
  constructor
  · intro e
    rw [P_bind_run, hm e, P_bind_run, h0]
    exact hk.ext e
  · rw [P_bind_run, h0]; exact hk.toks
  · rw [P_bind_run, h0]; exact hk.cs

/-- a gate whose reading does not matter in this state -/
theorem Ind.hasExtBind {flag : Nat} {k : Bool → P α β} {s : BP α}
    (hk : ∀ b e, k b (s.withExt e) = k false (s.withExt e)) (h : Ind (k false) s) :
    Ind (hasExt flag >>= k) s := by
  have run : ∀ s' : BP α, (hasExt flag >>= k) s' = k (s'.ext.has flag) s' := fun _ => rfl
  have h0 : k (s.ext.has flag) s = k false s := hk _ s.ext
  constructor
  · intro e
    rw [run, run, hk, h0]
    exact h.ext e
  · rw [run, h0]; exact h.toks
  · rw [run, h0]; exact h.cs

theorem IndA.pure (a : β) : IndA (Pure.pure a : P α β) := ⟨fun s => Ind.pure a s⟩

theorem IndA.bind {m : P α β} {k : β → P α γ} (hm : IndA m) (hk : ∀ a, IndA (k a)) :
    IndA (m >>= k) := ⟨fun s => Ind.bind (hm.all s) ((hk _).all _)⟩

/-- `get` followed by a continuation that does not look at the extension field -/
theorem IndA.getBind {f : BP α → P α β} (h1 : ∀ s e, f (s.withExt e) = f s)
    (h2 : ∀ s0, IndA (f s0)) : IndA (get >>= f) := by
  constructor
  intro s
  have run : ∀ s' : BP α, (get >>= f) s' = f s' s' := fun _ => rfl
  constructor
  · intro e
    rw [run, run, h1]
    exact ((h2 s).all s).ext e
  · rw [run]; exact ((h2 s).all s).toks
  · rw [run]; exact ((h2 s).all s).cs

theorem IndA.modify {f : BP α → BP α} (h1 : ∀ s e, f (s.withExt e) = (f s).withExt e)
    (h2 : ∀ s, (f s).toks = s.toks) (h3 : ∀ s, (f s).cs = s.cs) : IndA (_root_.modify f : P α PUnit) := by
  constructor
  intro s
  have run : ∀ s' : BP α, (_root_.modify f : P α PUnit) s' = (⟨⟩, f s') := fun _ => rfl
  constructor
  · intro e; rw [run, run, h1]
  · rw [run]; exact h2 s
  · rw [run]; exact h3 s

end rules

/-! ### The primitives -/

theorem panicWith_indA (site : String) : IndA (panicWith (α := α) site) := by
  unfold panicWith
  apply IndA.modify
  · intro s e
    by_cases h : s.panic.isNone <;> simp [h, BP.withExt]
  · intro s
    by_cases h : s.panic.isNone <;> simp [h]
  · intro s
    by_cases h : s.panic.isNone <;> simp [h]

theorem pushEv_indA (ev : Ev α) : IndA (pushEv ev) := by
  unfold pushEv
  exact IndA.modify (fun _ _ => rfl) (fun _ => rfl) (fun _ => rfl)

theorem perr_indA (k : String) (l : List Span) : IndA (perr (α := α) k l) := pushEv_indA _
theorem pwarn_indA (k : String) (l : List Span) : IndA (pwarn (α := α) k l) := pushEv_indA _

theorem setCur_indA (c : Nat) : IndA (setCur (α := α) c) := by
  unfold setCur
  exact IndA.modify (fun _ _ => rfl) (fun _ => rfl) (fun _ => rfl)

/-- a computation that only reads fields other than the extension set -/
theorem IndA.reader {β : Type} (f : BP α → β) (h : ∀ s e, f (s.withExt e) = f s) :
    IndA (do let s ← get; return f s : P α β) := by
  constructor
  intro s
  have run : ∀ s' : BP α, (do let s ← get; return f s : P α β) s' = (f s', s') := fun _ => rfl
  constructor
  · intro e; rw [run, run, h]
  · rw [run]
  · rw [run]

theorem restToks_indA : IndA (restToks (α := α)) := IndA.reader _ (fun _ _ => rfl)
theorem parsedToks_indA : IndA (parsedToks (α := α)) := IndA.reader _ (fun _ _ => rfl)
theorem allToks_indA : IndA (allToks (α := α)) := IndA.reader _ (fun _ _ => rfl)
theorem getCur_indA : IndA (getCur (α := α)) := IndA.reader _ (fun _ _ => rfl)
theorem peekK_indA : IndA (peekK (α := α)) := IndA.reader _ (fun _ _ => rfl)
theorem baseOffset_indA : IndA (baseOffset (α := α)) := IndA.reader _ (fun _ _ => rfl)

theorem currentOffset_indA : IndA (currentOffset (α := α)) := by
  constructor
  intro s
  constructor
  · intro e; rw [currentOffset_run, currentOffset_run]; rfl
  · rw [currentOffset_run]
  · rw [currentOffset_run]

/-- leaves of `ind_auto`; extended by `macro_rules` as more pieces are proved -/
syntax "ind_leaf" : tactic
macro_rules | `(tactic| ind_leaf) => `(tactic| exact IndA.pure _)
macro_rules | `(tactic| ind_leaf) => `(tactic| exact panicWith_indA _)
macro_rules | `(tactic| ind_leaf) => `(tactic| exact pushEv_indA _)
macro_rules | `(tactic| ind_leaf) => `(tactic| exact perr_indA _ _)
macro_rules | `(tactic| ind_leaf) => `(tactic| exact pwarn_indA _ _)
macro_rules | `(tactic| ind_leaf) => `(tactic| exact setCur_indA _)
macro_rules | `(tactic| ind_leaf) => `(tactic| exact restToks_indA)
macro_rules | `(tactic| ind_leaf) => `(tactic| exact parsedToks_indA)
macro_rules | `(tactic| ind_leaf) => `(tactic| exact allToks_indA)
macro_rules | `(tactic| ind_leaf) => `(tactic| exact getCur_indA)
macro_rules | `(tactic| ind_leaf) => `(tactic| exact peekK_indA)
macro_rules | `(tactic| ind_leaf) => `(tactic| exact baseOffset_indA)
macro_rules | `(tactic| ind_leaf) => `(tactic| exact currentOffset_indA)
macro_rules | `(tactic| ind_leaf) => `(tactic| assumption)

/-- decomposes an `IndA` goal along the structure of the `do` block -/
macro "ind_auto" : tactic => `(tactic|
  repeat' (first
    | with_reducible ind_leaf
    | focus ((with_reducible refine IndA.getBind ?_ ?_); (intro _ _; rfl))
    | focus ((with_reducible refine IndA.modify ?_ ?_ ?_); (intro _ _; rfl); (intro _; rfl); (intro _; rfl))
    | with_reducible apply IndA.bind
    | split
    | intro _
    | dsimp only))

theorem atK_indA (k : TK) : IndA (atK (α := α) k) := by
  unfold atK
  ind_auto
macro_rules | `(tactic| ind_leaf) => `(tactic| exact atK_indA _)

theorem tokensSpanP_indA (site : String) (l : List Tok) : IndA (tokensSpanP (α := α) site l) := by
  unfold tokensSpanP
  ind_auto
macro_rules | `(tactic| ind_leaf) => `(tactic| exact tokensSpanP_indA _ _)

theorem bpSpan_indA : IndA (bpSpan (α := α)) := by
  unfold bpSpan
  ind_auto
macro_rules | `(tactic| ind_leaf) => `(tactic| exact bpSpan_indA)

theorem nextToken_indA : IndA (nextToken (α := α)) := by
  constructor
  intro s
  constructor
  · intro e
    rw [nextToken_run, nextToken_run]
    simp only [BP.withExt_toks, BP.withExt_cur]
    cases s.toks[s.cur]? <;> rfl
  · rw [nextToken_run]
    cases s.toks[s.cur]? <;> rfl
  · rw [nextToken_run]
    cases s.toks[s.cur]? <;> rfl
macro_rules | `(tactic| ind_leaf) => `(tactic| exact nextToken_indA)

theorem bumpAny_indA : IndA (bumpAny (α := α)) := by
  unfold bumpAny
  ind_auto
macro_rules | `(tactic| ind_leaf) => `(tactic| exact bumpAny_indA)

theorem bump_indA (k : TK) : IndA (bump (α := α) k) := by
  unfold bump
  ind_auto
macro_rules | `(tactic| ind_leaf) => `(tactic| exact bump_indA _)

theorem untilK_indA (f : TK → Bool) : IndA (untilK (α := α) f) := by
  constructor
  intro s
  constructor
  · intro e
    rw [untilK_run, untilK_run]
    simp only [BP.withExt_toks, BP.withExt_cur]
    cases (s.toks.drop s.cur).findIdx? (fun t => f t.kind) <;> rfl
  · rw [untilK_run]
    cases (s.toks.drop s.cur).findIdx? (fun t => f t.kind) <;> rfl
  · rw [untilK_run]
    cases (s.toks.drop s.cur).findIdx? (fun t => f t.kind) <;> rfl
macro_rules | `(tactic| ind_leaf) => `(tactic| exact untilK_indA _)

theorem consumeWhile_indA (f : TK → Bool) : IndA (consumeWhile (α := α) f) := by
  constructor
  intro s
  constructor
  · intro e; rw [consumeWhile_run, consumeWhile_run]; rfl
  · rw [consumeWhile_run]
  · rw [consumeWhile_run]
macro_rules | `(tactic| ind_leaf) => `(tactic| exact consumeWhile_indA _)

theorem wsComments_indA : IndA (wsComments (α := α)) := consumeWhile_indA _
macro_rules | `(tactic| ind_leaf) => `(tactic| exact wsComments_indA)

theorem consumeK_indA (k : TK) : IndA (consumeK (α := α) k) := by
  unfold consumeK
  ind_auto
macro_rules | `(tactic| ind_leaf) => `(tactic| exact consumeK_indA _)

theorem consumeRest_indA : IndA (consumeRest (α := α)) := by
  unfold consumeRest
  ind_auto
macro_rules | `(tactic| ind_leaf) => `(tactic| exact consumeRest_indA)

theorem withRecover_run_ext {β : Type} (f : P α (Option β)) (s : BP α) :
    withRecover f s = if (f s).1.isNone then ((f s).1, { (f s).2 with cur := s.cur }) else f s := by
  have run : withRecover f s =
      ((f s).1, (if (f s).1.isNone then { (f s).2 with cur := s.cur } else (f s).2)) := by
    unfold withRecover getCur setCur
    simp only [bind, StateT.bind, get, getThe, MonadStateOf.get, StateT.get, pure, StateT.pure,
      modify, modifyGet, MonadStateOf.modifyGet, StateT.modifyGet]
    rcases hf : f s with ⟨a, s1⟩
    cases a <;> rfl
  rw [run]
  split <;> rfl

theorem Ind.withRecover {β : Type} {f : P α (Option β)} {s : BP α} (h : Ind f s) :
    Ind (withRecover f) s := by
  constructor
  · intro e
    rw [withRecover_run_ext, withRecover_run_ext, h.ext e]
    split <;> rfl
  · rw [withRecover_run_ext]
    split
    · exact h.toks
    · exact h.toks
  · rw [withRecover_run_ext]
    split
    · exact h.cs
    · exact h.cs

theorem IndA.withRecover {β : Type} {f : P α (Option β)} (h : IndA f) : IndA (withRecover f) :=
  ⟨fun s => Ind.withRecover (h.all s)⟩

theorem bpText_indA (off : Nat) (toks : List Tok) : IndA (bpText (α := α) off toks) := by
  unfold bpText
  ind_auto
macro_rules | `(tactic| ind_leaf) => `(tactic| exact bpText_indA _ _)

/-! ### Parsers that never consult the extension set -/

theorem scalingLock_indA : IndA (scalingLock (α := α)) := by
  unfold scalingLock
  ind_auto
macro_rules | `(tactic| ind_leaf) => `(tactic| exact scalingLock_indA)

theorem textValue_indA (toks : List Tok) (off : Nat) : IndA (textValue (α := α) toks off) := by
  unfold textValue
  ind_auto
macro_rules | `(tactic| ind_leaf) => `(tactic| exact textValue_indA _ _)

theorem compBodyLong_indA : IndA (compBodyLong (α := α)) := by
  unfold compBodyLong
  apply IndA.withRecover
  ind_auto

theorem compBodyShort_indA : IndA (compBodyShort (α := α)) := by
  unfold compBodyShort
  apply IndA.withRecover
  ind_auto

theorem compBody_indA : IndA (compBody (α := α)) := by
  unfold compBody
  have h1 := compBodyLong_indA (α := α)
  have h2 := compBodyShort_indA (α := α)
  ind_auto
macro_rules | `(tactic| ind_leaf) => `(tactic| exact compBody_indA)

theorem noteP_indA : IndA (noteP (α := α)) := by
  unfold noteP
  apply IndA.withRecover
  ind_auto
macro_rules | `(tactic| ind_leaf) => `(tactic| exact noteP_indA)

theorem checkEmptyName_indA (c : String) (name : Text) : IndA (checkEmptyName (α := α) c name) := by
  unfold checkEmptyName
  ind_auto
macro_rules | `(tactic| ind_leaf) => `(tactic| exact checkEmptyName_indA _ _)

theorem checkNoteTimer_indA : IndA (checkNoteTimer (α := α)) := by
  unfold checkNoteTimer
  apply IndA.bind
  · apply IndA.withRecover
    ind_auto
  · ind_auto
macro_rules | `(tactic| ind_leaf) => `(tactic| exact checkNoteTimer_indA)

theorem textBlockLoop_indA (fuel : Nat) : IndA (textBlockLoop (α := α) fuel) := by
  induction fuel with
  | zero => unfold textBlockLoop; ind_auto
  | succ fuel ih => unfold textBlockLoop; ind_auto

theorem parseTextBlock_indA : IndA (parseTextBlock (α := α)) := by
  unfold parseTextBlock
  have h := textBlockLoop_indA (α := α)
  ind_auto
  all_goals exact h _
macro_rules | `(tactic| ind_leaf) => `(tactic| exact parseTextBlock_indA)

theorem sectionP_indA : IndA (sectionP (α := α)) := by
  unfold sectionP
  ind_auto
macro_rules | `(tactic| ind_leaf) => `(tactic| exact sectionP_indA)

theorem metadataEntry_indA : IndA (metadataEntry (α := α)) := by
  unfold metadataEntry
  ind_auto
macro_rules | `(tactic| ind_leaf) => `(tactic| exact metadataEntry_indA)

end Cook
