import CookModel.Lemmas.FinderSpec
import CookModel.Lemmas.TrailDoc
/-
  Wave 9 (tag `w9i`): the inline-quantity scan finds nothing in a text ⇒ it finds nothing in the text with
  white space inserted next to white space or at the end (obstacle (i) of notes/audit-C17.md).
  Through the specification of the finder (`fsNextCand`, `FsNothing`): one candidate on the two texts has the
  same number and unit word and related remaining texts; the only new candidate is `(n, "")` at the end of the
  text, rejected because the converter knows no blank unit.
-/
set_option linter.unusedSectionVars false
set_option linter.unusedSimpArgs false
set_option linter.unusedVariables false
namespace Cook
variable {α : Type} [Arith α]

/-! ### lists -/

theorem w9i_all (p : Char → Bool) (X z : Str) (h : ∀ a ∈ X, p a = true) :
    List.takeWhile p (X ++ z) = X ++ List.takeWhile p z ∧ List.dropWhile p (X ++ z) = List.dropWhile p z := by
  induction X with
  | nil => simp
  | cons a X ih =>
    have ha := h a (by simp)
    have := ih (fun c hc => h c (by simp [hc]))
    simp [List.takeWhile_cons, List.dropWhile_cons, ha, this]

theorem w9i_notall (p : Char → Bool) (X : Str) (h : ¬ ∀ a ∈ X, p a = true) :
    List.dropWhile p X ≠ [] ∧ ∀ z, List.takeWhile p (X ++ z) = List.takeWhile p X ∧
      List.dropWhile p (X ++ z) = List.dropWhile p X ++ z := by
  induction X with
  | nil => exact absurd (by simp) h
  | cons a X ih =>
    by_cases ha : p a = true
    · have : ¬ ∀ c ∈ X, p c = true := by
        intro hh; apply h; intro c hc
        simp only [List.mem_cons] at hc
        rcases hc with rfl | hc
        · exact ha
        · exact hh c hc
      obtain ⟨i1, i2⟩ := ih this
      refine ⟨by simpa [List.dropWhile_cons, ha] using i1, fun z => ?_⟩
      simp [List.takeWhile_cons, List.dropWhile_cons, ha, i2 z]
    · refine ⟨by simp [List.dropWhile_cons, ha], fun z => ?_⟩
      simp [List.takeWhile_cons, List.dropWhile_cons, ha]

theorem w9i_adj_suffix (ws : Char → Bool) (X0 X1 y : Str) (hne : X1 ≠ []) (h : BlankAdj ws (X0 ++ X1) y) :
    BlankAdj ws X1 y := by
  rcases h with h | h | ⟨r, c, e, hc⟩
  · exact Or.inl h
  · exact Or.inr (Or.inl h)
  · refine Or.inr (Or.inr ?_)
    obtain ⟨r1, c1, e1⟩ : ∃ r1 c1, X1 = r1 ++ [c1] := ⟨X1.dropLast, X1.getLast hne, (List.dropLast_concat_getLast hne).symm⟩
    subst e1
    rw [← List.append_assoc] at e
    have := List.append_inj_right' e rfl
    simp only [List.cons.injEq, and_true] at this
    subst this
    exact ⟨r1, c1, rfl, hc⟩

theorem w9i_adj_drop (ws p : Char → Bool) (X y : Str) (hne : List.dropWhile p X ≠ []) (h : BlankAdj ws X y) :
    BlankAdj ws (List.dropWhile p X) y := by
  have e : X = List.takeWhile p X ++ List.dropWhile p X := (List.takeWhile_append_dropWhile).symm
  rw [e] at h
  exact w9i_adj_suffix ws _ _ y hne h

/-- behind a non-empty run of non-blanks the insertion point is followed by nothing or by a blank -/
theorem w9i_edge (ws : Char → Bool) (X y : Str) (hne : X ≠ []) (hX : ∀ a ∈ X, (!ws a) = true) (h : BlankAdj ws X y) :
    y = [] ∨ ∃ c r, y = c :: r ∧ ws c = true := by
  rcases h with h | h | ⟨r, c, e, hc⟩
  · exact Or.inl h
  · exact Or.inr h
  · exfalso
    have := hX c (by rw [e]; simp)
    simp [hc] at this

theorem w9i_head_ws (ws : Char → Bool) (z : Str) (h : z = [] ∨ ∃ c r, z = c :: r ∧ ws c = true) :
    List.takeWhile (fun c => !ws c) z = [] ∧ List.dropWhile (fun c => !ws c) z = z := by
  rcases h with rfl | ⟨c, r, rfl, hc⟩
  · simp
  · simp [List.takeWhile_cons, List.dropWhile_cons, hc]

/-! ### the candidate in phases -/

/-- the candidate once the number word `w1` and the text `r1` behind it are known -/
def w9iCandW (cs : CharSpec) (sk w1 r1 : Str) : Option FsCand :=
  match w1.findIdx? (fun c => !isAsciiDigitC c && c != '.' && !cs.uws c) with
  | some mid => some ⟨sk, w1.take mid, [], w1.drop mid, r1⟩
  | none =>
    if r1.isEmpty then none
    else if r1.any (fun c => !cs.uws c) then
      some ⟨sk, w1, r1.takeWhile cs.uws, (r1.dropWhile cs.uws).takeWhile (fun c => !cs.uws c),
        (r1.dropWhile cs.uws).dropWhile (fun c => !cs.uws c)⟩
    else some ⟨sk, w1, [], [], r1⟩

theorem w9i_nextCand (cs : CharSpec) (rest : Str) :
    fsNextCand cs rest =
      if rest.dropWhile (fun c => !isAsciiDigitC c) = [] then none
      else w9iCandW cs (rest.takeWhile (fun c => !isAsciiDigitC c))
        ((rest.dropWhile (fun c => !isAsciiDigitC c)).takeWhile (fun c => !cs.uws c))
        ((rest.dropWhile (fun c => !isAsciiDigitC c)).dropWhile (fun c => !cs.uws c)) := by
  unfold fsNextCand w9iCandW
  cases hr : List.dropWhile (fun c => !isAsciiDigitC c) rest with
  | nil => simp
  | cons d r' => exact (if_neg (List.cons_ne_nil d r')).symm

/-- what acceptance and the rest of the scan look at -/
def w9iCore (c : FsCand) : Str × Str × Str := (c.number, c.unit, c.after)

/-- how the candidates of the text and of the text with blanks `b` inserted before `y` are related -/
inductive W9iRel (ws : Char → Bool) (b y : Str) : Option FsCand → Option FsCand → Prop
  | same (c c' : Option FsCand) : c'.map w9iCore = c.map w9iCore → W9iRel ws b y c c'
  | shift (c c' : FsCand) (X : Str) : c'.number = c.number → c'.unit = c.unit → c.after = X ++ y →
      c'.after = X ++ (b ++ y) → BlankAdj ws X y → W9iRel ws b y (some c) (some c')
  | fresh (c' : FsCand) : c'.unit = [] → (∀ a ∈ c'.after, ws a = true) → W9iRel ws b y none (some c')

theorem w9i_candW_edge (cs : CharSpec) (sk sk' w1 b y : Str) (hb : ∀ a ∈ b, cs.uws a = true) (hbne : b ≠ [])
    (hy : y = [] ∨ ∃ c r, y = c :: r ∧ cs.uws c = true) :
    W9iRel cs.uws b y (w9iCandW cs sk w1 y) (w9iCandW cs sk' w1 (b ++ y)) := by
  unfold w9iCandW
  have hadj : BlankAdj cs.uws [] y := by
    rcases hy with h | h
    · exact Or.inl h
    · exact Or.inr (Or.inl h)
  cases hf : List.findIdx? (fun c => !isAsciiDigitC c && c != '.' && !cs.uws c) w1 with
  | some mid => exact W9iRel.shift _ _ [] rfl rfl rfl rfl hadj
  | none =>
    dsimp only
    have hbe : (b ++ y).isEmpty = false := by
      cases b with
      | nil => exact absurd rfl hbne
      | cons _ _ => rfl
    have hany : (b ++ y).any (fun c => !cs.uws c) = y.any (fun c => !cs.uws c) := by
      rw [List.any_append]
      have : b.any (fun c => !cs.uws c) = false := by
        rw [List.any_eq_false]; intro a ha; simp [hb a ha]
      rw [this, Bool.false_or]
    rw [hbe, hany]
    simp only [Bool.false_eq_true, if_false]
    rcases hy with rfl | ⟨u, y', rfl, hu⟩
    · simp only [List.isEmpty_nil, if_true, List.any_nil, Bool.false_eq_true, if_false]
      exact W9iRel.fresh _ rfl (by simpa using hb)
    · simp only [List.isEmpty_cons, Bool.false_eq_true, if_false]
      by_cases ha : ((u :: y').any fun c => !cs.uws c) = true
      · simp only [ha, if_true]
        obtain ⟨t1, t2⟩ := w9i_all cs.uws b (u :: y') hb
        refine W9iRel.same _ _ ?_
        simp only [Option.map_some, w9iCore, t2]
      · simp only [ha, if_false, Bool.false_eq_true]
        exact W9iRel.shift _ _ [] rfl rfl rfl rfl hadj

theorem w9i_candW_in (cs : CharSpec) (sk sk' w1 X b y : Str) (hb : ∀ a ∈ b, cs.uws a = true) (hbne : b ≠ [])
    (hX : X ≠ []) (hadj : BlankAdj cs.uws X y) :
    W9iRel cs.uws b y (w9iCandW cs sk w1 (X ++ y)) (w9iCandW cs sk' w1 (X ++ (b ++ y))) := by
  unfold w9iCandW
  cases hf : List.findIdx? (fun c => !isAsciiDigitC c && c != '.' && !cs.uws c) w1 with
  | some mid => exact W9iRel.shift _ _ X rfl rfl rfl rfl hadj
  | none =>
    dsimp only
    have he1 : (X ++ y).isEmpty = false := by
      cases X with
      | nil => exact absurd rfl hX
      | cons _ _ => rfl
    have he2 : (X ++ (b ++ y)).isEmpty = false := by
      cases X with
      | nil => exact absurd rfl hX
      | cons _ _ => rfl
    have hany : (X ++ (b ++ y)).any (fun c => !cs.uws c) = (X ++ y).any (fun c => !cs.uws c) := by
      rw [List.any_append, List.any_append, List.any_append]
      have : b.any (fun c => !cs.uws c) = false := by
        rw [List.any_eq_false]; intro a ha; simp [hb a ha]
      rw [this, Bool.false_or]
    rw [he1, he2, hany]
    simp only [Bool.false_eq_true, if_false]
    by_cases ha : ((X ++ y).any fun c => !cs.uws c) = true
    · simp only [ha, if_true]
      by_cases h3 : ∀ a ∈ X, cs.uws a = true
      · obtain ⟨_, t2⟩ := w9i_all cs.uws X y h3
        obtain ⟨_, t2'⟩ := w9i_all cs.uws X (b ++ y) h3
        obtain ⟨_, t3⟩ := w9i_all cs.uws b y hb
        refine W9iRel.same _ _ ?_
        simp only [Option.map_some, w9iCore, t2, t2', t3]
      · obtain ⟨n3, e3⟩ := w9i_notall cs.uws X h3
        have a3 := w9i_adj_drop cs.uws cs.uws X y n3 hadj
        rw [(e3 y).2, (e3 (b ++ y)).2]
        generalize List.dropWhile cs.uws X = X2 at n3 a3
        by_cases h4 : ∀ a ∈ X2, (!cs.uws a) = true
        · have hy := w9i_edge cs.uws X2 y n3 h4 a3
          obtain ⟨u1, u2⟩ := w9i_all (fun c => !cs.uws c) X2 y h4
          obtain ⟨v1, v2⟩ := w9i_all (fun c => !cs.uws c) X2 (b ++ y) h4
          obtain ⟨p1, p2⟩ := w9i_head_ws cs.uws y hy
          obtain ⟨q1, q2⟩ := w9i_head_ws cs.uws (b ++ y) (by
            cases b with
            | nil => exact absurd rfl hbne
            | cons c r => exact Or.inr ⟨c, r ++ y, rfl, hb c (by simp)⟩)
          refine W9iRel.shift _ _ [] rfl ?_ ?_ ?_ ?_
          · show List.takeWhile (fun c => !cs.uws c) (X2 ++ (b ++ y)) = List.takeWhile (fun c => !cs.uws c) (X2 ++ y)
            rw [u1, v1, p1, q1]
          · show List.dropWhile (fun c => !cs.uws c) (X2 ++ y) = [] ++ y
            rw [u2, p2]; rfl
          · show List.dropWhile (fun c => !cs.uws c) (X2 ++ (b ++ y)) = [] ++ (b ++ y)
            rw [v2, q2]; rfl
          · rcases hy with h | h
            · exact Or.inl h
            · exact Or.inr (Or.inl h)
        · obtain ⟨n4, e4⟩ := w9i_notall (fun c => !cs.uws c) X2 h4
          have a4 := w9i_adj_drop cs.uws (fun c => !cs.uws c) X2 y n4 a3
          refine W9iRel.shift _ _ (List.dropWhile (fun c => !cs.uws c) X2) rfl ?_ ?_ ?_ a4
          · show List.takeWhile (fun c => !cs.uws c) (X2 ++ (b ++ y)) = List.takeWhile (fun c => !cs.uws c) (X2 ++ y)
            rw [(e4 y).1, (e4 (b ++ y)).1]
          · exact (e4 y).2
          · exact (e4 (b ++ y)).2
    · simp only [ha, if_false, Bool.false_eq_true]
      exact W9iRel.shift _ _ X rfl rfl rfl rfl hadj

/-- **one candidate, on the text and on the text with blanks inserted** -/
theorem w9i_step (cs : CharSpec) (hd : DigitsNotWs cs) (x b y : Str) (hb : ∀ a ∈ b, cs.uws a = true) (hbne : b ≠ [])
    (hadj : BlankAdj cs.uws x y) :
    W9iRel cs.uws b y (fsNextCand cs (x ++ y)) (fsNextCand cs (x ++ (b ++ y))) := by
  have hbd : ∀ a ∈ b, (!isAsciiDigitC a) = true := by
    intro a ha
    cases hda : isAsciiDigitC a with
    | false => rfl
    | true => have := hd a hda; rw [hb a ha] at this; cases this
  rw [w9i_nextCand, w9i_nextCand]
  by_cases h1 : ∀ a ∈ x, (!isAsciiDigitC a) = true
  · obtain ⟨_, t2⟩ := w9i_all (fun c => !isAsciiDigitC c) x y h1
    obtain ⟨_, t2'⟩ := w9i_all (fun c => !isAsciiDigitC c) x (b ++ y) h1
    obtain ⟨_, t3⟩ := w9i_all (fun c => !isAsciiDigitC c) b y hbd
    rw [t2, t2', t3]
    refine W9iRel.same _ _ ?_
    by_cases he : List.dropWhile (fun c => !isAsciiDigitC c) y = []
    · simp only [he, if_true]
    · simp only [he, if_false]
      unfold w9iCandW
      cases List.findIdx? (fun c => !isAsciiDigitC c && c != '.' && !cs.uws c)
          (List.takeWhile (fun c => !cs.uws c) (List.dropWhile (fun c => !isAsciiDigitC c) y)) with
      | some mid => rfl
      | none =>
        dsimp only
        split
        · rfl
        · split <;> rfl
  · obtain ⟨n1, e1⟩ := w9i_notall (fun c => !isAsciiDigitC c) x h1
    have a1 := w9i_adj_drop cs.uws (fun c => !isAsciiDigitC c) x y n1 hadj
    rw [(e1 y).2, (e1 (b ++ y)).2]
    generalize List.dropWhile (fun c => !isAsciiDigitC c) x = X at n1 a1
    have z1 : X ++ y ≠ [] := by intro h; exact n1 (List.append_eq_nil_iff.mp h).1
    have z2 : X ++ (b ++ y) ≠ [] := by intro h; exact n1 (List.append_eq_nil_iff.mp h).1
    simp only [z1, z2, if_false]
    by_cases h2 : ∀ a ∈ X, (!cs.uws a) = true
    · have hy := w9i_edge cs.uws X y n1 h2 a1
      obtain ⟨u1, u2⟩ := w9i_all (fun c => !cs.uws c) X y h2
      obtain ⟨v1, v2⟩ := w9i_all (fun c => !cs.uws c) X (b ++ y) h2
      obtain ⟨p1, p2⟩ := w9i_head_ws cs.uws y hy
      obtain ⟨q1, q2⟩ := w9i_head_ws cs.uws (b ++ y) (by
        cases b with
        | nil => exact absurd rfl hbne
        | cons c r => exact Or.inr ⟨c, r ++ y, rfl, hb c (by simp)⟩)
      rw [u1, u2, v1, v2, p1, p2, q1, q2]
      exact w9i_candW_edge cs _ _ _ b y hb hbne hy
    · obtain ⟨n2, e2⟩ := w9i_notall (fun c => !cs.uws c) X h2
      have a2 := w9i_adj_drop cs.uws (fun c => !cs.uws c) X y n2 a1
      rw [(e2 y).1, (e2 y).2, (e2 (b ++ y)).1, (e2 (b ++ y)).2]
      exact w9i_candW_in cs _ _ _ _ b y hb hbne n2 a2

/-! ### the scan -/

theorem w9i_accept_core (env : Env) (c c' : FsCand) (hn : c'.number = c.number) (hu : c'.unit = c.unit) :
    fsAccept (α := α) env c' = fsAccept (α := α) env c := by
  unfold fsAccept; rw [hn, hu]

theorem w9i_nothing_ws (env : Env) (hd : DigitsNotWs env.cs) (z : Str) (hz : ∀ a ∈ z, env.cs.uws a = true) :
    FsNothing α env z := by
  refine FsNothing.done z ?_
  rw [w9i_nextCand]
  have hzd : ∀ a ∈ z, (!isAsciiDigitC a) = true := by
    intro a ha
    cases hda : isAsciiDigitC a with
    | false => rfl
    | true => have := hd a hda; rw [hz a ha] at this; cases this
  have := (w9i_all (fun c => !isAsciiDigitC c) z [] hzd).2
  simp only [List.append_nil, List.dropWhile_nil] at this
  simp [this]

/-- **the scan finds nothing ⇒ it finds nothing with blanks inserted next to a blank or at the end** -/
theorem w9i_nothing_ins (env : Env) (hd : DigitsNotWs env.cs)
    (hblank : ∀ k : Str, k.all env.cs.uws = true → env.findUnit k = none)
    (b : Str) (hb : ∀ a ∈ b, env.cs.uws a = true) (hbne : b ≠ []) :
    ∀ (n : Nat) (x y : Str), (x ++ y).length < n → BlankAdj env.cs.uws x y → FsNothing α env (x ++ y) →
      FsNothing α env (x ++ (b ++ y)) := by
  intro n
  induction n with
  | zero => intro x y h; omega
  | succ n ih =>
    intro x y hl hadj hN
    have hs := w9i_step env.cs hd x b y hb hbne hadj
    generalize hc1 : fsNextCand env.cs (x ++ y) = c1 at hs
    generalize hc2 : fsNextCand env.cs (x ++ (b ++ y)) = c2 at hs
    cases hs with
    | same c c' hcore =>
      cases hN with
      | done _ h0 =>
        rw [hc1] at h0; subst h0
        cases c2 with
        | none => exact FsNothing.done _ hc2
        | some _ => simp at hcore
      | skip _ k h0 hacc hrest =>
        rw [hc1] at h0; subst h0
        cases c2 with
        | none => simp at hcore
        | some k' =>
          simp only [Option.map_some, Option.some.injEq, w9iCore, Prod.mk.injEq] at hcore
          refine FsNothing.skip _ k' hc2 ?_ ?_
          · rw [w9i_accept_core env k k' hcore.1 hcore.2.1]; exact hacc
          · rw [hcore.2.2]; exact hrest
    | shift k k' X hn hu ha ha' hadjX =>
      cases hN with
      | done _ h0 => rw [hc1] at h0; cases h0
      | skip _ k0 h0 hacc hrest =>
        rw [hc1] at h0; cases h0
        refine FsNothing.skip _ k' hc2 ?_ ?_
        · rw [w9i_accept_core env k k' hn hu]; exact hacc
        · rw [ha']
          have hsh := fs_after_shorter env hd (x ++ y) k hc1
          rw [ha] at hsh hrest
          exact ih X y (by omega) hadjX hrest
    | fresh k' hu hws =>
      refine FsNothing.skip _ k' hc2 ?_ (w9i_nothing_ws env hd _ hws)
      unfold fsAccept
      have ht : trim env.cs.uws [] = [] := rfl
      rw [hu, ht, hblank [] rfl]
      cases parseSimpleFloat (α := α) (trim env.cs.uws k'.number) <;> rfl

/-- the same for the finder itself, with the fuel the analysis gives it -/
theorem w9i_find_none_ins (env : Env) (hd : DigitsNotWs env.cs)
    (hblank : ∀ k : Str, k.all env.cs.uws = true → env.findUnit k = none)
    (x b y : Str) (hb : ∀ a ∈ b, env.cs.uws a = true) (hadj : BlankAdj env.cs.uws x y)
    (h : findInlineQuantity (α := α) env ((x ++ y).length + 1) [] (x ++ y) = none) :
    findInlineQuantity (α := α) env ((x ++ b ++ y).length + 1) [] (x ++ b ++ y) = none := by
  by_cases hbne : b = []
  · subst hbne; simpa using h
  rw [fs_find_none_iff env hd _ _ _ (by omega)] at h ⊢
  rw [List.append_assoc]
  exact w9i_nothing_ins env hd hblank b hb hbne _ x y (Nat.lt_succ_self _) hadj h

end Cook
