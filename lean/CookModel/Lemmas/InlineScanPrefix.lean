import CookModel.Lemmas.InlineScan
/-
  Wave 8 (tag `w8i`): whether `find_inline_quantity` finds something does not depend on the text in front of
  the scanned position (the prefix only enters the `before` text and the sign of a hit).  First step of the
  invariance of the scan under inserted blanks (obstacle (i) of notes/audit-C17.md).
-/
set_option linter.unusedVariables false
namespace Cook
variable {α : Type} [Arith α]

/-- what one iteration decides: `none` = stop, `some none` = hit, `some (some a)` = go on with `a` -/
def InlineStep.w8iShape : InlineStep α → Option (Option Str)
  | .stop => none
  | .hit _ => some none
  | .retry _ a => some (some a)

theorem w8i_shape_prefix (env : Env) (pre pre' rest : Str) :
    (inlineStep (α := α) env pre rest).w8iShape = (inlineStep (α := α) env pre' rest).w8iShape := by
  unfold inlineStep
  dsimp only
  cases hr : List.dropWhile (fun c => !isAsciiDigitC c) rest with
  | nil => rfl
  | cons d r' =>
    dsimp only
    cases hf : List.findIdx? (fun c => !isAsciiDigitC c && c != '.' && !env.cs.uws c)
        (List.takeWhile (fun c => !env.cs.uws c) (d :: r')) with
    | some mid =>
      dsimp only
      generalize parseSimpleFloat (α := α) _ = a
      generalize env.findUnit _ = b
      cases a <;> cases b <;> rfl
    | none =>
      dsimp only
      by_cases he : (if ((List.dropWhile (fun c => !env.cs.uws c) (d :: r')).any fun c => !env.cs.uws c) = true then
          List.dropWhile env.cs.uws (List.dropWhile (fun c => !env.cs.uws c) (d :: r'))
          else List.dropWhile (fun c => !env.cs.uws c) (d :: r')).isEmpty = true
      · simp only [he, if_true]
      · simp only [he, if_false, Bool.false_eq_true]
        generalize parseSimpleFloat (α := α) _ = a
        generalize env.findUnit _ = b
        cases a <;> cases b <;> rfl

/-- **Whether the scan finds a quantity does not depend on the text in front of the scanned position.** -/
theorem w8i_none_prefix (env : Env) (fuel : Nat) : ∀ (pre pre' rest : Str),
    (findInlineQuantity (α := α) env fuel pre rest).isNone = (findInlineQuantity (α := α) env fuel pre' rest).isNone := by
  induction fuel with
  | zero => intro pre pre' rest; simp [findInlineQuantity]
  | succ n ih =>
    intro pre pre' rest
    rw [findInlineQuantity_succ, findInlineQuantity_succ]
    have hs := w8i_shape_prefix (α := α) env pre pre' rest
    cases h1 : inlineStep (α := α) env pre rest <;> cases h2 : inlineStep (α := α) env pre' rest <;>
      simp only [h1, h2, InlineStep.w8iShape, Option.some.injEq, reduceCtorEq] at hs <;> try rfl
    subst hs
    exact ih _ _ _
end Cook
