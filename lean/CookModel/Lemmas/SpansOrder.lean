import CookModel.Lemmas.SpansDoc
import CookModel.Lemmas.SpansFront
import CookModel.Lemmas.SpansMeta
import CookModel.Lemmas.Blocks
import CookModel.Lemmas.ClosingStream
/-
  C04, row 5a: the front-matter event in the source order.

  `TopInv` (Lemmas/SpansEv.lean) bounds the content events of the queue from above only, which is all
  the source-order argument needs as long as every content event comes from a block.  The
  `YAMLFrontMatter` event is pushed before the first block and has no `srcSpan`; to place it in the order
  one needs the converse bound: every content event of the body starts at or after `cooklang_offset`.
  `TopInvL off w lo b` is `TopInv off w b` plus "every content event starts at or after `lo`" (and `lo ≤ b`).
  It has the same interface (`mono`, `push`, `pushNone`), so the block-level lemmas of SpansEv go through
  verbatim (section "block level" below is that text with `TopInv` replaced by `TopInvL`).
-/
set_option linter.unusedSectionVars false
set_option linter.unusedSimpArgs false
set_option linter.unusedVariables false
namespace Cook

variable {α : Type} [Arith α]
variable {off : Nat} {w : List Char} {Pv : Array (Ev α) → Prop} {ts : List Tok} {e : Ext} {s : BP α}

/-- `TopInv` and: every content event of the queue starts at or after byte `lo` -/
structure TopInvL (off : Nat) (w : List Char) (lo b : Nat) (evs : Array (Ev α)) : Prop where
  top : TopInv off w b evs
  lob : lo ≤ b
  low : ∀ ev ∈ evs.toList, ∀ sp, ev.srcSpan = some sp → lo ≤ sp.start

theorem TopInvL.mono {lo b b' : Nat} {evs : Array (Ev α)} (h : TopInvL off w lo b evs) (hb : b ≤ b') :
    TopInvL off w lo b' evs := ⟨h.top.mono hb, Nat.le_trans h.lob hb, h.low⟩

theorem TopInvL.push {lo b b' : Nat} {evs : Array (Ev α)} {ev : Ev α} (h : TopInvL off w lo b evs)
    (hok : EvSpansOK off w ev) (hb : b ≤ b')
    (hin : ∀ sp, ev.srcSpan = some sp → b ≤ sp.start ∧ sp.stop ≤ b') : TopInvL off w lo b' (evs.push ev) := by
  refine ⟨h.top.push hok hb hin, Nat.le_trans h.lob hb, ?_⟩
  intro x hx sp hsp
  simp only [Array.toList_push, List.mem_append, List.mem_singleton] at hx
  rcases hx with hx | rfl
  · exact h.low x hx sp hsp
  · exact Nat.le_trans h.lob (hin sp hsp).1

theorem TopInvL.pushNone {lo b : Nat} {evs : Array (Ev α)} {ev : Ev α} (h : TopInvL off w lo b evs)
    (hok : EvSpansOK off w ev) (hn : ev.srcSpan = none) : TopInvL off w lo b (evs.push ev) :=
  h.push hok (Nat.le_refl _) (fun sp hsp => by rw [hn] at hsp; cases hsp)

theorem topCtxL (hw : WFI off w ts) (lo b : Nat) : Ctx off w (TopInvL (α := α) off w lo b) ts :=
  ⟨hw, fun evs d h hd => ⟨h.pushNone hd rfl, h.pushNone hd rfl⟩⟩

theorem GE.boundL {lo b b' : Nat} (h : GE (TopInvL off w lo b) ts e s) (hb : b ≤ b') :
    GE (TopInvL off w lo b') ts e s :=
  h.mono (fun hi => hi.mono hb)

/-! ### block level (the text of SpansEv with `TopInvL`) -/

variable {lo : Nat}

/-- one iteration of the `while` of `parse_step` -/
theorem stepOne_evL (hw : WFI off w ts) (hz : Boundary off w 0) {b : Nat} (h : GE (TopInvL off w lo b) ts e s)
    (hb : b ≤ offAt ts s.cur) (hlt : s.cur < ts.length) :
    Sat (stepOne (α := α)) s (fun _ s' => GE (TopInvL off w lo (offAt ts s'.cur)) ts e s' ∧ s.cur < s'.cur) := by
  have hc := topCtxL (α := α) hw lo b
  unfold stepOne
  apply Sat.bind
  apply Sat.mono (Q := fun r s' => GE (TopInvL off w lo b) ts e s' ∧
    match r with
    | none => s'.cur = s.cur
    | some ev => s.cur < s'.cur ∧ EvSpansOK off w ev ∧ EvIn ts s.cur s'.cur ev)
  · have comp : ∀ (p : P α (Option (Ev α))),
        (∀ s : BP α, GE (TopInvL off w lo b) ts e s → Sat p s (fun r s' => GE (TopInvL off w lo b) ts e s' ∧
          (r.isSome = true → s.cur < s'.cur) ∧ CompRet off w ts s.cur s'.cur r)) →
        Sat (withRecover p) s (fun r s' => GE (TopInvL off w lo b) ts e s' ∧
          match r with
          | none => s'.cur = s.cur
          | some ev => s.cur < s'.cur ∧ EvSpansOK off w ev ∧ EvIn ts s.cur s'.cur ev) := by
      intro p hp
      apply withRecover_sat
      refine Sat.mono (hp s h) ?_
      rintro r s1 ⟨g1, h1, h2⟩
      cases r with
      | none => exact ⟨g1.setCur h.le, rfl⟩
      | some ev => exact ⟨g1, h1 rfl, h2.1, h2.2⟩
    refine Sat.bind (peekK_sat h.g ?_)
    split
    · exact comp _ (fun s h => ingredientP_ev hc h)
    · exact comp _ (fun s h => cookwareP_ev hc h)
    · exact comp _ (fun s h => timerP_ev hc hz h)
    · exact Sat.pure ⟨h, rfl⟩
  rintro comp s1 ⟨g1, h1⟩
  cases comp with
  | some ev =>
    obtain ⟨c1, hok, hin⟩ := h1
    refine Sat.pushEv ⟨g1.push (g1.evs.push hok ?_ ?_), c1⟩
    · exact Nat.le_trans hb (hw.offAt_mono (Nat.le_of_lt c1))
    · intro sp hsp
      obtain ⟨h2, h3⟩ := hin sp hsp
      exact ⟨Nat.le_trans hb h2, h3⟩
  | none =>
    dsimp only at h1 ⊢
    refine Sat.bind (currentOffset_sat g1.g ?_)
    refine Sat.bind (Sat.getCur ?_)
    have hget : ts[s1.cur]? = some ts[s1.cur] := List.getElem?_eq_getElem (by omega)
    refine Sat.bind (Sat.mono (bumpAny_ge g1 hget) ?_)
    rintro _ s2 ⟨-, g2, c2⟩
    refine Sat.bind (Sat.mono (consumeWhile_ge _ g2) ?_)
    rintro _ s3 ⟨g3, c3, -, -, -⟩
    refine Sat.bind (Sat.get ?_)
    try dsimp only
    have hle : s1.cur ≤ s3.cur := by omega
    have hr : RunIn off w (offAt ts s1.cur) ((s3.toks.take s3.cur).drop s1.cur) := by
      rw [g3.g.toks]; exact hw.slice hle
    have hb3 : b ≤ offAt ts s3.cur := Nat.le_trans hb (hw.offAt_mono (by omega))
    refine Sat.bind (bpText_sat hr.run ?_)
    split
    · refine Sat.pushEv ⟨g3.push (g3.evs.push (ev := .text _) hr.text hb3 ?_), by show s.cur < s3.cur; omega⟩
      intro sp hsp
      simp only [Ev.srcSpan, Option.some.injEq] at hsp
      subst hsp
      have hrg := hr.text_range
      have e1 : lastStop (offAt ts s1.cur) ((s3.toks.take s3.cur).drop s1.cur) = offAt ts s3.cur := by
        rw [g3.g.toks]; exact offAt_slice hle
      rw [e1] at hrg
      refine ⟨?_, hrg.2⟩
      have hb1 : b ≤ offAt ts s1.cur := by rw [h1]; exact hb
      exact Nat.le_trans hb1 hrg.1
    · exact Sat.pure ⟨g3.boundL hb3, by omega⟩

theorem stepLoop_evL (hw : WFI off w ts) (hz : Boundary off w 0) (fuel : Nat) {b : Nat}
    (h : GE (TopInvL off w lo b) ts e s) (hb : b ≤ offAt ts s.cur) (hf : ts.length - s.cur ≤ fuel) :
    Sat (stepLoop (α := α) fuel) s
      (fun _ s' => GE (TopInvL off w lo (offAt ts ts.length)) ts e s' ∧ s'.cur = ts.length) := by
  have hle := h.le
  induction fuel generalizing s b with
  | zero =>
    unfold stepLoop
    refine Sat.bind (restToks_sat h.g ?_)
    have : ts.drop s.cur = [] := List.drop_eq_nil_of_le (by omega)
    rw [this]
    have e1 : s.cur = ts.length := by omega
    exact Sat.pure ⟨h.boundL (by rw [← e1]; exact hb), e1⟩
  | succ fuel ih =>
    unfold stepLoop
    refine Sat.bind (restToks_sat h.g ?_)
    split
    · rename_i hemp
      have := drop_isEmpty_true hemp
      have e1 : s.cur = ts.length := by omega
      exact Sat.pure ⟨h.boundL (by rw [← e1]; exact hb), e1⟩
    · rename_i hemp
      have hlt := drop_isEmpty_false (by simpa using hemp)
      refine Sat.bind (Sat.mono (stepOne_evL hw hz h hb hlt) ?_)
      rintro _ s1 ⟨g1, c1⟩
      exact ih g1 (Nat.le_refl _) (by omega) g1.le

theorem parseStep_evL (hw : WFI off w ts) (hz : Boundary off w 0) {b : Nat}
    (h : GE (TopInvL off w lo b) ts e s) (hb : b ≤ offAt ts s.cur) :
    Sat (parseStep (α := α)) s
      (fun _ s' => GE (TopInvL off w lo (offAt ts ts.length)) ts e s' ∧ s'.cur = ts.length) := by
  unfold parseStep
  refine Sat.bind (Sat.pushEv ?_)
  have g1 : GE (TopInvL off w lo b) ts e { s with evs := s.evs.push (.start .step) } :=
    h.push (h.evs.pushNone trivial rfl)
  refine Sat.bind (restToks_sat g1.g ?_)
  refine Sat.bind (Sat.mono (stepLoop_evL hw hz _ g1 hb (by simp)) ?_)
  rintro _ s2 ⟨g2, c2⟩
  exact Sat.pushEv ⟨g2.push (g2.evs.pushNone trivial rfl), c2⟩

theorem textLineK_evL (hw : WFI off w ts) {b : Nat} (h : GE (TopInvL off w lo b) ts e s)
    (hb : b ≤ offAt ts s.cur) (k : P α Unit) (Q : Unit → BP α → Prop)
    (hk : ∀ (s2 : BP α), GE (TopInvL off w lo (offAt ts s2.cur)) ts e s2 → s.cur ≤ s2.cur →
      (s.cur < ts.length → s.cur < s2.cur) → Sat k s2 Q) :
    Sat (textLineK (α := α) k) s Q := by
  unfold textLineK
  refine Sat.bind (currentOffset_sat h.g ?_)
  refine Sat.bind (Sat.getCur ?_)
  refine Sat.bind (Sat.mono (consumeWhile_ge _ h) ?_)
  rintro _ s1 ⟨g1, c1, -, -, hend⟩
  refine Sat.bind (Sat.mono (consumeK_ge _ g1) ?_)
  rintro r2 s2 ⟨g2, h2⟩
  have hprog : s1.cur ≤ s2.cur ∧ (s.cur < ts.length → s.cur < s2.cur) := by
    cases r2 with
    | some nl =>
      obtain ⟨-, -, c2⟩ := h2
      exact ⟨by omega, fun _ => by omega⟩
    | none =>
      obtain ⟨c2, hk⟩ := h2
      refine ⟨by omega, fun hlt => ?_⟩
      rcases Nat.lt_or_ge s.cur s1.cur with h' | h'
      · omega
      · exfalso
        have e1 : s1.cur = s.cur := by omega
        have hget : ts[s1.cur]? = some ts[s1.cur] := List.getElem?_eq_getElem (by omega)
        have := hend _ hget
        apply hk
        rw [hget]
        simp only [Option.map_some, Option.some.injEq]
        simpa using this
  refine Sat.bind (Sat.get ?_)
  dsimp only
  have hle : s.cur ≤ s2.cur := by omega
  have hr : RunIn off w (offAt ts s.cur) ((s2.toks.take s2.cur).drop s.cur) := by
    rw [g2.g.toks]; exact hw.slice hle
  have hb2 : b ≤ offAt ts s2.cur := Nat.le_trans hb (hw.offAt_mono hle)
  refine Sat.bind (bpText_sat hr.run ?_)
  split
  · refine Sat.bind (Sat.pushEv ?_)
    refine hk _ (g2.push (g2.evs.push (ev := .text _) hr.text hb2 ?_)) (by show s.cur ≤ s2.cur; omega) hprog.2
    intro sp hsp
    simp only [Ev.srcSpan, Option.some.injEq] at hsp
    subst hsp
    have hrg := hr.text_range
    have e1 : lastStop (offAt ts s.cur) ((s2.toks.take s2.cur).drop s.cur) = offAt ts s2.cur := by
      rw [g2.g.toks]; exact offAt_slice hle
    rw [e1] at hrg
    exact ⟨Nat.le_trans hb hrg.1, hrg.2⟩
  · exact hk _ (g2.boundL hb2) (by omega) hprog.2

theorem textBlockLoop_evL (hw : WFI off w ts) (fuel : Nat) {b : Nat} (h : GE (TopInvL off w lo b) ts e s)
    (hb : b ≤ offAt ts s.cur) (hf : ts.length - s.cur ≤ fuel) :
    Sat (textBlockLoop (α := α) fuel) s
      (fun _ s' => GE (TopInvL off w lo (offAt ts ts.length)) ts e s' ∧ s'.cur = ts.length) := by
  have hle := h.le
  induction fuel generalizing s b with
  | zero =>
    unfold textBlockLoop
    refine Sat.bind (restToks_sat h.g ?_)
    have : ts.drop s.cur = [] := List.drop_eq_nil_of_le (by omega)
    rw [this]
    have e1 : s.cur = ts.length := by omega
    exact Sat.pure ⟨h.boundL (by rw [← e1]; exact hb), e1⟩
  | succ fuel ih =>
    unfold textBlockLoop
    refine Sat.bind (restToks_sat h.g ?_)
    split
    · rename_i hemp
      have := drop_isEmpty_true hemp
      have e1 : s.cur = ts.length := by omega
      exact Sat.pure ⟨h.boundL (by rw [← e1]; exact hb), e1⟩
    · rename_i hemp
      have hlt := drop_isEmpty_false (by simpa using hemp)
      have tail : ∀ s1 : BP α, GE (TopInvL off w lo b) ts e s1 → s.cur ≤ s1.cur →
          Sat (textLineK (α := α) (textBlockLoop fuel)) s1
            (fun _ s' => GE (TopInvL off w lo (offAt ts ts.length)) ts e s' ∧ s'.cur = ts.length) := by
        intro s1 g1 c1
        refine textLineK_evL hw g1 (Nat.le_trans hb (hw.offAt_mono c1)) _ _ ?_
        intro s2 g2 c2 hp
        have hle2 := g2.le
        have hle1 := g1.le
        refine ih g2 (Nat.le_refl _) ?_ g2.le
        rcases Nat.lt_or_ge s1.cur ts.length with h' | h'
        · have := hp h'; omega
        · omega
      refine Sat.bind (Sat.mono (consumeK_ge _ h) ?_)
      rintro r1 s1 ⟨g1, h1⟩
      cases r1 with
      | none => exact tail s1 g1 (by omega)
      | some m =>
        obtain ⟨-, -, c1⟩ := h1
        dsimp only
        refine Sat.bind (Sat.mono (consumeK_ge _ g1) ?_)
        rintro r2 s2 ⟨g2, h2⟩
        refine tail s2 g2 ?_
        cases r2 with
        | none => omega
        | some w => obtain ⟨-, -, c2⟩ := h2; omega

theorem parseTextBlock_evL (hw : WFI off w ts) {b : Nat} (h : GE (TopInvL off w lo b) ts e s)
    (hb : b ≤ offAt ts s.cur) :
    Sat (parseTextBlock (α := α)) s
      (fun _ s' => GE (TopInvL off w lo (offAt ts ts.length)) ts e s' ∧ s'.cur = ts.length) := by
  unfold parseTextBlock
  refine Sat.bind (Sat.pushEv ?_)
  have g1 : GE (TopInvL off w lo b) ts e { s with evs := s.evs.push (.start .text) } :=
    h.push (h.evs.pushNone trivial rfl)
  refine Sat.bind (restToks_sat g1.g ?_)
  refine Sat.bind (Sat.mono (textBlockLoop_evL hw _ g1 hb (by simp)) ?_)
  rintro _ s2 ⟨g2, c2⟩
  exact Sat.pushEv ⟨g2.push (g2.evs.pushNone trivial rfl), c2⟩


theorem parseMultilineBlock_evL (hw : WFI off w ts) (hz : Boundary off w 0) {b : Nat}
    (h : GE (TopInvL off w lo b) ts e s) (hb : b ≤ offAt ts s.cur) :
    Sat (parseMultilineBlock (α := α)) s
      (fun _ s' => GE (TopInvL off w lo (offAt ts ts.length)) ts e s' ∧ s'.cur = ts.length) := by
  unfold parseMultilineBlock
  refine Sat.bind (allToks_sat h.g ?_)
  split
  · refine Sat.bind (Sat.mono (consumeRest_ge h) ?_)
    rintro _ s1 ⟨g1, c1, -⟩
    exact Sat.pure ⟨g1.boundL (Nat.le_trans hb (hw.offAt_mono h.le)), c1⟩
  · refine Sat.bind (peekK_sat h.g ?_)
    split
    · exact parseTextBlock_evL hw h hb
    · exact parseStep_evL hw hz h hb

theorem parseBlock_evL (oldStyle : Bool) (hw : WFI off w ts) (hz : Boundary off w 0) {b : Nat}
    (h : GE (TopInvL off w lo b) ts e s) (hb : b ≤ offAt ts s.cur) :
    Sat (parseBlock (α := α) oldStyle) s
      (fun _ s' => GE (TopInvL off w lo (offAt ts ts.length)) ts e s' ∧ s'.cur = ts.length) := by
  have hc := topCtxL (α := α) hw lo b
  unfold parseBlock
  apply Sat.bind
  apply Sat.mono (Q := fun r s' => GE (TopInvL off w lo b) ts e s' ∧
    match r with
    | none => s'.cur = s.cur
    | some ev => s'.cur = ts.length ∧ EvSpansOK off w ev ∧ EvIn ts s.cur ts.length ev)
  · refine Sat.bind (peekK_sat h.g ?_)
    split
    · apply withRecover_sat
      refine Sat.bind (Sat.mono (metadataEntry_ev hc h) ?_)
      rintro r1 s1 ⟨g1, h1, h2⟩
      split
      · refine Sat.bind (Sat.get ?_)
        refine Sat.bind (hasExt_sat g1.g ?_)
        split
        · refine Sat.pure ⟨g1, h1 rfl, h2.1, ?_⟩
          have := h2.2
          rw [h1 rfl] at this
          exact this
        · exact Sat.pure ⟨g1.setCur h.le, rfl⟩
      · exact Sat.pure ⟨g1.setCur h.le, rfl⟩
    · apply withRecover_sat
      refine Sat.mono (sectionP_ev hc h) ?_
      rintro r1 s1 ⟨g1, h1, h2⟩
      cases r1 with
      | none => exact ⟨g1.setCur h.le, rfl⟩
      | some ev =>
        refine ⟨g1, h1 rfl, h2.1, ?_⟩
        have := h2.2
        rw [h1 rfl] at this
        exact this
    · exact Sat.pure ⟨h, rfl⟩
  rintro r s1 ⟨g1, h1⟩
  cases r with
  | some ev =>
    obtain ⟨c1, hok, hin⟩ := h1
    have hbl : b ≤ offAt ts ts.length := Nat.le_trans hb (hw.offAt_mono h.le)
    refine Sat.pushEv ⟨g1.push (g1.evs.push hok hbl ?_), c1⟩
    intro sp hsp
    obtain ⟨h2, h3⟩ := hin sp hsp
    exact ⟨Nat.le_trans hb h2, h3⟩
  | none =>
    dsimp only at h1
    exact parseMultilineBlock_evL hw hz g1 (by rw [h1]; exact hb)

/-- **one block**: if the queue is fine before (`TopInvL` with all content events ending at or before
    the start of the block), it is fine after, with all content events ending at or before the end
    of the block -/
theorem runBlock_evL (cs : CharSpec) (ext : Ext) (oldStyle : Bool) (blk : List Tok) (evs : Array (Ev α))
    (hw : WFI off w blk) (hz : Boundary off w 0) {b : Nat} (hinv : TopInvL off w lo b evs)
    (hb : b ≤ baseOff blk) :
    TopInvL off w lo (offAt blk blk.length) (runBlock cs ext oldStyle blk evs none).1 := by
  have g0 : GE (TopInvL off w lo b) blk ext (⟨blk, 0, ext, cs, evs, none⟩ : BP α) :=
    ⟨⟨rfl, rfl, rfl, Nat.zero_le _⟩, hinv⟩
  have hne : blk.isEmpty = false := by
    have := hw.ne
    cases blk <;> simp_all
  have key : Sat (do
      if blk.isEmpty then panicWith "BlockParser::new: empty tokens"
      parseBlock (α := α) oldStyle
      let s ← get
      if s.cur ≠ s.toks.length then panicWith "Block tokens not parsed") ⟨blk, 0, ext, cs, evs, none⟩
      (fun _ s' => TopInvL off w lo (offAt blk blk.length) s'.evs) := by
    simp only [hne, Bool.false_eq_true, if_false]
    refine Sat.bind (Sat.mono (parseBlock_evL oldStyle hw hz g0 (by rw [offAt_zero]; exact hb)) ?_)
    rintro _ s1 ⟨g1, c1⟩
    refine Sat.bind (Sat.get ?_)
    have : s1.cur = s1.toks.length := by rw [g1.g.toks]; exact c1
    simp only [this, ne_eq, not_true_eq_false, if_false]
    exact Sat.pure g1.evs
  exact key


/-! ### document level -/

theorem foldl_runBlock_evL (cs : CharSpec) (ext : Ext) (oldStyle : Bool) (blocks : List (List Tok))
    (evs0 : Array (Ev α)) {b : Nat} (hz : Boundary off w 0) (hinv : TopInvL off w lo b evs0)
    (hbl : BlocksIn off w b blocks) :
    ∃ b', TopInvL off w lo b'
      (blocks.foldl (fun acc blk => runBlock (α := α) cs ext oldStyle blk acc.1 acc.2) (evs0, none)).1 := by
  induction blocks generalizing evs0 b with
  | nil => exact ⟨b, hinv⟩
  | cons blk bs ih =>
    rw [List.foldl_cons]
    obtain ⟨hw, hb, hrest⟩ := hbl
    have h1 := runBlock_no_panic (α := α) cs ext oldStyle blk evs0 hw.wf
    have e1 : runBlock (α := α) cs ext oldStyle blk evs0 none =
        ((runBlock (α := α) cs ext oldStyle blk evs0 none).1, none) := by
      apply Prod.ext
      · rfl
      · exact h1
    show ∃ b', TopInvL off w lo b' (bs.foldl _ (runBlock (α := α) cs ext oldStyle blk evs0 none)).1
    rw [e1]
    exact ih _ (runBlock_evL cs ext oldStyle blk evs0 hw hz hinv hb) hrest

/-! ### the block parsers never push a front-matter event -/

/-- not a `YAMLFrontMatter` event -/
def Ev.notFM : Ev α → Prop
  | .frontMatter _ => False
  | _ => True

instance : DiagQ (Ev.notFM (α := α)) := ⟨fun _ => trivial, fun _ => trivial⟩

theorem orderF_stepContent_notFM {ev : Ev α} (h : StepContent ev) : ev.notFM := by
  rcases h with ⟨t, rfl⟩ | ⟨-, h⟩
  · trivial
  · cases ev <;> first | trivial | (simp [evSpan] at h)

instance {base : Array (Ev α)} : StepStable (ExtQ base (Ev.notFM (α := α))) :=
  ⟨fun evs ev hc h => h.push (orderF_stepContent_notFM hc)⟩

section notfm
variable {base : Array (Ev α)}
local notation "INF" => ExtQ base (Ev.notFM (α := α))

theorem orderF_parseBlock_notFM (oldStyle : Bool) : Keeps INF (parseBlock (α := α) oldStyle) (fun _ => True) := by
  have hstart : ∀ k, Keeps INF (pushEv (α := α) (.start k)) (fun _ => True) :=
    fun k => Keeps.pushEv (fun _ h => h.push trivial)
  have hstop : ∀ k, Keeps INF (pushEv (α := α) (.stop k)) (fun _ => True) :=
    fun k => Keeps.pushEv (fun _ h => h.push trivial)
  have hstep : Keeps INF (parseStep (α := α)) (fun _ => True) := by
    have h1 := hstart .step
    have h2 := hstop .step
    unfold parseStep; keeps
  have htext : Keeps INF (parseTextBlock (α := α)) (fun _ => True) := by
    have h1 := hstart .text
    have h2 := hstop .text
    unfold parseTextBlock; keeps
  have hmulti : Keeps INF (parseMultilineBlock (α := α)) (fun _ => True) := by
    unfold parseMultilineBlock; keeps
  unfold parseBlock
  apply Keeps.bind (R := fun r => ∀ ev, r = some ev → Ev.notFM ev)
  · have h1 := (closing_sectionP_keeps (α := α) (I := INF)).mono
      (R' := fun r => ∀ ev, r = some ev → Ev.notFM ev) (fun r hr ev he => by obtain ⟨n, rfl⟩ := hr ev he; trivial)
    have h2 := (closing_metadataEntry_keeps (α := α) (I := INF)).mono
      (R' := fun r => ∀ ev, r = some ev → Ev.notFM ev) (fun r hr ev he => by obtain ⟨k, v, rfl⟩ := hr ev he; trivial)
    keeps
    all_goals (refine Keeps.pure ?_; intro ev he; first | (cases he; done) | (cases he; trivial))
  · intro r hr
    split
    · rename_i ev
      exact Keeps.pushEv (fun _ h => h.push (hr ev rfl))
    · exact hmulti

end notfm

/-- one block appends events none of which is a front-matter event -/
theorem orderF_runBlock_notFM (cs : CharSpec) (ext : Ext) (oldStyle : Bool) (b : List Tok)
    (evs : Array (Ev α)) (panic : Option String) :
    ∃ l : List (Ev α), (runBlock cs ext oldStyle b evs panic).1 = evs ++ l.toArray ∧ ∀ e ∈ l, Ev.notFM e := by
  have key : Keeps (ExtQ evs (Ev.notFM (α := α))) (do
      if b.isEmpty then panicWith "BlockParser::new: empty tokens"
      parseBlock (α := α) oldStyle
      let s ← get
      if s.cur ≠ s.toks.length then panicWith "Block tokens not parsed") (fun _ => True) := by
    have := orderF_parseBlock_notFM (α := α) (base := evs) oldStyle
    keeps
  exact (key.run ⟨b, 0, ext, cs, evs, panic⟩ (ExtQ.refl _ _)).1

theorem orderF_foldl_runBlock_notFM (cs : CharSpec) (ext : Ext) (oldStyle : Bool) (blocks : List (List Tok))
    (acc : Array (Ev α) × Option String) :
    ∃ l : List (Ev α), (blocks.foldl (fun acc b => runBlock (α := α) cs ext oldStyle b acc.1 acc.2) acc).1 =
      acc.1 ++ l.toArray ∧ ∀ e ∈ l, Ev.notFM e := by
  induction blocks generalizing acc with
  | nil => exact ⟨[], by simp, by simp⟩
  | cons b bs ih =>
    rw [List.foldl_cons]
    obtain ⟨l1, h1, c1⟩ := orderF_runBlock_notFM cs ext oldStyle b acc.1 acc.2
    obtain ⟨l2, h2, c2⟩ := ih (runBlock cs ext oldStyle b acc.1 acc.2)
    refine ⟨l1 ++ l2, by rw [h2, h1]; simp, ?_⟩
    intro e he
    rcases List.mem_append.1 he with he | he
    · exact c1 e he
    · exact c2 e he

/-! ### the source order with the front-matter event in it -/

/-- the source span of a content event, the `YAMLFrontMatter` event included (its span is the span of
    the YAML text) -/
def Ev.srcSpanF : Ev α → Option Span
  | .frontMatter t => some t.span
  | ev => ev.srcSpan

/-- the content events, front matter included, appear in source order without overlapping -/
def SrcOrderedF (evs : List (Ev α)) : Prop :=
  evs.Pairwise (fun a b => ∀ sa sb, a.srcSpanF = some sa → b.srcSpanF = some sb → sa.stop ≤ sb.start)

theorem Ev.notFM.srcSpanF {ev : Ev α} (h : ev.notFM) : ev.srcSpanF = ev.srcSpan := by
  cases ev <;> first | rfl | cases h

theorem srcOrderedF_of_notFM {l : List (Ev α)} (hn : ∀ e ∈ l, Ev.notFM e) (h : SrcOrdered l) : SrcOrderedF l := by
  unfold SrcOrderedF
  unfold SrcOrdered at h
  refine List.Pairwise.imp_of_mem ?_ h
  intro a b ha hb hab sa sb hsa hsb
  rw [(hn a ha).srcSpanF] at hsa
  rw [(hn b hb).srcSpanF] at hsb
  exact hab sa sb hsa hsb

theorem orderF_fromStr_span_stop (y : List Char) (o : Nat) : (Text.fromStr y o).span.stop = o + utf8Len y := by
  unfold Text.fromStr Text.appendStr Text.appendFrag
  cases y with
  | nil => simp [Text.empty, Text.span, Span.pos, utf8Len]
  | cons c r => simp [Text.empty, Text.span, Span.pos, Frag.stop]

/-- **the whole document, front matter included**: the content events of `PullParser` — the
    `YAMLFrontMatter` event (if the input has front matter) first, then texts, components, metadata
    entries and sections — have pairwise disjoint spans, increasing in the order emitted -/
theorem pullEvents_srcOrderedF (cs : CharSpec) (ext : Ext) (input : List Char) :
    SrcOrderedF (pullEvents (α := α) cs ext input).1.toList := by
  have hz : Boundary 0 input 0 := Boundary.first
  have hfm := frontMatterOffsetsOK cs input
  unfold pullEvents
  cases hp : parseFrontmatter cs input with
  | none =>
    simp only
    obtain ⟨l, e, hl⟩ := orderF_foldl_runBlock_notFM (α := α) cs ext true
      (allBlocks ((lex cs input).length + 1) (lex cs input)) (#[], none)
    have hord : SrcOrdered (α := α) (List.foldl (fun acc blk => runBlock (α := α) cs ext true blk acc.1 acc.2)
        (#[], none) (allBlocks ((lex cs input).length + 1) (lex cs input))).1.toList := by
      have := pullEvents_topInv (α := α) cs ext input hfm
      unfold pullEvents at this
      rw [hp] at this
      obtain ⟨b, hb⟩ := this
      exact hb.ord
    rw [e] at hord ⊢
    simp only [Array.toList_append, List.toList_toArray, Array.toList_empty, List.nil_append] at hord ⊢
    exact srcOrderedF_of_notFM hl hord
  | some fm =>
    simp only
    obtain ⟨⟨pre, h1, h2⟩, h3⟩ := hfm fm hp
    obtain ⟨pre', mid, e0, o1, o2⟩ := blocks_frontmatter_offsets cs input fm hp
    have hstop : (Text.fromStr fm.yamlText fm.yamlOffset).span.stop ≤ fm.cookOffset := by
      rw [orderF_fromStr_span_stop, o1, o2]
      simp only [utf8Len_append]; omega
    obtain ⟨l, e, hl⟩ := orderF_foldl_runBlock_notFM (α := α) cs ext false
      (allBlocks ((lexFrom cs fm.cookOffset fm.cookText).length + 1) (lexFrom cs fm.cookOffset fm.cookText))
      (#[.frontMatter (Text.fromStr fm.yamlText fm.yamlOffset)], none)
    have hinv0 : TopInvL (α := α) 0 input fm.cookOffset fm.cookOffset
        #[.frontMatter (Text.fromStr fm.yamlText fm.yamlOffset)] :=
      ⟨(topInv_empty fm.cookOffset).pushNone h3 rfl, Nat.le_refl _, by
        intro ev hev sp hsp
        simp only [List.mem_singleton] at hev
        subst hev
        cases hsp⟩
    obtain ⟨b', hb'⟩ := foldl_runBlock_evL (α := α) cs ext false
      (allBlocks ((lexFrom cs fm.cookOffset fm.cookText).length + 1) (lexFrom cs fm.cookOffset fm.cookText))
      _ hz hinv0 (by
        apply allBlocks_blocksIn _ _ fm.cookOffset _ (Nat.le_refl _)
        exact ⟨⟨lexFrom_chain cs _ _, lexFrom_escapedOK cs _ _⟩,
          ⟨pre, [], by simp [lexFrom_tile, h1], by simp [h2]⟩⟩)
    have hord := hb'.top.ord
    have hlow := hb'.low
    rw [e] at hord hlow ⊢
    simp only [Array.toList_append, List.toList_toArray, List.singleton_append,
      List.cons_append, List.nil_append] at hord hlow ⊢
    unfold SrcOrderedF
    unfold SrcOrdered at hord
    rw [List.pairwise_cons] at hord ⊢
    refine ⟨?_, srcOrderedF_of_notFM hl hord.2⟩
    intro x hx sa sb hsa hsb
    simp only [Ev.srcSpanF, Option.some.injEq] at hsa
    subst hsa
    rw [(hl x hx).srcSpanF] at hsb
    exact Nat.le_trans hstop (hlow x (List.mem_cons_of_mem _ hx) sb hsb)

/-- with front matter: the event list is the front-matter event followed by events none of which is a
    front-matter event and whose content spans all start at or after `cooklang_offset`; the YAML text ends at
    or before it -/
theorem pullEvents_frontMatter_first (cs : CharSpec) (ext : Ext) (input : List Char) (fm : FrontMatter)
    (hp : parseFrontmatter cs input = some fm) :
    ∃ l : List (Ev α), (pullEvents (α := α) cs ext input).1.toList =
        .frontMatter (Text.fromStr fm.yamlText fm.yamlOffset) :: l ∧
      (Text.fromStr fm.yamlText fm.yamlOffset).span.stop ≤ fm.cookOffset ∧
      ∀ ev ∈ l, ev.notFM ∧ ∀ sp, ev.srcSpan = some sp → fm.cookOffset ≤ sp.start := by
  have hz : Boundary 0 input 0 := Boundary.first
  have hfm := frontMatterOffsetsOK cs input
  unfold pullEvents
  simp only [hp]
  obtain ⟨⟨pre, h1, h2⟩, h3⟩ := hfm fm hp
  obtain ⟨pre', mid, e0, o1, o2⟩ := blocks_frontmatter_offsets cs input fm hp
  have hstop : (Text.fromStr fm.yamlText fm.yamlOffset).span.stop ≤ fm.cookOffset := by
    rw [orderF_fromStr_span_stop, o1, o2]
    simp only [utf8Len_append]; omega
  obtain ⟨l, e, hl⟩ := orderF_foldl_runBlock_notFM (α := α) cs ext false
    (allBlocks ((lexFrom cs fm.cookOffset fm.cookText).length + 1) (lexFrom cs fm.cookOffset fm.cookText))
    (#[.frontMatter (Text.fromStr fm.yamlText fm.yamlOffset)], none)
  have hinv0 : TopInvL (α := α) 0 input fm.cookOffset fm.cookOffset
      #[.frontMatter (Text.fromStr fm.yamlText fm.yamlOffset)] :=
    ⟨(topInv_empty fm.cookOffset).pushNone h3 rfl, Nat.le_refl _, by
      intro ev hev sp hsp
      simp only [List.mem_singleton] at hev
      subst hev
      cases hsp⟩
  obtain ⟨b', hb'⟩ := foldl_runBlock_evL (α := α) cs ext false
    (allBlocks ((lexFrom cs fm.cookOffset fm.cookText).length + 1) (lexFrom cs fm.cookOffset fm.cookText))
    _ hz hinv0 (by
      apply allBlocks_blocksIn _ _ fm.cookOffset _ (Nat.le_refl _)
      exact ⟨⟨lexFrom_chain cs _ _, lexFrom_escapedOK cs _ _⟩,
        ⟨pre, [], by simp [lexFrom_tile, h1], by simp [h2]⟩⟩)
  have hlow := hb'.low
  rw [e] at hlow ⊢
  simp only [Array.toList_append, List.toList_toArray, List.singleton_append,
    List.cons_append, List.nil_append] at hlow ⊢
  exact ⟨l, rfl, hstop, fun ev hev => ⟨hl ev hev, hlow ev (List.mem_cons_of_mem _ hev)⟩⟩

/-! ### the metadata-only stream -/

theorem orderF_runMetaBlock_notFM (cs : CharSpec) (ext : Ext) (b : List Tok)
    (evs : Array (Ev α)) (panic : Option String) (h : AllQ Ev.notFM evs) :
    AllQ Ev.notFM (runMetaBlock cs ext b evs panic).1 := by
  have key : Keeps (AllQ (Ev.notFM (α := α))) (do
      if b.isEmpty then panicWith "BlockParser::new: empty tokens"
      match ← metadataEntry (α := α) with
      | some ev =>
        pushEv ev
        let s ← get
        if s.cur ≠ s.toks.length then panicWith "Block tokens not parsed"
      | none => pure ()) (fun _ => True) := by
    have hm := closing_metadataEntry_keeps (α := α) (I := AllQ Ev.notFM)
    have tail : Keeps (AllQ (Ev.notFM (α := α))) (do
        match ← metadataEntry (α := α) with
        | some ev =>
          pushEv ev
          let s ← get
          if s.cur ≠ s.toks.length then panicWith "Block tokens not parsed"
        | none => pure ()) (fun _ => True) := by
      refine Keeps.bind hm (fun r hr => ?_)
      split
      · rename_i ev
        obtain ⟨k, v, rfl⟩ := hr ev rfl
        have : Keeps (AllQ (Ev.notFM (α := α))) (pushEv (.metadata k v)) (fun _ => True) :=
          Keeps.pushEv (fun _ h => h.push trivial)
        keeps
      · exact Keeps.pure trivial
    dsimp only
    split
    · exact Keeps.bind (Keeps.panicWith _) (fun _ _ => tail)
    · exact tail
  exact (key.run ⟨b, 0, ext, cs, evs, panic⟩ h).1

/-- the same for the metadata-only scanner (`into_meta_iter`): the front-matter event alone, or the `>>`
    entries in source order -/
theorem pullMetaEvents_srcOrderedF (cs : CharSpec) (ext : Ext) (input : List Char) :
    SrcOrderedF (pullMetaEvents (α := α) cs ext input).1.toList := by
  obtain ⟨b, hb⟩ := pullMetaEvents_topInv (α := α) cs ext input
  have hord := hb.ord
  unfold pullMetaEvents at hord ⊢
  cases hp : parseFrontmatter cs input with
  | some fm => simp [SrcOrderedF]
  | none =>
    rw [hp] at hord
    simp only at hord ⊢
    refine srcOrderedF_of_notFM ?_ hord
    have : ∀ (blocks : List (List Tok)) (acc : Array (Ev α) × Option String), AllQ Ev.notFM acc.1 →
        AllQ Ev.notFM (blocks.foldl (fun acc b => runMetaBlock (α := α) cs ext b acc.1 acc.2) acc).1 := by
      intro blocks
      induction blocks with
      | nil => intro acc h; exact h
      | cons b bs ih =>
        intro acc h
        rw [List.foldl_cons]
        exact ih _ (orderF_runMetaBlock_notFM cs ext b acc.1 acc.2 h)
    exact this _ _ (fun ev hev => by simp at hev)

end Cook
