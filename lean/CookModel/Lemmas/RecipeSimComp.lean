import CookModel.Lemmas.RecipeSim
/-
  C17, the lift through the analysis pass (2): cookware, timers, step text, blocks.
-/
set_option linter.unusedSectionVars false
set_option linter.unusedVariables false
set_option linter.unusedSimpArgs false
namespace Cook
variable {α : Type} [Arith α] {uws : Char → Bool}

theorem cwRefChecks_arel (input' input : Str) {lc' lc : Loc (PCookware α)}
    (h : PCookwareSim uws lc'.val lc.val) (cw : Cookware (ScalableValue α))
    (defn : Cookware (ScalableValue α)) (defLoc' defLoc : Loc (PCookware α)) :
    ARel (α := α) uws (fun _ _ => True) (cwRefChecks input' lc' cw defn defLoc')
      (cwRefChecks input lc cw defn defLoc) := by
  unfold cwRefChecks
  dsimp only
  rcases h.note.elim with ⟨e', e⟩ | ⟨x', x, e', e, hx⟩ <;> rw [e', e] <;>
    cases cw.quantity <;> cases defn.quantity <;> dsimp only <;> arel

theorem cwSetReferencedFrom_arel (refTo newIndex : Nat) (defn : Cookware (ScalableValue α)) :
    ARel (α := α) uws (fun _ _ => True) (cwSetReferencedFrom refTo newIndex defn)
      (cwSetReferencedFrom refTo newIndex defn) := by
  unfold cwSetReferencedFrom
  cases defn.relation with
  | reference _ => exact ARel.apanic _ _
  | definition rf b =>
    dsimp only
    apply ARel.modify
    intro c' c hc
    colsim hc

theorem cwResolve_arel (env : Env) (input' input : Str) {lc' lc : Loc (PCookware α)}
    (h : PCookwareSim uws lc'.val lc.val) (cw0 : Cookware (ScalableValue α)) :
    ARel (α := α) uws Eq (cwResolve env input' lc' cw0) (cwResolve env input lc cw0) := by
  unfold cwResolve
  apply ARel.bind ARel.get
  intro s' s hs
  simp only [hs.cookware]
  apply ARel.bind (resolveReference_arel _ _ _ _ _ _ _ _ _ _)
  intro r' r hr
  subst hr
  cases r'.2 with
  | none => exact ARel.pure rfl
  | some o =>
    dsimp only
    apply ARel.bind ARel.get
    intro t' t ht
    simp only [ht.cookware]
    rcases getElem?_of_size_eq ht.locCw o.refTo with ⟨e', e⟩ | ⟨x, y, e', e⟩
    · rw [e', e]
      cases t.cookware[o.refTo]? <;> arel
    · rw [e', e]
      cases t.cookware[o.refTo]? with
      | none => arel
      | some defn =>
        dsimp only
        apply ARel.bind (cwRefChecks_arel input' input h _ _ _ _)
        intro _ _ _
        apply ARel.bind (cwSetReferencedFrom_arel _ _ _)
        intro _ _ _
        exact ARel.pure rfl

theorem cwBuild_arel (env : Env) (input' input : Str) {lc' lc : Loc (PCookware α)}
    (h : PCookwareSim uws lc'.val lc.val) (cw0 : Cookware (ScalableValue α)) :
    ARel (α := α) uws Eq (cwBuild env input' lc' cw0) (cwBuild env input lc cw0) := by
  unfold cwBuild
  apply ARel.bind (cwResolve_arel env input' input h cw0)
  intro g' g hg
  subst hg
  apply ARel.bind (R := fun _ _ => True)
  · apply ARel.modify
    intro c' c hc
    colsim hc
    show (c'.locCw.push _).size = (c.locCw.push _).size
    simp [hc.locCw]
  intro _ _ _
  apply ARel.bind ARel.get
  intro t' t ht
  rw [ht.cookware]
  exact ARel.pure rfl

theorem cookwareA_arel (env : Env) (input' input : Str) {lc' lc : Loc (PCookware α)}
    (h : PCookwareSim env.cs.uws lc'.val lc.val) :
    ARel (α := α) env.cs.uws Eq (cookwareA env input' lc') (cookwareA env input lc) := by
  unfold cookwareA
  simp only [h.name.trimmed, optTrimmed_eq h.alias, optTrimmed_eq h.note, h.modifiers]
  apply ARel.bind (optValueOf_arel env h.quantity)
  intro q' q hq
  subst hq
  apply ARel.bind ARel.get
  intro s' s hs
  rw [hs.defineMode]
  exact cwBuild_arel env input' input h _

theorem timerQuantityChecks_arel (env : Env) {q' q : Loc (PQuantity α)} (r : Quantity (ScalableValue α)) :
    ARel (α := α) uws (fun _ _ => True) (timerQuantityChecks env q' r) (timerQuantityChecks env q r) := by
  unfold timerQuantityChecks
  cases r.unit with
  | none => dsimp only; arel
  | some u => dsimp only; cases env.findUnit u <;> dsimp only <;> arel

theorem timerQuantity_arel (env : Env) {q' q : Option (Loc (PQuantity α))}
    (h : OptRel (LocSim (PQuantitySim env.cs.uws)) q' q) :
    ARel (α := α) uws Eq (timerQuantity env q') (timerQuantity env q) := by
  unfold timerQuantity
  rcases h.elim with ⟨rfl, rfl⟩ | ⟨x', x, rfl, rfl, hx⟩
  · exact ARel.pure rfl
  · dsimp only
    apply ARel.bind (quantityOf_arel env hx false)
    intro r' r hr
    subst hr
    apply ARel.bind (timerQuantityChecks_arel env _)
    intro _ _ _
    exact ARel.pure rfl

theorem timerA_arel (env : Env) {lt' lt : Loc (PTimer α)} (h : PTimerSim env.cs.uws lt'.val lt.val) :
    ARel (α := α) uws Eq (timerA env lt') (timerA env lt) := by
  unfold timerA
  simp only [optTrimmed_eq h.name]
  apply ARel.bind (timerQuantity_arel env h.quantity)
  intro q' q hq
  subst hq
  apply ARel.bind (R := fun _ _ => True)
  · apply ARel.modify
    intro c' c hc
    colsim hc
  intro _ _ _
  apply ARel.bind ARel.get
  intro t' t ht
  rw [ht.timers]
  exact ARel.pure rfl

end Cook
