import CookModel.Lemmas.CollectorFold
/-
  C06, document order: reading the sections, their steps and the items of each step in order, the
  ingredient item indices are strictly increasing, and so are the cookware, timer and inline
  quantity indices, each below the length of its table.

  (They are not consecutive in general: under MODES a block in `[mode]: components` adds its
  components to the tables without pushing a step.)

  `docItems s`: the items of the pushed sections, then of the current section, then of the open block.
  `OrdInv s`  : for each kind, the indices in `docItems s` are strictly increasing and below the table size.
-/
set_option linter.unusedSectionVars false
set_option linter.unusedSimpArgs false
set_option linter.unusedVariables false
namespace Cook
variable {α : Type} [Arith α]

def contentItems : Content → List Item
  | .step st => st.items
  | .text _ => []

/-- the items of a section in order -/
def secItems (sec : Section) : List Item := sec.content.flatMap contentItems

def blockItems : Option BlockBuf → List Item
  | some (.step items) => items
  | _ => []

def docItems (s : Col α) : List Item := s.sections.flatMap secItems ++ secItems s.cur ++ blockItems s.block

def Item.ingrIdx : Item → Option Nat
  | .ingredient i => some i
  | _ => none
def Item.cwIdx : Item → Option Nat
  | .cookware i => some i
  | _ => none
def Item.timerIdx : Item → Option Nat
  | .timer i => some i
  | _ => none
def Item.iqIdx : Item → Option Nat
  | .inlineQuantity i => some i
  | _ => none

/-- strictly increasing, all below `n` -/
def IncBelow (n : Nat) (l : List Nat) : Prop := l.Pairwise (· < ·) ∧ ∀ i ∈ l, i < n

/-- strictly increasing, all in `[n, n')` -/
def Fresh (n n' : Nat) (l : List Nat) : Prop := n ≤ n' ∧ l.Pairwise (· < ·) ∧ ∀ i ∈ l, n ≤ i ∧ i < n'

theorem IncBelow.nil (n : Nat) : IncBelow n [] := ⟨List.Pairwise.nil, fun i h => by cases h⟩

theorem IncBelow.sublist {n n' : Nat} {l l' : List Nat} (h : IncBelow n l) (hs : l'.Sublist l) (hn : n ≤ n') :
    IncBelow n' l' :=
  ⟨h.1.sublist hs, fun i hi => Nat.lt_of_lt_of_le (h.2 i (hs.subset hi)) hn⟩

theorem IncBelow.append {n n' : Nat} {l l' : List Nat} (h : IncBelow n l) (hf : Fresh n n' l') :
    IncBelow n' (l ++ l') := by
  refine ⟨List.pairwise_append.mpr ⟨h.1, hf.2.1, ?_⟩, ?_⟩
  · intro a ha b hb
    have := h.2 a ha
    have := (hf.2.2 b hb).1
    omega
  · intro i hi
    simp only [List.mem_append] at hi
    rcases hi with hi | hi
    · have := h.2 i hi; have := hf.1; omega
    · exact (hf.2.2 i hi).2

theorem Fresh.nil {n n' : Nat} (h : n ≤ n') : Fresh n n' [] := ⟨h, List.Pairwise.nil, fun i hi => by cases hi⟩

theorem Fresh.one {n n' : Nat} (i : Nat) (h1 : n ≤ i) (h2 : i < n') : Fresh n n' [i] :=
  ⟨by omega, List.pairwise_singleton _ _, fun j hj => by simp only [List.mem_singleton] at hj; subst hj; exact ⟨h1, h2⟩⟩

structure OrdInv (s : Col α) : Prop where
  ingr : IncBelow s.ingredients.size ((docItems s).filterMap Item.ingrIdx)
  cw : IncBelow s.cookware.size ((docItems s).filterMap Item.cwIdx)
  tm : IncBelow s.timers.size ((docItems s).filterMap Item.timerIdx)
  iq : IncBelow s.inlineQ.size ((docItems s).filterMap Item.iqIdx)

theorem OrdInv.init : OrdInv (α := α) {} :=
  ⟨IncBelow.nil _, IncBelow.nil _, IncBelow.nil _, IncBelow.nil _⟩

/-- items are only dropped, tables only grow -/
theorem OrdInv.of_sublist {s s' : Col α} (h : OrdInv s) (hs : (docItems s').Sublist (docItems s))
    (h1 : s.ingredients.size ≤ s'.ingredients.size) (h2 : s.cookware.size ≤ s'.cookware.size)
    (h3 : s.timers.size ≤ s'.timers.size) (h4 : s.inlineQ.size ≤ s'.inlineQ.size) : OrdInv s' :=
  ⟨h.ingr.sublist (hs.filterMap _) h1, h.cw.sublist (hs.filterMap _) h2, h.tm.sublist (hs.filterMap _) h3,
   h.iq.sublist (hs.filterMap _) h4⟩

/-- items are appended whose indices address the new part of the tables -/
theorem OrdInv.append {s s' : Col α} (h : OrdInv s) (extra : List Item) (hs : docItems s' = docItems s ++ extra)
    (h1 : Fresh s.ingredients.size s'.ingredients.size (extra.filterMap Item.ingrIdx))
    (h2 : Fresh s.cookware.size s'.cookware.size (extra.filterMap Item.cwIdx))
    (h3 : Fresh s.timers.size s'.timers.size (extra.filterMap Item.timerIdx))
    (h4 : Fresh s.inlineQ.size s'.inlineQ.size (extra.filterMap Item.iqIdx)) : OrdInv s' := by
  refine ⟨?_, ?_, ?_, ?_⟩ <;> rw [hs, List.filterMap_append]
  · exact h.ingr.append h1
  · exact h.cw.append h2
  · exact h.tm.append h3
  · exact h.iq.append h4

theorem blockItems_sublist_of (b b' : Option BlockBuf) (h : b' = b ∨ ∃ t, b' = some (.text t)) :
    (blockItems b').Sublist (blockItems b) := by
  rcases h with h | ⟨t, h⟩
  · rw [h]; exact List.Sublist.refl _
  · rw [h]; exact List.nil_sublist _

theorem OrdInv.congr {s s' : Col α} (hc : CoreEq s s') (h : OrdInv s) : OrdInv s' := by
  obtain ⟨h1, h2, h3, h4, h5, h6, h7, h8, h9, h10⟩ := hc
  refine h.of_sublist ?_ (by rw [h3]; exact Nat.le_refl _) (by rw [h4]; exact Nat.le_refl _)
    (by rw [h5]; exact Nat.le_refl _) (by rw [h6]; exact Nat.le_refl _)
  unfold docItems
  rw [h1, h2]
  exact List.Sublist.append (List.Sublist.refl _) (blockItems_sublist_of _ _ h10)

/-- the block is replaced by one without items (or closed), everything else stays -/
theorem OrdInv.dropBlock {s s' : Col α} (h : OrdInv s) (h1 : s'.sections = s.sections) (h2 : s'.cur = s.cur)
    (h3 : s'.ingredients = s.ingredients) (h4 : s'.cookware = s.cookware) (h5 : s'.timers = s.timers)
    (h6 : s'.inlineQ = s.inlineQ) (hb : blockItems s'.block = []) : OrdInv s' := by
  refine h.of_sublist ?_ (by rw [h3]; exact Nat.le_refl _) (by rw [h4]; exact Nat.le_refl _)
    (by rw [h5]; exact Nat.le_refl _) (by rw [h6]; exact Nat.le_refl _)
  unfold docItems
  rw [h1, h2, hb]
  exact List.Sublist.append (List.Sublist.refl _) (List.nil_sublist _)

/-- same items, same tables -/
theorem OrdInv.same {s s' : Col α} (h : OrdInv s) (hd : docItems s' = docItems s)
    (h3 : s'.ingredients = s.ingredients) (h4 : s'.cookware = s.cookware) (h5 : s'.timers = s.timers)
    (h6 : s'.inlineQ = s.inlineQ) : OrdInv s' :=
  h.of_sublist (by rw [hd]; exact List.Sublist.refl _) (by rw [h3]; exact Nat.le_refl _)
    (by rw [h4]; exact Nat.le_refl _) (by rw [h5]; exact Nat.le_refl _) (by rw [h6]; exact Nat.le_refl _)

/-! ### step text -/

theorem inlineLoop_order (env : Env) (fuel : Nat) (hay : Str) (items : List Item) (iq : Array (Quantity (Value α))) :
    ∃ extra, (inlineLoop env fuel hay items iq).1 = items ++ extra ∧
      extra.filterMap Item.ingrIdx = [] ∧ extra.filterMap Item.cwIdx = [] ∧ extra.filterMap Item.timerIdx = [] ∧
      Fresh iq.size (inlineLoop env fuel hay items iq).2.size (extra.filterMap Item.iqIdx) := by
  induction fuel generalizing hay items iq with
  | zero =>
    unfold inlineLoop
    exact ⟨[], by simp, rfl, rfl, rfl, Fresh.nil (Nat.le_refl _)⟩
  | succ fuel ih =>
    unfold inlineLoop
    split
    · rename_i hit _
      dsimp only
      obtain ⟨extra, he, e1, e2, e3, e4⟩ := ih hit.after
        ((if hit.before.isEmpty = true then items else items ++ [Item.text hit.before]) ++ [Item.inlineQuantity iq.size])
        (iq.push hit.q)
      rw [Array.size_push] at e4
      refine ⟨(if hit.before.isEmpty = true then [] else [Item.text hit.before]) ++ [Item.inlineQuantity iq.size] ++ extra,
        ?_, ?_, ?_, ?_, ?_⟩
      · rw [he]; split <;> simp [List.append_assoc]
      · rw [List.filterMap_append, e1]; split <;> simp [Item.ingrIdx]
      · rw [List.filterMap_append, e2]; split <;> simp [Item.cwIdx]
      · rw [List.filterMap_append, e3]; split <;> simp [Item.timerIdx]
      · have : ((if hit.before.isEmpty = true then [] else [Item.text hit.before]) ++ [Item.inlineQuantity iq.size] ++
            extra).filterMap Item.iqIdx = iq.size :: extra.filterMap Item.iqIdx := by
          rw [List.filterMap_append]
          generalize extra.filterMap Item.iqIdx = l
          split <;> rfl
        rw [this]
        obtain ⟨f1, f2, f3⟩ := e4
        refine ⟨by omega, List.pairwise_cons.mpr ⟨fun b hb => by have := (f3 b hb).1; omega, f2⟩, ?_⟩
        intro i hi
        simp only [List.mem_cons] at hi
        rcases hi with rfl | hi
        · exact ⟨Nat.le_refl _, by omega⟩
        · have := f3 i hi; exact ⟨by omega, this.2⟩
    · refine ⟨if hay.isEmpty = true then [] else [Item.text hay], ?_, ?_, ?_, ?_, ?_⟩
      · split <;> simp
      · split <;> simp [Item.ingrIdx]
      · split <;> simp [Item.cwIdx]
      · split <;> simp [Item.timerIdx]
      · have : (if hay.isEmpty = true then [] else [Item.text hay]).filterMap Item.iqIdx = [] := by
          split <;> simp [Item.iqIdx]
        rw [this]; exact Fresh.nil (Nat.le_refl _)

theorem docItems_block_step {s : Col α} {items : List Item} (hb : s.block = some (.step items)) :
    docItems s = s.sections.flatMap secItems ++ secItems s.cur ++ items := by
  unfold docItems; rw [hb]; rfl

theorem inStepTextStep_ord (env : Env) (t : Text) (items : List Item) (s : Col α) (ho : OrdInv s)
    (hb : s.block = some (.step items)) : OrdInv (inStepTextStep env t items s).2 := by
  unfold inStepTextStep
  simp +instances only [A_bind, A_get, A_ite, A_modify, A_pure, awarn]
  split
  · split
    · exact ho.same rfl rfl rfl rfl rfl
    · exact ho
  · split
    · obtain ⟨extra, he, e1, e2, e3, e4⟩ := inlineLoop_order env (t.text.length + 1) t.text items s.inlineQ
      refine ho.append extra ?_ (by rw [e1]; exact Fresh.nil (Nat.le_refl _)) (by rw [e2]; exact Fresh.nil (Nat.le_refl _))
        (by rw [e3]; exact Fresh.nil (Nat.le_refl _)) e4
      rw [docItems_block_step hb, docItems_block_step (items := (inlineLoop env (t.text.length + 1) t.text items s.inlineQ).1) rfl,
        he]
      simp [List.append_assoc]
    · refine ho.append [Item.text t.text] ?_ (Fresh.nil (Nat.le_refl _)) (Fresh.nil (Nat.le_refl _))
        (Fresh.nil (Nat.le_refl _)) (Fresh.nil (Nat.le_refl _))
      rw [docItems_block_step hb, docItems_block_step (items := items ++ [Item.text t.text]) rfl]
      simp [List.append_assoc]

theorem inStepText_ord (env : Env) (t : Text) (s : Col α) (ho : OrdInv s) : OrdInv (inStepText env t s).2 := by
  unfold inStepText
  simp +instances only [A_bind, A_get]
  cases hb : s.block with
  | none =>
    simp only []
    exact ho.congr ((DiagOnly.apanic _).coreOnly.out s)
  | some buf =>
    cases buf with
    | step items => simp only []; exact inStepTextStep_ord env t items s ho hb
    | text b =>
      simp only [A_modify]
      exact ho.dropBlock rfl rfl rfl rfl rfl rfl rfl

/-! ### components -/

theorem inStepComponent_ord (env : Env) (input : Str) (ev : Ev α) (items : List Item) (s : Col α) (hi : Inv env s)
    (ho : OrdInv s) (hb : s.block = some (.step items)) (hev : EvOK ev) : OrdInv (inStepComponent env input ev s).2 := by
  unfold inStepComponent
  have hpanic : OrdInv (apanic "Unexpected event in step" s).2 := ho.congr ((DiagOnly.apanic _).coreOnly.out s)
  cases ev with
  | ingredient li =>
    simp only [A_bind]
    obtain ⟨dg, p, ings, igr, h1, h2, h3⟩ := ingredientA_spec env input li s hi.locI hi.itab.nonREF_def hev
    have hblk : (ingredientA env input li s).2.block = s.block := by rw [h1]
    rw [pushItem_step' _ items s (ingredientA env input li s).2 hblk hb, h1]
    simp only []
    refine ho.append [Item.ingredient s.ingredients.size] ?_
      (Fresh.one _ (Nat.le_refl _) (by simp only [Array.size_push, h2]; omega))
      (Fresh.nil (Nat.le_refl _)) (Fresh.nil (Nat.le_refl _)) (Fresh.nil (Nat.le_refl _))
    rw [docItems_block_step hb, docItems_block_step (items := items ++ [Item.ingredient s.ingredients.size]) rfl]
    simp [List.append_assoc]
  | cookware lc =>
    simp only [A_bind]
    obtain ⟨dg, p, cws, cw, h1, h2, h3⟩ := cookwareA_spec env input lc s hi.locC hi.ctab.nonREF_def
    have hblk : (cookwareA env input lc s).2.block = s.block := by rw [h1]
    rw [pushItem_step' _ items s (cookwareA env input lc s).2 hblk hb, h1]
    simp only []
    refine ho.append [Item.cookware s.cookware.size] ?_ (Fresh.nil (Nat.le_refl _))
      (Fresh.one _ (Nat.le_refl _) (by simp only [Array.size_push, h2]; omega))
      (Fresh.nil (Nat.le_refl _)) (Fresh.nil (Nat.le_refl _))
    rw [docItems_block_step hb, docItems_block_step (items := items ++ [Item.cookware s.cookware.size]) rfl]
    simp [List.append_assoc]
  | timer lt =>
    simp only [A_bind]
    obtain ⟨dg, p, tm, h1, h2, h3⟩ := timerA_spec env lt s
    have hblk : (timerA env lt s).2.block = s.block := by rw [h1]
    rw [pushItem_step' _ items s (timerA env lt s).2 hblk hb, h1]
    simp only []
    refine ho.append [Item.timer s.timers.size] ?_ (Fresh.nil (Nat.le_refl _)) (Fresh.nil (Nat.le_refl _))
      (Fresh.one _ (Nat.le_refl _) (by simp only [Array.size_push]; omega)) (Fresh.nil (Nat.le_refl _))
    rw [docItems_block_step hb, docItems_block_step (items := items ++ [Item.timer s.timers.size]) rfl]
    simp [List.append_assoc]
  | frontMatter _ => exact hpanic
  | metadata _ _ => exact hpanic
  | «section» _ => exact hpanic
  | start _ => exact hpanic
  | stop _ => exact hpanic
  | text _ => exact hpanic
  | error _ => exact hpanic
  | warning _ => exact hpanic

theorem inBlockComponent_ord (env : Env) (input : Str) (ev : Ev α) (s : Col α) (hi : Inv env s) (ho : OrdInv s)
    (hev : EvOK ev) : OrdInv (inBlockComponent env input ev s).2 := by
  unfold inBlockComponent
  simp +instances only [A_bind, A_get]
  cases hb : s.block with
  | none =>
    simp only []
    exact ho.congr ((DiagOnly.apanic _).coreOnly.out s)
  | some buf =>
    cases buf with
    | step items => simp only []; exact inStepComponent_ord env input ev items s hi ho hb hev
    | text b => simp only []; exact ho.congr ((inTextComponent_coreOnly input ev b).out s)

/-! ### end of a block -/

theorem endBlock_ord (kind : BlockKind) (s : Col α) (ho : OrdInv s) : OrdInv (endBlock kind s).2 := by
  unfold endBlock
  simp +instances only [A_bind, A_modify]
  obtain ⟨d, p, h⟩ := (endBlockContent_diagOnly kind).out s
  have hv := endBlockContent_val kind s
  have hplain : ∀ (d' : Array Diag) (p' : Option String), OrdInv { s with diags := d', panic := p', block := none } :=
    fun d' p' => ho.dropBlock rfl rfl rfl rfl rfl rfl rfl
  rw [hv]
  cases hb : s.block with
  | none =>
    simp only [A_pure, h]
    exact hplain d p
  | some buf =>
    cases buf with
    | step items =>
      simp only []
      unfold pushContent
      simp +instances only [A_bind, A_get, A_ite, A_modify, A_pure, h]
      split
      · refine ho.same ?_ rfl rfl rfl rfl
        rw [docItems_block_step hb]
        simp [docItems, secItems, contentItems, blockItems, List.flatMap_append]
      · exact hplain d p
    | text t =>
      simp only []
      unfold pushContent
      simp +instances only [A_bind, A_get, A_ite, A_modify, A_pure, h]
      split
      · refine ho.same ?_ rfl rfl rfl rfl
        simp [docItems, secItems, contentItems, blockItems, List.flatMap_append, hb]
      · exact hplain d p

/-! ### every event -/

theorem secItems_of_isEmpty (sec : Section) (h : sec.isEmpty = true) : secItems sec = [] := by
  unfold Section.isEmpty at h
  simp only [Bool.and_eq_true, List.isEmpty_iff] at h
  unfold secItems; rw [h.2]; rfl

theorem processEvent_ord (env : Env) (input : Str) (ev : Ev α) (s : Col α) (hi : Inv env s) (ho : OrdInv s)
    (hev : EvOK ev) : OrdInv (processEvent env input ev s).2 := by
  cases ev with
  | frontMatter t =>
    simp only [processEvent, A_modify]
    exact ho.same rfl rfl rfl rfl rfl
  | metadata k v =>
    simp only [processEvent]
    exact ho.congr ((metadataA_coreOnly env k v).out s)
  | «section» name =>
    simp only [processEvent, A_modify]
    refine ho.same ?_ rfl rfl rfl rfl
    unfold docItems
    dsimp only
    split
    · simp [List.flatMap_append, secItems]
    · rename_i hne
      have : secItems s.cur = [] := secItems_of_isEmpty _ (by simpa using hne)
      rw [this]; simp [secItems]
  | start kind =>
    simp only [processEvent, A_modify]
    refine ho.dropBlock rfl rfl rfl rfl rfl rfl ?_
    dsimp only
    split
    · rfl
    · cases kind <;> rfl
  | stop kind => simp only [processEvent]; exact endBlock_ord kind s ho
  | text t => simp only [processEvent]; exact inStepText_ord env t s ho
  | ingredient i => simp only [processEvent]; exact inBlockComponent_ord env input _ s hi ho hev
  | cookware c => simp only [processEvent]; exact inBlockComponent_ord env input _ s hi ho hev
  | timer t => simp only [processEvent]; exact inBlockComponent_ord env input _ s hi ho hev
  | error d => simp only [processEvent]; exact ho
  | warning d =>
    simp only [processEvent, A_modify]
    exact ho.same rfl rfl rfl rfl rfl

/-- the items of a recipe: sections, their steps, the items of each step, in order -/
def recipeItems (c : Col α) : List Item := c.sections.flatMap secItems

/-- what holds of the returned collector -/
structure OrdFinal (c : Col α) : Prop where
  ingr : IncBelow c.ingredients.size ((recipeItems c).filterMap Item.ingrIdx)
  cw : IncBelow c.cookware.size ((recipeItems c).filterMap Item.cwIdx)
  tm : IncBelow c.timers.size ((recipeItems c).filterMap Item.timerIdx)
  iq : IncBelow c.inlineQ.size ((recipeItems c).filterMap Item.iqIdx)

theorem OrdInv.final {s c : Col α} (h : OrdInv s) (hs : (recipeItems c).Sublist (docItems s))
    (h3 : c.ingredients = s.ingredients) (h4 : c.cookware = s.cookware) (h5 : c.timers = s.timers)
    (h6 : c.inlineQ = s.inlineQ) : OrdFinal c :=
  ⟨h.ingr.sublist (hs.filterMap _) (by rw [h3]; exact Nat.le_refl _),
   h.cw.sublist (hs.filterMap _) (by rw [h4]; exact Nat.le_refl _),
   h.tm.sublist (hs.filterMap _) (by rw [h5]; exact Nat.le_refl _),
   h.iq.sublist (hs.filterMap _) (by rw [h6]; exact Nat.le_refl _)⟩

theorem parseEventsLoop_ord (env : Env) (input : Str) (evs : List (Ev α)) (s c : Col α) (hi : Inv env s)
    (ho : OrdInv s) (hev : ∀ ev ∈ evs, EvOK ev) (hc : (parseEventsLoop env input evs s).output = some c) :
    OrdFinal c := by
  induction evs generalizing s with
  | nil =>
    simp only [parseEventsLoop, Option.some.injEq] at hc
    subst hc
    have key : (List.flatMap secItems (if (!s.cur.isEmpty) = true then s.sections ++ [s.cur] else s.sections)).Sublist
        (docItems s) := by
      unfold docItems
      split
      · rw [List.flatMap_append]
        simp only [List.flatMap_cons, List.flatMap_nil, List.append_nil]
        exact List.sublist_append_left _ _
      · rw [List.append_assoc]; exact List.sublist_append_left _ _
    refine ho.final ?_ ?_ ?_ ?_ ?_
    · unfold recipeItems
      split <;> split <;> rename_i h1 h2 <;> simp only [h1, if_true, if_false] at key <;> exact key
    all_goals (split <;> split <;> rfl)
  | cons ev rest ih =>
    by_cases he : ∃ d0, ev = .error d0
    · obtain ⟨d0, rfl⟩ := he
      simp only [parseEventsLoop] at hc
      cases hc
    · rw [parseEventsLoop_cons_nonerror env input ev rest s he] at hc
      exact ih _ (processEvent_inv env input ev s hi (hev ev List.mem_cons_self))
        (processEvent_ord env input ev s hi ho (hev ev List.mem_cons_self))
        (fun e he' => hev e (List.mem_cons_of_mem _ he')) hc

/-! ### consecutive indices: when no index is skipped -/

theorem incr_lower (l : List Nat) (m : Nat) (hp : l.Pairwise (· < ·)) (hm : ∀ a ∈ l, m ≤ a) (i : Nat) (hi : i < l.length) :
    m + i ≤ l[i] := by
  induction l generalizing m i with
  | nil => cases hi
  | cons x xs ih =>
    obtain ⟨h1, h2⟩ := List.pairwise_cons.mp hp
    cases i with
    | zero => simpa using hm x List.mem_cons_self
    | succ j =>
      have hx := hm x List.mem_cons_self
      have := ih (m + 1) h2 (fun a ha => by have := h1 a ha; omega) j (by simpa using hi)
      simp only [List.getElem_cons_succ]
      omega

theorem incr_upper (l : List Nat) (n : Nat) (hp : l.Pairwise (· < ·)) (hn : ∀ a ∈ l, a < n) (i : Nat) (hi : i < l.length) :
    l[i] + (l.length - i) ≤ n := by
  induction l generalizing i with
  | nil => cases hi
  | cons x xs ih =>
    obtain ⟨h1, h2⟩ := List.pairwise_cons.mp hp
    have hn' : ∀ a ∈ xs, a < n := fun a ha => hn a (List.mem_cons_of_mem _ ha)
    cases i with
    | zero =>
      simp only [List.getElem_cons_zero, List.length_cons, Nat.sub_zero]
      cases xs with
      | nil => have := hn x List.mem_cons_self; simp only [List.length_nil]; omega
      | cons y ys =>
        have := ih h2 hn' 0 (by simp)
        have hxy := h1 y List.mem_cons_self
        simp only [List.getElem_cons_zero, List.length_cons, Nat.sub_zero] at this ⊢
        omega
    | succ j =>
      have := ih h2 hn' j (by simpa using hi)
      simp only [List.getElem_cons_succ, List.length_cons]
      omega

/-- a strictly increasing list of `n` numbers below `n` is `0, 1, …, n-1` -/
theorem IncBelow.eq_range {n : Nat} {l : List Nat} (h : IncBelow n l) (hl : l.length = n) : l = List.range n := by
  apply List.ext_getElem
  · simp [hl]
  · intro i h1 h2
    have a := incr_lower l 0 h.1 (fun _ _ => Nat.zero_le _) i h1
    have b := incr_upper l n h.1 h.2 i h1
    simp only [List.getElem_range]
    omega

end Cook
