import CookModel.Lemmas.BuilderAudit
/-
  C16 → C09/C03/C13 — what the builder keeps about the NUMBERS and the KEY LISTS of its units.

  `RatG G units`: the ratio of every unit satisfies `G` (instantiated with `· ≠ 0` over ℚ);
  `KeysBut j units`: every unit except possibly unit `j` has at least one key (`Unit::symbol` cannot fail).
  Both hold of every state `finish` goes through when the ratios the files give satisfy `G` and `G` is kept by
  the multiplication with an SI prefix ratio.
-/
namespace Cook.Bld
open Cook

variable {α : Type}

/-- the ratio of every unit satisfies `G` -/
def RatG (G : α → Prop) (units : List (UnitB α)) : Prop := ∀ u, u ∈ units → G u.unit.ratio

/-- every unit, except possibly unit `j`, has a key -/
def KeysBut (j : Option Nat) (units : List (UnitB α)) : Prop :=
  ∀ i u, units[i]? = some u → some i ≠ j → u.unit.keys ≠ []

/-- the ratio an extend entry gives, if any, satisfies `G` -/
def EntryG (G : α → Prop) (e : ExtendEntry α) : Prop := ∀ r, e.ratio = some r → G r

theorem KeysBut.weaken {j : Option Nat} {units : List (UnitB α)} (h : KeysBut none units) : KeysBut j units :=
  fun i u hu _ => h i u hu (by simp)

theorem bs_addUnit {G : α → Prop} {c : Core α} {u : UnitB α} {r : Core α × Nat} (h : c.addUnit u = .ok r)
    (hr : RatG G c.units) (hk : KeysBut none c.units) (hu : G u.unit.ratio) :
    RatG G r.1.units ∧ KeysBut none r.1.units := by
  obtain ⟨_, hunits, _⟩ := addUnit_ok h
  obtain ⟨_, _, hne⟩ := audit_addUnit_keys h
  rw [hunits]
  constructor
  · intro x hx
    rcases List.mem_append.mp hx with hx | hx
    · exact hr x hx
    · simp only [List.mem_singleton] at hx; subst hx; exact hu
  · intro i x hx _
    rw [getElem?_append_singleton] at hx
    split at hx
    · exact hk i x hx (by simp)
    · split at hx
      · cases hx; exact hne
      · cases hx

theorem bs_addExpanded {G : α → Prop} (new : SIPrefix → UnitB α) (hnew : ∀ p, G (new p).unit.ratio) (ps : List SIPrefix)
    (c : Core α) (m : SIPrefix → Nat) (r : Core α × (SIPrefix → Nat)) (h : addExpanded new ps c m = .ok r)
    (hr : RatG G c.units) (hk : KeysBut none c.units) : RatG G r.1.units ∧ KeysBut none r.1.units := by
  induction ps generalizing c m with
  | nil => simp only [addExpanded] at h; cases h; exact ⟨hr, hk⟩
  | cons p ps ih =>
    unfold addExpanded at h
    split at h
    · cases h
    · rename_i r1 hr1
      obtain ⟨a, b⟩ := bs_addUnit hr1 hr hk (hnew p)
      exact ih r1.1 _ h a b

theorem RatG.set {G : α → Prop} {units : List (UnitB α)} {i : Nat} {x : UnitB α} (h : RatG G units) (hx : G x.unit.ratio) :
    RatG G (units.set i x) := by
  intro u hu
  rcases List.mem_or_eq_of_mem_set hu with hu | rfl
  · exact h u hu
  · exact hx

theorem RatG.get {G : α → Prop} {units : List (UnitB α)} {i : Nat} {x : UnitB α} (h : RatG G units) (hx : units[i]? = some x) :
    G x.unit.ratio := h x (List.mem_of_getElem? hx)

theorem KeysBut.set {j : Option Nat} {units : List (UnitB α)} {i : Nat} {x : UnitB α} (h : KeysBut j units)
    (hx : some i ≠ j → x.unit.keys ≠ []) : KeysBut j (units.set i x) := by
  intro k u hu hkj
  rw [getElem?_set'] at hu
  split at hu
  · split at hu
    · cases hu; subst_vars; exact hx hkj
    · cases hu
  · exact h k u hu hkj

variable [Arith α]

/-- `G` is kept by the multiplication with the ratio of an SI prefix -/
def PrefixClosed (G : α → Prop) : Prop := ∀ r p, G r → G (Arith.mul r (prefixRatio p))

theorem bs_expandSi {G : α → Prop} (hG : PrefixClosed G) {u : UnitB α} {si : SIConf} {new : SIPrefix → UnitB α}
    (h : expandSi u si = .ok new) (hu : G u.unit.ratio) : ∀ p, G (new p).unit.ratio := by
  obtain ⟨pfx, sym, _, _, rfl⟩ := expandSi_ok h
  intro p
  exact hG _ p hu

theorem bs_expandAt {G : α → Prop} (hG : PrefixClosed G) (si : SIConf) (c c' : Core α) (id : Nat)
    (h : expandAt si c id = .ok c') (hr : RatG G c.units) (hk : KeysBut none c.units) :
    RatG G c'.units ∧ KeysBut none c'.units := by
  unfold expandAt at h
  split at h
  · cases h
  · rename_i u hu
    split at h
    · split at h
      · cases h
      · rename_i new hnew
        split at h
        · cases h
        · rename_i r hadd
          obtain ⟨a, b⟩ := bs_addExpanded new (bs_expandSi hG hnew (hr.get hu)) _ _ _ _ hadd hr hk
          split at h
          · cases h
          · rename_i u' hu'
            cases h
            exact ⟨a.set (x := { u' with expanded := some r.2 }) (a.get (x := u') hu'), b.set (x := { u' with expanded := some r.2 }) (fun _ => b id u' hu' (by simp))⟩
    · cases h; exact ⟨hr, hk⟩

theorem bs_expandLoop {G : α → Prop} (hG : PrefixClosed G) (si : SIConf) (ids : List Nat) (c c' : Core α)
    (h : expandLoop si ids c = .ok c') (hr : RatG G c.units) (hk : KeysBut none c.units) :
    RatG G c'.units ∧ KeysBut none c'.units := by
  induction ids generalizing c with
  | nil => simp only [expandLoop] at h; cases h; exact ⟨hr, hk⟩
  | cons id ids ih =>
    unfold expandLoop at h
    split at h
    · cases h
    · rename_i c1 hc1
      obtain ⟨a, b⟩ := bs_expandAt hG si c c1 id hc1 hr hk
      exact ih c1 h a b

/-! ### extend blocks -/

omit [Arith α] in
theorem bs_updateExpandedOne {G : α → Prop} (j : Option Nat) (id : Nat) (new : SIPrefix → UnitB α) (c c' : Core α) (p : SIPrefix)
    (h : updateExpandedOne id new c p = .ok c') (hnew : G (new p).unit.ratio)
    (hr : RatG G c.units) (hk : KeysBut j c.units) : RatG G c'.units ∧ KeysBut j c'.units := by
  unfold updateExpandedOne at h
  split at h
  · cases h
  · split at h
    · cases h
    · rename_i m _
      split at h
      · cases h
      · rename_i old _
        simp only at h
        split at h
        · cases h
        · rename_i idx hidx
          cases h
          obtain ⟨_, _, _, _, hne⟩ := indexAddUnit_ok hidx
          exact ⟨hr.set hnew, hk.set (fun _ => hne)⟩

omit [Arith α] in
theorem bs_updateExpandedLoop {G : α → Prop} (j : Option Nat) (id : Nat) (new : SIPrefix → UnitB α) (ps : List SIPrefix) (c c' : Core α)
    (h : updateExpandedLoop id new ps c = .ok c') (hnew : ∀ p, G (new p).unit.ratio)
    (hr : RatG G c.units) (hk : KeysBut j c.units) : RatG G c'.units ∧ KeysBut j c'.units := by
  induction ps generalizing c with
  | nil => simp only [updateExpandedLoop] at h; cases h; exact ⟨hr, hk⟩
  | cons p ps ih =>
    unfold updateExpandedLoop at h
    split at h
    · cases h
    · rename_i c1 hc1
      obtain ⟨a, b⟩ := bs_updateExpandedOne j id new c c1 p hc1 (hnew p) hr hk
      exact ih c1 h a b

theorem bs_updateExpanded {G : α → Prop} (hG : PrefixClosed G) (j : Option Nat) (si : SIConf) (id : Nat) (c c' : Core α)
    (h : updateExpanded si id c = .ok c') (hr : RatG G c.units) (hk : KeysBut j c.units) :
    RatG G c'.units ∧ KeysBut j c'.units := by
  unfold updateExpanded at h
  split at h
  · cases h
  · rename_i u hu
    split at h
    · cases h
    · rename_i new hnew
      exact bs_updateExpandedLoop j id new _ c c' h (bs_expandSi hG hnew (hr.get hu)) hr hk

theorem bs_applyExtendOne {G : α → Prop} (hG : PrefixClosed G) (si : SIConf) (pr : Prec) (c c' : Core α) (ie : Nat × ExtendEntry α)
    (h : applyExtendOne si pr c ie = .ok c') (he : EntryG G ie.2) (hr : RatG G c.units) (hk : KeysBut none c.units) :
    RatG G c'.units ∧ KeysBut none c'.units := by
  unfold applyExtendOne at h
  split at h
  · cases h
  · rename_i u hu
    split at h
    · cases h
    · rename_i idx _
      simp only at h
      have hu' : G (u.edit pr ie.2).unit.ratio := by
        show G (ie.2.ratio.getD u.unit.ratio)
        cases hrat : ie.2.ratio with
        | none => exact hr.get hu
        | some r => exact he r hrat
      have hr1 : RatG G (c.units.set ie.1 (u.edit pr ie.2)) := hr.set hu'
      have hk1 : KeysBut (some ie.1) (c.units.set ie.1 (u.edit pr ie.2)) :=
        (hk.weaken (j := some ie.1)).set (fun hne => absurd rfl hne)
      split at h
      · cases h
      · rename_i c2 hc2
        have h2 : RatG G c2.units ∧ KeysBut (some ie.1) c2.units := by
          split at hc2
          · exact bs_updateExpanded hG _ si ie.1 _ c2 hc2 hr1 hk1
          · cases hc2; exact ⟨hr1, hk1⟩
        split at h
        · cases h
        · rename_i u2 hu2
          split at h
          · cases h
          · rename_i idx' hidx'
            cases h
            obtain ⟨_, _, _, _, hne⟩ := indexAddUnit_ok hidx'
            refine ⟨h2.1, ?_⟩
            intro i x hx _
            by_cases hi : i = ie.1
            · subst hi; rw [hu2] at hx; cases hx; exact hne
            · exact h2.2 i x hx (by simpa using hi)

theorem bs_applyExtendList {G : α → Prop} (hG : PrefixClosed G) (si : SIConf) (pr : Prec) (l : List (Nat × ExtendEntry α)) (c c' : Core α)
    (h : applyExtendList si pr l c = .ok c') (he : ∀ ie, ie ∈ l → EntryG G ie.2) (hr : RatG G c.units) (hk : KeysBut none c.units) :
    RatG G c'.units ∧ KeysBut none c'.units := by
  induction l generalizing c with
  | nil => simp only [applyExtendList] at h; cases h; exact ⟨hr, hk⟩
  | cons ie l ih =>
    unfold applyExtendList at h
    split at h
    · cases h
    · rename_i c1 hc1
      obtain ⟨a, b⟩ := bs_applyExtendOne hG si pr c c1 ie hc1 (he ie (by simp)) hr hk
      exact ih c1 h (fun x hx => he x (by simp [hx])) a b

omit [Arith α] in
theorem bs_resolveExtend {G : α → Prop} (c : Core α) (l : List (Key × ExtendEntry α)) (acc upd : List (Nat × ExtendEntry α))
    (h : resolveExtend c l acc = .ok upd) (hl : ∀ ke, ke ∈ l → EntryG G ke.2) (ha : ∀ ie, ie ∈ acc → EntryG G ie.2) :
    ∀ ie, ie ∈ upd → EntryG G ie.2 := by
  induction l generalizing acc with
  | nil => simp only [resolveExtend] at h; cases h; exact ha
  | cons ke l ih =>
    unfold resolveExtend at h
    split at h
    · cases h
    · split at h
      · cases h
      · split at h
        · cases h
        · split at h
          · cases h
          · refine ih _ h (fun x hx => hl x (by simp [hx])) ?_
            intro ie hie
            rcases List.mem_append.mp hie with hie | hie
            · exact ha ie hie
            · simp only [List.mem_singleton] at hie; subst hie; exact hl ke (by simp)

/-- the ratios an extend block gives satisfy `G` -/
def ExtendG (G : α → Prop) (g : Extend α) : Prop := ∀ ke, ke ∈ g.units → EntryG G ke.2

theorem bs_applyExtendGroups {G : α → Prop} (hG : PrefixClosed G) (si : SIConf) (gs : List (Extend α)) (c c' : Core α)
    (h : applyExtendGroups si gs c = .ok c') (hg : ∀ g, g ∈ gs → ExtendG G g) (hr : RatG G c.units) (hk : KeysBut none c.units) :
    RatG G c'.units ∧ KeysBut none c'.units := by
  induction gs generalizing c with
  | nil => simp only [applyExtendGroups] at h; cases h; exact ⟨hr, hk⟩
  | cons g gs ih =>
    unfold applyExtendGroups at h
    split at h
    · cases h
    · rename_i c1 hc1
      have h1 : RatG G c1.units ∧ KeysBut none c1.units := by
        unfold applyExtendGroup at hc1
        split at hc1
        · cases hc1
        · rename_i upd hupd
          exact bs_applyExtendList hG si g.precedence upd c c1 hc1
            (bs_resolveExtend c g.units [] upd hupd (hg g (by simp)) (by simp)) hr hk
      exact ih c1 h (fun x hx => hg x (by simp [hx])) h1.1 h1.2


/-! ### from the files to the packaged converter -/

/-- the unit entries of a `Units` declaration -/
def UnitsDecl.entries : UnitsDecl α → List (UnitEntry α)
  | .unified us => us
  | .bySystem m i u => m ++ i ++ u

/-- every ratio a units file gives — of a declared unit or in an extend entry — satisfies `G` -/
def FileG (G : α → Prop) (f : UnitsFile α) : Prop :=
  (∀ g, g ∈ f.quantity → ∀ d, g.units = some d → ∀ e, e ∈ d.entries → G e.ratio) ∧
  (∀ x, f.extend = some x → ExtendG G x)

omit [Arith α] in
theorem bs_declared {G : α → Prop} (files : List (UnitsFile α)) (hf : ∀ f, f ∈ files → FileG G f) : RatG G (declared files) := by
  intro x hx
  simp only [declared, declFile, List.mem_flatMap] at hx
  obtain ⟨f, hfm, g, hg, hx⟩ := hx
  have h1 := (hf f hfm).1 g hg
  cases hu : g.units with
  | none => rw [hu] at hx; simp [declGroupUnits] at hx
  | some d =>
    rw [hu] at hx
    cases d with
    | unified us =>
      simp only [declGroupUnits, List.mem_map] at hx
      obtain ⟨e, he, rfl⟩ := hx
      exact h1 _ hu e he
    | bySystem m i u =>
      simp only [declGroupUnits, List.mem_append, List.mem_map] at hx
      rcases hx with (⟨e, he, rfl⟩ | ⟨e, he, rfl⟩) | ⟨e, he, rfl⟩
      · exact h1 _ hu e (by simp [UnitsDecl.entries, he])
      · exact h1 _ hu e (by simp [UnitsDecl.entries, he])
      · exact h1 _ hu e (by simp [UnitsDecl.entries, he])

/-- In a successful build whose files give only ratios satisfying `G` (a property kept by the SI prefix ratios), every
    unit of the final state has a ratio satisfying `G` and at least one key. -/
theorem bs_buildCore {G : α → Prop} (hG : PrefixClosed G) (files : List (UnitsFile α)) (b : Builder α) (c : Core α)
    (h : buildCore files = .ok (b, c)) (hf : ∀ f, f ∈ files → FileG G f) :
    RatG G c.units ∧ KeysBut none c.units := by
  obtain ⟨hadd, _, hunits, ce, hce, _, _, hext, happ⟩ := audit_buildCore_parts files b c h
  have hr0 : RatG G b.core.units := by rw [hunits]; exact bs_declared files hf
  have hk0 : KeysBut none b.core.units := by
    rw [hunits]
    intro i x hx _
    exact (audit_addFiles_keys files _ b hadd x (List.mem_of_getElem? hx)).2.2
  obtain ⟨hr1, hk1⟩ := bs_expandLoop hG b.si _ b.core ce hce hr0 hk0
  refine bs_applyExtendGroups hG b.si b.extend ce c happ ?_ hr1 hk1
  intro g hg
  rw [hext] at hg
  obtain ⟨f, hfm, hfg⟩ := List.mem_filterMap.mp hg
  exact (hf f hfm).2 g hfg

/-- … hence every unit of the converter -/
theorem bs_build {G : α → Prop} (hG : PrefixClosed G) (files : List (UnitsFile α)) (conv : Converter α)
    (h : build files = .ok conv) (hf : ∀ f, f ∈ files → FileG G f) :
    ∀ u, u ∈ conv.units → G u.ratio ∧ u.keys ≠ [] := by
  obtain ⟨b, c, hbc, _, hp⟩ := (build_good files).of_ok h
  obtain ⟨hr, hk⟩ := bs_buildCore hG files b c hbc hf
  intro u hu
  rw [hp.units] at hu
  obtain ⟨ub, hub, rfl⟩ := List.mem_map.mp hu
  obtain ⟨i, hi⟩ := List.getElem?_of_mem hub
  exact ⟨hr ub hub, hk i ub hi (by simp)⟩

end Cook.Bld

namespace Cook.Bld
open Cook

/-! ### the side condition over ℚ, decidable -/

/-- **The side condition of the bridge theorems**: no unit entry of any layer has ratio 0, and no extend entry sets a
    ratio to 0.  (Everything else `Converter.Sound` needs — units with a key, keys resolving to their unit, best lists
    of the right quantity — the builder enforces itself or rejects the stack.) -/
def ratiosNonzero (files : List (UnitsFile Rat)) : Bool :=
  files.all (fun f =>
    f.quantity.all (fun g => match g.units with
      | none => true
      | some d => d.entries.all (fun e => decide (e.ratio ≠ 0)))
    && match f.extend with
      | none => true
      | some x => x.units.all (fun ke => match ke.2.ratio with
        | none => true
        | some r => decide (r ≠ 0)))

theorem ratiosNonzero_fileG (files : List (UnitsFile Rat)) (h : ratiosNonzero files = true) :
    ∀ f, f ∈ files → FileG (fun r : Rat => r ≠ 0) f := by
  intro f hf
  simp only [ratiosNonzero, List.all_eq_true, Bool.and_eq_true] at h
  obtain ⟨h1, h2⟩ := h f hf
  constructor
  · intro g hg d hd e he
    have := h1 g hg
    rw [hd] at this
    simp only [List.all_eq_true, decide_eq_true_eq] at this
    exact this e he
  · intro x hx ke hke r hr
    rw [hx] at h2
    simp only [List.all_eq_true] at h2
    have := h2 ke hke
    rw [hr] at this
    simpa using this

theorem prefixClosed_ne_zero : PrefixClosed (fun r : Rat => r ≠ 0) := by
  intro r p hr
  have hp : (prefixRatio p : Rat) ≠ 0 := by cases p <;> decide +kernel
  show r * prefixRatio p ≠ 0
  intro h0
  rcases Rat.mul_eq_zero.mp h0 with h | h
  · exact hr h
  · exact hp h

end Cook.Bld
