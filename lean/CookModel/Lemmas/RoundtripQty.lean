import CookModel.Lemmas.Roundtrip
/-
  C01, quantity layer: `parse_quantity` reads back what `spellQty` writes.
  Exact runs of the parser primitives on a token list given as `A ++ rest` with the cursor after `A`.
-/
set_option linter.unusedSectionVars false
set_option linter.unusedSimpArgs false
set_option linter.unusedVariables false
namespace Cook

variable {α : Type} [Arith α]

/-! ### primitives on a split token list -/

theorem rt_drop_cur {s : BP α} {A R : List Tok} (ht : s.toks = A ++ R) (hc : s.cur = A.length) :
    s.toks.drop s.cur = R := by
  rw [ht, hc, List.drop_left]

theorem rt_getElem_cur {s : BP α} {A R : List Tok} (ht : s.toks = A ++ R) (hc : s.cur = A.length) :
    s.toks[s.cur]? = R.head? := by
  rw [ht, hc, List.getElem?_append_right (Nat.le_refl _)]
  simp [List.head?_eq_getElem?]

theorem consumeWhile_split (f : TK → Bool) (s : BP α) (A B C : List Tok) (ht : s.toks = A ++ (B ++ C))
    (hc : s.cur = A.length) (hB : ∀ t ∈ B, f t.kind = true) (hC : ∀ t, C.head? = some t → f t.kind = false) :
    consumeWhile f s = (B, { s with cur := A.length + B.length }) := by
  rw [consumeWhile_run, rt_drop_cur ht hc]
  have hpos : ((B ++ C).findIdx? (fun t => !f t.kind)).getD (B ++ C).length = B.length := by
    cases C with
    | nil =>
      rw [List.append_nil, rt_findIdx_none _ _ (by intro t ht'; simp [hB t ht'])]
      rfl
    | cons c C' =>
      rw [rt_findIdx_append _ B c C' (by intro t ht'; simp [hB t ht']) (by simp [hC c rfl])]
      rfl
  simp only [hpos, List.take_left', hc]

theorem untilK_split (f : TK → Bool) (s : BP α) (A B : List Tok) (c : Tok) (C : List Tok)
    (ht : s.toks = A ++ (B ++ c :: C)) (hc : s.cur = A.length) (hB : ∀ t ∈ B, f t.kind = false)
    (hcf : f c.kind = true) :
    untilK f s = (some B, { s with cur := A.length + B.length }) := by
  rw [untilK_run, rt_drop_cur ht hc]
  rw [rt_findIdx_append _ B c C (by intro t ht'; exact hB t ht') hcf]
  simp only [List.take_left', hc]

theorem untilK_none (f : TK → Bool) (s : BP α) (A R : List Tok) (ht : s.toks = A ++ R) (hc : s.cur = A.length)
    (hR : ∀ t ∈ R, f t.kind = false) : untilK f s = (none, s) := by
  rw [untilK_run, rt_drop_cur ht hc, rt_findIdx_none _ _ (by intro t ht'; exact hR t ht')]

theorem peekK_split (s : BP α) (A R : List Tok) (ht : s.toks = A ++ R) (hc : s.cur = A.length) :
    peekK s = (R.head?.map (·.kind), s) := by
  have : peekK s = ((s.toks[s.cur]?).map (·.kind), s) := rfl
  rw [this, rt_getElem_cur ht hc]

theorem atK_split (k : TK) (s : BP α) (A R : List Tok) (ht : s.toks = A ++ R) (hc : s.cur = A.length) :
    atK k s = (R.head?.map (·.kind) == some k, s) := by
  have : atK k s = ((s.toks[s.cur]?).map (·.kind) == some k, s) := rfl
  rw [this, rt_getElem_cur ht hc]

theorem bumpAny_split (s : BP α) (A : List Tok) (t : Tok) (R : List Tok) (ht : s.toks = A ++ t :: R)
    (hc : s.cur = A.length) : bumpAny s = (t, { s with cur := A.length + 1 }) := by
  have h : s.toks[s.cur]? = some t := by rw [rt_getElem_cur ht hc]; rfl
  have e : bumpAny s = (t, { s with cur := s.cur + 1 }) := by
    unfold bumpAny; simp only [bind, StateT.bind, nextToken_run, h]; rfl
  rw [e, hc]

theorem consumeK_split_some (k : TK) (s : BP α) (A : List Tok) (t : Tok) (R : List Tok) (ht : s.toks = A ++ t :: R)
    (hc : s.cur = A.length) (hk : t.kind = k) : consumeK k s = (some t, { s with cur := A.length + 1 }) := by
  unfold consumeK
  simp only [bind, StateT.bind, atK_split k s A (t :: R) ht hc, List.head?_cons, Option.map_some, hk,
    BEq.rfl, if_true, bumpAny_split s A t R ht hc]
  rfl

theorem consumeK_split_none (k : TK) (s : BP α) (A R : List Tok) (ht : s.toks = A ++ R)
    (hc : s.cur = A.length) (hk : ∀ t, R.head? = some t → t.kind ≠ k) : consumeK k s = (none, s) := by
  unfold consumeK
  have : (R.head?.map (·.kind) == some k) = false := by
    cases R with
    | nil => rfl
    | cons t R' => simpa using hk t rfl
  simp only [bind, StateT.bind, atK_split k s A R ht hc, this]
  rfl

theorem consumeRest_split (s : BP α) (A R : List Tok) (ht : s.toks = A ++ R) (hc : s.cur = A.length) :
    consumeRest s = (R, { s with cur := A.length + R.length }) := by
  have e1 : consumeRest s = (s.toks.drop s.cur, { s with cur := s.cur + (s.toks.drop s.cur).length }) := rfl
  rw [e1, rt_drop_cur ht hc, hc]

theorem hasExt_run (flag : Nat) (s : BP α) : hasExt (α := α) flag s = (s.ext.has flag, s) := rfl

theorem withRecover_none {β : Type} (f : P α (Option β)) (s s' : BP α) (h : f s = (none, s')) :
    withRecover f s = (none, { s' with cur := s.cur }) := by
  unfold withRecover
  simp only [bind, StateT.bind, getCur, get, getThe, MonadStateOf.get, StateT.get, pure, StateT.pure, h]
  rfl

theorem withRecover_some {β : Type} (f : P α (Option β)) (s s' : BP α) (b : β) (h : f s = (some b, s')) :
    withRecover f s = (some b, s') := by
  unfold withRecover
  simp only [bind, StateT.bind, getCur, get, getThe, MonadStateOf.get, StateT.get, pure, StateT.pure, h]
  rfl

/-! ### what a value's tokens are made of -/

def coreKind (k : TK) : Bool := numKind k || k == .minus || valKind k

theorem rt_spellCore_kinds {cs : CharSpec} (v : AVal) (p : VPad) (hv : v.ok cs = true) (hp : p.ok cs = true) :
    ∀ u ∈ spellCore v p, coreKind u.kind = true := by
  simp only [VPad.ok, Bool.and_eq_true] at hp
  obtain ⟨⟨⟨⟨⟨hpre, hpost⟩, hplo⟩, hphi⟩, hm1⟩, hm2⟩ := hp
  intro u hu
  cases v with
  | num n =>
    simp only [spellCore] at hu
    simp [coreKind, rt_spellNum_kinds n p.lo hplo u hu]
  | range lo hi =>
    simp only [spellCore, List.mem_append, List.mem_singleton] at hu
    rcases hu with (((hu | hu) | hu) | hu) | hu
    · simp [coreKind, rt_spellNum_kinds lo p.lo hplo u hu]
    · simp [coreKind, padT_numKind (padOK_padT hm1 u hu)]
    · subst hu; simp [coreKind, tk]
    · simp [coreKind, padT_numKind (padOK_padT hm2 u hu)]
    · simp [coreKind, rt_spellNum_kinds hi p.hi hphi u hu]
  | text l =>
    simp only [spellCore] at hu
    simp only [AVal.ok, Bool.and_eq_true] at hv
    rcases leaf_tok_kind (leafOK_facts hv.1) u hu with h | h
    · simp [coreKind, h]
    · simp [coreKind, h, numKind]

theorem coreKind_excl {k : TK} (h : coreKind k = true) :
    k ≠ .percent ∧ k ≠ .closeBrace ∧ k ≠ .eq ∧ k ≠ .lineComment ∧ k ≠ .newline ∧ k ≠ .escaped := by
  cases k <;> simp [coreKind, numKind, valKind] at h ⊢

theorem rt_spellCore_head {cs : CharSpec} (v : AVal) (p : VPad) (hv : v.ok cs = true) :
    ∃ h r, spellCore v p = h :: r ∧ isWsComment h.kind = false := by
  cases v with
  | num n => exact rt_spellNum_head n p.lo
  | range lo hi =>
    obtain ⟨h, r, hh, hk⟩ := rt_spellNum_head lo p.lo
    exact ⟨h, _, by simp only [spellCore, hh, List.cons_append]; rfl, hk⟩
  | text l =>
    simp only [AVal.ok, Bool.and_eq_true] at hv
    obtain ⟨h, r, hh, hk⟩ := (leafOK_facts hv.1).head
    exact ⟨h, r, hh, plainKind_not_blank (isAtomTok_facts hk).2.1⟩

theorem rt_spellCore_noword {cs : CharSpec} (v : AVal) (p : VPad) (hp : p.ok cs = true) (hnt : v.isText = false) :
    ∀ u ∈ spellCore v p, u.kind ≠ .word := by
  intro u hu
  have : (numKind u.kind || u.kind == .minus) = true := by
    simp only [VPad.ok, Bool.and_eq_true] at hp
    obtain ⟨⟨⟨⟨⟨hpre, hpost⟩, hplo⟩, hphi⟩, hm1⟩, hm2⟩ := hp
    cases v with
    | text l => simp [AVal.isText] at hnt
    | num n =>
      simp only [spellCore] at hu
      simp [rt_spellNum_kinds n p.lo hplo u hu]
    | range lo hi =>
      simp only [spellCore, List.mem_append, List.mem_singleton] at hu
      rcases hu with (((hu | hu) | hu) | hu) | hu
      · simp [rt_spellNum_kinds lo p.lo hplo u hu]
      · simp [padT_numKind (padOK_padT hm1 u hu)]
      · subst hu; simp [tk]
      · simp [padT_numKind (padOK_padT hm2 u hu)]
      · simp [rt_spellNum_kinds hi p.hi hphi u hu]
  cases hk : u.kind <;> simp [hk, numKind] at this ⊢

/-- `parse_value` on the tokens of any value spelling: the value, no diagnostic, state untouched -/
theorem rt_parseValue (v : AVal) (p : VPad) (s : BP α) (hv : v.ok s.cs = true) (hp : p.ok s.cs = true)
    (hr : v.isRange = true → s.ext.has Gen.EXT_RANGE_VALUES = true)
    (ts : List Tok) (hs : Spells ts (spellVal v p)) (off : Nat) (hrun : RunAt off ts) :
    parseValue ts s = (⟨v.denote, ⟨valStart ts s, offAt s.toks s.cur⟩⟩, s) := by
  by_cases hnum : v.isText = false
  · exact parseValue_num_run ts s _ (rt_numOrRange v p hv hp hnum _ hr ts hs)
  · cases v with
    | num n => simp [AVal.isText] at hnum
    | range lo hi => simp [AVal.isText] at hnum
    | text l =>
      simp only [AVal.ok, Bool.and_eq_true] at hv
      simp only [VPad.ok, Bool.and_eq_true] at hp
      obtain ⟨⟨⟨⟨⟨hpre, hpost⟩, -⟩, -⟩, -⟩, -⟩ := hp
      have hs0 := hs
      simp only [spellVal, spellCore] at hs
      obtain ⟨r1, post, rfl, hs1, hpost'⟩ := hs.append_inv
      obtain ⟨pre, tl, rfl, hpre', htl⟩ := hs1.append_inv
      have hnn := rt_text_not_numeric (α := α) l hv.1 hv.2 pre tl post htl
        (padOK_blank (hpre'.padOK_of hpre)) (padOK_blank (hpost'.padOK_of hpost)) (s.ext.has Gen.EXT_RANGE_VALUES)
      obtain ⟨h1, h2⟩ := rt_leaf_text (cs := s.cs) hs0 hpre hpost hv.1 (valStart (pre ++ tl ++ post) s)
      rw [parseValue_text_run _ s hrun hnn h2, h1]
      rfl

/-! ### `scaling_lock`, `value` -/

theorem scalingLock_lock (s : BP α) (l0 : List Tok) (teq : Tok) (R : List Tok) (ht : s.toks = l0 ++ teq :: R)
    (hc : s.cur = 0) (hl0 : ∀ t ∈ l0, BlankT t) (hk : teq.kind = .eq) :
    scalingLock s = (some ⟨teq.start, teq.stop⟩, { s with cur := l0.length + 1 }) := by
  unfold scalingLock wsComments
  have h1 := consumeWhile_split isWsComment s [] l0 (teq :: R) (by simpa using ht) (by simpa using hc)
    (fun t ht' => hl0 t ht') (by intro t ht'; simp at ht'; subst ht'; simp [hk, isWsComment])
  simp only [bind, StateT.bind, h1, List.length_nil, Nat.zero_add]
  have h2 := atK_split .eq ({ s with cur := l0.length } : BP α) l0 (teq :: R) ht rfl
  simp only [h2, List.head?_cons, Option.map_some, hk, BEq.rfl, if_true]
  have h3 := bumpAny_split ({ s with cur := l0.length } : BP α) l0 teq R ht rfl
  simp only [StateT.bind, h3]
  rfl

theorem scalingLock_nolock (s : BP α) (pre : List Tok) (h : Tok) (R : List Tok) (ht : s.toks = pre ++ h :: R)
    (hc : s.cur = 0) (hpre : ∀ t ∈ pre, BlankT t) (hh : isWsComment h.kind = false) (hne : h.kind ≠ .eq) :
    scalingLock s = (none, { s with cur := pre.length }) := by
  unfold scalingLock wsComments
  have h1 := consumeWhile_split isWsComment s [] pre (h :: R) (by simpa using ht) (by simpa using hc)
    (fun t ht' => hpre t ht') (by intro t ht'; simp at ht'; subst ht'; exact hh)
  simp only [bind, StateT.bind, h1, List.length_nil, Nat.zero_add]
  have h2 := atK_split .eq ({ s with cur := pre.length } : BP α) pre (h :: R) ht rfl
  have : (some h.kind == some TK.eq) = false := by simp [hne]
  simp only [h2, List.head?_cons, Option.map_some, this]
  rfl

theorem rt_qty_decomp {q : AQty} {p : QPad} {ts : List Tok} (hs : Spells ts (spellQty q p)) :
    ∃ L pre M post U, ts = L ++ (pre ++ M ++ post) ++ U ∧ Spells L (spellLock q.lock p) ∧ Spells pre p.v.pre ∧
      Spells M (spellCore q.val p.v) ∧ Spells post p.v.post ∧ Spells U (spellUnit q.unit p) := by
  simp only [spellQty, spellVal] at hs
  obtain ⟨r1, U, rfl, hs, hU⟩ := hs.append_inv
  obtain ⟨L, V, rfl, hL, hV⟩ := hs.append_inv
  obtain ⟨r2, post, rfl, hV, hpost⟩ := hV.append_inv
  obtain ⟨pre, M, rfl, hpre, hM⟩ := hV.append_inv
  exact ⟨L, pre, M, post, U, rfl, hL, hpre, hM, hpost, hU⟩

theorem spellCore_pre (v : AVal) (p : VPad) : spellCore v { p with pre := [] } = spellCore v p := by
  cases v <;> rfl

/-- facts about the actual value tokens inside a quantity -/
theorem rt_val_facts {cs : CharSpec} {v : AVal} {vp : VPad} (hv : v.ok cs = true) (hp : vp.ok cs = true)
    {pre M post : List Tok} (hpre : Spells pre vp.pre) (hM : Spells M (spellCore v vp)) (hpost : Spells post vp.post) :
    (∀ t ∈ pre, BlankT t) ∧ (∀ t ∈ post, BlankT t) ∧ (∀ t ∈ pre ++ M ++ post, coreKind t.kind = true) ∧
    ∃ h r, M = h :: r ∧ isWsComment h.kind = false ∧ coreKind h.kind = true := by
  have hp0 := hp
  simp only [VPad.ok, Bool.and_eq_true] at hp
  obtain ⟨⟨⟨⟨⟨hppre, hppost⟩, -⟩, -⟩, -⟩, -⟩ := hp
  have bpre := hpre.padOK_of hppre
  have bpost := hpost.padOK_of hppost
  have hMk : ∀ t ∈ M, coreKind t.kind = true :=
    hM.all_of (fun k _ => coreKind k = true) (rt_spellCore_kinds v vp hv hp0)
  refine ⟨padOK_blank bpre, padOK_blank bpost, ?_, ?_⟩
  · intro t ht
    simp only [List.mem_append] at ht
    rcases ht with (ht | ht) | ht
    · simp [coreKind, padT_numKind (padOK_padT bpre t ht)]
    · exact hMk t ht
    · simp [coreKind, padT_numKind (padOK_padT bpost t ht)]
  · obtain ⟨h, r, hh, hk⟩ := rt_spellCore_head (cs := cs) v vp hv
    rw [hh] at hM
    obtain ⟨t, r', rfl, htk, -, -⟩ := hM.cons_inv
    exact ⟨t, r', rfl, by rw [htk]; exact hk, hMk t (by simp)⟩

theorem rt_unit_head {u : Option (List Tok)} {p : QPad} {U : List Tok} (hU : Spells U (spellUnit u p)) :
    ∀ t, U.head? = some t → t.kind = .percent := by
  intro t ht
  cases u with
  | none => simp only [spellUnit] at hU; rw [hU.nil_inv] at ht; simp at ht
  | some u =>
    simp only [spellUnit, List.append_assoc, List.cons_append, List.nil_append] at hU
    obtain ⟨t', r, rfl, hk, -, -⟩ := hU.cons_inv
    simp at ht; subst ht; exact hk

theorem rt_qvalue (q : AQty) (p : QPad) (s : BP α) (hq : q.ok s.cs = true) (hp : p.ok s.cs = true)
    (hr : q.val.isRange = true → s.ext.has Gen.EXT_RANGE_VALUES = true)
    (L pre M post U : List Tok) (ht : s.toks = L ++ (pre ++ M ++ post) ++ U) (hc : s.cur = 0)
    (hL : Spells L (spellLock q.lock p)) (hpre : Spells pre p.v.pre) (hM : Spells M (spellCore q.val p.v))
    (hpost : Spells post p.v.post) (hU : Spells U (spellUnit q.unit p))
    (hrun : RunAt (baseOff s.toks) s.toks) :
    ∃ vspan lspan, qvalue s = (⟨⟨q.val.denote, vspan⟩, lspan⟩, { s with cur := (L ++ (pre ++ M ++ post)).length }) ∧
      lspan.isSome = q.lock := by
  simp only [AQty.ok, Bool.and_eq_true] at hq
  simp only [QPad.ok, Bool.and_eq_true] at hp
  obtain ⟨⟨⟨hpl0, hpv⟩, hpu0⟩, hpu1⟩ := hp
  obtain ⟨bpre, bpost, hVk, h, r, hMh, hhb, hhk⟩ := rt_val_facts hq.1 hpv hpre hM hpost
  have hUh := rt_unit_head hU
  have hVnp : ∀ t ∈ pre ++ M ++ post, (t.kind != TK.percent) = true := by
    intro t ht'; simpa using (coreKind_excl (hVk t ht')).1
  have hUnp : ∀ t, U.head? = some t → (t.kind != TK.percent) = false := by
    intro t ht'; simp [hUh t ht']
  unfold qvalue
  cases hlock : q.lock with
  | true =>
    rw [hlock] at hL
    simp only [spellLock, if_true] at hL
    obtain ⟨l0, r1, rfl, hl0, hteq⟩ := hL.append_inv
    obtain ⟨teq, rfl, hteqk, -⟩ := hteq.single_inv
    simp only [tk] at hteqk
    have bl0 := padOK_blank (hl0.padOK_of hpl0)
    have h1 := scalingLock_lock s l0 teq ((pre ++ M ++ post) ++ U) (by rw [ht]; simp) hc bl0 hteqk
    have h2 := consumeWhile_split (fun k => k != .percent) ({ s with cur := l0.length + 1 } : BP α)
      (l0 ++ [teq]) (pre ++ M ++ post) U (by simpa using ht) (by simp) (fun t ht' => hVnp t ht') hUnp
    have hrun2 : RunAt (lastStop (baseOff s.toks) (l0 ++ [teq])) (pre ++ M ++ post) := by
      have : RunAt (baseOff s.toks) (l0 ++ [teq] ++ (pre ++ M ++ post) ++ U) := by rw [← ht]; exact hrun
      exact ((runAt_append _ _ _).mp ((runAt_append _ _ _).mp this).1).2
    have h3 := rt_parseValue q.val p.v
      ({ s with cur := (l0 ++ [teq]).length + (pre ++ M ++ post).length } : BP α) hq.1 hpv hr
      (pre ++ M ++ post) ((hpre.append hM).append hpost) _ hrun2
    have hlen : (l0 ++ [teq]).length + (pre ++ M ++ post).length = (l0 ++ [teq] ++ (pre ++ M ++ post)).length := by
      simp only [List.length_append]
    rw [hlen] at h2 h3
    simp only [bind, StateT.bind, h1, h2, h3]
    exact ⟨_, _, rfl, rfl⟩
  | false =>
    rw [hlock] at hL
    simp only [spellLock, Bool.false_eq_true, if_false] at hL
    have hLn := hL.nil_inv
    subst hLn
    subst hMh
    have h1 := scalingLock_nolock s pre h (r ++ post ++ U) (by rw [ht]; simp) hc bpre hhb (coreKind_excl hhk).2.2.1
    have h2 := consumeWhile_split (fun k => k != .percent) ({ s with cur := pre.length } : BP α)
      pre (h :: r ++ post) U (by simpa using ht) rfl
      (fun t ht' => hVnp t (by simp only [List.mem_append] at ht' ⊢; rcases ht' with h' | h' <;> simp [h'])) hUnp
    have hrun2 : RunAt (lastStop (baseOff s.toks) pre) (h :: r ++ post) := by
      have : RunAt (baseOff s.toks) (pre ++ (h :: r ++ post) ++ U) := by
        have e : pre ++ (h :: r ++ post) ++ U = [] ++ (pre ++ h :: r ++ post) ++ U := by simp
        rw [e, ← ht]; exact hrun
      exact ((runAt_append _ _ _).mp ((runAt_append _ _ _).mp this).1).2
    have hpv' : ({ p.v with pre := [] } : VPad).ok s.cs = true := by
      simp only [VPad.ok, Bool.and_eq_true] at hpv ⊢
      exact ⟨⟨⟨⟨⟨rfl, hpv.1.1.1.1.2⟩, hpv.1.1.1.2⟩, hpv.1.1.2⟩, hpv.1.2⟩, hpv.2⟩
    have hsp : Spells (h :: r ++ post) (spellVal q.val { p.v with pre := [] }) := by
      simp only [spellVal, spellCore_pre, List.nil_append]
      exact hM.append hpost
    have h3 := rt_parseValue q.val { p.v with pre := [] }
      ({ s with cur := pre.length + (h :: r ++ post).length } : BP α) hq.1 hpv' hr
      (h :: r ++ post) hsp _ hrun2
    have hlen : pre.length + (h :: r ++ post).length = ([] ++ (pre ++ h :: r ++ post)).length := by
      simp only [List.nil_append, List.length_append]; omega
    rw [hlen] at h2 h3
    simp only [bind, StateT.bind, h1, h2, h3]
    exact ⟨_, _, rfl, rfl⟩

theorem tokensSpanP_run (site : String) (l : List Tok) (hne : l ≠ []) (s : BP α) :
    tokensSpanP site l s = (tokensSpan l, s) := by
  unfold tokensSpanP
  have : l.isEmpty = false := by cases l <;> simp_all
  simp only [this, Bool.false_eq_true, if_false]
  rfl

theorem rt_parseRegularQuantity (q : AQty) (p : QPad) (s : BP α) (hq : q.ok s.cs = true) (hp : p.ok s.cs = true)
    (hr : q.val.isRange = true → s.ext.has Gen.EXT_RANGE_VALUES = true)
    (ts : List Tok) (hs : Spells ts (spellQty q p)) (ht : s.toks = ts) (hc : s.cur = 0)
    (hrun : RunAt (baseOff ts) ts) :
    ∃ vspan lspan unitT sep,
      parseRegularQuantity s =
        (⟨⟨⟨⟨⟨q.val.denote, vspan⟩, lspan⟩, unitT⟩, tokensSpan ts⟩, sep⟩, { s with cur := ts.length }) ∧
      lspan.isSome = q.lock ∧ unitT.map (fun t => t.trimmed s.cs) = q.unit.map leafText ∧
      sep.isSome = q.unit.isSome := by
  obtain ⟨L, pre, M, post, U, hts, hL, hpre, hM, hpost, hU⟩ := rt_qty_decomp hs
  subst ht
  obtain ⟨vspan, lspan, hqv, hl⟩ := rt_qvalue q p s hq hp hr L pre M post U hts hc hL hpre hM hpost hU hrun
  have hq' := hq
  simp only [AQty.ok, Bool.and_eq_true] at hq'
  have hp' := hp
  simp only [QPad.ok, Bool.and_eq_true] at hp'
  obtain ⟨⟨⟨hpl0, hpv⟩, hpu0⟩, hpu1⟩ := hp'
  obtain ⟨-, -, -, h, r, hMh, -, -⟩ := rt_val_facts hq'.1 hpv hpre hM hpost
  have hne : s.toks ≠ [] := by rw [hts, hMh]; simp
  unfold parseRegularQuantity
  simp only [bind, StateT.bind, hqv]
  cases hu : q.unit with
  | none =>
    rw [hu] at hU
    simp only [spellUnit] at hU
    have hUn := hU.nil_inv
    subst hUn
    have h1 := peekK_split ({ s with cur := (L ++ (pre ++ M ++ post)).length } : BP α) (L ++ (pre ++ M ++ post)) []
      (by simpa using hts) rfl
    have hlen : (L ++ (pre ++ M ++ post)).length = s.toks.length := by rw [hts]; simp
    simp only [h1, List.head?_nil, Option.map_none, pure, StateT.pure, get, getThe, MonadStateOf.get, StateT.get,
      bind, StateT.bind, tokensSpanP_run _ _ hne]
    simp only [hlen]
    exact ⟨vspan, lspan, none, none, rfl, hl, rfl, rfl⟩
  | some u =>
    rw [hu] at hU hq'
    simp only [spellUnit, List.append_assoc, List.cons_append, List.nil_append] at hU
    obtain ⟨tpct, UR, rfl, hpk, -, hUR⟩ := hU.cons_inv
    simp only [tk] at hpk
    have h1 := peekK_split ({ s with cur := (L ++ (pre ++ M ++ post)).length } : BP α) (L ++ (pre ++ M ++ post))
      (tpct :: UR) hts rfl
    have h2 := bumpAny_split ({ s with cur := (L ++ (pre ++ M ++ post)).length } : BP α) (L ++ (pre ++ M ++ post))
      tpct UR hts rfl
    have h3 := consumeRest_split ({ s with cur := (L ++ (pre ++ M ++ post)).length + 1 } : BP α)
      (L ++ (pre ++ M ++ post) ++ [tpct]) UR (by simpa using hts) (by rw [List.length_append (bs := [tpct])]; rfl)
    have hrunU : RunAt tpct.stop UR := by
      have : RunAt (baseOff s.toks) (L ++ (pre ++ M ++ post) ++ ([tpct] ++ UR)) := by
        have e : L ++ (pre ++ M ++ post) ++ ([tpct] ++ UR) = L ++ (pre ++ M ++ post) ++ tpct :: UR := by simp
        rw [e, ← hts]; exact hrun
      have h' := ((runAt_append _ _ _).mp ((runAt_append _ _ _).mp this).2).2
      simpa [lastStop] using h'
    have hlen : (L ++ (pre ++ M ++ post) ++ [tpct]).length + UR.length = s.toks.length := by rw [hts]; simp; omega
    rw [hlen] at h3
    obtain ⟨ht1, ht2⟩ := rt_leaf_text (cs := s.cs) (allowed := unitKind) (pre := p.u0) (l := u) (post := p.u1)
      (by simpa using hUR) hpu0 hpu1 hq'.2 tpct.stop
    simp only [h1, List.head?_cons, Option.map_some, hpk, bind, StateT.bind, h2, h3, bpText_run hrunU, pure, StateT.pure,
      get, getThe, MonadStateOf.get, StateT.get, ht2, Bool.false_eq_true, if_false, tokensSpanP_run _ _ hne]
    exact ⟨vspan, lspan, _, _, rfl, hl, by simp only [Option.map_some, ht1], rfl⟩

/-! ### the advanced form (ADVANCED_UNITS) declines what `spellQty` writes -/

theorem rt_lock_then_ws (q : AQty) (p : QPad) (s : BP α) (hpl0 : padOK s.cs p.l0 = true)
    (L pre : List Tok) (h : Tok) (R : List Tok) (ht : s.toks = L ++ (pre ++ h :: R)) (hc : s.cur = 0)
    (hL : Spells L (spellLock q.lock p)) (bpre : ∀ t ∈ pre, BlankT t)
    (hhb : isWsComment h.kind = false) (hne : h.kind ≠ .eq) :
    ∃ l c1 B, scalingLock s = (l, { s with cur := c1 }) ∧
      wsComments ({ s with cur := c1 } : BP α) = (B, { s with cur := (L ++ pre).length }) := by
  cases hlock : q.lock with
  | true =>
    rw [hlock] at hL
    simp only [spellLock, if_true] at hL
    obtain ⟨l0, r1, rfl, hl0, hteq⟩ := hL.append_inv
    obtain ⟨teq, rfl, hteqk, -⟩ := hteq.single_inv
    simp only [tk] at hteqk
    have bl0 := padOK_blank (hl0.padOK_of hpl0)
    have h1 := scalingLock_lock s l0 teq (pre ++ h :: R) (by rw [ht]; simp) hc bl0 hteqk
    have h2 := consumeWhile_split isWsComment ({ s with cur := l0.length + 1 } : BP α)
      (l0 ++ [teq]) pre (h :: R) (by simpa using ht) (by simp) (fun t ht' => bpre t ht')
      (by intro t ht'; simp at ht'; subst ht'; exact hhb)
    refine ⟨_, _, pre, h1, ?_⟩
    unfold wsComments
    rw [h2]; simp only [List.length_append]
  | false =>
    rw [hlock] at hL
    simp only [spellLock, Bool.false_eq_true, if_false] at hL
    have hLn := hL.nil_inv
    subst hLn
    have h1 := scalingLock_nolock s pre h R (by rw [ht]; simp) hc bpre hhb hne
    have h2 := consumeWhile_split isWsComment ({ s with cur := pre.length } : BP α)
      pre [] (h :: R) (by simpa using ht) rfl (by simp)
      (by intro t ht'; simp at ht'; subst ht'; exact hhb)
    refine ⟨_, _, [], h1, ?_⟩
    unfold wsComments
    rw [h2]; simp

theorem rt_lock_kinds {cs : CharSpec} {q : AQty} {p : QPad} (hpl0 : padOK cs p.l0 = true) {L : List Tok}
    (hL : Spells L (spellLock q.lock p)) : ∀ t ∈ L, t.kind ≠ .percent := by
  intro t ht
  obtain ⟨u, hu, hk, -⟩ := hL.mem ht
  rw [hk]
  unfold spellLock at hu
  split at hu
  · simp only [List.mem_append, List.mem_singleton] at hu
    rcases hu with hu | hu
    · rcases padOK_padT hpl0 u hu with h | h <;> simp [h]
    · subst hu; simp [tk]
  · simp at hu

theorem rt_parseAdvancedQuantity_none (q : AQty) (p : QPad) (s : BP α) (hq : q.ok s.cs = true)
    (hp : p.ok s.cs = true) (hadv : q.advSafe = true)
    (ts : List Tok) (hs : Spells ts (spellQty q p)) (ht : s.toks = ts) (hc : s.cur = 0) :
    ∃ c, parseAdvancedQuantity s = (none, { s with cur := c }) := by
  obtain ⟨L, pre, M, post, U, hts, hL, hpre, hM, hpost, hU⟩ := rt_qty_decomp hs
  subst ht
  have hq' := hq
  simp only [AQty.ok, Bool.and_eq_true] at hq'
  have hp' := hp
  simp only [QPad.ok, Bool.and_eq_true] at hp'
  obtain ⟨⟨⟨hpl0, hpv⟩, hpu0⟩, hpu1⟩ := hp'
  obtain ⟨bpre, bpost, hVk, h, r, hMh, hhb, hhk⟩ := rt_val_facts hq'.1 hpv hpre hM hpost
  unfold parseAdvancedQuantity
  simp only [bind, StateT.bind, allToks, get, getThe, MonadStateOf.get, StateT.get, pure, StateT.pure]
  cases hu : q.unit with
  | some u =>
    rw [hu] at hU
    simp only [spellUnit, List.append_assoc, List.cons_append, List.nil_append] at hU
    obtain ⟨tpct, UR, rfl, hpk, -, hUR⟩ := hU.cons_inv
    simp only [tk] at hpk
    have : s.toks.any (fun t => t.kind == .percent) = true := by
      rw [hts]; simp [hpk]
    simp only [this, if_true]
    exact ⟨s.cur, rfl⟩
  | none =>
    rw [hu] at hU
    simp only [spellUnit] at hU
    have hUn := hU.nil_inv
    subst hUn
    simp only [List.append_nil] at hts
    have hany : s.toks.any (fun t => t.kind == .percent) = false := by
      rw [hts, List.any_eq_false]
      intro t ht
      rcases List.mem_append.mp ht with ht | ht
      · simpa using rt_lock_kinds hpl0 hL t ht
      · simpa using (coreKind_excl (hVk t ht)).1
    simp only [hany, Bool.false_eq_true, if_false]
    subst hMh
    obtain ⟨l, c1, B, h1, h2⟩ := rt_lock_then_ws q p s hpl0 L pre h (r ++ post) (by rw [hts]; simp) hc hL bpre hhb
      (coreKind_excl hhk).2.2.1
    simp only [bind, StateT.bind, h1, h2]
    by_cases htx : q.val.isText = true
    · -- a text value that starts with a word: no value tokens
      have hhw : h.kind = .word := by
        cases hv : q.val with
        | num n => rw [hv] at htx; simp [AVal.isText] at htx
        | range lo hi => rw [hv] at htx; simp [AVal.isText] at htx
        | text lf =>
          rw [hv] at hM
          simp only [AQty.advSafe, hu, hv, Option.isSome_none, Bool.false_or] at hadv
          simp only [spellCore] at hM
          cases lf with
          | nil => simp [Spells] at hM
          | cons u lf' =>
            obtain ⟨t', r', he, hk, -, -⟩ := hM.cons_inv
            simp only [List.cons.injEq] at he
            rw [he.1, hk]
            simpa using hadv
      have h3 := consumeWhile_split (fun k => k != .word) ({ s with cur := (L ++ pre).length } : BP α)
        (L ++ pre) [] (h :: r ++ post) (by rw [hts]; simp) rfl (by simp)
        (by intro t ht'; simp at ht'; subst ht'; simp [hhw])
      simp only [h3, List.reverse_nil, List.find?_nil]
      exact ⟨_, rfl⟩
    · have htx' : q.val.isText = false := by simpa using htx
      have hnw : ∀ t ∈ h :: r ++ post, (t.kind != TK.word) = true := by
        intro t ht'
        rcases List.mem_append.mp ht' with ht' | ht'
        · have := hM.all_of (fun k _ => k ≠ TK.word) (rt_spellCore_noword q.val p.v hpv htx') t ht'
          simpa using this
        · have := bpost t ht'
          simp only [BlankT, isWsComment, Bool.or_eq_true, beq_iff_eq] at this
          rcases this with (h' | h') | h' <;> simp [h']
      have h3 := consumeWhile_split (fun k => k != .word) ({ s with cur := (L ++ pre).length } : BP α)
        (L ++ pre) (h :: r ++ post) [] (by rw [hts]; simp) rfl hnw (by simp)
      simp only [h3]
      cases hgl : (h :: r ++ post).reverse.find? (fun t => t.kind != TK.blockComment) with
      | none => exact ⟨_, rfl⟩
      | some l' =>
        dsimp only
        by_cases hk : (l'.kind != TK.ws) = true
        · simp only [hk, if_true]
          exact ⟨_, rfl⟩
        · have hne : (List.dropWhile (fun t => t.kind == TK.ws || t.kind == TK.blockComment)
              (h :: r ++ post).reverse).reverse.isEmpty = false := by
            have := rtrim_ne_nil (fun t => t.kind == TK.ws || t.kind == TK.blockComment) (h :: r ++ post) h (by simp)
              (by simp only [isWsComment, Bool.or_eq_false_iff] at hhb; simp [hhb.1.1, hhb.2])
            cases hx : (List.dropWhile (fun t => t.kind == TK.ws || t.kind == TK.blockComment)
              (h :: r ++ post).reverse).reverse with
            | nil => exact absurd hx this
            | cons _ _ => rfl
          have h4 := consumeRest_split
            ({ s with cur := (L ++ pre).length + (h :: r ++ post).length } : BP α) s.toks []
            (by simp) (by rw [hts]; simp only [List.length_append]; omega)
          simp only [hk, if_false, hne, Bool.false_eq_true, StateT.bind, h4, List.isEmpty_nil, if_true]
          exact ⟨_, rfl⟩

/-- `parse_quantity` on the tokens between the braces: the intended quantity, the outer parser
    handed back exactly as it was (no event pushed, no panic, same cursor) -/
theorem rt_parseQuantity (q : AQty) (p : QPad) (outer : BP α) (hq : q.ok outer.cs = true) (hp : p.ok outer.cs = true)
    (hr : q.val.isRange = true → outer.ext.has Gen.EXT_RANGE_VALUES = true)
    (hadv : outer.ext.has Gen.EXT_ADVANCED_UNITS = true → q.advSafe = true)
    (ts : List Tok) (hs : Spells ts (spellQty q p)) (hrun : RunAt (baseOff ts) ts) :
    ∃ vspan lspan unitT sep,
      parseQuantity ts outer = (⟨⟨⟨⟨⟨q.val.denote, vspan⟩, lspan⟩, unitT⟩, tokensSpan ts⟩, sep⟩, outer) ∧
      lspan.isSome = q.lock ∧ unitT.map (fun t => t.trimmed outer.cs) = q.unit.map leafText ∧
      sep.isSome = q.unit.isSome := by
  obtain ⟨vspan, lspan, unitT, sep, hreg, h1, h2, h3⟩ :=
    rt_parseRegularQuantity q p ({ outer with toks := ts, cur := 0 } : BP α) hq hp hr ts hs rfl rfl hrun
  refine ⟨vspan, lspan, unitT, sep, ?_, h1, h2, h3⟩
  have hne : ts.isEmpty = false := by
    obtain ⟨L, pre, M, post, U, hts, hL, hpre, hM, hpost, hU⟩ := rt_qty_decomp hs
    simp only [AQty.ok, Bool.and_eq_true] at hq
    simp only [QPad.ok, Bool.and_eq_true] at hp
    obtain ⟨-, -, -, h, r, hMh, -, -⟩ := rt_val_facts hq.1 hp.1.1.2 hpre hM hpost
    rw [hts, hMh]; simp
  unfold parseQuantity
  simp only [hne, Bool.false_eq_true, if_false, bind, StateT.bind, get, getThe, MonadStateOf.get, StateT.get, set,
    StateT.set, hasExt_run, pure, StateT.pure]
  by_cases hext : outer.ext.has Gen.EXT_ADVANCED_UNITS = true
  · obtain ⟨c, hc⟩ := rt_parseAdvancedQuantity_none q p ({ outer with toks := ts, cur := 0 } : BP α) hq hp
      (hadv hext) ts hs rfl rfl
    have hw := withRecover_none _ _ _ hc
    simp only [hext, if_true, hw, hreg, modify, modifyGet, MonadStateOf.modifyGet, StateT.modifyGet, pure, StateT.pure]
  · simp only [hext, Bool.false_eq_true, if_false, hreg, modify, modifyGet, MonadStateOf.modifyGet,
      StateT.modifyGet, pure, StateT.pure]

end Cook
