import CookModel.Lemmas.Spans
/-
  Source locations of the EVENTS the block parsers push (C04): the Hoare layer of
  `Lemmas/ParserWp.lean` / `ParserNoPanic.lean` extended with a predicate on the event queue.

  `EvSpansOK off w ev` : every span inside the event `ev` is `SpanOK off w`, every text is `TextOK`.
  `GE Pv ts e s`       : the invariant `G ts e s` and "the event queue satisfies `Pv`".
  The lemmas of the component parsers are stated for every queue predicate `Pv` that is kept by
  pushing a diagnostic whose labels are all `SpanOK` (`Ctx.diag`): the component parsers push
  nothing but such diagnostics.  The block-level lemmas instantiate `Pv` with `TopInv` (all spans
  fine, content events in source order).
-/
set_option linter.unusedSectionVars false
set_option linter.unusedSimpArgs false
set_option linter.unusedVariables false
namespace Cook

variable {α : Type} [Arith α]

def OptOK {β : Type} (p : β → Prop) : Option β → Prop
  | none => True
  | some x => p x

def PQValueOK (off : Nat) (w : List Char) (v : PQValue α) : Prop :=
  SpanOK off w v.value.span ∧ OptOK (SpanOK off w) v.lock

def PQuantityOK (off : Nat) (w : List Char) (q : PQuantity α) : Prop :=
  PQValueOK off w q.value ∧ OptOK (TextOK off w) q.unit

def LocQOK (off : Nat) (w : List Char) (q : Loc (PQuantity α)) : Prop :=
  SpanOK off w q.span ∧ PQuantityOK off w q.val

def DiagOK (off : Nat) (w : List Char) (d : Diag) : Prop := ∀ l ∈ d.labels, SpanOK off w l

/-- every source location inside an event is a span of two character boundaries of the text, every
    text is faithful (`TextOK`), every label of a diagnostic is such a span -/
def EvSpansOK (off : Nat) (w : List Char) : Ev α → Prop
  | .frontMatter t => TextOK off w t
  | .metadata k v => TextOK off w k ∧ TextOK off w v ∧ k.span.stop ≤ v.span.start
  | .«section» n => OptOK (TextOK off w) n
  | .start _ => True
  | .stop _ => True
  | .text t => TextOK off w t
  | .ingredient i => SpanOK off w i.span ∧ SpanOK off w i.val.modifiers.span ∧
      OptOK (fun d => SpanOK off w d.span) i.val.inter ∧ TextOK off w i.val.name ∧
      OptOK (TextOK off w) i.val.alias ∧ OptOK (LocQOK off w) i.val.quantity ∧
      OptOK (TextOK off w) i.val.note
  | .cookware c => SpanOK off w c.span ∧ SpanOK off w c.val.modifiers.span ∧
      TextOK off w c.val.name ∧ OptOK (TextOK off w) c.val.alias ∧
      OptOK (fun q => SpanOK off w q.span ∧ PQValueOK off w q.val) c.val.quantity ∧
      OptOK (TextOK off w) c.val.note
  | .timer t => SpanOK off w t.span ∧ OptOK (TextOK off w) t.val.name ∧
      OptOK (LocQOK off w) t.val.quantity
  | .error d => DiagOK off w d
  | .warning d => DiagOK off w d

/-- the invariant of the Hoare layer plus a predicate on all queued events -/
structure GE (Pv : Array (Ev α) → Prop) (ts : List Tok) (e : Ext) (s : BP α) : Prop where
  g : G ts e s
  evs : Pv s.evs

/-- the static context of a block parser run: the block is a piece of the text `w`, and the event
    predicate admits every diagnostic with good labels -/
structure Ctx (off : Nat) (w : List Char) (Pv : Array (Ev α) → Prop) (ts : List Tok) : Prop where
  wfi : WFI off w ts
  diag : ∀ (evs : Array (Ev α)) (d : Diag), Pv evs → DiagOK off w d →
    Pv (evs.push (.error d)) ∧ Pv (evs.push (.warning d))

variable {off : Nat} {w : List Char} {Pv : Array (Ev α) → Prop} {ts : List Tok} {e : Ext} {s : BP α}

theorem GE.setCur (h : GE Pv ts e s) {c : Nat} (hc : c ≤ ts.length) : GE Pv ts e { s with cur := c } :=
  ⟨h.g.setCur hc, h.evs⟩

theorem GE.le (h : GE Pv ts e s) : s.cur ≤ ts.length := h.g.le

theorem GE.push {Pv' : Array (Ev α) → Prop} (h : GE Pv ts e s) {ev : Ev α} (hev : Pv' (s.evs.push ev)) :
    GE Pv' ts e { s with evs := s.evs.push ev } := ⟨h.g.setEvs _, hev⟩

theorem GE.err (hc : Ctx off w Pv ts) (h : GE Pv ts e s) {kind : String} {labels : List Span}
    (hl : ∀ l ∈ labels, SpanOK off w l) :
    GE Pv ts e { s with evs := s.evs.push (.error ⟨.error, .parse, kind, labels⟩) } :=
  h.push (hc.diag _ ⟨.error, .parse, kind, labels⟩ h.evs hl).1

theorem GE.warn (hc : Ctx off w Pv ts) (h : GE Pv ts e s) {kind : String} {labels : List Span}
    (hl : ∀ l ∈ labels, SpanOK off w l) :
    GE Pv ts e { s with evs := s.evs.push (.warning ⟨.warning, .parse, kind, labels⟩) } :=
  h.push (hc.diag _ ⟨.warning, .parse, kind, labels⟩ h.evs hl).2

theorem Sat.perrE {kind : String} {labels : List Span} {Q : Unit → BP α → Prop}
    (h : Q () { s with evs := s.evs.push (.error ⟨.error, .parse, kind, labels⟩) }) :
    Sat (Cook.perr kind labels) s Q := h

theorem Sat.pwarnE {kind : String} {labels : List Span} {Q : Unit → BP α → Prop}
    (h : Q () { s with evs := s.evs.push (.warning ⟨.warning, .parse, kind, labels⟩) }) :
    Sat (Cook.pwarn kind labels) s Q := h

theorem one_label {p : Span → Prop} {a : Span} (h : p a) : ∀ l ∈ [a], p l := by
  intro l hl; simp only [List.mem_singleton] at hl; subst hl; exact h

theorem two_labels {p : Span → Prop} {a b : Span} (ha : p a) (hb : p b) : ∀ l ∈ [a, b], p l := by
  intro l hl
  simp only [List.mem_cons, List.not_mem_nil, or_false] at hl
  rcases hl with rfl | rfl
  · exact ha
  · exact hb

/-! ### the primitives, with the event invariant -/

theorem bumpAny_ge (h : GE Pv ts e s) {t : Tok} (ht : ts[s.cur]? = some t) :
    Sat bumpAny s (fun r s' => r = t ∧ GE Pv ts e s' ∧ s'.cur = s.cur + 1) := by
  have ht' : s.toks[s.cur]? = some t := by rw [h.g.toks]; exact ht
  have hlt : s.cur < ts.length := getElem?_lt ht
  have e : bumpAny s = (t, { s with cur := s.cur + 1 }) := by
    unfold bumpAny; simp only [bind, StateT.bind, nextToken_run, ht']; rfl
  unfold Sat; rw [e]; exact ⟨rfl, h.setCur hlt, rfl⟩

theorem bump_ge (h : GE Pv ts e s) {k : TK} {t : Tok} (ht : ts[s.cur]? = some t) (hk : t.kind = k) :
    Sat (bump k) s (fun r s' => r = t ∧ GE Pv ts e s' ∧ s'.cur = s.cur + 1) := by
  unfold bump
  refine Sat.bind (Sat.mono (bumpAny_ge h ht) ?_)
  rintro r s1 ⟨rfl, g1, c1⟩
  simp only [hk, ne_eq, not_true_eq_false, if_false]
  exact ⟨rfl, g1, c1⟩

theorem untilK_ge (f : TK → Bool) (h : GE Pv ts e s) :
    Sat (untilK f) s (fun r s' => GE Pv ts e s' ∧
      match r with
      | none => s'.cur = s.cur
      | some pre => s.cur ≤ s'.cur ∧ pre = slice ts s.cur s'.cur ∧
          (∃ t, ts[s'.cur]? = some t ∧ f t.kind = true) ∧ ∀ t ∈ pre, f t.kind = false) := by
  have h0 := untilK_sat f h.g
  unfold Sat at h0 ⊢
  rw [untilK_run] at h0 ⊢
  cases hf : (s.toks.drop s.cur).findIdx? (fun t => f t.kind) with
  | none => rw [hf] at h0; exact ⟨⟨h0.1, h.evs⟩, h0.2⟩
  | some pos => rw [hf] at h0; exact ⟨⟨h0.1, h.evs⟩, h0.2⟩

theorem consumeWhile_ge (f : TK → Bool) (h : GE Pv ts e s) :
    Sat (consumeWhile f) s (fun r s' => GE Pv ts e s' ∧ s.cur ≤ s'.cur ∧ r = slice ts s.cur s'.cur ∧
      (∀ t ∈ r, f t.kind = true) ∧ (∀ t, ts[s'.cur]? = some t → f t.kind = false)) := by
  have h0 := consumeWhile_sat f h.g
  unfold Sat at h0 ⊢
  rw [consumeWhile_run] at h0 ⊢
  exact ⟨⟨h0.1, h.evs⟩, h0.2⟩

theorem consumeK_ge (k : TK) (h : GE Pv ts e s) :
    Sat (consumeK k) s (fun r s' => GE Pv ts e s' ∧
      match r with
      | none => s'.cur = s.cur ∧ (ts[s.cur]?).map (·.kind) ≠ some k
      | some t => ts[s.cur]? = some t ∧ t.kind = k ∧ s'.cur = s.cur + 1) := by
  unfold consumeK
  refine Sat.bind (Sat.atK ?_)
  rw [h.g.toks]
  cases ht : ts[s.cur]? with
  | none =>
    simp only [Option.map_none]
    exact ⟨h, rfl, by simp⟩
  | some t =>
    by_cases hk : t.kind = k
    · have : (Option.map (fun x => x.kind) (some t) == some k) = true := by simp [hk]
      rw [this]
      simp only [if_true]
      refine Sat.bind (Sat.mono (bumpAny_ge h ht) ?_)
      rintro r s1 ⟨rfl, g1, c1⟩
      exact ⟨g1, rfl, hk, c1⟩
    · have : (Option.map (fun x => x.kind) (some t) == some k) = false := by simp [hk]
      rw [this]
      exact ⟨h, rfl, by simp [hk]⟩

theorem consumeRest_ge (h : GE Pv ts e s) :
    Sat consumeRest s (fun r s' => GE Pv ts e s' ∧ s'.cur = ts.length ∧ r = slice ts s.cur ts.length) := by
  have h0 := consumeRest_sat h.g
  have e1 : consumeRest s = (s.toks.drop s.cur, { s with cur := s.cur + (s.toks.drop s.cur).length }) := rfl
  unfold Sat at h0 ⊢
  rw [e1] at h0 ⊢
  exact ⟨⟨h0.1, h.evs⟩, h0.2⟩

/-! ### Quantities -/

theorem scalingLock_ev (hc : Ctx off w Pv ts) (h : GE Pv ts e s) :
    Sat scalingLock s (fun r s' => GE Pv ts e s' ∧ s.cur ≤ s'.cur ∧ OptOK (SpanOK off w) r) := by
  unfold scalingLock wsComments
  refine Sat.bind (Sat.mono (consumeWhile_ge _ h) ?_)
  rintro r s1 ⟨g1, c1, -⟩
  refine Sat.bind (atK_sat g1.g ?_)
  split
  · rename_i hk
    obtain ⟨t, ht, -⟩ := atK_true hk
    refine Sat.bind (Sat.mono (bumpAny_ge g1 ht) ?_)
    rintro r2 s2 ⟨rfl, g2, c2⟩
    exact Sat.pure ⟨g2, by omega, hc.wfi.tok ht⟩
  · exact Sat.pure ⟨g1, c1, trivial⟩

theorem textValue_ev (hc : Ctx off w Pv ts) (h : GE Pv ts e s) {o : Nat} {toks : List Tok}
    (hr : RunIn off w o toks) :
    Sat (textValue (α := α) toks o) s (fun _ s' => GE Pv ts e s' ∧ s'.cur = s.cur) := by
  unfold textValue
  refine Sat.bind (bpText_sat hr.run ?_)
  refine Sat.bind (Sat.get ?_)
  dsimp only
  split
  · refine Sat.bind (Sat.perrE ?_)
    exact Sat.pure ⟨h.err hc (one_label hr.text.1), rfl⟩
  · exact Sat.pure ⟨h, rfl⟩

/-- tokens with good spans, in source order -/
def TokOKs (off : Nat) (w : List Char) (l : List Tok) : Prop :=
  (∀ t ∈ l, SpanOK off w ⟨t.start, t.stop⟩) ∧ l.Pairwise (fun a b => a.stop ≤ b.start)

theorem RunIn.toksOK {o : Nat} {l : List Tok} (h : RunIn off w o l) : TokOKs off w l :=
  ⟨fun t ht => h.tok ht, (chain_pairwise h.run.1).1⟩

theorem TokOKs.sublist {l l' : List Tok} (h : TokOKs off w l) (hs : l'.Sublist l) : TokOKs off w l' :=
  ⟨fun t ht => h.1 t (hs.subset ht), h.2.sublist hs⟩

theorem TokOKs.pair {a b : Tok} {l : List Tok} (h : TokOKs off w l) (hs : [a, b].Sublist l) :
    SpanOK off w ⟨a.start, b.stop⟩ := by
  have h' := h.sublist hs
  have ha := h'.1 a (by simp)
  have hb := h'.1 b (by simp)
  have hab : a.stop ≤ b.start := by
    have := h'.2
    simp only [List.pairwise_cons, List.mem_singleton, forall_eq] at this
    exact this.1
  refine ⟨ha.1, hb.2.1, ?_⟩
  have := ha.2.2; have := hb.2.2
  show a.start ≤ b.stop
  simp only at *
  omega

theorem trimTokens_sublist (l : List Tok) : (trimTokens l).Sublist l := by
  unfold trimTokens
  have h1 : (l.dropWhile (fun t => isWsComment t.kind)).Sublist l := List.dropWhile_sublist _
  have h2 := List.dropWhile_sublist (fun t : Tok => isWsComment t.kind)
    (l := (l.dropWhile (fun t => isWsComment t.kind)).reverse)
  have h3 := (List.reverse_sublist.mpr h2)
  rw [List.reverse_reverse] at h3
  exact h3.trans h1

theorem parseU32_err {t : Tok} {d : Diag} (h : parseU32 t = .error d) (ht : SpanOK off w ⟨t.start, t.stop⟩) :
    DiagOK off w d := by
  unfold parseU32 at h
  simp only at h
  split at h
  · cases h
  · simp only [Except.error.injEq] at h
    subst h
    exact one_label ht

theorem fracNum_err {a b : Tok} {d : Diag} (h : fracNum (α := α) a b = .error d)
    (ha : SpanOK off w ⟨a.start, a.stop⟩) (hb : SpanOK off w ⟨b.start, b.stop⟩)
    (hab : SpanOK off w ⟨a.start, b.stop⟩) : DiagOK off w d := by
  unfold fracNum at h
  split at h
  · rename_i e he
    simp only [Except.error.injEq] at h; subst h
    exact parseU32_err he ha
  · split at h
    · rename_i e he
      simp only [Except.error.injEq] at h; subst h
      exact parseU32_err he hb
    · split at h
      · simp only [Except.error.injEq] at h; subst h
        exact one_label hab
      · cases h

theorem mixedNum_err {i a b : Tok} {d : Diag} (h : mixedNum (α := α) i a b = .error d)
    (hi : SpanOK off w ⟨i.start, i.stop⟩)
    (ha : SpanOK off w ⟨a.start, a.stop⟩) (hb : SpanOK off w ⟨b.start, b.stop⟩)
    (hab : SpanOK off w ⟨a.start, b.stop⟩) : DiagOK off w d := by
  unfold mixedNum at h
  split at h
  · rename_i e he
    simp only [Except.error.injEq] at h; subst h
    exact parseU32_err he hi
  · split at h
    · rename_i e he
      simp only [Except.error.injEq] at h; subst h
      exact fracNum_err he ha hb hab
    · cases h
    · cases h

theorem except_map_err {β γ : Type} {f : β → γ} {x : Except Diag β} {d : Diag}
    (h : x.map f = .error d) : x = .error d := by
  cases x with
  | error e => simpa [Except.map] using h
  | ok a => simp [Except.map] at h

theorem frac3_err {l f : List Tok} {x s y : Tok} {d : Diag} (h : TokOKs off w l) (hf : f.Sublist l)
    (hfe : f = [x, s, y]) (he : fracNum (α := α) x y = .error d) : DiagOK off w d := by
  subst hfe
  have h' := h.sublist hf
  refine fracNum_err he (h'.1 x (by simp)) (h'.1 y (by simp)) (h.pair (List.Sublist.trans ?_ hf))
  exact List.Sublist.cons₂ _ (List.Sublist.cons _ (List.Sublist.refl _))

theorem numericValue_err {l : List Tok} {d : Diag} (h : TokOKs off w l)
    (he : numericValue (α := α) l = some (.error d)) : DiagOK off w d := by
  have hs := trimTokens_sublist l
  have hfs : ((trimTokens l).filter notWsComment).Sublist l := List.Sublist.trans List.filter_sublist hs
  unfold numericValue at he
  simp only at he
  split at he
  · cases he
  split at he
  · split at he <;> cases he
  · split at he
    · cases he
    · split at he
      · rename_i x s y hf
        split at he
        · simp only [Option.some.injEq] at he
          exact frac3_err h hfs hf (except_map_err he)
        · cases he
      · cases he
  · split at he <;> cases he
  · split at he
    · rename_i i x s y hf
      split at he
      · simp only [Option.some.injEq] at he
        have he' := except_map_err he
        rw [hf] at hfs
        have h' := h.sublist hfs
        refine mixedNum_err he' (h'.1 i (by simp)) (h'.1 x (by simp)) (h'.1 y (by simp))
          (h.pair (List.Sublist.trans ?_ hfs))
        exact List.Sublist.cons _ (List.Sublist.cons₂ _ (List.Sublist.cons _ (List.Sublist.refl _)))
      · cases he
    · rename_i x s y hf
      split at he
      · simp only [Option.some.injEq] at he
        exact frac3_err h hfs hf (except_map_err he)
      · cases he
    · cases he

theorem rangeValue_err {l : List Tok} {b : Bool} {d : Diag} (h : TokOKs off w l)
    (he : rangeValue (α := α) b l = some (.error d)) : DiagOK off w d := by
  unfold rangeValue at he
  split at he
  · cases he
  split at he
  · cases he
  · rename_i mid hmid
    simp only at he
    split at he
    · cases he
    · rename_i e1 h1
      simp only [Option.some.injEq, Except.error.injEq] at he; subst he
      exact numericValue_err (h.sublist (List.take_sublist _ _)) h1
    · split at he
      · cases he
      · rename_i e2 h2
        simp only [Option.some.injEq, Except.error.injEq] at he; subst he
        exact numericValue_err (h.sublist (List.drop_sublist _ _)) h2
      · cases he
      · simp only [Option.some.injEq] at he
        cases he
    · simp only [Option.some.injEq] at he
      cases he

theorem numOrRange_err {l : List Tok} {b : Bool} {d : Diag} (h : TokOKs off w l)
    (he : numOrRange (α := α) b l = some (.error d)) : DiagOK off w d := by
  unfold numOrRange at he
  split at he
  · rename_i r hr
    simp only [Option.some.injEq] at he; subst he
    exact rangeValue_err h hr
  · exact numericValue_err h he

theorem RunIn.headStart' {o : Nat} {l : List Tok} (h : RunIn off w o l) {d : Nat} (hd : Boundary off w d) :
    RunIn off w ((l.head?.map (·.start)).getD d) l := by
  cases l with
  | nil => exact RunIn.nil hd
  | cons t r => simp only [List.head?_cons, Option.map_some, Option.getD_some]; rw [h.cons.1]; exact h

theorem RunIn.valueSpan {o : Nat} {l : List Tok} (h : RunIn off w o l) :
    SpanOK off w ⟨(l.head?.map (·.start)).getD (lastStop o l), lastStop o l⟩ := by
  cases l with
  | nil => exact SpanOK.pos h.start
  | cons t r =>
    simp only [List.head?_cons, Option.map_some, Option.getD_some]; rw [h.cons.1]; exact h.spanOK

theorem parseValue_ev (hc : Ctx off w Pv ts) (h : GE Pv ts e s) {o : Nat} {toks : List Tok}
    (hr : RunIn off w o toks) (hcur : offAt ts s.cur = lastStop o toks) :
    Sat (parseValue (α := α) toks) s (fun r s' => GE Pv ts e s' ∧ s'.cur = s.cur ∧ SpanOK off w r.span) := by
  unfold parseValue
  refine Sat.bind (currentOffset_sat h.g ?_)
  dsimp only
  have hsp := hr.valueSpan
  rw [← hcur] at hsp
  refine Sat.bind (hasExt_sat h.g ?_)
  split
  · exact Sat.pure ⟨h, rfl, hsp⟩
  · rename_i d hd
    refine Sat.bind (Sat.pushEv ?_)
    exact Sat.pure ⟨h.push (hc.diag _ _ h.evs (numOrRange_err hr.toksOK hd)).1, rfl, hsp⟩
  · refine Sat.bind (Sat.mono (textValue_ev hc h (hr.headStart' (hc.wfi.offAt s.cur))) ?_)
    rintro v s1 ⟨g1, c1⟩
    exact Sat.pure ⟨g1, c1, hsp⟩

theorem qvalue_ev (hc : Ctx off w Pv ts) (h : GE Pv ts e s) :
    Sat (qvalue (α := α)) s (fun r s' => GE Pv ts e s' ∧ s.cur ≤ s'.cur ∧ PQValueOK off w r) := by
  unfold qvalue
  refine Sat.bind (Sat.mono (scalingLock_ev hc h) ?_)
  rintro lock s1 ⟨g1, c1, hlock⟩
  refine Sat.bind (Sat.mono (consumeWhile_ge _ g1) ?_)
  rintro vt s2 ⟨g2, c2, hvt, -, -⟩
  have hr : RunIn off w (offAt ts s1.cur) vt := by rw [hvt]; exact hc.wfi.slice c2
  have hcur : offAt ts s2.cur = lastStop (offAt ts s1.cur) vt := by rw [hvt, offAt_slice c2]
  refine Sat.bind (Sat.mono (parseValue_ev hc g2 hr hcur) ?_)
  rintro v s3 ⟨g3, c3, hv⟩
  exact Sat.pure ⟨g3, by omega, hv, hlock⟩

/-- what `parse_quantity` returns: all spans fine, and the unit separator `%` lies before the end of
    the unit text (the cookware diagnostic builds a span from the two) -/
def PQRet (off : Nat) (w : List Char) (r : ParsedQuantity α) : Prop :=
  LocQOK off w r.quantity ∧ OptOK (SpanOK off w) r.unitSep ∧
  ∀ sep u, r.unitSep = some sep → r.quantity.val.unit = some u → sep.start ≤ u.span.stop

theorem parseRegularQuantity_ev (hc : Ctx off w Pv ts) (h : GE Pv ts e s) :
    Sat (parseRegularQuantity (α := α)) s (fun r s' => GE Pv ts e s' ∧ PQRet off w r) := by
  unfold parseRegularQuantity
  refine Sat.bind (Sat.mono (qvalue_ev hc h) ?_)
  rintro value s1 ⟨g1, c1, hval⟩
  apply Sat.bind
  apply Sat.mono (Q := fun (u : Option (Span × Text)) s' => GE Pv ts e s' ∧
    OptOK (fun p => SpanOK off w p.1 ∧ TextOK off w p.2 ∧ p.1.start ≤ p.2.span.stop) u)
  · refine Sat.bind (peekK_sat g1.g ?_)
    split
    · rename_i hk
      obtain ⟨t, ht, -⟩ := peek_some hk
      refine Sat.bind (Sat.mono (bumpAny_ge g1 ht) ?_)
      rintro sep s2 ⟨rfl, g2, c2⟩
      refine Sat.bind (Sat.mono (consumeRest_ge g2) ?_)
      rintro ut s3 ⟨g3, c3, hut⟩
      have hr : RunIn off w sep.stop ut := by
        rw [hut, ← offAt_succ ht, ← c2]; exact hc.wfi.slice g2.le
      refine Sat.bind (bpText_sat hr.run ?_)
      refine Sat.pure ⟨g3, hc.wfi.tok ht, hr.text, ?_⟩
      have := hr.text_range
      have := hr.text.1.2.2
      show sep.start ≤ (buildText sep.stop ut).span.stop
      have : sep.start ≤ sep.stop := by simp [Tok.stop]
      omega
    · exact Sat.pure ⟨g1, trivial⟩
  · intro unit s2 ⟨g2, hu⟩
    have hall := hc.wfi.all
    refine Sat.bind (Sat.get ?_)
    dsimp only
    split
    · rename_i sep ut
      split
      · refine Sat.bind (Sat.pwarnE ?_)
        have g3 := g2.warn hc (kind := "empty-unit") (one_label hu.1)
        refine Sat.bind (Sat.get ?_)
        refine Sat.bind (tokensSpanP_sat (by rw [g3.g.toks]; exact hc.wfi.ne) ?_)
        refine Sat.pure ⟨g3, ⟨?_, hval, trivial⟩, hu.1, ?_⟩
        · rw [g3.g.toks]; exact hall
        · intro _ _ _ h0; cases h0
      · refine Sat.bind (Sat.get ?_)
        refine Sat.bind (tokensSpanP_sat (by rw [g2.g.toks]; exact hc.wfi.ne) ?_)
        refine Sat.pure ⟨g2, ⟨?_, hval, hu.2.1⟩, hu.1, ?_⟩
        · rw [g2.g.toks]; exact hall
        · intro sep' u' h1 h2
          simp only [Option.map_some, Option.some.injEq] at h1 h2
          subst h1 h2
          exact hu.2.2
    · refine Sat.bind (Sat.get ?_)
      refine Sat.bind (tokensSpanP_sat (by rw [g2.g.toks]; exact hc.wfi.ne) ?_)
      refine Sat.pure ⟨g2, ⟨?_, hval, trivial⟩, trivial, ?_⟩
      · rw [g2.g.toks]; exact hall
      · intro _ _ h0; cases h0

theorem rtrim_prefix (p : Tok → Bool) (l : List Tok) : ∃ suf, l = (l.reverse.dropWhile p).reverse ++ suf := by
  have hsplit := List.takeWhile_append_dropWhile (p := p) (l := l.reverse)
  refine ⟨(l.reverse.takeWhile p).reverse, ?_⟩
  rw [← List.reverse_append, hsplit, List.reverse_reverse]

theorem RunIn.headStartNe {o : Nat} {l : List Tok} (h : RunIn off w o l) (hne : l ≠ []) (d : Nat) :
    RunIn off w ((l.head?.map (·.start)).getD d) l := by
  cases l with
  | nil => exact absurd rfl hne
  | cons t r => simp only [List.head?_cons, Option.map_some, Option.getD_some]; rw [h.cons.1]; exact h

theorem parseAdvancedQuantity_ev (hc : Ctx off w Pv ts) (h : GE Pv ts e s) :
    Sat (parseAdvancedQuantity (α := α)) s (fun r s' => GE Pv ts e s' ∧ OptOK (PQRet off w) r) := by
  unfold parseAdvancedQuantity
  refine Sat.bind (allToks_sat h.g ?_)
  dsimp only
  split
  · exact Sat.pure ⟨h, trivial⟩
  refine Sat.bind (Sat.mono (scalingLock_ev hc h) ?_)
  rintro lock s1 ⟨g1, c1, hlock⟩
  unfold wsComments
  refine Sat.bind (Sat.mono (consumeWhile_ge _ g1) ?_)
  rintro _ s2 ⟨g2, c2, -, -, hend2⟩
  refine Sat.bind (Sat.mono (consumeWhile_ge _ g2) ?_)
  rintro vt s3 ⟨g3, c3, hvt, -, -⟩
  split
  · exact Sat.pure ⟨g3, trivial⟩
  rename_i l hl
  split
  · exact Sat.pure ⟨g3, trivial⟩
  have hne : (vt.reverse.dropWhile (fun t => t.kind == .ws || t.kind == .blockComment)).reverse ≠ [] := by
    cases hv : vt with
    | nil => rw [hv] at hl; simp at hl
    | cons t rest =>
      rw [hv] at hvt
      have ht := hend2 t (slice_head hvt.symm)
      apply rtrim_ne_nil _ _ t (by simp)
      simp only [isWsComment, Bool.or_eq_false_iff] at ht
      simp [ht.1.1, ht.2]
  have hrv : RunIn off w (offAt ts s2.cur)
      (vt.reverse.dropWhile (fun t => t.kind == .ws || t.kind == .blockComment)).reverse := by
    obtain ⟨suf, hsuf⟩ := rtrim_prefix (fun t => t.kind == .ws || t.kind == .blockComment) vt
    have h0 : RunIn off w (offAt ts s2.cur) vt := by rw [hvt]; exact hc.wfi.slice c3
    rw [hsuf] at h0
    exact h0.append.1
  split
  · rename_i hemp
    exfalso; apply hne
    simpa using hemp
  refine Sat.bind (Sat.mono (consumeRest_ge g3) ?_)
  rintro ut s5 ⟨g5, c5, hut⟩
  split
  · exact Sat.pure ⟨g5, trivial⟩
  rename_i hutne
  have hutne' : ut ≠ [] := by intro h0; rw [h0] at hutne; simp at hutne
  try dsimp only
  refine Sat.bind (hasExt_sat g5.g ?_)
  split
  · exact Sat.pure ⟨g5, trivial⟩
  rename_i r hr
  have hrun : RunIn off w (offAt ts s3.cur) ut := by rw [hut]; exact hc.wfi.slice g3.le
  apply Sat.bind
  apply Sat.mono (Q := fun _ s' => GE Pv ts e s')
  · split
    · exact Sat.pure g5
    · rename_i d
      refine Sat.bind (Sat.pushEv ?_)
      exact Sat.pure (g5.push (hc.diag _ _ g5.evs (numOrRange_err hrv.toksOK hr)).1)
  rintro v s6 g6
  have hunit := hrun.headStartNe hutne' 0
  refine Sat.bind (bpText_sat hunit.run ?_)
  refine Sat.bind (tokensSpanP_sat hc.wfi.ne ?_)
  refine Sat.pure ⟨g6, ⟨hc.wfi.all, ⟨hrv.tokensSpan hne, hlock⟩, hunit.text⟩, trivial, ?_⟩
  intro _ _ h0; cases h0

/-- `parse_quantity`: the sub-parser over the tokens between the braces -/
theorem parseQuantity_ev {q : List Tok} (hc : Ctx off w Pv ts) (hq : WFI off w q) (h : GE Pv ts e s) :
    Sat (parseQuantity (α := α) q) s (fun r s' => GE Pv ts e s' ∧ s'.cur = s.cur ∧ PQRet off w r) := by
  unfold parseQuantity
  have hne : q.isEmpty = false := by
    have := hq.ne
    cases q <;> simp_all
  have hcq : Ctx off w Pv q := ⟨hq, hc.diag⟩
  simp only [hne, Bool.false_eq_true, if_false]
  refine Sat.bind (Sat.get ?_)
  refine Sat.bind (Sat.set ?_)
  have g0 : GE Pv q e ({ s with toks := q, cur := 0 } : BP α) :=
    ⟨⟨rfl, h.g.ext, h.g.panic, Nat.zero_le _⟩, h.evs⟩
  apply Sat.bind
  apply Sat.mono (Q := fun r s' => GE Pv q e s' ∧ OptOK (PQRet off w) r)
  · refine Sat.bind (hasExt_sat g0.g ?_)
    split
    · apply withRecover_sat
      refine Sat.mono (parseAdvancedQuantity_ev hcq g0) ?_
      rintro r s1 ⟨g1, hr⟩
      cases r with
      | none => exact ⟨g1.setCur (Nat.zero_le _), trivial⟩
      | some b => exact ⟨g1, hr⟩
    · exact Sat.pure ⟨g0, trivial⟩
  rintro adv s1 ⟨g1, hadv⟩
  apply Sat.bind
  apply Sat.mono (Q := fun r s' => GE Pv q e s' ∧ PQRet off w r)
  · split
    · exact Sat.pure ⟨g1, hadv⟩
    · exact parseRegularQuantity_ev hcq g1
  rintro r s2 ⟨g2, hr⟩
  refine Sat.bind (Sat.modify ?_)
  exact Sat.pure ⟨⟨⟨h.g.toks, g2.g.ext, g2.g.panic, h.g.le⟩, g2.evs⟩, rfl, hr⟩

/-! ### Components -/

/-- a parsed component body: the name tokens are a run inside the text starting where the body
    started, a quantity is a block, the span of the braces is fine and ends after the name start -/
def BodyOKE (off : Nat) (w : List Char) (ts : List Tok) (c : Nat) (b : Body) : Prop :=
  RunIn off w (offAt ts c) b.name ∧ (∀ q, b.quantity = some q → WFI off w q) ∧
  (∀ sp, b.close = some sp → SpanOK off w sp ∧ offAt ts c ≤ sp.stop)

theorem compBodyLong_ev (hc : Ctx off w Pv ts) (h : GE Pv ts e s) :
    Sat (compBodyLong (α := α)) s (fun r s' => GE Pv ts e s' ∧
      match r with
      | none => s'.cur = s.cur
      | some b => s.cur < s'.cur ∧ BodyOKE off w ts s.cur b) := by
  unfold compBodyLong
  apply withRecover_sat
  refine Sat.bind (Sat.mono (untilK_ge _ h) ?_)
  rintro r1 s1 ⟨g1, h1⟩
  cases r1 with
  | none => exact Sat.pure ⟨g1.setCur h.le, rfl⟩
  | some name =>
    obtain ⟨c1, hname, -, -⟩ := h1
    refine Sat.bind (Sat.mono (consumeK_ge _ g1) ?_)
    rintro r2 s2 ⟨g2, h2⟩
    cases r2 with
    | none => exact Sat.pure ⟨g2.setCur h.le, rfl⟩
    | some ob =>
      obtain ⟨hob, -, c2⟩ := h2
      refine Sat.bind (Sat.mono (untilK_ge _ g2) ?_)
      rintro r3 s3 ⟨g3, h3⟩
      cases r3 with
      | none => exact Sat.pure ⟨g3.setCur h.le, rfl⟩
      | some q =>
        obtain ⟨c3, hq, ⟨t, ht, hk⟩, -⟩ := h3
        refine Sat.bind (Sat.mono (bump_ge g3 ht (by simpa using hk)) ?_)
        rintro cb s4 ⟨rfl, g4, c4⟩
        refine Sat.pure ⟨g4, by omega, ?_, ?_, ?_⟩
        · rw [hname]; exact hc.wfi.slice c1
        · intro q' hq'
          dsimp only at hq'
          split at hq'
          · rename_i hany
            simp only [Option.some.injEq] at hq'
            subst hq'
            have hr : RunIn off w (offAt ts s2.cur) q := by rw [hq]; exact hc.wfi.slice c3
            refine hr.wfi ?_
            intro h0; rw [h0] at hany; simp at hany
          · cases hq'
        · intro sp hsp
          simp only [Option.some.injEq] at hsp
          subst hsp
          refine ⟨hc.wfi.span_toks hob ht (by omega), ?_⟩
          show offAt ts s.cur ≤ cb.stop
          rw [(hc.wfi.tokAt ht).2]
          exact hc.wfi.offAt_mono (by omega)

theorem compBodyShort_ev (hc : Ctx off w Pv ts) (h : GE Pv ts e s) :
    Sat (compBodyShort (α := α)) s (fun r s' => GE Pv ts e s' ∧
      match r with
      | none => s'.cur = s.cur
      | some b => s.cur < s'.cur ∧ BodyOKE off w ts s.cur b) := by
  unfold compBodyShort
  apply withRecover_sat
  refine Sat.bind (Sat.mono (consumeWhile_ge _ h) ?_)
  rintro toks s1 ⟨g1, c1, htoks, -, -⟩
  split
  · refine Sat.bind (restToks_sat g1.g ?_)
    refine Sat.bind (atK_sat g1.g ?_)
    split
    · refine Sat.bind (currentOffset_sat g1.g ?_)
      refine Sat.bind (Sat.pwarnE ?_)
      exact Sat.pure ⟨(g1.warn hc (one_label (SpanOK.pos (hc.wfi.offAt _)))).setCur h.le, rfl⟩
    · exact Sat.pure ⟨g1.setCur h.le, rfl⟩
  · rename_i hne
    refine Sat.pure ⟨g1, ?_, ?_, ?_, ?_⟩
    · apply slice_ne_nil_lt (ts := ts)
      rw [← htoks]; intro h0; rw [h0] at hne; simp at hne
    · rw [htoks]; exact hc.wfi.slice c1
    · intro q hq; cases hq
    · intro sp hsp; cases hsp

theorem compBody_ev (hc : Ctx off w Pv ts) (h : GE Pv ts e s) :
    Sat (compBody (α := α)) s (fun r s' => GE Pv ts e s' ∧
      match r with
      | none => s'.cur = s.cur
      | some b => s.cur < s'.cur ∧ BodyOKE off w ts s.cur b) := by
  unfold compBody
  refine Sat.bind (Sat.mono (compBodyLong_ev hc h) ?_)
  rintro r s1 ⟨g1, h1⟩
  cases r with
  | some b => exact Sat.pure ⟨g1, h1⟩
  | none =>
    dsimp only at h1
    refine Sat.mono (compBodyShort_ev hc g1) ?_
    rintro r s2 ⟨g2, h2⟩
    refine ⟨g2, ?_⟩
    cases r with
    | none => exact h2.trans h1
    | some b => rw [h1] at h2; exact h2

theorem modifiersLoop_ev (inter : Bool) (fuel : Nat) (h : GE Pv ts e s) :
    Sat (modifiersLoop (α := α) inter fuel) s (fun _ s' => GE Pv ts e s' ∧ s.cur ≤ s'.cur ∧
      ModSeq inter (slice ts s.cur s'.cur)) := by
  induction fuel generalizing s with
  | zero =>
    unfold modifiersLoop
    exact Sat.pure ⟨h, Nat.le_refl _, by rw [slice_self]; exact .nil⟩
  | succ fuel ih =>
    unfold modifiersLoop
    refine Sat.bind (peekK_sat h.g ?_)
    split
    · rename_i k hk
      obtain ⟨t, ht, htk⟩ := peek_some hk
      split
      · rename_i hmod
        refine Sat.bind (Sat.mono (bumpAny_ge h ht) ?_)
        rintro _ s1 ⟨-, g1, c1⟩
        refine Sat.mono (ih g1) ?_
        rintro _ s2 ⟨g2, c2, hm⟩
        refine ⟨g2, by omega, ?_⟩
        rw [slice_append ts (Nat.le_succ s.cur) (by omega : s.cur + 1 ≤ s2.cur), slice_one ht]
        rw [c1] at hm
        refine .tok t _ ?_ hm
        rw [htk]
        revert hmod; cases k <;> simp [isModifierTok, modifierFlag]
      · split
        · rename_i hand
          have hand' : t.kind = .and := by rw [htk]; simpa using hand
          refine Sat.bind (Sat.mono (bumpAny_ge h ht) ?_)
          rintro _ s1 ⟨-, g1, c1⟩
          dsimp only
          have hflag : (modifierFlag t.kind).isSome = true := by rw [hand']; rfl
          have hsimple : ∀ s2 : BP α, GE Pv ts e s2 → s2.cur = s1.cur →
              Sat (modifiersLoop (α := α) inter fuel) s2 (fun _ s' => GE Pv ts e s' ∧ s.cur ≤ s'.cur ∧
                ModSeq inter (slice ts s.cur s'.cur)) := by
            intro s2 g2 c2
            refine Sat.mono (ih g2) ?_
            rintro _ s3 ⟨g3, c3, hm⟩
            refine ⟨g3, by omega, ?_⟩
            rw [slice_append ts (Nat.le_succ s.cur) (by omega : s.cur + 1 ≤ s3.cur), slice_one ht]
            rw [c2, c1] at hm
            exact .tok t _ hflag hm
          split
          · rename_i hinter
            apply Sat.bind
            apply withRecover_sat
            refine Sat.bind (Sat.mono (consumeK_ge _ g1) ?_)
            rintro r2 s2 ⟨g2, h2⟩
            cases r2 with
            | none =>
              refine Sat.pure ?_
              exact hsimple _ (g2.setCur g1.le) rfl
            | some o =>
              obtain ⟨ho, hok, c2⟩ := h2
              refine Sat.bind (Sat.mono (untilK_ge _ g2) ?_)
              rintro r3 s3 ⟨g3, h3⟩
              cases r3 with
              | none =>
                refine Sat.pure ?_
                exact hsimple _ (g3.setCur g1.le) rfl
              | some mid =>
                obtain ⟨c3, hmid, ⟨c, hc, hck⟩, hnone⟩ := h3
                refine Sat.bind (Sat.mono (bump_ge g3 hc (by simpa using hck)) ?_)
                rintro _ s4 ⟨-, g4, c4⟩
                refine Sat.pure ?_
                refine Sat.mono (ih g4) ?_
                rintro _ s5 ⟨g5, c5, hm⟩
                refine ⟨g5, by omega, ?_⟩
                have e1 : slice ts s.cur s5.cur = t :: o :: (mid ++ c :: slice ts s4.cur s5.cur) := by
                  have p1 : slice ts s.cur s1.cur = [t] := by rw [c1]; exact slice_one ht
                  have p2 : slice ts s1.cur s2.cur = [o] := by rw [c2]; exact slice_one ho
                  have p4 : slice ts s3.cur s4.cur = [c] := by rw [c4]; exact slice_one hc
                  rw [slice_append ts (i := s.cur) (j := s1.cur) (k := s5.cur) (by omega) (by omega),
                    slice_append ts (i := s1.cur) (j := s2.cur) (k := s5.cur) (by omega) (by omega),
                    slice_append ts (i := s2.cur) (j := s3.cur) (k := s5.cur) (by omega) (by omega),
                    slice_append ts (i := s3.cur) (j := s4.cur) (k := s5.cur) (by omega) (by omega),
                    p1, p2, p4, ← hmid]
                  simp
                rw [e1]
                exact .ref t o c mid _ hinter hand' hok hnone (by simpa using hck) hm
          · exact hsimple _ g1 rfl
        · exact Sat.pure ⟨h, Nat.le_refl _, by rw [slice_self]; exact .nil⟩
    · exact Sat.pure ⟨h, Nat.le_refl _, by rw [slice_self]; exact .nil⟩

theorem modifiersP_ev (h : GE Pv ts e s) :
    Sat (modifiersP (α := α)) s (fun r s' => GE Pv ts e s' ∧ s.cur ≤ s'.cur ∧
      ModSeq (e.has Gen.EXT_INTERMEDIATE_PREPARATIONS) r ∧ r = slice ts s.cur s'.cur) := by
  unfold modifiersP
  refine Sat.bind (hasExt_sat h.g ?_)
  split
  · exact Sat.pure ⟨h, Nat.le_refl _, .nil, (slice_self _ _).symm⟩
  refine Sat.bind (Sat.getCur ?_)
  refine Sat.bind (hasExt_sat h.g ?_)
  refine Sat.bind (restToks_sat h.g ?_)
  refine Sat.bind (Sat.mono (modifiersLoop_ev _ _ h) ?_)
  rintro _ s1 ⟨g1, c1, hm⟩
  refine Sat.bind (Sat.get ?_)
  refine Sat.pure ⟨g1, c1, ?_, ?_⟩
  · rw [g1.g.toks]; exact hm
  · rw [g1.g.toks]; rfl

theorem noteP_ev (hc : Ctx off w Pv ts) (h : GE Pv ts e s) :
    Sat (noteP (α := α)) s (fun r s' => GE Pv ts e s' ∧ s.cur ≤ s'.cur ∧ OptOK (TextOK off w) r) := by
  unfold noteP
  apply withRecover_sat
  refine Sat.bind (Sat.mono (consumeK_ge _ h) ?_)
  rintro r1 s1 ⟨g1, h1⟩
  cases r1 with
  | none => exact Sat.pure ⟨g1.setCur h.le, Nat.le_refl _, trivial⟩
  | some o =>
    obtain ⟨-, -, c1⟩ := h1
    refine Sat.bind (currentOffset_sat g1.g ?_)
    refine Sat.bind (Sat.mono (untilK_ge _ g1) ?_)
    rintro r2 s2 ⟨g2, h2⟩
    cases r2 with
    | none => exact Sat.pure ⟨g2.setCur h.le, Nat.le_refl _, trivial⟩
    | some n =>
      obtain ⟨c2, hn, ⟨c, hcl, hck⟩, -⟩ := h2
      refine Sat.bind (Sat.mono (bump_ge g2 hcl (by simpa using hck)) ?_)
      rintro _ s3 ⟨-, g3, c3⟩
      have hr : RunIn off w (offAt ts s1.cur) n := by rw [hn]; exact hc.wfi.slice c2
      refine Sat.bind (bpText_sat hr.run ?_)
      exact Sat.pure ⟨g3, by omega, hr.text⟩

theorem parseInterRef_ev (hc : Ctx off w Pv ts) (h : GE Pv ts e s) {o : Nat} (toks : List Tok)
    (hr : RunIn off w o toks) :
    Sat (parseInterRef (α := α) toks) s (fun r s' =>
      (GE Pv ts e s' ∧ s'.cur = s.cur ∧ OptOK (fun d : Loc InterData => SpanOK off w d.span) r.1 ∧
        ((r.2 = toks ∧ (toks.head?.map (·.kind)) ≠ some .openParen) ∨
         (∃ endPos, (toks.head?.map (·.kind)) = some .openParen ∧
            toks.findIdx? (fun t => t.kind == .closeParen) = some endPos ∧
            r.2 = toks.drop (endPos + 1)))) ∨
      ((toks.head?.map (·.kind)) = some .openParen ∧
        toks.findIdx? (fun t => t.kind == .closeParen) = none)) := by
  unfold parseInterRef
  split
  · exact Sat.pure (Or.inl ⟨h, rfl, trivial, Or.inl ⟨rfl, by simp⟩⟩)
  rename_i t0 tail
  split
  · rename_i hk
    refine Sat.pure (Or.inl ⟨h, rfl, trivial, Or.inl ⟨rfl, ?_⟩⟩)
    simp only [List.head?_cons, Option.map_some, ne_eq, Option.some.injEq]
    simpa using hk
  rename_i hk
  split
  · rename_i hnone
    refine Sat.bind (Sat.modify ?_)
    refine Sat.pure (Or.inr ⟨?_, hnone⟩)
    simp only [List.head?_cons, Option.map_some, Option.some.injEq]
    simpa using hk
  rename_i pos hpos
  have hpos : (List.head? (t0 :: tail)).map (·.kind) = some TK.openParen ∧
      List.findIdx? (fun t => t.kind == TK.closeParen) (t0 :: tail) = some pos := by
    refine ⟨?_, hpos⟩
    simp only [List.head?_cons, Option.map_some, Option.some.injEq]
    simpa using hk
  extract_lets +onlyGivenNames slice restM inner f sliceSpan ks good
  have hsl : RunIn off w o slice := hr.prefix _
  have hslne : slice ≠ [] := by simp [slice]
  have hss : SpanOK off w sliceSpan := hsl.tokensSpan hslne
  have hin : ∃ o', RunIn off w o' inner := ⟨_, (hsl.suffix 1).prefix _⟩
  have hfm : ∀ t ∈ f, SpanOK off w ⟨t.start, t.stop⟩ := by
    intro t ht
    have h1 : t ∈ inner := (List.mem_filter.mp ht).1
    obtain ⟨o', hin'⟩ := hin
    exact hin'.tok h1
  have hfne : f.isEmpty = false → inner ≠ [] := by
    intro h1 h0
    simp [f, h0] at h1
  have hrest : restM = List.drop (pos + 1) (t0 :: tail) := rfl
  clear_value ks sliceSpan f inner restM slice
  have hgood : ∀ i rel sec, good = some (i, rel, sec) → i ∈ f := by
    intro i rel sec hg
    simp only [good] at hg
    split at hg
    · split at hg
      · simp only [Option.some.injEq, Prod.mk.injEq] at hg; simp [hg.1]
      · cases hg
    · split at hg
      · simp only [Option.some.injEq, Prod.mk.injEq] at hg; simp [hg.1]
      · split at hg
        · simp only [Option.some.injEq, Prod.mk.injEq] at hg; simp [hg.1]
        · cases hg
    · split at hg
      · simp only [Option.some.injEq, Prod.mk.injEq] at hg; simp [hg.1]
      · cases hg
    · cases hg
  clear_value good
  have fin : ∀ (d : Option (Loc InterData)) (s' : BP α), GE Pv ts e s' → s'.cur = s.cur →
      OptOK (fun d : Loc InterData => SpanOK off w d.span) d →
      Sat (pure (d, restM) : P α _) s' (fun r s' =>
      (GE Pv ts e s' ∧ s'.cur = s.cur ∧ OptOK (fun d : Loc InterData => SpanOK off w d.span) r.1 ∧
        ((r.2 = t0 :: tail ∧ ((t0 :: tail).head?.map (·.kind)) ≠ some .openParen) ∨
         (∃ endPos, ((t0 :: tail).head?.map (·.kind)) = some .openParen ∧
            (t0 :: tail).findIdx? (fun t => t.kind == .closeParen) = some endPos ∧
            r.2 = (t0 :: tail).drop (endPos + 1)))) ∨
      (((t0 :: tail).head?.map (·.kind)) = some .openParen ∧
        (t0 :: tail).findIdx? (fun t => t.kind == .closeParen) = none)) := by
    intro d s' g' c' hd
    exact Sat.pure (Or.inl ⟨g', c', hd, Or.inr ⟨_, hpos.1, hpos.2, hrest⟩⟩)
  dsimp only
  split
  · rename_i i rel sec
    have hi := hgood i rel sec rfl
    split
    · exact fin _ _ h rfl hss
    · refine Sat.bind (Sat.perrE ?_)
      exact fin _ _ (h.err hc (one_label (hfm i hi))) rfl trivial
  · split
    · refine Sat.bind (Sat.perrE ?_)
      exact fin _ _ (h.err hc (one_label hss)) rfl trivial
    · rename_i hf
      split
      · refine Sat.bind (Sat.perrE ?_)
        refine fin _ _ (h.err hc ?_) rfl trivial
        intro l hl
        obtain ⟨t, ht, rfl⟩ := List.mem_map.mp hl
        exact hfm t (List.mem_of_mem_take ht)
      · split
        · refine Sat.bind (Sat.perrE ?_)
          refine fin _ _ (h.err hc ?_) rfl trivial
          intro l hl
          cases hx : f[f.length - 2]? with
          | none => rw [hx] at hl; simp at hl
          | some t =>
            rw [hx] at hl
            simp only [Option.map_some, Option.getD_some, List.mem_singleton] at hl
            subst hl
            exact hfm t (List.mem_of_getElem? hx)
        · obtain ⟨o', hin'⟩ := hin
          have hine := hfne (by simpa using hf)
          refine Sat.bind (tokensSpanP_sat hine ?_)
          refine Sat.bind (Sat.perrE ?_)
          exact fin _ _ (h.err hc (one_label (hin'.tokensSpan hine))) rfl trivial

abbrev InterOK (off : Nat) (w : List Char) (d : Option (Loc InterData)) : Prop :=
  OptOK (fun d : Loc InterData => SpanOK off w d.span) d

theorem parseInterRef_modseq_ev (hc : Ctx off w Pv ts) (h : GE Pv ts e s) {a : Tok} {rest : List Tok}
    {o : Nat} (hr : RunIn off w o rest) (hm : ModSeq true (a :: rest)) :
    Sat (parseInterRef (α := α) rest) s (fun r s' => GE Pv ts e s' ∧ s'.cur = s.cur ∧ ModSeq true r.2 ∧
      (∀ t ∈ r.2, t ∈ rest) ∧ InterOK off w r.1 ∧ ∃ o', RunIn off w o' r.2) := by
  refine Sat.mono (parseInterRef_ev hc h rest hr) ?_
  intro r s1 hres
  cases hm with
  | tok _ _ hf hrest =>
    have hhead : (rest.head?.map (·.kind)) ≠ some .openParen := by
      cases rest with
      | nil => simp
      | cons x l =>
        have := hrest.head_flag
        intro h0
        simp only [List.head?_cons, Option.map_some, Option.some.injEq] at h0
        rw [h0, modifierFlag_openParen] at this; cases this
    rcases hres with ⟨g1, c1, hd, ⟨h1, -⟩ | ⟨_, h2, -⟩⟩ | ⟨h2, -⟩
    · rw [h1]; exact ⟨g1, c1, hrest, fun t ht => ht, hd, o, hr⟩
    · exact absurd h2 hhead
    · exact absurd h2 hhead
  | ref _ o' c mid rest' _ ha ho hmid hcl hrest =>
    have hfind := findIdx_ref (fun t => t.kind == .closeParen) o' c mid rest'
      (by simp [ho]) hmid (by simp [hcl])
    rcases hres with ⟨g1, c1, hd, ⟨-, h1⟩ | ⟨endPos, -, h2, h3⟩⟩ | ⟨-, h2⟩
    · exfalso; apply h1; simp [ho]
    · rw [hfind] at h2
      simp only [Option.some.injEq] at h2
      subst h2
      have hsuf := hr.suffix (mid.length + 1 + 1)
      have : List.drop (mid.length + 1 + 1) (o' :: (mid ++ c :: rest')) = rest' := by
        simp [List.drop_append]
      rw [this] at h3 hsuf
      rw [h3]
      exact ⟨g1, c1, hrest, fun t ht => by simp [ht], hd, _, hsuf⟩
    · rw [hfind] at h2; cases h2

theorem parseModifiersLoop_ev (hc : Ctx off w Pv ts) (span : Span) (hsp : SpanOK off w span) (ie : Bool)
    (fuel : Nat) (mtoks : List Tok) (m : Modifiers) (d : Option (Loc InterData)) (h : GE Pv ts e s)
    (hm : ModSeq ie mtoks) (hr : ∃ o, RunIn off w o mtoks) (hd : InterOK off w d) :
    Sat (parseModifiersLoop (α := α) span ie fuel mtoks m d) s (fun r s' => GE Pv ts e s' ∧ s'.cur = s.cur ∧
      (r.1.contains Modifiers.RECIPE = true →
        m.contains Modifiers.RECIPE = true ∨ ∃ t ∈ mtoks, t.kind = .at) ∧ InterOK off w r.2) := by
  induction fuel generalizing mtoks m d s with
  | zero =>
    unfold parseModifiersLoop
    exact Sat.pure ⟨h, rfl, fun hc => Or.inl hc, hd⟩
  | succ fuel ih =>
    cases mtoks with
    | nil =>
      unfold parseModifiersLoop
      exact Sat.pure ⟨h, rfl, fun hc => Or.inl hc, hd⟩
    | cons tok rest =>
      unfold parseModifiersLoop
      have hflag := hm.head_flag
      obtain ⟨f, hf⟩ := Option.isSome_iff_exists.mp hflag
      simp only [hf]
      refine Sat.bind (Sat.pure ?_)
      have tail : ∀ (s1 : BP α) (rest' : List Tok) (d' : Option (Loc InterData)), GE Pv ts e s1 →
          s1.cur = s.cur → ModSeq ie rest' → (∀ t ∈ rest', t ∈ rest) → (∃ o, RunIn off w o rest') →
          InterOK off w d' →
          Sat (if (decide (f ≠ 0) && m.contains f) = true then do
                perr "duplicate-modifier" [span]
                parseModifiersLoop (α := α) span ie fuel rest' m d'
              else parseModifiersLoop span ie fuel rest' (m.insert f) d') s1
            (fun r s' => GE Pv ts e s' ∧ s'.cur = s.cur ∧
              (r.1.contains Modifiers.RECIPE = true →
                m.contains Modifiers.RECIPE = true ∨ ∃ t ∈ tok :: rest, t.kind = .at) ∧
              InterOK off w r.2) := by
        intro s1 rest' d' g1 c1 hm' hsub hr' hd'
        split
        · refine Sat.bind (Sat.perrE ?_)
          refine Sat.mono (ih rest' m d' (g1.err hc (one_label hsp)) hm' hr' hd') ?_
          rintro r s2 ⟨g2, c2, hrr, hd2⟩
          refine ⟨g2, c2.trans c1, fun hcc => ?_, hd2⟩
          rcases hrr hcc with h1 | ⟨t, ht, hk⟩
          · exact Or.inl h1
          · exact Or.inr ⟨t, by simp [hsub t ht], hk⟩
        · refine Sat.mono (ih rest' (m.insert f) d' g1 hm' hr' hd') ?_
          rintro r s2 ⟨g2, c2, hrr, hd2⟩
          refine ⟨g2, c2.trans c1, fun hcc => ?_, hd2⟩
          rcases hrr hcc with h1 | ⟨t, ht, hk⟩
          · rcases insert_contains_recipe m tok.kind f hf h1 with h2 | h2
            · exact Or.inl h2
            · exact Or.inr ⟨tok, by simp, h2⟩
          · exact Or.inr ⟨t, by simp [hsub t ht], hk⟩
      obtain ⟨o, hro⟩ := hr
      have hrrest : RunIn off w tok.stop rest := hro.cons.2.2.2
      try dsimp only
      split
      · rename_i hcnd
        simp only [Bool.and_eq_true] at hcnd
        have hie : ie = true := hcnd.2
        subst hie
        refine Sat.bind (Sat.mono (parseInterRef_modseq_ev hc h hrrest hm) ?_)
        rintro r s1 ⟨g1, c1, hm1, hsub, hd1, hr1⟩
        exact tail s1 r.2 r.1 g1 c1 hm1 hsub hr1 hd1
      · rename_i hcnd
        refine tail s rest d h rfl ?_ (fun t ht => ht) ⟨_, hrrest⟩ hd
        cases hm with
        | tok _ _ _ hrest => exact hrest
        | ref _ o c mid rest' hi ha _ _ _ _ =>
          exfalso; apply hcnd; simp [ha, hi]

theorem parseModifiers_ev (hc : Ctx off w Pv ts) (mtoks : List Tok) (pos : Nat) (h : GE Pv ts e s)
    (hm : ModSeq (e.has Gen.EXT_INTERMEDIATE_PREPARATIONS) mtoks) {o : Nat} (hr : RunIn off w o mtoks)
    (hpos : Boundary off w pos) :
    Sat (parseModifiers (α := α) mtoks pos) s (fun r s' => GE Pv ts e s' ∧ s'.cur = s.cur ∧
      (r.flags.val.contains Modifiers.RECIPE = true → ∃ t ∈ mtoks, t.kind = .at) ∧
      SpanOK off w r.flags.span ∧ InterOK off w r.inter) := by
  unfold parseModifiers
  split
  · refine Sat.pure ⟨h, rfl, ?_, SpanOK.pos hpos, trivial⟩
    intro hcc
    have : Modifiers.empty.contains Modifiers.RECIPE = true := hcc
    exact absurd this (by decide)
  rename_i hne
  have hne' : mtoks ≠ [] := by intro h0; apply hne; rw [h0]; rfl
  have hsp := hr.tokensSpan hne'
  dsimp only
  refine Sat.bind (hasExt_sat h.g ?_)
  refine Sat.bind (Sat.mono (parseModifiersLoop_ev hc _ hsp _ _ _ _ _ h hm ⟨_, hr⟩ trivial) ?_)
  rintro r s1 ⟨g1, c1, hrr, hd⟩
  refine Sat.pure ⟨g1, c1, fun hcc => ?_, hsp, hd⟩
  rcases hrr hcc with h1 | h1
  · exact absurd h1 (by decide)
  · exact h1

theorem parseAlias_ev (hc : Ctx off w Pv ts) (container : String) {toks : List Tok} {o : Nat}
    (hr : RunIn off w o toks) (h : GE Pv ts e s) :
    Sat (parseAlias (α := α) container toks o) s (fun r s' => GE Pv ts e s' ∧ s'.cur = s.cur ∧
      TextOK off w r.1 ∧ OptOK (TextOK off w) r.2) := by
  unfold parseAlias
  refine Sat.bind (hasExt_sat h.g ?_)
  dsimp only
  split
  · refine Sat.bind (bpText_sat hr.run ?_)
    exact Sat.pure ⟨h, rfl, hr.text, trivial⟩
  · rename_i i hi
    have hfi : toks.findIdx? (fun t => t.kind == .or) = some i := by
      split at hi
      · exact hi
      · cases hi
    have hlt : i < toks.length := by
      rw [List.findIdx?_eq_some_iff_getElem] at hfi
      exact hfi.1
    have hget : toks[i]? = some toks[i] := List.getElem?_eq_getElem hlt
    obtain ⟨hr1, -, hb1, hb2, hr2⟩ := hr.split hget
    simp only [hget, Option.getD_some]
    refine Sat.bind (bpText_sat hr2.run ?_)
    refine Sat.bind (Sat.get ?_)
    apply Sat.bind
    apply Sat.mono (Q := fun r s' => GE Pv ts e s' ∧ s'.cur = s.cur ∧ OptOK (TextOK off w) r)
    · split
      · refine Sat.bind (Sat.perrE ?_)
        refine Sat.pure ⟨h.err hc (one_label ?_), rfl, trivial⟩
        rw [getLast_getD_stop]
        refine ⟨hb1, hr2.stop, ?_⟩
        have := hr2.le
        have : toks[i].start ≤ toks[i].stop := by simp [Tok.stop]
        show toks[i].start ≤ lastStop toks[i].stop _
        omega
      · split
        · refine Sat.bind (Sat.perrE ?_)
          exact Sat.pure ⟨h.err hc (one_label ⟨hb1, hb2, by simp [Tok.stop]⟩), rfl, trivial⟩
        · exact Sat.pure ⟨h, rfl, hr2.text⟩
    rintro alias s1 ⟨g1, c1, ha⟩
    refine Sat.bind (bpText_sat hr1.run ?_)
    exact Sat.pure ⟨g1, c1, hr1.text, ha⟩

theorem checkEmptyName_ev (hc : Ctx off w Pv ts) (container : String) (name : Text)
    (hn : TextOK off w name) (h : GE Pv ts e s) :
    Sat (checkEmptyName (α := α) container name) s (fun _ s' => GE Pv ts e s' ∧ s'.cur = s.cur) := by
  unfold checkEmptyName
  refine Sat.bind (Sat.get ?_)
  split
  · refine Sat.perrE ?_
    exact ⟨h.err hc (one_label hn.1), rfl⟩
  · exact Sat.pure ⟨h, rfl⟩

theorem checkNoteTimer_ev (hc : Ctx off w Pv ts) (h : GE Pv ts e s) :
    Sat (checkNoteTimer (α := α)) s (fun _ s' => GE Pv ts e s' ∧ s'.cur = s.cur) := by
  unfold checkNoteTimer
  apply Sat.bind
  apply Sat.mono (Q := fun _ s' => GE Pv ts e s' ∧ s'.cur = s.cur)
  · apply withRecover_sat
    refine Sat.bind (Sat.mono (consumeK_ge _ h) ?_)
    rintro r1 s1 ⟨g1, h1⟩
    cases r1 with
    | none => exact Sat.pure ⟨g1.setCur h.le, rfl⟩
    | some o =>
      obtain ⟨hop, -, c1⟩ := h1
      refine Sat.bind (Sat.mono (untilK_ge _ g1) ?_)
      rintro r2 s2 ⟨g2, h2⟩
      cases r2 with
      | none => exact Sat.pure ⟨g2.setCur h.le, rfl⟩
      | some n =>
        obtain ⟨c2, -, ⟨c, hcl, hck⟩, -⟩ := h2
        refine Sat.bind (Sat.mono (bump_ge g2 hcl (by simpa using hck)) ?_)
        rintro cp s3 ⟨rfl, g3, c3⟩
        refine Sat.bind (Sat.pwarnE ?_)
        refine Sat.pure ⟨(g3.warn hc (two_labels ?_ ?_)).setCur h.le, rfl⟩
        · exact hc.wfi.span_toks hop hcl (by omega)
        · exact SpanOK.pos (hc.wfi.tok hop).1
  rintro _ s1 ⟨g1, c1⟩
  exact Sat.pure ⟨g1, c1⟩

/-- the source span of a content event (`none` for block markers and diagnostics) -/
def Ev.srcSpan : Ev α → Option Span
  | .text t => some t.span
  | .ingredient i => some i.span
  | .cookware c => some c.span
  | .timer t => some t.span
  | .metadata k v => some ⟨k.span.start, v.span.stop⟩
  | .«section» (some n) => some n.span
  | _ => none

/-- the source span of the event lies between the cursor positions `c` and `c'` -/
def EvIn (ts : List Tok) (c c' : Nat) (ev : Ev α) : Prop :=
  ∀ sp, ev.srcSpan = some sp → offAt ts c ≤ sp.start ∧ sp.stop ≤ offAt ts c'

/-- what a component parser returns: an event with good spans, located between the cursor before
    and the cursor after -/
def CompRet (off : Nat) (w : List Char) (ts : List Tok) (c c' : Nat) (r : Option (Ev α)) : Prop :=
  OptOK (fun ev => EvSpansOK off w ev ∧ EvIn ts c c' ev) r

/-- the returned component event spans EXACTLY the bytes between the cursor before and the cursor
    after (used by the coverage theorems of C05) -/
def EvAt (ts : List Tok) (c c' : Nat) (r : Option (Ev α)) : Prop :=
  ∀ ev, r = some ev → ev.srcSpan = some ⟨offAt ts c, offAt ts c'⟩

theorem EvAt.none {ts : List Tok} {c c' : Nat} : EvAt (α := α) ts c c' Option.none := by
  intro ev h; cases h

theorem ingredientP_evx (hc : Ctx off w Pv ts) (h : GE Pv ts e s) :
    Sat (ingredientP (α := α)) s (fun r s' => GE Pv ts e s' ∧ (r.isSome = true → s.cur < s'.cur) ∧
      CompRet off w ts s.cur s'.cur r ∧ EvAt ts s.cur s'.cur r) := by
  unfold ingredientP
  refine Sat.bind (currentOffset_sat h.g ?_)
  refine Sat.bind (Sat.mono (consumeK_ge _ h) ?_)
  rintro r1 s1 ⟨g1, h1⟩
  cases r1 with
  | none => exact Sat.pure ⟨g1, by simp, trivial, EvAt.none⟩
  | some m =>
    obtain ⟨-, -, c1⟩ := h1
    refine Sat.bind (currentOffset_sat g1.g ?_)
    refine Sat.bind (Sat.mono (modifiersP_ev g1) ?_)
    rintro mtoks s2 ⟨g2, c2, hm, hmt⟩
    have hrm : RunIn off w (offAt ts s1.cur) mtoks := by rw [hmt]; exact hc.wfi.slice c2
    refine Sat.bind (currentOffset_sat g2.g ?_)
    refine Sat.bind (Sat.mono (compBody_ev hc g2) ?_)
    rintro r3 s3 ⟨g3, h3⟩
    cases r3 with
    | none => exact Sat.pure ⟨g3, by simp, trivial, EvAt.none⟩
    | some body =>
      obtain ⟨c3, hname, hq, -⟩ := h3
      refine Sat.bind (Sat.mono (noteP_ev hc g3) ?_)
      rintro note s4 ⟨g4, c4, hnote⟩
      refine Sat.bind (currentOffset_sat g4.g ?_)
      refine Sat.bind (Sat.mono (parseAlias_ev hc "ingredient" hname g4) ?_)
      rintro ⟨name, alias⟩ s5 ⟨g5, c5, hnm, hal⟩
      dsimp only at hnm hal ⊢
      refine Sat.bind (Sat.mono (checkEmptyName_ev hc "ingredient" name hnm g5) ?_)
      rintro _ s6 ⟨g6, c6⟩
      refine Sat.bind (Sat.mono (parseModifiers_ev hc mtoks _ g6 hm hrm (hc.wfi.offAt _)) ?_)
      rintro pm s7 ⟨g7, c7, -, hfsp, hint⟩
      apply Sat.bind
      apply Sat.mono (Q := fun r s' => GE Pv ts e s' ∧ s'.cur = s7.cur ∧ OptOK (LocQOK off w) r)
      · split
        · rename_i qt hqt
          refine Sat.bind (Sat.mono (parseQuantity_ev hc (hq qt hqt) g7) ?_)
          rintro q s8 ⟨g8, c8, hqr⟩
          exact Sat.pure ⟨g8, c8, hqr.1⟩
        · exact Sat.pure ⟨g7, rfl, trivial⟩
      rintro quantity s8 ⟨g8, c8, hqo⟩
      have hcur : s8.cur = s4.cur := by omega
      refine Sat.pure ⟨g8, fun _ => by omega, ⟨⟨?_, hfsp, hint, hnm, hal, hqo, hnote⟩, ?_⟩, ?_⟩
      · exact hc.wfi.span (by omega)
      · intro sp hsp
        simp only [Ev.srcSpan, Option.some.injEq] at hsp
        subst hsp
        exact ⟨Nat.le_refl _, hc.wfi.offAt_mono (by omega)⟩
      · intro ev hev
        simp only [Option.some.injEq] at hev
        subst hev
        show some _ = some _
        rw [hcur]

theorem ingredientP_ev (hc : Ctx off w Pv ts) (h : GE Pv ts e s) :
    Sat (ingredientP (α := α)) s (fun r s' => GE Pv ts e s' ∧ (r.isSome = true → s.cur < s'.cur) ∧
      CompRet off w ts s.cur s'.cur r) :=
  Sat.mono (ingredientP_evx hc h) (fun _ _ h => ⟨h.1, h.2.1, h.2.2.1⟩)


theorem cookwareP_evx (hc : Ctx off w Pv ts) (h : GE Pv ts e s) :
    Sat (cookwareP (α := α)) s (fun r s' => GE Pv ts e s' ∧ (r.isSome = true → s.cur < s'.cur) ∧
      CompRet off w ts s.cur s'.cur r ∧ EvAt ts s.cur s'.cur r) := by
  unfold cookwareP
  refine Sat.bind (currentOffset_sat h.g ?_)
  refine Sat.bind (Sat.mono (consumeK_ge _ h) ?_)
  rintro r1 s1 ⟨g1, h1⟩
  cases r1 with
  | none => exact Sat.pure ⟨g1, by simp, trivial, EvAt.none⟩
  | some m =>
    obtain ⟨-, -, c1⟩ := h1
    refine Sat.bind (currentOffset_sat g1.g ?_)
    refine Sat.bind (Sat.mono (modifiersP_ev g1) ?_)
    rintro mtoks s2 ⟨g2, c2, hm, hmt⟩
    have hrm : RunIn off w (offAt ts s1.cur) mtoks := by rw [hmt]; exact hc.wfi.slice c2
    refine Sat.bind (currentOffset_sat g2.g ?_)
    refine Sat.bind (Sat.mono (compBody_ev hc g2) ?_)
    rintro r3 s3 ⟨g3, h3⟩
    cases r3 with
    | none => exact Sat.pure ⟨g3, by simp, trivial, EvAt.none⟩
    | some body =>
      obtain ⟨c3, hname, hq, -⟩ := h3
      refine Sat.bind (Sat.mono (noteP_ev hc g3) ?_)
      rintro note s4 ⟨g4, c4, hnote⟩
      refine Sat.bind (currentOffset_sat g4.g ?_)
      refine Sat.bind (Sat.mono (parseAlias_ev hc "cookware" hname g4) ?_)
      rintro ⟨name, alias⟩ s5 ⟨g5, c5, hnm, hal⟩
      dsimp only at hnm hal ⊢
      refine Sat.bind (Sat.mono (checkEmptyName_ev hc "cookware" name hnm g5) ?_)
      rintro _ s6 ⟨g6, c6⟩
      apply Sat.bind
      apply Sat.mono (Q := fun r s' => GE Pv ts e s' ∧ s'.cur = s6.cur ∧
        OptOK (fun q : Loc (PQValue α) => SpanOK off w q.span ∧ PQValueOK off w q.val) r)
      · split
        · rename_i qt hqt
          refine Sat.bind (Sat.mono (parseQuantity_ev hc (hq qt hqt) g6) ?_)
          rintro q s7 ⟨g7, c7, hqr⟩
          split
          · rename_i unit hunit
            have hut : TextOK off w unit := by
              have := hqr.1.2.2
              rw [hunit] at this; exact this
            refine Sat.bind (Sat.perrE ?_)
            refine Sat.pure ⟨g7.err hc (one_label ?_), c7, hqr.1.1, hqr.1.2.1⟩
            split
            · rename_i sep hsep
              have hs : SpanOK off w sep := by
                have := hqr.2.1
                rw [hsep] at this; exact this
              exact ⟨hs.1, hut.1.2.1, hqr.2.2 sep unit hsep hunit⟩
            · exact hut.1
          · exact Sat.pure ⟨g7, c7, hqr.1.1, hqr.1.2.1⟩
        · exact Sat.pure ⟨g6, rfl, trivial⟩
      rintro quantity s7 ⟨g7, c7, hqo⟩
      refine Sat.bind (Sat.mono (parseModifiers_ev hc mtoks _ g7 hm hrm (hc.wfi.offAt _)) ?_)
      rintro pm s8 ⟨g8, c8, hrec, hfsp, hint⟩
      have fin : ∀ s9 : BP α, GE Pv ts e s9 → s9.cur = s8.cur →
          Sat (pure (some (Ev.cookware ⟨⟨pm.flags, name, alias, quantity, note⟩,
              ⟨offAt ts s.cur, offAt ts s4.cur⟩⟩)) : P α (Option (Ev α))) s9
            (fun r s' => GE Pv ts e s' ∧ (r.isSome = true → s.cur < s'.cur) ∧
              CompRet off w ts s.cur s'.cur r ∧ EvAt ts s.cur s'.cur r) := by
        intro s9 g9 c9
        have hcur : s9.cur = s4.cur := by omega
        refine Sat.pure ⟨g9, fun _ => by omega, ⟨⟨?_, hfsp, hnm, hal, hqo, hnote⟩, ?_⟩, ?_⟩
        · exact hc.wfi.span (by omega)
        · intro sp hsp
          simp only [Ev.srcSpan, Option.some.injEq] at hsp
          subst hsp
          exact ⟨Nat.le_refl _, hc.wfi.offAt_mono (by omega)⟩
        · intro ev hev
          simp only [Option.some.injEq] at hev
          subst hev
          show some _ = some _
          rw [hcur]
      have hrcp : ∀ s9 : BP α, GE Pv ts e s9 → s9.cur = s8.cur →
          Sat (do
            if pm.flags.val.contains Modifiers.RECIPE then
              match mtoks.find? (fun t => t.kind == .at) with
              | some t => perr "cookware-recipe-modifier" [⟨t.start, t.stop⟩]
              | none => panicWith "no recipe token in modifiers with recipe"
            return some (Ev.cookware ⟨⟨pm.flags, name, alias, quantity, note⟩,
              ⟨offAt ts s.cur, offAt ts s4.cur⟩⟩) : P α (Option (Ev α))) s9
            (fun r s' => GE Pv ts e s' ∧ (r.isSome = true → s.cur < s'.cur) ∧
              CompRet off w ts s.cur s'.cur r ∧ EvAt ts s.cur s'.cur r) := by
        intro s9 g9 c9
        split
        · rename_i hcc
          obtain ⟨t, htm, htk⟩ := hrec hcc
          split
          · rename_i t' hfind
            refine Sat.bind (Sat.perrE ?_)
            exact fin _ (g9.err hc (one_label (hrm.tok (List.mem_of_find?_eq_some hfind)))) c9
          · rename_i hnone
            exfalso
            rw [List.find?_eq_none] at hnone
            exact hnone t htm (by simp [htk])
        · exact Sat.bind (Sat.pure (fin _ g9 c9))
      split
      · rename_i d hd
        refine Sat.bind (Sat.perrE ?_)
        refine hrcp _ (g8.err hc (one_label ?_)) rfl
        have := hint
        rw [hd] at this; exact this
      · exact Sat.bind (Sat.pure (hrcp _ g8 rfl))

theorem cookwareP_ev (hc : Ctx off w Pv ts) (h : GE Pv ts e s) :
    Sat (cookwareP (α := α)) s (fun r s' => GE Pv ts e s' ∧ (r.isSome = true → s.cur < s'.cur) ∧
      CompRet off w ts s.cur s'.cur r) :=
  Sat.mono (cookwareP_evx hc h) (fun _ _ h => ⟨h.1, h.2.1, h.2.2.1⟩)

theorem sepToEnd_aux (a b : List Tok) (t : Tok) :
    ((a ++ t :: b).getLast?.getD t).stop = lastStop t.stop b := by
  rw [getLast_getD_stop, lastStop_append, lastStop_cons]

/-- the span from a token of a run to the end of the run -/
theorem RunIn.sepToEnd {o : Nat} {l : List Tok} {i : Nat} {t : Tok} (h : RunIn off w o l)
    (ht : l[i]? = some t) : SpanOK off w ⟨t.start, (l.getLast?.getD t).stop⟩ := by
  have hi : i < l.length := getElem?_lt ht
  have e1 : l = l.take i ++ (t :: l.drop (i + 1)) := by
    have h1 : l.drop i = t :: l.drop (i + 1) := by
      rw [List.drop_eq_getElem_cons hi]
      rw [List.getElem?_eq_getElem hi] at ht
      simp only [Option.some.injEq] at ht
      rw [ht]
    rw [← h1, List.take_append_drop]
  have e2 : (l.getLast?.getD t).stop = lastStop t.stop (l.drop (i + 1)) := by
    conv => lhs; rw [e1]
    exact sepToEnd_aux _ _ _
  obtain ⟨-, -, hb1, hb2, hr2⟩ := h.split ht
  rw [e2]
  refine ⟨hb1, hr2.stop, ?_⟩
  have := hr2.le
  have : t.start ≤ t.stop := by simp [Tok.stop]
  show t.start ≤ lastStop t.stop _
  omega

theorem recoverPQuantity_ok (hz : Boundary off w 0) : LocQOK off w (recoverPQuantity (α := α)) :=
  ⟨SpanOK.pos hz, ⟨SpanOK.pos hz, trivial⟩, trivial⟩

/-- `timer`.  `hz`: position 0 is a boundary of the text (the spans of the recovered quantity the
    parser substitutes for a missing one are the documented `(0, 0)`) -/
theorem timerP_evx (hc : Ctx off w Pv ts) (hz : Boundary off w 0) (h : GE Pv ts e s) :
    Sat (timerP (α := α)) s (fun r s' => GE Pv ts e s' ∧ (r.isSome = true → s.cur < s'.cur) ∧
      CompRet off w ts s.cur s'.cur r ∧ EvAt ts s.cur s'.cur r) := by
  unfold timerP
  refine Sat.bind (currentOffset_sat h.g ?_)
  refine Sat.bind (Sat.mono (consumeK_ge _ h) ?_)
  rintro r1 s1 ⟨g1, h1⟩
  cases r1 with
  | none => exact Sat.pure ⟨g1, by simp, trivial, EvAt.none⟩
  | some m =>
    obtain ⟨-, -, c1⟩ := h1
    refine Sat.bind (Sat.mono (modifiersP_ev g1) ?_)
    rintro mtoks s2 ⟨g2, c2, hm, hmt⟩
    have hrm : RunIn off w (offAt ts s1.cur) mtoks := by rw [hmt]; exact hc.wfi.slice c2
    refine Sat.bind (currentOffset_sat g2.g ?_)
    refine Sat.bind (Sat.mono (compBody_ev hc g2) ?_)
    rintro r3 s3 ⟨g3, h3⟩
    cases r3 with
    | none => exact Sat.pure ⟨g3, by simp, trivial, EvAt.none⟩
    | some body =>
      obtain ⟨c3, hname, hq, hclose⟩ := h3
      refine Sat.bind (currentOffset_sat g3.g ?_)
      have hrec := recoverPQuantity_ok (α := α) hz
      have hnt := hname.text
      try simp -zeta only
      extract_lets +onlyGivenNames -underBinder jp1
      have hjp1 : ∀ (r : Unit) (s4 : BP α), GE Pv ts e s4 → s4.cur = s3.cur → Sat (jp1 r) s4
          (fun r s' => GE Pv ts e s' ∧ (r.isSome = true → s.cur < s'.cur) ∧
            CompRet off w ts s.cur s'.cur r ∧ EvAt ts s.cur s'.cur r) := by
        intro r s4 g4 c4
        simp -zeta only [jp1]
        refine Sat.bind (hasExt_sat g4.g ?_)
        try simp -zeta only
        extract_lets +onlyGivenNames -underBinder jp2
        have hjp2 : ∀ (r : Unit) (s5 : BP α), GE Pv ts e s5 → s5.cur = s3.cur → Sat (jp2 r) s5
            (fun r s' => GE Pv ts e s' ∧ (r.isSome = true → s.cur < s'.cur) ∧
              CompRet off w ts s.cur s'.cur r ∧ EvAt ts s.cur s'.cur r) := by
          intro r s5 g5 c5
          simp -zeta only [jp2]
          refine Sat.bind (Sat.mono (checkNoteTimer_ev hc g5) ?_)
          rintro _ s6 ⟨g6, c6⟩
          refine Sat.bind (bpText_sat hname.run ?_)
          refine Sat.bind (Sat.get ?_)
          try simp -zeta only
          extract_lets +onlyGivenNames -underBinder cs
          apply Sat.bind
          apply Sat.mono (Q := fun r s' => GE Pv ts e s' ∧ s'.cur = s3.cur ∧ OptOK (LocQOK off w) r)
          · split
            · rename_i qt hqt
              refine Sat.bind (Sat.mono (parseQuantity_ev hc (hq qt hqt) g6) ?_)
              rintro q s7 ⟨g7, c7, hqr⟩
              dsimp only
              split
              · refine Sat.bind (Sat.perrE ?_)
                exact Sat.pure ⟨g7.err hc (one_label (SpanOK.pos hqr.1.2.1.1.2.1)), (by show s7.cur = s3.cur; omega), hqr.1⟩
              · exact Sat.pure ⟨g7, by omega, hqr.1⟩
            · exact Sat.pure ⟨g6, by omega, trivial⟩
          rintro quantity s7 ⟨g7, c7, hqo⟩
          refine Sat.bind (hasExt_sat g7.g ?_)
          try simp -zeta only
          extract_lets +onlyGivenNames -underBinder jp3
          have hjp3 : ∀ (r : Unit) (qo : Option (Loc (PQuantity α))) (s8 : BP α), GE Pv ts e s8 →
              s8.cur = s3.cur → OptOK (LocQOK off w) qo → Sat (jp3 r qo) s8
              (fun r s' => GE Pv ts e s' ∧ (r.isSome = true → s.cur < s'.cur) ∧
                CompRet off w ts s.cur s'.cur r ∧ EvAt ts s.cur s'.cur r) := by
            intro r qo s8 g8 c8 hqo8
            simp -zeta only [jp3]
            try simp -zeta only
            extract_lets +onlyGivenNames -underBinder nameO jp4
            have hnO : OptOK (TextOK off w) nameO := by
              simp only [nameO]
              split
              · trivial
              · exact hnt
            have hjp4 : ∀ (r : Unit) (qo : Option (Loc (PQuantity α))) (s9 : BP α), GE Pv ts e s9 →
                s9.cur = s3.cur → OptOK (LocQOK off w) qo → Sat (jp4 r qo) s9
                (fun r s' => GE Pv ts e s' ∧ (r.isSome = true → s.cur < s'.cur) ∧
                  CompRet off w ts s.cur s'.cur r ∧ EvAt ts s.cur s'.cur r) := by
              intro r qo s9 g9 c9 hqo9
              simp -zeta only [jp4]
              refine Sat.pure ⟨g9, fun _ => by omega, ⟨⟨?_, hnO, hqo9⟩, ?_⟩, ?_⟩
              · exact hc.wfi.span (by omega)
              · intro sp hsp
                simp only [Ev.srcSpan, Option.some.injEq] at hsp
                subst hsp
                exact ⟨Nat.le_refl _, hc.wfi.offAt_mono (by omega)⟩
              · intro ev hev
                simp only [Option.some.injEq] at hev
                subst hev
                show some _ = some _
                rw [c9]
            clear_value jp4 nameO
            split
            · dsimp only
              refine Sat.bind (Sat.perrE ?_)
              refine hjp4 _ _ _ (g8.err hc (one_label ?_)) c8 hrec
              split
              · rename_i sp hsp
                obtain ⟨h1, h2⟩ := hclose sp hsp
                exact ⟨hc.wfi.offAt _, h1.2.1, h2⟩
              · exact SpanOK.pos (hc.wfi.offAt _)
            · exact hjp4 _ _ _ g8 c8 hqo8
          clear_value jp3
          split
          · dsimp only
            refine Sat.bind (Sat.perrE ?_)
            refine hjp3 _ _ _ (g7.err hc (one_label ?_)) c7 hrec
            cases hcl : body.close with
            | none => exact SpanOK.pos hnt.1.2.1
            | some sp => exact (hclose sp hcl).1
          · exact hjp3 _ _ _ g7 c7 hqo
        clear_value jp2
        split
        · split
          · rename_i i hfi
            have hlt : i < body.name.length := by
              rw [List.findIdx?_eq_some_iff_getElem] at hfi
              exact hfi.1
            have hget : body.name[i]? = some body.name[i] := List.getElem?_eq_getElem hlt
            simp only [hget, Option.getD_some]
            refine Sat.bind (Sat.perrE ?_)
            exact hjp2 _ _ (g4.err hc (one_label (hname.sepToEnd hget))) c4
          · exact hjp2 _ _ g4 c4
        · exact hjp2 _ _ g4 c4
      clear_value jp1
      split
      · rename_i hne
        have hne' : mtoks ≠ [] := by intro h0; rw [h0] at hne; simp at hne
        refine Sat.bind (Sat.perrE ?_)
        exact hjp1 _ _ (g3.err hc (one_label (hrm.tokensSpan hne'))) rfl
      · exact hjp1 _ _ g3 rfl

theorem timerP_ev (hc : Ctx off w Pv ts) (hz : Boundary off w 0) (h : GE Pv ts e s) :
    Sat (timerP (α := α)) s (fun r s' => GE Pv ts e s' ∧ (r.isSome = true → s.cur < s'.cur) ∧
      CompRet off w ts s.cur s'.cur r) :=
  Sat.mono (timerP_evx hc hz h) (fun _ _ h => ⟨h.1, h.2.1, h.2.2.1⟩)

/-! ### Steps and blocks: all spans fine, content events in source order -/

/-- the content events appear in source order without overlapping -/
def SrcOrdered (evs : List (Ev α)) : Prop :=
  evs.Pairwise (fun a b => ∀ sa sb, a.srcSpan = some sa → b.srcSpan = some sb → sa.stop ≤ sb.start)

/-- the invariant of the event queue: every event has good spans, the content events are in source
    order, and all of them end at or before byte `b` -/
structure TopInv (off : Nat) (w : List Char) (b : Nat) (evs : Array (Ev α)) : Prop where
  ok : ∀ ev ∈ evs.toList, EvSpansOK off w ev
  ord : SrcOrdered evs.toList
  bound : ∀ ev ∈ evs.toList, ∀ sp, ev.srcSpan = some sp → sp.stop ≤ b

theorem TopInv.mono {b b' : Nat} {evs : Array (Ev α)} (h : TopInv off w b evs) (hb : b ≤ b') :
    TopInv off w b' evs :=
  ⟨h.ok, h.ord, fun ev hev sp hsp => Nat.le_trans (h.bound ev hev sp hsp) hb⟩

theorem TopInv.push {b b' : Nat} {evs : Array (Ev α)} {ev : Ev α} (h : TopInv off w b evs)
    (hok : EvSpansOK off w ev) (hb : b ≤ b')
    (hin : ∀ sp, ev.srcSpan = some sp → b ≤ sp.start ∧ sp.stop ≤ b') : TopInv off w b' (evs.push ev) := by
  refine ⟨?_, ?_, ?_⟩
  · intro x hx
    simp only [Array.toList_push, List.mem_append, List.mem_singleton] at hx
    rcases hx with hx | rfl
    · exact h.ok x hx
    · exact hok
  · unfold SrcOrdered
    rw [Array.toList_push, List.pairwise_append]
    refine ⟨h.ord, by simp, ?_⟩
    intro a ha c hc' sa sb hsa hsb
    simp only [List.mem_singleton] at hc'
    subst hc'
    exact Nat.le_trans (h.bound a ha sa hsa) (hin sb hsb).1
  · intro x hx sp hsp
    simp only [Array.toList_push, List.mem_append, List.mem_singleton] at hx
    rcases hx with hx | rfl
    · exact Nat.le_trans (h.bound x hx sp hsp) hb
    · exact (hin sp hsp).2

theorem TopInv.pushNone {b : Nat} {evs : Array (Ev α)} {ev : Ev α} (h : TopInv off w b evs)
    (hok : EvSpansOK off w ev) (hn : ev.srcSpan = none) : TopInv off w b (evs.push ev) :=
  h.push hok (Nat.le_refl _) (fun sp hsp => by rw [hn] at hsp; cases hsp)

theorem topCtx (hw : WFI off w ts) (b : Nat) : Ctx off w (TopInv (α := α) off w b) ts :=
  ⟨hw, fun evs d h hd => ⟨h.pushNone hd rfl, h.pushNone hd rfl⟩⟩

theorem GE.mono {Pv' : Array (Ev α) → Prop} (h : GE Pv ts e s) (hp : Pv s.evs → Pv' s.evs) : GE Pv' ts e s :=
  ⟨h.g, hp h.evs⟩

theorem GE.bound {b b' : Nat} (h : GE (TopInv off w b) ts e s) (hb : b ≤ b') : GE (TopInv off w b') ts e s :=
  h.mono (fun hi => hi.mono hb)

/-- one iteration of the `while` of `parse_step` -/
theorem stepOne_ev (hw : WFI off w ts) (hz : Boundary off w 0) {b : Nat} (h : GE (TopInv off w b) ts e s)
    (hb : b ≤ offAt ts s.cur) (hlt : s.cur < ts.length) :
    Sat (stepOne (α := α)) s (fun _ s' => GE (TopInv off w (offAt ts s'.cur)) ts e s' ∧ s.cur < s'.cur) := by
  have hc := topCtx (α := α) hw b
  unfold stepOne
  apply Sat.bind
  apply Sat.mono (Q := fun r s' => GE (TopInv off w b) ts e s' ∧
    match r with
    | none => s'.cur = s.cur
    | some ev => s.cur < s'.cur ∧ EvSpansOK off w ev ∧ EvIn ts s.cur s'.cur ev)
  · have comp : ∀ (p : P α (Option (Ev α))),
        (∀ s : BP α, GE (TopInv off w b) ts e s → Sat p s (fun r s' => GE (TopInv off w b) ts e s' ∧
          (r.isSome = true → s.cur < s'.cur) ∧ CompRet off w ts s.cur s'.cur r)) →
        Sat (withRecover p) s (fun r s' => GE (TopInv off w b) ts e s' ∧
          match r with
          | none => s'.cur = s.cur
          | some ev => s.cur < s'.cur ∧ EvSpansOK off w ev ∧ EvIn ts s.cur s'.cur ev) := by
      intro p hp
      apply withRecover_sat
      refine Sat.mono (hp s h) ?_
      rintro r s1 ⟨g1, h1, h2⟩
      cases r with
      | none => exact ⟨g1.setCur h.le, rfl⟩
      | some ev => exact ⟨g1, h1 rfl, h2.1, h2.2⟩
    refine Sat.bind (peekK_sat h.g ?_)
    split
    · exact comp _ (fun s h => ingredientP_ev hc h)
    · exact comp _ (fun s h => cookwareP_ev hc h)
    · exact comp _ (fun s h => timerP_ev hc hz h)
    · exact Sat.pure ⟨h, rfl⟩
  rintro comp s1 ⟨g1, h1⟩
  cases comp with
  | some ev =>
    obtain ⟨c1, hok, hin⟩ := h1
    refine Sat.pushEv ⟨g1.push (g1.evs.push hok ?_ ?_), c1⟩
    · exact Nat.le_trans hb (hw.offAt_mono (Nat.le_of_lt c1))
    · intro sp hsp
      obtain ⟨h2, h3⟩ := hin sp hsp
      exact ⟨Nat.le_trans hb h2, h3⟩
  | none =>
    dsimp only at h1 ⊢
    refine Sat.bind (currentOffset_sat g1.g ?_)
    refine Sat.bind (Sat.getCur ?_)
    have hget : ts[s1.cur]? = some ts[s1.cur] := List.getElem?_eq_getElem (by omega)
    refine Sat.bind (Sat.mono (bumpAny_ge g1 hget) ?_)
    rintro _ s2 ⟨-, g2, c2⟩
    refine Sat.bind (Sat.mono (consumeWhile_ge _ g2) ?_)
    rintro _ s3 ⟨g3, c3, -, -, -⟩
    refine Sat.bind (Sat.get ?_)
    try dsimp only
    have hle : s1.cur ≤ s3.cur := by omega
    have hr : RunIn off w (offAt ts s1.cur) ((s3.toks.take s3.cur).drop s1.cur) := by
      rw [g3.g.toks]; exact hw.slice hle
    have hb3 : b ≤ offAt ts s3.cur := Nat.le_trans hb (hw.offAt_mono (by omega))
    refine Sat.bind (bpText_sat hr.run ?_)
    split
    · refine Sat.pushEv ⟨g3.push (g3.evs.push (ev := .text _) hr.text hb3 ?_), by show s.cur < s3.cur; omega⟩
      intro sp hsp
      simp only [Ev.srcSpan, Option.some.injEq] at hsp
      subst hsp
      have hrg := hr.text_range
      have e1 : lastStop (offAt ts s1.cur) ((s3.toks.take s3.cur).drop s1.cur) = offAt ts s3.cur := by
        rw [g3.g.toks]; exact offAt_slice hle
      rw [e1] at hrg
      refine ⟨?_, hrg.2⟩
      have hb1 : b ≤ offAt ts s1.cur := by rw [h1]; exact hb
      exact Nat.le_trans hb1 hrg.1
    · exact Sat.pure ⟨g3.bound hb3, by omega⟩

theorem stepLoop_ev (hw : WFI off w ts) (hz : Boundary off w 0) (fuel : Nat) {b : Nat}
    (h : GE (TopInv off w b) ts e s) (hb : b ≤ offAt ts s.cur) (hf : ts.length - s.cur ≤ fuel) :
    Sat (stepLoop (α := α) fuel) s
      (fun _ s' => GE (TopInv off w (offAt ts ts.length)) ts e s' ∧ s'.cur = ts.length) := by
  have hle := h.le
  induction fuel generalizing s b with
  | zero =>
    unfold stepLoop
    refine Sat.bind (restToks_sat h.g ?_)
    have : ts.drop s.cur = [] := List.drop_eq_nil_of_le (by omega)
    rw [this]
    have e1 : s.cur = ts.length := by omega
    exact Sat.pure ⟨h.bound (by rw [← e1]; exact hb), e1⟩
  | succ fuel ih =>
    unfold stepLoop
    refine Sat.bind (restToks_sat h.g ?_)
    split
    · rename_i hemp
      have := drop_isEmpty_true hemp
      have e1 : s.cur = ts.length := by omega
      exact Sat.pure ⟨h.bound (by rw [← e1]; exact hb), e1⟩
    · rename_i hemp
      have hlt := drop_isEmpty_false (by simpa using hemp)
      refine Sat.bind (Sat.mono (stepOne_ev hw hz h hb hlt) ?_)
      rintro _ s1 ⟨g1, c1⟩
      exact ih g1 (Nat.le_refl _) (by omega) g1.le

theorem parseStep_ev (hw : WFI off w ts) (hz : Boundary off w 0) {b : Nat}
    (h : GE (TopInv off w b) ts e s) (hb : b ≤ offAt ts s.cur) :
    Sat (parseStep (α := α)) s
      (fun _ s' => GE (TopInv off w (offAt ts ts.length)) ts e s' ∧ s'.cur = ts.length) := by
  unfold parseStep
  refine Sat.bind (Sat.pushEv ?_)
  have g1 : GE (TopInv off w b) ts e { s with evs := s.evs.push (.start .step) } :=
    h.push (h.evs.pushNone trivial rfl)
  refine Sat.bind (restToks_sat g1.g ?_)
  refine Sat.bind (Sat.mono (stepLoop_ev hw hz _ g1 hb (by simp)) ?_)
  rintro _ s2 ⟨g2, c2⟩
  exact Sat.pushEv ⟨g2.push (g2.evs.pushNone trivial rfl), c2⟩

theorem textLineK_ev (hw : WFI off w ts) {b : Nat} (h : GE (TopInv off w b) ts e s)
    (hb : b ≤ offAt ts s.cur) (k : P α Unit) (Q : Unit → BP α → Prop)
    (hk : ∀ (s2 : BP α), GE (TopInv off w (offAt ts s2.cur)) ts e s2 → s.cur ≤ s2.cur →
      (s.cur < ts.length → s.cur < s2.cur) → Sat k s2 Q) :
    Sat (textLineK (α := α) k) s Q := by
  unfold textLineK
  refine Sat.bind (currentOffset_sat h.g ?_)
  refine Sat.bind (Sat.getCur ?_)
  refine Sat.bind (Sat.mono (consumeWhile_ge _ h) ?_)
  rintro _ s1 ⟨g1, c1, -, -, hend⟩
  refine Sat.bind (Sat.mono (consumeK_ge _ g1) ?_)
  rintro r2 s2 ⟨g2, h2⟩
  have hprog : s1.cur ≤ s2.cur ∧ (s.cur < ts.length → s.cur < s2.cur) := by
    cases r2 with
    | some nl =>
      obtain ⟨-, -, c2⟩ := h2
      exact ⟨by omega, fun _ => by omega⟩
    | none =>
      obtain ⟨c2, hk⟩ := h2
      refine ⟨by omega, fun hlt => ?_⟩
      rcases Nat.lt_or_ge s.cur s1.cur with h' | h'
      · omega
      · exfalso
        have e1 : s1.cur = s.cur := by omega
        have hget : ts[s1.cur]? = some ts[s1.cur] := List.getElem?_eq_getElem (by omega)
        have := hend _ hget
        apply hk
        rw [hget]
        simp only [Option.map_some, Option.some.injEq]
        simpa using this
  refine Sat.bind (Sat.get ?_)
  dsimp only
  have hle : s.cur ≤ s2.cur := by omega
  have hr : RunIn off w (offAt ts s.cur) ((s2.toks.take s2.cur).drop s.cur) := by
    rw [g2.g.toks]; exact hw.slice hle
  have hb2 : b ≤ offAt ts s2.cur := Nat.le_trans hb (hw.offAt_mono hle)
  refine Sat.bind (bpText_sat hr.run ?_)
  split
  · refine Sat.bind (Sat.pushEv ?_)
    refine hk _ (g2.push (g2.evs.push (ev := .text _) hr.text hb2 ?_)) (by show s.cur ≤ s2.cur; omega) hprog.2
    intro sp hsp
    simp only [Ev.srcSpan, Option.some.injEq] at hsp
    subst hsp
    have hrg := hr.text_range
    have e1 : lastStop (offAt ts s.cur) ((s2.toks.take s2.cur).drop s.cur) = offAt ts s2.cur := by
      rw [g2.g.toks]; exact offAt_slice hle
    rw [e1] at hrg
    exact ⟨Nat.le_trans hb hrg.1, hrg.2⟩
  · exact hk _ (g2.bound hb2) (by omega) hprog.2

theorem textBlockLoop_ev (hw : WFI off w ts) (fuel : Nat) {b : Nat} (h : GE (TopInv off w b) ts e s)
    (hb : b ≤ offAt ts s.cur) (hf : ts.length - s.cur ≤ fuel) :
    Sat (textBlockLoop (α := α) fuel) s
      (fun _ s' => GE (TopInv off w (offAt ts ts.length)) ts e s' ∧ s'.cur = ts.length) := by
  have hle := h.le
  induction fuel generalizing s b with
  | zero =>
    unfold textBlockLoop
    refine Sat.bind (restToks_sat h.g ?_)
    have : ts.drop s.cur = [] := List.drop_eq_nil_of_le (by omega)
    rw [this]
    have e1 : s.cur = ts.length := by omega
    exact Sat.pure ⟨h.bound (by rw [← e1]; exact hb), e1⟩
  | succ fuel ih =>
    unfold textBlockLoop
    refine Sat.bind (restToks_sat h.g ?_)
    split
    · rename_i hemp
      have := drop_isEmpty_true hemp
      have e1 : s.cur = ts.length := by omega
      exact Sat.pure ⟨h.bound (by rw [← e1]; exact hb), e1⟩
    · rename_i hemp
      have hlt := drop_isEmpty_false (by simpa using hemp)
      have tail : ∀ s1 : BP α, GE (TopInv off w b) ts e s1 → s.cur ≤ s1.cur →
          Sat (textLineK (α := α) (textBlockLoop fuel)) s1
            (fun _ s' => GE (TopInv off w (offAt ts ts.length)) ts e s' ∧ s'.cur = ts.length) := by
        intro s1 g1 c1
        refine textLineK_ev hw g1 (Nat.le_trans hb (hw.offAt_mono c1)) _ _ ?_
        intro s2 g2 c2 hp
        have hle2 := g2.le
        have hle1 := g1.le
        refine ih g2 (Nat.le_refl _) ?_ g2.le
        rcases Nat.lt_or_ge s1.cur ts.length with h' | h'
        · have := hp h'; omega
        · omega
      refine Sat.bind (Sat.mono (consumeK_ge _ h) ?_)
      rintro r1 s1 ⟨g1, h1⟩
      cases r1 with
      | none => exact tail s1 g1 (by omega)
      | some m =>
        obtain ⟨-, -, c1⟩ := h1
        dsimp only
        refine Sat.bind (Sat.mono (consumeK_ge _ g1) ?_)
        rintro r2 s2 ⟨g2, h2⟩
        refine tail s2 g2 ?_
        cases r2 with
        | none => omega
        | some w => obtain ⟨-, -, c2⟩ := h2; omega

theorem parseTextBlock_ev (hw : WFI off w ts) {b : Nat} (h : GE (TopInv off w b) ts e s)
    (hb : b ≤ offAt ts s.cur) :
    Sat (parseTextBlock (α := α)) s
      (fun _ s' => GE (TopInv off w (offAt ts ts.length)) ts e s' ∧ s'.cur = ts.length) := by
  unfold parseTextBlock
  refine Sat.bind (Sat.pushEv ?_)
  have g1 : GE (TopInv off w b) ts e { s with evs := s.evs.push (.start .text) } :=
    h.push (h.evs.pushNone trivial rfl)
  refine Sat.bind (restToks_sat g1.g ?_)
  refine Sat.bind (Sat.mono (textBlockLoop_ev hw _ g1 hb (by simp)) ?_)
  rintro _ s2 ⟨g2, c2⟩
  exact Sat.pushEv ⟨g2.push (g2.evs.pushNone trivial rfl), c2⟩

theorem sectionP_ev (hc : Ctx off w Pv ts) (h : GE Pv ts e s) :
    Sat (sectionP (α := α)) s (fun r s' => GE Pv ts e s' ∧ (r.isSome = true → s'.cur = ts.length) ∧
      CompRet off w ts s.cur s'.cur r) := by
  unfold sectionP
  refine Sat.bind (Sat.mono (consumeK_ge _ h) ?_)
  rintro r1 s1 ⟨g1, h1⟩
  cases r1 with
  | none => exact Sat.pure ⟨g1, by simp, trivial⟩
  | some m =>
    obtain ⟨-, -, c1⟩ := h1
    refine Sat.bind (Sat.mono (consumeWhile_ge _ g1) ?_)
    rintro _ s2 ⟨g2, c2, -, -, -⟩
    refine Sat.bind (currentOffset_sat g2.g ?_)
    refine Sat.bind (Sat.mono (consumeWhile_ge _ g2) ?_)
    rintro nameT s3 ⟨g3, c3, hn, -, -⟩
    have hr : RunIn off w (offAt ts s2.cur) nameT := by rw [hn]; exact hc.wfi.slice c3
    have hrg := hr.text_range
    have e1 : lastStop (offAt ts s2.cur) nameT = offAt ts s3.cur := by rw [hn]; exact offAt_slice c3
    rw [e1] at hrg
    refine Sat.bind (bpText_sat hr.run ?_)
    refine Sat.bind (Sat.mono (consumeWhile_ge _ g3) ?_)
    rintro _ s4 ⟨g4, c4, -, -, -⟩
    unfold wsComments
    refine Sat.bind (Sat.mono (consumeWhile_ge _ g4) ?_)
    rintro _ s5 ⟨g5, c5, -, -, -⟩
    refine Sat.bind (restToks_sat g5.g ?_)
    split
    · rename_i hne
      refine Sat.bind (Sat.pwarnE ?_)
      refine Sat.pure ⟨g5.warn hc (one_label ?_), by simp, trivial⟩
      rw [drop_eq_slice]
      apply (hc.wfi.slice g5.le).tokensSpan
      rw [← drop_eq_slice]; intro h0; rw [h0] at hne; simp at hne
    · rename_i hemp
      refine Sat.bind (Sat.get ?_)
      have := drop_isEmpty_true (ts := ts) (c := s5.cur) (by simpa using hemp)
      have := g5.le
      refine Sat.pure ⟨g5, fun _ => by omega, ?_, ?_⟩
      · show OptOK (TextOK off w) (if _ then none else some _)
        split
        · trivial
        · exact hr.text
      · intro sp hsp
        split at hsp
        · simp [Ev.srcSpan] at hsp
        · simp only [Ev.srcSpan, Option.some.injEq] at hsp
          subst hsp
          have h1 := hc.wfi.offAt_mono (show s.cur ≤ s2.cur by omega)
          have h2 := hc.wfi.offAt_mono (show s3.cur ≤ s5.cur by omega)
          exact ⟨by omega, by omega⟩

theorem metadataEntry_ev (hc : Ctx off w Pv ts) (h : GE Pv ts e s) :
    Sat (metadataEntry (α := α)) s (fun r s' => GE Pv ts e s' ∧ (r.isSome = true → s'.cur = ts.length) ∧
      CompRet off w ts s.cur s'.cur r) := by
  unfold metadataEntry
  refine Sat.bind (Sat.mono (consumeK_ge _ h) ?_)
  rintro r1 s1 ⟨g1, h1⟩
  cases r1 with
  | none => exact Sat.pure ⟨g1, by simp, trivial⟩
  | some m =>
    obtain ⟨-, -, c1⟩ := h1
    refine Sat.bind (currentOffset_sat g1.g ?_)
    refine Sat.bind (Sat.mono (untilK_ge _ g1) ?_)
    rintro r2 s2 ⟨g2, h2⟩
    cases r2 with
    | none =>
      unfold bpSpan
      refine Sat.bind (Sat.bind (Sat.get ?_))
      refine tokensSpanP_sat (by rw [g2.g.toks]; exact hc.wfi.ne) ?_
      refine Sat.bind (Sat.pwarnE ?_)
      refine Sat.pure ⟨g2.warn hc (one_label ?_), by simp, trivial⟩
      rw [g2.g.toks]; exact hc.wfi.all
    | some keyT =>
      obtain ⟨c2, hkey, ⟨c, hcl, hck⟩, -⟩ := h2
      have hr : RunIn off w (offAt ts s1.cur) keyT := by rw [hkey]; exact hc.wfi.slice c2
      refine Sat.bind (bpText_sat hr.run ?_)
      refine Sat.bind (Sat.mono (bump_ge g2 hcl (by simpa using hck)) ?_)
      rintro _ s3 ⟨-, g3, c3⟩
      refine Sat.bind (currentOffset_sat g3.g ?_)
      refine Sat.bind (Sat.mono (consumeRest_ge g3) ?_)
      rintro valT s4 ⟨g4, c4, hv⟩
      have hr2 : RunIn off w (offAt ts s3.cur) valT := by rw [hv]; exact hc.wfi.slice g3.le
      refine Sat.bind (bpText_sat hr2.run ?_)
      refine Sat.bind (Sat.get ?_)
      dsimp only
      have hok : EvSpansOK off w (Ev.metadata (α := α) (buildText (offAt ts s1.cur) keyT)
          (buildText (offAt ts s3.cur) valT)) := by
        refine ⟨hr.text, hr2.text, ?_⟩
        have hrg := hr.text_range
        have hrg2 := hr2.text_range
        have e1 : lastStop (offAt ts s1.cur) keyT = offAt ts s2.cur := by rw [hkey]; exact offAt_slice c2
        rw [e1] at hrg
        have h1 := hc.wfi.offAt_mono (show s2.cur ≤ s3.cur by omega)
        omega
      have hin : EvIn ts s.cur s4.cur (Ev.metadata (α := α) (buildText (offAt ts s1.cur) keyT)
          (buildText (offAt ts s3.cur) valT)) := by
        intro sp hsp
        simp only [Ev.srcSpan, Option.some.injEq] at hsp
        subst hsp
        have hrg := hr.text_range
        have hrg2 := hr2.text_range
        have e2 : lastStop (offAt ts s3.cur) valT = offAt ts s4.cur := by
          rw [hv, c4]; exact offAt_slice g3.le
        rw [e2] at hrg2
        have h1 := hc.wfi.offAt_mono (show s.cur ≤ s1.cur by omega)
        exact ⟨by show offAt ts s.cur ≤ (buildText _ keyT).span.start; omega, hrg2.2⟩
      split
      · refine Sat.bind (Sat.perrE ?_)
        exact Sat.pure ⟨g4.err hc (one_label hr.text.1), fun _ => c4, hok, hin⟩
      · split
        · refine Sat.bind (Sat.pwarnE ?_)
          exact Sat.pure ⟨g4.warn hc (two_labels hr2.text.1 hr.text.1), fun _ => c4, hok, hin⟩
        · exact Sat.pure ⟨g4, fun _ => c4, hok, hin⟩

theorem parseMultilineBlock_ev (hw : WFI off w ts) (hz : Boundary off w 0) {b : Nat}
    (h : GE (TopInv off w b) ts e s) (hb : b ≤ offAt ts s.cur) :
    Sat (parseMultilineBlock (α := α)) s
      (fun _ s' => GE (TopInv off w (offAt ts ts.length)) ts e s' ∧ s'.cur = ts.length) := by
  unfold parseMultilineBlock
  refine Sat.bind (allToks_sat h.g ?_)
  split
  · refine Sat.bind (Sat.mono (consumeRest_ge h) ?_)
    rintro _ s1 ⟨g1, c1, -⟩
    exact Sat.pure ⟨g1.bound (Nat.le_trans hb (hw.offAt_mono h.le)), c1⟩
  · refine Sat.bind (peekK_sat h.g ?_)
    split
    · exact parseTextBlock_ev hw h hb
    · exact parseStep_ev hw hz h hb

theorem parseBlock_ev (oldStyle : Bool) (hw : WFI off w ts) (hz : Boundary off w 0) {b : Nat}
    (h : GE (TopInv off w b) ts e s) (hb : b ≤ offAt ts s.cur) :
    Sat (parseBlock (α := α) oldStyle) s
      (fun _ s' => GE (TopInv off w (offAt ts ts.length)) ts e s' ∧ s'.cur = ts.length) := by
  have hc := topCtx (α := α) hw b
  unfold parseBlock
  apply Sat.bind
  apply Sat.mono (Q := fun r s' => GE (TopInv off w b) ts e s' ∧
    match r with
    | none => s'.cur = s.cur
    | some ev => s'.cur = ts.length ∧ EvSpansOK off w ev ∧ EvIn ts s.cur ts.length ev)
  · refine Sat.bind (peekK_sat h.g ?_)
    split
    · apply withRecover_sat
      refine Sat.bind (Sat.mono (metadataEntry_ev hc h) ?_)
      rintro r1 s1 ⟨g1, h1, h2⟩
      split
      · refine Sat.bind (Sat.get ?_)
        refine Sat.bind (hasExt_sat g1.g ?_)
        split
        · refine Sat.pure ⟨g1, h1 rfl, h2.1, ?_⟩
          have := h2.2
          rw [h1 rfl] at this
          exact this
        · exact Sat.pure ⟨g1.setCur h.le, rfl⟩
      · exact Sat.pure ⟨g1.setCur h.le, rfl⟩
    · apply withRecover_sat
      refine Sat.mono (sectionP_ev hc h) ?_
      rintro r1 s1 ⟨g1, h1, h2⟩
      cases r1 with
      | none => exact ⟨g1.setCur h.le, rfl⟩
      | some ev =>
        refine ⟨g1, h1 rfl, h2.1, ?_⟩
        have := h2.2
        rw [h1 rfl] at this
        exact this
    · exact Sat.pure ⟨h, rfl⟩
  rintro r s1 ⟨g1, h1⟩
  cases r with
  | some ev =>
    obtain ⟨c1, hok, hin⟩ := h1
    have hbl : b ≤ offAt ts ts.length := Nat.le_trans hb (hw.offAt_mono h.le)
    refine Sat.pushEv ⟨g1.push (g1.evs.push hok hbl ?_), c1⟩
    intro sp hsp
    obtain ⟨h2, h3⟩ := hin sp hsp
    exact ⟨Nat.le_trans hb h2, h3⟩
  | none =>
    dsimp only at h1
    exact parseMultilineBlock_ev hw hz g1 (by rw [h1]; exact hb)

/-- **one block**: if the queue is fine before (`TopInv` with all content events ending at or before
    the start of the block), it is fine after, with all content events ending at or before the end
    of the block -/
theorem runBlock_ev (cs : CharSpec) (ext : Ext) (oldStyle : Bool) (blk : List Tok) (evs : Array (Ev α))
    (hw : WFI off w blk) (hz : Boundary off w 0) {b : Nat} (hinv : TopInv off w b evs)
    (hb : b ≤ baseOff blk) :
    TopInv off w (offAt blk blk.length) (runBlock cs ext oldStyle blk evs none).1 := by
  have g0 : GE (TopInv off w b) blk ext (⟨blk, 0, ext, cs, evs, none⟩ : BP α) :=
    ⟨⟨rfl, rfl, rfl, Nat.zero_le _⟩, hinv⟩
  have hne : blk.isEmpty = false := by
    have := hw.ne
    cases blk <;> simp_all
  have key : Sat (do
      if blk.isEmpty then panicWith "BlockParser::new: empty tokens"
      parseBlock (α := α) oldStyle
      let s ← get
      if s.cur ≠ s.toks.length then panicWith "Block tokens not parsed") ⟨blk, 0, ext, cs, evs, none⟩
      (fun _ s' => TopInv off w (offAt blk blk.length) s'.evs) := by
    simp only [hne, Bool.false_eq_true, if_false]
    refine Sat.bind (Sat.mono (parseBlock_ev oldStyle hw hz g0 (by rw [offAt_zero]; exact hb)) ?_)
    rintro _ s1 ⟨g1, c1⟩
    refine Sat.bind (Sat.get ?_)
    have : s1.cur = s1.toks.length := by rw [g1.g.toks]; exact c1
    simp only [this, ne_eq, not_true_eq_false, if_false]
    exact Sat.pure g1.evs
  exact key

end Cook
