import CookModel.Side.SerdeEq
import CookModel.Lemmas.Serde
import CookModel.Lemmas.SerdeAudit
/-
  Lemmas about the model of `==` (Side/SerdeEq.lean): reflexivity on recipes without NaN values, what a
  `true` answer implies field by field, numbers by value over ℚ.  Prefix `seq_`.
-/
namespace Cook.Serde
open Cook

/-! ### JSON trees -/

mutual
theorem seq_beq_refl : ∀ j : Json, Json.beq j j = true
  | .null => rfl
  | .bool b => by cases b <;> rfl
  | .num t => by simp [Json.beq]
  | .str s => by simp [Json.beq]
  | .arr xs => by simp only [Json.beq]; exact seq_beqList_refl xs
  | .obj kvs => by simp only [Json.beq]; exact seq_beqObj_refl kvs
theorem seq_beqList_refl : ∀ l : List Json, Json.beqList l l = true
  | [] => rfl
  | x :: xs => by simp only [Json.beqList, seq_beq_refl x, seq_beqList_refl xs, Bool.and_self]
theorem seq_beqObj_refl : ∀ l : List (Key × Json), Json.beqObj l l = true
  | [] => rfl
  | (k, x) :: xs => by simp [Json.beqObj, seq_beq_refl x, seq_beqObj_refl xs]
end

theorem seq_metaBeq_refl : ∀ m : Metadata, metaBeq m m = true
  | [] => rfl
  | (k, x) :: xs => by simp [metaBeq, seq_beq_refl x, seq_metaBeq_refl xs]

/-! ### generic pieces -/

theorem seq_eqOpt_refl {β} {f : β → β → Bool} {p : β → Prop} (hf : ∀ x, p x → f x x = true) :
    ∀ o : Option β, optFinite p o → eqOpt f o o = true
  | none, _ => rfl
  | some x, h => hf x h

theorem seq_eqList_refl {β} {f : β → β → Bool} :
    ∀ l : List β, (∀ x ∈ l, f x x = true) → eqList f l l = true
  | [], _ => rfl
  | x :: xs, h => by
    simp only [eqList, Bool.and_eq_true]
    exact ⟨h x (List.mem_cons_self ..), seq_eqList_refl xs (fun y hy => h y (List.mem_cons_of_mem _ hy))⟩

/-- `eqList f a b = true`: same length and `f` holds position by position -/
theorem seq_eqList_true {β} {f : β → β → Bool} :
    ∀ a b : List β, eqList f a b = true →
      a.length = b.length ∧ ∀ (k : Nat) (x y : β), a[k]? = some x → b[k]? = some y → f x y = true
  | [], [], _ => ⟨rfl, by intro k x y h; simp at h⟩
  | [], _ :: _, h => by simp [eqList] at h
  | _ :: _, [], h => by simp [eqList] at h
  | x :: xs, y :: ys, h => by
    simp only [eqList, Bool.and_eq_true] at h
    obtain ⟨hl, hk⟩ := seq_eqList_true xs ys h.2
    refine ⟨by simp [hl], ?_⟩
    intro k a b ha hb
    cases k with
    | zero =>
      simp only [List.getElem?_cons_zero, Option.some.injEq] at ha hb
      subst ha; subst hb; exact h.1
    | succ k =>
      simp only [List.getElem?_cons_succ] at ha hb
      exact hk k a b ha hb

section
variable {α : Type} [Arith α]

theorem seq_eqValue_refl : ∀ v : Value α, valueSelfEq v → eqValue v v = true
  | .number _, h => h
  | .range _ _, h => by
    simp only [eqValue, Bool.and_eq_true]; exact ⟨h.1, h.2⟩
  | .text _, _ => by simp [eqValue]

theorem seq_eqScalable_refl : ∀ v : ScalableValue α, scalableSelfEq v → eqScalable v v = true
  | .fixed v, h => seq_eqValue_refl v h
  | .linear v, h => seq_eqValue_refl v h

theorem seq_eqQuantity_refl {V} {ev : V → V → Bool} {ok : V → Prop} (hev : ∀ v, ok v → ev v v = true)
    (q : Quantity V) (h : ok q.value) : eqQuantity ev q q = true := by
  simp [eqQuantity, hev q.value h]

theorem seq_eqIngredient_refl {V} {ev : V → V → Bool} {ok : V → Prop} (hev : ∀ v, ok v → ev v v = true)
    (i : Ingredient V) (h : optFinite (fun q => ok q.value) i.quantity) : eqIngredient ev i i = true := by
  have := seq_eqOpt_refl (f := eqQuantity ev) (p := fun q => ok q.value)
    (fun q hq => seq_eqQuantity_refl hev q hq) i.quantity h
  simp [eqIngredient, this]

theorem seq_eqCookware_refl {V} {ev : V → V → Bool} {ok : V → Prop} (hev : ∀ v, ok v → ev v v = true)
    (i : Cookware V) (h : optFinite ok i.quantity) : eqCookware ev i i = true := by
  have := seq_eqOpt_refl (f := ev) (p := ok) hev i.quantity h
  simp [eqCookware, this]

theorem seq_eqTimer_refl {V} {ev : V → V → Bool} {ok : V → Prop} (hev : ∀ v, ok v → ev v v = true)
    (i : Timer V) (h : optFinite (fun q => ok q.value) i.quantity) : eqTimer ev i i = true := by
  have := seq_eqOpt_refl (f := eqQuantity ev) (p := fun q => ok q.value)
    (fun q hq => seq_eqQuantity_refl hev q hq) i.quantity h
  simp [eqTimer, this]

/-- `==` is reflexive on a recipe none of whose numbers has a NaN value -/
theorem seq_eqRecipe_refl {V D} {meq : Metadata → Metadata → Bool} {ev : V → V → Bool} {ed : D → D → Bool}
    {ok : V → Prop} (hev : ∀ v, ok v → ev v v = true) (r : FullRecipe α V D)
    (hm : meq r.metadata r.metadata = true) (hd : ed r.data r.data = true) (h : RecipeSelfEq ok r.recipe) :
    eqRecipe meq ev ed r r = true := by
  simp only [eqRecipe, Bool.and_eq_true, decide_eq_true_eq]
  refine ⟨⟨⟨⟨⟨⟨hm, trivial⟩, ?_⟩, ?_⟩, ?_⟩, ?_⟩, hd⟩
  · exact seq_eqList_refl _ (fun i hi => seq_eqIngredient_refl hev i (h.ingredients i hi))
  · exact seq_eqList_refl _ (fun i hi => seq_eqCookware_refl hev i (h.cookware i hi))
  · exact seq_eqList_refl _ (fun i hi => seq_eqTimer_refl hev i (h.timers i hi))
  · exact seq_eqList_refl _ (fun q hq => seq_eqQuantity_refl (ok := valueSelfEq) seq_eqValue_refl q
      (h.inlineQuantities q hq))

theorem seq_eqScalableRecipe_refl {meq : Metadata → Metadata → Bool}
    (r : FullRecipe α (ScalableValue α) Servings) (hm : meq r.metadata r.metadata = true)
    (h : RecipeSelfEq scalableSelfEq r.recipe) : eqScalableRecipe meq r r = true :=
  seq_eqRecipe_refl seq_eqScalable_refl r hm (by simp) h

/-! ### the two facts about `f64` and the JSON library, stated once -/

/-- What the C15 theorems assume about `f64` and about serde_json, in one place: (1) the JSON number printer and
    parser round-trip every finite value (`serde_json` built with `float_roundtrip`: shortest round-trip printing,
    correctly rounded parsing); (2) a finite value is equal to itself under `==` (IEEE-754: only NaN is not).
    Both are facts about the platform, not about cooklang; over ℚ (2) is a theorem and (1) is the codec's. -/
structure F64Hyp (c : NumCodec α) : Prop where
  roundTrips : c.RoundTrips
  eqRefl : ∀ x : α, Arith.isFinite x = true → Arith.eq x x = true

theorem seq_numberSelfEq_of_finite {c : NumCodec α} (h : F64Hyp c) (n : Number α)
    (hn : Arith.isFinite n.value = true) : numberSelfEq n := h.eqRefl _ hn

end

/-! ### over ℚ -/

theorem seq_f64Hyp_rat (c : NumCodec Rat) (hc : c.RoundTrips) : F64Hyp c :=
  ⟨hc, fun x _ => by simp [Arith.eq]⟩

theorem seq_numberSelfEq_rat (n : Number Rat) : numberSelfEq n := by simp [numberSelfEq, Arith.eq]

theorem seq_valueSelfEq_rat : ∀ v : Value Rat, valueSelfEq v
  | .number n => seq_numberSelfEq_rat n
  | .range s e => ⟨seq_numberSelfEq_rat s, seq_numberSelfEq_rat e⟩
  | .text _ => trivial

theorem seq_scalableSelfEq_rat : ∀ v : ScalableValue Rat, scalableSelfEq v
  | .fixed v => seq_valueSelfEq_rat v
  | .linear v => seq_valueSelfEq_rat v

theorem seq_optFinite_of_all {β} {p : β → Prop} (h : ∀ x, p x) : ∀ o : Option β, optFinite p o
  | none => trivial
  | some x => h x

theorem seq_recipeSelfEq_rat {V} (ok : V → Prop) (hok : ∀ v, ok v) (r : Recipe Rat V) : RecipeSelfEq ok r :=
  ⟨fun _ _ => seq_optFinite_of_all (fun q : Quantity V => hok q.value) _, fun _ _ => seq_optFinite_of_all hok _,
   fun _ _ => seq_optFinite_of_all (fun q : Quantity V => hok q.value) _, fun q _ => seq_valueSelfEq_rat q.value⟩

/-- numbers are compared by value -/
theorem seq_eqNumber_rat (a b : Number Rat) : eqNumber a b = true ↔ a.value = b.value := by
  simp [eqNumber, Arith.eq]

end Cook.Serde
