import CookModel.Num.Convert
import CookModel.Lemmas.ArithRat
import CookModel.Lemmas.Fraction
/-
  Lemmas about the conversion model at `α := Rat`.
-/
namespace Cook
open Arith

/-! ### the affine conversion -/

theorem amount_rat (v : Rat) (u : Unit Rat) : amount v u = (v + u.difference) * u.ratio := by
  simp [amount]

theorem convertF64Raw_rat (v : Rat) (a b : Unit Rat) :
    convertF64Raw v a b = ((v + a.difference) * a.ratio) / b.ratio - b.difference := by
  simp [convertF64Raw]

theorem convertF64Raw_amount (v : Rat) (a b : Unit Rat) (hb : b.ratio ≠ 0) :
    amount (convertF64Raw v a b) b = amount v a := by
  rw [amount_rat, amount_rat, convertF64Raw_rat]
  grind

/-- a conversion between two units of one physical quantity is defined and keeps the amount -/
theorem convertF64_amount (v : Rat) (a b : Unit Rat) (hq : a.pq = b.pq) (hb : b.ratio ≠ 0)
    (hid : a.id = b.id → a = b) :
    ∃ w, convertF64 v a b = some w ∧ amount w b = amount v a := by
  unfold convertF64 convertF64Free
  by_cases h : a.id = b.id
  · have := hid h; subst this
    exact ⟨v, by simp, rfl⟩
  · exact ⟨convertF64Raw v a b, by simp [h, hq], convertF64Raw_amount v a b hb⟩

theorem convertF64_some_amount {v w : Rat} {a b : Unit Rat} (h : convertF64 v a b = some w)
    (hb : b.ratio ≠ 0) (hid : a.id = b.id → a = b) : amount w b = amount v a := by
  unfold convertF64 convertF64Free at h
  by_cases h1 : a.id = b.id
  · have := hid h1; subst this
    simp at h; rw [h]
  · simp only [h1, if_false] at h
    split at h
    · simp only [Option.some.injEq] at h
      rw [← h]; exact convertF64Raw_amount v a b hb
    · cases h

theorem convertF64_some_pq {v w : Rat} {a b : Unit Rat} (h : convertF64 v a b = some w)
    (hid : a.id = b.id → a = b) : a.pq = b.pq := by
  unfold convertF64 convertF64Free at h
  by_cases h1 : a.id = b.id
  · rw [hid h1]
  · simp only [h1, if_false] at h
    split at h
    · assumption
    · cases h

theorem convertF64_isSome (v : Rat) (a b : Unit Rat) (hq : a.pq = b.pq) :
    (convertF64 v a b).isSome = true := by
  unfold convertF64 convertF64Free
  split <;> simp

theorem convertF64_ne_none (v : Rat) (a b : Unit Rat) (hq : a.pq = b.pq) :
    convertF64 v a b ≠ none := by
  intro h
  have := convertF64_isSome v a b hq
  rw [h] at this; cases this

theorem amount_inj {v w : Rat} {u : Unit Rat} (hu : u.ratio ≠ 0) (h : amount v u = amount w u) :
    v = w := by
  rw [amount_rat, amount_rat] at h
  grind

end Cook

namespace Cook
open Arith

/-! ### soundness conditions of a converter (invariants of the builder), decidable -/

structure Converter.Sound (c : Converter Rat) : Prop where
  best_mem : ∀ q s u, u ∈ ((c.best q).conversions s).unitsOf → u ∈ c.allUnits ∧ u.pq = q
  id_inj : ∀ u v, u ∈ c.allUnits → v ∈ c.allUnits → u.id = v.id → u = v
  ratio_ne : ∀ u, u ∈ c.allUnits → u.ratio ≠ 0
  symbol : ∀ u, u ∈ c.allUnits → u.symbol?.isSome = true

def soundB (c : Converter Rat) : Bool :=
  PhysQ.all.all (fun q => [System.metric, System.imperial].all (fun s =>
    ((c.best q).conversions s).unitsOf.all (fun u => c.allUnits.contains u && decide (u.pq = q))))
  && c.allUnits.all (fun u => c.allUnits.all (fun v => decide (u.id = v.id → u = v)))
  && c.allUnits.all (fun u => decide (u.ratio ≠ 0) && u.symbol?.isSome)

theorem soundB_sound (c : Converter Rat) (h : soundB c = true) : c.Sound := by
  simp only [soundB, Bool.and_eq_true, List.all_eq_true, decide_eq_true_eq, List.contains_eq_mem,
    PhysQ.all] at h
  obtain ⟨⟨h1, h2⟩, h3⟩ := h
  refine ⟨?_, ?_, ?_, ?_⟩
  · intro q s u hu
    have hq : q ∈ [PhysQ.volume, .mass, .length, .temperature, .time] := by cases q <;> simp
    have hs : s ∈ [System.metric, System.imperial] := by cases s <;> simp
    exact h1 q hq s hs u hu
  · intro u v hu hv; exact h2 u hu v hv
  · intro u hu; exact (h3 u hu).1
  · intro u hu; exact (h3 u hu).2

theorem findUnit_mem {c : Converter Rat} {k : Str} {u : Unit Rat} (h : c.findUnit k = some u) :
    u ∈ c.allUnits := List.mem_of_find?_eq_some h

end Cook

namespace Cook
open Arith

/-! ### amounts of values -/

/-- the numbers a value states (`Number::value`, fraction error included) -/
def Value.parts : Value Rat → List Rat
  | .number n => [n.value]
  | .range s e => [s.value, e.value]
  | .text _ => []

def ConvertValue.parts : ConvertValue Rat → List Rat
  | .number n => [n]
  | .range s e => [s, e]

/-- the amounts (in base units) of `v` read in unit `u` -/
def amounts (ps : List Rat) (u : Unit Rat) : List Rat := ps.map (fun x => amount x u)

theorem toValue_parts (v : ConvertValue Rat) : v.toValue.parts = v.parts := by
  cases v <;> rfl

theorem ofValue_parts {v : Value Rat} {cv : ConvertValue Rat} (h : ConvertValue.ofValue v = .ok cv) :
    cv.parts = v.parts := by
  cases v <;> simp [ConvertValue.ofValue] at h <;> subst h <;> rfl

theorem ofValue_error {v : Value Rat} {e : ConvErr} (h : ConvertValue.ofValue v = .error e) :
    ∃ t, v = .text t ∧ e = .textValue t := by
  cases v <;> simp [ConvertValue.ofValue] at h
  exact ⟨_, rfl, h.symm⟩

/-! ### best unit -/

theorem bestUnit_mem {bc : BestConversions Rat} {value : ConvertValue Rat} {unit b : Unit Rat}
    (h : bc.bestUnit value unit = .ok (some b)) : b ∈ bc.unitsOf := by
  unfold BestConversions.bestUnit at h
  simp only at h
  split at h
  · cases h
  · rename_i base hb
    have hbase : base ∈ bc.entries := List.mem_of_mem_head? hb
    split at h
    · cases h
    · split at h
      · rename_i e he
        have : e ∈ bc.entries := by
          have := List.mem_of_find?_eq_some he
          simpa using this
        simp only [Except.ok.injEq, Option.some.injEq] at h
        subst h
        exact List.mem_map.mpr ⟨e, this, rfl⟩
      · simp only [Except.ok.injEq, Option.some.injEq] at h
        subst h
        exact List.mem_map.mpr ⟨base, hbase, rfl⟩

theorem bestUnit_none {bc : BestConversions Rat} {value : ConvertValue Rat} {unit : Unit Rat}
    (h : bc.bestUnit value unit = .ok none) : bc.entries = [] := by
  unfold BestConversions.bestUnit at h
  simp only at h
  split at h
  · rename_i hb
    cases hl : bc.entries with
    | nil => rfl
    | cons a l => simp [hl] at hb
  · split at h
    · cases h
    · split at h <;> cases h

theorem bestUnit_empty (bc : BestConversions Rat) (value : ConvertValue Rat) (unit : Unit Rat)
    (h : bc.entries = []) : bc.bestUnit value unit = .ok none := by
  unfold BestConversions.bestUnit
  simp [h]

theorem bestUnit_error {bc : BestConversions Rat} {value : ConvertValue Rat} {unit : Unit Rat}
    {e : ConvErr} (h : bc.bestUnit value unit = .error e) : e = .panic .mixedAssert := by
  unfold BestConversions.bestUnit at h
  simp only at h
  split at h
  · cases h
  · split at h
    · simp only [Except.error.injEq] at h; exact h.symm
    · split at h <;> cases h

/-- with units of one quantity the assertion inside `best_unit` cannot fire -/
theorem bestUnit_ok {bc : BestConversions Rat} (value : ConvertValue Rat) (unit : Unit Rat)
    (hq : ∀ b ∈ bc.unitsOf, b.pq = unit.pq) : ∃ r, bc.bestUnit value unit = .ok r := by
  unfold BestConversions.bestUnit
  simp only
  split
  · exact ⟨_, rfl⟩
  · rename_i base hb
    have hbase : base.2 ∈ bc.unitsOf := List.mem_map.mpr ⟨base, List.mem_of_mem_head? hb, rfl⟩
    split
    · rename_i hn; exact absurd hn (convertF64_ne_none _ _ _ (hq _ hbase).symm)
    · split <;> exact ⟨_, rfl⟩

/-! ### `convert_value`, `convert_to_unit`, `convert_to_best`, `Converter::convert` -/

theorem convertValue_parts {value v' : ConvertValue Rat} {a b : Unit Rat}
    (h : convertValue value a b = .ok v') (hb : b.ratio ≠ 0) (hid : a.id = b.id → a = b) :
    amounts v'.parts b = amounts value.parts a := by
  unfold convertValue at h
  split at h
  · split at h
    · cases h
    · rename_i r hr
      simp only [Except.ok.injEq] at h; subst h
      simp [amounts, ConvertValue.parts, convertF64_some_amount hr hb hid]
  · split at h
    · cases h
    · rename_i s' hs
      split at h
      · cases h
      · rename_i e' he
        simp only [Except.ok.injEq] at h; subst h
        simp [amounts, ConvertValue.parts, convertF64_some_amount hs hb hid,
          convertF64_some_amount he hb hid]

theorem convertValue_error {value : ConvertValue Rat} {a b : Unit Rat} {e : ConvErr}
    (h : convertValue value a b = .error e) : e = .panic .mixedAssert := by
  unfold convertValue at h
  repeat' split at h
  all_goals (cases h <;> rfl)

theorem convertValue_ok (value : ConvertValue Rat) (a b : Unit Rat) (hq : a.pq = b.pq) :
    ∃ v', convertValue value a b = .ok v' := by
  unfold convertValue
  cases value with
  | number n =>
    simp only
    split
    · rename_i hn; exact absurd hn (convertF64_ne_none _ _ _ hq)
    · exact ⟨_, rfl⟩
  | range s e =>
    simp only
    split
    · rename_i hn; exact absurd hn (convertF64_ne_none _ _ _ hq)
    · split
      · rename_i hn; exact absurd hn (convertF64_ne_none _ _ _ hq)
      · exact ⟨_, rfl⟩

end Cook
