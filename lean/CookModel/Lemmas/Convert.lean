import CookModel.Num.Convert
import CookModel.Lemmas.ArithRat
import CookModel.Lemmas.Fraction
/-
  Lemmas about the conversion model at `α := Rat`.
-/
namespace Cook
open Arith

/-! ### the affine conversion -/

theorem amount_rat (v : Rat) (u : Unit Rat) : amount v u = (v + u.difference) * u.ratio := by
  simp [amount]

theorem convertF64Raw_rat (v : Rat) (a b : Unit Rat) :
    convertF64Raw v a b = ((v + a.difference) * a.ratio) / b.ratio - b.difference := by
  simp [convertF64Raw]

theorem convertF64Raw_amount (v : Rat) (a b : Unit Rat) (hb : b.ratio ≠ 0) :
    amount (convertF64Raw v a b) b = amount v a := by
  rw [amount_rat, amount_rat, convertF64Raw_rat]
  grind

/-- a conversion between two units of one physical quantity is defined and keeps the amount -/
theorem convertF64_amount (v : Rat) (a b : Unit Rat) (hq : a.pq = b.pq) (hb : b.ratio ≠ 0)
    (hid : a.id = b.id → a = b) :
    ∃ w, convertF64 v a b = some w ∧ amount w b = amount v a := by
  unfold convertF64 convertF64Free
  by_cases h : a.id = b.id
  · have := hid h; subst this
    exact ⟨v, by simp, rfl⟩
  · exact ⟨convertF64Raw v a b, by simp [h, hq], convertF64Raw_amount v a b hb⟩

theorem convertF64_some_amount {v w : Rat} {a b : Unit Rat} (h : convertF64 v a b = some w)
    (hb : b.ratio ≠ 0) (hid : a.id = b.id → a = b) : amount w b = amount v a := by
  unfold convertF64 convertF64Free at h
  by_cases h1 : a.id = b.id
  · have := hid h1; subst this
    simp at h; rw [h]
  · simp only [h1, if_false] at h
    split at h
    · simp only [Option.some.injEq] at h
      rw [← h]; exact convertF64Raw_amount v a b hb
    · cases h

theorem convertF64_some_pq {v w : Rat} {a b : Unit Rat} (h : convertF64 v a b = some w)
    (hid : a.id = b.id → a = b) : a.pq = b.pq := by
  unfold convertF64 convertF64Free at h
  by_cases h1 : a.id = b.id
  · rw [hid h1]
  · simp only [h1, if_false] at h
    split at h
    · assumption
    · cases h

theorem convertF64_isSome (v : Rat) (a b : Unit Rat) (hq : a.pq = b.pq) :
    (convertF64 v a b).isSome = true := by
  unfold convertF64 convertF64Free
  split <;> simp [hq]

theorem amount_inj {v w : Rat} {u : Unit Rat} (hu : u.ratio ≠ 0) (h : amount v u = amount w u) :
    v = w := by
  rw [amount_rat, amount_rat] at h
  have := Rat.mul_right_cancel₀ hu h  -- (v + d) = (w + d)
  grind

end Cook
