import CookModel.Num.Convert
import CookModel.Lemmas.ArithRat
import CookModel.Lemmas.Fraction
/-
  Lemmas about the conversion model at `α := Rat`.
-/
namespace Cook
open Arith

/-! ### the affine conversion -/

theorem amount_rat (v : Rat) (u : Unit Rat) : amount v u = (v + u.difference) * u.ratio := by
  simp [amount]

theorem convertF64Raw_rat (v : Rat) (a b : Unit Rat) :
    convertF64Raw v a b = ((v + a.difference) * a.ratio) / b.ratio - b.difference := by
  simp [convertF64Raw]

theorem convertF64Raw_amount (v : Rat) (a b : Unit Rat) (hb : b.ratio ≠ 0) :
    amount (convertF64Raw v a b) b = amount v a := by
  rw [amount_rat, amount_rat, convertF64Raw_rat]
  grind

/-- a conversion between two units of one physical quantity is defined and keeps the amount -/
theorem convertF64_amount (v : Rat) (a b : Unit Rat) (hq : a.pq = b.pq) (hb : b.ratio ≠ 0)
    (hid : a.id = b.id → a = b) :
    ∃ w, convertF64 v a b = some w ∧ amount w b = amount v a := by
  unfold convertF64 convertF64Free
  by_cases h : a.id = b.id
  · have := hid h; subst this
    exact ⟨v, by simp, rfl⟩
  · exact ⟨convertF64Raw v a b, by simp [h, hq], convertF64Raw_amount v a b hb⟩

theorem convertF64_some_amount {v w : Rat} {a b : Unit Rat} (h : convertF64 v a b = some w)
    (hb : b.ratio ≠ 0) (hid : a.id = b.id → a = b) : amount w b = amount v a := by
  unfold convertF64 convertF64Free at h
  by_cases h1 : a.id = b.id
  · have := hid h1; subst this
    simp at h; rw [h]
  · simp only [h1, if_false] at h
    split at h
    · simp only [Option.some.injEq] at h
      rw [← h]; exact convertF64Raw_amount v a b hb
    · cases h

theorem convertF64_some_pq {v w : Rat} {a b : Unit Rat} (h : convertF64 v a b = some w)
    (hid : a.id = b.id → a = b) : a.pq = b.pq := by
  unfold convertF64 convertF64Free at h
  by_cases h1 : a.id = b.id
  · rw [hid h1]
  · simp only [h1, if_false] at h
    split at h
    · assumption
    · cases h

theorem convertF64_isSome (v : Rat) (a b : Unit Rat) (hq : a.pq = b.pq) :
    (convertF64 v a b).isSome = true := by
  unfold convertF64 convertF64Free
  split <;> simp

theorem convertF64_ne_none (v : Rat) (a b : Unit Rat) (hq : a.pq = b.pq) :
    convertF64 v a b ≠ none := by
  intro h
  have := convertF64_isSome v a b hq
  rw [h] at this; cases this

theorem amount_inj {v w : Rat} {u : Unit Rat} (hu : u.ratio ≠ 0) (h : amount v u = amount w u) :
    v = w := by
  rw [amount_rat, amount_rat] at h
  grind

end Cook

namespace Cook
open Arith

/-! ### soundness conditions of a converter (invariants of the builder), decidable -/

structure Converter.Sound (c : Converter Rat) : Prop where
  best_mem : ∀ q s u, u ∈ ((c.best q).conversions s).unitsOf → u ∈ c.allUnits ∧ u.pq = q
  id_inj : ∀ u v, u ∈ c.allUnits → v ∈ c.allUnits → u.id = v.id → u = v
  ratio_ne : ∀ u, u ∈ c.allUnits → u.ratio ≠ 0
  symbol : ∀ u, u ∈ c.allUnits → u.symbol?.isSome = true
  keys : ∀ u, u ∈ c.allUnits → ∀ k, k ∈ u.allKeys → c.findUnit k = some u

def soundB (c : Converter Rat) : Bool :=
  PhysQ.all.all (fun q => [System.metric, System.imperial].all (fun s =>
    ((c.best q).conversions s).unitsOf.all (fun u => c.allUnits.contains u && decide (u.pq = q))))
  && c.allUnits.all (fun u => c.allUnits.all (fun v => decide (u.id = v.id → u = v)))
  && c.allUnits.all (fun u => decide (u.ratio ≠ 0) && u.symbol?.isSome)
  && c.allUnits.all (fun u => u.allKeys.all (fun k => decide (c.findUnit k = some u)))

theorem soundB_sound (c : Converter Rat) (h : soundB c = true) : c.Sound := by
  simp only [soundB, Bool.and_eq_true, List.all_eq_true, decide_eq_true_eq, List.contains_eq_mem,
    PhysQ.all] at h
  obtain ⟨⟨⟨h1, h2⟩, h3⟩, h4⟩ := h
  refine ⟨?_, ?_, ?_, ?_, ?_⟩
  · intro q s u hu
    have hq : q ∈ [PhysQ.volume, .mass, .length, .temperature, .time] := by cases q <;> simp
    have hs : s ∈ [System.metric, System.imperial] := by cases s <;> simp
    exact h1 q hq s hs u hu
  · intro u v hu hv; exact h2 u hu v hv
  · intro u hu; exact (h3 u hu).1
  · intro u hu; exact (h3 u hu).2
  · intro u hu k hk; exact h4 u hu k hk

theorem findUnit_mem {c : Converter Rat} {k : Str} {u : Unit Rat} (h : c.findUnit k = some u) :
    u ∈ c.allUnits := List.mem_of_find?_eq_some h

end Cook

namespace Cook
open Arith

/-! ### amounts of values -/

/-- the numbers a value states (`Number::value`, fraction error included) -/
def Value.parts : Value Rat → List Rat
  | .number n => [n.value]
  | .range s e => [s.value, e.value]
  | .text _ => []

def ConvertValue.parts : ConvertValue Rat → List Rat
  | .number n => [n]
  | .range s e => [s, e]

/-- the amounts (in base units) of `v` read in unit `u` -/
def amounts (ps : List Rat) (u : Unit Rat) : List Rat := ps.map (fun x => amount x u)

theorem toValue_parts (v : ConvertValue Rat) : v.toValue.parts = v.parts := by
  cases v <;> rfl

theorem ofValue_parts {v : Value Rat} {cv : ConvertValue Rat} (h : ConvertValue.ofValue v = .ok cv) :
    cv.parts = v.parts := by
  cases v <;> simp [ConvertValue.ofValue] at h <;> subst h <;> rfl

theorem ofValue_error {v : Value Rat} {e : ConvErr} (h : ConvertValue.ofValue v = .error e) :
    ∃ t, v = .text t ∧ e = .textValue t := by
  cases v <;> simp [ConvertValue.ofValue] at h
  exact ⟨_, rfl, h.symm⟩

/-! ### best unit -/

theorem bestUnit_mem {bc : BestConversions Rat} {value : ConvertValue Rat} {unit b : Unit Rat}
    (h : bc.bestUnit value unit = .ok (some b)) : b ∈ bc.unitsOf := by
  unfold BestConversions.bestUnit at h
  simp only at h
  split at h
  · cases h
  · rename_i base hb
    have hbase : base ∈ bc.entries := List.mem_of_mem_head? hb
    split at h
    · cases h
    · split at h
      · rename_i e he
        have : e ∈ bc.entries := by
          have := List.mem_of_find?_eq_some he
          simpa using this
        simp only [Except.ok.injEq, Option.some.injEq] at h
        subst h
        exact List.mem_map.mpr ⟨e, this, rfl⟩
      · simp only [Except.ok.injEq, Option.some.injEq] at h
        subst h
        exact List.mem_map.mpr ⟨base, hbase, rfl⟩

theorem bestUnit_none {bc : BestConversions Rat} {value : ConvertValue Rat} {unit : Unit Rat}
    (h : bc.bestUnit value unit = .ok none) : bc.entries = [] := by
  unfold BestConversions.bestUnit at h
  simp only at h
  split at h
  · rename_i hb
    cases hl : bc.entries with
    | nil => rfl
    | cons a l => simp [hl] at hb
  · split at h
    · cases h
    · split at h <;> cases h

theorem bestUnit_empty (bc : BestConversions Rat) (value : ConvertValue Rat) (unit : Unit Rat)
    (h : bc.entries = []) : bc.bestUnit value unit = .ok none := by
  unfold BestConversions.bestUnit
  simp [h]

theorem bestUnit_error {bc : BestConversions Rat} {value : ConvertValue Rat} {unit : Unit Rat}
    {e : ConvErr} (h : bc.bestUnit value unit = .error e) : e = .panic .mixedAssert := by
  unfold BestConversions.bestUnit at h
  simp only at h
  split at h
  · cases h
  · split at h
    · simp only [Except.error.injEq] at h; exact h.symm
    · split at h <;> cases h

/-- with units of one quantity the assertion inside `best_unit` cannot fire -/
theorem bestUnit_ok {bc : BestConversions Rat} (value : ConvertValue Rat) (unit : Unit Rat)
    (hq : ∀ b ∈ bc.unitsOf, b.pq = unit.pq) : ∃ r, bc.bestUnit value unit = .ok r := by
  unfold BestConversions.bestUnit
  simp only
  split
  · exact ⟨_, rfl⟩
  · rename_i base hb
    have hbase : base.2 ∈ bc.unitsOf := List.mem_map.mpr ⟨base, List.mem_of_mem_head? hb, rfl⟩
    split
    · rename_i hn; exact absurd hn (convertF64_ne_none _ _ _ (hq _ hbase).symm)
    · split <;> exact ⟨_, rfl⟩

/-! ### `convert_value`, `convert_to_unit`, `convert_to_best`, `Converter::convert` -/

theorem convertValue_parts {value v' : ConvertValue Rat} {a b : Unit Rat}
    (h : convertValue value a b = .ok v') (hb : b.ratio ≠ 0) (hid : a.id = b.id → a = b) :
    amounts v'.parts b = amounts value.parts a := by
  unfold convertValue at h
  split at h
  · split at h
    · cases h
    · rename_i r hr
      simp only [Except.ok.injEq] at h; subst h
      simp [amounts, ConvertValue.parts, convertF64_some_amount hr hb hid]
  · split at h
    · cases h
    · rename_i s' hs
      split at h
      · cases h
      · rename_i e' he
        simp only [Except.ok.injEq] at h; subst h
        simp [amounts, ConvertValue.parts, convertF64_some_amount hs hb hid,
          convertF64_some_amount he hb hid]

theorem convertValue_error {value : ConvertValue Rat} {a b : Unit Rat} {e : ConvErr}
    (h : convertValue value a b = .error e) : e = .panic .mixedAssert := by
  unfold convertValue at h
  repeat' split at h
  all_goals (cases h <;> rfl)

theorem convertValue_ok (value : ConvertValue Rat) (a b : Unit Rat) (hq : a.pq = b.pq) :
    ∃ v', convertValue value a b = .ok v' := by
  unfold convertValue
  cases value with
  | number n =>
    simp only
    split
    · rename_i hn; exact absurd hn (convertF64_ne_none _ _ _ hq)
    · exact ⟨_, rfl⟩
  | range s e =>
    simp only
    split
    · rename_i hn; exact absurd hn (convertF64_ne_none _ _ _ hq)
    · split
      · rename_i hn; exact absurd hn (convertF64_ne_none _ _ _ hq)
      · exact ⟨_, rfl⟩

end Cook

namespace Cook
open Arith

theorem convertToUnit_spec {value v' : ConvertValue Rat} {u t : Unit Rat}
    (h : convertToUnit value u t = .ok v') (ht : t.ratio ≠ 0) (hid : u.id = t.id → u = t) :
    u.pq = t.pq ∧ amounts v'.parts t = amounts value.parts u := by
  unfold convertToUnit at h
  split at h
  · cases h
  · rename_i hq
    exact ⟨Decidable.not_not.mp hq, convertValue_parts h ht hid⟩

theorem convertToUnit_error {value : ConvertValue Rat} {u t : Unit Rat} {e : ConvErr}
    (h : convertToUnit value u t = .error e) :
    (u.pq ≠ t.pq ∧ e = .mixedQuantities u.pq t.pq) ∨ e = .panic .mixedAssert := by
  unfold convertToUnit at h
  split at h
  · rename_i hq
    simp only [Except.error.injEq] at h
    exact Or.inl ⟨hq, h.symm⟩
  · exact Or.inr (convertValue_error h)

/-- the same-quantity guard: a target of another physical quantity is refused -/
theorem convertToUnit_mixed (value : ConvertValue Rat) (u t : Unit Rat) (hq : u.pq ≠ t.pq) :
    convertToUnit value u t = .error (.mixedQuantities u.pq t.pq) := by
  unfold convertToUnit; simp [hq]

theorem convertToBest_spec {c : Converter Rat} (hc : c.Sound) {value v' : ConvertValue Rat}
    {u b : Unit Rat} {system : System} (hu : u ∈ c.allUnits)
    (h : c.convertToBest value u system = .ok (v', b)) :
    b ∈ ((c.best u.pq).conversions system).unitsOf ∧ b ∈ c.allUnits ∧ b.pq = u.pq ∧
      amounts v'.parts b = amounts value.parts u := by
  unfold Converter.convertToBest at h
  split at h
  · cases h
  · cases h
  · rename_i best hbest
    split at h
    · cases h
    · rename_i v hv
      simp only [Except.ok.injEq, Prod.mk.injEq] at h
      obtain ⟨rfl, rfl⟩ := h
      have hm := bestUnit_mem hbest
      have hb := hc.best_mem _ _ _ hm
      refine ⟨hm, hb.1, hb.2, convertValue_parts hv (hc.ratio_ne _ hb.1) ?_⟩
      exact hc.id_inj _ _ hu hb.1

theorem convertToBest_error {c : Converter Rat} {value : ConvertValue Rat} {u : Unit Rat}
    {system : System} {e : ConvErr} (h : c.convertToBest value u system = .error e) :
    (((c.best u.pq).conversions system).entries = [] ∧ e = .bestUnitNotFound u.pq u.system)
      ∨ e = .panic .mixedAssert := by
  unfold Converter.convertToBest at h
  split at h
  · rename_i e' he
    simp only [Except.error.injEq] at h; subst h
    exact Or.inr (bestUnit_error he)
  · rename_i hn
    simp only [Except.error.injEq] at h
    exact Or.inl ⟨bestUnit_none hn, h.symm⟩
  · split at h
    · rename_i e' he
      simp only [Except.error.injEq] at h; subst h
      exact Or.inr (convertValue_error he)
    · cases h

/-- a missing best list is reported -/
theorem convertToBest_empty (c : Converter Rat) (value : ConvertValue Rat) (u : Unit Rat)
    (system : System) (h : ((c.best u.pq).conversions system).entries = []) :
    c.convertToBest value u system = .error (.bestUnitNotFound u.pq u.system) := by
  unfold Converter.convertToBest
  rw [bestUnit_empty _ _ _ h]

theorem convertToBest_ok {c : Converter Rat} (hc : c.Sound) (value : ConvertValue Rat) (u : Unit Rat)
    (system : System) (hne : ((c.best u.pq).conversions system).entries ≠ []) :
    ∃ r, c.convertToBest value u system = .ok r := by
  unfold Converter.convertToBest
  have hq : ∀ b ∈ ((c.best u.pq).conversions system).unitsOf, b.pq = u.pq :=
    fun b hb => (hc.best_mem _ _ _ hb).2
  obtain ⟨r, hr⟩ := bestUnit_ok value u hq
  rw [hr]
  cases r with
  | none => exact absurd (bestUnit_none hr) hne
  | some best =>
    simp only
    have hb := hq best (bestUnit_mem hr)
    obtain ⟨v', hv⟩ := convertValue_ok value u best hb.symm
    rw [hv]
    exact ⟨_, rfl⟩

theorem getUnit_unit (c : Converter Rat) (u : Unit Rat) : c.getUnit (.unit u) = .ok u := rfl

/-- `Converter::convert` from a unit of the converter: quantity, membership, amounts -/
theorem convert_spec {c : Converter Rat} (hc : c.Sound) {value v' : ConvertValue Rat}
    {u t : Unit Rat} {to : ConvertTo Rat} (hu : u ∈ c.allUnits)
    (hto : ∀ x, to = .unit (.unit x) → x ∈ c.allUnits)
    (h : c.convert value (.unit u) to = .ok (v', t)) :
    t ∈ c.allUnits ∧ t.pq = u.pq ∧ amounts v'.parts t = amounts value.parts u ∧
    (∀ s, to = .best s → t ∈ ((c.best u.pq).conversions s).unitsOf) ∧
    (to = .sameSystem → t ∈ ((c.best u.pq).conversions (u.system.getD c.defaultSystem)).unitsOf) := by
  unfold Converter.convert at h
  simp only [getUnit_unit] at h
  cases to with
  | sameSystem =>
    simp only at h
    have := convertToBest_spec hc hu h
    exact ⟨this.2.1, this.2.2.1, this.2.2.2, (by intro s hs; cases hs), fun _ => this.1⟩
  | best s =>
    simp only at h
    have := convertToBest_spec hc hu h
    refine ⟨this.2.1, this.2.2.1, this.2.2.2, ?_, (by intro hs; cases hs)⟩
    intro s' hs; cases hs; exact this.1
  | unit target =>
    simp only at h
    split at h
    · cases h
    · rename_i t' ht'
      split at h
      · cases h
      · rename_i v hv
        simp only [Except.ok.injEq, Prod.mk.injEq] at h
        obtain ⟨rfl, rfl⟩ := h
        have htm : t' ∈ c.allUnits := by
          cases target with
          | unit x => simp only [Converter.getUnit, Except.ok.injEq] at ht'; subst ht'; exact hto _ rfl
          | key k =>
            simp only [Converter.getUnit] at ht'
            split at ht'
            · rename_i u' hu'
              simp only [Except.ok.injEq] at ht'; subst ht'
              exact findUnit_mem hu'
            · cases ht'
        have := convertToUnit_spec hv (hc.ratio_ne _ htm) (hc.id_inj _ _ hu htm)
        exact ⟨htm, this.1.symm, this.2, (by intro s hs; cases hs), (by intro hs; cases hs)⟩

end Cook

namespace Cook
open Arith

theorem symbol_mem_allKeys {u : Unit Rat} {s : UStr} (h : u.symbol? = some s) : s ∈ u.allKeys := by
  unfold Unit.symbol? at h
  unfold Unit.allKeys
  split at h
  · rename_i x hx
    simp only [Option.some.injEq] at h; subst h
    simp [List.mem_of_mem_head? hx]
  · split at h
    · rename_i x hx
      simp only [Option.some.injEq] at h; subst h
      simp [List.mem_of_mem_head? hx]
    · simp [List.mem_of_mem_head? h]

theorem Converter.Sound.find_symbol {c : Converter Rat} (hc : c.Sound) {u : Unit Rat}
    (hu : u ∈ c.allUnits) {s : UStr} (h : u.symbol? = some s) : c.findUnit s = some u :=
  hc.keys u hu s (symbol_mem_allKeys h)

/-! ### fractions keep the value -/

theorem approx_value {c : Converter Rat} {v : Rat} {cfg : FracCfg Rat} {n : Number Rat}
    (h : c.approx v cfg = some n) : n.value = v :=
  newApprox_value _ _ _ _ _ _ h

theorem tryApprox_value (c : Converter Rat) (n : Number Rat) (cfg : FracCfg Rat) :
    (tryApprox c n cfg).1.value = n.value := by
  unfold tryApprox
  split
  · rename_i f hf; exact approx_value hf
  · rfl

theorem tryApprox_false {c : Converter Rat} {n : Number Rat} {cfg : FracCfg Rat}
    (h : (tryApprox c n cfg).2 = false) : (tryApprox c n cfg).1 = n := by
  unfold tryApprox at h ⊢
  split
  · rename_i f hf; simp [hf] at h
  · rfl

theorem tryFraction_unit (c : Converter Rat) (q : SQuantity Rat) :
    (tryFraction c q).1.unit = q.unit := by
  unfold tryFraction
  repeat' split
  all_goals rfl

theorem tryFraction_parts (c : Converter Rat) (q : SQuantity Rat) :
    (tryFraction c q).1.value.parts = q.value.parts := by
  unfold tryFraction
  split
  · rfl
  · split
    · rfl
    · split
      · rename_i n hn
        simp [hn, Value.parts, tryApprox_value]
      · rename_i s e hv
        split
        · simp [hv, Value.parts, tryApprox_value]
        · simp [hv, Value.parts, tryApprox_value]
      · rfl

theorem tryFraction_false {c : Converter Rat} {q : SQuantity Rat}
    (h : (tryFraction c q).2 = false) : (tryFraction c q).1 = q := by
  unfold tryFraction at h ⊢
  cases hu : unitInfo c q with
  | none => rfl
  | some u =>
    simp only [hu] at h ⊢
    by_cases hen : (!(c.fractionsConfig u).enabled) = true
    · simp only [hen, if_true]
    · simp only [hen] at h ⊢
      cases q with
      | mk value unit =>
        cases value with
        | number n =>
          simp only [Bool.false_eq_true, if_false] at h ⊢
          rw [tryApprox_false h]
        | range s e =>
          simp only at h ⊢
          by_cases ht : (tryApprox c s (c.fractionsConfig u)).2 = true
          · simp [ht] at h
          · simp only [ht, Bool.false_eq_true, if_false] at h ⊢
            rw [tryApprox_false h]
        | text t => rfl

end Cook

namespace Cook
open Arith

/-! ### `fit_fraction` -/

theorem fracCandidates_spec (c : Converter Rat) (value : Rat) (unit : Unit Rat) :
    ∀ (es : List (Rat × Unit Rat)) (cands : List (Number Rat × Unit Rat)),
      fracCandidates c value unit es = .ok cands →
      ∀ p ∈ cands, p.2 ∈ es.map (·.2) ∧ convertF64 value unit p.2 = some p.1.value := by
  intro es
  induction es with
  | nil =>
    intro cands h p hp
    simp only [fracCandidates, Except.ok.injEq] at h
    subst h; cases hp
  | cons e rest ih =>
    intro cands h p hp
    unfold fracCandidates at h
    split at h
    · have := ih cands h p hp
      exact ⟨by simp [this.1], this.2⟩
    · split at h
      · cases h
      · rename_i nv hnv
        split at h
        · have := ih cands h p hp
          exact ⟨by simp [this.1], this.2⟩
        · rename_i n hn
          split at h
          · cases h
          · rename_i r hr
            simp only [Except.ok.injEq] at h; subst h
            rcases List.mem_cons.mp hp with rfl | hp'
            · refine ⟨by simp, ?_⟩
              simp only
              rw [approx_value hn]; exact hnv
            · have := ih r hr p hp'
              exact ⟨by simp [this.1], this.2⟩

theorem fracCandidates_error (c : Converter Rat) (value : Rat) (unit : Unit Rat) :
    ∀ (es : List (Rat × Unit Rat)) (e : ConvErr),
      fracCandidates c value unit es = .error e → e = .panic .mixedAssert := by
  intro es
  induction es with
  | nil => intro e h; simp [fracCandidates] at h
  | cons x rest ih =>
    intro e h
    unfold fracCandidates at h
    split at h
    · exact ih e h
    · split at h
      · simp only [Except.error.injEq] at h; exact h.symm
      · split at h
        · exact ih e h
        · split at h
          · rename_i err herr
            simp only [Except.error.injEq] at h; subst h
            exact ih _ herr
          · cases h

theorem fracCandidates_ok (c : Converter Rat) (value : Rat) (unit : Unit Rat) :
    ∀ (es : List (Rat × Unit Rat)), (∀ e ∈ es, e.2.pq = unit.pq) →
      ∃ cands, fracCandidates c value unit es = .ok cands := by
  intro es
  induction es with
  | nil => intro _; exact ⟨[], rfl⟩
  | cons x rest ih =>
    intro hq
    obtain ⟨r, hr⟩ := ih (fun e he => hq e (List.mem_cons_of_mem _ he))
    unfold fracCandidates
    split
    · exact ⟨r, hr⟩
    · split
      · rename_i hn
        exact absurd hn (convertF64_ne_none _ _ _ (hq x (List.mem_cons_self)).symm)
      · split
        · exact ⟨r, hr⟩
        · rw [hr]; exact ⟨_, rfl⟩

theorem foldl_minStep_mem (xs : List (Number Rat × Unit Rat)) (x : Number Rat × Unit Rat) :
    xs.foldl minStep x ∈ x :: xs := by
  induction xs generalizing x with
  | nil => simp
  | cons y ys ih =>
    simp only [List.foldl_cons]
    have := ih (minStep x y)
    rcases List.mem_cons.mp this with h | h
    · rw [h]
      unfold minStep
      split <;> simp
    · simp [h]

theorem minByKey_mem {l : List (Number Rat × Unit Rat)} {x : Number Rat × Unit Rat}
    (h : minByKey l = some x) : x ∈ l := by
  cases l with
  | nil => cases h
  | cons a as =>
    simp only [minByKey, Option.some.injEq] at h
    rw [← h]; exact foldl_minStep_mem as a

theorem minByKey_none {l : List (Number Rat × Unit Rat)} (h : minByKey l = none) : l = [] := by
  cases l with
  | nil => rfl
  | cons a as => cases h

/-- what the second half of `fit_fraction` leaves: the selected fraction in the selected unit
    (and the range end converted to it) -/
theorem fitFractionApply_spec (c : Converter Rat) (q : SQuantity Rat) (unit : Unit Rat)
    (sel : Number Rat × Unit Rat) (v : Rat) (hv : convertF64 v unit sel.2 = some sel.1.value)
    (hfirst : q.value.parts.head? = some v)
    (hr : sel.2.ratio ≠ 0) (hid : unit.id = sel.2.id → unit = sel.2)
    (hsym : sel.2.symbol?.isSome = true) (hpq : unit.pq = sel.2.pq) :
    ∃ q', fitFractionApply c q unit sel = (q', .ok true) ∧ q'.unit = sel.2.symbol? ∧
       q'.unit.isSome = true ∧ amounts q'.value.parts sel.2 = amounts q.value.parts unit := by
  unfold fitFractionApply
  cases hs : sel.2.symbol? with
  | none => rw [hs] at hsym; cases hsym
  | some sym =>
    simp only
    cases hq : q.value with
    | number n =>
      simp only
      refine ⟨_, rfl, rfl, rfl, ?_⟩
      simp only [hq, Value.parts, List.head?_cons, Option.some.injEq] at hfirst
      simp only [Value.parts, amounts, List.map_cons, List.map_nil]
      rw [hfirst, convertF64_some_amount hv hr hid]
    | range s e =>
      simp only
      simp only [hq, Value.parts, List.head?_cons, Option.some.injEq] at hfirst
      cases he : convertF64 e.value unit sel.2 with
      | none => exact absurd he (convertF64_ne_none _ _ _ hpq)
      | some e' =>
        simp only
        refine ⟨_, rfl, rfl, rfl, ?_⟩
        simp only [Value.parts, amounts, List.map_cons, List.map_nil]
        rw [hfirst, convertF64_some_amount hv hr hid]
        have hev : ((c.approx e' (c.fractionsConfig sel.2)).getD (.regular e')).value = e' := by
          cases ha : c.approx e' (c.fractionsConfig sel.2) with
          | none => rfl
          | some f => exact approx_value ha
        rw [hev, convertF64_some_amount he hr hid]
    | text t =>
      simp [hq, Value.parts] at hfirst

end Cook

namespace Cook
open Arith

/-- `q'`, whose unit text resolves to `nu`, states the amounts that `q` stated in `u` -/
structure Restated (c : Converter Rat) (q : SQuantity Rat) (u : Unit Rat) (q' : SQuantity Rat)
    (nu : Unit Rat) : Prop where
  mem : nu ∈ c.allUnits
  info : unitInfo c q' = some nu
  pq : nu.pq = u.pq
  amounts : amounts q'.value.parts nu = amounts q.value.parts u

theorem unitInfo_congr (c : Converter Rat) {q q' : SQuantity Rat} (h : q'.unit = q.unit) :
    unitInfo c q' = unitInfo c q := by
  unfold unitInfo; rw [h]

theorem unitInfo_symbol {c : Converter Rat} (hc : c.Sound) {nu : Unit Rat} (hm : nu ∈ c.allUnits)
    {q : SQuantity Rat} (h : q.unit = nu.symbol?) (hs : q.unit.isSome = true) :
    unitInfo c q = some nu := by
  unfold unitInfo
  cases hu : q.unit with
  | none => rw [hu] at hs; cases hs
  | some s =>
    simp only
    exact hc.find_symbol hm (by rw [← h, hu])

theorem unitInfo_mem {c : Converter Rat} {q : SQuantity Rat} {u : Unit Rat}
    (h : unitInfo c q = some u) : u ∈ c.allUnits := by
  unfold unitInfo at h
  split at h
  · cases h
  · exact findUnit_mem h

theorem Restated.refl {c : Converter Rat} {q : SQuantity Rat} {u : Unit Rat}
    (h : unitInfo c q = some u) : Restated c q u q u :=
  ⟨unitInfo_mem h, h, rfl, rfl⟩

theorem Restated.trans {c : Converter Rat} {q q1 q2 : SQuantity Rat} {u u1 u2 : Unit Rat}
    (h1 : Restated c q u q1 u1) (h2 : Restated c q1 u1 q2 u2) : Restated c q u q2 u2 :=
  ⟨h2.mem, h2.info, h2.pq.trans h1.pq, h2.amounts.trans h1.amounts⟩

/-- the three ways `fit_fraction` can end -/
inductive FitFractionOutcome (c : Converter Rat) (q : SQuantity Rat) (unit : Unit Rat)
    (target : Option System) : SQuantity Rat × Except ConvErr Bool → Prop where
  | failed (t : Str) (hv : q.value = .text t) (ht : target.isSome = true) :
      FitFractionOutcome c q unit target (q, .error (.textValue t))
  | declined : FitFractionOutcome c q unit target (q, .ok false)
  | fitted (q' : SQuantity Rat) (nu : Unit Rat) (hr : Restated c q unit q' nu)
      (hlist : ∀ s, target = some s → nu ∈ ((c.best unit.pq).conversions s).unitsOf)
      (hnone : target = none → q'.unit = q.unit ∧ nu = unit) :
      FitFractionOutcome c q unit target (q', .ok true)

theorem fitFractionWith_spec {c : Converter Rat} (hc : c.Sound) (q : SQuantity Rat) (unit : Unit Rat)
    (hu : unit ∈ c.allUnits) (system : System) (v : Rat) (hfirst : q.value.parts.head? = some v) :
    FitFractionOutcome c q unit (some system) (fitFractionWith c q unit system v) := by
  unfold fitFractionWith
  have hq : ∀ e ∈ ((c.best unit.pq).conversions system).entries, e.2.pq = unit.pq :=
    fun e he => (hc.best_mem _ _ _ (List.mem_map.mpr ⟨e, he, rfl⟩)).2
  obtain ⟨cands, hc'⟩ := fracCandidates_ok c v unit _ hq
  rw [hc']
  simp only
  split
  · exact .declined
  · rename_i sel hsel
    have hmem := minByKey_mem hsel
    have hs := fracCandidates_spec c v unit _ _ hc' sel hmem
    have hlist : sel.2 ∈ ((c.best unit.pq).conversions system).unitsOf := hs.1
    have hb := hc.best_mem _ _ _ hlist
    obtain ⟨q', hq', hunit, hsome, hamt⟩ := fitFractionApply_spec c q unit sel v hs.2 hfirst
      (hc.ratio_ne _ hb.1) (hc.id_inj _ _ hu hb.1) (hc.symbol _ hb.1) hb.2.symm
    rw [hq']
    refine .fitted q' sel.2 ⟨hb.1, unitInfo_symbol hc hb.1 hunit hsome, hb.2, hamt⟩ ?_ ?_
    · intro s hs'; cases hs'; exact hlist
    · intro h; cases h

theorem fitFraction_spec {c : Converter Rat} (hc : c.Sound) (q : SQuantity Rat) (unit : Unit Rat)
    (hinfo : unitInfo c q = some unit) (target : Option System) :
    FitFractionOutcome c q unit target (fitFraction c q unit target) := by
  have hu := unitInfo_mem hinfo
  unfold fitFraction
  cases target with
  | none =>
    simp only
    cases hb : (tryFraction c q).2 with
    | false => rw [tryFraction_false hb]; exact .declined
    | true =>
      refine .fitted _ unit ⟨hu, ?_, rfl, ?_⟩ (by intro s hs; cases hs) (fun _ => ⟨tryFraction_unit c q, rfl⟩)
      · rw [unitInfo_congr c (tryFraction_unit c q)]; exact hinfo
      · rw [tryFraction_parts]
  | some system =>
    simp only
    cases hv : q.value with
    | text t => exact .failed t hv rfl
    | number n => exact fitFractionWith_spec hc q unit hu system n.value (by simp [hv, Value.parts])
    | range s e => exact fitFractionWith_spec hc q unit hu system s.value (by simp [hv, Value.parts])

end Cook

namespace Cook
open Arith

/-! ### `ScaledQuantity::convert` -/

theorem convertToBest_error_sound {c : Converter Rat} (hc : c.Sound) {value : ConvertValue Rat}
    {u : Unit Rat} {system : System} {e : ConvErr} (h : c.convertToBest value u system = .error e) :
    ((c.best u.pq).conversions system).entries = [] ∧ e = .bestUnitNotFound u.pq u.system := by
  by_cases hne : ((c.best u.pq).conversions system).entries = []
  · rw [convertToBest_empty c value u system hne] at h
    simp only [Except.error.injEq] at h
    exact ⟨hne, h.symm⟩
  · obtain ⟨r, hr⟩ := convertToBest_ok hc value u system hne
    rw [hr] at h; cases h

theorem convertToUnit_error_sound {value : ConvertValue Rat} {u t : Unit Rat} {e : ConvErr}
    (h : convertToUnit value u t = .error e) : u.pq ≠ t.pq ∧ e = .mixedQuantities u.pq t.pq := by
  by_cases hq : u.pq = t.pq
  · unfold convertToUnit at h
    simp only [hq, ne_eq, not_true_eq_false, if_false] at h
    obtain ⟨v', hv⟩ := convertValue_ok value u t hq
    rw [hv] at h; cases h
  · rw [convertToUnit_mixed value u t hq] at h
    simp only [Except.error.injEq] at h
    exact ⟨hq, h.symm⟩

/-- why a quantity conversion fails -/
inductive ConvertFailure (c : Converter Rat) (q : SQuantity Rat) (to : ConvertTo Rat) : ConvErr → Prop where
  | noUnit (h : q.unit = none) : ConvertFailure c q to .noUnit
  | unknownUnit (k : Str) (h : q.unit = some k) (hf : c.findUnit k = none) :
      ConvertFailure c q to (.unknownUnit k)
  | textValue (u : Unit Rat) (t : Str) (hu : unitInfo c q = some u) (hv : q.value = .text t) :
      ConvertFailure c q to (.textValue t)
  | unknownTarget (u : Unit Rat) (k : Str) (hu : unitInfo c q = some u) (hto : to = .unit (.key k))
      (hf : c.findUnit k = none) : ConvertFailure c q to (.unknownUnit k)
  | mixed (u t : Unit Rat) (tu : ConvertUnit Rat) (hu : unitInfo c q = some u) (hto : to = .unit tu)
      (ht : c.getUnit tu = .ok t) (hq : u.pq ≠ t.pq) : ConvertFailure c q to (.mixedQuantities u.pq t.pq)
  | noBest (u : Unit Rat) (s : System) (hu : unitInfo c q = some u)
      (hs : to = .best s ∨ (to = .sameSystem ∧ s = u.system.getD c.defaultSystem))
      (he : ((c.best u.pq).conversions s).entries = []) :
      ConvertFailure c q to (.bestUnitNotFound u.pq u.system)

/-- the two ways `convert` can end for a sound converter: an error with the quantity untouched, or
    the same amounts restated in a unit of the same physical quantity -/
inductive ConvertOutcome (c : Converter Rat) (q : SQuantity Rat) (to : ConvertTo Rat) :
    SQuantity Rat × Except ConvErr _root_.Unit → Prop where
  | failed (e : ConvErr) (he : ConvertFailure c q to e) : ConvertOutcome c q to (q, .error e)
  | converted (q' : SQuantity Rat) (u nu : Unit Rat) (hu : unitInfo c q = some u)
      (hr : Restated c q u q' nu)
      (hbest : ∀ s, to = .best s → nu ∈ ((c.best u.pq).conversions s).unitsOf)
      (hsame : to = .sameSystem →
        nu ∈ ((c.best u.pq).conversions (u.system.getD c.defaultSystem)).unitsOf)
      (hkey : ∀ tu, to = .unit tu → c.getUnit tu = .ok nu) :
      ConvertOutcome c q to (q', .ok ())

theorem convert_error_sound {c : Converter Rat} (hc : c.Sound) {value : ConvertValue Rat}
    {u : Unit Rat} {to : ConvertTo Rat} {e : ConvErr} (q : SQuantity Rat) (hu : unitInfo c q = some u)
    (h : c.convert value (.unit u) to = .error e) : ConvertFailure c q to e := by
  unfold Converter.convert at h
  simp only [getUnit_unit] at h
  cases to with
  | sameSystem =>
    simp only at h
    have := convertToBest_error_sound hc h
    rw [this.2]; exact .noBest u _ hu (Or.inr ⟨rfl, rfl⟩) this.1
  | best s =>
    simp only at h
    have := convertToBest_error_sound hc h
    rw [this.2]; exact .noBest u s hu (Or.inl rfl) this.1
  | unit target =>
    simp only at h
    split at h
    · rename_i e' he'
      simp only [Except.error.injEq] at h; subst h
      cases target with
      | unit x => simp [Converter.getUnit] at he'
      | key k =>
        simp only [Converter.getUnit] at he'
        split at he'
        · cases he'
        · rename_i hf
          simp only [Except.error.injEq] at he'; subst he'
          exact .unknownTarget u k hu rfl hf
    · rename_i t ht
      split at h
      · rename_i e' he'
        simp only [Except.error.injEq] at h; subst h
        have := convertToUnit_error_sound he'
        rw [this.2]; exact .mixed u t target hu rfl ht this.1
      · cases h

theorem toValue_not_text (v : ConvertValue Rat) (t : Str) : v.toValue ≠ .text t := by
  cases v <;> simp [ConvertValue.toValue]

theorem convertImpl_spec {c : Converter Rat} (hc : c.Sound) (q : SQuantity Rat) (to : ConvertTo Rat)
    (hto : ∀ x, to = .unit (.unit x) → x ∈ c.allUnits) :
    ConvertOutcome c q to (convertImpl c q to) := by
  unfold convertImpl
  cases hqu : q.unit with
  | none => exact .failed _ (.noUnit hqu)
  | some utext =>
    simp only
    cases hf : c.findUnit utext with
    | none => exact .failed _ (.unknownUnit utext hqu hf)
    | some u =>
      simp only
      have hu : unitInfo c q = some u := by simp [unitInfo, hqu, hf]
      have hum := findUnit_mem hf
      cases hval : ConvertValue.ofValue q.value with
      | error e =>
        obtain ⟨t, ht, he⟩ := ofValue_error hval
        rw [he]; exact .failed _ (.textValue u t hu ht)
      | ok value =>
        simp only
        cases hconv : c.convert value (.unit u) to with
        | error e => exact .failed _ (convert_error_sound hc q hu hconv)
        | ok r =>
          obtain ⟨v', t⟩ := r
          simp only
          have hs := convert_spec hc hum hto hconv
          obtain ⟨htm, htpq, hamt, hbest, hsame⟩ := hs
          cases hsym : t.symbol? with
          | none => have := hc.symbol t htm; rw [hsym] at this; cases this
          | some sym =>
            simp only
            -- the quantity after the assignment `*self = Quantity::new(..)`
            have hq1 : Restated c q u ⟨v'.toValue, some sym⟩ t := by
              refine ⟨htm, unitInfo_symbol hc htm (by simp [hsym]) rfl, htpq, ?_⟩
              simp only [toValue_parts]
              rw [hamt, ofValue_parts hval]
            have hkey : ∀ tu, to = .unit tu → c.getUnit tu = .ok t := by
              intro tu htu
              subst htu
              unfold Converter.convert at hconv
              simp only [getUnit_unit] at hconv
              split at hconv
              · cases hconv
              · rename_i t' ht'
                split at hconv
                · cases hconv
                · simp only [Except.ok.injEq, Prod.mk.injEq] at hconv
                  rw [← hconv.2]; exact ht'
            cases to with
            | unit tu =>
              simp only
              refine .converted _ u t hu (hq1.trans ⟨htm, ?_, rfl, ?_⟩) (by intro s hs; cases hs)
                (by intro hs; cases hs) hkey
              · rw [unitInfo_congr c (tryFraction_unit c _)]; exact hq1.info
              · rw [tryFraction_parts]
            | best system =>
              simp only
              have hff := fitFraction_spec hc ⟨v'.toValue, some sym⟩ t hq1.info (some system)
              generalize fitFraction c ⟨v'.toValue, some sym⟩ t (some system) = r at hff
              cases hff with
              | failed tx hv _ => exact absurd hv (toValue_not_text _ _)
              | declined =>
                exact .converted _ u t hu hq1 (by intro s hs; cases hs; exact hbest _ rfl)
                  (by intro hs; cases hs) hkey
              | fitted q' nu hr hlist hnone =>
                refine .converted _ u nu hu (hq1.trans hr) ?_ (by intro hs; cases hs)
                  (by intro tu htu; cases htu)
                intro s hs; cases hs
                rw [← htpq]; exact hlist _ rfl
            | sameSystem =>
              simp only
              have hff := fitFraction_spec hc ⟨v'.toValue, some sym⟩ t hq1.info u.system
              generalize fitFraction c ⟨v'.toValue, some sym⟩ t u.system = r at hff
              cases hff with
              | failed tx hv _ => exact absurd hv (toValue_not_text _ _)
              | declined =>
                exact .converted _ u t hu hq1 (by intro s hs; cases hs) (fun _ => hsame rfl) hkey
              | fitted q' nu hr hlist hnone =>
                refine .converted _ u nu hu (hq1.trans hr) (by intro s hs; cases hs) ?_
                  (by intro tu htu; cases htu)
                intro _
                cases hsys : u.system with
                | none =>
                  have := (hnone hsys).2
                  rw [this]
                  have := hsame rfl
                  rw [hsys] at this; exact this
                | some s =>
                  simp only [Option.getD_some]
                  rw [← htpq]; exact hlist s hsys

end Cook

namespace Cook
open Arith

/-! ### `ScaledQuantity::fit` -/

inductive FitOutcome (c : Converter Rat) (q : SQuantity Rat) :
    SQuantity Rat × Except ConvErr _root_.Unit → Prop where
  /-- only known units are fitted -/
  | unknown (h : unitInfo c q = none) : FitOutcome c q (q, .ok ())
  | failed (e : ConvErr) (he : ConvertFailure c q .sameSystem e) : FitOutcome c q (q, .error e)
  | fitted (q' : SQuantity Rat) (u nu : Unit Rat) (hu : unitInfo c q = some u)
      (hr : Restated c q u q' nu)
      (hlist : nu ∈ ((c.best u.pq).conversions (u.system.getD c.defaultSystem)).unitsOf
                ∨ (u.system = none ∧ nu = u)) :
      FitOutcome c q (q', .ok ())

theorem convertImpl_same_fit {c : Converter Rat} (hc : c.Sound) (q : SQuantity Rat) :
    FitOutcome c q (convertImpl c q .sameSystem) := by
  have h := convertImpl_spec hc q .sameSystem (by intro x hx; cases hx)
  generalize convertImpl c q .sameSystem = r at h
  cases h with
  | failed e he => exact .failed e he
  | converted q' u nu hu hr _ hsame _ => exact .fitted q' u nu hu hr (Or.inl (hsame rfl))

theorem fit_spec {c : Converter Rat} (hc : c.Sound) (q : SQuantity Rat) :
    FitOutcome c q (fit c q) := by
  unfold fit
  cases hu : unitInfo c q with
  | none => exact .unknown hu
  | some u =>
    simp only
    split
    · have hff := fitFraction_spec hc q u hu u.system
      generalize fitFraction c q u u.system = r at hff
      cases hff with
      | failed t hv _ => exact .failed _ (.textValue u t hu hv)
      | declined => exact convertImpl_same_fit hc q
      | fitted q' nu hr hlist hnone =>
        simp only
        refine .fitted q' u nu hu hr ?_
        cases hsys : u.system with
        | none => exact Or.inr ⟨rfl, (hnone hsys).2⟩
        | some s => exact Or.inl (by simpa using hlist s hsys)
    · exact convertImpl_same_fit hc q

/-! ### `ScaledRecipe::convert` -/

/-- the errors one optional quantity contributes -/
def convErrors (c : Converter Rat) (to : System) : Option (SQuantity Rat) → List ConvErr
  | none => []
  | some q =>
    match (convertImpl c q (.best to)).2 with
    | .ok _ => []
    | .error e => [e]

/-- the quantity one optional quantity becomes -/
def convResult (c : Converter Rat) (to : System) : Option (SQuantity Rat) → Option (SQuantity Rat)
  | none => none
  | some q => some (convertImpl c q (.best to)).1

theorem convStep_fst (c : Converter Rat) (to : System) (q : SQuantity Rat) :
    (convStep c to q).1 = (convertImpl c q (.best to)).1 := by
  unfold convStep; split <;> rfl

theorem convStep_snd (c : Converter Rat) (to : System) (q : SQuantity Rat) :
    (convStep c to q).2 = convErrors c to (some q) := by
  unfold convStep convErrors; split <;> simp_all

theorem convOpt_fst (c : Converter Rat) (to : System) (q : Option (SQuantity Rat)) :
    (convOpt c to q).1 = convResult c to q := by
  cases q <;> simp [convOpt, convResult, convStep_fst]

theorem convOpt_snd (c : Converter Rat) (to : System) (q : Option (SQuantity Rat)) :
    (convOpt c to q).2 = convErrors c to q := by
  cases q
  · rfl
  · simp [convOpt, convStep_snd]

theorem recipeConvert_spec (c : Converter Rat) (to : System) (r : ScaledRecipe Rat) :
    (recipeConvert c to r).1.sections = r.sections ∧
    (recipeConvert c to r).1.cookware = r.cookware ∧
    (recipeConvert c to r).1.ingredients =
      r.ingredients.map (fun i => { i with quantity := convResult c to i.quantity }) ∧
    (recipeConvert c to r).1.timers =
      r.timers.map (fun t => { t with quantity := convResult c to t.quantity }) ∧
    (recipeConvert c to r).1.inlineQuantities =
      r.inlineQuantities.map (fun q => (convertImpl c q (.best to)).1) ∧
    (recipeConvert c to r).2 =
      (r.ingredients.map (fun i => convErrors c to i.quantity)).flatten ++
      (r.timers.map (fun t => convErrors c to t.quantity)).flatten ++
      (r.inlineQuantities.map (fun q => convErrors c to (some q))).flatten := by
  have hi1 : (fun x : Ingredient (Value Rat) × List ConvErr => x.1) ∘ convIngredient c to =
      fun i => { i with quantity := convResult c to i.quantity } := by
    funext i; simp [convIngredient, convOpt_fst]
  have hi2 : (fun x : Ingredient (Value Rat) × List ConvErr => x.2) ∘ convIngredient c to =
      fun i => convErrors c to i.quantity := by
    funext i; simp [convIngredient, convOpt_snd]
  have ht1 : (fun x : Timer (Value Rat) × List ConvErr => x.1) ∘ convTimer c to =
      fun t => { t with quantity := convResult c to t.quantity } := by
    funext t; simp [convTimer, convOpt_fst]
  have ht2 : (fun x : Timer (Value Rat) × List ConvErr => x.2) ∘ convTimer c to =
      fun t => convErrors c to t.quantity := by
    funext t; simp [convTimer, convOpt_snd]
  have hq1 : (fun x : SQuantity Rat × List ConvErr => x.1) ∘ convStep c to =
      fun q => (convertImpl c q (.best to)).1 := by
    funext q; simp [convStep_fst]
  have hq2 : (fun x : SQuantity Rat × List ConvErr => x.2) ∘ convStep c to =
      fun q => convErrors c to (some q) := by
    funext q; simp [convStep_snd]
  unfold recipeConvert
  simp only [List.map_map, hi1, hi2, ht1, ht2, hq1, hq2]
  exact ⟨trivial, trivial, trivial, trivial, trivial, trivial⟩

end Cook

namespace Cook
open Arith

/-! ### the standard definitions (hand-written, independent of units.toml) -/

/-- US liquid gallon in litres (231 cubic inches of 2.54 cm) -/
def stdGal : Rat := 3785411784 / 1000000000
/-- avoirdupois pound in grams -/
def stdLb : Rat := 45359237 / 100000

/-- symbol ↦ (ratio to the base unit litre / metre / gram / second / kelvin,
              offset to add, in the unit's own degrees, before scaling) -/
def stdDef : List (UStr × Rat × Rat) := [
  (['l'], 1, 0), (['k','l'], 1000, 0), (['h','l'], 100, 0), (['d','a','l'], 10, 0),
  (['d','l'], 1/10, 0), (['c','l'], 1/100, 0), (['m','l'], 1/1000, 0),
  (['t','s','p'], stdGal / 768, 0), (['t','b','s','p'], stdGal / 256, 0),
  (['f','l',' ','o','z'], stdGal / 128, 0), (['c'], stdGal / 16, 0), (['p','t'], stdGal / 8, 0),
  (['q','t'], stdGal / 4, 0), (['g','a','l'], stdGal, 0),
  (['m'], 1, 0), (['k','m'], 1000, 0), (['h','m'], 100, 0), (['d','a','m'], 10, 0),
  (['d','m'], 1/10, 0), (['c','m'], 1/100, 0), (['m','m'], 1/1000, 0),
  (['f','t'], 3048/10000, 0), (['i','n'], 254/10000, 0),
  (['g'], 1, 0), (['k','g'], 1000, 0), (['h','g'], 100, 0), (['d','a','g'], 10, 0),
  (['d','g'], 1/10, 0), (['c','g'], 1/100, 0), (['m','g'], 1/1000, 0),
  (['o','z'], stdLb / 16, 0), (['l','b'], stdLb, 0),
  (['s'], 1, 0), (['m','i','n'], 60, 0), (['h'], 3600, 0), (['d'], 86400, 0),
  (['°','C'], 1, 27315/100), (['°','F'], 5/9, 45967/100)]

def stdLookup (s : UStr) : Option (Rat × Rat) :=
  match stdDef.find? (fun e => e.1 = s) with
  | some e => some e.2
  | none => none

def stdOf (u : Unit Rat) : Option (Rat × Rat) :=
  match u.symbol? with
  | some s => stdLookup s
  | none => none

/-- `|a - b| ≤ b·k/10⁶` -/
def relClose (k : Nat) (a b : Rat) : Bool :=
  decide (Rat.abs (a - b) * 1000000 ≤ Rat.abs b * k)

/-- For every ordered pair of units of one physical quantity that both have a standard
    definition: the slope `ratio a / ratio b` of the conversion a → b is within 2·10⁻⁶ (relative)
    of the standard one; and every such unit's ratio (relative to the first unit of its quantity
    that has a standard definition) and offset are within 10⁻⁶ of the standard ones. -/
def pairMatchesStd (a b : Unit Rat) : Bool :=
  match stdOf a, stdOf b with
  | some sa, some sb => !(decide (a.pq = b.pq)) || relClose 2 (a.ratio / b.ratio) (sa.1 / sb.1)
  | _, _ => true

def unitMatchesStd (units : List (Unit Rat)) (u : Unit Rat) : Bool :=
  match stdOf u with
  | none => true
  | some su =>
    relClose 1 u.difference su.2 &&
    match units.find? (fun u0 => decide (u0.pq = u.pq) && (stdOf u0).isSome) with
    | none => true
    | some u0 =>
      match stdOf u0 with
      | none => true
      | some s0 => relClose 1 (u.ratio / u0.ratio) (su.1 / s0.1)

def shippedMatchesStd (units : List (Unit Rat)) : Bool :=
  units.all (unitMatchesStd units) && units.all (fun a => units.all (fun b => pairMatchesStd a b))

def stdCovered (units : List (Unit Rat)) : Nat := (units.filter (fun u => (stdOf u).isSome)).length

theorem shippedMatchesStd_pair {units : List (Unit Rat)} (h : shippedMatchesStd units = true)
    {a b : Unit Rat} (ha : a ∈ units) (hb : b ∈ units) (hq : a.pq = b.pq)
    {sa sb : Rat × Rat} (hsa : stdOf a = some sa) (hsb : stdOf b = some sb) :
    Rat.abs (a.ratio / b.ratio - sa.1 / sb.1) * 1000000 ≤ Rat.abs (sa.1 / sb.1) * 2 ∧
    Rat.abs (a.difference - sa.2) * 1000000 ≤ Rat.abs sa.2 := by
  simp only [shippedMatchesStd, Bool.and_eq_true, List.all_eq_true] at h
  have h1 := h.2 a ha b hb
  have h2 := h.1 a ha
  simp only [pairMatchesStd, hsa, hsb, hq, decide_true, Bool.not_true, Bool.false_or, relClose,
    decide_eq_true_eq] at h1
  simp only [unitMatchesStd, hsa, Bool.and_eq_true, relClose, decide_eq_true_eq] at h2
  refine ⟨by simpa using h1, by simpa using h2.1⟩

end Cook

namespace Cook
open Arith

/-! ### the failure cases, for every converter (no soundness assumption) -/

theorem convertImpl_noUnit (c : Converter Rat) (q : SQuantity Rat) (to : ConvertTo Rat)
    (h : q.unit = none) : convertImpl c q to = (q, .error .noUnit) := by
  unfold convertImpl; simp [h]

theorem convertImpl_unknownUnit (c : Converter Rat) (q : SQuantity Rat) (to : ConvertTo Rat)
    (k : Str) (h : q.unit = some k) (hf : c.findUnit k = none) :
    convertImpl c q to = (q, .error (.unknownUnit k)) := by
  unfold convertImpl; simp [h, hf]

theorem unitInfo_some {c : Converter Rat} {q : SQuantity Rat} {u : Unit Rat}
    (h : unitInfo c q = some u) : ∃ k, q.unit = some k ∧ c.findUnit k = some u := by
  unfold unitInfo at h
  split at h
  · cases h
  · rename_i k hk; exact ⟨k, hk, h⟩

theorem convertImpl_text (c : Converter Rat) (q : SQuantity Rat) (to : ConvertTo Rat)
    (u : Unit Rat) (t : Str) (hu : unitInfo c q = some u) (hv : q.value = .text t) :
    convertImpl c q to = (q, .error (.textValue t)) := by
  obtain ⟨k, hk, hf⟩ := unitInfo_some hu
  unfold convertImpl; simp [hk, hf, hv, ConvertValue.ofValue]

theorem ofValue_ok_of_not_text {v : Value Rat} (h : v.isText = false) :
    ∃ cv, ConvertValue.ofValue v = .ok cv := by
  cases v with
  | number n => exact ⟨_, rfl⟩
  | range s e => exact ⟨_, rfl⟩
  | text t => simp [Value.isText] at h

theorem convertImpl_convert_error (c : Converter Rat) (q : SQuantity Rat) (to : ConvertTo Rat)
    (u : Unit Rat) (cv : ConvertValue Rat) (e : ConvErr) (hu : unitInfo c q = some u)
    (hv : ConvertValue.ofValue q.value = .ok cv) (he : c.convert cv (.unit u) to = .error e) :
    convertImpl c q to = (q, .error e) := by
  obtain ⟨k, hk, hf⟩ := unitInfo_some hu
  unfold convertImpl; simp [hk, hf, hv, he]

theorem convertImpl_mixed (c : Converter Rat) (q : SQuantity Rat) (u t : Unit Rat)
    (tu : ConvertUnit Rat) (hu : unitInfo c q = some u) (hv : q.value.isText = false)
    (ht : c.getUnit tu = .ok t) (hq : u.pq ≠ t.pq) :
    convertImpl c q (.unit tu) = (q, .error (.mixedQuantities u.pq t.pq)) := by
  obtain ⟨cv, hcv⟩ := ofValue_ok_of_not_text hv
  apply convertImpl_convert_error c q _ u cv _ hu hcv
  unfold Converter.convert
  simp only [getUnit_unit, ht]
  rw [convertToUnit_mixed cv u t hq]

theorem convertImpl_unknownTarget (c : Converter Rat) (q : SQuantity Rat) (u : Unit Rat) (k : Str)
    (hu : unitInfo c q = some u) (hv : q.value.isText = false) (hf : c.findUnit k = none) :
    convertImpl c q (.unit (.key k)) = (q, .error (.unknownUnit k)) := by
  obtain ⟨cv, hcv⟩ := ofValue_ok_of_not_text hv
  apply convertImpl_convert_error c q _ u cv _ hu hcv
  unfold Converter.convert
  simp [Converter.getUnit, hf]

theorem convertImpl_noBest (c : Converter Rat) (q : SQuantity Rat) (u : Unit Rat) (s : System)
    (hu : unitInfo c q = some u) (hv : q.value.isText = false)
    (he : ((c.best u.pq).conversions s).entries = []) :
    convertImpl c q (.best s) = (q, .error (.bestUnitNotFound u.pq u.system)) := by
  obtain ⟨cv, hcv⟩ := ofValue_ok_of_not_text hv
  apply convertImpl_convert_error c q _ u cv _ hu hcv
  unfold Converter.convert
  simp only [getUnit_unit]
  exact convertToBest_empty c cv u s he

/-- reading a `ConvertOutcome` -/
theorem ConvertOutcome.ok_inv {c : Converter Rat} {q q' : SQuantity Rat} {to : ConvertTo Rat}
    (h : ConvertOutcome c q to (q', .ok ())) :
    ∃ u nu, unitInfo c q = some u ∧ Restated c q u q' nu ∧
      (∀ s, to = .best s → nu ∈ ((c.best u.pq).conversions s).unitsOf) ∧
      (to = .sameSystem → nu ∈ ((c.best u.pq).conversions (u.system.getD c.defaultSystem)).unitsOf) ∧
      (∀ tu, to = .unit tu → c.getUnit tu = .ok nu) := by
  cases h with
  | converted _ u nu hu hr hbest hsame hkey => exact ⟨u, nu, hu, hr, hbest, hsame, hkey⟩

theorem ConvertOutcome.error_inv {c : Converter Rat} {q q' : SQuantity Rat} {to : ConvertTo Rat}
    {e : ConvErr} (h : ConvertOutcome c q to (q', .error e)) : q' = q ∧ ConvertFailure c q to e := by
  cases h with
  | failed _ he => exact ⟨rfl, he⟩

theorem FitOutcome.ok_inv {c : Converter Rat} {q q' : SQuantity Rat}
    (h : FitOutcome c q (q', .ok ())) :
    (unitInfo c q = none ∧ q' = q) ∨
    ∃ u nu, unitInfo c q = some u ∧ Restated c q u q' nu ∧
      (nu ∈ ((c.best u.pq).conversions (u.system.getD c.defaultSystem)).unitsOf
        ∨ (u.system = none ∧ nu = u)) := by
  cases h with
  | unknown h => exact Or.inl ⟨h, rfl⟩
  | fitted _ u nu hu hr hl => exact Or.inr ⟨u, nu, hu, hr, hl⟩

theorem FitOutcome.error_inv {c : Converter Rat} {q q' : SQuantity Rat} {e : ConvErr}
    (h : FitOutcome c q (q', .error e)) : q' = q ∧ ConvertFailure c q .sameSystem e := by
  cases h with
  | failed _ he => exact ⟨rfl, he⟩

theorem ConvertFailure.not_panic {c : Converter Rat} {q : SQuantity Rat} {to : ConvertTo Rat}
    {e : ConvErr} (h : ConvertFailure c q to e) (s : PanicSite) : e ≠ .panic s := by
  cases h <;> simp

end Cook
