import CookModel.Lemmas.DiagPlaceFam
/-
  C07 placement, components WITHOUT NAME (`c07y_` prefix, wave 8): `#{}` (`empty-name:cookware`), `@{1%g}`,
  `#{2}` (a blank name and a quantity).  The tails with a blank name, then the pieces.  In the code
  (`src/parser/step.rs`) `check_empty_name` runs right after `parse_alias`, before the modifiers and the quantity,
  so `empty-name:*` comes first.
-/
set_option linter.unusedSectionVars false
set_option linter.unusedSimpArgs false
set_option linter.unusedVariables false
namespace Cook

variable {α : Type} [Arith α]

/-- the tail of a cookware item without quantity whose name text is blank -/
theorem c07y_cookwareTail_noqty_blank (start stop modPos nameOffset : Nat) (mtoks : List Tok) (body : Body)
    (note : Option Text) (s : BP α) (la : List (Ev α)) (nm : Text) (al : Option Text)
    (hA : Sat (parseAlias (α := α) "cookware" body.name nameOffset) s
      (fun r s' => Pushed la s s' ∧ r = (nm, al)))
    (hn : nm.isTextEmpty s.cs = true) (hq : body.quantity = none) (hs : SimpleMods mtoks) :
    Sat (cookwareTail (α := α) start stop modPos nameOffset mtoks body note) s (fun r s' =>
      Pushed (la ++ [.error ⟨.error, .parse, "empty-name:cookware", [nm.span]⟩] ++ dupEvs mtoks ++
        recipeModEvs mtoks) s s' ∧
      r = some (.cookware ⟨⟨simpleFlags mtoks modPos, nm, al, none, note⟩, ⟨start, stop⟩⟩)) := by
  unfold cookwareTail
  refine Sat.bind (Sat.mono hA ?_)
  rintro ⟨name, alias⟩ s5 ⟨p5, heq⟩
  cases heq
  dsimp only
  refine Sat.bind ?_
  unfold checkEmptyName
  refine Sat.bind (Sat.get ?_)
  rw [p5.1, hn]
  simp only [if_true]
  refine Sat.pushEv ?_
  have p5' := p5.trans (Pushed.one s5 (.error ⟨.error, .parse, "empty-name:cookware", [nm.span]⟩))
  refine Sat.bind ?_
  unfold cookwareQty
  rw [hq]
  refine Sat.pure ?_
  refine Sat.bind (Sat.mono (parseModifiers_simple mtoks modPos _ hs) ?_)
  rintro pm s6 ⟨rfl, p6⟩
  have hrec := simpleFlags_recipe mtoks modPos hs
  by_cases hcc : (simpleFlags mtoks modPos).val.contains Modifiers.RECIPE = true
  · simp only [hcc, if_true]
    refine Sat.bind (Sat.pure ?_)
    obtain ⟨t, htm, htk⟩ := hrec.mp hcc
    split
    · rename_i t' hfind
      refine Sat.bind (Sat.perrE ?_)
      refine Sat.pure ⟨?_, rfl⟩
      refine ((p5'.trans p6).trans (Pushed.one _ _)).cast ?_
      simp only [recipeModEvs, hfind, dupEvs]
    · rename_i hnone
      exfalso
      rw [List.find?_eq_none] at hnone
      exact hnone t htm (by simp [htk])
  · simp only [hcc, if_false, Bool.false_eq_true]
    refine Sat.bind (Sat.pure ?_)
    refine Sat.bind (Sat.pure ?_)
    refine Sat.pure ⟨?_, rfl⟩
    refine (p5'.trans p6).cast ?_
    have : mtoks.find? (fun t => t.kind == .at) = none := by
      rw [List.find?_eq_none]
      intro t ht hk
      exact hcc (hrec.mpr ⟨t, ht, by simpa using hk⟩)
    simp only [recipeModEvs, this, dupEvs, List.append_nil]

/-- an ingredient with quantity tokens `qt`, no modifiers, no alias separator, a BLANK name: the tail pushes
    `empty-name:ingredient`, then exactly what `parse_quantity qt` pushes -/
theorem c07y_ingredientTail_q_blank (start stop modPos nameOffset : Nat) (body : Body) (note : Option Text)
    (s : BP α) (qt : List Tok) (hq : body.quantity = some qt)
    (ha : s.ext.has Gen.EXT_COMPONENT_ALIAS = false ∨ ∀ t ∈ body.name, t.kind ≠ .or)
    (hn : (buildText nameOffset body.name).isTextEmpty s.cs = true)
    (l : List (Ev α)) (R : ParsedQuantity α → Prop)
    (hQ : ∀ sq : BP α, sq.cs = s.cs → sq.ext = s.ext →
      Sat (parseQuantity (α := α) qt) sq (fun r s' => Pushed l sq s' ∧ R r)) :
    Sat (ingredientTail (α := α) start stop modPos nameOffset [] body note) s (fun r s' =>
      Pushed (.error ⟨.error, .parse, "empty-name:ingredient", [(buildText nameOffset body.name).span]⟩ :: l) s s' ∧
      ∃ q, R q ∧ r = some (.ingredient ⟨⟨⟨Modifiers.empty, Span.pos modPos⟩, none, buildText nameOffset body.name,
        none, some q.quantity, note⟩, ⟨start, stop⟩⟩)) := by
  unfold ingredientTail
  refine Sat.bind (Sat.mono (parseAlias_quiet "ingredient" body.name nameOffset s ha) ?_)
  rintro ⟨name, alias⟩ s5 ⟨q5, heq⟩
  cases heq
  dsimp only
  refine Sat.bind ?_
  unfold checkEmptyName
  refine Sat.bind (Sat.get ?_)
  rw [q5.1, hn]
  simp only [if_true]
  refine Sat.pushEv ?_
  have p5' := q5.pushed.trans (Pushed.one s5
    (.error ⟨.error, .parse, "empty-name:ingredient", [(buildText nameOffset body.name).span]⟩))
  refine Sat.bind ?_
  unfold parseModifiers
  simp only [List.isEmpty_nil, if_true]
  refine Sat.pure ?_
  rw [hq]
  dsimp only
  refine Sat.bind (Sat.bind (Sat.mono (hQ _ q5.1 q5.2.1) ?_))
  rintro q s6 ⟨p6, hr⟩
  refine Sat.pure ?_
  exact Sat.pure ⟨(p5'.trans p6).cast (by simp), q, hr, rfl⟩

/-- a cookware item with quantity tokens `qt`, no modifiers, no alias separator, a BLANK name: the tail pushes
    `empty-name:cookware`, what `parse_quantity qt` pushes, then `cookware-unit` iff the quantity has a unit -/
theorem c07y_cookwareTail_q_blank (start stop modPos nameOffset : Nat) (body : Body) (note : Option Text)
    (s : BP α) (qt : List Tok) (hq : body.quantity = some qt)
    (ha : s.ext.has Gen.EXT_COMPONENT_ALIAS = false ∨ ∀ t ∈ body.name, t.kind ≠ .or)
    (hn : (buildText nameOffset body.name).isTextEmpty s.cs = true)
    (l : List (Ev α)) (R : ParsedQuantity α → Prop)
    (hQ : ∀ sq : BP α, sq.cs = s.cs → sq.ext = s.ext →
      Sat (parseQuantity (α := α) qt) sq (fun r s' => Pushed l sq s' ∧ R r)) :
    Sat (cookwareTail (α := α) start stop modPos nameOffset [] body note) s (fun r s' =>
      ∃ q, R q ∧
        Pushed (.error ⟨.error, .parse, "empty-name:cookware", [(buildText nameOffset body.name).span]⟩ ::
          (l ++ c07f_cwUnitEvs q)) s s' ∧
        r = some (.cookware ⟨⟨⟨Modifiers.empty, Span.pos modPos⟩, buildText nameOffset body.name, none,
          some ⟨q.quantity.val.value, q.quantity.span⟩, note⟩, ⟨start, stop⟩⟩)) := by
  unfold cookwareTail
  refine Sat.bind (Sat.mono (parseAlias_quiet "cookware" body.name nameOffset s ha) ?_)
  rintro ⟨name, alias⟩ s5 ⟨q5, heq⟩
  cases heq
  dsimp only
  refine Sat.bind ?_
  unfold checkEmptyName
  refine Sat.bind (Sat.get ?_)
  rw [q5.1, hn]
  simp only [if_true]
  refine Sat.pushEv ?_
  have p5' := q5.pushed.trans (Pushed.one s5
    (.error ⟨.error, .parse, "empty-name:cookware", [(buildText nameOffset body.name).span]⟩))
  refine Sat.bind ?_
  unfold cookwareQty
  rw [hq]
  dsimp only
  refine Sat.bind (Sat.mono (hQ _ q5.1 q5.2.1) ?_)
  rintro q s6 ⟨p6, hr⟩
  have h0 : Modifiers.empty.contains Modifiers.RECIPE = false := by decide
  cases hu : q.quantity.val.unit with
  | none =>
    dsimp only
    refine Sat.bind (Sat.pure ?_)
    refine Sat.pure ?_
    refine Sat.bind ?_
    unfold parseModifiers
    simp only [List.isEmpty_nil, if_true]
    refine Sat.pure ?_
    simp only [h0, Bool.false_eq_true, if_false]
    refine Sat.bind (Sat.pure ?_)
    refine Sat.bind (Sat.pure ?_)
    refine Sat.pure ⟨q, hr, ?_, rfl⟩
    exact (p5'.trans p6).cast (by simp [c07f_cwUnitEvs, hu])
  | some unit =>
    dsimp only
    refine Sat.bind (Sat.perrE ?_)
    refine Sat.pure ?_
    refine Sat.bind ?_
    unfold parseModifiers
    simp only [List.isEmpty_nil, if_true]
    refine Sat.pure ?_
    simp only [h0, Bool.false_eq_true, if_false]
    refine Sat.bind (Sat.pure ?_)
    refine Sat.bind (Sat.pure ?_)
    refine Sat.pure ⟨q, hr, ?_, rfl⟩
    refine ((p5'.trans p6).trans (Pushed.one _ _)).cast ?_
    simp only [List.nil_append, List.cons_append, List.append_assoc, c07f_cwUnitEvs, hu, cookwareUnitSpan]

/-- **a cookware item without name** (`#{}`, `# {}`, `#&{}` …): blank name tokens, blank braces, plain modifier
    tokens.  Exactly `empty-name:cookware`, labelled with the span of the (blank) name text, then one
    `duplicate-modifier` per repeated modifier token, `cookware-recipe-modifier` iff `@` is among them; then the item. -/
theorem c07y_cookware_empty_name_piece (T A rest : List Tok) (cs : CharSpec) (e : Ext) (tm : Tok)
    (ms nameT : List Tok) (tob : Tok) (Q : List Tok) (tcb : Tok)
    (hT : T = A ++ (c07p_comp tm ms nameT tob Q tcb ++ rest)) (hw : WF T)
    (sh : PlShape e .hash tm ms nameT tob Q tcb rest) (hs : SimpleMods ms)
    (hQ : ∀ t ∈ Q, isPadK t = true)
    (ha : e.has Gen.EXT_COMPONENT_ALIAS = false ∨ ∀ t ∈ nameT, t.kind ≠ .or)
    (hname : (buildText (offAt T (A.length + 1 + ms.length)) nameT).isTextEmpty cs = true) :
    PlPieceAt (α := α) T cs e A ⟨c07p_comp tm ms nameT tob Q tcb, fun evs =>
      evs = [.error ⟨.error, .parse, "empty-name:cookware",
          [(buildText (offAt T (A.length + 1 + ms.length)) nameT).span]⟩] ++ dupEvs ms ++ recipeModEvs ms ++
        [.cookware ⟨⟨simpleFlags ms (offAt T (A.length + 1)),
          buildText (offAt T (A.length + 1 + ms.length)) nameT, none, none, none⟩,
        ⟨offAt T A.length, offAt T (A.length + (c07p_comp tm ms nameT tob Q tcb).length)⟩⟩]⟩ := by
  apply c07p_piece_of_cookware T A _ rest cs e hT hw tm _ rfl sh.hk
  intro s h1 h2 h3 h4 h5
  subst h1 h2 h3
  have hrun := c07p_cookware_run s A tm ms nameT tob Q tcb rest sh hT h5
  have hbody := c07p_body_qty_none nameT tob Q tcb hQ
  have ht := c07y_cookwareTail_noqty_blank (α := α) (offAt s.toks A.length)
    (offAt s.toks (A.length + (c07p_comp tm ms nameT tob Q tcb).length))
    (offAt s.toks (A.length + 1)) (offAt s.toks (A.length + 1 + ms.length)) ms (c07p_body nameT tob Q tcb) none
    ({ s with cur := A.length + (c07p_comp tm ms nameT tob Q tcb).length } : BP α) [] _ none
    (parseAlias_quiet' "cookware" nameT _ _ ha) hname hbody hs
  unfold Sat at ht
  rw [← hrun] at ht
  obtain ⟨hpu, hr⟩ := ht
  refine ⟨_, _, hr, hpu.cast (by simp), ?_, rfl⟩
  rw [hrun]
  exact (c07p_indep_fields (Indep.cookwareTail ..) _).1

/-- **an ingredient without name but with a quantity** (`@{1%g}`, `@ {2}`): blank name tokens, no modifiers, any
    exact reading `l` / `R` of the quantity tokens.  Exactly `empty-name:ingredient` (the span of the blank name
    text), then `l`, then the ingredient carrying the quantity read. -/
theorem c07y_ingredient_empty_name_qty_piece (T A rest : List Tok) (cs : CharSpec) (e : Ext) (tm : Tok)
    (nameT : List Tok) (tob : Tok) (Q : List Tok) (tcb : Tok)
    (hT : T = A ++ (c07p_comp tm [] nameT tob Q tcb ++ rest)) (hw : WF T)
    (sh : PlShape e .at tm [] nameT tob Q tcb rest)
    (ha : e.has Gen.EXT_COMPONENT_ALIAS = false ∨ ∀ t ∈ nameT, t.kind ≠ .or)
    (hname : (buildText (offAt T (A.length + 1)) nameT).isTextEmpty cs = true)
    (hne : ∃ t ∈ Q, isPadK t = false) (l : List (Ev α)) (R : ParsedQuantity α → Prop)
    (hQ : ∀ sq : BP α, sq.cs = cs → sq.ext = e → Sat (parseQuantity (α := α) Q) sq (fun r s' => Pushed l sq s' ∧ R r)) :
    PlPieceAt T cs e A ⟨c07p_comp tm [] nameT tob Q tcb, fun evs => ∃ q : ParsedQuantity α, R q ∧
      evs = .error ⟨.error, .parse, "empty-name:ingredient", [(buildText (offAt T (A.length + 1)) nameT).span]⟩ ::
        l ++ [.ingredient ⟨⟨⟨Modifiers.empty, Span.pos (offAt T (A.length + 1))⟩, none,
        buildText (offAt T (A.length + 1)) nameT, none, some q.quantity, none⟩,
        ⟨offAt T A.length, offAt T (A.length + (c07p_comp tm [] nameT tob Q tcb).length)⟩⟩]⟩ := by
  apply c07p_piece_of_ingredient T A _ rest cs e hT hw tm _ rfl sh.hk
  intro s h1 h2 h3 h4 h5
  subst h1 h2 h3
  have hrun := c07p_ingredient_run s A tm [] nameT tob Q tcb rest sh hT h5
  have hbody := c07p_body_qty_some nameT tob Q tcb hne
  have ht := c07y_ingredientTail_q_blank (α := α) (offAt s.toks A.length)
    (offAt s.toks (A.length + (c07p_comp tm [] nameT tob Q tcb).length))
    (offAt s.toks (A.length + 1)) (offAt s.toks (A.length + 1)) (c07p_body nameT tob Q tcb) none
    ({ s with cur := A.length + (c07p_comp tm [] nameT tob Q tcb).length } : BP α) Q hbody ha hname
    l R (fun sq q1 q2 => hQ sq q1 q2)
  unfold Sat at ht
  have hrun' : ingredientP s = ingredientTail (offAt s.toks A.length)
      (offAt s.toks (A.length + (c07p_comp tm [] nameT tob Q tcb).length))
      (offAt s.toks (A.length + 1)) (offAt s.toks (A.length + 1)) [] (c07p_body nameT tob Q tcb) none
      { s with cur := A.length + (c07p_comp tm [] nameT tob Q tcb).length } := hrun
  rw [← hrun'] at ht
  obtain ⟨hpu, q, hRq, hr⟩ := ht
  refine ⟨_, _, hr, hpu, ?_, q, hRq, rfl⟩
  rw [hrun']
  exact (c07p_indep_fields (Indep.ingredientTail ..) _).1

/-- **a cookware item without name but with a quantity** (`#{2}`, `#{1%kg}`): as for the ingredient;
    `cookware-unit` after `l` iff the quantity read has a unit. -/
theorem c07y_cookware_empty_name_qty_piece (T A rest : List Tok) (cs : CharSpec) (e : Ext) (tm : Tok)
    (nameT : List Tok) (tob : Tok) (Q : List Tok) (tcb : Tok)
    (hT : T = A ++ (c07p_comp tm [] nameT tob Q tcb ++ rest)) (hw : WF T)
    (sh : PlShape e .hash tm [] nameT tob Q tcb rest)
    (ha : e.has Gen.EXT_COMPONENT_ALIAS = false ∨ ∀ t ∈ nameT, t.kind ≠ .or)
    (hname : (buildText (offAt T (A.length + 1)) nameT).isTextEmpty cs = true)
    (hne : ∃ t ∈ Q, isPadK t = false) (l : List (Ev α)) (R : ParsedQuantity α → Prop)
    (hQ : ∀ sq : BP α, sq.cs = cs → sq.ext = e → Sat (parseQuantity (α := α) Q) sq (fun r s' => Pushed l sq s' ∧ R r)) :
    PlPieceAt T cs e A ⟨c07p_comp tm [] nameT tob Q tcb, fun evs => ∃ q : ParsedQuantity α, R q ∧
      evs = .error ⟨.error, .parse, "empty-name:cookware", [(buildText (offAt T (A.length + 1)) nameT).span]⟩ ::
        (l ++ c07f_cwUnitEvs q) ++ [.cookware ⟨⟨⟨Modifiers.empty, Span.pos (offAt T (A.length + 1))⟩,
        buildText (offAt T (A.length + 1)) nameT, none, some ⟨q.quantity.val.value, q.quantity.span⟩, none⟩,
        ⟨offAt T A.length, offAt T (A.length + (c07p_comp tm [] nameT tob Q tcb).length)⟩⟩]⟩ := by
  apply c07p_piece_of_cookware T A _ rest cs e hT hw tm _ rfl sh.hk
  intro s h1 h2 h3 h4 h5
  subst h1 h2 h3
  have hrun := c07p_cookware_run s A tm [] nameT tob Q tcb rest sh hT h5
  have hbody := c07p_body_qty_some nameT tob Q tcb hne
  have ht := c07y_cookwareTail_q_blank (α := α) (offAt s.toks A.length)
    (offAt s.toks (A.length + (c07p_comp tm [] nameT tob Q tcb).length))
    (offAt s.toks (A.length + 1)) (offAt s.toks (A.length + 1)) (c07p_body nameT tob Q tcb) none
    ({ s with cur := A.length + (c07p_comp tm [] nameT tob Q tcb).length } : BP α) Q hbody ha hname
    l R (fun sq q1 q2 => hQ sq q1 q2)
  unfold Sat at ht
  have hrun' : cookwareP s = cookwareTail (offAt s.toks A.length)
      (offAt s.toks (A.length + (c07p_comp tm [] nameT tob Q tcb).length))
      (offAt s.toks (A.length + 1)) (offAt s.toks (A.length + 1)) [] (c07p_body nameT tob Q tcb) none
      { s with cur := A.length + (c07p_comp tm [] nameT tob Q tcb).length } := hrun
  rw [← hrun'] at ht
  obtain ⟨q, hRq, hpu, hr⟩ := ht
  refine ⟨_, _, hr, hpu, ?_, q, hRq, rfl⟩
  rw [hrun']
  exact (c07p_indep_fields (Indep.cookwareTail ..) _).1

/-- **an ingredient with an alias but without name** (`@|x{}`, `@ |x{}`; COMPONENT_ALIAS on, the first `|` of the
    name tokens at index `i`, the name tokens before it blank, plain modifier tokens, blank braces): the alias errors
    (`aliasEvs`), then `empty-name:ingredient` labelled with the span of the blank text before the `|`, then one
    `duplicate-modifier` per repeated modifier token; then the ingredient. -/
theorem c07y_ingredient_empty_name_alias_piece (T A rest : List Tok) (cs : CharSpec) (e : Ext) (tm : Tok)
    (ms nameT : List Tok) (tob : Tok) (Q : List Tok) (tcb : Tok) (i : Nat)
    (hT : T = A ++ (c07p_comp tm ms nameT tob Q tcb ++ rest)) (hw : WF T)
    (sh : PlShape e .at tm ms nameT tob Q tcb rest) (hs : SimpleMods ms)
    (hQ : ∀ t ∈ Q, isPadK t = true)
    (he : e.has Gen.EXT_COMPONENT_ALIAS = true) (hi : nameT.findIdx? (fun t => t.kind == .or) = some i)
    (hname : (buildText (offAt T (A.length + 1 + ms.length)) (nameT.take i)).isTextEmpty cs = true) :
    PlPieceAt (α := α) T cs e A ⟨c07p_comp tm ms nameT tob Q tcb, fun evs =>
      evs = aliasEvs "ingredient" nameT i cs ++
        [.error ⟨.error, .parse, "empty-name:ingredient",
          [(buildText (offAt T (A.length + 1 + ms.length)) (nameT.take i)).span]⟩] ++ dupEvs ms ++
        [.ingredient ⟨⟨simpleFlags ms (offAt T (A.length + 1)), none,
          buildText (offAt T (A.length + 1 + ms.length)) (nameT.take i), aliasRes nameT i cs, none, none⟩,
        ⟨offAt T A.length, offAt T (A.length + (c07p_comp tm ms nameT tob Q tcb).length)⟩⟩]⟩ := by
  apply c07p_piece_of_ingredient T A _ rest cs e hT hw tm _ rfl sh.hk
  intro s h1 h2 h3 h4 h5
  subst h1 h2 h3
  have hrun := c07p_ingredient_run s A tm ms nameT tob Q tcb rest sh hT h5
  have hbody := c07p_body_qty_none nameT tob Q tcb hQ
  have ht := c07p_ingredientTail_noqty_blank (α := α) (offAt s.toks A.length)
    (offAt s.toks (A.length + (c07p_comp tm ms nameT tob Q tcb).length))
    (offAt s.toks (A.length + 1)) (offAt s.toks (A.length + 1 + ms.length)) ms (c07p_body nameT tob Q tcb) none
    ({ s with cur := A.length + (c07p_comp tm ms nameT tob Q tcb).length } : BP α) _ _ _
    (parseAlias_sep "ingredient" nameT _ i _ he hi) hname hbody hs
  unfold Sat at ht
  rw [← hrun] at ht
  obtain ⟨hpu, hr⟩ := ht
  refine ⟨_, _, hr, hpu, ?_, rfl⟩
  rw [hrun]
  exact (c07p_indep_fields (Indep.ingredientTail ..) _).1

/-- **a cookware item with an alias but without name** (`#|x{}`): as for the ingredient, with
    `cookware-recipe-modifier` after the duplicate-modifier errors iff a `@` is among the modifiers. -/
theorem c07y_cookware_empty_name_alias_piece (T A rest : List Tok) (cs : CharSpec) (e : Ext) (tm : Tok)
    (ms nameT : List Tok) (tob : Tok) (Q : List Tok) (tcb : Tok) (i : Nat)
    (hT : T = A ++ (c07p_comp tm ms nameT tob Q tcb ++ rest)) (hw : WF T)
    (sh : PlShape e .hash tm ms nameT tob Q tcb rest) (hs : SimpleMods ms)
    (hQ : ∀ t ∈ Q, isPadK t = true)
    (he : e.has Gen.EXT_COMPONENT_ALIAS = true) (hi : nameT.findIdx? (fun t => t.kind == .or) = some i)
    (hname : (buildText (offAt T (A.length + 1 + ms.length)) (nameT.take i)).isTextEmpty cs = true) :
    PlPieceAt (α := α) T cs e A ⟨c07p_comp tm ms nameT tob Q tcb, fun evs =>
      evs = aliasEvs "cookware" nameT i cs ++
        [.error ⟨.error, .parse, "empty-name:cookware",
          [(buildText (offAt T (A.length + 1 + ms.length)) (nameT.take i)).span]⟩] ++ dupEvs ms ++
        recipeModEvs ms ++
        [.cookware ⟨⟨simpleFlags ms (offAt T (A.length + 1)),
          buildText (offAt T (A.length + 1 + ms.length)) (nameT.take i), aliasRes nameT i cs, none, none⟩,
        ⟨offAt T A.length, offAt T (A.length + (c07p_comp tm ms nameT tob Q tcb).length)⟩⟩]⟩ := by
  apply c07p_piece_of_cookware T A _ rest cs e hT hw tm _ rfl sh.hk
  intro s h1 h2 h3 h4 h5
  subst h1 h2 h3
  have hrun := c07p_cookware_run s A tm ms nameT tob Q tcb rest sh hT h5
  have hbody := c07p_body_qty_none nameT tob Q tcb hQ
  have ht := c07y_cookwareTail_noqty_blank (α := α) (offAt s.toks A.length)
    (offAt s.toks (A.length + (c07p_comp tm ms nameT tob Q tcb).length))
    (offAt s.toks (A.length + 1)) (offAt s.toks (A.length + 1 + ms.length)) ms (c07p_body nameT tob Q tcb) none
    ({ s with cur := A.length + (c07p_comp tm ms nameT tob Q tcb).length } : BP α) _ _ _
    (parseAlias_sep "cookware" nameT _ i _ he hi) hname hbody hs
  unfold Sat at ht
  rw [← hrun] at ht
  obtain ⟨hpu, hr⟩ := ht
  refine ⟨_, _, hr, hpu, ?_, rfl⟩
  rw [hrun]
  exact (c07p_indep_fields (Indep.cookwareTail ..) _).1

end Cook
