import CookModel.Lemmas.TrailInst
/-
  C17, wave 5 (tag `bl17`): `>` text paragraphs.  A trailing comment, trailing blanks or a block
  comment on a line of a paragraph DOES change the paragraph the recipe holds (finding O3 of the
  audit): it gains blanks — and nothing else.  `ParaIns` (Lemmas/TrailDoc.lean) is the insertion,
  `trail_paraIns_text` the exact change; here the three transformations are shown to be such
  insertions.
-/
set_option linter.unusedSectionVars false
set_option linter.unusedVariables false
set_option linter.unusedSimpArgs false
namespace Cook

/-- **Trailing comment / trailing blanks on a line of a paragraph**: `F` (blanks, optionally a line
    comment) appended to the body of the line `l`, which ends in a line break (the paragraph goes on)
    or is the last line without line break. -/
theorem bl17_paraIns_trailing (ws : Char → Bool) (hsp : ws ' ' = true) (L1 L2 : List PLine) (l : PLine) (F : List Tok)
    (hF : IsFiller F) (hb : ∀ t ∈ F, t.kind = .ws → ∀ c ∈ t.text, c = ' ')
    (hl : (l.nl = [] ∧ L2 = []) ∨ ∃ nl r, l.nl = nl :: r ∧ nl.kind = .newline ∧ nl.text ≠ [])
    (hne : (L1 ++ l :: L2).flatMap PLine.text ≠ []) :
    ParaIns ws (L1 ++ { l with body := l.body ++ F } :: L2) (L1 ++ l :: L2) := by
  refine ⟨L1, L2, l, l.body, F, [], rfl, by simp, by simp, trail_vis_filler ws hsp F hF hb, ?_, hne⟩
  rcases hl with ⟨h1, h2⟩ | ⟨nl, r, h1, hk, ht⟩
  · left; simp [h1, h2]
  · right; left
    refine ⟨' ', r.flatMap vis ++ L2.flatMap PLine.text, ?_, hsp⟩
    simp [h1, vis, hk, ht]

/-- **Block comment between two words of a paragraph line**: behind a whitespace token `w` of
    blanks, the comment and a further whitespace token (`F`) are inserted. -/
theorem bl17_paraIns_blockComment (ws : Char → Bool) (hsp : ws ' ' = true) (L1 L2 : List PLine) (l : PLine)
    (b1 : List Tok) (w : Tok) (F b2 : List Tok) (hbody : l.body = (b1 ++ [w]) ++ b2)
    (hw : w.kind = .ws) (hwt : w.text ≠ []) (hwb : ∀ c ∈ w.text, c = ' ')
    (hF : IsFiller F) (hb : ∀ t ∈ F, t.kind = .ws → ∀ c ∈ t.text, c = ' ')
    (hne : (L1 ++ l :: L2).flatMap PLine.text ≠ []) :
    ParaIns ws (L1 ++ { l with body := (b1 ++ [w]) ++ F ++ b2 } :: L2) (L1 ++ l :: L2) := by
  refine ⟨L1, L2, l, b1 ++ [w], F, b2, rfl, hbody, rfl, trail_vis_filler ws hsp F hF hb, ?_, hne⟩
  refine Or.inr (Or.inr ?_)
  rcases List.eq_nil_or_concat w.text with h0 | ⟨r, c, hr⟩
  · exact absurd h0 hwt
  · have hr' : w.text = r ++ [c] := by simpa using hr
    refine ⟨L1.flatMap PLine.text ++ b1.flatMap vis ++ r, c, ?_, ?_⟩
    · simp [vis, hw, hr']
    · rw [hwb c (by rw [hr']; simp)]; exact hsp

/-- one paragraph of a document changed, the other blocks as they were -/
theorem bl17_itemIns_para (ws : Char → Bool) (D1 D2 : List DocItem) (lines' lines : List PLine)
    (h : ParaIns ws lines' lines) : LRel (ItemIns ws) (D1 ++ .para lines' :: D2) (D1 ++ .para lines :: D2) := by
  have hrefl : ∀ D : List DocItem, LRel (ItemIns ws) D D := LRel.refl_of (fun _ => Or.inl rfl)
  exact (hrefl D1).append (.cons (Or.inr (Or.inr ⟨lines', lines, rfl, rfl, h⟩)) (hrefl D2))

end Cook
