import CookModel.Lemmas.RoundtripSectionsRefs
/-
  C01, analysis layer for documents with ingredient references `&name`, cookware references `#&name`
  and intermediate-preparation references `&(~1)` / `&(=2)`.  The intended result is a PURE function
  (`xRun`) of a list of "described" blocks (`XBlock`): an item is described by what the analysis reads
  of it (the written ingredient `ingrOf`, its intermediate data, …), so that the same function serves
  for parsed events (this file) and for the abstract document (Lemmas/RoundtripDocRefs.lean).
  (`rtax_` prefix.)
-/
set_option linter.unusedSectionVars false
set_option linter.unusedSimpArgs false
set_option linter.unusedVariables false
namespace Cook

variable {α : Type} [Arith α]

/-! ### described items and blocks -/

/-- a step item as the analysis reads it: the shown text; the ingredient as written (`ingrOf`) with its
    intermediate data; the cookware item as written; the timer -/
inductive XItem (α : Type) where
  | text (s : Str)
  | ingr (inter : Option InterData) (igr0 : Ingredient (ScalableValue α))
  | cw (cw0 : Cookware (ScalableValue α))
  | timer (t : Timer (ScalableValue α))

/-- a block as the analysis reads it: a step; a section line (trimmed name); a plain `>>` entry (trimmed
    key, outer-trimmed value); a text paragraph (its joined text); a components-mode region -/
inductive XBlock (α : Type) where
  | step (items : List (XItem α))
  | sect (name : Option Str)
  | entry (k v : Str)
  | para (s : Str)
  /-- a region written in components mode (`>> [mode]: components` … `>> [mode]: all`): the items of its steps -/
  | comps (items : List (XItem α))

/-- the three component tables -/
structure XTbls (α : Type) where
  ing : Array (Ingredient (ScalableValue α)) := #[]
  cw : Array (Cookware (ScalableValue α)) := #[]
  tm : Array (Timer (ScalableValue α)) := #[]

/-- what one ingredient event does to the table.  With intermediate data: the ingredient is appended
    with the relation `resolve_intermediate_ref` computes against the content of the current section and
    the number of finished sections (as written when it does not resolve).  Otherwise as `ingrPush`: a
    component carrying REF whose name has an earlier non-REF definition becomes a reference to the last
    such definition, which lists it back; everything else is appended as written. -/
def ingrPushG (env : Env) (content : List Content) (nsec : Nat) (tbl : Array (Ingredient (ScalableValue α)))
    (inter : Option InterData) (igr0 : Ingredient (ScalableValue α)) : Array (Ingredient (ScalableValue α)) :=
  match inter with
  | some d =>
    match interRefTarget content nsec d with
    | .ok rel => tbl.push { igr0 with relation := rel }
    | .error _ => tbl.push igr0
  | none =>
    if igr0.modifiers.contains Modifiers.REF then
      match sameNameIdx env (tbl.toList.map (fun x => (x.name, x.modifiers))) igr0.name with
      | some t =>
        match tbl[t]? with
        | some defn =>
          match defn.relation with
          | ⟨.definition rf b, tg⟩ =>
            (tbl.setIfInBounds t (backlinked defn rf tbl.size b tg)).push (asReference igr0 defn.modifiers t)
          | _ => tbl.push igr0
        | none => tbl.push igr0
      | none => tbl.push igr0
    else tbl.push igr0

/-- what one cookware event does to the table (`cwResolve`) -/
def cwPushG (env : Env) (tbl : Array (Cookware (ScalableValue α))) (cw0 : Cookware (ScalableValue α)) :
    Array (Cookware (ScalableValue α)) :=
  if cw0.modifiers.contains Modifiers.REF then
    match sameNameIdx env (tbl.toList.map (fun x => (x.name, x.modifiers))) cw0.name with
    | some t =>
      match tbl[t]? with
      | some defn =>
        match defn.relation with
        | .definition rf b => (tbl.setIfInBounds t (cwBacklinked defn rf tbl.size b)).push (cwAsReference cw0 defn.modifiers t)
        | _ => tbl.push cw0
      | none => tbl.push cw0
    | none => tbl.push cw0
  else tbl.push cw0

theorem rtax_ingrPushG_size (env : Env) (content : List Content) (nsec : Nat) (tbl : Array (Ingredient (ScalableValue α)))
    (inter : Option InterData) (igr0 : Ingredient (ScalableValue α)) :
    (ingrPushG env content nsec tbl inter igr0).size = tbl.size + 1 := by
  unfold ingrPushG
  repeat' split
  all_goals simp

theorem rtax_cwPushG_size (env : Env) (tbl : Array (Cookware (ScalableValue α))) (cw0 : Cookware (ScalableValue α)) :
    (cwPushG env tbl cw0).size = tbl.size + 1 := by
  unfold cwPushG
  repeat' split
  all_goals simp

/-- the tables after an item, inside a step of a section whose content so far is `content`, after `nsec`
    finished sections -/
def xPush (env : Env) (content : List Content) (nsec : Nat) (T : XTbls α) : XItem α → XTbls α
  | .text _ => T
  | .ingr inter igr0 => { T with ing := ingrPushG env content nsec T.ing inter igr0 }
  | .cw cw0 => { T with cw := cwPushG env T.cw cw0 }
  | .timer t => { T with tm := T.tm.push t }

/-- the step item: a component item carries the size of its table (the number of components of its kind
    before it in the whole document) -/
def xToItem (T : XTbls α) : XItem α → Item
  | .text s => .text s
  | .ingr _ _ => .ingredient T.ing.size
  | .cw _ => .cookware T.cw.size
  | .timer _ => .timer T.tm.size

def xItems (env : Env) (content : List Content) (nsec : Nat) : XTbls α → List (XItem α) → List Item
  | _, [] => []
  | T, it :: r => xToItem T it :: xItems env content nsec (xPush env content nsec T it) r

def xStepTbls (env : Env) (content : List Content) (nsec : Nat) (T : XTbls α) (st : List (XItem α)) : XTbls α :=
  st.foldl (xPush env content nsec) T

/-- the tables after a component DEFINED IN COMPONENTS MODE: appended as written, `defined_in_step = false` -/
def xCPush (T : XTbls α) : XItem α → XTbls α
  | .text _ => T
  | .ingr _ igr0 => { T with ing := T.ing.push { igr0 with relation := ⟨.definition [] false, none⟩ } }
  | .cw cw0 => { T with cw := T.cw.push { cw0 with relation := .definition [] false } }
  | .timer t => { T with tm := T.tm.push t }

def xCTbls (T : XTbls α) (st : List (XItem α)) : XTbls α := st.foldl xCPush T

/-! ### the conditions on references -/

/-- a correctly written regular ingredient reference, relative to the table of the ingredients before it:
    `&` and not `+`; ADVANCED_UNITS off; no note; the name has an earlier non-REF definition — the last
    one, at `t` — which is a definition; no modifier that definition lacks (HIDDEN, OPT, RECIPE are
    inherited); not an amount on both when the definition is outside a step; the amounts agree in being
    text or not -/
structure IngrRefOKG (env : Env) (tbl : Array (Ingredient (ScalableValue α))) (igr0 : Ingredient (ScalableValue α)) :
    Prop where
  ref : igr0.modifiers.contains Modifiers.REF = true
  notNew : igr0.modifiers.contains Modifiers.NEW = false
  adv : env.ext.has Gen.EXT_ADVANCED_UNITS = false
  note : igr0.note = none
  target : ∃ t defn rf b tg,
    sameNameIdx env (tbl.toList.map (fun x => (x.name, x.modifiers))) igr0.name = some t ∧
    tbl[t]? = some defn ∧ defn.relation = ⟨.definition rf b, tg⟩ ∧
    refConflict igr0.modifiers
      ⟨defn.modifiers.bits &&& (Modifiers.HIDDEN ||| Modifiers.OPT ||| Modifiers.RECIPE)⟩ = 0 ∧
    (defn.quantity.isSome && igr0.quantity.isSome && !b) = false ∧
    ∀ rq dq, igr0.quantity = some rq → defn.quantity = some dq → rq.value.val.isText = dq.value.val.isText

/-- the conditions on an ingredient.  With intermediate data: `&` is there, none of `@`, `-`, `+`
    (RECIPE, HIDDEN, NEW), the number is not negative and the target exists.  Without: a plain definition
    or a correctly written reference. -/
def IngrOKG (env : Env) (content : List Content) (nsec : Nat) (tbl : Array (Ingredient (ScalableValue α)))
    (inter : Option InterData) (igr0 : Ingredient (ScalableValue α)) : Prop :=
  match inter with
  | some d =>
    igr0.modifiers.contains Modifiers.REF = true ∧
    igr0.modifiers.bits &&& (Modifiers.RECIPE ||| Modifiers.HIDDEN ||| Modifiers.NEW) = 0 ∧
    0 ≤ d.val ∧ ∃ rel, interRefTarget content nsec d = .ok rel
  | none => plainMods igr0.modifiers ∨ IngrRefOKG env tbl igr0

structure CwRefOKG (env : Env) (tbl : Array (Cookware (ScalableValue α))) (cw0 : Cookware (ScalableValue α)) : Prop where
  ref : cw0.modifiers.contains Modifiers.REF = true
  notNew : cw0.modifiers.contains Modifiers.NEW = false
  note : cw0.note = none
  target : ∃ t defn rf b,
    sameNameIdx env (tbl.toList.map (fun x => (x.name, x.modifiers))) cw0.name = some t ∧
    tbl[t]? = some defn ∧ defn.relation = .definition rf b ∧
    refConflict cw0.modifiers ⟨defn.modifiers.bits &&& (Modifiers.HIDDEN ||| Modifiers.OPT)⟩ = 0 ∧
    (defn.quantity.isSome && cw0.quantity.isSome && !b) = false ∧
    ∀ rq dq, cw0.quantity = some rq → defn.quantity = some dq → rq.val.isText = dq.val.isText

def CwOKG (env : Env) (tbl : Array (Cookware (ScalableValue α))) (cw0 : Cookware (ScalableValue α)) : Prop :=
  plainMods cw0.modifiers ∨ CwRefOKG env tbl cw0

def xOKAt (env : Env) (content : List Content) (nsec : Nat) (T : XTbls α) : XItem α → Prop
  | .ingr inter igr0 => IngrOKG env content nsec T.ing inter igr0
  | .cw cw0 => CwOKG env T.cw cw0
  | _ => True

/-- the items of a step, each checked against the tables of the components before it -/
def xItemsOK (env : Env) (content : List Content) (nsec : Nat) : XTbls α → List (XItem α) → Prop
  | _, [] => True
  | T, it :: r => xOKAt env content nsec T it ∧ xItemsOK env content nsec (xPush env content nsec T it) r

/-! ### the intended result -/

structure XRes (α : Type) where
  secs : List Section
  T : XTbls α
  metaMap : List (Str × Str)

/-- the content a text paragraph adds -/
def xParaContent (s : Str) : List Content := if s.isEmpty then [] else [.text s]

/-- the recipe of a described document, reading the blocks in order: `T` the tables, `secs` the finished
    sections, `cur` the section being filled, `num` the number of its next step, `m` the `>>` map -/
def xRun (env : Env) : XTbls α → List Section → Section → Nat → List (Str × Str) → List (XBlock α) → XRes α
  | T, secs, cur, _, m, [] => ⟨secs ++ (if cur.isEmpty then [] else [cur]), T, m⟩
  | T, secs, cur, num, m, .step st :: r =>
    xRun env (xStepTbls env cur.content secs.length T st) secs
      ⟨cur.name, cur.content ++ [.step ⟨xItems env cur.content secs.length T st, num⟩]⟩ (num + 1) m r
  | T, secs, cur, _, m, .sect name :: r =>
    xRun env T (secs ++ (if cur.isEmpty then [] else [cur])) ⟨name, []⟩ 1 m r
  | T, secs, cur, num, m, .entry k v :: r => xRun env T secs cur num (metaInsert m k v) r
  | T, secs, cur, num, m, .para s :: r => xRun env T secs ⟨cur.name, cur.content ++ xParaContent s⟩ num m r
  | T, secs, cur, num, m, .comps st :: r => xRun env (xCTbls T st) secs cur num m r

/-- the conditions on the references of a described document, threaded as `xRun` -/
def xOK (env : Env) : XTbls α → List Section → Section → Nat → List (XBlock α) → Prop
  | _, _, _, _, [] => True
  | T, secs, cur, num, .step st :: r =>
    xItemsOK env cur.content secs.length T st ∧ st ≠ [] ∧
    xOK env (xStepTbls env cur.content secs.length T st) secs
      ⟨cur.name, cur.content ++ [.step ⟨xItems env cur.content secs.length T st, num⟩]⟩ (num + 1) r
  | T, secs, cur, _, .sect name :: r => xOK env T (secs ++ (if cur.isEmpty then [] else [cur])) ⟨name, []⟩ 1 r
  | T, secs, cur, num, .entry _ _ :: r => xOK env T secs cur num r
  | T, secs, cur, num, .para s :: r => xOK env T secs ⟨cur.name, cur.content ++ xParaContent s⟩ num r
  | T, secs, cur, num, .comps st :: r => xOK env (xCTbls T st) secs cur num r

/-! ### parsed items and blocks, described -/

def SItem.x (env : Env) : SItem α → XItem α
  | .text t => .text t.text
  | .ingredient li => .ingr (li.val.inter.map (·.val)) (ingrOf env li)
  | .cookware lc => .cw (cwOf env lc)
  | .timer lt => .timer (timerOf env lt)

def SBlock.x (env : Env) : SBlock α → XBlock α
  | .step st => .step (st.map (SItem.x env))
  | .sect name => .sect (name.map (·.trimmed env.cs))
  | .entry k v => .entry (k.trimmed env.cs) (v.outerTrimmed env.cs)
  | .para ts => .para (ts.flatMap (·.text))

/-- the side conditions of an item that do not depend on the tables: no warning from a scaling lock; a
    text without inline quantity under INLINE_QUANTITIES; a timer that ADVANCED_UNITS accepts -/
def SItem.SideOK (env : Env) : SItem α → Prop
  | .text t => TextInlOK (α := α) env t
  | .ingredient i => ∀ q, i.val.quantity = some q → lockOK q.val.value true
  | .cookware c => ∀ q, c.val.quantity = some q → lockOK q.val false
  | .timer t => TimerSimple t ∧ TimerAdvOK env t

def SBlock.SideOK (env : Env) : SBlock α → Prop
  | .step st => ∀ it ∈ st, it.SideOK env
  | .sect _ => True
  | .entry k v => EntryPlain env k v
  | .para _ => True

/-! ### the intermediate branch of `ingredient` -/

theorem rtax_ingrInter (i : PIngredient α) (igr0 : Ingredient (ScalableValue α)) (d : Loc InterData) (s : Col α)
    (rel : IngredientRelation) (hREF : igr0.modifiers.contains Modifiers.REF = true)
    (hvalid : igr0.modifiers.bits &&& (Modifiers.RECIPE ||| Modifiers.HIDDEN ||| Modifiers.NEW) = 0)
    (hnn : 0 ≤ d.val.val) (ht : interRefTarget s.cur.content s.sections.length d.val = .ok rel) :
    ingrInter i igr0 d s = ({ igr0 with relation := rel }, s) := by
  have hneg : ¬ d.val.val < 0 := by omega
  unfold ingrInter ingrInterChecks resolveInterRef
  simp [bind, StateT.bind, pure, StateT.pure, get, getThe, MonadStateOf.get, StateT.get, hREF, hvalid, ht, hneg]

/-- an ingredient with a resolvable intermediate reference inside a step block, define mode `all`: the
    ingredient is appended as written with the resolved relation; nothing is reported -/
theorem rtax_proc_ingredient_inter (env : Env) (input : Str) (li : Loc (PIngredient α)) (s : Col α) (items : List Item)
    (d : Loc InterData) (rel : IngredientRelation)
    (hd : s.defineMode = .all) (hb : s.block = some (.step items)) (hinter : li.val.inter = some d)
    (hlock : ∀ q, li.val.quantity = some q → lockOK q.val.value true)
    (hREF : li.val.modifiers.val.contains Modifiers.REF = true)
    (hvalid : li.val.modifiers.val.bits &&& (Modifiers.RECIPE ||| Modifiers.HIDDEN ||| Modifiers.NEW) = 0)
    (hnn : 0 ≤ d.val.val) (ht : interRefTarget s.cur.content s.sections.length d.val = .ok rel) :
    (processEvent env input (.ingredient li) s).2 =
      { s with
        locIngr := s.locIngr.push li,
        ingredients := s.ingredients.push { ingrOf env li with relation := rel },
        block := some (.step (items ++ [.ingredient s.ingredients.size])) } := by
  have e : processEvent env input (.ingredient li) s = inBlockComponent env input (.ingredient li) s := rfl
  rw [e, rta_inBlock_step env input _ s items hb]
  have hne : (DefineMode.all != DefineMode.components) = true := by decide
  have hA : ingredientA env input li s =
      (s.ingredients.size,
       { s with locIngr := s.locIngr.push li,
                ingredients := s.ingredients.push { ingrOf env li with relation := rel } }) := by
    unfold ingredientA
    simp only [bind, StateT.bind, rta_optQuantityOf env _ true s hlock, get, getThe, MonadStateOf.get, StateT.get, pure,
      StateT.pure, hd, hne]
    unfold ingrBuild
    simp only [hinter, bind, StateT.bind]
    rw [rtax_ingrInter li.val _ d s rel hREF hvalid hnn ht]
    simp only [get, getThe, MonadStateOf.get, StateT.get, pure, StateT.pure, modify, modifyGet, MonadStateOf.modifyGet,
      StateT.modifyGet, Array.size_push, Nat.add_sub_cancel]
    simp only [ingrOf, hd]
    rfl
  simp only [inStepComponent, bind, StateT.bind, hA]
  rw [rta_pushItem _ _ items (by exact hb)]

/-! ### the state of the collector -/

/-- the collector after the items `before`, on top of `base` (sections pushed so far, name of the current
    section, metadata, diagnostics, modes), with the tables `T` -/
def stOfT (base : Col α) (before : List (SItem α)) (T : XTbls α) (content : List Content) (counter : Nat)
    (block : Option BlockBuf) : Col α :=
  { base with
    cur := ⟨base.cur.name, content⟩,
    ingredients := T.ing,
    cookware := T.cw,
    timers := T.tm,
    locIngr := (ingrsOf before).toArray,
    locCw := (cwsOf before).toArray,
    stepCounter := counter,
    block := block }

/-- the tables have one entry per component read so far -/
def TblsFit (before : List (SItem α)) (T : XTbls α) : Prop :=
  T.ing.size = (ingrsOf before).length ∧ T.cw.size = (cwsOf before).length

theorem rtax_fit_push (env : Env) (content : List Content) (nsec : Nat) (before : List (SItem α)) (T : XTbls α)
    (h : TblsFit before T) (it : SItem α) : TblsFit (before ++ [it]) (xPush env content nsec T (it.x env)) := by
  obtain ⟨h1, h2⟩ := h
  cases it <;>
    simp [TblsFit, SItem.x, xPush, ingrsOf, cwsOf, SItem.ingr?, SItem.cw?, rtax_ingrPushG_size, rtax_cwPushG_size, h1, h2]

theorem rtax_item (env : Env) (input : Str) (base : Col α) (hb : BaseOK base) (it : SItem α)
    (before : List (SItem α)) (T : XTbls α) (hfit : TblsFit before T) (content : List Content) (n : Nat)
    (hside : it.SideOK env) (h : xOKAt env content base.sections.length T (it.x env)) (items : List Item) :
    (processEvent env input it.ev (stOfT base before T content n (some (.step items)))).2 =
      stOfT base (before ++ [it]) (xPush env content base.sections.length T (it.x env)) content n
        (some (.step (items ++ [xToItem T (it.x env)]))) := by
  have hd : (stOfT base before T content n (some (.step items))).defineMode = .all := hb.1
  have hdup : (stOfT base before T content n (some (.step items))).duplicateMode = .new := hb.2
  obtain ⟨hf1, hf2⟩ := hfit
  cases it with
  | text t =>
    rw [SItem.ev, rts_proc_text env input t _ items hside hd rfl]
    simp [stOfT, SItem.x, xPush, xToItem, ingrsOf, cwsOf, SItem.ingr?, SItem.cw?, List.filterMap]
  | ingredient li =>
    have hsnoc : ingrsOf (before ++ [SItem.ingredient li]) = ingrsOf before ++ [li] := by
      simp [ingrsOf, SItem.ingr?]
    have hcsnoc : cwsOf (before ++ [SItem.ingredient li]) = cwsOf before := by
      simp [cwsOf, SItem.cw?]
    simp only [SItem.x, xOKAt] at h
    cases hin : li.val.inter with
    | some d =>
      rw [hin] at h
      simp only [Option.map_some, IngrOKG] at h
      obtain ⟨h1, h2, h3, rel, h4⟩ := h
      rw [SItem.ev, rtax_proc_ingredient_inter env input li _ items d rel hd rfl hin hside h1 h2 h3 h4]
      simp only [stOfT, SItem.x, xPush, xToItem, hsnoc, hcsnoc, hin, Option.map_some, ingrPushG, h4]
      simp
    | none =>
      rw [hin] at h
      simp only [Option.map_none, IngrOKG] at h
      rcases h with h | h
      · rw [SItem.ev, rta_proc_ingredient env input li _ items ⟨hin, h, hside⟩ hd hdup rfl]
        have hnr : (ingrOf env li).modifiers.contains Modifiers.REF = false := h.2
        simp only [stOfT, SItem.x, xPush, xToItem, hsnoc, hcsnoc, hin, Option.map_none, ingrPushG, hnr]
        simp
      · obtain ⟨t, defn, rf, b, tg, h1, h2, h3, h4, h5, h6⟩ := h.target
        have hlt : t < (ingrsOf before).length := by
          rcases Nat.lt_or_ge t T.ing.size with hh | hh
          · rw [hf1] at hh; exact hh
          · rw [Array.getElem?_eq_none hh] at h2; cases h2
        have hloc : (stOfT base before T content n (some (.step items))).locIngr[t]? = some ((ingrsOf before)[t]'hlt) := by
          simp [stOfT, hlt]
        have hnote : li.val.note = none := by
          have := h.note
          simp only [ingrOf] at this
          cases hn : li.val.note with
          | none => rfl
          | some x => rw [hn] at this; cases this
        rw [SItem.ev, rtf_proc_ingredient_ref env input li _ items t defn _ rf b tg hd hdup rfl hin hside h.ref h.notNew
          h1 h2 hloc h3 h4 ⟨h.adv, hnote, h5, h6⟩]
        have hr : (ingrOf env li).modifiers.contains Modifiers.REF = true := h.ref
        simp only [stOfT, SItem.x, xPush, xToItem, hsnoc, hcsnoc, hin, Option.map_none, ingrPushG, hr, if_true, h1, h2, h3]
        simp
  | cookware lc =>
    have hsnoc : cwsOf (before ++ [SItem.cookware lc]) = cwsOf before ++ [lc] := by
      simp [cwsOf, SItem.cw?]
    have hisnoc : ingrsOf (before ++ [SItem.cookware lc]) = ingrsOf before := by
      simp [ingrsOf, SItem.ingr?]
    simp only [SItem.x, xOKAt, CwOKG] at h
    rcases h with h | h
    · rw [SItem.ev, rta_proc_cookware env input lc _ items ⟨h, hside⟩ hd hdup rfl]
      have hnr : (cwOf env lc).modifiers.contains Modifiers.REF = false := h.2
      simp only [stOfT, SItem.x, xPush, xToItem, hsnoc, hisnoc, cwPushG, hnr]
      simp
    · obtain ⟨t, defn, rf, b, h1, h2, h3, h4, h5, h6⟩ := h.target
      have hlt : t < (cwsOf before).length := by
        rcases Nat.lt_or_ge t T.cw.size with hh | hh
        · rw [hf2] at hh; exact hh
        · rw [Array.getElem?_eq_none hh] at h2; cases h2
      have hloc : (stOfT base before T content n (some (.step items))).locCw[t]? = some ((cwsOf before)[t]'hlt) := by
        simp [stOfT, hlt]
      have hnote : lc.val.note = none := by
        have := h.note
        simp only [cwOf] at this
        cases hn : lc.val.note with
        | none => rfl
        | some x => rw [hn] at this; cases this
      rw [SItem.ev, rtf_proc_cookware_ref env input lc _ items t defn _ rf b hd hdup rfl hside h.ref h.notNew
        h1 h2 hloc h3 h4 ⟨hnote, h5, h6⟩]
      have hr : (cwOf env lc).modifiers.contains Modifiers.REF = true := h.ref
      simp only [stOfT, SItem.x, xPush, xToItem, hsnoc, hisnoc, cwPushG, hr, if_true, h1, h2, h3]
      simp
  | timer lt =>
    rw [SItem.ev, rts_proc_timer env input lt _ items hside.1 hside.2 rfl]
    simp [stOfT, SItem.x, xPush, xToItem, ingrsOf, cwsOf, SItem.ingr?, SItem.cw?, List.filterMap]

theorem rtax_loop_items (env : Env) (input : Str) (base : Col α) (hb : BaseOK base) (rest : List (Ev α))
    (content : List Content) (n : Nat) :
    ∀ (st : List (SItem α)) (before : List (SItem α)) (T : XTbls α), TblsFit before T →
      (∀ it ∈ st, it.SideOK env) → xItemsOK env content base.sections.length T (st.map (SItem.x env)) →
      ∀ (items : List Item),
      parseEventsLoop env input (st.map SItem.ev ++ rest) (stOfT base before T content n (some (.step items))) =
        parseEventsLoop env input rest
          (stOfT base (before ++ st) (xStepTbls env content base.sections.length T (st.map (SItem.x env))) content n
            (some (.step (items ++ xItems env content base.sections.length T (st.map (SItem.x env)))))) ∧
      TblsFit (before ++ st) (xStepTbls env content base.sections.length T (st.map (SItem.x env))) := by
  intro st
  induction st with
  | nil => intro before T hfit _ _ items; simp [xItems, xStepTbls, hfit]
  | cons it r ih =>
    intro before T hfit hside hs items
    simp only [List.map_cons, xItemsOK] at hs
    obtain ⟨i1, i2⟩ := ih (before ++ [it]) (xPush env content base.sections.length T (it.x env))
      (rtax_fit_push env content base.sections.length before T hfit it) (fun x hx => hside x (by simp [hx])) hs.2
      (items ++ [xToItem T (it.x env)])
    refine ⟨?_, by simpa [xStepTbls, List.append_assoc] using i2⟩
    rw [List.map_cons, List.cons_append, parseEventsLoop_cons_nonerror env input _ _ _ (rta_ev_not_error it),
      rtax_item env input base hb it before T hfit content n (hside it (by simp)) hs.1, i1]
    simp [xItems, xStepTbls, List.append_assoc]

theorem rtax_start (env : Env) (input : Str) (base : Col α) (hb : BaseOK base) (before : List (SItem α)) (T : XTbls α)
    (content : List Content) (n : Nat) :
    (processEvent env input (.start .step) (stOfT base before T content n none)).2 =
      stOfT base before T content n (some (.step [])) := by
  simp [processEvent, modify, modifyGet, MonadStateOf.modifyGet, StateT.modifyGet, stOfT, pure, StateT.pure, hb.1]

theorem rtax_stop (env : Env) (input : Str) (base : Col α) (hb : BaseOK base) (before : List (SItem α)) (T : XTbls α)
    (content : List Content) (n : Nat) (items : List Item) (hne : items ≠ []) :
    (processEvent env input (.stop .step) (stOfT base before T content n (some (.step items)))).2 =
      stOfT base before T (content ++ [.step ⟨items, n⟩]) (n + 1) none := by
  have hne' : items.isEmpty = false := by cases items <;> simp_all
  simp [processEvent, endBlock, endBlockContent, pushContent, Content.isStep, Content.isEmptyContent, hne', bind,
    StateT.bind, get, getThe, MonadStateOf.get, StateT.get, pure, StateT.pure, modify, modifyGet,
    MonadStateOf.modifyGet, StateT.modifyGet, stOfT, hb.1]

theorem rtax_xItems_ne (env : Env) (content : List Content) (nsec : Nat) (T : XTbls α) (st : List (XItem α))
    (h : st ≠ []) : xItems env content nsec T st ≠ [] := by
  cases st with
  | nil => exact absurd rfl h
  | cons a r => simp [xItems]

/-- one step block -/
theorem rtax_loop_step (env : Env) (input : Str) (base : Col α) (hb : BaseOK base) (rest : List (Ev α))
    (st : List (SItem α)) (before : List (SItem α)) (T : XTbls α) (hfit : TblsFit before T)
    (hside : ∀ it ∈ st, it.SideOK env) (content : List Content) (n : Nat)
    (hs : xItemsOK env content base.sections.length T (st.map (SItem.x env))) (hne : st ≠ []) :
    parseEventsLoop env input (stepEvents st ++ rest) (stOfT base before T content n none) =
      parseEventsLoop env input rest
        (stOfT base (before ++ st) (xStepTbls env content base.sections.length T (st.map (SItem.x env)))
          (content ++ [.step ⟨xItems env content base.sections.length T (st.map (SItem.x env)), n⟩]) (n + 1) none) ∧
    TblsFit (before ++ st) (xStepTbls env content base.sections.length T (st.map (SItem.x env))) := by
  have e : stepEvents st ++ rest = Ev.start .step :: (st.map SItem.ev ++ (Ev.stop .step :: rest)) := by
    simp [stepEvents]
  obtain ⟨i1, i2⟩ := rtax_loop_items env input base hb (Ev.stop .step :: rest) content n st before T hfit hside hs []
  refine ⟨?_, i2⟩
  have hne' : st.map (SItem.x env) ≠ [] := by simpa using hne
  rw [e, parseEventsLoop_cons_nonerror env input _ _ _ (by rintro ⟨d, h⟩; cases h), rtax_start env input base hb, i1,
    parseEventsLoop_cons_nonerror env input _ _ _ (by rintro ⟨d, h⟩; cases h), List.nil_append,
    rtax_stop env input base hb _ _ content n _ (rtax_xItems_ne env content _ T _ hne')]

theorem rtax_section (env : Env) (input : Str) (base : Col α) (name : Option Text) (before : List (SItem α)) (T : XTbls α)
    (content : List Content) (n : Nat) :
    (processEvent env input (.section name) (stOfT base before T content n none)).2 =
      stOfT
        { base with sections := base.sections ++ (if (Section.isEmpty ⟨base.cur.name, content⟩) then [] else
                                  [⟨base.cur.name, content⟩]),
                    cur := ⟨name.map (·.trimmed env.cs), []⟩ } before T [] 1 none := by
  by_cases h : Section.isEmpty ⟨base.cur.name, content⟩ = true <;>
    simp [processEvent, modify, modifyGet, MonadStateOf.modifyGet, StateT.modifyGet, stOfT, pure, StateT.pure, h]

theorem rtax_entryEffect_stOfT (env : Env) (k v : Text) (base : Col α) (before : List (SItem α)) (T : XTbls α)
    (content : List Content) (n : Nat) (block : Option BlockBuf) :
    entryEffect env k v (stOfT base before T content n block) =
      stOfT (entryEffect env k v base) before T content n block := by
  unfold entryEffect
  cases StdKey.ofStr (String.ofList (k.trimmed env.cs)) <;> simp [stOfT]

theorem rtax_entry (env : Env) (input : Str) (base : Col α) (k v : Text) (h : EntryPlain env k v)
    (before : List (SItem α)) (T : XTbls α) (content : List Content) (n : Nat) :
    (processEvent env input (.metadata k v) (stOfT base before T content n none)).2 =
      stOfT (entryEffect env k v base) before T content n none := by
  have e : processEvent env input (.metadata k v) (stOfT base before T content n none) =
      metadataA env k v (stOfT base before T content n none) := rfl
  rw [e, rts_metadataA_plain env k v _ h, rtax_entryEffect_stOfT]

theorem rtax_para_texts (env : Env) (input : Str) (base : Col α) (rest : List (Ev α)) (before : List (SItem α))
    (T : XTbls α) (content : List Content) (n : Nat) :
    ∀ (ts : List Text) (buf : Str),
      parseEventsLoop env input (ts.map Ev.text ++ rest) (stOfT base before T content n (some (.text buf))) =
        parseEventsLoop env input rest (stOfT base before T content n (some (.text (buf ++ ts.flatMap (·.text))))) := by
  intro ts
  induction ts with
  | nil => intro buf; simp
  | cons t r ih =>
    intro buf
    have hstep : (processEvent env input (.text t) (stOfT base before T content n (some (.text buf)))).2 =
        stOfT base before T content n (some (.text (buf ++ t.text))) := by
      have e : processEvent env input (.text t) (stOfT base before T content n (some (.text buf))) =
          inStepText env t (stOfT base before T content n (some (.text buf))) := rfl
      rw [e]
      unfold inStepText
      simp [bind, StateT.bind, get, getThe, MonadStateOf.get, StateT.get, pure, StateT.pure, stOfT, modify, modifyGet,
        MonadStateOf.modifyGet, StateT.modifyGet]
    rw [List.map_cons, List.cons_append, parseEventsLoop_cons_nonerror env input _ _ _ (by rintro ⟨d, h⟩; cases h), hstep,
      ih]
    simp [List.append_assoc]

theorem rtax_para (env : Env) (input : Str) (base : Col α) (hb : BaseOK base) (rest : List (Ev α)) (ts : List Text)
    (before : List (SItem α)) (T : XTbls α) (content : List Content) (n : Nat) :
    parseEventsLoop env input (([Ev.start .text] ++ ts.map Ev.text ++ [Ev.stop .text]) ++ rest)
        (stOfT base before T content n none) =
      parseEventsLoop env input rest (stOfT base before T (content ++ xParaContent (ts.flatMap (·.text))) n none) := by
  have e : ([Ev.start .text] ++ ts.map Ev.text ++ [Ev.stop .text]) ++ rest =
      Ev.start .text :: (ts.map Ev.text ++ (Ev.stop .text :: rest)) := by simp
  have hstart : (processEvent env input (.start .text) (stOfT base before T content n none)).2 =
      stOfT base before T content n (some (.text [])) := by
    simp [processEvent, modify, modifyGet, MonadStateOf.modifyGet, StateT.modifyGet, stOfT, pure, StateT.pure, hb.1]
  have hstop : ∀ buf, (processEvent env input (.stop .text) (stOfT base before T content n (some (.text buf)))).2 =
      stOfT base before T (content ++ (if buf.isEmpty then [] else [.text buf])) n none := by
    intro buf
    by_cases hbuf : buf.isEmpty = true <;>
      simp [processEvent, endBlock, endBlockContent, pushContent, Content.isStep, Content.isEmptyContent, hbuf, bind,
        StateT.bind, get, getThe, MonadStateOf.get, StateT.get, pure, StateT.pure, modify, modifyGet,
        MonadStateOf.modifyGet, StateT.modifyGet, stOfT, hb.1]
  rw [e, parseEventsLoop_cons_nonerror env input _ _ _ (by rintro ⟨d, h⟩; cases h), hstart,
    rtax_para_texts env input base _ before T content n ts [],
    parseEventsLoop_cons_nonerror env input _ _ _ (by rintro ⟨d, h⟩; cases h), hstop]
  simp [xParaContent]

/-! ### the whole document -/

structure DocResultT (env : Env) (base : Col α) (T : XTbls α) (content : List Content) (n : Nat)
    (blocks : List (SBlock α)) (c : Col α) : Prop where
  sections : c.sections =
    (xRun env T base.sections ⟨base.cur.name, content⟩ n base.metaMap (blocks.map (SBlock.x env))).secs
  ingredients : c.ingredients =
    (xRun env T base.sections ⟨base.cur.name, content⟩ n base.metaMap (blocks.map (SBlock.x env))).T.ing
  cookware : c.cookware =
    (xRun env T base.sections ⟨base.cur.name, content⟩ n base.metaMap (blocks.map (SBlock.x env))).T.cw
  timers : c.timers =
    (xRun env T base.sections ⟨base.cur.name, content⟩ n base.metaMap (blocks.map (SBlock.x env))).T.tm
  metaMap : c.metaMap =
    (xRun env T base.sections ⟨base.cur.name, content⟩ n base.metaMap (blocks.map (SBlock.x env))).metaMap
  used : c.oldStyleUsed = base.oldStyleUsed ++ docSpans (docEntries blocks)
  diags : c.diags = base.diags ++ deprecation (base.oldStyleUsed ++ docSpans (docEntries blocks))
  inlineQ : c.inlineQ = base.inlineQ
  frontMatter : c.frontMatter = base.frontMatter

theorem rtax_final (env : Env) (input : Str) (base : Col α) (before : List (SItem α)) (T : XTbls α)
    (content : List Content) (n : Nat) :
    ∃ c : Col α, parseEventsLoop env input [] (stOfT base before T content n none) = ⟨some c, c.diags, base.panic⟩ ∧
      DocResultT env base T content n [] c := by
  refine ⟨finalCol (stOfT base before T content n none), ?_, ?_⟩
  · rw [rts_loop_nil]
    congr 1
    unfold finalCol
    by_cases h1 : Section.isEmpty ⟨base.cur.name, content⟩ = true <;>
      by_cases h2 : base.oldStyleUsed.isEmpty = true <;> simp [stOfT, h1, h2]
  · unfold finalCol
    by_cases h1 : Section.isEmpty ⟨base.cur.name, content⟩ = true <;>
      by_cases h2 : base.oldStyleUsed.isEmpty = true <;>
      constructor <;>
        simp [stOfT, h1, h2, xRun, docEntries, docSpans, deprecation]

theorem rtax_loop_doc (env : Env) (input : Str) :
    ∀ (blocks : List (SBlock α)), (∀ b ∈ blocks, b.SideOK env) →
      ∀ (base : Col α), BaseOK base → ∀ (before : List (SItem α)) (T : XTbls α), TblsFit before T →
      ∀ (content : List Content) (n : Nat),
      xOK env T base.sections ⟨base.cur.name, content⟩ n (blocks.map (SBlock.x env)) →
      ∃ c : Col α,
        parseEventsLoop env input (blocks.flatMap SBlock.events) (stOfT base before T content n none) =
          ⟨some c, c.diags, base.panic⟩ ∧
        DocResultT env base T content n blocks c := by
  intro blocks
  induction blocks with
  | nil => intro _ base _ before T _ content n _; exact rtax_final env input base before T content n
  | cons b r ih =>
    intro hside base hb before T hfit content n hok
    have hr : ∀ x ∈ r, x.SideOK env := fun x hx => hside x (by simp [hx])
    have hb0 := hside b (by simp)
    cases b with
    | step st =>
      simp only [List.map_cons, SBlock.x, xOK] at hok
      obtain ⟨hs, hne, hrest⟩ := hok
      have hne' : st ≠ [] := by simpa using hne
      obtain ⟨l1, l2⟩ := rtax_loop_step env input base hb (r.flatMap SBlock.events) st before T hfit hb0 content n hs hne'
      obtain ⟨c, h1, h2⟩ := ih hr base hb (before ++ st) _ l2 _ (n + 1) hrest
      refine ⟨c, ?_, ?_⟩
      · rw [List.flatMap_cons, SBlock.events, l1, h1]
      · obtain ⟨a1, a2, a3, a4, a5, a6, a7, a8, a9⟩ := h2
        exact ⟨by rw [a1]; rfl, by rw [a2]; rfl, by rw [a3]; rfl, by rw [a4]; rfl, by rw [a5]; rfl,
          by rw [a6]; simp [docEntries], by rw [a7]; simp [docEntries], a8, a9⟩
    | sect name =>
      simp only [List.map_cons, SBlock.x, xOK] at hok
      obtain ⟨c, h1, h2⟩ := ih hr
        { base with sections := base.sections ++ (if (Section.isEmpty ⟨base.cur.name, content⟩) then [] else
                                  [⟨base.cur.name, content⟩]),
                    cur := ⟨name.map (·.trimmed env.cs), []⟩ } hb before T hfit [] 1 hok
      refine ⟨c, ?_, ?_⟩
      · rw [List.flatMap_cons, SBlock.events, List.singleton_append,
          parseEventsLoop_cons_nonerror env input _ _ _ (by rintro ⟨d, h⟩; cases h), rtax_section, h1]
      · obtain ⟨a1, a2, a3, a4, a5, a6, a7, a8, a9⟩ := h2
        exact ⟨by rw [a1]; rfl, by rw [a2]; rfl, by rw [a3]; rfl, by rw [a4]; rfl, by rw [a5]; rfl,
          by rw [a6]; simp [docEntries], by rw [a7]; simp [docEntries], a8, a9⟩
    | entry k v =>
      simp only [List.map_cons, SBlock.x, xOK] at hok
      have hpanic : (entryEffect env k v base).panic = base.panic := by
        unfold entryEffect; cases StdKey.ofStr (String.ofList (k.trimmed env.cs)) <;> rfl
      have hsec : (entryEffect env k v base).sections = base.sections ∧ (entryEffect env k v base).cur = base.cur ∧
          (entryEffect env k v base).metaMap = metaInsert base.metaMap (k.trimmed env.cs) (v.outerTrimmed env.cs) ∧
          (entryEffect env k v base).oldStyleUsed = base.oldStyleUsed ++ [⟨k.span.start, v.span.stop⟩] ∧
          (entryEffect env k v base).diags = base.diags ∧ (entryEffect env k v base).inlineQ = base.inlineQ ∧
          (entryEffect env k v base).frontMatter = base.frontMatter := by
        unfold entryEffect; cases StdKey.ofStr (String.ofList (k.trimmed env.cs)) <;> exact ⟨rfl, rfl, rfl, rfl, rfl, rfl, rfl⟩
      obtain ⟨e1, e2, e3, e4, e5, e6, e7⟩ := hsec
      obtain ⟨c, h1, h2⟩ := ih hr (entryEffect env k v base) (rtsr_entryEffect_base env k v base hb) before T hfit content n
        (by rw [e1, e2]; exact hok)
      refine ⟨c, ?_, ?_⟩
      · rw [List.flatMap_cons, SBlock.events, List.singleton_append,
          parseEventsLoop_cons_nonerror env input _ _ _ (by rintro ⟨d, h⟩; cases h), rtax_entry env input base k v hb0, h1,
          hpanic]
      · obtain ⟨a1, a2, a3, a4, a5, a6, a7, a8, a9⟩ := h2
        rw [e1, e2, e3] at a1 a2 a3 a4 a5
        refine ⟨by rw [a1]; rfl, by rw [a2]; rfl, by rw [a3]; rfl, by rw [a4]; rfl, by rw [a5]; rfl, ?_, ?_,
          by rw [a8, e6], by rw [a9, e7]⟩
        · rw [a6, e4]; simp [docEntries, docSpans]
        · rw [a7, e4, e5]; simp [docEntries, docSpans]
    | para ts =>
      simp only [List.map_cons, SBlock.x, xOK] at hok
      obtain ⟨c, h1, h2⟩ := ih hr base hb before T hfit (content ++ xParaContent (ts.flatMap (·.text))) n hok
      refine ⟨c, ?_, ?_⟩
      · rw [List.flatMap_cons, SBlock.events, rtax_para env input base hb _ ts, h1]
      · obtain ⟨a1, a2, a3, a4, a5, a6, a7, a8, a9⟩ := h2
        exact ⟨by rw [a1]; rfl, by rw [a2]; rfl, by rw [a3]; rfl, by rw [a4]; rfl, by rw [a5]; rfl,
          by rw [a6]; simp [docEntries], by rw [a7]; simp [docEntries], a8, a9⟩

/-- **analysis layer, documents with references of all three kinds** -/
theorem rtax_parseEvents_doc (env : Env) (input : Str) (blocks : List (SBlock α)) (hside : ∀ b ∈ blocks, b.SideOK env)
    (hok : xOK env {} [] ⟨none, []⟩ 1 (blocks.map (SBlock.x env))) :
    ∃ c : Col α, parseEvents env input (blocks.flatMap SBlock.events) = ⟨some c, c.diags, none⟩ ∧
      c.sections = (xRun env {} [] ⟨none, []⟩ 1 [] (blocks.map (SBlock.x env))).secs ∧
      c.ingredients = (xRun env {} [] ⟨none, []⟩ 1 [] (blocks.map (SBlock.x env))).T.ing ∧
      c.cookware = (xRun env {} [] ⟨none, []⟩ 1 [] (blocks.map (SBlock.x env))).T.cw ∧
      c.timers = (xRun env {} [] ⟨none, []⟩ 1 [] (blocks.map (SBlock.x env))).T.tm ∧
      c.metaMap = (xRun env {} [] ⟨none, []⟩ 1 [] (blocks.map (SBlock.x env))).metaMap ∧
      c.diags = deprecation (docSpans (docEntries blocks)) ∧
      c.inlineQ = #[] ∧ c.frontMatter = none := by
  have h0 : ({} : Col α) = stOfT {} [] {} [] 1 none := by simp [stOfT, ingrsOf, cwsOf]
  obtain ⟨c, h1, h2⟩ := rtax_loop_doc env input blocks hside {} ⟨rfl, rfl⟩ [] {} ⟨rfl, rfl⟩ [] 1 hok
  refine ⟨c, ?_, h2.sections, h2.ingredients, h2.cookware, h2.timers, h2.metaMap, ?_, ?_, ?_⟩
  · unfold parseEvents; rw [h0, h1]
  · rw [h2.diags]; simp
  · rw [h2.inlineQ]
  · rw [h2.frontMatter]

end Cook
