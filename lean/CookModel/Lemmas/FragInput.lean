import CookModel.Lemmas.FragAll
import CookModel.Lemmas.CoverAudit
import CookModel.Lemmas.TableFacts
/-
  C05 at fragment level, the whole input by byte positions: every letter or digit of the input is flagged
  by the comment scanner, or is CARRIED by an event of the pull parser (inside one fragment of one of its
  texts, or inside the span of its modifiers / number), or the stream has an `Error` event.
-/
set_option linter.unusedSectionVars false
set_option linter.unusedSimpArgs false
set_option linter.unusedVariables false
namespace Cook

variable {α : Type} [Arith α]

/-! ### monotonicity of "carries" in the byte range -/

theorem Text.holds_mono {T : Text} {p q p' q' : Nat} (h : T.holds p q) (h1 : p ≤ p') (h2 : q' ≤ q) :
    T.holds p' q' := by
  obtain ⟨f, hf, a, b⟩ := h
  exact ⟨f, hf, by omega, by omega⟩

theorem OptHolds_mono {o : Option Text} {p q p' q' : Nat} (h : OptHolds o p q) (h1 : p ≤ p') (h2 : q' ≤ q) :
    OptHolds o p' q' := by
  obtain ⟨T, hT, hh⟩ := h
  exact ⟨T, hT, Text.holds_mono hh h1 h2⟩

theorem Span.holds_mono {sp : Span} {p q p' q' : Nat} (h : sp.holds p q) (h1 : p ≤ p') (h2 : q' ≤ q) :
    sp.holds p' q' := ⟨Nat.le_trans h.1 h1, Nat.le_trans h2 h.2⟩

theorem ValHolds_mono {cs : CharSpec} {v : Loc (Value α)} {p q p' q' : Nat} (h : ValHolds cs v p q)
    (h1 : p ≤ p') (h2 : q' ≤ q) : ValHolds cs v p' q' := by
  unfold ValHolds at h ⊢
  split at h
  · obtain ⟨T, hT, hh⟩ := h
    exact ⟨T, hT, Text.holds_mono hh h1 h2⟩
  · exact Span.holds_mono h h1 h2

theorem QtyHolds_mono {cs : CharSpec} {qt : PQuantity α} {p q p' q' : Nat} (h : QtyHolds cs qt p q)
    (h1 : p ≤ p') (h2 : q' ≤ q) : QtyHolds cs qt p' q' := by
  rcases h with h | h
  · exact Or.inl (ValHolds_mono h h1 h2)
  · exact Or.inr (OptHolds_mono h h1 h2)

theorem Ev.carries_mono {cs : CharSpec} {ev : Ev α} {p q p' q' : Nat} (h : ev.carries cs p q)
    (h1 : p ≤ p') (h2 : q' ≤ q) : ev.carries cs p' q' := by
  cases ev with
  | frontMatter t => exact Text.holds_mono h h1 h2
  | metadata k v =>
    rcases h with h | h
    · exact Or.inl (Text.holds_mono h h1 h2)
    · exact Or.inr (Text.holds_mono h h1 h2)
  | «section» n => exact OptHolds_mono h h1 h2
  | start k => exact h
  | stop k => exact h
  | text t => exact Text.holds_mono h h1 h2
  | ingredient i =>
    rcases h with h | h | h | h | ⟨lq, hlq, h⟩
    · exact Or.inl (Span.holds_mono h h1 h2)
    · exact Or.inr (Or.inl (Text.holds_mono h h1 h2))
    · exact Or.inr (Or.inr (Or.inl (OptHolds_mono h h1 h2)))
    · exact Or.inr (Or.inr (Or.inr (Or.inl (OptHolds_mono h h1 h2))))
    · exact Or.inr (Or.inr (Or.inr (Or.inr ⟨lq, hlq, QtyHolds_mono h h1 h2⟩)))
  | cookware c =>
    rcases h with h | h | h | h | ⟨lq, hlq, h⟩
    · exact Or.inl (Span.holds_mono h h1 h2)
    · exact Or.inr (Or.inl (Text.holds_mono h h1 h2))
    · exact Or.inr (Or.inr (Or.inl (OptHolds_mono h h1 h2)))
    · exact Or.inr (Or.inr (Or.inr (Or.inl (OptHolds_mono h h1 h2))))
    · exact Or.inr (Or.inr (Or.inr (Or.inr ⟨lq, hlq, ValHolds_mono h h1 h2⟩)))
  | timer t =>
    rcases h with h | ⟨lq, hlq, h⟩
    · exact Or.inl (OptHolds_mono h h1 h2)
    · exact Or.inr ⟨lq, hlq, QtyHolds_mono h h1 h2⟩
  | error d => exact h
  | warning d => exact h

theorem Carried.mono {cs : CharSpec} {evs : Array (Ev α)} {p q p' q' : Nat} (h : Carried cs evs p q)
    (h1 : p ≤ p') (h2 : q' ≤ q) : Carried cs evs p' q' := by
  obtain ⟨ev, hev, hc⟩ := h
  exact ⟨ev, hev, Ev.carries_mono hc h1 h2⟩

/-! ### letters and digits sit in `CoreTok` tokens -/

/-- a letter or digit is none of the one-character tokens `: @ # ~ ? + / * & | % = { } ( ) .` (true of the
    Unicode tables: `tbl_alnum_noSingle`) -/
structure AlnumNoMarker (cs : CharSpec) : Prop where
  noSingle : ∀ c, cs.alnum c = true → singleKind c = none

theorem frag_core_of_alnum {cs : CharSpec} (hs : AlnumSpec cs) (hs2 : AlnumNoMarker cs) {t : Tok} {nx : Option Char}
    (hsp : spellOK cs t.kind t.text nx = true) (hlc : t.kind ≠ .lineComment) (hbc : t.kind ≠ .blockComment)
    {c : Char} (hc : c ∈ t.text) (ha : cs.alnum c = true) : CoreTok cs t := by
  have hw := cov_wordy_of_alnum hs hsp hlc hbc hc ha
  refine ⟨hw, ?_⟩
  have hns := hs2.noSingle c ha
  have hnm := (hs.notSyntax c ha).2.2.2.2.2
  have single : ∀ k : TK, t.kind = k →
      (∀ x r, spellOK cs k (x :: r) nx = (r.isEmpty && singleKind x == some k)) → False := by
    intro k hk hform
    cases htxt : t.text with
    | nil => rw [htxt] at hc; cases hc
    | cons x r =>
      rw [hk, htxt, hform] at hsp
      rw [htxt] at hc
      simp only [Bool.and_eq_true, List.isEmpty_iff, beq_iff_eq] at hsp
      obtain ⟨rfl, hk'⟩ := hsp
      simp only [List.mem_singleton] at hc
      subst hc
      rw [hns] at hk'; cases hk'
  cases hk : t.kind
  case word => simp
  case int => simp
  case zeroInt => simp
  case punct => simp
  case escaped => simp
  case lineComment => exact absurd hk hlc
  case blockComment => exact absurd hk hbc
  case newline => exact absurd hk hw.2.1
  case ws => exact absurd hk hw.2.2.1
  case metaStart => exact absurd hk hw.2.2.2.1
  case eq => exact absurd hk hw.2.2.2.2.1
  case textStep => exact absurd hk hw.2.2.2.2.2
  case minus =>
    exfalso
    cases htxt : t.text with
    | nil => rw [htxt] at hc; cases hc
    | cons x r =>
      rw [hk, htxt] at hsp
      rw [htxt] at hc
      simp only [spellOK, Bool.and_eq_true, List.isEmpty_iff, beq_iff_eq] at hsp
      obtain ⟨⟨rfl, rfl⟩, -⟩ := hsp
      simp only [List.mem_singleton] at hc
      exact hnm hc
  all_goals exact (single _ hk (fun _ _ => rfl)).elim

/-! ### the front-matter text -/

theorem frag_fromStr_holds (s : List Char) (off : Nat) (hne : s ≠ []) {p q : Nat} (h1 : off ≤ p)
    (h2 : q ≤ off + utf8Len s) : (Text.fromStr s off).holds p q := by
  cases s with
  | nil => exact absurd rfl hne
  | cons x r =>
    refine ⟨⟨x :: r, off, false⟩, ?_, h1, h2⟩
    simp [Text.fromStr, Text.appendStr, Text.appendFrag, Text.empty, Text.span, Span.pos]

/-! ### every letter or digit of the input -/

theorem frag_body_char (cs : CharSpec) (hs : AlnumSpec cs) (hs2 : AlnumNoMarker cs) (ext : Ext) (input : List Char)
    {t : Tok} (ht : t ∈ bodyToks cs input) {a' z' : List Char} {c : Char} (htx : t.text = a' ++ c :: z')
    (ha : cs.alnum c = true) :
    isCommentKind t.kind = true ∨ HasErrEv (pullEvents (α := α) cs ext input).1 ∨
    Carried cs (pullEvents (α := α) cs ext input).1 (t.start + utf8Len a') (t.start + utf8Len a' + c.utf8Size) := by
  have hstop : t.start + utf8Len a' + c.utf8Size ≤ t.stop := by
    simp only [Tok.stop, htx, utf8Len_append, utf8Len_cons]; omega
  by_cases hk : t.kind = .lineComment ∨ t.kind = .blockComment
  · left
    rcases hk with hk | hk <;> simp [isCommentKind, hk]
  · right
    have hlc : t.kind ≠ .lineComment := fun h => hk (Or.inl h)
    have hbc : t.kind ≠ .blockComment := fun h => hk (Or.inr h)
    have hmem : c ∈ t.text := by rw [htx]; simp
    have hwsp : WellSpelled cs (bodyToks cs input) := by
      unfold bodyToks
      split
      · exact lexFrom_wellSpelled cs _ _
      · exact lexFrom_wellSpelled cs _ _
    obtain ⟨nx, hsp⟩ := wellSpelled_mem hwsp ht
    have hcore := frag_core_of_alnum hs hs2 hsp hlc hbc hmem ha
    rcases pullEvents_fq (α := α) cs ext input with h | h
    · exact Or.inl h
    · right
      refine (h t ht hcore).mono ?_ hstop
      unfold tokBodyStart
      split
      · rename_i hesc
        have hne : a' ≠ [] := by
          intro h0
          rw [hesc, htx, h0] at hsp
          simp only [List.nil_append, spellOK, Bool.and_eq_true, beq_iff_eq] at hsp
          exact (hs.notSyntax c ha).2.2.1 hsp.1
        have := utf8Len_pos hne
        omega
      · omega

/-- **C05 at fragment level, whole input.**  Every letter or digit of the input — character number
    `a.length`, bytes `utf8Len a ..`, when `input = a ++ c :: z` — is flagged by the comment scanner, or the
    event stream has an `Error` event, or an event CARRIES it. -/
theorem frag_input_conservation (cs : CharSpec) (hs : AlnumSpec cs) (hs2 : AlnumNoMarker cs)
    (hcs : CommentSpec cs) (ext : Ext) (input a z : List Char) (c : Char) (hin : input = a ++ c :: z)
    (ha : cs.alnum c = true) :
    (commentMask cs input)[a.length]? = some true ∨ HasErrEv (pullEvents (α := α) cs ext input).1 ∨
    Carried cs (pullEvents (α := α) cs ext input).1 (utf8Len a) (utf8Len a + c.utf8Size) := by
  have hnu : ¬ (cs.uws c = true ∨ c = '-') := by
    rintro (h | h)
    · rw [(hs.notWs c ha).1] at h; cases h
    · exact (hs.notSyntax c ha).2.2.2.2.2 h
  cases hp : parseFrontmatter cs input with
  | none =>
    have hb : bodyToks cs input = lexFrom cs 0 input := by unfold bodyToks lex; rw [hp]
    have htile : (lexFrom cs 0 input).flatMap (·.text) = a ++ c :: z := by
      rw [← hin]; exact lexFrom_tile cs 0 input
    obtain ⟨t, ht, a', z', k1, k2, k3⟩ := cau_tok_at_char (lexFrom_chain cs 0 input) htile
    have e : t.start + utf8Len a' = utf8Len a := by omega
    rcases frag_body_char (α := α) cs hs hs2 ext input (t := t) (by rw [hb]; exact ht) k1 ha with hc | hc
    · left
      unfold commentMask
      rw [hp]
      simp only
      rw [← cscan_agrees cs hcs 0 input, k3, hc]
    · right
      rw [e] at hc; exact hc
  | some fm =>
    have hb : bodyToks cs input = lexFrom cs fm.cookOffset fm.cookText := by unfold bodyToks; rw [hp]
    obtain ⟨pre, mid, e, o1, o2, hpre, hmid⟩ := cov_frontmatter_layout cs input fm hp
    have hsplit : a ++ c :: z = pre ++ (fm.yamlText ++ (mid ++ fm.cookText)) := by rw [← hin, e]; simp
    rcases cov_char_in_append hsplit with ⟨z', e1⟩ | ⟨a2, e1, e2⟩
    · exact absurd (hpre c (by rw [e1]; simp)) hnu
    rcases cov_char_in_append e2.symm with ⟨z', e3⟩ | ⟨a3, e3, e4⟩
    · -- inside the YAML text: the front-matter event, whose text is one fragment
      right; right
      obtain ⟨L, hL, -⟩ := mfront_pullEvents (α := α) cs ext input fm hp
      have hmem : Ev.frontMatter (Text.fromStr fm.yamlText fm.yamlOffset) ∈
          (pullEvents (α := α) cs ext input).1.toList := by
        have : Ev.frontMatter (Text.fromStr fm.yamlText fm.yamlOffset) ∈
            metaOf (pullEvents (α := α) cs ext input).1 := by rw [hL]; simp
        unfold metaOf at this
        exact (List.mem_filter.mp this).1
      have hne : fm.yamlText ≠ [] := by rw [e3]; simp
      refine ⟨_, hmem, frag_fromStr_holds _ _ hne ?_ ?_⟩
      · rw [o1, e1, utf8Len_append]; omega
      · rw [o1, e1, utf8Len_append, e3, utf8Len_append, utf8Len_cons]; omega
    rcases cov_char_in_append e4.symm with ⟨z', e5⟩ | ⟨a4, e5, e6⟩
    · exact absurd (hmid c (by rw [e5]; simp)) hnu
    · -- inside the body
      have htile : (lexFrom cs fm.cookOffset fm.cookText).flatMap (·.text) = a4 ++ c :: z := by
        rw [lexFrom_tile, e6]
      obtain ⟨t, ht, a', z', k1, k2, k3⟩ := cau_tok_at_char (lexFrom_chain cs fm.cookOffset fm.cookText) htile
      have e' : t.start + utf8Len a' = utf8Len a := by
        rw [k2, o2, e1, e3, e5]
        simp only [utf8Len_append]
        omega
      rcases frag_body_char (α := α) cs hs hs2 ext input (t := t) (by rw [hb]; exact ht) k1 ha with hc | hc
      · left
        unfold commentMask
        rw [hp]
        simp only
        have hlen : input.length - fm.cookText.length = (pre ++ fm.yamlText ++ mid).length := by
          rw [e]; simp only [List.length_append]; omega
        have hal : a.length = (pre ++ fm.yamlText ++ mid).length + a4.length := by
          rw [e1, e3, e5]; simp only [List.length_append]; omega
        rw [hlen, hal, List.getElem?_append_right (by simp)]
        simp only [List.length_replicate, Nat.add_sub_cancel_left]
        rw [← cscan_agrees cs hcs fm.cookOffset fm.cookText, k3, hc]
      · right
        rw [e'] at hc; exact hc

/-! ### the side condition for the toy table and for the table of the real lexer -/

theorem singleTable_not_alnum : ∀ p ∈ singleTable, p.1.isAlphanum = false := by decide

theorem toyCharSpec_alnumNoMarker : AlnumNoMarker toyCharSpec := by
  constructor
  intro c h
  have h' : c.isAlphanum = true := h
  unfold singleKind
  have : singleTable.find? (fun p => p.1 == c) = none := by
    rw [List.find?_eq_none]
    intro p hp hpc
    have e : p.1 = c := by simpa using hpc
    have := singleTable_not_alnum p hp
    rw [e, h'] at this; cases this
  rw [this]; rfl

/-- no range with the alphanumeric bit (16) contains one of the seventeen one-character tokens -/
def tblAlnumSingleOK (r : Nat × Nat × Nat) : Bool :=
  r.2.2 &&& 16 == 0 ||
    [58, 64, 35, 126, 63, 43, 47, 42, 38, 124, 37, 61, 123, 125, 40, 41, 46].all (fun k => k < r.1 || r.2.1 < k)

theorem tbl_alnumSingleOK_all : Gen.charRangesList.all tblAlnumSingleOK = true := by decide +kernel

theorem singleTable_codes : ∀ p ∈ singleTable,
    p.1.toNat ∈ [58, 64, 35, 126, 63, 43, 47, 42, 38, 124, 37, 61, 123, 125, 40, 41, 46] := by decide

/-- a letter or digit of the real table is none of the one-character tokens of the lexer -/
theorem tbl_alnum_noSingle (c : Char) (h : realCharSpec.alnum c = true) : singleKind c = none := by
  have key := tbl_forall_chars tblAlnumSingleOK
    (fun c b => (b &&& 16 != 0) = true →
      c.toNat ∉ [58, 64, 35, 126, 63, 43, 47, 42, 38, 124, 37, 61, 123, 125, 40, 41, 46])
    tbl_alnumSingleOK_all (fun _ h => by simp at h)
    (fun c r hQ h1 h2 ha => by
      simp only [tblAlnumSingleOK, List.all_cons, List.all_nil, Bool.and_true, Bool.or_eq_true, Bool.and_eq_true,
        beq_iff_eq, decide_eq_true_eq] at hQ
      simp only [bne_iff_ne, ne_eq] at ha
      rcases hQ with h16 | hk
      · exact absurd h16 (by simpa using ha)
      · simp only [List.mem_cons, List.not_mem_nil, or_false]
        omega) c
  have hb := key h
  unfold singleKind
  have : singleTable.find? (fun p => p.1 == c) = none := by
    rw [List.find?_eq_none]
    intro p hp hpc
    have e : p.1 = c := by simpa using hpc
    have := singleTable_codes p hp
    rw [e] at this
    exact hb this
  rw [this]; rfl

theorem realCharSpec_alnumNoMarker : AlnumNoMarker realCharSpec := ⟨tbl_alnum_noSingle⟩

/-- no range of the real table that is lexer white space (1) or a word character (4) contains backslash, `-`
    or `[` -/
def tblPlainOK (r : Nat × Nat × Nat) : Bool :=
  (r.2.2 &&& 1 == 0 && r.2.2 &&& 4 == 0) || [92, 45, 91].all (fun k => k < r.1 || r.2.1 < k)

theorem tbl_plainOK_all : Gen.charRangesList.all tblPlainOK = true := by decide +kernel

theorem tbl_plain (c : Char) (h : realCharSpec.ws c = true ∨ realCharSpec.wordChar c = true) : PlainCh c := by
  have key := tbl_forall_chars tblPlainOK
    (fun c b => ((b &&& 1 != 0) = true ∨ (b &&& 4 != 0) = true) →
      c.toNat ≠ 92 ∧ c.toNat ≠ 45 ∧ c.toNat ≠ 91)
    tbl_plainOK_all (fun _ h => by simp at h)
    (fun c r hQ h1 h2 ha => by
      simp only [tblPlainOK, List.all_cons, List.all_nil, Bool.and_true, Bool.or_eq_true, Bool.and_eq_true,
        beq_iff_eq, decide_eq_true_eq] at hQ
      simp only [bne_iff_ne, ne_eq] at ha
      rcases hQ with ⟨h1', h4⟩ | hk
      · rcases ha with ha | ha
        · exact absurd h1' ha
        · exact absurd h4 ha
      · omega) c
  obtain ⟨a1, a2, a3⟩ := key h
  refine ⟨?_, ?_, ?_⟩ <;> (intro e; subst e; revert a1 a2 a3; decide)

/-- `CommentSpec` holds of the table generated from the real lexer -/
theorem realCharSpec_commentSpec : CommentSpec realCharSpec :=
  ⟨fun c h => tbl_plain c (Or.inl h), fun c h => tbl_plain c (Or.inr h)⟩

/-! ### statements for `Props/C05.lean` -/

/-- the three component parsers: every content token between the cursors is carried by the returned event,
    or an error was pushed -/
theorem frag_component_carries {ts : List Tok} (hw : WF ts) {e : Ext} {s : BP α} (hg : G ts e s)
    (p : P α (Option (Ev α))) (hp : p = ingredientP ∨ p = cookwareP ∨ p = timerP) (ev : Ev α)
    (hr : (p s).1 = some ev) :
    ∀ (i : Nat) (t : Tok), s.cur ≤ i → i < (p s).2.cur → ts[i]? = some t → CoreTok s.cs t →
      HasErrEv (p s).2.evs ∨ ev.carries s.cs (tokBodyStart t) t.stop := by
  have hwi := cov_wf_wfi hw
  have hge : GE (fun _ : Array (Ev α) => True) ts e s := ⟨hg, trivial⟩
  have hup : UpP (fun _ : Array (Ev α) => True) := fun _ _ _ => trivial
  rcases hp with rfl | rfl | rfl
  · exact (ingredientP_fc hup hwi hge rfl).2 ev hr
  · exact (cookwareP_fc hup hwi hge rfl).2 ev hr
  · exact (timerP_fc hup hwi hge rfl).2 ev hr

/-- one block of adjacent tokens, any shape, any previous queue -/
theorem frag_block_carries (cs : CharSpec) (ext : Ext) (oldStyle : Bool) (blk : List Tok) (evs : Array (Ev α))
    (hw : WF blk) :
    HasErrEv (runBlock cs ext oldStyle blk evs none).1 ∨
    ∀ t ∈ blk, CoreTok cs t → TokCarried cs (runBlock cs ext oldStyle blk evs none).1 t := by
  have h := runBlock_fq (K := fun _ => False) cs ext oldStyle blk evs (cov_wf_wfi hw) Boundary.first
    (Or.inr ⟨fun _ h => h.elim, fun i hi => absurd hi (Nat.not_lt_zero _)⟩)
  rcases h with h | ⟨-, h2⟩
  · exact Or.inl h
  · right
    intro t ht hct
    obtain ⟨i, hi, hget⟩ := List.mem_iff_getElem.1 ht
    exact h2 i hi t (by rw [List.getElem?_eq_getElem hi, hget]) hct

theorem frag_carries_kind {cs : CharSpec} {ev : Ev α} {p q : Nat} (h : ev.carries cs p q) :
    ev.isContentKind = true := by
  cases ev with
  | «section» n =>
    obtain ⟨T, hT, -⟩ := h
    rw [hT]; rfl
  | start k => exact h.elim
  | stop k => exact h.elim
  | error d => exact h.elim
  | warning d => exact h.elim
  | _ => rfl

theorem frag_errorFree_not_hasErr {evs : Array (Ev α)} (h : ErrorFree evs) : ¬ HasErrEv evs := by
  rintro ⟨d, hd⟩
  exact h _ hd d rfl

/-- for the examples: the fragments (start byte, end byte) of the texts an event carries — for a component:
    name, alias, note, unit, in this order -/
def Ev.fragLayout (ev : Ev α) : List (List (Nat × Nat)) :=
  match ev with
  | .text t => [t.frags.map (fun f => (f.offset, f.stop))]
  | .ingredient i => [i.val.name.frags.map (fun f => (f.offset, f.stop))] ++
      (i.val.alias.map (fun t => t.frags.map (fun f => (f.offset, f.stop)))).toList ++
      (i.val.note.map (fun t => t.frags.map (fun f => (f.offset, f.stop)))).toList ++
      ((i.val.quantity.bind (fun q => q.val.unit)).map (fun t => t.frags.map (fun f => (f.offset, f.stop)))).toList
  | .metadata k v => [k.frags.map (fun f => (f.offset, f.stop)), v.frags.map (fun f => (f.offset, f.stop))]
  | .«section» (some n) => [n.frags.map (fun f => (f.offset, f.stop))]
  | _ => []

end Cook
