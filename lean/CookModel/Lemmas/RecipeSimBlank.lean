import CookModel.Lemmas.RecipeSimStatic
import CookModel.Lemmas.SimBlankLines
import CookModel.Lemmas.SimEvents
/-
  C17: an extra blank / comment-only line in the SOURCE, through parser and analysis (inputs
  without front matter).
-/
set_option linter.unusedSectionVars false
set_option linter.unusedVariables false
namespace Cook
variable {α : Type} [Arith α]

theorem sameKT_tokSim {a b : Tok} (h : SameKT a b) (hnl : b.kind = .newline → IsNL b.text) : TokSim a b := by
  unfold SameKT at h
  obtain ⟨h1, h2⟩ := Prod.mk.inj h
  exact ⟨h1, fun _ => h2, fun hk => ⟨h2 ▸ hnl hk, hnl hk⟩⟩

theorem lrel_sameKT_tokSim {l' l : List Tok} (h : LRel SameKT l' l)
    (hnl : ∀ t ∈ l, t.kind = .newline → IsNL t.text) : LRel TokSim l' l := by
  induction h with
  | nil => exact .nil
  | cons h1 _ ih =>
    exact .cons (sameKT_tokSim h1 (hnl _ List.mem_cons_self)) (ih (fun t ht => hnl t (List.mem_cons_of_mem _ ht)))

theorem blocks_sameKT_tokSim {B' B : List (List Tok)} (h : LRel (LRel SameKT) B' B)
    (hnl : ∀ b ∈ B, ∀ t ∈ b, t.kind = .newline → IsNL t.text) : LRel (LRel TokSim) B' B := by
  induction h with
  | nil => exact .nil
  | cons h1 _ ih =>
    exact .cons (lrel_sameKT_tokSim h1 (hnl _ List.mem_cons_self)) (ih (fun b hb => hnl b (List.mem_cons_of_mem _ hb)))

/-- the events of `u e0 e x` and of `u e0 x` (an extra blank / comment-only line `e` after the
    empty line `e0`), for inputs without front matter -/
theorem blank_line_source_events (cs : CharSpec) (hu : UwsNL cs) (ext : Ext) (u e0 e x : List Char)
    (L : List (List Tok)) (hlu : lex cs u = L.flatten) (hL : ∀ l ∈ L, IsLine l)
    (hE0 : EmptyLine (lexFrom cs (utf8Len u) e0))
    (hE : EmptyLine (lexFrom cs (utf8Len u + utf8Len e0) e))
    (h1 : parseFrontmatter cs (u ++ (e0 ++ (e ++ x))) = none) (h2 : parseFrontmatter cs (u ++ (e0 ++ x)) = none) :
    LRel (EvSim cs.uws) (pullEvents (α := α) cs ext (u ++ (e0 ++ (e ++ x)))).1.toList
      (pullEvents (α := α) cs ext (u ++ (e0 ++ x))).1.toList := by
  unfold pullEvents
  simp only [h1, h2]
  have hb := blocks_extra_blank_line_source cs u e0 e x L hlu hL hE0 hE
  refine foldl_runBlock_relF hu ext true (blocks_sameKT_tokSim hb ?_) .nil
  intro b hb' t ht
  have hm : t ∈ lex cs (u ++ (e0 ++ x)) := allBlocks_mem _ _ b hb' t ht
  exact (lexFrom_kindText cs 0 _ t hm).2.2.1

/-- … and the same recipe -/
theorem blank_line_source_recipe (env : Env) (hu : UwsNL env.cs) (u e0 e x : List Char)
    (L : List (List Tok)) (hlu : lex env.cs u = L.flatten) (hL : ∀ l ∈ L, IsLine l)
    (hE0 : EmptyLine (lexFrom env.cs (utf8Len u) e0))
    (hE : EmptyLine (lexFrom env.cs (utf8Len u + utf8Len e0) e))
    (h1 : parseFrontmatter env.cs (u ++ (e0 ++ (e ++ x))) = none) (h2 : parseFrontmatter env.cs (u ++ (e0 ++ x)) = none)
    (hf : TextModeFree env (u ++ (e0 ++ x)) (pullEvents (α := α) env.cs env.ext (u ++ (e0 ++ x))).1.toList {}) :
    ResSim env.cs.uws (parseRecipe (α := α) env (u ++ (e0 ++ (e ++ x)))) (parseRecipe (α := α) env (u ++ (e0 ++ x))) := by
  unfold parseRecipe
  exact (parseEvents_sim env _ _ (blank_line_source_events env.cs hu env.ext u e0 e x L hlu hL hE0 hE h1 h2) hf).setPanic _ _

end Cook
