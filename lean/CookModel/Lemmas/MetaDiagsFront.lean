import CookModel.Lemmas.MetaDiagsParser
/-
  C14, diagnostics, inputs WITH front matter: the `>> [config]` entries the full parser still
  processes only ever report `config-invalid-value` / `config-unknown-key`; the other metadata
  diagnostics (`std-unsupported-value`, `time-overridden`, `meta-deprecated`) agree between the
  full and the metadata-only analysis for every input.
-/
set_option linter.unusedSectionVars false
set_option linter.tactic.unusedName false
namespace Cook
variable {α : Type} [Arith α]

/-- the kinds of the metadata diagnostics that are not about `[config]` keys -/
def stdKind (k : String) : Bool :=
  k == "std-unsupported-value" || k == "time-overridden" || k == "meta-deprecated"

def Diag.isStdMeta (d : Diag) : Bool := d.stage == .analysis && stdKind d.kind

theorem stdKind_metaKind (k : String) (h : stdKind k = true) : metaKind k = true := by
  unfold stdKind at h
  unfold metaKind
  simp only [Bool.or_eq_true] at h ⊢
  rcases h with (h | h) | h
  · exact Or.inl (Or.inl (Or.inr h))
  · exact Or.inl (Or.inr h)
  · exact Or.inr h

theorem filter_std_of_meta (l : List Diag) :
    l.filter Diag.isStdMeta = (l.filter Diag.isMeta).filter Diag.isStdMeta := by
  rw [List.filter_filter]
  apply List.filter_congr
  intro d _
  unfold Diag.isStdMeta Diag.isMeta
  cases hs : d.stage == .analysis
  · simp
  · cases hk : stdKind d.kind
    · simp
    · simp [stdKind_metaKind _ hk]

/-- the metadata part with the non-config metadata diagnostics -/
def Col.sd (s : Col α) : MS × List Diag := (s.ms, s.diags.toList.filter Diag.isStdMeta)

theorem sd_of_md {s s' : Col α} (h : s.md = s'.md) : s.sd = s'.sd := by
  unfold Col.sd
  rw [filter_std_of_meta, filter_std_of_meta s'.diags.toList]
  have h1 := congrArg MD.ms h
  have h2 := congrArg MD.ds h
  simp only [Col.md] at h1 h2
  rw [h1, h2]

structure PS {β : Type} (m : MS × List Diag) (f : A α β) : Prop where
  run : ∀ s, s.sd = m → (f s).2.sd = m

theorem PS.pure {β : Type} {m : MS × List Diag} (a : β) : PS (α := α) m (pure a) := ⟨fun _ h => h⟩
theorem PS.bind {β γ : Type} {m : MS × List Diag} {f : A α β} {g : β → A α γ}
    (hf : PS m f) (hg : ∀ a, PS m (g a)) : PS m (f >>= g) :=
  ⟨fun s h => (hg (f s).1).run (f s).2 (hf.run s h)⟩
theorem PS.modify {m : MS × List Diag} (k : Col α → Col α) (h : ∀ s, (k s).sd = s.sd) :
    PS (α := α) m (modify k : A α PUnit) := ⟨fun s hs => (h s).trans hs⟩
theorem PS.get_bind {γ : Type} {m : MS × List Diag} {g : Col α → A α γ}
    (hg : ∀ s0 : Col α, s0.sd = m → PS m (g s0)) : PS m ((get : A α (Col α)) >>= g) :=
  ⟨fun s h => (hg s h).run s h⟩

theorem ps_push (m : MS × List Diag) (d : Diag) (hd : d.isStdMeta = false) :
    PS (α := α) m (modify fun s => { s with diags := s.diags.push d } : A α PUnit) := by
  apply PS.modify
  intro s
  unfold Col.sd
  simp [Array.toList_push, List.filter_append, hd, Col.ms]

theorem ps_aerr (m : MS × List Diag) (k : String) (l : List Span) (hk : stdKind k = false) :
    PS (α := α) m (aerr k l) := ps_push m _ (by simp [Diag.isStdMeta, hk])
theorem ps_awarn (m : MS × List Diag) (k : String) (l : List Span) (hk : stdKind k = false) :
    PS (α := α) m (awarn k l) := ps_push m _ (by simp [Diag.isStdMeta, hk])

/-- after front matter a `[config]` entry under MODES leaves the metadata part alone and reports
    nothing but `config-*` diagnostics -/
theorem ps_metadataA_cfg (m : MS × List Diag) (hm : m.1.oldStyle = false) (env : Env) (k v : Text)
    (hk : isConfigKey env.cs k = true) (hx : env.ext.has Gen.EXT_MODES = true) :
    PS (α := α) m (metadataA env k v) := by
  obtain ⟨h1, h2, h3⟩ := mfront_cfg_trimmed env.cs k hk
  unfold metadataA
  dsimp only
  apply PS.get_bind
  intro s0 hs0
  have ho : s0.oldStyle = false := (congrArg (fun p => p.1.oldStyle) hs0).trans hm
  simp only [hx, h1, h2, h3, ho, beq_self_eq_true, Bool.and_self, decide_true, if_true]
  repeat' (first
    | intro _
    | with_reducible exact PS.pure _
    | ((with_reducible apply PS.modify) <;> (intro s; rfl))
    | with_reducible exact ps_aerr _ _ _ (by decide)
    | with_reducible exact ps_awarn _ _ _ (by decide)
    | with_reducible apply PS.bind
    | split)
  all_goals (rename_i hft; exact absurd hft Bool.false_ne_true)

theorem final_cfg_sd (env : Env) (input : Str) : ∀ (L : List (Ev α)) (s : Col α), s.oldStyle = false →
    (∀ ev ∈ L, CfgEv env.cs env.ext ev) → (finalOf env input L s).sd = s.sd := by
  intro L
  induction L with
  | nil => intro s _ _; rfl
  | cons ev rest ih =>
    intro s ho hL
    obtain ⟨k, v, rfl, hk, hx⟩ := hL _ (List.mem_cons_self ..)
    simp only [finalOf, List.foldl_cons]
    have hp : ((processEvent env input (.metadata k v) s).2).sd = s.sd :=
      (ps_metadataA_cfg (α := α) s.sd ho env k v hk hx).run s rfl
    have ho' : ((processEvent env input (.metadata k v) s).2).oldStyle = false :=
      (congrArg (fun p => p.1.oldStyle) hp).trans ho
    exact (ih _ ho' (fun e he => hL e (List.mem_cons_of_mem _ he))).trans hp

theorem filter_ite_single (p : Diag → Bool) (c : Prop) [Decidable c] (d : Diag) (hd : p d = true) :
    List.filter p (if c then [d] else []) = if c then [d] else [] := by
  split <;> simp [hd]

/-- the `sd` projection of the result, from the one of the final fold state -/
theorem sd_endMD {r f : Col α} (h : r.md = endMD f.md) :
    r.sd = (f.ms, f.sd.2 ++ (if !f.ms.oldStyleUsed.isEmpty then
      [⟨.warning, .analysis, "meta-deprecated", f.ms.oldStyleUsed⟩] else [])) := by
  have h1 := congrArg MD.ms h
  have h2 := congrArg MD.ds h
  simp only [Col.md, endMD] at h1 h2
  unfold Col.sd
  rw [filter_std_of_meta, h1, h2, List.filter_append, ← filter_std_of_meta]
  congr 2
  exact filter_ite_single _ _ _ (by rfl)

/-- WITH front matter: the full analysis reports no `std-unsupported-value`, `time-overridden` or
    `meta-deprecated` diagnostic for `>>` lines -/
theorem analysis_front_full_sd (env : Env) (input : Str) (fm : FrontMatter)
    (h : parseFrontmatter env.cs input = some fm) (r1 : Col α)
    (h1 : (parseRecipe (α := α) env input).output = some r1) :
    r1.sd = (frontMS (Text.fromStr fm.yamlText fm.yamlOffset), []) := by
  unfold parseRecipe at h1
  simp only at h1
  unfold parseEvents at h1
  have e1 := loop_output_md env input _ _ r1 h1
  obtain ⟨L, eL, hL⟩ := mfront_pullEvents (α := α) env.cs env.ext input fm h
  unfold metaOf at eL
  have e2 := final_keys_md env input (pullEvents (α := α) env.cs env.ext input).1.toList {} {} rfl
    (pullEvents_warnOK env.cs env.ext input)
  rw [eL] at e2
  have e3 : (finalOf env input (Ev.frontMatter (Text.fromStr fm.yamlText fm.yamlOffset) :: L) ({} : Col α)).sd =
      (frontMS (Text.fromStr fm.yamlText fm.yamlOffset), []) := by
    simp only [finalOf, List.foldl_cons]
    exact final_cfg_sd env input L _ rfl hL
  have e4 := sd_of_md e2
  rw [e3] at e4
  rw [sd_endMD e1]
  have e5 : (finalOf env input (pullEvents (α := α) env.cs env.ext input).1.toList {}).ms =
      frontMS (Text.fromStr fm.yamlText fm.yamlOffset) := congrArg Prod.fst e4
  have e6 : (finalOf env input (pullEvents (α := α) env.cs env.ext input).1.toList {}).sd.2 = [] :=
    congrArg Prod.snd e4
  rw [e5, e6]
  rfl

theorem analysis_front_meta_sd (env : Env) (input : Str) (fm : FrontMatter)
    (h : parseFrontmatter env.cs input = some fm) (r2 : Col α)
    (h2 : (parseMetadata (α := α) env input).output = some r2) :
    r2.sd = (frontMS (Text.fromStr fm.yamlText fm.yamlOffset), []) := by
  unfold parseMetadata at h2
  simp only [mfront_pullMetaEvents env.cs env.ext input fm h] at h2
  cases h2
  rfl

/-- for EVERY input: whenever both analyses have output, the metadata parts and the non-config
    metadata diagnostics agree -/
theorem analysis_agree_sd (env : Env) (input : Str) (r1 r2 : Col α)
    (h1 : (parseRecipe (α := α) env input).output = some r1)
    (h2 : (parseMetadata (α := α) env input).output = some r2) : r1.sd = r2.sd := by
  cases h : parseFrontmatter env.cs input with
  | none => exact sd_of_md (analysis_agree_md env input h r1 r2 h1 h2)
  | some fm => rw [analysis_front_full_sd env input fm h r1 h1, analysis_front_meta_sd env input fm h r2 h2]

end Cook
