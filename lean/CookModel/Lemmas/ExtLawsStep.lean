import CookModel.Lemmas.ExtLawsGates
import CookModel.Syntax.Blocks
/-
  C02, the component parsers, the step loop and `parse_block`: under the syntactic premise
  `UsesNone` on the tokens of the block the result does not depend on the extension set.
-/
set_option linter.unusedSectionVars false
set_option linter.unusedSimpArgs false
set_option linter.unusedVariables false
namespace Cook

variable {α : Type} [Arith α]

/-! ### What `comp_body` returns, as a function of the remaining tokens -/

def isShortTok (k : TK) : Bool := k == .word || k == .int || k == .zeroInt

/-- the long form `name{quantity}`: name tokens up to the first `{` (no marker in between), the
    tokens up to the first `}` after it; the quantity counts only if it is not blank -/
def longBody (r : List Tok) : Option (List Tok × Option (List Tok)) :=
  match r.findIdx? (fun t => t.kind == .openBrace || isMarker t.kind) with
  | none => none
  | some p =>
    if (r[p]?).map (·.kind) == some .openBrace then
      match (r.drop (p + 1)).findIdx? (fun t => t.kind == .closeBrace) with
      | none => none
      | some p2 =>
        some (r.take p,
          if ((r.drop (p + 1)).take p2).any (fun t => !(t.kind == .ws || t.kind == .blockComment))
          then some ((r.drop (p + 1)).take p2) else none)
    else none

theorem withRecover_fst {β : Type} (f : P α (Option β)) (s : BP α) : (withRecover f s).1 = (f s).1 := by
  rw [withRecover_run_ext]; split <;> rfl

theorem withRecover_cur_of_none {β : Type} (f : P α (Option β)) (s : BP α)
    (h : (withRecover f s).1 = none) : (withRecover f s).2.cur = s.cur := by
  rw [withRecover_fst] at h
  rw [withRecover_run_ext]
  simp [h]

theorem consumeK_run (k : TK) (s : BP α) : consumeK k s =
    match s.toks[s.cur]? with
    | some t => if t.kind = k then (some t, { s with cur := s.cur + 1 }) else (none, s)
    | none => (none, s) := by
  unfold consumeK
  rw [P_bind_run]
  have ha : atK k s = ((s.toks[s.cur]?).map (·.kind) == some k, s) := rfl
  rw [ha]
  cases ht : s.toks[s.cur]? with
  | none => rfl
  | some t =>
    by_cases hk : t.kind = k
    · have : ((some t).map (·.kind) == some k) = true := by simp [hk]
      simp only [this, if_true, hk]
      have hb : bumpAny s = (t, { s with cur := s.cur + 1 }) := by
        unfold bumpAny
        rw [P_bind_run, nextToken_run, ht]
        rfl
      rw [P_bind_run, hb]
      rfl
    · have : ((some t).map (·.kind) == some k) = false := by simp [hk]
      simp only [this, Bool.false_eq_true, if_false, hk]
      rfl

theorem consumeK_fact (k : TK) (s : BP α) :
    Sat (consumeK k) s (fun r s' => match r with
      | none => s' = s
      | some t => s.toks[s.cur]? = some t ∧ t.kind = k ∧ s' = { s with cur := s.cur + 1 }) := by
  unfold Sat
  rw [consumeK_run]
  cases ht : s.toks[s.cur]? with
  | none => rfl
  | some t =>
    by_cases hk : t.kind = k
    · dsimp only; rw [if_pos hk]; exact ⟨rfl, hk, rfl⟩
    · dsimp only; rw [if_neg hk]

theorem compBodyLong_fst (s : BP α) :
    ((compBodyLong s).1).map (fun b => (b.name, b.quantity)) = longBody s.rest := by
  unfold compBodyLong
  rw [withRecover_fst, P_bind_run, untilK_run]
  unfold longBody BP.rest
  cases hf : (s.toks.drop s.cur).findIdx? (fun t => t.kind == .openBrace || isMarker t.kind) with
  | none => rfl
  | some p =>
    dsimp only
    rw [P_bind_run, consumeK_run, List.getElem?_drop]
    dsimp only
    cases ht : s.toks[s.cur + p]? with
    | none => rfl
    | some t =>
      by_cases hk : t.kind = .openBrace
      · have : ((some t).map (·.kind) == some TK.openBrace) = true := by simp [hk]
        simp only [hk, if_true, this]
        rw [P_bind_run, untilK_run]
        dsimp only
        rw [List.drop_drop]
        have e1 : s.cur + p + 1 = s.cur + (p + 1) := by omega
        rw [e1]
        cases hf2 : (s.toks.drop (s.cur + (p + 1))).findIdx? (fun t => t.kind == .closeBrace) with
        | none => rfl
        | some p2 => rfl
      · have : ((some t).map (·.kind) == some TK.openBrace) = false := by simp [hk]
        simp only [hk, if_false, this, Bool.false_eq_true]
        rfl

theorem compBodyShort_fst (s : BP α) (b : Body) (h : (compBodyShort s).1 = some b) :
    b.quantity = none ∧ b.name = s.rest.takeWhile (fun t => isShortTok t.kind) ∧ b.name ≠ [] := by
  unfold compBodyShort at h
  rw [withRecover_fst, P_bind_run] at h
  obtain ⟨c, e1, -⟩ := consumeWhile_rest (fun k => k == .word || k == .int || k == .zeroInt) s
  rw [e1] at h
  dsimp only at h
  split at h
  · rw [P_bind_run, P_bind_run] at h
    split at h
    · have h' : (none : Option Body) = some b := h
      cases h'
    · have h' : (none : Option Body) = some b := h
      cases h'
  · rename_i hne
    have h' : some (⟨s.rest.takeWhile (fun t => t.kind == .word || t.kind == .int || t.kind == .zeroInt), none, none⟩ : Body)
        = some b := h
    cases h'
    refine ⟨rfl, rfl, ?_⟩
    intro h0
    apply hne
    have h0' : List.takeWhile (fun t => t.kind == TK.word || t.kind == TK.int || t.kind == TK.zeroInt) s.rest = [] := h0
    rw [h0']; rfl

/-- `comp_body` returns the long form when there is one, else the run of word/number tokens -/
theorem compBody_fact (s : BP α) (b : Body) (h : (compBody s).1 = some b) :
    longBody s.rest = some (b.name, b.quantity) ∨
    (longBody s.rest = none ∧ b.quantity = none ∧
      b.name = s.rest.takeWhile (fun t => isShortTok t.kind) ∧ b.name ≠ []) := by
  unfold compBody at h
  rw [P_bind_run] at h
  have hl := compBodyLong_fst s
  cases hb : (compBodyLong s).1 with
  | some b' =>
    rw [hb] at h hl
    have h' : some b' = some b := h
    cases h'
    left; exact hl.symm
  | none =>
    rw [hb] at h hl
    right
    refine ⟨hl.symm, ?_⟩
    have h' : (compBodyShort (compBodyLong s).2).1 = some b := h
    have hs := compBodyShort_fst _ b h'
    have hr : (compBodyLong s).2.rest = s.rest := by
      unfold BP.rest
      rw [(compBodyLong_indA.all s).toks]
      have : (compBodyLong s).2.cur = s.cur := by
        unfold compBodyLong at hb ⊢
        exact withRecover_cur_of_none _ s hb
      rw [this]
    rw [hr] at hs
    exact hs

/-! ### The premise on a component and on the tokens of a block -/

/-- the component that starts with a marker of kind `k` followed by the tokens `rest` uses none of
    the extension syntaxes: no modifier character right after the marker; no `|` in the name; a
    quantity without `-` whose shape the advanced-units parser declines; a timer has a quantity -/
def compCore (k : TK) (rest : List Tok) : Bool :=
  (match rest.head? with
   | some t => !isModStart t.kind
   | none => true) &&
  (match longBody rest with
   | some (name, q) =>
     !(name.any (fun t => t.kind == .or)) &&
       (match q with
        | some q => quantCore q
        | none => k != .tilde)
   | none =>
     k != .tilde || (match rest.head? with
       | some t => !isShortTok t.kind
       | none => true))

/-- every marker token of the block starts a core component (or no component at all) -/
def stepCore : List Tok → Bool
  | [] => true
  | t :: rest => (!isMarker t.kind || compCore t.kind rest) && stepCore rest

theorem stepCore_at {ts : List Tok} (h : stepCore ts = true) {i : Nat} {t : Tok} (ht : ts[i]? = some t)
    (hm : isMarker t.kind = true) : compCore t.kind (ts.drop (i + 1)) = true := by
  induction ts generalizing i with
  | nil => simp at ht
  | cons a ts ih =>
    unfold stepCore at h
    simp only [Bool.and_eq_true, Bool.or_eq_true, Bool.not_eq_true'] at h
    cases i with
    | zero =>
      simp only [List.getElem?_cons_zero, Option.some.injEq] at ht
      subst ht
      rcases h.1 with h1 | h1
      · rw [hm] at h1; cases h1
      · simpa using h1
    | succ i =>
      simp only [List.getElem?_cons_succ] at ht
      simpa using ih h.2 ht

/-- what the premise gives for the body that `comp_body` returns -/
theorem compCore_body {k : TK} {s : BP α} {b : Body} (hc : compCore k s.rest = true)
    (hb : (compBody s).1 = some b) :
    b.name.any (fun t => t.kind == .or) = false ∧
    (∀ qt, b.quantity = some qt → quantCore qt = true) ∧
    (k = .tilde → b.quantity ≠ none) := by
  unfold compCore at hc
  simp only [Bool.and_eq_true] at hc
  obtain ⟨-, hc⟩ := hc
  rcases compBody_fact s b hb with hl | ⟨hl, hq, hn, hne⟩
  · rw [hl] at hc
    simp only [Bool.and_eq_true, Bool.not_eq_true'] at hc
    refine ⟨hc.1, ?_, ?_⟩
    · intro qt hqt
      have := hc.2
      rw [hqt] at this
      exact this
    · intro hk hqn
      have := hc.2
      rw [hqn, hk] at this
      simp at this
  · rw [hl] at hc
    refine ⟨?_, ?_, ?_⟩
    · rw [List.any_eq_false]
      intro x hx
      rw [hn] at hx
      have hall := List.all_takeWhile (l := s.rest) (p := fun t => isShortTok t.kind)
      have := List.all_eq_true.mp hall x hx
      revert this
      unfold isShortTok
      cases x.kind <;> simp
    · intro qt hqt; rw [hq] at hqt; cases hqt
    · intro hk _
      rw [hk] at hc
      simp only [bne_self_eq_false, Bool.false_or] at hc
      cases hr : s.rest with
      | nil => rw [hr] at hn; exact hne (by rw [hn]; rfl)
      | cons t r =>
        rw [hr] at hc hn
        simp only [List.head?_cons, Bool.not_eq_true'] at hc
        rw [List.takeWhile_cons, hc] at hn
        exact hne (by rw [hn]; rfl)

theorem compCore_noMod {k : TK} {s : BP α} (hc : compCore k s.rest = true) :
    ∀ t, s.toks[s.cur]? = some t → isModStart t.kind = false := by
  intro t ht
  unfold compCore at hc
  simp only [Bool.and_eq_true] at hc
  have h1 := hc.1
  unfold BP.rest at h1
  rw [List.head?_drop, ht] at h1
  simpa using h1

/-! ### The component parsers -/

macro_rules | `(tactic| ind_leaf) => `(tactic| exact parseAlias_indA _ _ _ (by assumption))
macro_rules | `(tactic| ind_leaf) => `(tactic| exact parseQuantity_indA _ (by assumption))
macro_rules | `(tactic| ind_leaf) => `(tactic| exact parseModifiers_nil_indA _)

/-- state facts after the marker was consumed -/
theorem after_marker {s : BP α} {t : Tok} (hs : stepCore s.toks = true) (ht : s.toks[s.cur]? = some t)
    (hm : isMarker t.kind = true) : compCore t.kind ({ s with cur := s.cur + 1 } : BP α).rest = true :=
  stepCore_at hs ht hm

theorem ingredientP_ind (s : BP α) (hs : stepCore s.toks = true) : Ind (ingredientP (α := α)) s := by
  unfold ingredientP
  refine Ind.bindRO currentOffset_indA (by rw [currentOffset_run]) ?_
  intro start
  refine Ind.bindS ((consumeK_indA _).all s) (consumeK_fact .at s) ?_
  intro r s1 ht1 hq
  cases r with
  | none => exact Ind.pure _ _
  | some t =>
    obtain ⟨htok, hk, rfl⟩ := hq
    have hcc := after_marker hs htok (by rw [hk]; rfl)
    dsimp only
    refine Ind.bindRO currentOffset_indA (by rw [currentOffset_run]) ?_
    intro modPos
    refine Ind.bindEq (modifiersP_noop_ext _ (compCore_noMod hcc)) ?_
    refine Ind.bindRO currentOffset_indA (by rw [currentOffset_run]) ?_
    intro nameOffset
    refine Ind.bindS (compBody_indA.all _) (Q := fun r _ => r = (compBody ({ s with cur := s.cur + 1 } : BP α)).1) rfl ?_
    intro r s2 ht2 hr
    cases r with
    | none => exact Ind.pure _ _
    | some body =>
      obtain ⟨hor, hqc, -⟩ := compCore_body hcc hr.symm
      obtain ⟨name, close, quantity⟩ := body
      dsimp only at hor hqc ⊢
      cases quantity with
      | none =>
        dsimp only
        refine (?_ : IndA _).all s2
        ind_auto
      | some qt =>
        have hqt : quantCore qt = true := hqc qt rfl
        dsimp only
        refine (?_ : IndA _).all s2
        ind_auto

theorem cookwareP_ind (s : BP α) (hs : stepCore s.toks = true) : Ind (cookwareP (α := α)) s := by
  unfold cookwareP
  refine Ind.bindRO currentOffset_indA (by rw [currentOffset_run]) ?_
  intro start
  refine Ind.bindS ((consumeK_indA _).all s) (consumeK_fact .hash s) ?_
  intro r s1 ht1 hq
  cases r with
  | none => exact Ind.pure _ _
  | some t =>
    obtain ⟨htok, hk, rfl⟩ := hq
    have hcc := after_marker hs htok (by rw [hk]; rfl)
    dsimp only
    refine Ind.bindRO currentOffset_indA (by rw [currentOffset_run]) ?_
    intro modPos
    refine Ind.bindEq (modifiersP_noop_ext _ (compCore_noMod hcc)) ?_
    refine Ind.bindRO currentOffset_indA (by rw [currentOffset_run]) ?_
    intro nameOffset
    refine Ind.bindS (compBody_indA.all _) (Q := fun r _ => r = (compBody ({ s with cur := s.cur + 1 } : BP α)).1) rfl ?_
    intro r s2 ht2 hr
    cases r with
    | none => exact Ind.pure _ _
    | some body =>
      obtain ⟨hor, hqc, -⟩ := compCore_body hcc hr.symm
      obtain ⟨name, close, quantity⟩ := body
      dsimp only at hor hqc ⊢
      cases quantity with
      | none =>
        dsimp only
        refine (?_ : IndA _).all s2
        ind_auto
      | some qt =>
        have hqt : quantCore qt = true := hqc qt rfl
        dsimp only
        refine (?_ : IndA _).all s2
        ind_auto

/-- a gate whose reading does not matter -/
theorem IndA.hasExtBind {β : Type} {flag : Nat} {k : Bool → P α β} (hk : ∀ b, k b = k false)
    (h : IndA (k false)) : IndA (hasExt flag >>= k) :=
  ⟨fun s => Ind.hasExtBind (fun b e => by rw [hk b]) (h.all s)⟩

/-- bind with a fact about the result of the first part -/
theorem IndA.bindR {β γ : Type} {m : P α β} {k : β → P α γ} (R : β → Prop) (hm : IndA m)
    (hr : ∀ s, R (m s).1) (hk : ∀ a, R a → IndA (k a)) : IndA (m >>= k) :=
  ⟨fun s => Ind.bind (hm.all s) ((hk _ (hr s)).all _)⟩

theorem timerP_ind (s : BP α) (hs : stepCore s.toks = true) : Ind (timerP (α := α)) s := by
  unfold timerP
  refine Ind.bindRO currentOffset_indA (by rw [currentOffset_run]) ?_
  intro start
  refine Ind.bindS ((consumeK_indA _).all s) (consumeK_fact .tilde s) ?_
  intro r s1 ht1 hq
  cases r with
  | none => exact Ind.pure _ _
  | some t =>
    obtain ⟨htok, hk, rfl⟩ := hq
    have hcc := after_marker hs htok (by rw [hk]; rfl)
    dsimp only
    refine Ind.bindEq (modifiersP_noop_ext _ (compCore_noMod hcc)) ?_
    refine Ind.bindRO currentOffset_indA (by rw [currentOffset_run]) ?_
    intro nameOffset
    refine Ind.bindS (compBody_indA.all _) (Q := fun r _ => r = (compBody ({ s with cur := s.cur + 1 } : BP α)).1) rfl ?_
    intro r s2 ht2 hr
    cases r with
    | none => exact Ind.pure _ _
    | some body =>
      obtain ⟨hor, hqc, hqs⟩ := compCore_body hcc hr.symm
      obtain ⟨name, close, quantity⟩ := body
      dsimp only at hor hqc hqs ⊢
      cases quantity with
      | none => exact absurd rfl (hqs hk)
      | some qt =>
        have hqt : quantCore qt = true := hqc qt rfl
        have hf := findIdx_none_of_any_false hor
        dsimp only
        refine (?_ : IndA _).all s2
        apply IndA.bind currentOffset_indA; intro stop
        refine IndA.hasExtBind ?_ ?_
        · intro b; cases b
          · rfl
          · simp only [hf, if_true, Bool.false_eq_true, if_false]
        · simp only [Bool.false_eq_true, if_false]
          apply IndA.bind checkNoteTimer_indA; intro _
          apply IndA.bind (bpText_indA _ _); intro nm
          refine IndA.getBind (by intro _ _; rfl) ?_; intro st
          refine IndA.bindR (fun a => a.isNone = false) ?_ ?_ ?_
          · ind_auto
          · intro s'; rw [P_bind_run]; split <;> rfl
          · intro quantity hq
            refine IndA.hasExtBind ?_ ?_
            · intro b; simp only [hq, Bool.false_and]
            · ind_auto

/-! ### The step loop -/

theorem stepOne_ind (s : BP α) (hs : stepCore s.toks = true) : Ind (stepOne (α := α)) s := by
  unfold stepOne
  refine Ind.bind (m := (do
    match ← peekK with
    | some .at => withRecover ingredientP
    | some .hash => withRecover cookwareP
    | some .tilde => withRecover timerP
    | _ => return none : P α (Option (Ev α)))) ?_ ?_
  · refine Ind.bindRO peekK_indA rfl ?_
    intro k
    split
    · exact Ind.withRecover (ingredientP_ind s hs)
    · exact Ind.withRecover (cookwareP_ind s hs)
    · exact Ind.withRecover (timerP_ind s hs)
    · exact Ind.pure _ _
  · refine (?_ : IndA _).all _
    ind_auto

theorem stepLoop_ind (fuel : Nat) (s : BP α) (hs : stepCore s.toks = true) : Ind (stepLoop (α := α) fuel) s := by
  induction fuel generalizing s with
  | zero =>
    unfold stepLoop
    refine (?_ : IndA _).all _
    ind_auto
  | succ fuel ih =>
    unfold stepLoop
    refine Ind.bindRO restToks_indA rfl ?_
    intro r
    split
    · exact Ind.pure _ _
    · refine Ind.bindS (stepOne_ind s hs) (Q := fun _ _ => True) trivial ?_
      intro _ s1 ht1 _
      exact ih s1 (by rw [ht1]; exact hs)

theorem parseStep_ind (s : BP α) (hs : stepCore s.toks = true) : Ind (parseStep (α := α)) s := by
  unfold parseStep
  refine Ind.bindS ((pushEv_indA _).all s) (Q := fun _ _ => True) trivial ?_
  intro _ s1 ht1 _
  refine Ind.bindRO restToks_indA rfl ?_
  intro r
  refine Ind.bind (stepLoop_ind _ s1 (by rw [ht1]; exact hs)) ?_
  exact (pushEv_indA _).all _

theorem parseMultilineBlock_ind (s : BP α) (hs : stepCore s.toks = true) :
    Ind (parseMultilineBlock (α := α)) s := by
  unfold parseMultilineBlock
  refine Ind.bindRO allToks_indA rfl ?_
  intro all
  split
  · refine (?_ : IndA _).all _
    ind_auto
  · refine Ind.bindRO peekK_indA rfl ?_
    intro k
    split
    · exact parseTextBlock_indA.all s
    · exact parseStep_ind s hs

/-! ### MODES: the `>>` filter of `parse_block` -/

/-- the key of a `>>` line: the text between the `>>` and the first `:` -/
def metaKeyOf (ts : List Tok) : Option Text :=
  match ts with
  | t0 :: rest =>
    if t0.kind = .metaStart then
      match rest.findIdx? (fun t => t.kind == .colon) with
      | some p => some (buildText t0.stop (rest.take p))
      | none => none
    else none
  | [] => none

/-- the block is not a `>> [key]: value` line -/
def metaKeyCore (cs : CharSpec) (ts : List Tok) : Bool :=
  match metaKeyOf ts with
  | some key => !isConfigKey cs key
  | none => true

theorem bpText_fst (off : Nat) (toks : List Tok) (s : BP α) : (bpText off toks s).1 = buildText off toks := by
  unfold bpText
  split <;> rfl

theorem meta_key_inj {k k' v v' : Text} (h : some (Ev.metadata (α := α) k v) = some (Ev.metadata k' v')) :
    k = k' := by
  simp only [Option.some.injEq, Ev.metadata.injEq] at h
  exact h.1

theorem metadataEntry_key (s : BP α) (hc : s.cur = 0) (key value : Text)
    (h : (metadataEntry s).1 = some (.metadata key value)) : metaKeyOf s.toks = some key := by
  obtain ⟨toks, cur, ext, cs, evs, panic⟩ := s
  dsimp only at hc
  subst hc
  unfold metadataEntry at h
  rw [P_bind_run, consumeK_run] at h
  dsimp only at h
  cases toks with
  | nil =>
    have h' : (none : Option (Ev α)) = some (.metadata key value) := h
    cases h'
  | cons t0 rest =>
    simp only [List.getElem?_cons_zero] at h
    unfold metaKeyOf
    by_cases hk : t0.kind = .metaStart
    · simp only [hk, if_true] at h ⊢
      rw [P_bind_run, currentOffset_run, P_bind_run, untilK_run] at h
      dsimp only at h
      have hd : List.drop (0 + 1) (t0 :: rest) = rest := rfl
      rw [hd] at h
      cases hf : rest.findIdx? (fun t => t.kind == .colon) with
      | none =>
        rw [hf] at h
        have h' : (none : Option (Ev α)) = some (.metadata key value) := h
        cases h'
      | some p =>
        rw [hf] at h
        dsimp only at h
        rw [P_bind_run, bpText_fst] at h
        have ho : offAt (t0 :: rest) (0 + 1) = t0.stop := offAt_succ (ts := t0 :: rest) (i := 0) rfl
        rw [ho] at h
        show some (buildText t0.stop (rest.take p)) = some key
        simp only [P_bind_run] at h
        split at h
        · rw [meta_key_inj h]
        · split at h
          · rw [meta_key_inj h]
          · rw [meta_key_inj h]
    · simp only [hk, if_false] at h
      have h' : (none : Option (Ev α)) = some (.metadata key value) := h
      cases h'

theorem Ind.getBind {β : Type} {f : BP α → P α β} {s : BP α} (h1 : ∀ e, f (s.withExt e) = f s)
    (h2 : Ind (f s) s) : Ind (get >>= f) s := by
  have run : ∀ s' : BP α, (get >>= f) s' = f s' s' := fun _ => rfl
  constructor
  · intro e; rw [run, run, h1]; exact h2.ext e
  · rw [run]; exact h2.toks
  · rw [run]; exact h2.cs

theorem parseBlock_ind (oldStyle : Bool) (s : BP α) (hc : s.cur = 0)
    (hm : metaKeyCore s.cs s.toks = true) (hs : stepCore s.toks = true) :
    Ind (parseBlock (α := α) oldStyle) s := by
  unfold parseBlock
  refine Ind.bindS (Q := fun _ _ => True) ?_ trivial ?_
  · refine Ind.bindRO peekK_indA rfl ?_
    intro k
    split
    · apply Ind.withRecover
      refine Ind.bindS' (metadataEntry_indA.all s) (Q := fun r _ => r = (metadataEntry s).1) rfl ?_
      intro r s1 ht1 hcs hr
      split
      · rename_i key value
        have hkey := metadataEntry_key s hc key value hr.symm
        have hnc : isConfigKey s1.cs key = false := by
          unfold metaKeyCore at hm
          rw [hkey] at hm
          rw [hcs]
          simpa using hm
        refine Ind.getBind (fun _ => rfl) ?_
        dsimp only
        refine Ind.hasExtBind ?_ ?_
        · intro b e
          simp only [hnc, Bool.false_and]
        · refine (?_ : IndA _).all _
          ind_auto
      · exact Ind.pure _ _
    · exact Ind.withRecover (sectionP_indA.all s)
    · exact Ind.pure _ _
  · intro r s1 ht1 _
    cases r with
    | some ev => exact (pushEv_indA _).all _
    | none => exact parseMultilineBlock_ind s1 (by rw [ht1]; exact hs)

/-- the block uses none of the syntaxes that an extension reinterprets -/
def UsesNone (cs : CharSpec) (block : List Tok) : Bool := metaKeyCore cs block && stepCore block

/-- what `runBlock` runs -/
def runBlockBody (oldStyle : Bool) (block : List Tok) : P α Unit :=
  (if block.isEmpty then panicWith "BlockParser::new: empty tokens" else pure ()) >>= fun _ =>
  parseBlock oldStyle >>= fun _ =>
  get >>= fun s =>
  if s.cur ≠ s.toks.length then panicWith "Block tokens not parsed" else pure ()

theorem runBlock_eq (cs : CharSpec) (e : Ext) (oldStyle : Bool) (block : List Tok) (evs : Array (Ev α))
    (p : Option String) :
    runBlock cs e oldStyle block evs p =
      ((runBlockBody oldStyle block ⟨block, 0, e, cs, evs, p⟩).2.evs,
       (runBlockBody oldStyle block ⟨block, 0, e, cs, evs, p⟩).2.panic) := by
  unfold runBlock runBlockBody
  by_cases hb : block.isEmpty = true
  · simp only [hb, if_true]; rfl
  · simp only [hb, Bool.false_eq_true, if_false]; rfl

theorem panicWith_cur (site : String) (s : BP α) : (panicWith site s).2.cur = s.cur := by
  unfold panicWith
  show (if s.panic.isNone then { s with panic := some site } else s).cur = s.cur
  split <;> rfl

theorem runBlockBody_ind (oldStyle : Bool) (s : BP α) (hc : s.cur = 0) (h : UsesNone s.cs s.toks = true) :
    Ind (runBlockBody (α := α) oldStyle s.toks) s := by
  unfold UsesNone at h
  simp only [Bool.and_eq_true] at h
  unfold runBlockBody
  have hp : IndA (if s.toks.isEmpty then panicWith "BlockParser::new: empty tokens" else pure () : P α Unit) := by
    ind_auto
  refine Ind.bindS' (hp.all s) (Q := fun _ s' => s'.cur = s.cur) ?_ ?_
  · unfold Sat
    split
    · exact panicWith_cur _ s
    · rfl
  · intro _ s1 ht1 hcs1 hc1
    refine Ind.bind (parseBlock_ind oldStyle s1 (by rw [hc1, hc]) (by rw [hcs1, ht1]; exact h.1)
      (by rw [ht1]; exact h.2)) ?_
    refine (?_ : IndA _).all _
    ind_auto

/-- C02, parser part, one block: under `UsesNone` the events and the panic flag of a block do not
    depend on the extension set (any two raw bit patterns) -/
theorem runBlock_ext_irrelevant (cs : CharSpec) (e₁ e₂ : Ext) (oldStyle : Bool) (block : List Tok)
    (evs : Array (Ev α)) (p : Option String) (h : UsesNone cs block = true) :
    runBlock cs e₁ oldStyle block evs p = runBlock cs e₂ oldStyle block evs p := by
  rw [runBlock_eq, runBlock_eq]
  have hi := runBlockBody_ind (α := α) oldStyle ⟨block, 0, e₁, cs, evs, p⟩ rfl h
  have := hi.ext e₂
  have e0 : (⟨block, 0, e₁, cs, evs, p⟩ : BP α).withExt e₂ = ⟨block, 0, e₂, cs, evs, p⟩ := rfl
  rw [e0] at this
  dsimp only at this
  rw [this]
  rfl

/-- `parse_block` without the MODES clause: a `>>` entry is kept exactly when `oldStyle` -/
def parseBlockNoModes (oldStyle : Bool) : P α Unit := do
  let r : Option (Ev α) ← (do
    match ← peekK with
    | some .metaStart => withRecover do
      match ← metadataEntry with
      | some (.metadata key value) =>
        if oldStyle then return some (.metadata key value) else return none
      | _ => return none
    | some .eq => withRecover sectionP
    | _ => return none)
  match r with
  | some ev => pushEv ev
  | none => parseMultilineBlock

theorem withRecover_congr {β : Type} {f g : P α (Option β)} {s : BP α} (h : f s = g s) :
    withRecover f s = withRecover g s := by
  rw [withRecover_run_ext, withRecover_run_ext, h]

/-- with MODES off `parse_block` keeps or drops a `>>` entry (bracketed key or not) only according
    to `oldStyle` -/
theorem parseBlock_modes_off (oldStyle : Bool) (s : BP α) (h : s.ext.has Gen.EXT_MODES = false) :
    parseBlock (α := α) oldStyle s = parseBlockNoModes oldStyle s := by
  unfold parseBlock parseBlockNoModes
  rw [P_bind_run, P_bind_run]
  have hr : ∀ (k : Option TK),
      (match k with
        | some .metaStart => withRecover do
          match ← metadataEntry with
          | some (.metadata key value) =>
            let cs := (← get).cs
            let modes ← hasExt Gen.EXT_MODES
            if (isConfigKey cs key && modes) || oldStyle then return some (.metadata key value) else return none
          | _ => return none
        | some .eq => withRecover sectionP
        | _ => return none : P α (Option (Ev α))) s =
      (match k with
        | some .metaStart => withRecover do
          match ← metadataEntry with
          | some (.metadata key value) =>
            if oldStyle then return some (.metadata key value) else return none
          | _ => return none
        | some .eq => withRecover sectionP
        | _ => return none : P α (Option (Ev α))) s := by
    intro k
    split
    · apply withRecover_congr
      have he := (metadataEntry_indA.all s).ext_eq
      have : ∀ (m : Option (Ev α)) (s1 : BP α), s1.ext.has Gen.EXT_MODES = false →
          (match m with
            | some (.metadata key value) => do
              let cs := (← get).cs
              let modes ← hasExt Gen.EXT_MODES
              if (isConfigKey cs key && modes) || oldStyle then return some (.metadata key value) else return none
            | _ => return none : P α (Option (Ev α))) s1 =
          (match m with
            | some (.metadata key value) =>
              if oldStyle then return some (.metadata key value) else return none
            | _ => return none : P α (Option (Ev α))) s1 := by
        intro m s1 h1
        split
        · show (if (isConfigKey s1.cs _ && s1.ext.has Gen.EXT_MODES || oldStyle) = true then _ else _ :
            P α (Option (Ev α))) s1 = _
          rw [h1, Bool.and_false, Bool.false_or]
        · rfl
      rw [P_bind_run, P_bind_run]
      exact this _ _ (by rw [he]; exact h)
    · rfl
    · rfl
  have hp : peekK s = ((s.toks[s.cur]?).map (·.kind), s) := rfl
  rw [P_bind_run, P_bind_run, hp]
  have hr' := hr (Option.map (fun x => x.kind) s.toks[s.cur]?)
  exact congrArg (fun r : Option (Ev α) × BP α =>
    (match r.1 with
      | some ev => pushEv ev
      | none => parseMultilineBlock : P α Unit) r.2) hr'

/-! ### All blocks of an input -/

/-- the token stream `PullParser` splits into blocks (after the front matter, if any) -/
def inputTokens (cs : CharSpec) (input : List Char) : List Tok :=
  match parseFrontmatter cs input with
  | some fm => lexFrom cs fm.cookOffset fm.cookText
  | none => lex cs input

/-- every block of the input satisfies `UsesNone` -/
def UsesNoneInput (cs : CharSpec) (input : List Char) : Bool :=
  (allBlocks ((inputTokens cs input).length + 1) (inputTokens cs input)).all (UsesNone cs)

theorem foldl_runBlock_ext (cs : CharSpec) (e₁ e₂ : Ext) (oldStyle : Bool) (bs : List (List Tok))
    (h : ∀ b ∈ bs, UsesNone cs b = true) (acc : Array (Ev α) × Option String) :
    bs.foldl (fun acc b => runBlock cs e₁ oldStyle b acc.1 acc.2) acc =
    bs.foldl (fun acc b => runBlock cs e₂ oldStyle b acc.1 acc.2) acc := by
  induction bs generalizing acc with
  | nil => rfl
  | cons b bs ih =>
    simp only [List.foldl_cons]
    rw [runBlock_ext_irrelevant cs e₁ e₂ oldStyle b acc.1 acc.2 (h b (by simp))]
    exact ih (fun b' hb' => h b' (by simp [hb'])) _

theorem pullEvents_ext_irrelevant (cs : CharSpec) (e₁ e₂ : Ext) (input : List Char)
    (h : UsesNoneInput cs input = true) :
    pullEvents (α := α) cs e₁ input = pullEvents cs e₂ input := by
  unfold UsesNoneInput inputTokens at h
  unfold pullEvents
  rw [List.all_eq_true] at h
  cases hfm : parseFrontmatter cs input with
  | none =>
    rw [hfm] at h
    exact foldl_runBlock_ext cs e₁ e₂ true _ h _
  | some fm =>
    rw [hfm] at h
    exact foldl_runBlock_ext cs e₁ e₂ false _ h _

end Cook
