import CookModel.Lemmas.SerdeModsCollector
import CookModel.Lemmas.ParsedScaled
import CookModel.Lemmas.MetaFrontDiags
import CookModel.Num.Convert
import CookModel.Side.Serde
/-
  C15 — `RecipeModsKnown` for the recipes the C15 theorems are about: the recipe `parse` returns
  (`Col.toRecipe`, from the collector invariant of Lemmas/SerdeModsCollector.lean) and everything obtained from it
  by `scale` / `default_scale` / `scale_to_servings` and any number of `convert` calls (these copy the modifiers).
-/
set_option linter.unusedSectionVars false
set_option linter.unusedVariables false
namespace Cook
open Serde
variable {α : Type} [Arith α]

theorem recipeModsKnown_toRecipe (c : Col α) (h : ColModsOK c) : RecipeModsKnown c.toRecipe := h

theorem recipeModsKnown_scale (cv : Converter α) (r : ScalableRecipe α) (f : α) (h : RecipeModsKnown r) :
    RecipeModsKnown (recipeScale cv r f).1 := by
  refine ⟨?_, ?_⟩
  · intro i hi
    simp only [recipeScale, List.map_map, List.mem_map, Function.comp_def] at hi
    obtain ⟨j, hj, rfl⟩ := hi
    exact h.1 j hj
  · intro i hi
    simp only [recipeScale, List.map_map, List.mem_map, Function.comp_def] at hi
    obtain ⟨j, hj, rfl⟩ := hi
    have := h.2 j hj
    unfold scaleCookware
    split <;> exact this

theorem recipeModsKnown_scaleToServings (cv : Converter α) (r : ScalableRecipe α) (sv : Option (List Nat)) (t : Nat)
    (h : RecipeModsKnown r) : RecipeModsKnown (recipeScaleToServings cv r sv t).1 :=
  recipeModsKnown_scale cv r _ h

theorem recipeModsKnown_defaultScale (r : ScalableRecipe α) (h : RecipeModsKnown r) :
    RecipeModsKnown (recipeDefaultScale r) := by
  refine ⟨?_, ?_⟩
  · intro i hi
    simp only [recipeDefaultScale, List.mem_map] at hi
    obtain ⟨j, hj, rfl⟩ := hi
    exact h.1 j hj
  · intro i hi
    simp only [recipeDefaultScale, List.mem_map] at hi
    obtain ⟨j, hj, rfl⟩ := hi
    exact h.2 j hj

theorem recipeModsKnown_convert (cv : Converter α) (to : System) (r : ScaledRecipe α) (h : RecipeModsKnown r) :
    RecipeModsKnown (recipeConvert cv to r).1 := by
  refine ⟨?_, ?_⟩
  · intro i hi
    simp only [recipeConvert, List.map_map, List.mem_map, Function.comp_def] at hi
    obtain ⟨j, hj, rfl⟩ := hi
    exact h.1 j hj
  · intro i hi
    exact h.2 i hi

/-- a scaled recipe obtained from the parser: `parse` (any environment, any input), then `scale(factor)` /
    `scale_to_servings` with any converter or `default_scale`, then any number of `convert` calls (any
    converter, either system) -/
inductive ParsedDerived : ScaledRecipe α → Prop
  | scale (env : Env) (input : Str) (c : Col α) (h : (parseRecipe (α := α) env input).output = some c)
      (cv : Converter α) (f : α) : ParsedDerived (recipeScale cv c.toRecipe f).1
  | defaultScale (env : Env) (input : Str) (c : Col α) (h : (parseRecipe (α := α) env input).output = some c) :
      ParsedDerived (recipeDefaultScale c.toRecipe)
  | convert (cv : Converter α) (to : System) (r : ScaledRecipe α) (h : ParsedDerived r) :
      ParsedDerived (recipeConvert cv to r).1

theorem ParsedDerived.scaleToServings (env : Env) (input : Str) (c : Col α)
    (h : (parseRecipe (α := α) env input).output = some c) (cv : Converter α) (t : Nat) :
    ParsedDerived (recipeScaleToServings cv c.toRecipe c.servings t).1 :=
  .scale env input c h cv _

theorem ParsedDerived.modsKnown {r : ScaledRecipe α} (h : ParsedDerived r) : RecipeModsKnown r := by
  induction h with
  | scale env input c h cv f => exact recipeModsKnown_scale cv _ f (parseRecipe_modsOK env input c h)
  | defaultScale env input c h => exact recipeModsKnown_defaultScale _ (parseRecipe_modsOK env input c h)
  | convert cv to r _ ih => exact recipeModsKnown_convert cv to r ih

theorem ParsedScaled.derived {r : ScaledRecipe Rat} (h : ParsedScaled r) : ParsedDerived r := by
  obtain ⟨env, input, c, hc, ⟨cv, f, rfl⟩ | rfl⟩ := h
  · exact .scale env input c hc cv f
  · exact .defaultScale env input c hc

end Cook
