import CookModel.Num.IngList
import CookModel.Lemmas.GroupWeights
/-
  Lemmas about the ingredient list model (Num/IngList.lean) at `α := Rat`:
  the map operations, one ingredient with its references, `add_recipe`, `categorize`,
  and the reference tables of a recipe.
-/
namespace Cook
open Arith

/-! ### `BMap` -/

namespace BMap
variable {β : Type}

theorem strCmp_self (k : Str) : strCmp k k = .eq := by
  induction k with
  | nil => rfl
  | cons a as ih => simp [strCmp, ih]

theorem get?_replace (k : Str) (v : β) (m : BMap β) (k' : Str) (h : (m.get? k).isSome = true) :
    (replace k v m).get? k' = if k' = k then some v else m.get? k' := by
  induction m with
  | nil => simp [get?] at h
  | cons e rest ih =>
    unfold replace
    by_cases hek : e.1 = k
    · simp only [hek, if_true, get?]
      by_cases hk' : k' = k
      · simp [hk']
      · have : ¬ k = k' := fun h => hk' h.symm
        simp [hk', this]
    · have h' : (get? rest k).isSome = true := by simpa [get?, hek] using h
      simp only [hek, if_false, get?, ih h']
      by_cases he' : e.1 = k'
      · have : ¬ k' = k := fun h => hek (he'.trans h)
        simp [he', this]
      · simp [he']

theorem get?_insertSorted (k : Str) (v : β) (m : BMap β) (k' : Str) :
    (insertSorted k v m).get? k' = if k' = k then some v else m.get? k' := by
  induction m with
  | nil =>
    by_cases hk : k = k'
    · simp [insertSorted, get?, hk]
    · have : ¬ k' = k := fun h => hk h.symm
      simp [insertSorted, get?, hk, this]
  | cons e rest ih =>
    unfold insertSorted
    have front : get? ((k, v) :: e :: rest) k' = if k' = k then some v else get? (e :: rest) k' := by
      by_cases hk : k = k'
      · simp [get?, hk]
      · have : ¬ k' = k := fun h => hk h.symm
        simp [get?, hk, this]
    split
    · rename_i hgt
      have hne : e.1 ≠ k := by
        intro h; rw [← h, strCmp_self] at hgt; cases hgt
      simp only [get?, ih]
      by_cases he' : e.1 = k'
      · have : ¬ k' = k := fun h => hne (he'.trans h)
        simp [he', this]
      · simp [he']
    · exact front

theorem get?_upsert (k : Str) (f : Option β → β) (m : BMap β) (k' : Str) :
    (upsert k f m).get? k' = if k' = k then some (f (m.get? k)) else m.get? k' := by
  unfold upsert
  split
  · rename_i old hold
    rw [get?_replace k _ m k' (by simp [hold]), hold]
  · rename_i hnone
    rw [get?_insertSorted, hnone]

def keys (m : BMap β) : List Str := m.map (·.1)

theorem get?_none_iff (m : BMap β) (k : Str) : m.get? k = none ↔ k ∉ keys m := by
  induction m with
  | nil => simp [get?, keys]
  | cons e rest ih =>
    simp only [get?, keys, List.map_cons, List.mem_cons, not_or]
    by_cases he : e.1 = k
    · simp [he]
    · have : ¬ k = e.1 := fun h => he h.symm
      simp only [he, if_false, this, not_false_eq_true, true_and]
      exact ih

theorem keys_replace (k : Str) (v : β) (m : BMap β) : keys (replace k v m) = keys m := by
  induction m with
  | nil => rfl
  | cons e rest ih =>
    unfold replace
    split
    · simp [keys]
    · simp only [keys, List.map_cons] at ih ⊢
      rw [ih]

theorem keys_insertSorted_perm (k : Str) (v : β) (m : BMap β) :
    (keys (insertSorted k v m)).Perm (k :: keys m) := by
  induction m with
  | nil => exact List.Perm.refl _
  | cons e rest ih =>
    unfold insertSorted
    split
    · simp only [keys, List.map_cons] at ih ⊢
      exact (List.Perm.cons e.1 ih).trans (List.Perm.swap k e.1 _)
    · exact List.Perm.refl _

theorem keys_upsert_nodup (k : Str) (f : Option β → β) (m : BMap β) (h : (keys m).Nodup) :
    (keys (upsert k f m)).Nodup := by
  unfold upsert
  split
  · rw [keys_replace]; exact h
  · rename_i hnone
    have hk : k ∉ keys m := (get?_none_iff m k).mp hnone
    exact (keys_insertSorted_perm k _ m).nodup_iff.mpr (List.nodup_cons.mpr ⟨hk, h⟩)

end BMap

/-! ### one ingredient with its references -/

/-- the quantities at the given indices (indices out of range contribute nothing) -/
def quantitiesAt (all : List (Ingredient (Value Rat))) (js : List Nat) : List (SQuantity Rat) :=
  js.filterMap (fun j => (all[j]?).bind (·.quantity))

theorem refQuantities_some {all : List (Ingredient (Value Rat))} {js : List Nat}
    (h : ∀ j ∈ js, j < all.length) :
    ∃ qs, refQuantities all js = some qs ∧ qs.filterMap id = quantitiesAt all js := by
  induction js with
  | nil => exact ⟨[], rfl, rfl⟩
  | cons j rest ih =>
    obtain ⟨qs, hqs, hf⟩ := ih (fun x hx => h x (List.mem_cons_of_mem _ hx))
    have hj : j < all.length := h j List.mem_cons_self
    unfold refQuantities
    rw [List.getElem?_eq_getElem hj, hqs]
    refine ⟨_, rfl, ?_⟩
    simp only [quantitiesAt, List.filterMap_cons, List.getElem?_eq_getElem hj, Option.bind_some, id] at hf ⊢
    cases all[j].quantity with
    | none => simpa using hf
    | some q => simpa using hf

theorem refQuantities_none {all : List (Ingredient (Value Rat))} {js : List Nat}
    (h : ∃ j ∈ js, all.length ≤ j) : refQuantities all js = none := by
  induction js with
  | nil => obtain ⟨j, hj, _⟩ := h; cases hj
  | cons j rest ih =>
    unfold refQuantities
    obtain ⟨x, hx, hlen⟩ := h
    cases hget : all[j]? with
    | none => rfl
    | some i =>
      simp only
      rcases List.mem_cons.mp hx with rfl | hx'
      · rw [List.getElem?_eq_none hlen] at hget; cases hget
      · rw [ih ⟨x, hx', hlen⟩]

/-- with every `referenced_from` index in range, `all_quantities` yields the ingredient's own
    quantity followed by those of the referencing ingredients, in that order -/
theorem allQuantities_inRange {all : List (Ingredient (Value Rat))} {i : Ingredient (Value Rat)}
    (h : ∀ j ∈ i.relation.relation.referencedFrom, j < all.length) :
    allQuantities all i = some (i.quantity.toList ++ quantitiesAt all i.relation.relation.referencedFrom) := by
  obtain ⟨qs, hqs, hf⟩ := refQuantities_some h
  unfold allQuantities
  rw [hqs]
  simp only [List.filterMap_cons, id]
  cases i.quantity with
  | none => simp [hf]
  | some q => simp [hf]

/-- the quantities a definition stands for (nothing if its table is broken) -/
def defQuantities (all : List (Ingredient (Value Rat))) (i : Ingredient (Value Rat)) :
    List (SQuantity Rat) := (allQuantities all i).getD []

theorem groupQuantities_gsum {c : Converter Rat} {w : SQuantity Rat → Rat} (hw : Additive c w)
    (hf : FitInvariant c w) {all : List (Ingredient (Value Rat))} {i : Ingredient (Value Rat)}
    {g : GroupedQuantity Rat} (h : groupQuantities c all i = some g) :
    GroupedQuantity.gsum w g = sumBy w (defQuantities all i) := by
  unfold groupQuantities at h
  unfold defQuantities
  split at h
  · cases h
  · rename_i qs hqs
    simp only [Option.some.injEq] at h
    subst h
    rw [hqs, GroupedQuantity.fit_gsum hf, GroupedQuantity.addAll_gsum hw, GroupedQuantity.gsum_empty]
    simp only [Option.getD_some]; grind

theorem groupQuantities_isSome_iff (c : Converter Rat) (all : List (Ingredient (Value Rat)))
    (i : Ingredient (Value Rat)) :
    (groupQuantities c all i).isSome = (allQuantities all i).isSome := by
  unfold groupQuantities
  split <;> simp_all

/-! ### `group_ingredients`, `add_recipe` -/

def Ingredient.listedDef (i : Ingredient (Value Rat)) : Bool :=
  i.relation.isDefinition && i.modifiers.shouldBeListed

/-- what one recipe contributes to the entry `name` of a list, by the recipe's own tables: the
    quantities of every listed definition displayed as `name` -/
def contribution (w : SQuantity Rat → Rat) (name : Str) (all : List (Ingredient (Value Rat)))
    (l : List (Ingredient (Value Rat))) : Rat :=
  sumBy (fun i => if i.listedDef = true ∧ i.displayName = name then sumBy w (defQuantities all i) else 0) l

/-- every `referenced_from` index of every definition is in range -/
def RefsInRange (all : List (Ingredient (Value Rat))) : Prop :=
  ∀ i ∈ all, ∀ j ∈ i.relation.relation.referencedFrom, j < all.length

theorem groupFrom_spec {c : Converter Rat} {all : List (Ingredient (Value Rat))} :
    ∀ (l : List (Ingredient (Value Rat))) (idx : Nat) (es : List (GroupedIngredient Rat)),
      groupFrom c all idx l = some es →
      es.map (·.ingredient) = l.filter (fun i => i.relation.isDefinition) ∧
      (∀ e ∈ es, groupQuantities c all e.ingredient = some e.quantity) ∧
      es.map (·.index) = ((l.zipIdx idx).filter (fun p => p.1.relation.isDefinition)).map (·.2) := by
  intro l
  induction l with
  | nil =>
    intro idx es h
    simp only [groupFrom, Option.some.injEq] at h
    subst h
    exact ⟨rfl, by simp, rfl⟩
  | cons i rest ih =>
    intro idx es h
    unfold groupFrom at h
    by_cases hdef : i.relation.isDefinition = true
    · simp only [hdef, Bool.not_true, Bool.false_eq_true, if_false] at h
      split at h
      · cases h
      · rename_i g hg
        split at h
        · cases h
        · rename_i tl htl
          simp only [Option.some.injEq] at h
          subst h
          obtain ⟨h1, h2, h3⟩ := ih (idx + 1) tl htl
          refine ⟨by simp [hdef, h1], ?_, by simp [List.zipIdx_cons, hdef, h3]⟩
          intro e he
          rcases List.mem_cons.mp he with rfl | he'
          · exact hg
          · exact h2 e he'
    · have hdef' : i.relation.isDefinition = false := by simpa using hdef
      simp only [hdef', Bool.not_false, if_true] at h
      obtain ⟨h1, h2, h3⟩ := ih (idx + 1) es h
      exact ⟨by simp [hdef', h1], h2, by simp [List.zipIdx_cons, hdef', h3]⟩

theorem groupFrom_total {c : Converter Rat} {all : List (Ingredient (Value Rat))}
    (hall : RefsInRange all) :
    ∀ (l : List (Ingredient (Value Rat))) (idx : Nat), (∀ i ∈ l, i ∈ all) →
      ∃ es, groupFrom c all idx l = some es := by
  intro l
  induction l with
  | nil => intro idx _; exact ⟨[], rfl⟩
  | cons i rest ih =>
    intro idx hl
    obtain ⟨tl, htl⟩ := ih (idx + 1) (fun x hx => hl x (List.mem_cons_of_mem _ hx))
    unfold groupFrom
    split
    · exact ⟨tl, htl⟩
    · have hq := allQuantities_inRange (hall i (hl i List.mem_cons_self))
      have : (groupQuantities c all i).isSome = true := by
        rw [groupQuantities_isSome_iff, hq]; rfl
      cases hg : groupQuantities c all i with
      | none => rw [hg] at this; cases this
      | some g => simp only [htl]; exact ⟨_, rfl⟩

/-- the weight of the entry `name` of a list -/
def entryW (w : SQuantity Rat → Rat) (m : IngredientList Rat) (name : Str) : Rat :=
  optW (GroupedQuantity.gsum w) (m.get? name)

theorem addIngredient_entryW {c : Converter Rat} {w : SQuantity Rat → Rat} (hw : Additive c w)
    (ord : MapOrder Rat) (hord : ord.IsPerm) (m : IngredientList Rat) (n : Str)
    (q : GroupedQuantity Rat) (name : Str) :
    entryW w (addIngredient ord c m n q) name =
      entryW w m name + (if name = n then GroupedQuantity.gsum w q else 0) := by
  unfold entryW addIngredient
  rw [BMap.get?_upsert]
  by_cases hn : name = n
  · subst hn
    simp only [if_true, optW_some, GroupedQuantity.merge_gsum hw ord hord]
    cases m.get? name with
    | none => simp [GroupedQuantity.gsum_empty]
    | some g => simp
  · simp only [hn, if_false]; grind

theorem foldl_addEntry_entryW {c : Converter Rat} {w : SQuantity Rat → Rat} (hw : Additive c w)
    (ord : MapOrder Rat) (hord : ord.IsPerm) (es : List (GroupedIngredient Rat))
    (m : IngredientList Rat) (name : Str) :
    entryW w (es.foldl (addEntry ord c) m) name = entryW w m name +
      sumBy (fun e => if e.ingredient.modifiers.shouldBeListed = true ∧ e.ingredient.displayName = name
        then GroupedQuantity.gsum w e.quantity else 0) es := by
  induction es generalizing m with
  | nil => simp only [List.foldl_nil, sumBy_nil]; grind
  | cons e rest ih =>
    simp only [List.foldl_cons, sumBy_cons, ih]
    unfold addEntry
    by_cases hl : e.ingredient.modifiers.shouldBeListed = true
    · simp only [hl, Bool.not_true, Bool.false_eq_true, if_false, true_and,
        addIngredient_entryW hw ord hord]
      by_cases hn : name = e.ingredient.displayName
      · simp only [hn, if_true]; grind
      · have : ¬ e.ingredient.displayName = name := fun h => hn h.symm
        simp only [hn, this, if_false]; grind
    · have hl' : e.ingredient.modifiers.shouldBeListed = false := by simpa using hl
      simp only [hl', Bool.not_false, if_true, Bool.false_eq_true, false_and, if_false]; grind

theorem addRecipe_entryW {c : Converter Rat} {w : SQuantity Rat → Rat} (hw : Additive c w)
    (hf : FitInvariant c w) (ord : MapOrder Rat) (hord : ord.IsPerm) (m m' : IngredientList Rat)
    (r : ScaledRecipe Rat) (h : addRecipe ord c m r = some m') (name : Str) :
    entryW w m' name = entryW w m name + contribution w name r.ingredients r.ingredients := by
  unfold addRecipe groupIngredients at h
  split at h
  · cases h
  · rename_i es hes
    simp only [Option.some.injEq] at h
    subst h
    obtain ⟨h1, h2, _⟩ := groupFrom_spec _ _ _ hes
    rw [foldl_addEntry_entryW hw ord hord]
    congr 1
    -- rewrite the sum over the grouped entries as a sum over the definitions of the recipe
    have hsum : sumBy (fun e : GroupedIngredient Rat =>
          if e.ingredient.modifiers.shouldBeListed = true ∧ e.ingredient.displayName = name
          then GroupedQuantity.gsum w e.quantity else 0) es =
        sumBy (fun e : GroupedIngredient Rat =>
          if e.ingredient.modifiers.shouldBeListed = true ∧ e.ingredient.displayName = name
          then sumBy w (defQuantities r.ingredients e.ingredient) else 0) es := by
      apply sumBy_congr
      intro e he
      rw [groupQuantities_gsum hw hf (h2 e he)]
    rw [hsum, ← sumBy_map (fun i : Ingredient (Value Rat) =>
        if i.modifiers.shouldBeListed = true ∧ i.displayName = name
        then sumBy w (defQuantities r.ingredients i) else 0) (·.ingredient) es, h1, sumBy_filter]
    unfold contribution
    apply sumBy_congr
    intro i _
    unfold Ingredient.listedDef
    cases i.relation.isDefinition <;> simp

theorem addRecipe_total {c : Converter Rat} (ord : MapOrder Rat) (m : IngredientList Rat)
    (r : ScaledRecipe Rat) (hr : RefsInRange r.ingredients) : ∃ m', addRecipe ord c m r = some m' := by
  obtain ⟨es, hes⟩ := groupFrom_total (c := c) hr r.ingredients 0 (fun _ h => h)
  unfold addRecipe groupIngredients
  rw [hes]
  exact ⟨_, rfl⟩

theorem addRecipes_entryW {c : Converter Rat} {w : SQuantity Rat → Rat} (hw : Additive c w)
    (hf : FitInvariant c w) (ord : MapOrder Rat) (hord : ord.IsPerm) (rs : List (ScaledRecipe Rat))
    (m m' : IngredientList Rat) (h : addRecipes ord c m rs = some m') (name : Str) :
    entryW w m' name = entryW w m name +
      sumBy (fun r => contribution w name r.ingredients r.ingredients) rs := by
  induction rs generalizing m with
  | nil =>
    simp only [addRecipes, Option.some.injEq] at h
    subst h
    simp only [sumBy_nil]; grind
  | cons r rest ih =>
    unfold addRecipes at h
    split at h
    · cases h
    · rename_i m1 hm1
      rw [ih m1 h, addRecipe_entryW hw hf ord hord m m1 r hm1, sumBy_cons]; grind

theorem addRecipes_total {c : Converter Rat} (ord : MapOrder Rat) (rs : List (ScaledRecipe Rat))
    (m : IngredientList Rat) (hr : ∀ r ∈ rs, RefsInRange r.ingredients) :
    ∃ m', addRecipes ord c m rs = some m' := by
  induction rs generalizing m with
  | nil => exact ⟨m, rfl⟩
  | cons r rest ih =>
    obtain ⟨m1, hm1⟩ := addRecipe_total (c := c) ord m r (hr r List.mem_cons_self)
    obtain ⟨m', hm'⟩ := ih m1 (fun x hx => hr x (List.mem_cons_of_mem _ hx))
    exact ⟨m', by unfold addRecipes; rw [hm1]; exact hm'⟩

/-- the names of a list are display names of listed definitions -/
theorem foldl_addEntry_keys {c : Converter Rat} (ord : MapOrder Rat) (es : List (GroupedIngredient Rat))
    (m : IngredientList Rat) (name : Str) :
    ((es.foldl (addEntry ord c) m).get? name).isSome = true ↔
      (m.get? name).isSome = true ∨
      ∃ e ∈ es, e.ingredient.modifiers.shouldBeListed = true ∧ e.ingredient.displayName = name := by
  induction es generalizing m with
  | nil => simp
  | cons e rest ih =>
    simp only [List.foldl_cons, ih, List.mem_cons, exists_eq_or_imp]
    unfold addEntry
    by_cases hl : e.ingredient.modifiers.shouldBeListed = true
    · simp only [hl, Bool.not_true, Bool.false_eq_true, if_false, true_and]
      unfold addIngredient
      rw [BMap.get?_upsert]
      by_cases hn : name = e.ingredient.displayName
      · subst hn; simp
      · have : ¬ e.ingredient.displayName = name := fun h => hn h.symm
        simp [hn, this]
    · have hl' : e.ingredient.modifiers.shouldBeListed = false := by simpa using hl
      simp [hl']

theorem foldl_addEntry_nodup {c : Converter Rat} (ord : MapOrder Rat) (es : List (GroupedIngredient Rat))
    (m : IngredientList Rat) (h : (BMap.keys m).Nodup) :
    (BMap.keys (es.foldl (addEntry ord c) m)).Nodup := by
  induction es generalizing m with
  | nil => exact h
  | cons e rest ih =>
    simp only [List.foldl_cons]
    apply ih
    unfold addEntry
    split
    · exact h
    · exact BMap.keys_upsert_nodup _ _ _ h

theorem addRecipes_nodup {c : Converter Rat} (ord : MapOrder Rat) (rs : List (ScaledRecipe Rat))
    (m m' : IngredientList Rat) (hm : (BMap.keys m).Nodup) (h : addRecipes ord c m rs = some m') :
    (BMap.keys m').Nodup := by
  induction rs generalizing m with
  | nil => simp only [addRecipes, Option.some.injEq] at h; subst h; exact hm
  | cons r rest ih =>
    unfold addRecipes at h
    split at h
    · cases h
    · rename_i m1 hm1
      apply ih m1 _ h
      unfold addRecipe at hm1
      split at hm1
      · cases hm1
      · simp only [Option.some.injEq] at hm1
        subst hm1
        exact foldl_addEntry_nodup ord _ m hm

/-! ### `categorize` -/

/-- weight found under (category, common name) -/
def catW (w : SQuantity Rat → Rat) (acc : Categorized Rat) (cat common : Str) : Rat :=
  optW (GroupedQuantity.gsum w) ((acc.categories.get? cat).bind (fun l => l.get? common))

/-- weight found under a name of the `other` list -/
def otherW (w : SQuantity Rat → Rat) (acc : Categorized Rat) (name : Str) : Rat :=
  optW (GroupedQuantity.gsum w) (acc.other.get? name)

/-- does the aisle configuration send `name` to (category, common name)? -/
def sentTo (aisle : Aisle.Conf) (name cat common : Str) : Prop :=
  ∃ info, Aisle.lookup aisle name = some info ∧ info.category = cat ∧ info.common = common

instance (aisle : Aisle.Conf) (name cat common : Str) : Decidable (sentTo aisle name cat common) := by
  unfold sentTo
  cases h : Aisle.lookup aisle name with
  | none => exact isFalse (by simp)
  | some info =>
    by_cases h1 : info.category = cat ∧ info.common = common
    · exact isTrue ⟨info, rfl, h1.1, h1.2⟩
    · exact isFalse (by rintro ⟨i, hi, h2, h3⟩; cases hi; exact h1 ⟨h2, h3⟩)

theorem categorizeStep_catW {w : SQuantity Rat → Rat} (hw : JoinAdditive w) (ord : MapOrder Rat)
    (hord : ord.IsPerm) (aisle : Aisle.Conf) (acc : Categorized Rat) (e : Str × GroupedQuantity Rat)
    (cat common : Str) :
    catW w (categorizeStep ord aisle acc e) cat common = catW w acc cat common +
      (if sentTo aisle e.1 cat common then GroupedQuantity.gsum w e.2 else 0) := by
  unfold categorizeStep
  cases hl : Aisle.lookup aisle e.1 with
  | none =>
    have : ¬ sentTo aisle e.1 cat common := by rintro ⟨i, hi, _⟩; rw [hl] at hi; cases hi
    simp only [this, if_false, catW]; grind
  | some info =>
    simp only [catW, BMap.get?_upsert]
    by_cases hc : cat = info.category
    · subst hc
      simp only [if_true, Option.bind_some, BMap.get?_upsert]
      by_cases hn : common = info.common
      · subst hn
        have hs : sentTo aisle e.1 info.category info.common := ⟨info, hl, rfl, rfl⟩
        simp only [if_true, hs, optW_some]
        cases hcat : acc.categories.get? info.category with
        | none => simp [intoCommon, BMap.get?]; grind
        | some l =>
          simp only [Option.getD_some, Option.bind_some]
          cases hg : l.get? info.common with
          | none => simp [intoCommon]; grind
          | some g => simp [intoCommon, GroupedQuantity.absorb_gsum hw ord hord]
      · have hs : ¬ sentTo aisle e.1 info.category common := by
          rintro ⟨i, hi, _, h3⟩; rw [hl] at hi; cases hi; exact hn h3.symm
        simp only [hn, hs, if_false]
        cases hcat : acc.categories.get? info.category with
        | none => simp [BMap.get?]; grind
        | some l => simp; grind
    · have hs : ¬ sentTo aisle e.1 cat common := by
        rintro ⟨i, hi, h2, _⟩; rw [hl] at hi; cases hi; exact hc h2.symm
      simp only [hc, hs, if_false]; grind

theorem categorize_catW {w : SQuantity Rat → Rat} (hw : JoinAdditive w) (ord : MapOrder Rat)
    (hord : ord.IsPerm) (aisle : Aisle.Conf) (l : IngredientList Rat) (acc : Categorized Rat)
    (cat common : Str) :
    catW w (l.foldl (categorizeStep ord aisle) acc) cat common = catW w acc cat common +
      sumBy (fun e => if sentTo aisle e.1 cat common then GroupedQuantity.gsum w e.2 else 0) l := by
  induction l generalizing acc with
  | nil => simp only [List.foldl_nil, sumBy_nil]; grind
  | cons e rest ih =>
    simp only [List.foldl_cons, sumBy_cons, ih, categorizeStep_catW hw ord hord]; grind

theorem categorizeStep_other_get? (ord : MapOrder Rat) (aisle : Aisle.Conf) (acc : Categorized Rat)
    (e : Str × GroupedQuantity Rat) (name : Str) :
    (categorizeStep ord aisle acc e).other.get? name =
      if Aisle.lookup aisle e.1 = none ∧ name = e.1 then some e.2 else acc.other.get? name := by
  unfold categorizeStep
  cases hl : Aisle.lookup aisle e.1 with
  | none => simp [BMap.get?_upsert]
  | some info => simp

theorem categorize_otherW {w : SQuantity Rat → Rat} (ord : MapOrder Rat) (aisle : Aisle.Conf)
    (l : IngredientList Rat) (acc : Categorized Rat) (hnd : (BMap.keys l).Nodup)
    (hfresh : ∀ k ∈ BMap.keys l, acc.other.get? k = none) (name : Str) :
    otherW w (l.foldl (categorizeStep ord aisle) acc) name = otherW w acc name +
      sumBy (fun e => if Aisle.lookup aisle e.1 = none ∧ e.1 = name then GroupedQuantity.gsum w e.2 else 0) l := by
  induction l generalizing acc with
  | nil => simp only [List.foldl_nil, sumBy_nil]; grind
  | cons e rest ih =>
    simp only [BMap.keys, List.map_cons, List.nodup_cons, List.mem_cons, forall_eq_or_imp] at hnd hfresh
    have hrest : ∀ k ∈ BMap.keys rest, (categorizeStep ord aisle acc e).other.get? k = none := by
      intro k hk
      rw [categorizeStep_other_get?]
      have : k ≠ e.1 := fun h => hnd.1 (h ▸ hk)
      simp [this, hfresh.2 k hk]
    simp only [List.foldl_cons, sumBy_cons]
    rw [ih _ hnd.2 hrest]
    unfold otherW
    rw [categorizeStep_other_get?]
    by_cases hc : Aisle.lookup aisle e.1 = none ∧ name = e.1
    · obtain ⟨h1, h2⟩ := hc
      subst h2
      simp [h1, hfresh.1]; grind
    · have hc' : ¬ (Aisle.lookup aisle e.1 = none ∧ e.1 = name) := fun h => hc ⟨h.1, h.2.symm⟩
      simp only [hc, hc', if_false]; grind

/-! ### the reference tables of a recipe -/

/-- C06's invariant, as far as grouping needs it -/
structure RefsConsistent (all : List (Ingredient (Value Rat))) : Prop where
  /-- every `referenced_from` index is in range and points to a reference to this definition -/
  pointsBack : ∀ (d : Nat) (i : Ingredient (Value Rat)), all[d]? = some i →
    ∀ j ∈ i.relation.relation.referencedFrom,
    ∃ ij : Ingredient (Value Rat), all[j]? = some ij ∧ ij.relation = ⟨.reference d, some .ingredient⟩
  /-- every reference to an ingredient is registered with its definition -/
  registered : ∀ (j : Nat) (ij : Ingredient (Value Rat)) (d : Nat), all[j]? = some ij →
    ij.relation = ⟨.reference d, some .ingredient⟩ →
    ∃ i : Ingredient (Value Rat), all[d]? = some i ∧ i.relation.isDefinition = true ∧
      j ∈ i.relation.relation.referencedFrom
  /-- …once -/
  nodup : ∀ (d : Nat) (i : Ingredient (Value Rat)), all[d]? = some i →
    i.relation.relation.referencedFrom.Nodup

theorem RefsConsistent.inRange {all : List (Ingredient (Value Rat))} (h : RefsConsistent all) :
    RefsInRange all := by
  intro i hi j hj
  obtain ⟨d, hd⟩ := List.mem_iff_getElem?.mp hi
  obtain ⟨ij, hij, _⟩ := h.pointsBack d i hd j hj
  exact (List.getElem?_eq_some_iff.mp hij).1

/-- the indices whose quantities are grouped under the definition at `d` -/
def groupIndices (i : Ingredient (Value Rat)) (d : Nat) : List Nat :=
  d :: i.relation.relation.referencedFrom

/-- an ingredient that stands for itself or for another ingredient (not for a step/section) -/
def Ingredient.owned (i : Ingredient (Value Rat)) : Bool :=
  i.relation.isDefinition ||
    (i.relation.relation.isReference && decide (i.relation.referenceTarget = some .ingredient))

theorem isDefinition_reference (d : Nat) (t : Option RefTarget) :
    (⟨.reference d, t⟩ : IngredientRelation).isDefinition = false := rfl

theorem groupIndices_nodup {all : List (Ingredient (Value Rat))} (h : RefsConsistent all)
    {d : Nat} {i : Ingredient (Value Rat)} (hd : all[d]? = some i) (hdef : i.relation.isDefinition = true) :
    (groupIndices i d).Nodup := by
  unfold groupIndices
  refine List.nodup_cons.mpr ⟨?_, h.nodup d i hd⟩
  intro hmem
  obtain ⟨ij, hij, hrel⟩ := h.pointsBack d i hd d hmem
  rw [hd] at hij
  simp only [Option.some.injEq] at hij
  subst hij
  rw [hrel, isDefinition_reference] at hdef
  cases hdef

/-- every owned ingredient is reached from exactly one definition -/
theorem owned_unique {all : List (Ingredient (Value Rat))} (h : RefsConsistent all)
    {j : Nat} {ij : Ingredient (Value Rat)} (hj : all[j]? = some ij) (hown : ij.owned = true) :
    ∃ d i, all[d]? = some i ∧ i.relation.isDefinition = true ∧ j ∈ groupIndices i d ∧
      ∀ d' i', all[d']? = some i' → i'.relation.isDefinition = true → j ∈ groupIndices i' d' → d' = d := by
  by_cases hdef : ij.relation.isDefinition = true
  · refine ⟨j, ij, hj, hdef, List.mem_cons_self, ?_⟩
    intro d' i' hd' _ hmem
    rcases List.mem_cons.mp hmem with rfl | hmem'
    · rfl
    · obtain ⟨x, hx, hrel⟩ := h.pointsBack d' i' hd' j hmem'
      rw [hj] at hx
      simp only [Option.some.injEq] at hx
      subst hx
      rw [hrel, isDefinition_reference] at hdef
      cases hdef
  · -- a reference to an ingredient
    have hdef' : ij.relation.isDefinition = false := by simpa using hdef
    simp only [Ingredient.owned, hdef', Bool.false_or, Bool.and_eq_true, decide_eq_true_eq] at hown
    obtain ⟨href, htarget⟩ := hown
    cases hrel : ij.relation.relation with
    | definition rf s => rw [hrel] at href; cases href
    | reference d =>
      have hfull : ij.relation = ⟨.reference d, some .ingredient⟩ := by
        cases hr : ij.relation with
        | mk rel tgt =>
          rw [hr] at hrel htarget
          simp only at hrel htarget
          rw [hrel, htarget]
      obtain ⟨i, hd, hidef, hmem⟩ := h.registered j ij d hj hfull
      refine ⟨d, i, hd, hidef, List.mem_cons_of_mem _ hmem, ?_⟩
      intro d' i' hd' hdef'' hmem'
      rcases List.mem_cons.mp hmem' with rfl | hmem''
      · rw [hj] at hd'
        simp only [Option.some.injEq] at hd'
        subst hd'
        rw [hdef'] at hdef''; cases hdef''
      · obtain ⟨x, hx, hrel'⟩ := h.pointsBack d' i' hd' j hmem''
        rw [hj] at hx
        simp only [Option.some.injEq] at hx
        subst hx
        rw [hfull] at hrel'
        simp only [IngredientRelation.mk.injEq, ComponentRelation.reference.injEq, and_true] at hrel'
        exact hrel'.symm

/-- nothing foreign is counted under a definition -/
theorem groupIndices_owned {all : List (Ingredient (Value Rat))} (h : RefsConsistent all)
    {d : Nat} {i : Ingredient (Value Rat)} (hd : all[d]? = some i) (hdef : i.relation.isDefinition = true)
    {j : Nat} (hj : j ∈ groupIndices i d) : ∃ ij, all[j]? = some ij ∧ ij.owned = true := by
  rcases List.mem_cons.mp hj with rfl | hmem
  · exact ⟨i, hd, by simp [Ingredient.owned, hdef]⟩
  · obtain ⟨ij, hij, hrel⟩ := h.pointsBack d i hd j hmem
    exact ⟨ij, hij, by simp [Ingredient.owned, hrel, ComponentRelation.isReference]⟩

end Cook
