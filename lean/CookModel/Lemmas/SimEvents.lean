import CookModel.Lemmas.SimParser
import CookModel.Lemmas.ParserBlocks
/-
  The block parsers on related blocks (see `SimParser.lean`): `metadata_entry`, `section`, text
  blocks, steps without component markers, `parse_block`, `runBlock`, and the fold over all blocks.
-/
set_option linter.unusedSectionVars false
set_option linter.unusedVariables false
namespace Cook

variable {α : Type} [Arith α]

section rel
variable {cs : CharSpec} {ts' ts : List Tok}
variable (hu : UwsNL cs) (hts : LRel TokSim ts' ts)
include hu hts

theorem metadataEntry_rel :
    Rel cs ts' ts (metadataEntry (α := α)) metadataEntry (OptRel (EvSim cs.uws)) := by
  unfold metadataEntry
  refine Rel.bind (consumeK_rel hts _) fun a' a ha => ?_
  rcases ha.elim with ⟨rfl, rfl⟩ | ⟨x', x, rfl, rfl, hx⟩
  · exact Rel.pure (α := α) OptRel.none_none
  · dsimp only
    refine Rel.bind currentOffset_rel fun o' o _ => ?_
    refine Rel.bind (untilK_rel hts _) fun r' r hr => ?_
    rcases hr.elim with ⟨rfl, rfl⟩ | ⟨k', k, rfl, rfl, hk⟩
    · dsimp only
      refine Rel.bind bpSpan_rel fun sp' sp _ => ?_
      exact Rel.bind (pwarn_rel _ rfl) fun _ _ _ => Rel.pure (α := α) OptRel.none_none
    · dsimp only
      refine Rel.bind (bpText_rel hu hk _ _) fun key' key hkey => ?_
      refine Rel.bind (bump_rel hts _) fun _ _ _ => ?_
      refine Rel.bind currentOffset_rel fun vo' vo _ => ?_
      refine Rel.bind (consumeRest_rel hts) fun v' v hv => ?_
      refine Rel.bind (bpText_rel hu hv _ _) fun val' val hval => ?_
      refine Rel.bind Rel.get fun g' g hg => ?_
      have hres : OptRel (EvSim (α := α) cs.uws) (some (.metadata key' val')) (some (.metadata key val)) :=
        OptRel.some_some (EvSim.mk_metadata hkey hval)
      simp only [hg.csL, hg.csR, hkey.isTextEmpty, hval.isTextEmpty]
      split
      · exact Rel.bind (perr_rel _ rfl) fun _ _ _ => Rel.pure (α := α) hres
      · split
        · exact Rel.bind (pwarn_rel _ rfl) fun _ _ _ => Rel.pure (α := α) hres
        · exact Rel.pure (α := α) hres

theorem sectionP_rel :
    Rel cs ts' ts (sectionP (α := α)) sectionP (OptRel (EvSim cs.uws)) := by
  unfold sectionP
  refine Rel.bind (consumeK_rel hts _) fun a' a ha => ?_
  rcases ha.elim with ⟨rfl, rfl⟩ | ⟨x', x, rfl, rfl, hx⟩
  · exact Rel.pure (α := α) OptRel.none_none
  · dsimp only
    refine Rel.bind (consumeWhile_rel hts _) fun _ _ _ => ?_
    refine Rel.bind currentOffset_rel fun o' o _ => ?_
    refine Rel.bind (consumeWhile_rel hts _) fun n' n hn => ?_
    refine Rel.bind (bpText_rel hu hn _ _) fun name' name hname => ?_
    refine Rel.bind (consumeWhile_rel hts _) fun _ _ _ => ?_
    unfold wsComments
    refine Rel.bind (consumeWhile_rel hts _) fun _ _ _ => ?_
    refine Rel.bind (restToks_rel hts) fun r' r hr => ?_
    rw [hr.isEmpty]
    split
    · exact Rel.bind (pwarn_rel _ rfl) fun _ _ _ => Rel.pure (α := α) OptRel.none_none
    · refine Rel.bind Rel.get fun g' g hg => ?_
      simp only [hg.csL, hg.csR, hname.isTextEmpty]
      refine Rel.pure (α := α) (OptRel.some_some (EvSim.mk_section ?_))
      split
      · exact OptRel.none_none
      · exact OptRel.some_some hname

/-- one line of a text block (after the optional `>` marker) followed by related continuations -/
theorem textLineK_rel {k' k : P α Unit} (hk : Rel cs ts' ts k' k (fun _ _ => True)) :
    Rel cs ts' ts (textLineK k') (textLineK k) (fun _ _ => True) := by
  unfold textLineK
  refine Rel.bind currentOffset_rel fun o' o _ => ?_
  refine Rel.bind getCur_rel fun c' c hc => ?_
  subst hc
  refine Rel.bind (consumeWhile_rel hts _) fun _ _ _ => ?_
  refine Rel.bind (consumeK_rel hts _) fun _ _ _ => ?_
  refine Rel.bind Rel.get fun g' g hg => ?_
  have hl : LRel TokSim ((g'.toks.take g'.cur).drop c') ((g.toks.take g.cur).drop c') := by
    rw [hg.toks', hg.toks, hg.cur]; exact (hts.take _).drop _
  dsimp only
  refine Rel.bind (bpText_rel hu hl _ _) fun t' t ht => ?_
  simp only [hg.csL, hg.csR, ht.isTextEmpty]
  split
  · exact Rel.bind (pushEv_rel (EvSim.mk_text ht)) fun _ _ _ => hk
  · exact hk

theorem textBlockLoop_rel (fuel : Nat) :
    Rel cs ts' ts (textBlockLoop (α := α) fuel) (textBlockLoop fuel) (fun _ _ => True) := by
  induction fuel with
  | zero =>
    unfold textBlockLoop
    refine Rel.bind (restToks_rel hts) fun r' r hr => ?_
    rw [hr.isEmpty]
    split
    · exact panicWith_rel _ _
    · exact Rel.pure (α := α) (A := fun _ _ => True) trivial
  | succ fuel ih =>
    unfold textBlockLoop
    refine Rel.bind (restToks_rel hts) fun r' r hr => ?_
    rw [hr.isEmpty]
    split
    · exact Rel.pure (α := α) (A := fun _ _ => True) trivial
    · refine Rel.bind (consumeK_rel hts _) fun a' a ha => ?_
      rcases ha.elim with ⟨rfl, rfl⟩ | ⟨x', x, rfl, rfl, hx⟩
      · exact textLineK_rel hu hts ih
      · dsimp only
        exact Rel.bind (consumeK_rel hts _) fun _ _ _ => textLineK_rel hu hts ih

theorem parseTextBlock_rel :
    Rel cs ts' ts (parseTextBlock (α := α)) parseTextBlock (fun _ _ => True) := by
  unfold parseTextBlock
  refine Rel.bind (pushEv_rel (EvSim.mk_start _)) fun _ _ _ => ?_
  refine Rel.bind (restToks_rel hts) fun r' r hr => ?_
  rw [hr.length_eq]
  refine Rel.bind (textBlockLoop_rel hu hts _) fun _ _ _ => ?_
  exact pushEv_rel (EvSim.mk_stop _)

/-- no component marker (`@ # ~`) among the tokens -/
def NoMarker (ts : List Tok) : Prop := ∀ t ∈ ts, isMarker t.kind = false

theorem stepOne_rel (hnm : NoMarker ts) :
    Rel cs ts' ts (stepOne (α := α)) stepOne (fun _ _ => True) := by
  unfold stepOne
  refine Rel.bind (A := fun a' a => a' = none ∧ a = none) ?_ ?_
  · refine Rel.bind (peekK_rel hts) fun a' a ha => ?_
    obtain ⟨rfl, hk⟩ := ha
    have hno : ∀ k, a' = some k → isMarker k = false := by
      intro k hk'
      obtain ⟨t, ht, e⟩ := hk k hk'
      rw [← e]; exact hnm t ht
    split
    · exact absurd (hno _ rfl) (by decide)
    · exact absurd (hno _ rfl) (by decide)
    · exact absurd (hno _ rfl) (by decide)
    · exact Rel.pure (α := α) ⟨rfl, rfl⟩
  · rintro a' a ⟨rfl, rfl⟩
    dsimp only
    refine Rel.bind currentOffset_rel fun o' o _ => ?_
    refine Rel.bind getCur_rel fun c' c hc => ?_
    subst hc
    refine Rel.bind (bumpAny_rel hts) fun _ _ _ => ?_
    refine Rel.bind (consumeWhile_rel hts _) fun _ _ _ => ?_
    refine Rel.bind Rel.get fun g' g hg => ?_
    have hl : LRel TokSim ((g'.toks.take g'.cur).drop c') ((g.toks.take g.cur).drop c') := by
      rw [hg.toks', hg.toks, hg.cur]; exact (hts.take _).drop _
    try dsimp only
    refine Rel.bind (bpText_rel hu hl _ _) fun t' t ht => ?_
    rw [ht.frags_isEmpty]
    split
    · exact pushEv_rel (EvSim.mk_text ht)
    · exact Rel.pure (α := α) (A := fun _ _ => True) trivial

theorem stepLoop_rel (hnm : NoMarker ts) (fuel : Nat) :
    Rel cs ts' ts (stepLoop (α := α) fuel) (stepLoop fuel) (fun _ _ => True) := by
  induction fuel with
  | zero =>
    unfold stepLoop
    refine Rel.bind (restToks_rel hts) fun r' r hr => ?_
    rw [hr.isEmpty]
    split
    · exact panicWith_rel _ _
    · exact Rel.pure (α := α) (A := fun _ _ => True) trivial
  | succ fuel ih =>
    unfold stepLoop
    refine Rel.bind (restToks_rel hts) fun r' r hr => ?_
    rw [hr.isEmpty]
    split
    · exact Rel.pure (α := α) (A := fun _ _ => True) trivial
    · exact Rel.bind (stepOne_rel hu hts hnm) fun _ _ _ => ih

theorem parseStep_rel (hnm : NoMarker ts) :
    Rel cs ts' ts (parseStep (α := α)) parseStep (fun _ _ => True) := by
  unfold parseStep
  refine Rel.bind (pushEv_rel (EvSim.mk_start _)) fun _ _ _ => ?_
  refine Rel.bind (restToks_rel hts) fun r' r hr => ?_
  rw [hr.length_eq]
  refine Rel.bind (stepLoop_rel hu hts hnm _) fun _ _ _ => ?_
  exact pushEv_rel (EvSim.mk_stop _)

theorem parseMultilineBlock_rel (hnm : NoMarker ts) :
    Rel cs ts' ts (parseMultilineBlock (α := α)) parseMultilineBlock (fun _ _ => True) := by
  unfold parseMultilineBlock
  refine Rel.bind (allToks_rel hts) fun l' l hl => ?_
  rw [hl.all (tokSim_kindPres.agree isEmptyTok)]
  split
  · exact Rel.bind (consumeRest_rel hts) fun _ _ _ => Rel.pure (α := α) (A := fun _ _ => True) trivial
  · refine Rel.bind (peekK_rel hts) fun a' a ha => ?_
    obtain ⟨rfl, -⟩ := ha
    split
    · exact parseTextBlock_rel hu hts
    · exact parseStep_rel hu hts hnm

theorem parseBlock_rel (hnm : NoMarker ts) (oldStyle : Bool) :
    Rel cs ts' ts (parseBlock (α := α) oldStyle) (parseBlock oldStyle) (fun _ _ => True) := by
  unfold parseBlock
  refine Rel.bind (A := OptRel (EvSim cs.uws)) ?_ ?_
  · refine Rel.bind (peekK_rel hts) fun a' a ha => ?_
    obtain ⟨rfl, -⟩ := ha
    split
    · apply withRecover_rel
      refine Rel.bind (metadataEntry_rel hu hts) fun r' r hr => ?_
      rcases hr.elim with ⟨rfl, rfl⟩ | ⟨e', e, rfl, rfl, he⟩
      · exact Rel.pure (α := α) OptRel.none_none
      · cases e' <;> cases e <;> simp only [EvSim] at he <;>
          try exact Rel.pure (α := α) OptRel.none_none
        rename_i k' v' k v
        dsimp only
        refine Rel.bind Rel.get fun g' g hg => ?_
        refine Rel.bind (hasExt_rel _) fun m' m hm => ?_
        subst hm
        have hkey : isConfigKey g'.cs k' = isConfigKey g.cs k := by
          unfold isConfigKey
          rw [hg.csL, hg.csR, he.1.outerTrimmed]
        rw [hkey]
        split
        · exact Rel.pure (α := α) (OptRel.some_some (EvSim.mk_metadata he.1 he.2))
        · exact Rel.pure (α := α) OptRel.none_none
    · exact withRecover_rel (sectionP_rel hu hts)
    · exact Rel.pure (α := α) OptRel.none_none
  · intro r' r hr
    rcases hr.elim with ⟨rfl, rfl⟩ | ⟨e', e, rfl, rfl, he⟩
    · exact parseMultilineBlock_rel hu hts hnm
    · exact pushEv_rel he

end rel

/-- **one block**: `runBlock` on related blocks (no component marker) appends related events to
    related queues -/
theorem runBlock_rel {cs : CharSpec} (hu : UwsNL cs) {b' b : List Tok} (hb : LRel TokSim b' b) (hnm : NoMarker b)
    (ext : Ext) (oldStyle : Bool) {evs' evs : Array (Ev α)} (he : LRel (EvSim cs.uws) evs'.toList evs.toList)
    (p' p : Option String) :
    LRel (EvSim cs.uws) (runBlock cs ext oldStyle b' evs' p').1.toList (runBlock cs ext oldStyle b evs p).1.toList := by
  have hs0 : SimS cs b' b (⟨b', 0, ext, cs, evs', p'⟩ : BP α) ⟨b, 0, ext, cs, evs, p⟩ :=
    ⟨rfl, rfl, rfl, rfl, rfl, rfl, he⟩
  have key : Rel cs b' b
      (do
        if b'.isEmpty then panicWith "BlockParser::new: empty tokens"
        parseBlock (α := α) oldStyle
        let s ← get
        if s.cur ≠ s.toks.length then panicWith "Block tokens not parsed")
      (do
        if b.isEmpty then panicWith "BlockParser::new: empty tokens"
        parseBlock (α := α) oldStyle
        let s ← get
        if s.cur ≠ s.toks.length then panicWith "Block tokens not parsed")
      (fun _ _ => True) := by
    dsimp only
    apply Rel.panicIfK
    refine Rel.bind (parseBlock_rel hu hb hnm oldStyle) fun _ _ _ => ?_
    refine Rel.bind Rel.get fun g' g hg => ?_
    exact Rel.panicIf
  exact (key _ _ hs0).2.evs

/-- all blocks: folding `runBlock` over related block lists -/
theorem foldl_runBlock_rel {cs : CharSpec} (hu : UwsNL cs) (ext : Ext) (oldStyle : Bool)
    {bs' bs : List (List Tok)} (hb : LRel (LRel TokSim) bs' bs) (hnm : ∀ b ∈ bs, NoMarker b)
    {acc' acc : Array (Ev α) × Option String} (he : LRel (EvSim cs.uws) acc'.1.toList acc.1.toList) :
    LRel (EvSim cs.uws)
      (bs'.foldl (fun a b => runBlock cs ext oldStyle b a.1 a.2) acc').1.toList
      (bs.foldl (fun a b => runBlock cs ext oldStyle b a.1 a.2) acc).1.toList := by
  induction hb generalizing acc' acc with
  | nil => exact he
  | cons h1 _ ih =>
    simp only [List.foldl_cons]
    exact ih (fun b hb => hnm b (by simp [hb])) (runBlock_rel hu h1 (hnm _ (by simp)) ext oldStyle he _ _)

/-! ### from characters to tokens -/

theorem singleKind_marker {c : Char} {k : TK} (h : singleKind c = some k) (hk : isMarker k = true) :
    c = '@' ∨ c = '#' ∨ c = '~' := by
  unfold singleKind at h
  cases hf : singleTable.find? (fun p => p.1 == c) with
  | none => rw [hf] at h; simp at h
  | some q =>
    rw [hf] at h
    simp only [Option.map_some, Option.some.injEq] at h
    have hm := List.mem_of_find?_eq_some hf
    have hq := List.find?_some hf
    have hc : q.1 = c := by simpa using hq
    have hall : ∀ q ∈ singleTable, isMarker q.2 = true → q.1 = '@' ∨ q.1 = '#' ∨ q.1 = '~' := by decide
    rw [← hc]; exact hall q hm (by rw [h]; exact hk)

/-- an input without the characters `@ # ~` lexes to a stream without component markers -/
theorem lexFrom_noMarker (cs : CharSpec) (off : Nat) (s : List Char)
    (h : '@' ∉ s ∧ '#' ∉ s ∧ '~' ∉ s) : NoMarker (lexFrom cs off s) := by
  intro t ht
  cases hk : isMarker t.kind with
  | false => rfl
  | true =>
    exfalso
    have hkt := (lexFrom_kindText cs off s t ht).2.2.2.2.2.2.2.2.2.2.2.2
    have hmem : t.kind ∈ singleTable.map (·.2) := by
      unfold isMarker at hk
      simp only [Bool.or_eq_true, beq_iff_eq] at hk
      rcases hk with (hk | hk) | hk <;> rw [hk] <;> decide
    obtain ⟨c, htxt, hsk⟩ := hkt hmem
    have hc : c ∈ s := by
      rw [← lexFrom_tile cs off s]
      exact List.mem_flatMap.2 ⟨t, ht, by rw [htxt]; simp⟩
    rcases singleKind_marker hsk hk with rfl | rfl | rfl
    · exact h.1 hc
    · exact h.2.1 hc
    · exact h.2.2 hc

/-- lexed tokens related by `CrlfTok` are related by `TokSim` -/
theorem crlf_tokSim (cs : CharSpec) (hcs : CrlfSpec cs) (s : List Char) (hs : CrlfSafe s) (off off' : Nat) :
    LRel TokSim (lexFrom cs off' (crlf s)) (lexFrom cs off s) := by
  have h := (crlfToks_iff_lrel _ _).1 (lexFrom_crlf_toks cs hcs s hs off off')
  have hk := lexFrom_kindText cs off s
  generalize lexFrom cs off' (crlf s) = l' at h
  generalize lexFrom cs off s = l at h hk
  induction h with
  | nil => exact .nil
  | cons h1 _ ih =>
    refine .cons (TokSim.of_crlfTok h1 ?_) (ih (fun t ht => hk t (by simp [ht])))
    intro hn
    exact (hk _ (by simp)).2.2.1 hn

theorem allBlocks_noMarker (fuel : Nat) (ts : List Tok) (h : NoMarker ts) : ∀ b ∈ allBlocks fuel ts, NoMarker b :=
  fun b hb t ht => h t (allBlocks_mem fuel ts b hb t ht)

/-- **CRLF conversion at event level, inputs without component markers.** -/
theorem crlf_events (cs : CharSpec) (hcs : CrlfSpec cs) (hu : UwsNL cs) (ext : Ext) (oldStyle : Bool)
    (s : List Char) (hs : CrlfSafe s) (off off' : Nat) (hnm : NoMarker (lexFrom cs off s))
    {acc' acc : Array (Ev α) × Option String} (he : LRel (EvSim cs.uws) acc'.1.toList acc.1.toList) :
    LRel (EvSim cs.uws)
      ((allBlocks ((lexFrom cs off' (crlf s)).length + 1) (lexFrom cs off' (crlf s))).foldl
        (fun a b => runBlock cs ext oldStyle b a.1 a.2) acc').1.toList
      ((allBlocks ((lexFrom cs off s).length + 1) (lexFrom cs off s)).foldl
        (fun a b => runBlock cs ext oldStyle b a.1 a.2) acc).1.toList := by
  have hl := crlf_tokSim cs hcs s hs off off'
  have hb : LRel (LRel TokSim) (allBlocks ((lexFrom cs off' (crlf s)).length + 1) (lexFrom cs off' (crlf s)))
      (allBlocks ((lexFrom cs off s).length + 1) (lexFrom cs off s)) := by
    rw [hl.length_eq]; exact sim_allBlocks tokSim_kindPres _ hl
  exact foldl_runBlock_rel hu ext oldStyle hb (allBlocks_noMarker _ _ hnm) he

/-- … for whole inputs without front matter -/
theorem crlf_pullEvents (cs : CharSpec) (hcs : CrlfSpec cs) (hu : UwsNL cs) (ext : Ext)
    (s : List Char) (hs : CrlfSafe s) (hnm : NoMarker (lex cs s))
    (h1 : parseFrontmatter cs s = none) (h2 : parseFrontmatter cs (crlf s) = none) :
    LRel (EvSim cs.uws) (pullEvents (α := α) cs ext (crlf s)).1.toList (pullEvents (α := α) cs ext s).1.toList := by
  unfold pullEvents
  simp only [h1, h2]
  exact crlf_events cs hcs hu ext true s hs 0 0 hnm .nil

end Cook
