import CookModel.Lemmas.RoundtripDoc
import CookModel.Lemmas.DiagPlace
import CookModel.Lemmas.DiagPlaceReport
/-
  C07, arbitrary placement, DOCUMENT level (`c07d_` prefix).

  `rtd_pullEvents_doc` (C01) runs a document all of whose blocks are well-spelled items.  Here the same
  composition — lexer, block splitter, one `parse_block` per block — for ABSTRACT blocks (`PlBlock`): a block is
  its specification tokens plus a description of the events `parse_block` delivers on tokens spelling them
  (`PlBlock.Runs`).  Two kinds of blocks are provided: the items of C01's document grammar
  (`PlBlock.ofItem`) and a step with a construct planted among well-spelled segments (`PlBlock.planted`,
  from `c07p_planted_step`).  So a document with one (or several) planted constructs is covered.
-/
set_option linter.unusedSectionVars false
set_option linter.unusedSimpArgs false
set_option linter.unusedVariables false
namespace Cook

variable {α : Type} [Arith α]

/-! ### abstract blocks -/

/-- a block of a document: the tokens it is printed from and, for actual tokens `ts` spelling them, what is
    known about the events of the block -/
structure PlBlock (α : Type) where
  spell : List Tok
  evs : List Tok → List (Ev α) → Prop

/-- the block has the shape of a block (a single `>>` / `=` line or a step of non-blank lines) and on EVERY
    token list that spells it, cut out of a lexer run, `parse_block` (through `runBlock`, old-style metadata
    allowed) appends events as the block describes and reaches no panic site -/
def PlBlock.Runs (cs : CharSpec) (ext : Ext) (b : PlBlock α) : Prop :=
  blockShape b.spell = true ∧
  ∀ ts, Spells ts b.spell → RunAt (baseOff ts) ts → ∀ evs0 : Array (Ev α),
    ∃ (evs : List (Ev α)) (arr : Array (Ev α)), runBlock cs ext true ts evs0 none = (arr, none) ∧
      arr.toList = evs0.toList ++ evs ∧ b.evs ts evs

/-- the token list a document of abstract blocks (each with its separator) is printed from -/
def plDocSpec (doc : List (PlBlock α × List Tok)) : List Tok := docToks (doc.map (fun d => (d.1.spell, d.2)))

/-- actual tokens and events of a block, against the block -/
def PlBlock.Res (d : PlBlock α × List Tok) (r : List Tok × List (Ev α)) : Prop :=
  Spells r.1 d.1.spell ∧ d.1.evs r.1 r.2

theorem c07d_fold_blocks (cs : CharSpec) (ext : Ext) (doc : List (PlBlock α × List Tok))
    (tds : List (List Tok × List Tok))
    (hF : All2 (fun (td : List Tok × List Tok) (d : PlBlock α × List Tok) =>
      Spells td.1 d.1.spell ∧ Spells td.2 d.2) tds doc)
    (hok : ∀ d ∈ doc, d.1.Runs cs ext) (hrun : ∀ td ∈ tds, RunAt (baseOff td.1) td.1) :
    ∀ evs0 : Array (Ev α), ∃ (res : List (List Tok × List (Ev α))) (arr : Array (Ev α)),
      (tds.map (·.1)).foldl (fun acc b => runBlock cs ext true b acc.1 acc.2) (evs0, none) = (arr, none) ∧
      res.map (·.1) = tds.map (·.1) ∧
      arr.toList = evs0.toList ++ (res.map (·.2)).flatten ∧
      All2 PlBlock.Res doc res := by
  induction hF with
  | nil => intro evs0; exact ⟨[], evs0, rfl, rfl, by simp, All2.nil⟩
  | @cons td d tds' doc' hd htl ih =>
    intro evs0
    obtain ⟨evs, arr1, h1, h2, h3⟩ := (hok d (by simp)).2 td.1 hd.1 (hrun td (by simp)) evs0
    obtain ⟨res, arr, g1, g2, g3, g4⟩ := ih (fun x hx => hok x (by simp [hx])) (fun x hx => hrun x (by simp [hx])) arr1
    refine ⟨(td.1, evs) :: res, arr, ?_, by simp [g2], ?_, All2.cons ⟨hd.1, h3⟩ g4⟩
    · simp only [List.map_cons, List.foldl_cons, h1]; exact g1
    · rw [g3, h2]; simp

theorem c07d_docToks_infix (tds : List (List Tok × List Tok)) : ∀ td ∈ tds, td.1 <:+: docToks tds := by
  induction tds with
  | nil => intro td h; cases h
  | cons d r ih =>
    intro td hm
    simp only [List.mem_cons] at hm
    rcases hm with rfl | hm
    · exact ⟨[], td.2 ++ docToks r, by simp [docToks]⟩
    · obtain ⟨a, b, hab⟩ := ih td hm
      exact ⟨d.1 ++ d.2 ++ a, b, by simp [docToks, ← hab]⟩

/-- **Document level, abstract blocks.**  The characters of `pre ++ plDocSpec doc` — leading blank lines, then
    blocks each followed by its separator — when the list is well spelled and the text has no front matter
    fence, and every block runs as it describes (`PlBlock.Runs`): the splitter cuts the lexer's tokens into
    exactly one block per item (each a contiguous part of the lexer's token list, spelling its item), and
    `pullEvents` returns the concatenation of the blocks' events, each as its block describes; no panic. -/
theorem c07d_pullEvents_blocks (cs : CharSpec) (ext : Ext) (pre : List Tok) (doc : List (PlBlock α × List Tok))
    (hpre : blankLinesOK pre = true) (hok : ∀ d ∈ doc, d.1.Runs cs ext)
    (hseps : sepsOK (doc.map (·.2)) = true) (hw : WellSpelled cs (pre ++ plDocSpec doc))
    (hfm : parseFrontmatter cs (render (pre ++ plDocSpec doc)) = none) :
    ∃ (res : List (List Tok × List (Ev α))) (arr : Array (Ev α)),
      allBlocks ((lex cs (render (pre ++ plDocSpec doc))).length + 1) (lex cs (render (pre ++ plDocSpec doc))) =
        res.map (·.1) ∧
      (∀ r ∈ res, r.1 <:+: lex cs (render (pre ++ plDocSpec doc))) ∧
      pullEvents (α := α) cs ext (render (pre ++ plDocSpec doc)) = (arr, none) ∧
      arr.toList = (res.map (·.2)).flatten ∧
      All2 PlBlock.Res doc res := by
  obtain ⟨hsp, hrun⟩ := rtin_lex_spells cs 0 (pre ++ plDocSpec doc) hw
  generalize hts : lexFrom cs 0 (render (pre ++ plDocSpec doc)) = ts at hsp hrun
  have hlex : lex cs (render (pre ++ plDocSpec doc)) = ts := hts
  obtain ⟨tpre, tdoc, rfl, hsp1, hsp2⟩ := hsp.append_inv
  obtain ⟨tds, rfl, hF⟩ := rtd_spells_doc (fun d : PlBlock α × List Tok => (d.1.spell, d.2)) doc tdoc hsp2
  have hdoc : docOK tds = true := by
    rw [rtd_docOK_transfer _ tds doc hF]
    apply rtd_docOK_intro (doc.map (fun d : PlBlock α × List Tok => (d.1.spell, d.2)))
    · intro d hd
      obtain ⟨x, hx, rfl⟩ := List.mem_map.1 hd
      exact (hok x hx).1
    · simpa [List.map_map, Function.comp_def] using hseps
  have hbl : BlankLines tpre := rtd_blankLinesOK_facts tpre (by rw [rtd_blankLinesOK_transfer hsp1]; exact hpre)
  have hall := rtd_allBlocks_doc tds hdoc tpre hbl
  have hruns := rtd_doc_runs tds 0 tpre hrun
  obtain ⟨res, arr, g1, g2, g3, g4⟩ := c07d_fold_blocks (α := α) cs ext doc tds hF hok hruns #[]
  refine ⟨res, arr, by rw [hlex, g2]; exact hall, ?_, ?_, by simpa using g3, g4⟩
  · intro r hr
    have : r.1 ∈ tds.map (·.1) := by rw [← g2]; exact List.mem_map_of_mem hr
    obtain ⟨td, htd, he⟩ := List.mem_map.1 this
    obtain ⟨a, b, hab⟩ := c07d_docToks_infix tds td htd
    rw [hlex, ← he]
    exact ⟨tpre ++ a, b, by simp [← hab]⟩
  · unfold pullEvents
    simp only [hfm, hlex, hall]
    exact g1

/-! ### the items of C01's document grammar are blocks -/

/-- a well-formed item of C01's document grammar as a block: its events are the item's (`DocItemEvs`:
    never an error or a warning) -/
def PlBlock.ofItem (cs : CharSpec) (d : DocItem) : PlBlock α := ⟨d.spell, fun _ evs => DocItemEvs cs d evs⟩

theorem c07d_item_runs (cs : CharSpec) (ext : Ext) (d : DocItem) (h : d.ok cs ext = true) :
    (PlBlock.ofItem (α := α) cs d).Runs cs ext :=
  ⟨rtd_item_shape cs ext d h, fun ts hs hrun evs0 => rtd_runBlock_item cs ext d h ts hs hrun evs0 none⟩

/-! ### a step with a planted construct is a block -/

theorem c07d_segsFollowT_transfer (cs : CharSpec) (e : Ext) : ∀ (segs : List SegX) {tail tailT : List Tok},
    Spells tailT tail → segsFollowT cs e segs tail = true → segsFollowT cs e segs tailT = true := by
  intro segs
  induction segs with
  | nil => intro _ _ _ _; rfl
  | cons seg rest ih =>
    intro tail tailT hs h
    simp only [segsFollowT, Bool.and_eq_true] at h ⊢
    exact ⟨⟨h.1.1, c07p_followT_transfer seg ((Spells.rfl' _).append hs) h.1.2⟩, ih hs h.2⟩

/-- `runBlock` on a step block, from the result of `parse_step` -/
theorem c07d_runBlock_of_parseStep (cs : CharSpec) (ext : Ext) (oldStyle : Bool) (ts : List Tok)
    (evs0 arr : Array (Ev α)) (panic : Option String) (hb : stepBlockOK ts = true)
    (hstep : parseStep (⟨ts, 0, ext, cs, evs0, panic⟩ : BP α) =
      ((), { (⟨ts, 0, ext, cs, evs0, panic⟩ : BP α) with cur := ts.length, evs := arr })) :
    runBlock cs ext oldStyle ts evs0 panic = (arr, panic) := by
  simp only [stepBlockOK, Bool.and_eq_true] at hb
  obtain ⟨hhead, hany⟩ := hb
  have hne : ts.isEmpty = false := by
    cases ts with
    | nil => simp at hany
    | cons _ _ => rfl
  have hpk := peekK_split (⟨ts, 0, ext, cs, evs0, panic⟩ : BP α) [] ts rfl rfl
  have hall' : ts.all (fun t => isEmptyTok t.kind) = false := by
    rw [Bool.eq_false_iff]
    intro hall'
    rw [List.any_eq_true] at hany
    obtain ⟨t, ht, hk⟩ := hany
    rw [List.all_eq_true] at hall'
    have := hall' t ht
    rw [this] at hk; cases hk
  obtain ⟨t0, tr, rfl⟩ : ∃ t0 tr, ts = t0 :: tr := by
    cases ts with
    | nil => simp at hne
    | cons a b => exact ⟨a, b, rfl⟩
  simp only [List.head?_cons, Option.all_some, Bool.and_eq_true, bne_iff_ne, ne_eq] at hhead
  obtain ⟨⟨hk1, hk2⟩, hk3⟩ := hhead
  unfold runBlock
  simp only [hne, Bool.false_eq_true, if_false, bind, StateT.bind, pure, StateT.pure]
  have hpb : parseBlock (α := α) oldStyle ⟨t0 :: tr, 0, ext, cs, evs0, panic⟩ =
      ((), { (⟨t0 :: tr, 0, ext, cs, evs0, panic⟩ : BP α) with cur := (t0 :: tr).length, evs := arr }) := by
    unfold parseBlock
    simp only [bind, StateT.bind, hpk, List.head?_cons, Option.map_some]
    have hml : parseMultilineBlock (α := α) ⟨t0 :: tr, 0, ext, cs, evs0, panic⟩ =
        ((), { (⟨t0 :: tr, 0, ext, cs, evs0, panic⟩ : BP α) with cur := (t0 :: tr).length, evs := arr }) := by
      unfold parseMultilineBlock
      simp only [bind, StateT.bind, allToks, get, getThe, MonadStateOf.get, StateT.get, pure, StateT.pure, hall',
        Bool.false_eq_true, if_false, hpk, List.head?_cons, Option.map_some]
      have : (some t0.kind == some TK.textStep) = false := by simp [hk3]
      simp only [this, Bool.false_eq_true, if_false]
      exact hstep
    cases hk : t0.kind <;> simp [hk] at hk1 hk2 <;> simp only [pure, StateT.pure, hml]
  rw [hpb]
  simp only [get, getThe, MonadStateOf.get, StateT.get, ne_eq, not_true_eq_false, if_false, pure, StateT.pure]

/-- the side conditions of a step block with a planted construct, on the SPECIFICATION tokens: the segments
    before and after the construct `B` are well-formed and followed as their forms require (`B` counting as
    what follows `pre`), and the whole has the shape of a step block -/
def plantedOK (cs : CharSpec) (ext : Ext) (pre post : List SegX) (B : List Tok) : Bool :=
  segsFollowT cs ext pre (B ++ post.flatMap SegX.spell) && segsFollowT cs ext post [] &&
  stepBlockOK (pre.flatMap SegX.spell ++ (B ++ post.flatMap SegX.spell)) &&
  stepShape (pre.flatMap SegX.spell ++ (B ++ post.flatMap SegX.spell))

/-- the events of a step with a planted construct: the block's actual tokens are `tpre ++ tB ++ tpost`
    spelling the three parts, and the events are `Start(Step)`, ONE text/component event per segment of `pre`
    (no diagnostic), events `evsB` as the construct describes at its position (`specB T tpre tB`: `T` the
    block's tokens, `tpre` the tokens before the construct, `tB` the construct's tokens), ONE
    text/component event per segment of `post`, `End(Step)` -/
def plantedEvs (cs : CharSpec) (pre post : List SegX) (B : List Tok)
    (specB : List Tok → List Tok → List Tok → List (Ev α) → Prop) (ts : List Tok) (evs : List (Ev α)) : Prop :=
  ∃ (tpre tB tpost : List Tok) (evs1 evsB evs2 : List (Ev α)),
    ts = tpre ++ (tB ++ tpost) ∧ Spells tpre (pre.flatMap SegX.spell) ∧ Spells tB B ∧
    Spells tpost (post.flatMap SegX.spell) ∧
    evs = [.start .step] ++ evs1 ++ evsB ++ evs2 ++ [.stop .step] ∧
    SegsXEvs cs pre evs1 ∧ specB ts tpre tB evsB ∧ SegsXEvs cs post evs2

/-- a step block `pre ++ B ++ post` with a planted construct, as an abstract block -/
def PlBlock.planted (cs : CharSpec) (pre post : List SegX) (B : List Tok)
    (specB : List Tok → List Tok → List Tok → List (Ev α) → Prop) : PlBlock α :=
  ⟨pre.flatMap SegX.spell ++ (B ++ post.flatMap SegX.spell), plantedEvs cs pre post B specB⟩

/-- **A step with a planted construct runs as a block.**  If the side conditions hold on the specification
    tokens (`plantedOK`) and, on every actual block `T = tpre ++ tB ++ tpost` (a lexer run spelling the three
    parts), the construct is a piece at its position with events `specB T tpre tB` (the `C07_planted_*`
    instances), then the block runs: `parse_block` delivers exactly `plantedEvs`, no panic. -/
theorem c07d_planted_runs (cs : CharSpec) (ext : Ext) (pre post : List SegX) (B : List Tok)
    (specB : List Tok → List Tok → List Tok → List (Ev α) → Prop)
    (hok : plantedOK cs ext pre post B = true)
    (hB : ∀ (T tpre tB tpost : List Tok), T = tpre ++ (tB ++ tpost) → Spells tpre (pre.flatMap SegX.spell) →
      Spells tB B → Spells tpost (post.flatMap SegX.spell) → RunAt (baseOff T) T →
      PlPieceAt T cs ext tpre ⟨tB, specB T tpre tB⟩) :
    (PlBlock.planted cs pre post B specB).Runs cs ext := by
  simp only [plantedOK, Bool.and_eq_true] at hok
  obtain ⟨⟨⟨h1, h2⟩, h3⟩, h4⟩ := hok
  refine ⟨by simp only [blockShape, PlBlock.planted, h4, Bool.or_true], ?_⟩
  intro ts hs hrun evs0
  obtain ⟨tpre, t23, rfl, hspre, hs23⟩ := Spells.append_inv hs
  obtain ⟨tB, tpost, rfl, hsB, hspost⟩ := Spells.append_inv hs23
  have hpre' : segsFollowT cs ext pre (tB ++ post.flatMap SegX.spell) = true :=
    c07d_segsFollowT_transfer cs ext pre (hsB.append (Spells.rfl' _)) h1
  obtain ⟨evs1, evsB, evs2, arr, g1, g2, g3, g4, g5⟩ :=
    c07p_planted_step pre post tB (specB (tpre ++ (tB ++ tpost)) tpre tB)
      (⟨tpre ++ (tB ++ tpost), 0, ext, cs, evs0, none⟩ : BP α) tpre tpost hspre hspost rfl rfl rfl hrun hpre' h2
      (hB _ tpre tB tpost rfl hspre hsB hspost hrun)
  refine ⟨[.start .step] ++ evs1 ++ evsB ++ evs2 ++ [.stop .step], arr, ?_, by rw [g2]; simp, ?_⟩
  · exact c07d_runBlock_of_parseStep cs ext true _ evs0 arr none (stepBlockOK_transfer hs h3) g1
  · exact ⟨tpre, tB, tpost, evs1, evsB, evs2, rfl, hspre, hsB, hspost, rfl, g3, g4, g5⟩

end Cook
