import CookModel.Side.StdMetaText
/-
  Independent characterisations of the text routines of Side/StdMetaText.lean
  (split / split_inclusive / split_whitespace / split_once / trim / integer syntax).
  They are what the `Spec` of C13 is phrased with; the routines themselves are tied to the
  Rust `std` routines by the correspondence ops `sm_words`, `sm_trim`, `sm_u32`, `sm_f64syn`
  and, indirectly, by every accessor op.
-/
namespace Cook.SM

/-! ### takeWhile / dropWhile -/

/-- `b` is empty or starts with a character not satisfying `p` -/
def StopsAt (p : Char → Bool) (b : Str) : Prop := b = [] ∨ ∃ c r, b = c :: r ∧ p c = false

theorem stopsAt_nil (p : Char → Bool) : StopsAt p [] := Or.inl rfl
theorem stopsAt_cons {p : Char → Bool} {c : Char} {r : Str} (h : p c = false) : StopsAt p (c :: r) :=
  Or.inr ⟨c, r, rfl, h⟩

theorem takeWhile_append_stop {p : Char → Bool} {a b : Str} (ha : ∀ c ∈ a, p c = true)
    (hb : StopsAt p b) : (a ++ b).takeWhile p = a := by
  induction a with
  | nil =>
    rcases hb with rfl | ⟨c, r, rfl, hc⟩
    · rfl
    · simp [hc]
  | cons x xs ih =>
    have hx : p x = true := ha x (by simp)
    simp [hx]
    exact ih (fun c hc => ha c (by simp [hc]))

theorem dropWhile_append_stop {p : Char → Bool} {a b : Str} (ha : ∀ c ∈ a, p c = true)
    (hb : StopsAt p b) : (a ++ b).dropWhile p = b := by
  induction a with
  | nil =>
    rcases hb with rfl | ⟨c, r, rfl, hc⟩
    · rfl
    · simp [hc]
  | cons x xs ih =>
    have hx : p x = true := ha x (by simp)
    simp [hx]
    exact ih (fun c hc => ha c (by simp [hc]))

theorem takeWhile_all {p : Char → Bool} (s : Str) : ∀ c ∈ s.takeWhile p, p c = true := by
  induction s with
  | nil => simp
  | cons x xs ih =>
    intro c hc
    by_cases hx : p x = true
    · simp [List.takeWhile, hx] at hc
      rcases hc with rfl | hc
      · exact hx
      · exact ih c hc
    · simp [List.takeWhile, hx] at hc

theorem dropWhile_stops {p : Char → Bool} (s : Str) : StopsAt p (s.dropWhile p) := by
  induction s with
  | nil => exact Or.inl rfl
  | cons x xs ih =>
    by_cases hx : p x = true
    · simpa [List.dropWhile, hx] using ih
    · have hx' : p x = false := by simpa using hx
      simp only [List.dropWhile, hx']
      exact stopsAt_cons hx'

theorem takeWhile_eq_self {p : Char → Bool} {s : Str} (h : ∀ c ∈ s, p c = true) : s.takeWhile p = s := by
  have := takeWhile_append_stop (b := []) h (stopsAt_nil p)
  simpa using this

theorem dropWhile_eq_nil {p : Char → Bool} {s : Str} (h : ∀ c ∈ s, p c = true) : s.dropWhile p = [] := by
  have := dropWhile_append_stop (b := []) h (stopsAt_nil p)
  simpa using this

theorem all_of_dropWhile_nil {p : Char → Bool} {s : Str} (h : s.dropWhile p = []) : ∀ c ∈ s, p c = true := by
  have h1 := takeWhile_all (p := p) s
  have h2 : s.takeWhile p ++ s.dropWhile p = s := List.takeWhile_append_dropWhile
  rw [h, List.append_nil] at h2
  rw [h2] at h1; exact h1

/-! ### split -/

/-- `x ++ c₁ :: y₁ ++ c₂ :: y₂ ++ …` -/
def joinWith (x : Str) : List (Char × Str) → Str
  | [] => x
  | (c, y) :: r => x ++ c :: joinWith y r

def NoneSat (p : Char → Bool) (s : Str) : Prop := ∀ c ∈ s, p c = false

theorem splitAux_nosep {p : Char → Bool} {x : Str} (hx : NoneSat p x) : splitAux p x = (x, []) := by
  induction x with
  | nil => rfl
  | cons c cs ih =>
    have hc : p c = false := hx c (by simp)
    have := ih (fun d hd => hx d (by simp [hd]))
    simp [splitAux, hc, this]

theorem splitAux_append_sep {p : Char → Bool} {x : Str} {c : Char} {rest : Str} (hx : NoneSat p x)
    (hc : p c = true) :
    splitAux p (x ++ c :: rest) = (x, (splitAux p rest).1 :: (splitAux p rest).2) := by
  induction x with
  | nil => simp [splitAux, hc]
  | cons d ds ih =>
    have hd : p d = false := hx d (by simp)
    have := ih (fun e he => hx e (by simp [he]))
    simp [splitAux, hd, this]

/-- pieces separated by separators split back into the pieces -/
theorem split_joinWith {p : Char → Bool} (x : Str) (r : List (Char × Str)) (hx : NoneSat p x)
    (hr : ∀ e ∈ r, p e.1 = true ∧ NoneSat p e.2) :
    split p (joinWith x r) = x :: r.map (·.2) := by
  induction r generalizing x with
  | nil => simp [split, joinWith, splitAux_nosep hx]
  | cons e r ih =>
    obtain ⟨c, y⟩ := e
    have he := hr (c, y) (by simp)
    have ih' := ih y he.2 (fun e' h' => hr e' (by simp [h']))
    simp only [split] at ih' ⊢
    simp only [joinWith, splitAux_append_sep hx he.1, List.map_cons]
    rw [ih']

/-- every text is its pieces joined by the separators that were there -/
theorem exists_joinWith (p : Char → Bool) (s : Str) :
    ∃ x r, s = joinWith x r ∧ NoneSat p x ∧ (∀ e ∈ r, p e.1 = true ∧ NoneSat p e.2) := by
  induction s with
  | nil => exact ⟨[], [], rfl, by simp [NoneSat], by simp⟩
  | cons c cs ih =>
    obtain ⟨x, r, hs, hx, hr⟩ := ih
    by_cases hc : p c = true
    · refine ⟨[], (c, x) :: r, by simp [joinWith, hs], by simp [NoneSat], ?_⟩
      intro e he
      simp at he
      rcases he with rfl | he
      · exact ⟨hc, hx⟩
      · exact hr e he
    · have hc' : p c = false := by simpa using hc
      refine ⟨c :: x, r, ?_, ?_, hr⟩
      · cases r with
        | nil => simp [joinWith] at hs ⊢; exact hs
        | cons e r => obtain ⟨d, y⟩ := e; simp [joinWith] at hs ⊢; exact hs
      · intro d hd
        simp at hd
        rcases hd with rfl | hd
        · exact hc'
        · exact hx d hd

theorem split_pieces_nosep (p : Char → Bool) (s : Str) : ∀ x ∈ split p s, NoneSat p x := by
  obtain ⟨x, r, hs, hx, hr⟩ := exists_joinWith p s
  rw [hs, split_joinWith x r hx hr]
  intro y hy
  simp at hy
  rcases hy with rfl | ⟨c, hy⟩
  · exact hx
  · exact (hr _ hy).2

/-- join with one fixed separator character -/
def joinSep (sep : Char) : List Str → Str
  | [] => []
  | [x] => x
  | x :: y :: r => x ++ sep :: joinSep sep (y :: r)

theorem joinSep_eq_joinWith (sep : Char) (x : Str) (r : List Str) :
    joinSep sep (x :: r) = joinWith x (r.map (fun y => (sep, y))) := by
  induction r generalizing x with
  | nil => rfl
  | cons y r ih => simp [joinSep, joinWith, ih y]

/-- `es` are the pieces of `s` between the occurrences of `sep` -/
def SplitBy (sep : Char) (s : Str) (es : List Str) : Prop :=
  es ≠ [] ∧ (∀ e ∈ es, sep ∉ e) ∧ s = joinSep sep es

theorem joinWith_sep_eq {sep : Char} (x : Str) (r : List (Char × Str))
    (hr : ∀ e ∈ r, (decide (e.1 = sep)) = true) : joinWith x r = joinSep sep (x :: r.map (·.2)) := by
  induction r generalizing x with
  | nil => rfl
  | cons e r ih =>
    obtain ⟨c, y⟩ := e
    have hc : c = sep := by simpa using hr (c, y) (by simp)
    subst hc
    simp [joinWith, joinSep, ih y (fun e he => hr e (by simp [he]))]

/-- `split` by one character is characterised by `SplitBy` -/
theorem split_char_spec (sep : Char) (s : Str) (es : List Str) :
    split (fun c => decide (c = sep)) s = es ↔ SplitBy sep s es := by
  constructor
  · intro h
    obtain ⟨x, r, hs, hx, hr⟩ := exists_joinWith (fun c => decide (c = sep)) s
    have h2 := split_joinWith x r hx hr
    rw [← hs, h] at h2
    subst h2
    refine ⟨by simp, ?_, ?_⟩
    · intro e he
      have hn : NoneSat (fun c => decide (c = sep)) e := by
        simp at he
        rcases he with rfl | ⟨c, he⟩
        · exact hx
        · exact (hr _ he).2
      intro hmem
      have := hn sep hmem
      simp at this
    · rw [hs]; exact joinWith_sep_eq x r (fun e he => (hr e he).1)
  · rintro ⟨hne, hno, hs⟩
    cases es with
    | nil => exact absurd rfl hne
    | cons x r =>
      rw [hs, joinSep_eq_joinWith]
      have hns : ∀ e ∈ x :: r, NoneSat (fun c => decide (c = sep)) e := by
        intro e he c hc
        have := hno e he
        simp only [decide_eq_false_iff_not]
        intro hcs; subst hcs; exact this hc
      rw [split_joinWith x _ (hns x (by simp))]
      · simp [List.map_map, Function.comp_def]
      · intro e he
        simp at he
        obtain ⟨y, hy, rfl⟩ := he
        exact ⟨by simp, hns y (by simp [hy])⟩

/-! ### split_once -/

theorem splitOnce_some {p : Char → Bool} {s a b : Str} :
    splitOnce p s = some (a, b) ↔ ∃ c, s = a ++ c :: b ∧ p c = true ∧ NoneSat p a := by
  induction s generalizing a b with
  | nil => simp [splitOnce]
  | cons d ds ih =>
    by_cases hd : p d = true
    · simp only [splitOnce, hd, if_true, Option.some.injEq, Prod.mk.injEq]
      constructor
      · rintro ⟨rfl, rfl⟩
        exact ⟨d, rfl, hd, by simp [NoneSat]⟩
      · rintro ⟨c, hs, hc, ha⟩
        cases a with
        | nil => simp at hs; exact ⟨rfl, hs.2⟩
        | cons x xs =>
          simp at hs
          have := ha x (by simp)
          rw [← hs.1] at this
          rw [hd] at this; exact absurd this (by simp)
    · have hd' : p d = false := by simpa using hd
      simp only [splitOnce, hd']
      cases hso : splitOnce p ds with
      | none =>
        simp
        intro c hs hc ha
        cases a with
        | nil => simp at hs; rw [← hs.1] at hc; rw [hc] at hd'; exact absurd hd' (by simp)
        | cons x xs =>
          simp at hs
          have : splitOnce p ds = some (xs, b) := ih.mpr ⟨c, hs.2, hc, fun e he => ha e (by simp [he])⟩
          rw [hso] at this; exact absurd this (by simp)
      | some r =>
        obtain ⟨r1, r2⟩ := r
        obtain ⟨c, hs, hc, ha⟩ := ih.mp hso
        simp
        constructor
        · rintro ⟨rfl, rfl⟩
          refine ⟨c, by simp [hs], hc, ?_⟩
          intro e he
          simp at he
          rcases he with rfl | he
          · exact hd'
          · exact ha e he
        · rintro ⟨c', hs', hc', ha'⟩
          cases a with
          | nil => simp at hs'; rw [← hs'.1] at hc'; rw [hc'] at hd'; exact absurd hd' (by simp)
          | cons x xs =>
            simp at hs'
            have h2 : splitOnce p ds = some (xs, b) := ih.mpr ⟨c', hs'.2, hc', fun e he => ha' e (by simp [he])⟩
            rw [hso] at h2
            simp at h2
            exact ⟨by rw [hs'.1, h2.1], h2.2⟩

theorem splitOnce_none {p : Char → Bool} {s : Str} : splitOnce p s = none ↔ NoneSat p s := by
  induction s with
  | nil => simp [splitOnce, NoneSat]
  | cons d ds ih =>
    by_cases hd : p d = true
    · simp [splitOnce, hd, NoneSat]
    · have hd' : p d = false := by simpa using hd
      simp only [splitOnce, hd']
      cases hso : splitOnce p ds with
      | none =>
        simp
        intro c hc
        simp at hc
        rcases hc with rfl | hc
        · exact hd'
        · exact (ih.mp hso) c hc
      | some r =>
        simp
        intro hn
        have : splitOnce p ds = none := ih.mpr (fun c hc => hn c (by simp [hc]))
        rw [hso] at this; exact absurd this (by simp)

/-! ### strip_prefix / split_once(&str) -/

theorem stripPrefix_some {pat s r : Str} : stripPrefix pat s = some r ↔ s = pat ++ r := by
  induction pat generalizing s with
  | nil => simp [stripPrefix, eq_comm]
  | cons a as ih =>
    cases s with
    | nil => simp [stripPrefix]
    | cons c cs =>
      by_cases h : a = c
      · subst h; simp [stripPrefix, ih]
      · simp [stripPrefix, h]
        intro h2; exact absurd h2.symm h

theorem splitOnceStr_sound {pat s a b : Str} (h : splitOnceStr pat s = some (a, b)) : s = a ++ pat ++ b := by
  induction s generalizing a b with
  | nil =>
    simp only [splitOnceStr] at h
    cases hp : stripPrefix pat [] with
    | none => simp [hp] at h
    | some r =>
      simp [hp] at h
      have := stripPrefix_some.mp hp
      obtain ⟨rfl, rfl⟩ := h
      simpa using this
  | cons c cs ih =>
    simp only [splitOnceStr] at h
    cases hp : stripPrefix pat (c :: cs) with
    | some r =>
      simp [hp] at h
      obtain ⟨rfl, rfl⟩ := h
      simpa using stripPrefix_some.mp hp
    | none =>
      simp only [hp] at h
      cases hr : splitOnceStr pat cs with
      | none => simp [hr] at h
      | some r =>
        simp [hr] at h
        obtain ⟨rfl, rfl⟩ := h
        have := ih (a := r.1) (b := r.2) (by rw [hr])
        simp [this]

/-- the first occurrence: if the part before contains no first character of the pattern -/
theorem splitOnceStr_complete {pat : Str} {p0 : Char} {ps a b : Str} (hpat : pat = p0 :: ps)
    (ha : p0 ∉ a) : splitOnceStr pat (a ++ pat ++ b) = some (a, b) := by
  induction a with
  | nil =>
    have hsp : stripPrefix pat (pat ++ b) = some b := stripPrefix_some.mpr rfl
    subst hpat
    simp only [List.nil_append, List.cons_append, splitOnceStr]
    simp only [List.cons_append] at hsp
    rw [hsp]
  | cons c cs ih =>
    have hc : p0 ≠ c := fun h => ha (by simp [h])
    have ih' := ih (fun h => ha (by simp [h]))
    subst hpat
    simp only [List.cons_append, splitOnceStr, stripPrefix, hc, if_false]
    rw [ih']

theorem splitOnceStr_none_of {pat s : Str} (h : splitOnceStr pat s = none) :
    ¬ ∃ a b, s = a ++ pat ++ b ∧ True ∧ (∀ p0 ps, pat = p0 :: ps → p0 ∉ a) := by
  rintro ⟨a, b, hs, -, hfirst⟩
  cases pat with
  | nil =>
    cases s with
    | nil => simp [splitOnceStr, stripPrefix] at h
    | cons c cs => simp [splitOnceStr, stripPrefix] at h
  | cons p0 ps =>
    rw [hs, splitOnceStr_complete rfl (hfirst p0 ps rfl)] at h
    exact absurd h (by simp)

/-! ### trim -/

def AllSat (p : Char → Bool) (s : Str) : Prop := ∀ c ∈ s, p c = true

/-- `t` is `s` without the leading and trailing characters satisfying `p` -/
def TrimmedBy (p : Char → Bool) (s t : Str) : Prop :=
  ∃ a b, s = a ++ t ++ b ∧ AllSat p a ∧ AllSat p b ∧
    (t = [] ∨ ((∃ c r, t = c :: r ∧ p c = false) ∧ (∃ r c, t = r ++ [c] ∧ p c = false)))

theorem trimEndBy_spec (p : Char → Bool) (s : Str) :
    ∃ b, s = trimEndBy p s ++ b ∧ AllSat p b ∧
      (trimEndBy p s = [] ∨ ∃ r c, trimEndBy p s = r ++ [c] ∧ p c = false) := by
  unfold trimEndBy
  refine ⟨(s.reverse.takeWhile p).reverse, ?_, ?_, ?_⟩
  · rw [← List.reverse_append, List.takeWhile_append_dropWhile, List.reverse_reverse]
  · intro c hc
    simp at hc
    exact takeWhile_all _ c hc
  · rcases dropWhile_stops (p := p) s.reverse with h | ⟨c, r, h, hc⟩
    · left; simp [h]
    · right; exact ⟨r.reverse, c, by simp [h], hc⟩

theorem trimEndBy_of {p : Char → Bool} {t b : Str} (hb : AllSat p b)
    (ht : t = [] ∨ ∃ r c, t = r ++ [c] ∧ p c = false) : trimEndBy p (t ++ b) = t := by
  unfold trimEndBy
  rw [List.reverse_append]
  have hb' : ∀ c ∈ b.reverse, p c = true := fun c hc => hb c (by simpa using hc)
  have hs : StopsAt p t.reverse := by
    rcases ht with rfl | ⟨r, c, rfl, hc⟩
    · exact Or.inl rfl
    · right; exact ⟨c, r.reverse, by simp, hc⟩
  rw [dropWhile_append_stop hb' hs]; simp

theorem trimBy_spec (p : Char → Bool) (s : Str) : TrimmedBy p s (trimEndBy p (trimStartBy p s)) := by
  obtain ⟨b, hb1, hb2, hb3⟩ := trimEndBy_spec p (trimStartBy p s)
  refine ⟨s.takeWhile p, b, ?_, takeWhile_all s, hb2, ?_⟩
  · have h : s.takeWhile p ++ s.dropWhile p = s := List.takeWhile_append_dropWhile
    unfold trimStartBy at hb1 ⊢
    rw [List.append_assoc, ← hb1, h]
  · rcases hb3 with h | ⟨r, c, h, hc⟩
    · exact Or.inl h
    · right
      refine ⟨?_, r, c, h, hc⟩
      -- the first character does not satisfy p: the trimmed text is a prefix of dropWhile
      rcases dropWhile_stops (p := p) s with h0 | ⟨d, r', h0, hd⟩
      · unfold trimStartBy at hb1 h
        rw [h0] at hb1
        have : trimEndBy p [] = [] := by simp [trimEndBy]
        rw [h0] at h; rw [this] at h
        exact absurd h (by simp)
      · unfold trimStartBy at hb1 h ⊢
        rw [h0] at hb1 ⊢
        cases ht : trimEndBy p (d :: r') with
        | nil => rw [h0, ht] at h; exact absurd h (by simp)
        | cons e es =>
          rw [ht] at hb1
          simp at hb1
          exact ⟨e, es, rfl, by rw [← hb1.1]; exact hd⟩

theorem trimBy_unique {p : Char → Bool} {s t : Str} (h : TrimmedBy p s t) :
    trimEndBy p (trimStartBy p s) = t := by
  obtain ⟨a, b, hs, ha, hb, ht⟩ := h
  subst hs
  unfold trimStartBy
  rcases ht with rfl | ⟨⟨c, r, rfl, hc⟩, hlast⟩
  · simp only [List.append_nil]
    rw [dropWhile_eq_nil (s := a ++ b)]
    · simp [trimEndBy]
    · intro c hc
      simp at hc
      rcases hc with hc | hc
      · exact ha c hc
      · exact hb c hc
  · rw [List.append_assoc, dropWhile_append_stop ha (by exact stopsAt_cons (r := r ++ b) hc)]
    exact trimEndBy_of hb (Or.inr hlast)

/-- `str::trim` is characterised by `TrimmedBy isWs` -/
theorem trim_spec (s t : Str) : trim s = t ↔ TrimmedBy isWs s t :=
  ⟨fun h => h ▸ trimBy_spec isWs s, trimBy_unique⟩

theorem trimAsciiEnd_spec (s : Str) :
    ∃ b, s = trimAsciiEnd s ++ b ∧ AllSat isAsciiWs b ∧
      (trimAsciiEnd s = [] ∨ ∃ r c, trimAsciiEnd s = r ++ [c] ∧ isAsciiWs c = false) :=
  trimEndBy_spec isAsciiWs s

/-! ### strip_suffix / ends_with -/

theorem stripSuffixChar_some {c : Char} {s r : Str} : stripSuffixChar c s = some r ↔ s = r ++ [c] := by
  unfold stripSuffixChar
  cases h : s.reverse with
  | nil =>
    have : s = [] := by simpa using h
    subst this; simp
  | cons d ds =>
    have hs : s = ds.reverse ++ [d] := by
      have := congrArg List.reverse h; simpa using this
    by_cases hd : d = c
    · subst hd
      simp [hs]
    · simp [hd, hs]

theorem endsWith_iff {c : Char} {s : Str} : endsWith c s = true ↔ ∃ r, s = r ++ [c] := by
  unfold endsWith
  rw [beq_iff_eq, List.getLast?_eq_some_iff]

theorem endsWith_dropLast {c : Char} {s : Str} (h : endsWith c s = true) : s = s.dropLast ++ [c] := by
  obtain ⟨r, rfl⟩ := endsWith_iff.mp h
  simp

end Cook.SM
