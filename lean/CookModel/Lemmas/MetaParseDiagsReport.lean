import CookModel.Lemmas.MetaParseDiags
import CookModel.Lemmas.MetaDiagsFront
/-
  C14, parse-stage metadata diagnostics at the level of the REPORTS of `parse` and `parse_metadata`.
  (1) The collector never adds a parse-stage diagnostic of its own (frame sweep over the collector,
      fourth instance of the technique of `CollectorMeta.lean`): the parse-stage diagnostics of a
      report are exactly the diagnostics of the error/warning events, in order.
  (2) Hence, with `metadata_trace_agree`: without front matter the parse-stage metadata diagnostics
      of the two reports are equal, whether or not the analyses have output.
-/
set_option linter.unusedSectionVars false
set_option linter.tactic.unusedName false
namespace Cook
variable {α : Type} [Arith α]

/-- the parse-stage diagnostics collected so far -/
def Col.pds (s : Col α) : List Diag := s.diags.toList.filter (fun d => d.stage == .parse)

/-- started in a state whose parse-stage diagnostics are `m`, `f` ends in such a state -/
structure PG {β : Type} (m : List Diag) (f : A α β) : Prop where
  run : ∀ s, s.pds = m → (f s).2.pds = m

theorem PG.pure {β : Type} {m : List Diag} (a : β) : PG (α := α) m (pure a) := ⟨fun _ h => h⟩

theorem PG.bind {β γ : Type} {m : List Diag} {f : A α β} {g : β → A α γ}
    (hf : PG m f) (hg : ∀ a, PG m (g a)) : PG m (f >>= g) :=
  ⟨fun s h => (hg (f s).1).run (f s).2 (hf.run s h)⟩

theorem PG.get_bind {γ : Type} {m : List Diag} {g : Col α → A α γ}
    (hg : ∀ s0 : Col α, s0.pds = m → PG m (g s0)) : PG m ((get : A α (Col α)) >>= g) :=
  ⟨fun s h => (hg s h).run s h⟩

theorem PG.set {m : List Diag} (x : Col α) (h : x.pds = m) : PG (α := α) m (set x : A α PUnit) := ⟨fun _ _ => h⟩

theorem PG.modify {m : List Diag} (k : Col α → Col α) (h : ∀ s, (k s).pds = s.pds) :
    PG (α := α) m (modify k : A α PUnit) := ⟨fun s hs => (h s).trans hs⟩

theorem pds_push (s : Col α) (d : Diag) :
    Col.pds { s with diags := s.diags.push d } = s.pds ++ (if d.stage == .parse then [d] else []) := by
  unfold Col.pds
  rw [Array.toList_push, List.filter_append]
  cases h : (d.stage == .parse) <;> simp [List.filter, h]

syntax "pg_leaf" : tactic
macro_rules | `(tactic| pg_leaf) => `(tactic| with_reducible exact PG.pure _)
macro_rules | `(tactic| pg_leaf) => `(tactic| assumption)
macro_rules | `(tactic| pg_leaf) => `(tactic| (with_reducible apply PG.set) <;> assumption)
macro_rules | `(tactic| pg_leaf) => `(tactic| (with_reducible apply PG.modify) <;> (intro s; rfl))

syntax "pg" : tactic
macro_rules | `(tactic| pg) => `(tactic| repeat' (first
  | intro _
  | pg_leaf
  | with_reducible apply_assumption (maxDepth := 1) -exfalso -symm
  | (extract_lets +onlyGivenNames x
     first
       | (have hjp : ∀ r, PG ‹List Diag› (x r) := by (intro r; unfold x; pg))
       | (have hjp : ∀ r r', PG ‹List Diag› (x r r') := by (intro r r'; unfold x; pg))
       | skip
     try clear_value x)
  | dsimp -zeta only
  | with_reducible apply PG.get_bind
  | with_reducible apply PG.bind
  | split))

theorem pg_apanic (m : List Diag) (site : String) : PG (α := α) m (apanic site) := by
  unfold apanic
  apply PG.modify
  intro s; split <;> rfl
macro_rules | `(tactic| pg_leaf) => `(tactic| with_reducible exact pg_apanic _ _)

/-- an analysis-stage diagnostic leaves the parse-stage ones alone -/
theorem pg_aerr (m : List Diag) (k : String) (l : List Span) : PG (α := α) m (aerr k l) := by
  unfold aerr
  apply PG.modify
  intro s
  rw [pds_push s ⟨.error, .analysis, k, l⟩]
  simp
macro_rules | `(tactic| pg_leaf) => `(tactic| with_reducible exact pg_aerr _ _ _)
theorem pg_awarn (m : List Diag) (k : String) (l : List Span) : PG (α := α) m (awarn k l) := by
  unfold awarn
  apply PG.modify
  intro s
  rw [pds_push s ⟨.warning, .analysis, k, l⟩]
  simp
macro_rules | `(tactic| pg_leaf) => `(tactic| with_reducible exact pg_awarn _ _ _)

theorem pg_valueOf (m : List Diag) (env : Env) (v : PQValue α) (b : Bool) : PG (α := α) m (valueOf env v b) := by
  unfold valueOf; pg
macro_rules | `(tactic| pg_leaf) => `(tactic| with_reducible exact pg_valueOf _ _ _ _)
theorem pg_quantityOf (m : List Diag) (env : Env) (q : Loc (PQuantity α)) (b : Bool) : PG (α := α) m (quantityOf env q b) := by
  unfold quantityOf; pg
macro_rules | `(tactic| pg_leaf) => `(tactic| with_reducible exact pg_quantityOf _ _ _ _)
theorem pg_resolveReference (m : List Diag) (env : Env) (c : String) (inh : Nat) (ex : List (Str × Modifiers)) (n : Str)
    (mods : Modifiers) (l ml : Span) : PG (α := α) m (resolveReference (α := α) env c inh ex n mods l ml) := by
  unfold resolveReference; pg
macro_rules | `(tactic| pg_leaf) => `(tactic| with_reducible exact pg_resolveReference _ _ _ _ _ _ _ _ _)
theorem pg_resolveInterRef (m : List Diag) (d : Loc InterData) : PG (α := α) m (resolveInterRef (α := α) d) := by
  unfold resolveInterRef
  apply PG.get_bind
  intro s0 hs0
  dsimp only
  have hjp : PG m (match interRefTarget s0.cur.content s0.sections.length d.val with
      | .ok rel => (pure (some rel) : A α (Option IngredientRelation))
      | .error kind => do aerr kind [d.span]; pure none) := by
    split
    · exact PG.pure _
    · rename_i kind hk
      exact PG.bind (pg_aerr _ _ _) (fun _ => PG.pure _)
  split
  · exact PG.bind (pg_apanic _ _) (fun _ => hjp)
  · exact hjp
macro_rules | `(tactic| pg_leaf) => `(tactic| with_reducible exact pg_resolveInterRef _ _)
theorem pg_noteReferenceError (m : List Diag) (i : Str) (a b : Span) (c : Option Span) :
    PG (α := α) m (noteReferenceError (α := α) i a b c) := by
  unfold noteReferenceError; pg
macro_rules | `(tactic| pg_leaf) => `(tactic| with_reducible exact pg_noteReferenceError _ _ _ _ _)

theorem PG.forIn {β γ : Type} {m : List Diag} (l : List γ) (init : β) (body : γ → β → A α (ForInStep β))
    (h : ∀ a b, PG m (body a b)) : PG m (forIn l init body) := by
  induction l generalizing init with
  | nil => simp only [List.forIn_nil]; exact PG.pure _
  | cons a l ih =>
    simp only [List.forIn_cons]
    apply PG.bind (h a init)
    intro r
    split
    · exact PG.pure _
    · exact ih _
macro_rules | `(tactic| pg_leaf) => `(tactic| with_reducible apply PG.forIn)

theorem pg_optQuantityOf (m : List Diag) (env : Env) (q : Option (Loc (PQuantity α))) (b : Bool) : PG (α := α) m (optQuantityOf (α := α) env q b) := by
  unfold optQuantityOf; pg
macro_rules | `(tactic| pg_leaf) => `(tactic| with_reducible exact pg_optQuantityOf _ _ _ _)
theorem pg_optValueOf (m : List Diag) (env : Env) (q : Option (Loc (PQValue α))) : PG (α := α) m (optValueOf (α := α) env q) := by
  unfold optValueOf; pg
macro_rules | `(tactic| pg_leaf) => `(tactic| with_reducible exact pg_optValueOf _ _ _)
theorem pg_ingrInterChecks (m : List Diag) (i : PIngredient α) (igr : Ingredient (ScalableValue α)) : PG (α := α) m (ingrInterChecks (α := α) i igr) := by
  unfold ingrInterChecks; pg
macro_rules | `(tactic| pg_leaf) => `(tactic| with_reducible exact pg_ingrInterChecks _ _ _)
theorem pg_ingrInter (m : List Diag) (i : PIngredient α) (igr : Ingredient (ScalableValue α)) (d : Loc InterData) : PG (α := α) m (ingrInter (α := α) i igr d) := by
  unfold ingrInter; pg
macro_rules | `(tactic| pg_leaf) => `(tactic| with_reducible exact pg_ingrInter _ _ _ _)
theorem pg_ingrUnitChecks (m : List Diag) (env : Env) (i : PIngredient α) (newQ : Quantity (ScalableValue α)) (idxs : List Nat) : PG (α := α) m (ingrUnitChecks (α := α) env i newQ idxs) := by
  unfold ingrUnitChecks; pg
macro_rules | `(tactic| pg_leaf) => `(tactic| with_reducible exact pg_ingrUnitChecks _ _ _ _ _)
theorem pg_ingrRefChecks (m : List Diag) (env : Env) (input : Str) (li : Loc (PIngredient α)) (igr : Ingredient (ScalableValue α)) (refTo : Nat) (defn : Ingredient (ScalableValue α)) (defLoc : Loc (PIngredient α)) : PG (α := α) m (ingrRefChecks (α := α) env input li igr refTo defn defLoc) := by
  unfold ingrRefChecks; pg
macro_rules | `(tactic| pg_leaf) => `(tactic| with_reducible exact pg_ingrRefChecks _ _ _ _ _ _ _ _)
theorem pg_ingrSetReferencedFrom (m : List Diag) (refTo newIndex : Nat) (defn : Ingredient (ScalableValue α)) : PG (α := α) m (ingrSetReferencedFrom (α := α) refTo newIndex defn) := by
  unfold ingrSetReferencedFrom; pg
macro_rules | `(tactic| pg_leaf) => `(tactic| with_reducible exact pg_ingrSetReferencedFrom _ _ _ _)
theorem pg_ingrRegular (m : List Diag) (env : Env) (input : Str) (li : Loc (PIngredient α)) (igr0 : Ingredient (ScalableValue α)) : PG (α := α) m (ingrRegular (α := α) env input li igr0) := by
  unfold ingrRegular; pg
macro_rules | `(tactic| pg_leaf) => `(tactic| with_reducible exact pg_ingrRegular _ _ _ _ _)
theorem pg_ingrBuild (m : List Diag) (env : Env) (input : Str) (li : Loc (PIngredient α)) (igr0 : Ingredient (ScalableValue α)) : PG (α := α) m (ingrBuild (α := α) env input li igr0) := by
  unfold ingrBuild; pg
macro_rules | `(tactic| pg_leaf) => `(tactic| with_reducible exact pg_ingrBuild _ _ _ _ _)
theorem pg_cwRefChecks (m : List Diag) (input : Str) (lc : Loc (PCookware α)) (cw : Cookware (ScalableValue α)) (defn : Cookware (ScalableValue α)) (defLoc : Loc (PCookware α)) : PG (α := α) m (cwRefChecks (α := α) input lc cw defn defLoc) := by
  unfold cwRefChecks; pg
macro_rules | `(tactic| pg_leaf) => `(tactic| with_reducible exact pg_cwRefChecks _ _ _ _ _ _)
theorem pg_cwSetReferencedFrom (m : List Diag) (refTo newIndex : Nat) (defn : Cookware (ScalableValue α)) : PG (α := α) m (cwSetReferencedFrom (α := α) refTo newIndex defn) := by
  unfold cwSetReferencedFrom; pg
macro_rules | `(tactic| pg_leaf) => `(tactic| with_reducible exact pg_cwSetReferencedFrom _ _ _ _)
theorem pg_cwResolve (m : List Diag) (env : Env) (input : Str) (lc : Loc (PCookware α)) (cw0 : Cookware (ScalableValue α)) : PG (α := α) m (cwResolve (α := α) env input lc cw0) := by
  unfold cwResolve; pg
macro_rules | `(tactic| pg_leaf) => `(tactic| with_reducible exact pg_cwResolve _ _ _ _ _)
theorem pg_cwBuild (m : List Diag) (env : Env) (input : Str) (lc : Loc (PCookware α)) (cw0 : Cookware (ScalableValue α)) : PG (α := α) m (cwBuild (α := α) env input lc cw0) := by
  unfold cwBuild; pg
macro_rules | `(tactic| pg_leaf) => `(tactic| with_reducible exact pg_cwBuild _ _ _ _ _)
theorem pg_timerQuantityChecks (m : List Diag) (env : Env) (q : Loc (PQuantity α)) (r : Quantity (ScalableValue α)) : PG (α := α) m (timerQuantityChecks (α := α) env q r) := by
  unfold timerQuantityChecks; pg
macro_rules | `(tactic| pg_leaf) => `(tactic| with_reducible exact pg_timerQuantityChecks _ _ _ _)
theorem pg_timerQuantity (m : List Diag) (env : Env) (tq : Option (Loc (PQuantity α))) : PG (α := α) m (timerQuantity (α := α) env tq) := by
  unfold timerQuantity; pg
macro_rules | `(tactic| pg_leaf) => `(tactic| with_reducible exact pg_timerQuantity _ _ _)
theorem pg_ingredientA (m : List Diag) (env : Env) (input : Str) (li : Loc (PIngredient α)) :
    PG (α := α) m (ingredientA env input li) := by
  unfold ingredientA; pg
macro_rules | `(tactic| pg_leaf) => `(tactic| with_reducible exact pg_ingredientA _ _ _ _)
theorem pg_cookwareA (m : List Diag) (env : Env) (input : Str) (lc : Loc (PCookware α)) :
    PG (α := α) m (cookwareA env input lc) := by
  unfold cookwareA; pg
macro_rules | `(tactic| pg_leaf) => `(tactic| with_reducible exact pg_cookwareA _ _ _ _)
theorem pg_timerA (m : List Diag) (env : Env) (lt : Loc (PTimer α)) : PG (α := α) m (timerA env lt) := by
  unfold timerA; pg
macro_rules | `(tactic| pg_leaf) => `(tactic| with_reducible exact pg_timerA _ _ _)
theorem pg_inStepTextStep (m : List Diag) (env : Env) (t : Text) (items : List Item) : PG (α := α) m (inStepTextStep (α := α) env t items) := by
  unfold inStepTextStep; pg
macro_rules | `(tactic| pg_leaf) => `(tactic| with_reducible exact pg_inStepTextStep _ _ _ _)
theorem pg_inStepText (m : List Diag) (env : Env) (t : Text) : PG (α := α) m (inStepText (α := α) env t) := by
  unfold inStepText; pg
macro_rules | `(tactic| pg_leaf) => `(tactic| with_reducible exact pg_inStepText _ _ _)
theorem pg_pushItem (m : List Diag) (it : Item) : PG (α := α) m (pushItem (α := α) it) := by
  unfold pushItem; pg
macro_rules | `(tactic| pg_leaf) => `(tactic| with_reducible exact pg_pushItem _ _)
theorem pg_inStepComponent (m : List Diag) (env : Env) (input : Str) (ev : Ev α) : PG (α := α) m (inStepComponent (α := α) env input ev) := by
  unfold inStepComponent; pg
macro_rules | `(tactic| pg_leaf) => `(tactic| with_reducible exact pg_inStepComponent _ _ _ _)
theorem pg_inTextComponent (m : List Diag) (input : Str) (ev : Ev α) (buf : Str) : PG (α := α) m (inTextComponent (α := α) input ev buf) := by
  unfold inTextComponent; pg
macro_rules | `(tactic| pg_leaf) => `(tactic| with_reducible exact pg_inTextComponent _ _ _ _)
theorem pg_inBlockComponent (m : List Diag) (env : Env) (input : Str) (ev : Ev α) :
    PG (α := α) m (inBlockComponent env input ev) := by
  unfold inBlockComponent; pg
macro_rules | `(tactic| pg_leaf) => `(tactic| with_reducible exact pg_inBlockComponent _ _ _ _)
theorem pg_endBlockContent (m : List Diag) (kind : BlockKind) : PG (α := α) m (endBlockContent (α := α) kind) := by
  unfold endBlockContent; pg
macro_rules | `(tactic| pg_leaf) => `(tactic| with_reducible exact pg_endBlockContent _ _)
theorem pg_pushContent (m : List Diag) (c : Content) : PG (α := α) m (pushContent (α := α) c) := by
  unfold pushContent; pg
macro_rules | `(tactic| pg_leaf) => `(tactic| with_reducible exact pg_pushContent _ _)
theorem pg_endBlock (m : List Diag) (k : BlockKind) : PG (α := α) m (endBlock (α := α) k) := by
  unfold endBlock; pg
macro_rules | `(tactic| pg_leaf) => `(tactic| with_reducible exact pg_endBlock _ _)


theorem pg_timeOverrideCheck (m : List Diag) (k : StdKey) : PG (α := α) m (timeOverrideCheck (α := α) k) := by
  unfold timeOverrideCheck; pg
macro_rules | `(tactic| pg_leaf) => `(tactic| with_reducible exact pg_timeOverrideCheck _ _)
theorem pg_metadataA (m : List Diag) (env : Env) (k v : Text) : PG (α := α) m (metadataA (α := α) env k v) := by
  unfold metadataA; pg

/-- no event other than a parser warning makes the collector add a parse-stage diagnostic -/
theorem pg_processEvent (m : List Diag) (env : Env) (input : Str) (ev : Ev α) (hw : ∀ d, ev ≠ .warning d) :
    PG (α := α) m (processEvent env input ev) := by
  unfold processEvent
  cases ev with
  | warning d => exact absurd rfl (hw d)
  | metadata k v => exact pg_metadataA _ _ _ _
  | _ => pg

/-- the parse-stage diagnostics of the events of a parser run -/
def evDiags (l : List (Ev α)) : List Diag := (l.filterMap isDiagEv).filter (fun d => d.stage == .parse)

theorem evDiags_cons (ev : Ev α) (l : List (Ev α)) :
    evDiags (ev :: l) = (match isDiagEv ev with
      | some d => if d.stage == .parse then [d] else []
      | none => []) ++ evDiags l := by
  unfold evDiags
  cases h : isDiagEv ev with
  | none => simp [h]
  | some d =>
    simp only [List.filterMap_cons, h, List.filter_cons]
    split <;> simp

/-- **the parse-stage part of a report**: whatever the events, whether or not the analysis has
    output, the parse-stage diagnostics of the report of `parse_events` are exactly the parse-stage
    diagnostics carried by the error/warning events, in order (the collector adds none of its own
    and drops none) -/
theorem loop_parse_diags (env : Env) (input : Str) : ∀ (l : List (Ev α)) (s : Col α),
    (parseEventsLoop env input l s).diags.toList.filter (fun d => d.stage == .parse) = s.pds ++ evDiags l := by
  intro l
  induction l with
  | nil =>
    intro s
    simp only [parseEventsLoop, evDiags, List.filterMap_nil, List.filter_nil, List.append_nil]
    have h1 : ∀ s1 : Col α, (if (!s1.oldStyleUsed.isEmpty) = true then
        { s1 with diags := s1.diags.push ⟨.warning, .analysis, "meta-deprecated", s1.oldStyleUsed⟩ } else s1).pds = s1.pds := by
      intro s1
      split
      · rw [pds_push]; simp
      · rfl
    have h2 : (if (!s.cur.isEmpty) = true then { s with sections := s.sections ++ [s.cur], cur := ⟨none, []⟩ } else s).pds
        = s.pds := by split <;> rfl
    exact (h1 _).trans h2
  | cons ev rest ih =>
    intro s
    cases ev with
    | error d =>
      simp only [parseEventsLoop, evDiags_cons, isDiagEv]
      rw [Array.toList_filter, Array.toList_append, Array.toList_push, List.filter_append, List.filter_append]
      simp only [List.filter_filter, Bool.and_self]
      rw [List.filter_append, List.append_assoc]
      congr 1
      congr 1
      simp only [List.filter_cons, List.filter_nil]
    | warning d =>
      simp only [parseEventsLoop, evDiags_cons, isDiagEv]
      rw [ih]
      show Col.pds { s with diags := s.diags.push d } ++ _ = _
      rw [pds_push, List.append_assoc]
    | _ =>
      simp only [parseEventsLoop, evDiags_cons, isDiagEv, List.nil_append]
      rw [ih, (pg_processEvent s.pds env input _ (by intro d h; cases h)).run s rfl]

theorem parseEvents_parse_diags (env : Env) (input : Str) (l : List (Ev α)) :
    (parseEvents env input l).diags.toList.filter (fun d => d.stage == .parse) = evDiags l := by
  unfold parseEvents
  rw [loop_parse_diags]
  rfl

theorem filterMap_filter_of_imp {β γ : Type} (f : β → Option γ) (p : β → Bool) (q : γ → Bool)
    (h : ∀ e d, f e = some d → q d = true → p e = true) (l : List β) :
    ((l.filter p).filterMap f).filter q = (l.filterMap f).filter q := by
  induction l with
  | nil => rfl
  | cons e l ih =>
    cases hp : p e with
    | true => simp only [List.filter_cons, hp, if_true, List.filterMap_cons]; split <;> simp only [ih, List.filter_cons]
    | false =>
      simp only [List.filter_cons, hp, Bool.false_eq_true, if_false, List.filterMap_cons, ih]
      split
      · rfl
      · rename_i d hd
        have : q d = false := by
          cases hq : q d with
          | false => rfl
          | true => rw [h e d hd hq] at hp; cases hp
        simp [this]

/-- the parse-stage metadata diagnostics of a report are a function of the metadata trace of the
    events -/
theorem report_parse_meta (env : Env) (input : Str) (l : List (Ev α)) :
    (parseEvents env input l).diags.toList.filter Diag.isParseMeta =
      ((l.filter Ev.isTrace).filterMap isDiagEv).filter Diag.isParseMeta := by
  have e : ∀ L : List Diag, L.filter Diag.isParseMeta =
      (L.filter (fun d => d.stage == .parse)).filter Diag.isParseMeta := by
    intro L
    rw [List.filter_filter]
    apply List.filter_congr
    intro d _
    unfold Diag.isParseMeta
    cases (d.stage == Stage.parse) <;> simp
  rw [e, parseEvents_parse_diags, evDiags, ← e]
  symm
  apply filterMap_filter_of_imp
  intro ev d hd hq
  unfold Diag.isParseMeta at hq
  simp only [Bool.and_eq_true] at hq
  cases ev <;> simp only [isDiagEv, Option.some.injEq] at hd <;> first | (subst hd; exact hq.2) | cases hd

/-- **reports**: without front matter the parse-stage diagnostics about metadata lines
    (`metadata-invalid`, `empty-metadata-key`, `empty-metadata-value`) in the report of `parse` are
    exactly those in the report of `parse_metadata` — same severity, labels and order; no hypothesis
    that the analyses have output (with an `empty-metadata-key` error neither has) -/
theorem report_parse_meta_agree (env : Env) (input : Str) (h : parseFrontmatter env.cs input = none) :
    (parseRecipe (α := α) env input).diags.toList.filter Diag.isParseMeta =
    (parseMetadata (α := α) env input).diags.toList.filter Diag.isParseMeta := by
  show (parseEvents env input _).diags.toList.filter Diag.isParseMeta =
    (parseEvents env input _).diags.toList.filter Diag.isParseMeta
  rw [report_parse_meta, report_parse_meta]
  have := metadata_trace_agree (α := α) env.cs env.ext input h
  unfold traceOf at this
  rw [this]

/-- the parse-stage metadata diagnostics carried by an event list are a function of its trace -/
theorem trace_parse_meta (l : List (Ev α)) :
    ((l.filter Ev.isTrace).filterMap isDiagEv).filter Diag.isParseMeta =
      (l.filterMap isDiagEv).filter Diag.isParseMeta := by
  apply filterMap_filter_of_imp
  intro ev d hd hq
  unfold Diag.isParseMeta at hq
  simp only [Bool.and_eq_true] at hq
  cases ev <;> simp only [isDiagEv, Option.some.injEq] at hd <;> first | (subst hd; exact hq.2) | cases hd

/-- **events**: without front matter the error/warning events about metadata lines of the full pull
    parser carry exactly the diagnostics of those of the metadata-only pull parser, in order -/
theorem events_parse_meta_agree (cs : CharSpec) (ext : Ext) (input : List Char)
    (h : parseFrontmatter cs input = none) :
    ((pullEvents (α := α) cs ext input).1.toList.filterMap isDiagEv).filter Diag.isParseMeta =
    ((pullMetaEvents (α := α) cs ext input).1.toList.filterMap isDiagEv).filter Diag.isParseMeta := by
  rw [← trace_parse_meta, ← trace_parse_meta (pullMetaEvents (α := α) cs ext input).1.toList]
  have := metadata_trace_agree (α := α) cs ext input h
  unfold traceOf at this
  rw [this]

end Cook
