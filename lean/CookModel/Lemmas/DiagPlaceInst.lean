import CookModel.Lemmas.DiagPlaceCut
/-
  C07 placement, instances (`c07p_` prefix): catalogued invalid constructs, written as braces components
  `marker mods name { Q }`, are PIECES of the step loop wherever they stand in a step: one iteration
  consumes exactly the construct and pushes exactly its documented diagnostic(s) followed by the
  component event (whose span is the byte range of the construct).

    `@x{1/0}`    value error (zero denominator, integer overflow)   `c07p_value_error_piece`
    `#pot{1%kg}` unit on cookware                                  `c07p_cookware_unit_piece`
    `~x{5}`      timer without unit                                `c07p_timer_missing_unit_piece`
    `@&&x{}`     duplicate modifier                                `c07p_duplicate_modifier_piece`
    `@{}`        empty name                                        `c07p_empty_name_piece`
-/
set_option linter.unusedSectionVars false
set_option linter.unusedSimpArgs false
set_option linter.unusedVariables false
namespace Cook

variable {α : Type} [Arith α]

theorem c07p_body_qty_some (nameT : List Tok) (tob : Tok) (Q : List Tok) (tcb : Tok)
    (h : ∃ t ∈ Q, isPadK t = false) : (c07p_body nameT tob Q tcb).quantity = some Q := by
  obtain ⟨t, ht, hp⟩ := h
  have : Q.any (fun t => !isPadK t) = true := List.any_eq_true.2 ⟨t, ht, by simp [hp]⟩
  simp only [c07p_body, this, if_true]

theorem c07p_body_qty_none (nameT : List Tok) (tob : Tok) (Q : List Tok) (tcb : Tok)
    (h : ∀ t ∈ Q, isPadK t = true) : (c07p_body nameT tob Q tcb).quantity = none := by
  have : Q.any (fun t => !isPadK t) = false := by
    rw [List.any_eq_false]; intro t ht; simp [h t ht]
  simp only [c07p_body, this, Bool.false_eq_true, if_false]

theorem c07p_not_pad_of_not_blank {t : Tok} (h : isWsComment t.kind = false) : isPadK t = false := by
  cases hk : t.kind <;> simp_all [isWsComment, isPadK]

/-- **a value error inside an ingredient's braces** (`@x{1/0}`, `@x{4294967296/2}`): the value tokens
    `t0 :: tl` (no blank, word or `%`, not starting with `=`) make the number reader return the error `d`;
    no modifiers, no alias separator, a non-blank name.  Exactly `d`, then the ingredient. -/
theorem c07p_value_error_piece (T A rest : List Tok) (cs : CharSpec) (e : Ext) (tm : Tok) (nameT : List Tok)
    (tob t0 : Tok) (tl : List Tok) (tcb : Tok) (d : Diag)
    (hT : T = A ++ (c07p_comp tm [] nameT tob (t0 :: tl) tcb ++ rest)) (hw : WF T)
    (sh : PlShape e .at tm [] nameT tob (t0 :: tl) tcb rest)
    (ha : e.has Gen.EXT_COMPONENT_ALIAS = false ∨ ∀ t ∈ nameT, t.kind ≠ .or)
    (hname : (buildText (offAt T (A.length + 1)) nameT).isTextEmpty cs = false)
    (hws : isWsComment t0.kind = false) (heq : t0.kind ≠ .eq)
    (hk : ∀ t ∈ t0 :: tl, t.kind ≠ .percent ∧ t.kind ≠ .word ∧ t.kind ≠ .ws)
    (hval : numOrRange (α := α) (e.has Gen.EXT_RANGE_VALUES) (t0 :: tl) = some (.error d)) :
    PlPieceAt T cs e A ⟨c07p_comp tm [] nameT tob (t0 :: tl) tcb, fun evs => ∃ q : Loc (PQuantity α),
      evs = [.error d, .ingredient ⟨⟨⟨Modifiers.empty, Span.pos (offAt T (A.length + 1))⟩, none,
        buildText (offAt T (A.length + 1)) nameT, none, some q, none⟩,
        ⟨offAt T A.length, offAt T (A.length + (c07p_comp tm [] nameT tob (t0 :: tl) tcb).length)⟩⟩] ∧
      q.val.unit = none⟩ := by
  apply c07p_piece_of_ingredient T A _ rest cs e hT hw tm _ rfl sh.hk
  intro s h1 h2 h3 h4 h5
  subst h1 h2 h3
  have hrun := c07p_ingredient_run s A tm [] nameT tob (t0 :: tl) tcb rest sh hT h5
  have hbody := c07p_body_qty_some nameT tob (t0 :: tl) tcb ⟨t0, by simp, c07p_not_pad_of_not_blank hws⟩
  have ht := c07e_ingredientTail_q (α := α) (offAt s.toks A.length)
    (offAt s.toks (A.length + (c07p_comp tm [] nameT tob (t0 :: tl) tcb).length))
    (offAt s.toks (A.length + 1)) (offAt s.toks (A.length + 1)) (c07p_body nameT tob (t0 :: tl) tcb) none
    ({ s with cur := A.length + (c07p_comp tm [] nameT tob (t0 :: tl) tcb).length } : BP α) (t0 :: tl) hbody ha hname
    [.error d] (fun r => r.quantity.val.unit = none ∧ r.unitSep = none)
    (fun sq qq => c07p_parseQuantity_err_num t0 tl sq d hws heq hk (by rw [qq.2.1]; exact hval))
  unfold Sat at ht
  have hrun' : ingredientP s = ingredientTail (offAt s.toks A.length)
      (offAt s.toks (A.length + (c07p_comp tm [] nameT tob (t0 :: tl) tcb).length))
      (offAt s.toks (A.length + 1)) (offAt s.toks (A.length + 1)) [] (c07p_body nameT tob (t0 :: tl) tcb) none
      { s with cur := A.length + (c07p_comp tm [] nameT tob (t0 :: tl) tcb).length } := hrun
  rw [← hrun'] at ht
  obtain ⟨hpu, q, ⟨hu, -⟩, hr⟩ := ht
  refine ⟨[.error d], _, hr, hpu, ?_, q.quantity, rfl, hu⟩
  rw [hrun']
  exact (c07p_indep_fields (Indep.ingredientTail ..) _).1

/-- **a unit on a cookware item** (`#pot{1%kg}`): quantity tokens `vt % ut` read quietly (the value a
    well-formed number/range or a non-blank text, a non-blank unit); no modifiers, no alias separator, a
    non-blank name.  Exactly `cookware-unit`, labelled from the `%` to the end of the unit, then the item. -/
theorem c07p_cookware_unit_piece (T A rest : List Tok) (cs : CharSpec) (e : Ext) (tm : Tok) (nameT : List Tok)
    (tob : Tok) (vt ut : List Tok) (pct t0 tcb : Tok)
    (hT : T = A ++ (c07p_comp tm [] nameT tob (vt ++ pct :: ut) tcb ++ rest)) (hw : WF T)
    (sh : PlShape e .hash tm [] nameT tob (vt ++ pct :: ut) tcb rest)
    (ha : e.has Gen.EXT_COMPONENT_ALIAS = false ∨ ∀ t ∈ nameT, t.kind ≠ .or)
    (hname : (buildText (offAt T (A.length + 1)) nameT).isTextEmpty cs = false)
    (h0 : vt.head? = some t0) (hws : isWsComment t0.kind = false)
    (heq : t0.kind ≠ .eq) (hvp : ∀ t ∈ vt, t.kind ≠ .percent) (hp : pct.kind = .percent)
    (hval : (∃ v, numOrRange (α := α) (e.has Gen.EXT_RANGE_VALUES) vt = some (.ok v)) ∨
      (numOrRange (α := α) (e.has Gen.EXT_RANGE_VALUES) vt = none ∧
        (buildText t0.start vt).isTextEmpty cs = false))
    (hunit : (buildText pct.stop ut).isTextEmpty cs = false) :
    PlPieceAt T cs e A ⟨c07p_comp tm [] nameT tob (vt ++ pct :: ut) tcb, fun evs => ∃ qv : Loc (PQValue α),
      evs = [.error ⟨.error, .parse, "cookware-unit", [⟨pct.start, (buildText pct.stop ut).span.stop⟩]⟩,
        .cookware ⟨⟨⟨Modifiers.empty, Span.pos (offAt T (A.length + 1))⟩,
          buildText (offAt T (A.length + 1)) nameT, none, some qv, none⟩,
        ⟨offAt T A.length, offAt T (A.length + (c07p_comp tm [] nameT tob (vt ++ pct :: ut) tcb).length)⟩⟩]⟩ := by
  apply c07p_piece_of_cookware T A _ rest cs e hT hw tm _ rfl sh.hk
  intro s h1 h2 h3 h4 h5
  subst h1 h2 h3
  have hrun := c07p_cookware_run s A tm [] nameT tob (vt ++ pct :: ut) tcb rest sh hT h5
  have hbody := c07p_body_qty_some nameT tob (vt ++ pct :: ut) tcb
    ⟨pct, by simp, by simp [isPadK, hp]⟩
  have ht := c07f_cookwareTail_q (α := α) (offAt s.toks A.length)
    (offAt s.toks (A.length + (c07p_comp tm [] nameT tob (vt ++ pct :: ut) tcb).length))
    (offAt s.toks (A.length + 1)) (offAt s.toks (A.length + 1)) (c07p_body nameT tob (vt ++ pct :: ut) tcb) none
    ({ s with cur := A.length + (c07p_comp tm [] nameT tob (vt ++ pct :: ut) tcb).length } : BP α) (vt ++ pct :: ut)
    hbody ha hname
    [] (fun r => r.quantity.val.unit = some (buildText pct.stop ut) ∧ r.unitSep = some ⟨pct.start, pct.stop⟩)
    (fun sq qq => Sat.mono (c07p_parseQuantity_pct_sep vt ut pct t0 sq h0 hws heq hvp hp
      (by rw [qq.2.1, qq.1]; exact hval) (by rw [qq.1]; exact hunit)) (fun r s' h => ⟨h.1.pushed, h.2⟩))
  unfold Sat at ht
  have hrun' : cookwareP s = cookwareTail (offAt s.toks A.length)
      (offAt s.toks (A.length + (c07p_comp tm [] nameT tob (vt ++ pct :: ut) tcb).length))
      (offAt s.toks (A.length + 1)) (offAt s.toks (A.length + 1)) [] (c07p_body nameT tob (vt ++ pct :: ut) tcb) none
      { s with cur := A.length + (c07p_comp tm [] nameT tob (vt ++ pct :: ut) tcb).length } := hrun
  rw [← hrun'] at ht
  obtain ⟨q, ⟨hu, hsep⟩, hpu, hr⟩ := ht
  have hev := c07f_cwUnitEvs_of q pct (buildText pct.stop ut) false (by simpa using hu) hsep
  simp only [Bool.false_eq_true, if_false, List.nil_append] at hev
  rw [hev] at hpu
  refine ⟨_, _, hr, hpu, ?_, ⟨q.quantity.val.value, q.quantity.span⟩, rfl⟩
  rw [hrun']
  exact (c07p_indep_fields (Indep.cookwareTail ..) _).1

theorem c07p_timerNoteEvs_nil (s : BP α) (h : ∀ t, s.toks[s.cur]? = some t → t.kind ≠ .openParen) :
    timerNoteEvs s = [] := by
  unfold timerNoteEvs
  cases ht : s.toks[s.cur]? with
  | none => rfl
  | some op => simp only [h op ht, if_false]

/-- **a timer whose quantity has no unit** (`~x{5}`, `~{5}`): quantity tokens `t0 :: tl` (no blank, word or
    `%`, not starting with `=`) that read as a well-formed number or range; no modifiers, no alias
    separator, not followed by `(`.  Exactly `timer-missing-unit`, labelled with the position right after
    the value of the timer's quantity, then the timer (with or without name). -/
theorem c07p_timer_missing_unit_piece (T A rest : List Tok) (cs : CharSpec) (e : Ext) (tm : Tok) (nameT : List Tok)
    (tob t0 : Tok) (tl : List Tok) (tcb : Tok)
    (hT : T = A ++ (c07p_comp tm [] nameT tob (t0 :: tl) tcb ++ rest)) (hw : WF T)
    (sh : PlShape e .tilde tm [] nameT tob (t0 :: tl) tcb rest)
    (ha : e.has Gen.EXT_COMPONENT_ALIAS = false ∨ ∀ t ∈ nameT, t.kind ≠ .or)
    (hws : isWsComment t0.kind = false) (heq : t0.kind ≠ .eq)
    (hk : ∀ t ∈ t0 :: tl, t.kind ≠ .percent ∧ t.kind ≠ .word ∧ t.kind ≠ .ws)
    (hval : ∃ v, numOrRange (α := α) (e.has Gen.EXT_RANGE_VALUES) (t0 :: tl) = some (.ok v)) :
    PlPieceAt T cs e A ⟨c07p_comp tm [] nameT tob (t0 :: tl) tcb, fun evs => ∃ q : Loc (PQuantity α),
      evs = [.error ⟨.error, .parse, "timer-missing-unit", [Span.pos q.val.value.value.span.stop]⟩,
        .timer ⟨⟨if (buildText (offAt T (A.length + 1)) nameT).isTextEmpty cs then none
            else some (buildText (offAt T (A.length + 1)) nameT), some q⟩,
          ⟨offAt T A.length, offAt T (A.length + (c07p_comp tm [] nameT tob (t0 :: tl) tcb).length)⟩⟩] ∧
      q.val.unit = none⟩ := by
  apply c07p_piece_of_timer T A _ rest cs e hT hw tm _ rfl sh.hk
  intro s h1 h2 h3 h4 h5
  subst h1 h2 h3
  have hrun := c07p_timer_run s A tm [] nameT tob (t0 :: tl) tcb rest sh hT h5
  have hbody := c07p_body_qty_some nameT tob (t0 :: tl) tcb ⟨t0, by simp, c07p_not_pad_of_not_blank hws⟩
  have ht := c07f_timerTail_q (α := α) (offAt s.toks A.length)
    (offAt s.toks (A.length + (c07p_comp tm [] nameT tob (t0 :: tl) tcb).length))
    (offAt s.toks (A.length + 1)) (c07p_body nameT tob (t0 :: tl) tcb)
    ({ s with cur := A.length + (c07p_comp tm [] nameT tob (t0 :: tl) tcb).length } : BP α) (t0 :: tl) hbody ha
    [] (fun r => r.quantity.val.unit = none)
    (fun sq q1 q2 => Sat.mono (parseQuantity_quiet_num t0 tl sq hws heq hk (by rw [q2]; exact hval))
      (fun r s' h => ⟨h.1.pushed, h.2⟩))
  unfold Sat at ht
  have hrun' : timerP s = timerTail (offAt s.toks A.length)
      (offAt s.toks (A.length + (c07p_comp tm [] nameT tob (t0 :: tl) tcb).length))
      (offAt s.toks (A.length + 1)) [] (c07p_body nameT tob (t0 :: tl) tcb)
      { s with cur := A.length + (c07p_comp tm [] nameT tob (t0 :: tl) tcb).length } := hrun
  rw [← hrun'] at ht
  obtain ⟨q, hu, hpu, hr⟩ := ht
  have hnote : timerNoteEvs ({ s with cur := A.length + (c07p_comp tm [] nameT tob (t0 :: tl) tcb).length } : BP α)
      = [] := by
    apply c07p_timerNoteEvs_nil
    intro t ht'
    have : s.toks[A.length + (c07p_comp tm [] nameT tob (t0 :: tl) tcb).length]? = rest.head? := by
      rw [hT, ← List.append_assoc, List.getElem?_append_right (by simp)]
      simp [List.head?_eq_getElem?]
    exact sh.hrest t (by rw [← this]; exact ht')
  have hmu : c07f_missingUnitEvs q =
      [.error ⟨.error, .parse, "timer-missing-unit", [Span.pos q.quantity.val.value.value.span.stop]⟩] := by
    simp only [c07f_missingUnitEvs, hu, Option.isNone_none, if_true]
  rw [hnote, hmu] at hpu
  refine ⟨_, _, hr, hpu, ?_, q.quantity, rfl, hu⟩
  rw [hrun']
  exact c07p_timerTail_cur ..

/-- **duplicate modifiers on an ingredient** (`@&&x{}`, `@?-?x{}`; COMPONENT_MODIFIERS): plain modifier
    tokens `ms`, a non-blank name without alias separator, blank braces.  Exactly one `duplicate-modifier`
    (labelled with the span of all the modifier tokens) per token repeating an earlier one, then the
    ingredient with the accumulated flags. -/
theorem c07p_duplicate_modifier_piece (T A rest : List Tok) (cs : CharSpec) (e : Ext) (tm : Tok)
    (ms nameT : List Tok) (tob : Tok) (Q : List Tok) (tcb : Tok)
    (hT : T = A ++ (c07p_comp tm ms nameT tob Q tcb ++ rest)) (hw : WF T)
    (sh : PlShape e .at tm ms nameT tob Q tcb rest) (hs : SimpleMods ms)
    (hQ : ∀ t ∈ Q, isPadK t = true)
    (ha : e.has Gen.EXT_COMPONENT_ALIAS = false ∨ ∀ t ∈ nameT, t.kind ≠ .or)
    (hname : (buildText (offAt T (A.length + 1 + ms.length)) nameT).isTextEmpty cs = false) :
    PlPieceAt (α := α) T cs e A ⟨c07p_comp tm ms nameT tob Q tcb, fun evs =>
      evs = List.replicate (foldMods Modifiers.empty ms).2
          (.error ⟨.error, .parse, "duplicate-modifier", [tokensSpan ms]⟩) ++
        [.ingredient ⟨⟨simpleFlags ms (offAt T (A.length + 1)), none,
          buildText (offAt T (A.length + 1 + ms.length)) nameT, none, none, none⟩,
        ⟨offAt T A.length, offAt T (A.length + (c07p_comp tm ms nameT tob Q tcb).length)⟩⟩]⟩ := by
  apply c07p_piece_of_ingredient T A _ rest cs e hT hw tm _ rfl sh.hk
  intro s h1 h2 h3 h4 h5
  subst h1 h2 h3
  have hrun := c07p_ingredient_run s A tm ms nameT tob Q tcb rest sh hT h5
  have hbody := c07p_body_qty_none nameT tob Q tcb hQ
  have ht := ingredientTail_noqty (α := α) (offAt s.toks A.length)
    (offAt s.toks (A.length + (c07p_comp tm ms nameT tob Q tcb).length))
    (offAt s.toks (A.length + 1)) (offAt s.toks (A.length + 1 + ms.length)) ms (c07p_body nameT tob Q tcb) none
    ({ s with cur := A.length + (c07p_comp tm ms nameT tob Q tcb).length } : BP α) [] _ none
    (parseAlias_quiet' "ingredient" nameT _ _ ha) hname hbody hs
  unfold Sat at ht
  rw [← hrun] at ht
  obtain ⟨hpu, hr⟩ := ht
  refine ⟨_, _, hr, hpu.cast (by simp [dupEvs, dupModEv]), ?_, rfl⟩
  rw [hrun]
  exact (c07p_indep_fields (Indep.ingredientTail ..) _).1

/-- **modifiers on a cookware item** (`#@x{}`, `#&&x{}`; COMPONENT_MODIFIERS): plain modifier tokens `ms`, a
    non-blank name without alias separator, blank braces.  Exactly one `duplicate-modifier` per repeated
    token, then `cookware-recipe-modifier` labelled with the first `@` among the modifiers iff there is one,
    then the item. -/
theorem c07p_cookware_modifiers_piece (T A rest : List Tok) (cs : CharSpec) (e : Ext) (tm : Tok)
    (ms nameT : List Tok) (tob : Tok) (Q : List Tok) (tcb : Tok)
    (hT : T = A ++ (c07p_comp tm ms nameT tob Q tcb ++ rest)) (hw : WF T)
    (sh : PlShape e .hash tm ms nameT tob Q tcb rest) (hs : SimpleMods ms)
    (hQ : ∀ t ∈ Q, isPadK t = true)
    (ha : e.has Gen.EXT_COMPONENT_ALIAS = false ∨ ∀ t ∈ nameT, t.kind ≠ .or)
    (hname : (buildText (offAt T (A.length + 1 + ms.length)) nameT).isTextEmpty cs = false) :
    PlPieceAt (α := α) T cs e A ⟨c07p_comp tm ms nameT tob Q tcb, fun evs =>
      evs = List.replicate (foldMods Modifiers.empty ms).2
          (.error ⟨.error, .parse, "duplicate-modifier", [tokensSpan ms]⟩) ++ recipeModEvs ms ++
        [.cookware ⟨⟨simpleFlags ms (offAt T (A.length + 1)),
          buildText (offAt T (A.length + 1 + ms.length)) nameT, none, none, none⟩,
        ⟨offAt T A.length, offAt T (A.length + (c07p_comp tm ms nameT tob Q tcb).length)⟩⟩]⟩ := by
  apply c07p_piece_of_cookware T A _ rest cs e hT hw tm _ rfl sh.hk
  intro s h1 h2 h3 h4 h5
  subst h1 h2 h3
  have hrun := c07p_cookware_run s A tm ms nameT tob Q tcb rest sh hT h5
  have hbody := c07p_body_qty_none nameT tob Q tcb hQ
  have ht := cookwareTail_noqty (α := α) (offAt s.toks A.length)
    (offAt s.toks (A.length + (c07p_comp tm ms nameT tob Q tcb).length))
    (offAt s.toks (A.length + 1)) (offAt s.toks (A.length + 1 + ms.length)) ms (c07p_body nameT tob Q tcb) none
    ({ s with cur := A.length + (c07p_comp tm ms nameT tob Q tcb).length } : BP α) [] _ none
    (parseAlias_quiet' "cookware" nameT _ _ ha) hname hbody hs
  unfold Sat at ht
  rw [← hrun] at ht
  obtain ⟨hpu, hr⟩ := ht
  refine ⟨_, _, hr, hpu.cast (by simp [dupEvs, dupModEv]), ?_, rfl⟩
  rw [hrun]
  exact (c07p_indep_fields (Indep.cookwareTail ..) _).1

/-- the tail of an ingredient without quantity whose name text is blank -/
theorem c07p_ingredientTail_noqty_blank (start stop modPos nameOffset : Nat) (mtoks : List Tok) (body : Body)
    (note : Option Text) (s : BP α) (la : List (Ev α)) (nm : Text) (al : Option Text)
    (hA : Sat (parseAlias (α := α) "ingredient" body.name nameOffset) s
      (fun r s' => Pushed la s s' ∧ r = (nm, al)))
    (hn : nm.isTextEmpty s.cs = true) (hq : body.quantity = none) (hs : SimpleMods mtoks) :
    Sat (ingredientTail (α := α) start stop modPos nameOffset mtoks body note) s (fun r s' =>
      Pushed (la ++ [.error ⟨.error, .parse, "empty-name:ingredient", [nm.span]⟩] ++ dupEvs mtoks) s s' ∧
      r = some (.ingredient ⟨⟨simpleFlags mtoks modPos, none, nm, al, none, note⟩, ⟨start, stop⟩⟩)) := by
  unfold ingredientTail
  refine Sat.bind (Sat.mono hA ?_)
  rintro ⟨name, alias⟩ s5 ⟨p5, heq⟩
  cases heq
  dsimp only
  refine Sat.bind ?_
  unfold checkEmptyName
  refine Sat.bind (Sat.get ?_)
  rw [p5.1, hn]
  simp only [if_true]
  refine Sat.pushEv ?_
  refine Sat.bind (Sat.mono (parseModifiers_simple mtoks modPos _ hs) ?_)
  rintro pm s6 ⟨rfl, p6⟩
  rw [hq]
  refine Sat.bind (Sat.pure ?_)
  exact Sat.pure ⟨(p5.trans (Pushed.one _ _)).trans p6, rfl⟩

/-- **an ingredient without name** (`@{}`, `@ {}`): blank name tokens, blank braces, no modifiers.
    Exactly `empty-name:ingredient`, labelled with the span of the (blank) name text, then the ingredient. -/
theorem c07p_empty_name_piece (T A rest : List Tok) (cs : CharSpec) (e : Ext) (tm : Tok)
    (nameT : List Tok) (tob : Tok) (Q : List Tok) (tcb : Tok)
    (hT : T = A ++ (c07p_comp tm [] nameT tob Q tcb ++ rest)) (hw : WF T)
    (sh : PlShape e .at tm [] nameT tob Q tcb rest)
    (hQ : ∀ t ∈ Q, isPadK t = true)
    (ha : e.has Gen.EXT_COMPONENT_ALIAS = false ∨ ∀ t ∈ nameT, t.kind ≠ .or)
    (hname : (buildText (offAt T (A.length + 1)) nameT).isTextEmpty cs = true) :
    PlPieceAt (α := α) T cs e A ⟨c07p_comp tm [] nameT tob Q tcb, fun evs =>
      evs = [.error ⟨.error, .parse, "empty-name:ingredient", [(buildText (offAt T (A.length + 1)) nameT).span]⟩,
        .ingredient ⟨⟨⟨Modifiers.empty, Span.pos (offAt T (A.length + 1))⟩, none,
          buildText (offAt T (A.length + 1)) nameT, none, none, none⟩,
        ⟨offAt T A.length, offAt T (A.length + (c07p_comp tm [] nameT tob Q tcb).length)⟩⟩]⟩ := by
  apply c07p_piece_of_ingredient T A _ rest cs e hT hw tm _ rfl sh.hk
  intro s h1 h2 h3 h4 h5
  subst h1 h2 h3
  have hrun := c07p_ingredient_run s A tm [] nameT tob Q tcb rest sh hT h5
  have hbody := c07p_body_qty_none nameT tob Q tcb hQ
  have ht := c07p_ingredientTail_noqty_blank (α := α) (offAt s.toks A.length)
    (offAt s.toks (A.length + (c07p_comp tm [] nameT tob Q tcb).length))
    (offAt s.toks (A.length + 1)) (offAt s.toks (A.length + 1)) [] (c07p_body nameT tob Q tcb) none
    ({ s with cur := A.length + (c07p_comp tm [] nameT tob Q tcb).length } : BP α) [] _ none
    (parseAlias_quiet' "ingredient" nameT _ _ ha) hname hbody (by intro t ht; cases ht)
  unfold Sat at ht
  have hrun' : ingredientP s = ingredientTail (offAt s.toks A.length)
      (offAt s.toks (A.length + (c07p_comp tm [] nameT tob Q tcb).length))
      (offAt s.toks (A.length + 1)) (offAt s.toks (A.length + 1)) [] (c07p_body nameT tob Q tcb) none
      { s with cur := A.length + (c07p_comp tm [] nameT tob Q tcb).length } := hrun
  rw [← hrun'] at ht
  obtain ⟨hpu, hr⟩ := ht
  refine ⟨[.error ⟨.error, .parse, "empty-name:ingredient", [(buildText (offAt s.toks (A.length + 1)) nameT).span]⟩],
    _, hr, hpu.cast (by simp [dupEvs, foldMods]), ?_, ?_⟩
  · rw [hrun']
    exact (c07p_indep_fields (Indep.ingredientTail ..) _).1
  · simp [simpleFlags]

end Cook
