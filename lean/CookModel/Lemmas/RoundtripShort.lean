import CookModel.Lemmas.RoundtripTimer
/-
  C01, component layer continued: single-word components (`@salt`, `#pan`, `@&(~1)salt` is in
  RoundtripInter) are read back by the ingredient / cookware parsers.  (`rts_` prefix.)
-/
set_option linter.unusedSectionVars false
set_option linter.unusedSimpArgs false
set_option linter.unusedVariables false
namespace Cook

variable {α : Type} [Arith α]

/-! ### `noBraceFirst` -/

def braceOrMarker (t : Tok) : Bool := t.kind == .openBrace || isMarker t.kind

theorem noBraceFirst_kinds : ∀ (l l' : List Tok), l.map (·.kind) = l'.map (·.kind) → noBraceFirst l = noBraceFirst l' := by
  intro l
  induction l with
  | nil => intro l' h; cases l' with
    | nil => rfl
    | cons _ _ => simp at h
  | cons t r ih =>
    intro l' h
    cases l' with
    | nil => simp at h
    | cons t' r' =>
      simp only [List.map_cons, List.cons.injEq] at h
      have := ih r' h.2
      unfold noBraceFirst at this ⊢
      simp only [List.find?_cons, h.1]
      cases hp : (t'.kind == TK.openBrace || isMarker t'.kind) with
      | true => simp only [h.1]
      | false => exact this

theorem Spells.kinds {ts spec : List Tok} (h : Spells ts spec) : ts.map (·.kind) = spec.map (·.kind) := by
  have := congrArg (List.map Prod.fst) h
  simpa [Tok.kt, List.map_map, Function.comp_def] using this

theorem noBraceFirst_append_left (W X : List Tok) (hW : ∀ t ∈ W, braceOrMarker t = false) :
    noBraceFirst (W ++ X) = noBraceFirst X := by
  induction W with
  | nil => rfl
  | cons t r ih =>
    have h0 := hW t (by simp)
    unfold braceOrMarker at h0
    have := ih (fun x hx => hW x (by simp [hx]))
    unfold noBraceFirst at this ⊢
    simp only [List.cons_append, List.find?_cons, h0]
    exact this

theorem rts_struct_eta (s : BP α) : ({ s with cur := s.cur } : BP α) = s := by cases s; rfl

/-- the braces form declines when no `{` comes before the next marker -/
theorem compBodyLong_none (s : BP α) (A R : List Tok) (ht : s.toks = A ++ R) (hc : s.cur = A.length)
    (h : noBraceFirst R = true) : compBodyLong s = (none, s) := by
  unfold compBodyLong
  rw [withRecover_run]
  unfold noBraceFirst at h
  cases hf : R.find? (fun t => t.kind == .openBrace || isMarker t.kind) with
  | none =>
    rw [List.find?_eq_none] at hf
    have h1 := untilK_none (fun k => k == .openBrace || isMarker k) s A R ht hc
      (by intro t ht'; simpa using hf t ht')
    simp only [bind, StateT.bind, h1, pure, StateT.pure, Option.isNone_none, if_true]
  | some t =>
    rw [hf] at h
    obtain ⟨hpt, B, C, hR, hB⟩ := List.find?_eq_some_iff_append.mp hf
    have h1 := untilK_split (fun k => k == .openBrace || isMarker k) s A B t C (by rw [ht, hR]) hc
      (by intro x hx; simpa using hB x hx) hpt
    have h2 := consumeK_split_none .openBrace ({ s with cur := A.length + B.length } : BP α) (A ++ B) (t :: C)
      (by simp [ht, hR]) (by simp) (by intro x hx; simp at hx; subst hx; simpa using h)
    simp only [bind, StateT.bind, h1, h2, pure, StateT.pure, Option.isNone_none, if_true]

theorem compBodyShort_run (s : BP α) (A W R : List Tok) (ht : s.toks = A ++ (W ++ R)) (hc : s.cur = A.length)
    (hW : ∀ t ∈ W, wordKind t.kind = true) (hne : W ≠ []) (hR : ∀ t, R.head? = some t → wordKind t.kind = false) :
    compBodyShort s = (some ⟨W, none, none⟩, { s with cur := A.length + W.length }) := by
  unfold compBodyShort
  rw [withRecover_run]
  have h1 := consumeWhile_split (fun k => k == .word || k == .int || k == .zeroInt) s A W R ht hc
    (by intro t ht'; exact hW t ht') (by intro t ht'; exact hR t ht')
  have hemp : W.isEmpty = false := by cases W with
    | nil => exact absurd rfl hne
    | cons _ _ => rfl
  simp only [bind, StateT.bind, h1, hemp, Bool.false_eq_true, if_false, pure, StateT.pure, Option.isNone_some]

theorem compBody_short (s : BP α) (A W R : List Tok) (ht : s.toks = A ++ (W ++ R)) (hc : s.cur = A.length)
    (hW : ∀ t ∈ W, wordKind t.kind = true) (hne : W ≠ []) (hR : ∀ t, R.head? = some t → wordKind t.kind = false)
    (hnb : noBraceFirst R = true) :
    compBody s = (some ⟨W, none, none⟩, { s with cur := A.length + W.length }) := by
  unfold compBody
  have hWb : ∀ t ∈ W, braceOrMarker t = false := by
    intro t ht'
    have := hW t ht'
    unfold braceOrMarker
    cases hk : t.kind <;> simp [wordKind, hk, isMarker] at this ⊢
  have h1 := compBodyLong_none s A (W ++ R) ht hc (by rw [noBraceFirst_append_left W R hWb]; exact hnb)
  simp only [bind, StateT.bind, h1, compBodyShort_run s A W R ht hc hW hne hR]

/-! ### the decomposition -/

theorem rts_short_decomp {marker : Tok} {c : AComp} {ts : List Tok} (hs : Spells ts (spellShort marker c)) :
    ∃ tm mt W nt, ts = tm :: (mt ++ (W ++ nt)) ∧ tm.kind = marker.kind ∧ Spells mt (spellMods c.mods) ∧
      Spells W c.name ∧ Spells nt (spellNote c.note) := by
  simp only [spellShort, List.append_assoc, List.cons_append, List.nil_append] at hs
  obtain ⟨tm, r, rfl, hmk, -, hs⟩ := hs.cons_inv
  obtain ⟨mt, r, rfl, hmt, hs⟩ := hs.append_inv
  obtain ⟨W, nt, rfl, hW, hnt⟩ := hs.append_inv
  exact ⟨tm, mt, W, nt, rfl, hmk, hmt, hW, hnt⟩

/-- the steps the ingredient and cookware parsers share on a single-word spelling -/
theorem rts_short_steps (mk : TK) (marker : Tok) (hmarker : marker.kind = mk) (c : AComp) (s : BP α)
    (hwf : c.wfShort s.cs s.ext = true)
    (A ts rest : List Tok) (hs : Spells ts (spellShort marker c)) (ht : s.toks = A ++ (ts ++ rest))
    (hc : s.cur = A.length) (hrest : shortRestOK c rest = true) (hrun : RunAt (baseOff s.toks) s.toks) :
    ∃ (tm : Tok) (mt W : List Tok) (name : Text) (note : Option Text) (c2 c3 : Nat),
      consumeK mk s = (some tm, { s with cur := A.length + 1 }) ∧
      modifiersP ({ s with cur := A.length + 1 } : BP α) = (mt, { s with cur := c2 }) ∧
      compBody ({ s with cur := c2 } : BP α) = (some ⟨W, none, none⟩, { s with cur := c3 }) ∧
      noteP ({ s with cur := c3 } : BP α) = (note, { s with cur := A.length + ts.length }) ∧
      (∀ container, parseAlias container W (offAt s.toks c2) ({ s with cur := A.length + ts.length } : BP α) =
        ((name, none), { s with cur := A.length + ts.length })) ∧
      name.isTextEmpty s.cs = false ∧ name.trimmed s.cs = leafText c.name ∧
      note.map (fun t => t.trimmed s.cs) = c.note.map leafText ∧
      Spells mt (spellMods c.mods) := by
  simp only [AComp.wfShort, Bool.and_eq_true] at hwf
  obtain ⟨⟨⟨hwf, hword⟩, hnoalias⟩, hnoqty⟩ := hwf
  simp only [AComp.wf, Bool.and_eq_true] at hwf
  obtain ⟨⟨⟨⟨⟨⟨⟨⟨hname, hmk⟩, hmnd⟩, hmext⟩, hmhead⟩, hnor⟩, halias⟩, hnote⟩, hqty⟩ := hwf
  simp only [shortRestOK, Bool.and_eq_true] at hrest
  obtain ⟨hnb, hnext⟩ := hrest
  obtain ⟨tm, mt, W, nt, rfl, htmk, hmt, hW, hnt⟩ := rts_short_decomp hs
  rw [hmarker] at htmk
  have lf := leafOK_facts hname
  obtain ⟨u, ur, hu, hau⟩ := lf.head
  have hW0 := hW
  rw [hu] at hW0
  obtain ⟨hd, wr, hWeq, hhdk, -, -⟩ := hW0.cons_inv
  subst hWeq
  have hWk : ∀ t ∈ hd :: wr, wordKind t.kind = true := by
    intro t ht'
    obtain ⟨u', hu', hk', -⟩ := hW.mem ht'
    rw [List.all_eq_true] at hword
    rw [hk']; exact hword u' hu'
  have e1 : s.toks = A ++ tm :: (mt ++ hd :: (wr ++ (nt ++ rest))) := by rw [ht]; simp
  have h1 := consumeK_split_some mk s A tm _ e1 hc htmk
  -- modifiers
  have hmtk : ∀ m ∈ mt, modKind m.kind = true := by
    intro m hm
    obtain ⟨u', hu', hk', -⟩ := hmt.mem hm
    simp only [spellMods, List.mem_map] at hu'
    obtain ⟨k, hk, rfl⟩ := hu'
    rw [hk']; rw [List.all_eq_true] at hmk; exact hmk k hk
  have hhdw := hWk hd (by simp)
  have h2 : modifiersP ({ s with cur := A.length + 1 } : BP α) = (mt, { s with cur := A.length + 1 + mt.length }) := by
    by_cases hext : s.ext.has Gen.EXT_COMPONENT_MODIFIERS = true
    · have hx : modKind hd.kind = false := by
        cases hk : hd.kind <;> simp [wordKind, hk, modKind] at hhdw ⊢
      have hxp : hd.kind ≠ .openParen := by
        cases hk : hd.kind <;> simp [wordKind, hk] at hhdw ⊢
      have := modifiersP_on ({ s with cur := A.length + 1 } : BP α) hext (A ++ [tm]) mt hd
        (wr ++ (nt ++ rest)) (by rw [e1]; simp) (by simp) hmtk hx hxp
      rw [this]; simp
    · have hext' : s.ext.has Gen.EXT_COMPONENT_MODIFIERS = false := by simpa using hext
      simp only [Ext.modifiers, hext', Bool.or_false, List.isEmpty_iff] at hmext
      rw [hmext] at hmt
      simp only [spellMods, List.map_nil] at hmt
      have := hmt.nil_inv; subst this
      rw [modifiersP_off ({ s with cur := A.length + 1 } : BP α) hext']; rfl
  -- what follows the word
  have hnbA : noBraceFirst (nt ++ rest) = true := by
    rw [← hnb]
    apply noBraceFirst_kinds
    rw [List.map_append, List.map_append, hnt.kinds]
  have hfol : ∀ t, (nt ++ rest).head? = some t → wordKind t.kind = false := by
    intro t ht'
    cases hcn : c.note with
    | none =>
      rw [hcn] at hnt hnext
      simp only [spellNote] at hnt
      rw [hnt.nil_inv] at ht'
      simp only [List.nil_append] at ht'
      simp only [Option.isSome_none, Bool.false_or, ht', Option.all_some, Bool.and_eq_true, Bool.not_eq_true'] at hnext
      exact hnext.2
    | some n =>
      rw [hcn] at hnt
      simp only [spellNote, List.append_assoc, List.cons_append, List.nil_append] at hnt
      obtain ⟨top, r, rfl, hopk, -, -⟩ := hnt.cons_inv
      simp at ht'; subst ht'
      rw [hopk]; rfl
  have h3 := compBody_short ({ s with cur := A.length + 1 + mt.length } : BP α) (A ++ tm :: mt) (hd :: wr) (nt ++ rest)
    (by rw [e1]; simp) (by simp; omega) hWk (by simp) hfol hnbA
  -- the note
  have hnoteR : ∃ note : Option Text,
      noteP ({ s with cur := (A ++ tm :: mt).length + (hd :: wr).length } : BP α) =
        (note, { s with cur := A.length + (tm :: (mt ++ (hd :: wr ++ nt))).length }) ∧
      note.map (fun t => t.trimmed s.cs) = c.note.map leafText := by
    cases hcn : c.note with
    | none =>
      rw [hcn] at hnt hnext
      simp only [spellNote] at hnt
      have := hnt.nil_inv; subst this
      refine ⟨none, ?_, rfl⟩
      have hr : ∀ t, rest.head? = some t → t.kind ≠ .openParen := by
        intro t ht'
        simp only [Option.isSome_none, Bool.false_or, ht', Option.all_some, Bool.and_eq_true, bne_iff_ne] at hnext
        exact hnext.1
      rw [noteP_none _ (A ++ tm :: mt ++ (hd :: wr)) rest (by rw [e1]; simp) (by lenarith) hr]
      congr 2
      lenarith
    | some n =>
      rw [hcn] at hnt hnote
      simp only [spellNote, List.append_assoc, List.cons_append, List.nil_append] at hnt
      obtain ⟨top, r, rfl, hopk, -, hnt⟩ := hnt.cons_inv
      obtain ⟨N, r, rfl, hN, hnt⟩ := hnt.append_inv
      obtain ⟨tcp, rfl, hcpk, -⟩ := hnt.single_inv
      simp only [tk] at hopk hcpk
      have hNk : ∀ t ∈ N, t.kind ≠ .closeParen := by
        intro t ht'
        rcases leaf_kinds hnote hN t ht' with h' | h'
        · cases hk : t.kind <;> simp [noteKind, nameKind, hk] at h' ⊢
        · simp [h']
      have hrN : RunAt top.stop N := by
        have := rt_runAt_mid hrun (A ++ tm :: mt ++ (hd :: wr) ++ [top]) N (tcp :: rest) (by rw [e1]; simp)
        rw [e1] at this
        have e2 : A ++ tm :: (mt ++ hd :: (wr ++ (top :: (N ++ [tcp]) ++ rest))) =
            (A ++ tm :: mt ++ (hd :: wr)) ++ top :: (N ++ tcp :: rest) := by simp
        rw [e2, List.length_append, List.length_singleton, offAt_after] at this
        exact this
      refine ⟨some (buildText top.stop N), ?_, ?_⟩
      · rw [noteP_some _ (A ++ tm :: mt ++ (hd :: wr)) top N tcp rest (by rw [e1]; simp) (by lenarith) hopk hNk hcpk hrN]
        congr 2
        lenarith
      · have := rt_leaf_text (cs := s.cs) (allowed := noteKind) (pre := []) (l := n) (post := []) (ts := N)
          (by simpa using hN) rfl rfl hnote top.stop
        simp [this.1]
  obtain ⟨note, hnoteP, hnoteT⟩ := hnoteR
  -- the name
  have hrunName : RunAt (offAt s.toks (A.length + 1 + mt.length)) (hd :: wr) := by
    have := rt_runAt_mid hrun (A ++ tm :: mt) (hd :: wr) (nt ++ rest) (by rw [e1]; simp)
    have e2 : (A ++ tm :: mt).length = A.length + 1 + mt.length := by lenarith
    rwa [e2] at this
  have hnameLeaf := rt_leaf_text (cs := s.cs) (allowed := nameKind) (pre := []) (l := c.name) (post := [])
    (ts := hd :: wr) (by simpa using hW) rfl rfl hname (offAt s.toks (A.length + 1 + mt.length))
  have hnoOr : ∀ t ∈ hd :: wr, t.kind ≠ .or := by
    intro t ht'
    have := hWk t ht'
    cases hk : t.kind <;> simp [wordKind, hk] at this ⊢
  have hlen3 : (A ++ tm :: mt).length + (hd :: wr).length = A.length + 1 + mt.length + (hd :: wr).length := by lenarith
  rw [hlen3] at h3 hnoteP
  refine ⟨tm, mt, hd :: wr, buildText (offAt s.toks (A.length + 1 + mt.length)) (hd :: wr), note, _, _, h1, h2, h3,
    hnoteP, ?_, hnameLeaf.2, hnameLeaf.1, hnoteT, hmt⟩
  intro container
  exact parseAlias_none container _ _ _ hrunName (Or.inr hnoOr)

theorem rts_modsOf_wf {c : AComp} {cs : CharSpec} {e : Ext} (hwf : c.wfShort cs e = true) :
    c.mods.all modKind = true ∧ c.mods.Nodup ∧ c.alias = none ∧ c.qty = none := by
  simp only [AComp.wfShort, Bool.and_eq_true] at hwf
  obtain ⟨⟨⟨hwf, hword⟩, hnoalias⟩, hnoqty⟩ := hwf
  simp only [AComp.wf, Bool.and_eq_true] at hwf
  obtain ⟨⟨⟨⟨⟨⟨⟨⟨hname, hmk⟩, hmnd⟩, hmext⟩, hmhead⟩, hnor⟩, halias⟩, hnote⟩, hqty⟩ := hwf
  refine ⟨hmk, by simpa using hmnd, ?_, ?_⟩
  · cases h : c.alias <;> simp_all
  · cases h : c.qty <;> simp_all

theorem rt_ingredientP_short (c : AComp) (s : BP α) (hwf : c.wfShort s.cs s.ext = true)
    (A ts rest : List Tok) (hs : Spells ts (spellShortIngredient c)) (ht : s.toks = A ++ (ts ++ rest))
    (hc : s.cur = A.length) (hrest : shortRestOK c rest = true) (hrun : RunAt (baseOff s.toks) s.toks) :
    ∃ ing : PIngredient α,
      ingredientP s = (some (.ingredient ⟨ing, ⟨offAt s.toks A.length, offAt s.toks (A.length + ts.length)⟩⟩),
        { s with cur := A.length + ts.length }) ∧ IngrMatches s.cs c ing := by
  obtain ⟨tm, mt, W, name, note, c2, c3, h1, h2, h3, h4, h5, hnameNE, hnameT, hnoteT, hmt⟩ :=
    rts_short_steps .at (tk .at ['@']) rfl c s hwf A ts rest hs ht hc hrest hrun
  obtain ⟨hmk, hmnd, hna, hnq⟩ := rts_modsOf_wf hwf
  obtain ⟨mspan, hpm⟩ := parseModifiers_run (α := α) c.mods mt (offAt s.toks (A.length + 1))
    ({ s with cur := A.length + ts.length } : BP α) hmt hmk hmnd
  have hce := checkEmptyName_run "ingredient" name ({ s with cur := A.length + ts.length } : BP α) hnameNE
  unfold ingredientP
  simp only [bind, StateT.bind, currentOffset_run, h1, h2, h3, h4, h5, hce, hpm, pure, StateT.pure, hc]
  refine ⟨_, rfl, ?_⟩
  refine ⟨hnameT, by rw [hna]; rfl, hnoteT, rfl, rfl, ?_⟩
  rw [hnq]; trivial

theorem rt_cookwareP_short (c : AComp) (s : BP α) (hwfc : c.wfShortCookware s.cs s.ext = true)
    (A ts rest : List Tok) (hs : Spells ts (spellShortCookware c)) (ht : s.toks = A ++ (ts ++ rest))
    (hc : s.cur = A.length) (hrest : shortRestOK c rest = true) (hrun : RunAt (baseOff s.toks) s.toks) :
    ∃ cw : PCookware α,
      cookwareP s = (some (.cookware ⟨cw, ⟨offAt s.toks A.length, offAt s.toks (A.length + ts.length)⟩⟩),
        { s with cur := A.length + ts.length }) ∧ CwMatches s.cs c cw := by
  simp only [AComp.wfShortCookware, Bool.and_eq_true, Bool.not_eq_true'] at hwfc
  obtain ⟨hwf, hnoat⟩ := hwfc
  obtain ⟨tm, mt, W, name, note, c2, c3, h1, h2, h3, h4, h5, hnameNE, hnameT, hnoteT, hmt⟩ :=
    rts_short_steps .hash (tk .hash ['#']) rfl c s hwf A ts rest hs ht hc hrest hrun
  obtain ⟨hmk, hmnd, hna, hnq⟩ := rts_modsOf_wf hwf
  obtain ⟨mspan, hpm⟩ := parseModifiers_run (α := α) c.mods mt (offAt s.toks (A.length + 1))
    ({ s with cur := A.length + ts.length } : BP α) hmt hmk hmnd
  have hce := checkEmptyName_run "cookware" name ({ s with cur := A.length + ts.length } : BP α) hnameNE
  have hrec := modsOf_no_recipe c.mods hmk hnoat
  unfold cookwareP
  simp only [bind, StateT.bind, currentOffset_run, h1, h2, h3, h4, h5, hce, hpm, hrec, pure, StateT.pure, hc,
    Bool.false_eq_true, if_false]
  refine ⟨_, rfl, ?_⟩
  refine ⟨hnameT, by rw [hna]; rfl, hnoteT, rfl, ?_⟩
  rw [hnq]; trivial

end Cook
