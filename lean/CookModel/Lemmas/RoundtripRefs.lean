import CookModel.Lemmas.RoundtripAnalysis
/-
  C01, analysis layer: a correctly written reference (`&name` after a definition of `name`) is
  resolved to that definition, the definition lists it back, the inherited modifiers are added, and
  NO diagnostic is raised.  (`rtf_` prefix.)
-/
set_option linter.unusedSectionVars false
set_option linter.unusedSimpArgs false
set_option linter.unusedVariables false
namespace Cook

variable {α : Type} [Arith α]

/-- the modifier bits of the reference that its definition does not have (REF itself aside): when not
    zero `resolve_reference` reports `ref-conflicting-modifiers` -/
def refConflict (mods inherited : Modifiers) : Nat :=
  (List.range 16).foldl (fun acc i =>
    let b := 1 <<< i
    if (mods.bits &&& b) != 0 && (inherited.bits &&& b) == 0 && b != Modifiers.REF then acc ||| b else acc) 0

/-- `resolve_reference` on an explicit reference whose name is found, in the default modes, without
    conflicting modifiers: the target, the modifiers with the inherited ones and REF, nothing reported -/
theorem rtf_resolveReference (env : Env) (container : String) (inherit : Nat) (existing : List (Str × Modifiers))
    (name : Str) (mods : Modifiers) (loc modLoc : Span) (s : Col α) (t : Nat)
    (hd : s.defineMode = .all) (hdup : s.duplicateMode = .new)
    (hREF : mods.contains Modifiers.REF = true) (hNEW : mods.contains Modifiers.NEW = false)
    (hfound : sameNameIdx env existing name = some t)
    (hconf : refConflict mods ⟨(((existing[t]?).map (·.2)).getD Modifiers.empty).bits &&& inherit⟩ = 0) :
    resolveReference env container inherit existing name mods loc modLoc s =
      ((⟨mods.bits ||| ((((existing[t]?).map (·.2)).getD Modifiers.empty).bits &&& inherit) ||| Modifiers.REF⟩,
        some ⟨t, false⟩), s) := by
  have hc : (refConflict mods ⟨(((existing[t]?).map (·.2)).getD Modifiers.empty).bits &&& inherit⟩ != 0) = false := by
    simp [hconf]
  have h1 : (DuplicateMode.new == DuplicateMode.reference) = false := by decide
  have h2 : (DefineMode.all == DefineMode.steps) = false := by decide
  unfold refConflict at hc
  unfold resolveReference
  simp +instances only [A_bind, A_pure, A_get, A_ite, aerr, awarn, A_modify, hNEW, hREF, hfound, hd, hdup, h1, h2,
    Bool.false_and, Bool.and_false, Bool.false_eq_true, if_false, Bool.true_or, Bool.or_false, Bool.or_self,
    Bool.not_true, if_true, Bool.and_true, Bool.and_self, hc]

/-- the conditions under which the checks of a resolved ingredient reference report nothing -/
structure RefChecksQuiet (env : Env) (li : Loc (PIngredient α)) (quantity : Option (Quantity (ScalableValue α)))
    (defn : Ingredient (ScalableValue α)) (b : Bool) : Prop where
  adv : env.ext.has Gen.EXT_ADVANCED_UNITS = false
  note : li.val.note = none
  qty : (defn.quantity.isSome && quantity.isSome && !b) = false
  text : ∀ rq dq, quantity = some rq → defn.quantity = some dq → rq.value.val.isText = dq.value.val.isText

theorem rtf_ingrRefChecks (env : Env) (input : Str) (li : Loc (PIngredient α)) (igr : Ingredient (ScalableValue α))
    (t : Nat) (defn : Ingredient (ScalableValue α)) (defLoc : Loc (PIngredient α)) (rf : List Nat) (b : Bool)
    (tg : Option RefTarget) (s : Col α) (hrel : defn.relation = ⟨.definition rf b, tg⟩)
    (hq : RefChecksQuiet env li igr.quantity defn b) :
    ingrRefChecks env input li igr t defn defLoc s = ((), s) := by
  obtain ⟨h1, h2, h3, h4⟩ := hq
  unfold ingrRefChecks
  have hnr : defn.relation.relation.isReference = false := by rw [hrel]; rfl
  simp only [bind, StateT.bind, pure, StateT.pure, hnr, Bool.not_false, Bool.not_true, Bool.false_eq_true, if_false, h1,
    h2, hrel, h3]
  cases hq1 : igr.quantity with
  | none => rfl
  | some rq =>
    cases hq2 : defn.quantity with
    | none => rfl
    | some dq =>
      have := h4 rq dq hq1 hq2
      simp [this, pure, StateT.pure, ComponentRelation.isReference, StateT.bind]

/-- the definition after the back-link update: `referenced_from` gets the index of the new component -/
def backlinked (defn : Ingredient (ScalableValue α)) (rf : List Nat) (n : Nat) (b : Bool) (tg : Option RefTarget) :
    Ingredient (ScalableValue α) :=
  { defn with relation := ⟨.definition (rf ++ [n]) b, tg⟩ }

/-- the modifiers of a resolved ingredient reference: the written ones, those inherited from the definition
    (HIDDEN, OPT, RECIPE), and REF -/
def refMods (mods defnMods : Modifiers) : Modifiers :=
  ⟨mods.bits ||| (defnMods.bits &&& (Modifiers.HIDDEN ||| Modifiers.OPT ||| Modifiers.RECIPE)) ||| Modifiers.REF⟩

/-- the reference built from the written component `igr0` -/
def asReference (igr0 : Ingredient (ScalableValue α)) (defnMods : Modifiers) (t : Nat) : Ingredient (ScalableValue α) :=
  { igr0 with modifiers := refMods igr0.modifiers defnMods, relation := ⟨.reference t, some .ingredient⟩ }

/-- the regular branch of `ingredient` on such a reference -/
theorem rtf_ingrRegular (env : Env) (input : Str) (li : Loc (PIngredient α)) (igr0 : Ingredient (ScalableValue α))
    (s : Col α) (t : Nat) (defn : Ingredient (ScalableValue α)) (defLoc : Loc (PIngredient α)) (rf : List Nat)
    (b : Bool) (tg : Option RefTarget)
    (hd : s.defineMode = .all) (hdup : s.duplicateMode = .new)
    (hREF : igr0.modifiers.contains Modifiers.REF = true) (hNEW : igr0.modifiers.contains Modifiers.NEW = false)
    (hfound : sameNameIdx env (s.ingredients.toList.map (fun x => (x.name, x.modifiers))) igr0.name = some t)
    (hdefn : s.ingredients[t]? = some defn) (hloc : s.locIngr[t]? = some defLoc)
    (hrel : defn.relation = ⟨.definition rf b, tg⟩)
    (hconf : refConflict igr0.modifiers
      ⟨defn.modifiers.bits &&& (Modifiers.HIDDEN ||| Modifiers.OPT ||| Modifiers.RECIPE)⟩ = 0)
    (hq : RefChecksQuiet env li igr0.quantity defn b) :
    ingrRegular env input li igr0 s =
      (asReference igr0 defn.modifiers t,
       { s with ingredients := s.ingredients.setIfInBounds t (backlinked defn rf s.ingredients.size b tg) }) := by
  have hex : (((s.ingredients.toList.map (fun x => (x.name, x.modifiers)))[t]?).map (·.2)).getD Modifiers.empty =
      defn.modifiers := by
    simp [hdefn]
  unfold ingrRegular
  simp only [bind, StateT.bind, get, getThe, MonadStateOf.get, StateT.get, pure, StateT.pure]
  rw [rtf_resolveReference env "ingredient" _ _ igr0.name igr0.modifiers li.span li.val.modifiers.span s t hd hdup hREF
    hNEW hfound (by rw [hex]; exact hconf)]
  have hchk := rtf_ingrRefChecks env input li (asReference igr0 defn.modifiers t) t defn defLoc rf b tg s hrel hq
  unfold asReference refMods at hchk
  simp only [bind, StateT.bind, get, getThe, MonadStateOf.get, StateT.get, pure, StateT.pure, hex, hdefn, hloc, hchk,
    ingrSetReferencedFrom, hrel, modify, modifyGet, MonadStateOf.modifyGet, StateT.modifyGet]
  rfl

theorem rtf_ingrBuild (env : Env) (input : Str) (li : Loc (PIngredient α)) (igr0 : Ingredient (ScalableValue α))
    (s : Col α) (t : Nat) (defn : Ingredient (ScalableValue α)) (defLoc : Loc (PIngredient α)) (rf : List Nat)
    (b : Bool) (tg : Option RefTarget)
    (hd : s.defineMode = .all) (hdup : s.duplicateMode = .new) (hinter : li.val.inter = none)
    (hREF : igr0.modifiers.contains Modifiers.REF = true) (hNEW : igr0.modifiers.contains Modifiers.NEW = false)
    (hfound : sameNameIdx env (s.ingredients.toList.map (fun x => (x.name, x.modifiers))) igr0.name = some t)
    (hdefn : s.ingredients[t]? = some defn) (hloc : s.locIngr[t]? = some defLoc)
    (hrel : defn.relation = ⟨.definition rf b, tg⟩)
    (hconf : refConflict igr0.modifiers
      ⟨defn.modifiers.bits &&& (Modifiers.HIDDEN ||| Modifiers.OPT ||| Modifiers.RECIPE)⟩ = 0)
    (hq : RefChecksQuiet env li igr0.quantity defn b) :
    ingrBuild env input li igr0 s =
      (s.ingredients.size,
       { s with locIngr := s.locIngr.push li,
                ingredients := (s.ingredients.setIfInBounds t (backlinked defn rf s.ingredients.size b tg)).push
                  (asReference igr0 defn.modifiers t) }) := by
  unfold ingrBuild
  simp only [hinter, bind, StateT.bind]
  rw [rtf_ingrRegular env input li igr0 s t defn defLoc rf b tg hd hdup hREF hNEW hfound hdefn hloc hrel hconf hq]
  simp only [get, getThe, MonadStateOf.get, StateT.get, pure, StateT.pure, modify, modifyGet, MonadStateOf.modifyGet,
    StateT.modifyGet, Array.size_push, Array.size_setIfInBounds, Nat.add_sub_cancel]

/-- a correctly written ingredient reference inside a step block, default modes: the new table entry is
    the reference to `t` with the written and the inherited modifiers, the definition at `t` lists the new
    index back, the step gets the item, and NOTHING is reported -/
theorem rtf_proc_ingredient_ref (env : Env) (input : Str) (li : Loc (PIngredient α)) (s : Col α) (items : List Item)
    (t : Nat) (defn : Ingredient (ScalableValue α)) (defLoc : Loc (PIngredient α)) (rf : List Nat) (b : Bool)
    (tg : Option RefTarget)
    (hd : s.defineMode = .all) (hdup : s.duplicateMode = .new) (hb : s.block = some (.step items))
    (hinter : li.val.inter = none) (hlock : ∀ q, li.val.quantity = some q → lockOK q.val.value true)
    (hREF : li.val.modifiers.val.contains Modifiers.REF = true)
    (hNEW : li.val.modifiers.val.contains Modifiers.NEW = false)
    (hfound : sameNameIdx env (s.ingredients.toList.map (fun x => (x.name, x.modifiers))) (ingrOf env li).name = some t)
    (hdefn : s.ingredients[t]? = some defn) (hloc : s.locIngr[t]? = some defLoc)
    (hrel : defn.relation = ⟨.definition rf b, tg⟩)
    (hconf : refConflict li.val.modifiers.val
      ⟨defn.modifiers.bits &&& (Modifiers.HIDDEN ||| Modifiers.OPT ||| Modifiers.RECIPE)⟩ = 0)
    (hq : RefChecksQuiet env li (ingrOf env li).quantity defn b) :
    (processEvent env input (.ingredient li) s).2 =
      { s with
        locIngr := s.locIngr.push li,
        ingredients := (s.ingredients.setIfInBounds t (backlinked defn rf s.ingredients.size b tg)).push
          (asReference (ingrOf env li) defn.modifiers t),
        block := some (.step (items ++ [.ingredient s.ingredients.size])) } := by
  have e : processEvent env input (.ingredient li) s = inBlockComponent env input (.ingredient li) s := rfl
  rw [e, rta_inBlock_step env input _ s items hb]
  have hne : (DefineMode.all != DefineMode.components) = true := by decide
  have hA : ingredientA env input li s =
      (s.ingredients.size,
       { s with locIngr := s.locIngr.push li,
                ingredients := (s.ingredients.setIfInBounds t (backlinked defn rf s.ingredients.size b tg)).push
                  (asReference (ingrOf env li) defn.modifiers t) }) := by
    unfold ingredientA
    simp only [bind, StateT.bind, rta_optQuantityOf env _ true s hlock, get, getThe, MonadStateOf.get, StateT.get, pure,
      StateT.pure, hd, hne]
    refine (rtf_ingrBuild env input li _ s t defn defLoc rf b tg hd hdup hinter ?_ ?_ ?_ hdefn hloc hrel ?_ ?_).trans ?_
    · exact hREF
    · exact hNEW
    · exact hfound
    · exact hconf
    · exact hq
    · rw [← hd]; rfl
  simp only [inStepComponent, bind, StateT.bind, hA]
  rw [rta_pushItem _ _ items (by exact hb)]

/-! ### cookware references -/

structure CwRefChecksQuiet (lc : Loc (PCookware α)) (quantity : Option (ScalableValue α))
    (defn : Cookware (ScalableValue α)) (b : Bool) : Prop where
  note : lc.val.note = none
  qty : (defn.quantity.isSome && quantity.isSome && !b) = false
  text : ∀ rq dq, quantity = some rq → defn.quantity = some dq → rq.val.isText = dq.val.isText

theorem rtf_cwRefChecks (input : Str) (lc : Loc (PCookware α)) (cw : Cookware (ScalableValue α))
    (defn : Cookware (ScalableValue α)) (defLoc : Loc (PCookware α)) (rf : List Nat) (b : Bool) (s : Col α)
    (hrel : defn.relation = .definition rf b) (hq : CwRefChecksQuiet lc cw.quantity defn b) :
    cwRefChecks input lc cw defn defLoc s = ((), s) := by
  obtain ⟨h2, h3, h4⟩ := hq
  unfold cwRefChecks
  simp only [bind, StateT.bind, pure, StateT.pure, hrel, ComponentRelation.isReference, Bool.false_eq_true, if_false, h2,
    h3]
  cases hq1 : cw.quantity with
  | none => rfl
  | some rq =>
    cases hq2 : defn.quantity with
    | none => rfl
    | some dq =>
      have := h4 rq dq hq1 hq2
      simp [this, pure, StateT.pure, StateT.bind]

def cwBacklinked (defn : Cookware (ScalableValue α)) (rf : List Nat) (n : Nat) (b : Bool) : Cookware (ScalableValue α) :=
  { defn with relation := .definition (rf ++ [n]) b }

/-- the modifiers of a resolved cookware reference: written, inherited (HIDDEN, OPT), REF -/
def cwRefMods (mods defnMods : Modifiers) : Modifiers :=
  ⟨mods.bits ||| (defnMods.bits &&& (Modifiers.HIDDEN ||| Modifiers.OPT)) ||| Modifiers.REF⟩

def cwAsReference (cw0 : Cookware (ScalableValue α)) (defnMods : Modifiers) (t : Nat) : Cookware (ScalableValue α) :=
  { cw0 with modifiers := cwRefMods cw0.modifiers defnMods, relation := .reference t }

theorem rtf_cwResolve (env : Env) (input : Str) (lc : Loc (PCookware α)) (cw0 : Cookware (ScalableValue α))
    (s : Col α) (t : Nat) (defn : Cookware (ScalableValue α)) (defLoc : Loc (PCookware α)) (rf : List Nat) (b : Bool)
    (hd : s.defineMode = .all) (hdup : s.duplicateMode = .new)
    (hREF : cw0.modifiers.contains Modifiers.REF = true) (hNEW : cw0.modifiers.contains Modifiers.NEW = false)
    (hfound : sameNameIdx env (s.cookware.toList.map (fun x => (x.name, x.modifiers))) cw0.name = some t)
    (hdefn : s.cookware[t]? = some defn) (hloc : s.locCw[t]? = some defLoc)
    (hrel : defn.relation = .definition rf b)
    (hconf : refConflict cw0.modifiers ⟨defn.modifiers.bits &&& (Modifiers.HIDDEN ||| Modifiers.OPT)⟩ = 0)
    (hq : CwRefChecksQuiet lc cw0.quantity defn b) :
    cwResolve env input lc cw0 s =
      (cwAsReference cw0 defn.modifiers t,
       { s with cookware := s.cookware.setIfInBounds t (cwBacklinked defn rf s.cookware.size b) }) := by
  have hex : (((s.cookware.toList.map (fun x => (x.name, x.modifiers)))[t]?).map (·.2)).getD Modifiers.empty =
      defn.modifiers := by
    simp [hdefn]
  unfold cwResolve
  simp only [bind, StateT.bind, get, getThe, MonadStateOf.get, StateT.get, pure, StateT.pure]
  rw [rtf_resolveReference env "cookware item" _ _ cw0.name cw0.modifiers lc.span lc.val.modifiers.span s t hd hdup hREF
    hNEW hfound (by rw [hex]; exact hconf)]
  have hchk := rtf_cwRefChecks input lc (cwAsReference cw0 defn.modifiers t) defn defLoc rf b s hrel hq
  unfold cwAsReference cwRefMods at hchk
  simp only [bind, StateT.bind, get, getThe, MonadStateOf.get, StateT.get, pure, StateT.pure, hex, hdefn, hloc, hchk,
    cwSetReferencedFrom, hrel, modify, modifyGet, MonadStateOf.modifyGet, StateT.modifyGet]
  rfl

theorem rtf_cwBuild (env : Env) (input : Str) (lc : Loc (PCookware α)) (cw0 : Cookware (ScalableValue α))
    (s : Col α) (t : Nat) (defn : Cookware (ScalableValue α)) (defLoc : Loc (PCookware α)) (rf : List Nat) (b : Bool)
    (hd : s.defineMode = .all) (hdup : s.duplicateMode = .new)
    (hREF : cw0.modifiers.contains Modifiers.REF = true) (hNEW : cw0.modifiers.contains Modifiers.NEW = false)
    (hfound : sameNameIdx env (s.cookware.toList.map (fun x => (x.name, x.modifiers))) cw0.name = some t)
    (hdefn : s.cookware[t]? = some defn) (hloc : s.locCw[t]? = some defLoc)
    (hrel : defn.relation = .definition rf b)
    (hconf : refConflict cw0.modifiers ⟨defn.modifiers.bits &&& (Modifiers.HIDDEN ||| Modifiers.OPT)⟩ = 0)
    (hq : CwRefChecksQuiet lc cw0.quantity defn b) :
    cwBuild env input lc cw0 s =
      (s.cookware.size,
       { s with locCw := s.locCw.push lc,
                cookware := (s.cookware.setIfInBounds t (cwBacklinked defn rf s.cookware.size b)).push
                  (cwAsReference cw0 defn.modifiers t) }) := by
  unfold cwBuild
  simp only [bind, StateT.bind]
  rw [rtf_cwResolve env input lc cw0 s t defn defLoc rf b hd hdup hREF hNEW hfound hdefn hloc hrel hconf hq]
  simp only [get, getThe, MonadStateOf.get, StateT.get, pure, StateT.pure, modify, modifyGet, MonadStateOf.modifyGet,
    StateT.modifyGet, Array.size_push, Array.size_setIfInBounds, Nat.add_sub_cancel]

/-- a correctly written cookware reference `#&name` inside a step block, default modes -/
theorem rtf_proc_cookware_ref (env : Env) (input : Str) (lc : Loc (PCookware α)) (s : Col α) (items : List Item)
    (t : Nat) (defn : Cookware (ScalableValue α)) (defLoc : Loc (PCookware α)) (rf : List Nat) (b : Bool)
    (hd : s.defineMode = .all) (hdup : s.duplicateMode = .new) (hb : s.block = some (.step items))
    (hlock : ∀ q, lc.val.quantity = some q → lockOK q.val false)
    (hREF : lc.val.modifiers.val.contains Modifiers.REF = true)
    (hNEW : lc.val.modifiers.val.contains Modifiers.NEW = false)
    (hfound : sameNameIdx env (s.cookware.toList.map (fun x => (x.name, x.modifiers))) (cwOf env lc).name = some t)
    (hdefn : s.cookware[t]? = some defn) (hloc : s.locCw[t]? = some defLoc)
    (hrel : defn.relation = .definition rf b)
    (hconf : refConflict lc.val.modifiers.val ⟨defn.modifiers.bits &&& (Modifiers.HIDDEN ||| Modifiers.OPT)⟩ = 0)
    (hq : CwRefChecksQuiet lc (cwOf env lc).quantity defn b) :
    (processEvent env input (.cookware lc) s).2 =
      { s with
        locCw := s.locCw.push lc,
        cookware := (s.cookware.setIfInBounds t (cwBacklinked defn rf s.cookware.size b)).push
          (cwAsReference (cwOf env lc) defn.modifiers t),
        block := some (.step (items ++ [.cookware s.cookware.size])) } := by
  have e : processEvent env input (.cookware lc) s = inBlockComponent env input (.cookware lc) s := rfl
  rw [e, rta_inBlock_step env input _ s items hb]
  have hne : (DefineMode.all != DefineMode.components) = true := by decide
  have hA : cookwareA env input lc s =
      (s.cookware.size,
       { s with locCw := s.locCw.push lc,
                cookware := (s.cookware.setIfInBounds t (cwBacklinked defn rf s.cookware.size b)).push
                  (cwAsReference (cwOf env lc) defn.modifiers t) }) := by
    unfold cookwareA
    simp only [bind, StateT.bind, rta_optValueOf env _ s hlock, get, getThe, MonadStateOf.get, StateT.get, pure,
      StateT.pure, hd, hne]
    refine (rtf_cwBuild env input lc _ s t defn defLoc rf b hd hdup ?_ ?_ ?_ hdefn hloc hrel ?_ ?_).trans ?_
    · exact hREF
    · exact hNEW
    · exact hfound
    · exact hconf
    · exact hq
    · rw [← hd]; rfl
  simp only [inStepComponent, bind, StateT.bind, hA]
  rw [rta_pushItem _ _ items (by exact hb)]

end Cook
