import CookModel.Lemmas.BindingsSurface
import CookModel.Lemmas.ParsedScaled
import CookModel.Props.C03
/-
  `parse_recipe` of the bindings as a whole (Side/BindingsEntry.lean) and the reference lists of the view.
  Prefix `bsf_`.
-/
namespace Cook.Ffi
open Cook

theorem bsf_colRecipe_eq {α} (c : Col α) : colRecipe c = c.toRecipe := rfl

/-- what `parseScaled` returns when it returns -/
theorem bsf_parseScaled_ok {α} [Arith α] (env : Env) (cv : Converter α) (input : Str) (f : α) (r : ScaledRecipe α)
    (h : parseScaled env cv input f = .ok r) :
    ∃ c, (parseRecipe (α := α) env input).output = some c ∧ passValid (parseRecipe (α := α) env input) = true ∧
      r = (recipeScale cv c.toRecipe f).1 := by
  unfold parseScaled at h
  split at h
  · cases h
  · split at h
    · rename_i hv
      split at h
      · rename_i c hc
        cases h
        exact ⟨c, hc, hv, rfl⟩
      · cases h
    · cases h

/-- … and it returns exactly when the pass result is valid (no parser panic: C03) -/
theorem bsf_parseScaled_iff (env : Env) (cv : Converter Rat) (input : Str) (f : Rat) :
    (∃ r, parseScaled env cv input f = .ok r) ↔ passValid (parseRecipe (α := Rat) env input) = true := by
  constructor
  · rintro ⟨r, h⟩
    obtain ⟨_, _, hv, _⟩ := bsf_parseScaled_ok env cv input f r h
    exact hv
  · intro hv
    have hp : (parseRecipe (α := Rat) env input).panic = none := (C03_holds env input).1
    have ho : (parseRecipe (α := Rat) env input).output.isSome = true := by
      unfold passValid at hv
      simp only [Bool.and_eq_true] at hv
      exact hv.1
    obtain ⟨c, hc⟩ := Option.isSome_iff_exists.mp ho
    refine ⟨(recipeScale cv (colRecipe c) f).1, ?_⟩
    unfold parseScaled
    rw [hp]
    simp only [hv, if_true, hc]

theorem bsf_parseScaled_error (env : Env) (cv : Converter Rat) (input : Str) (f : Rat)
    (hv : passValid (parseRecipe (α := Rat) env input) = false) :
    parseScaled env cv input f = .error (.unwrapNone "parse_recipe: into_result") := by
  have hp : (parseRecipe (α := Rat) env input).panic = none := (C03_holds env input).1
  unfold parseScaled
  rw [hp]
  simp [hv]

/-- the scaled recipe inside `parse_recipe` is a `ParsedScaled` one -/
theorem bsf_parseScaled_parsed (env : Env) (cv : Converter Rat) (input : Str) (f : Rat) (r : ScaledRecipe Rat)
    (h : parseScaled env cv input f = .ok r) : ParsedScaled r := by
  obtain ⟨c, hc, _, rfl⟩ := bsf_parseScaled_ok env cv input f r h
  exact ⟨env, input, c, hc, .inl ⟨cv, f, rfl⟩⟩

theorem bsf_parseRecipeView_ok {α} [Arith α] (env : Env) (cv : Converter α) (input : Str) (f : α) (v : CooklangRecipe α)
    (h : parseRecipeView env cv input f = .ok v) :
    ∃ r, parseScaled env cv input f = .ok r ∧ v = intoSimpleRecipe r := by
  unfold parseRecipeView at h
  cases hr : parseScaled env cv input f with
  | error e => rw [hr] at h; cases h
  | ok r => rw [hr] at h; cases h; exact ⟨r, rfl, rfl⟩

/-! ### `deref_*` are index lookups -/

theorem bsf_getOrPanic_ok_iff {β} (l : List β) (i : Nat) (site : String) (x : β) :
    getOrPanic l i site = .ok x ↔ l[i]? = some x := by
  unfold getOrPanic
  cases h : l[i]? with
  | none => simp
  | some y => simp

theorem bsf_getOrPanic_error_iff {β} (l : List β) (i : Nat) (site : String) :
    getOrPanic l i site = .error (.unwrapNone site) ↔ l.length ≤ i := by
  unfold getOrPanic
  cases h : l[i]? with
  | none => simp [List.getElem?_eq_none_iff.mp h]
  | some y =>
    have : i < l.length := by
      apply Classical.byContradiction
      intro hn
      rw [List.getElem?_eq_none (by omega)] at h
      cases h
    simp
    omega

/-! ### the reference lists of the view resolve -/

theorem bsf_mem_ingIndex (items : List FItem) (i : Nat) (h : i ∈ items.filterMap FItem.ingIndex) :
    FItem.ingredientRef i ∈ items := by
  obtain ⟨it, hit, he⟩ := List.mem_filterMap.mp h
  cases it <;> simp [FItem.ingIndex] at he
  subst he; exact hit

theorem bsf_mem_cwIndex (items : List FItem) (i : Nat) (h : i ∈ items.filterMap FItem.cwIndex) :
    FItem.cookwareRef i ∈ items := by
  obtain ⟨it, hit, he⟩ := List.mem_filterMap.mp h
  cases it <;> simp [FItem.cwIndex] at he
  subst he; exact hit

theorem bsf_mem_tmIndex (items : List FItem) (i : Nat) (h : i ∈ items.filterMap FItem.tmIndex) :
    FItem.timerRef i ∈ items := by
  obtain ⟨it, hit, he⟩ := List.mem_filterMap.mp h
  cases it <;> simp [FItem.tmIndex] at he
  subst he; exact hit

/-- every step block of the view lists exactly the indices of its reference items -/
theorem bsf_step_refs {α} [Arith α] (r : ScaledRecipe α) (hfit : FitsU32 r) (hin : IndicesInRange r)
    (fsec : FSection) (hsec : fsec ∈ (intoSimpleRecipe r).sections) (fs : FStep)
    (hfs : Block.stepBlock fs ∈ fsec.blocks) :
    fs.ingredientRefs = fs.items.filterMap FItem.ingIndex ∧
    fs.cookwareRefs = fs.items.filterMap FItem.cwIndex ∧
    fs.timerRefs = fs.items.filterMap FItem.tmIndex := by
  have hsecs : Forall₂ SectionMirrors r.sections (intoSimpleRecipe r).sections := by
    rw [intoSimpleRecipe_sections]
    exact forall₂_map_of_forall (fun sec hs => sectionMirrors_intoSection r hfit sec (hin sec hs))
  obtain ⟨sec, _, hm⟩ := bsf_forall₂_mem_right hsecs fsec hsec
  obtain ⟨c, _, hb⟩ := bsf_forall₂_mem_right hm.blocks _ hfs
  cases hb with
  | step s f hsm => exact ⟨hsm.ingredientRefs, hsm.cookwareRefs, hsm.timerRefs⟩

end Cook.Ffi
