import CookModel.Lemmas.CollectorShape
/-
  C06, clause 5/6 for EVERY ingredient of the table — also one that no pushed step uses (an ingredient
  written in a `[mode]: components` block: the component is collected, the step is dropped).

  `interRefTarget` is evaluated against `cur.content` / `sections.length` at the time the ingredient is
  analysed.  The returned recipe does not record in which section such an ingredient was written, so the
  statement is existential: there is a "home section" assignment `homes` (ingredient index ↦ index of the
  section that was current when the ingredient was analysed, in the numbering of the RETURNED sections
  list) such that
    * `homes` is non-decreasing in the ingredient index (document order) and `homes[k] ≤ sections.len()`;
    * a STEP target `i` of ingredient `k`: `sections[homes[k]]` exists and its content has a step at `i`
      (the current section had a step, so it was not empty, so it was pushed; content only grows at the end;
      finished sections are never modified);
    * a SECTION target `i` of ingredient `k`: `i < homes[k]`, a section strictly before the home section;
    * (when `Section` events lie outside blocks, as in the parser's stream) an ingredient that IS used by an
      item of a step of section `si` has `homes[k] = si` — so the home of an unused ingredient is pinned
      between the sections of the used ingredients around it.
  Proved against `Trans` (Lemmas/CollectorTrans.lean), for every event list.
-/
set_option linter.unusedSectionVars false
set_option linter.unusedSimpArgs false
set_option linter.unusedVariables false
namespace Cook
variable {α : Type} [Arith α]

/-! ### list helpers -/

theorem c6u_getElem?_append {l m : List Nat} {k x : Nat} (h : l[k]? = some x) : (l ++ m)[k]? = some x := by
  rw [List.getElem?_append_left (List.getElem?_eq_some_iff.mp h).1]; exact h

theorem c6u_mem_of_getElem? {l : List Nat} {k x : Nat} (h : l[k]? = some x) : x ∈ l :=
  List.mem_of_getElem? h

/-- a section with something at content position `i` is not empty, so the final push keeps it -/
theorem c6u_final_at {secs : List Section} {cur sec : Section} {h i : Nat} {x : Content}
    (hs : (secs ++ [cur])[h]? = some sec) (hx : sec.content[i]? = some x) :
    (if (!cur.isEmpty) = true then secs ++ [cur] else secs)[h]? = some sec := by
  split
  · exact hs
  · rename_i hne
    rcases getElem?_append_singleton _ _ _ _ hs with hs | ⟨rfl, rfl⟩
    · exact hs
    · exfalso
      cases hc : sec.content with
      | nil => rw [hc] at hx; simp at hx
      | cons a l => simp [Section.isEmpty, hc] at hne

theorem c6u_new_at {secs : List Section} {cur sec new : Section} {h i : Nat} {x : Content}
    (hs : (secs ++ [cur])[h]? = some sec) (hx : sec.content[i]? = some x) :
    ((if (!cur.isEmpty) = true then secs ++ [cur] else secs) ++ [new])[h]? = some sec := by
  have hf := c6u_final_at hs hx
  rw [List.getElem?_append_left (List.getElem?_eq_some_iff.mp hf).1]
  exact hf

theorem c6u_push_at {secs : List Section} {cur sec : Section} {h i : Nat} {x : Content} (c : Content)
    (hs : (secs ++ [cur])[h]? = some sec) (hx : sec.content[i]? = some x) :
    ∃ sec', (secs ++ [{ cur with content := cur.content ++ [c] }])[h]? = some sec' ∧
      sec'.content[i]? = some x := by
  rcases getElem?_append_singleton _ _ _ _ hs with hs' | ⟨rfl, rfl⟩
  · refine ⟨sec, ?_, hx⟩
    rw [List.getElem?_append_left (List.getElem?_eq_some_iff.mp hs').1]
    exact hs'
  · refine ⟨{ sec with content := sec.content ++ [c] }, by simp, ?_⟩
    dsimp only
    rw [List.getElem?_append_left (List.getElem?_eq_some_iff.mp hx).1]
    exact hx

/-! ### the invariant -/

/-- `homes[k]` = the number of finished sections when ingredient `k` was analysed = the index its section
    gets in the returned list.  `s.sections ++ [s.cur]` is the list "if the current section were pushed now". -/
structure C6uHomeInv (s : Col α) (homes : List Nat) : Prop where
  len : homes.length = s.ingredients.size
  le : ∀ h ∈ homes, h ≤ s.sections.length
  mono : homes.Pairwise (· ≤ ·)
  tgt : ∀ (k : Nat) (ig : Ingredient (ScalableValue α)) (h : Nat), s.ingredients[k]? = some ig →
    homes[k]? = some h → ∀ i,
    (ig.relation = ⟨.reference i, some .step⟩ →
      ∃ sec st, (s.sections ++ [s.cur])[h]? = some sec ∧ sec.content[i]? = some (.step st)) ∧
    (ig.relation = ⟨.reference i, some .section⟩ → i < h)

theorem C6uHomeInv.init : C6uHomeInv (α := α) {} [] :=
  ⟨rfl, fun h hh => (by cases hh), List.Pairwise.nil, fun k ig h hk => (by simp at hk)⟩

theorem C6uHomeInv.same {s s' : Col α} {homes : List Nat} (h : C6uHomeInv s homes)
    (hsec : s'.sections = s.sections) (hcur : s'.cur = s.cur) (hi : s'.ingredients = s.ingredients) :
    C6uHomeInv s' homes :=
  ⟨by rw [hi]; exact h.len, by rw [hsec]; exact h.le, h.mono, by rw [hi, hsec, hcur]; exact h.tgt⟩

theorem C6uHomeInv.newSection {s s' : Col α} {homes : List Nat} (h : C6uHomeInv s homes) (name : Option Str)
    (hsec : s'.sections = if (!s.cur.isEmpty) = true then s.sections ++ [s.cur] else s.sections)
    (hcur : s'.cur = ⟨name, []⟩) (hi : s'.ingredients = s.ingredients) : C6uHomeInv s' homes := by
  refine ⟨by rw [hi]; exact h.len, ?_, h.mono, ?_⟩
  · rw [hsec]
    intro x hx
    have := h.le x hx
    split
    · rw [List.length_append]; omega
    · exact this
  · rw [hi, hsec, hcur]
    intro k ig x hk hx i
    obtain ⟨h1, h2⟩ := h.tgt k ig x hk hx i
    refine ⟨fun hr => ?_, h2⟩
    obtain ⟨sec, st, hs, hst⟩ := h1 hr
    exact ⟨sec, st, c6u_new_at hs hst, hst⟩

theorem C6uHomeInv.pushBlock {s s' : Col α} {homes : List Nat} (h : C6uHomeInv s homes) (c : Content)
    (hsec : s'.sections = s.sections) (hcur : s'.cur = { s.cur with content := s.cur.content ++ [c] })
    (hi : s'.ingredients = s.ingredients) : C6uHomeInv s' homes := by
  refine ⟨by rw [hi]; exact h.len, by rw [hsec]; exact h.le, h.mono, ?_⟩
  rw [hi, hsec, hcur]
  intro k ig x hk hx i
  obtain ⟨h1, h2⟩ := h.tgt k ig x hk hx i
  refine ⟨fun hr => ?_, h2⟩
  obtain ⟨sec, st, hs, hst⟩ := h1 hr
  obtain ⟨sec', hs', hst'⟩ := c6u_push_at c hs hst
  exact ⟨sec', st, hs', hst'⟩

/-- an ingredient event: the new entry's home is the current section -/
theorem C6uHomeInv.ingr {env : Env} {s s' : Col α} {homes : List Nat} (h : C6uHomeInv s homes)
    {ings : Array (Ingredient (ScalableValue α))} {igr : Ingredient (ScalableValue α)}
    (hsec : s'.sections = s.sections) (hcur : s'.cur = s.cur) (hi : s'.ingredients = ings.push igr)
    (hsz : ings.size = s.ingredients.size) (hstep : IngrStep env s ings igr) :
    C6uHomeInv s' (homes ++ [s.sections.length]) := by
  refine ⟨?_, ?_, ?_, ?_⟩
  · rw [hi, List.length_append, Array.size_push, hsz, h.len]; rfl
  · rw [hsec]
    intro x hx
    rw [List.mem_append, List.mem_singleton] at hx
    rcases hx with hx | rfl
    · exact h.le x hx
    · exact Nat.le_refl _
  · rw [List.pairwise_append]
    refine ⟨h.mono, List.pairwise_singleton _ _, ?_⟩
    intro a ha b hb
    rw [List.mem_singleton] at hb
    subst hb
    exact h.le a ha
  · rw [hi, hsec, hcur]
    intro k ig x hk hx i
    have hklt : k < (ings.push igr).size := lt_size_of_getElem? hk
    rw [Array.size_push, hsz] at hklt
    by_cases hkk : k < s.ingredients.size
    · have hx' : homes[k]? = some x := by
        rw [List.getElem?_append_left (by rw [h.len]; exact hkk)] at hx; exact hx
      refine ⟨fun hr => ?_, fun hr => ?_⟩
      · exact ((h.tgt k ig x (hstep.old_ref hsz k hkk ig hk i (by rw [hr])) hx') i).1 hr
      · exact ((h.tgt k ig x (hstep.old_ref hsz k hkk ig hk i (by rw [hr])) hx') i).2 hr
    · have hke : k = s.ingredients.size := by omega
      subst hke
      have hx' : x = s.sections.length := by
        rw [List.getElem?_append_right (by rw [h.len]; exact Nat.le_refl _), h.len, Nat.sub_self] at hx
        simp only [List.getElem?_cons_zero, Option.some.injEq] at hx
        exact hx.symm
      subst hx'
      obtain ⟨r1, r2⟩ := (RefAt.new hstep hsz) ig hk i
      refine ⟨fun hr => ?_, r2⟩
      obtain ⟨_, st, hst⟩ := r1 hr
      exact ⟨s.cur, st, by simp, hst⟩

/-! ### ingredients that ARE used by a step: their home is the step's section -/

structure C6uUsedInv (s : Col α) (homes : List Nat) : Prop where
  secs : ∀ (si : Nat) (sec : Section), s.sections[si]? = some sec →
    ∀ (p : Nat) (st : Step), sec.content[p]? = some (.step st) →
    ∀ k, Item.ingredient k ∈ st.items → homes[k]? = some si
  cur : ∀ (p : Nat) (st : Step), s.cur.content[p]? = some (.step st) →
    ∀ k, Item.ingredient k ∈ st.items → homes[k]? = some s.sections.length
  blk : ∀ k, Item.ingredient k ∈ blockItems s.block → homes[k]? = some s.sections.length

theorem C6uUsedInv.init : C6uUsedInv (α := α) {} [] :=
  ⟨fun si sec h => (by simp at h), fun p st h => (by simp at h), fun k h => (by cases h)⟩

theorem C6uUsedInv.keep {s s' : Col α} {homes : List Nat} (h : C6uUsedInv s homes)
    (hsec : s'.sections = s.sections) (hcur : s'.cur = s.cur)
    (hb : blockItems s'.block = [] ∨ ∃ extra, blockItems s'.block = blockItems s.block ++ extra ∧
      extra.filterMap Item.ingrIdx = []) : C6uUsedInv s' homes := by
  refine ⟨by rw [hsec]; exact h.secs, by rw [hcur, hsec]; exact h.cur, ?_⟩
  rw [hsec]
  intro k hk
  rcases hb with hb | ⟨extra, hb, e1⟩
  · rw [hb] at hk; cases hk
  · rw [hb, List.mem_append] at hk
    rcases hk with hk | hk
    · exact h.blk k hk
    · exact absurd hk (not_mem_of_filterMap_ingrIdx_nil e1 k)

theorem C6uUsedInv.newSection {s s' : Col α} {homes : List Nat} (h : C6uUsedInv s homes) (name : Option Str)
    (hsec : s'.sections = if (!s.cur.isEmpty) = true then s.sections ++ [s.cur] else s.sections)
    (hcur : s'.cur = ⟨name, []⟩) (hb : s'.block = s.block) (hb0 : blockItems s.block = []) :
    C6uUsedInv s' homes := by
  refine ⟨?_, ?_, ?_⟩
  · rw [hsec]
    intro si sec hs
    split at hs
    · rcases getElem?_append_singleton _ _ _ _ hs with hs | ⟨rfl, rfl⟩
      · exact h.secs si sec hs
      · exact h.cur
    · exact h.secs si sec hs
  · rw [hcur]
    intro p st hp
    simp at hp
  · rw [hb, hb0]
    intro k hk; cases hk

theorem C6uUsedInv.pushBlock {s s' : Col α} {homes : List Nat} (h : C6uUsedInv s homes) (c : Content)
    (hsec : s'.sections = s.sections) (hcur : s'.cur = { s.cur with content := s.cur.content ++ [c] })
    (hb : s'.block = none) (hitems : contentItems c = blockItems s.block) : C6uUsedInv s' homes := by
  refine ⟨by rw [hsec]; exact h.secs, ?_, by rw [hb]; intro k hk; cases hk⟩
  rw [hcur, hsec]
  intro p st hp k hk
  dsimp only at hp
  rcases getElem?_append_singleton _ _ _ _ hp with hp | ⟨rfl, rfl⟩
  · exact h.cur p st hp k hk
  · exact h.blk k (by rw [← hitems]; exact hk)

theorem C6uUsedInv.ingr {s s' : Col α} {homes : List Nat} (h : C6uUsedInv s homes)
    (hlen : homes.length = s.ingredients.size)
    (hsec : s'.sections = s.sections) (hcur : s'.cur = s.cur)
    (hb : blockItems s'.block = blockItems s.block ++ [Item.ingredient s.ingredients.size]) :
    C6uUsedInv s' (homes ++ [s.sections.length]) := by
  refine ⟨?_, ?_, ?_⟩
  · rw [hsec]
    exact fun si sec hs p st hp k hk => c6u_getElem?_append (h.secs si sec hs p st hp k hk)
  · rw [hcur, hsec]
    exact fun p st hp k hk => c6u_getElem?_append (h.cur p st hp k hk)
  · rw [hsec, hb]
    intro k hk
    rw [List.mem_append, List.mem_singleton] at hk
    rcases hk with hk | hk
    · exact c6u_getElem?_append (h.blk k hk)
    · cases hk
      rw [← hlen]
      simp

theorem C6uUsedInv.cw {s s' : Col α} {homes : List Nat} (h : C6uUsedInv s homes)
    (hsec : s'.sections = s.sections) (hcur : s'.cur = s.cur) (n : Nat)
    (hb : blockItems s'.block = blockItems s.block ++ [Item.cookware n]) : C6uUsedInv s' homes :=
  h.keep hsec hcur (Or.inr ⟨[Item.cookware n], hb, rfl⟩)

/-- **one change keeps the invariant**; the part about used ingredients needs that a new section does not
    start while a block is open -/
theorem Trans.c6u {env : Env} {b : Ev α} {s s' : Col α} (ht : Trans env b s s') {homes : List Nat}
    (h : C6uHomeInv s homes) :
    ∃ homes', C6uHomeInv s' homes' ∧
      ((b.isSec = true → blockItems s.block = []) → C6uUsedInv s homes → C6uUsedInv s' homes') := by
  cases ht with
  | keep hsec hcur hi hc hb =>
    refine ⟨homes, h.same hsec hcur hi, fun _ hu => hu.keep hsec hcur ?_⟩
    rcases hb with hb | ⟨extra, hb, e1, _⟩
    · exact Or.inl hb
    · exact Or.inr ⟨extra, hb, e1⟩
  | newSection name hse hsec hcur hi hc hb =>
    exact ⟨homes, h.newSection name hsec hcur hi, fun hb0 hu => hu.newSection name hsec hcur hb (hb0 hse)⟩
  | pushBlock c hsec hcur hi hc hb hitems =>
    exact ⟨homes, h.pushBlock c hsec hcur hi, fun _ hu => hu.pushBlock c hsec hcur hb hitems⟩
  | ingr ings igr hsec hcur hi hsz hstep hc hb =>
    exact ⟨homes ++ [s.sections.length], h.ingr hsec hcur hi hsz hstep,
      fun _ hu => hu.ingr h.len hsec hcur hb⟩
  | cw cws cwn hsec hcur hi hc hsz hstep hb =>
    exact ⟨homes, h.same hsec hcur hi, fun _ hu => hu.cw hsec hcur _ hb⟩

/-! ### the returned recipe -/

/-- the home assignment of a returned recipe (`secs` = its sections, `ings` = its ingredient table) -/
def C6uHomeOK (secs : List Section) (ings : Array (Ingredient (ScalableValue α))) (homes : List Nat) : Prop :=
  homes.length = ings.size ∧ homes.Pairwise (· ≤ ·) ∧ (∀ h ∈ homes, h ≤ secs.length) ∧
  ∀ (k : Nat) (ig : Ingredient (ScalableValue α)) (h : Nat), ings[k]? = some ig → homes[k]? = some h → ∀ i,
    (ig.relation = ⟨.reference i, some .step⟩ →
      ∃ sec st, secs[h]? = some sec ∧ sec.content[i]? = some (.step st)) ∧
    (ig.relation = ⟨.reference i, some .section⟩ → i < h)

/-- the home of an ingredient used by an item of a step is the section of that step -/
def C6uHomeUsed (secs : List Section) (homes : List Nat) : Prop :=
  ∀ (si : Nat) (sec : Section), secs[si]? = some sec → ∀ (p : Nat) (st : Step), sec.content[p]? = some (.step st) →
    ∀ k, Item.ingredient k ∈ st.items → homes[k]? = some si

theorem C6uHomeInv.finish {s : Col α} {homes : List Nat} (h : C6uHomeInv s homes) :
    C6uHomeOK (if (!s.cur.isEmpty) = true then s.sections ++ [s.cur] else s.sections) s.ingredients homes := by
  refine ⟨h.len, h.mono, ?_, ?_⟩
  · intro x hx
    have := h.le x hx
    split
    · rw [List.length_append]; omega
    · exact this
  · intro k ig x hk hx i
    obtain ⟨h1, h2⟩ := h.tgt k ig x hk hx i
    refine ⟨fun hr => ?_, h2⟩
    obtain ⟨sec, st, hs, hst⟩ := h1 hr
    exact ⟨sec, st, c6u_final_at hs hst, hst⟩

theorem C6uUsedInv.finish {s : Col α} {homes : List Nat} (h : C6uUsedInv s homes) :
    C6uHomeUsed (if (!s.cur.isEmpty) = true then s.sections ++ [s.cur] else s.sections) homes := by
  intro si sec hs
  split at hs
  · rcases getElem?_append_singleton _ _ _ _ hs with hs | ⟨rfl, rfl⟩
    · exact h.secs si sec hs
    · exact h.cur
  · exact h.secs si sec hs

/-- for ANY list of `EvOK` events: the returned recipe has a home assignment -/
theorem parseEventsLoop_c6u (env : Env) (input : Str) (evs : List (Ev α)) (s c : Col α) (homes : List Nat)
    (hi : Inv env s) (h : C6uHomeInv s homes) (hev : ∀ ev ∈ evs, EvOK ev)
    (hc : (parseEventsLoop env input evs s).output = some c) :
    ∃ homes', C6uHomeOK c.sections c.ingredients homes' := by
  induction evs generalizing s homes with
  | nil =>
    simp only [parseEventsLoop, Option.some.injEq] at hc
    subst hc
    have key := h.finish
    refine ⟨homes, ?_⟩
    split <;> split <;> rename_i h1 h2 <;> simp only [h1, if_true, if_false] at key <;> exact key
  | cons ev rest ih =>
    by_cases he : ∃ d0, ev = .error d0
    · obtain ⟨d0, rfl⟩ := he
      simp only [parseEventsLoop] at hc
      cases hc
    · rw [parseEventsLoop_cons_nonerror env input ev rest s he] at hc
      obtain ⟨homes', h', _⟩ := (processEvent_trans env input ev s hi (hev ev List.mem_cons_self)).c6u h
      exact ih _ homes' (processEvent_inv env input ev s hi (hev ev List.mem_cons_self)) h'
        (fun e he' => hev e (List.mem_cons_of_mem _ he')) hc

/-- for ANY list of `EvOK` events whose `Section` events lie outside blocks: the home assignment also
    agrees with the sections of the steps that use an ingredient -/
theorem parseEventsLoop_c6u_used (env : Env) (input : Str) (evs : List (Ev α)) (s c : Col α)
    (o : Option BlockKind) (homes : List Nat)
    (hi : Inv env s) (h : C6uHomeInv s homes) (hu : C6uUsedInv s homes) (hb : BlockNone s o) (hw : WBS o evs)
    (hev : ∀ ev ∈ evs, EvOK ev) (hc : (parseEventsLoop env input evs s).output = some c) :
    ∃ homes', C6uHomeOK c.sections c.ingredients homes' ∧ C6uHomeUsed c.sections homes' := by
  induction evs generalizing s o homes with
  | nil =>
    simp only [parseEventsLoop, Option.some.injEq] at hc
    subst hc
    have key := h.finish
    have key2 := hu.finish
    refine ⟨homes, ?_, ?_⟩
    · split <;> split <;> rename_i h1 h2 <;> simp only [h1, if_true, if_false] at key <;> exact key
    · split <;> split <;> rename_i h1 h2 <;> simp only [h1, if_true, if_false] at key2 <;> exact key2
  | cons ev rest ih =>
    by_cases he : ∃ d0, ev = .error d0
    · obtain ⟨d0, rfl⟩ := he
      simp only [parseEventsLoop] at hc
      cases hc
    · rw [parseEventsLoop_cons_nonerror env input ev rest s he] at hc
      obtain ⟨o', hw1, hw2⟩ := hw
      obtain ⟨homes', h', hu'⟩ := (processEvent_trans env input ev s hi (hev ev List.mem_cons_self)).c6u h
      exact ih _ o' homes' (processEvent_inv env input ev s hi (hev ev List.mem_cons_self)) h'
        (hu' (fun hs => by rw [hb (wbS_section_none hw1 hs)]; rfl) hu)
        (processEvent_blockNone env input ev s o o' hw1 hb) hw2
        (fun e he' => hev e (List.mem_cons_of_mem _ he')) hc

/-! ### consequences that do not mention the home assignment -/

/-- every STEP target of the table addresses a step of some section of the recipe; every SECTION target an
    existing section -/
theorem C6uHomeOK.exists_step {secs : List Section} {ings : Array (Ingredient (ScalableValue α))}
    {homes : List Nat} (h : C6uHomeOK secs ings homes) (k : Nat) (ig : Ingredient (ScalableValue α))
    (hk : ings[k]? = some ig) (i : Nat) :
    (ig.relation = ⟨.reference i, some .step⟩ →
      ∃ (si : Nat) (sec : Section) (st : Step), secs[si]? = some sec ∧ sec.content[i]? = some (.step st)) ∧
    (ig.relation = ⟨.reference i, some .section⟩ → i < secs.length) := by
  obtain ⟨hlen, _, hle, htgt⟩ := h
  have hklt : k < homes.length := by rw [hlen]; exact lt_size_of_getElem? hk
  have hx : homes[k]? = some homes[k] := List.getElem?_eq_getElem hklt
  obtain ⟨h1, h2⟩ := htgt k ig _ hk hx i
  refine ⟨fun hr => ?_, fun hr => ?_⟩
  · obtain ⟨sec, st, hs, hst⟩ := h1 hr
    exact ⟨_, sec, st, hs, hst⟩
  · have := h2 hr
    have := hle _ (List.getElem_mem hklt)
    omega

/-- homes are non-decreasing in the ingredient index -/
theorem C6uHomeOK.mono {secs : List Section} {ings : Array (Ingredient (ScalableValue α))}
    {homes : List Nat} (h : C6uHomeOK secs ings homes) {a b va vb : Nat} (hab : a ≤ b)
    (ha : homes[a]? = some va) (hb : homes[b]? = some vb) : va ≤ vb := by
  obtain ⟨_, hmono, _, _⟩ := h
  rcases Nat.lt_or_eq_of_le hab with hlt | rfl
  · obtain ⟨hla, rfl⟩ := List.getElem?_eq_some_iff.mp ha
    obtain ⟨hlb, rfl⟩ := List.getElem?_eq_some_iff.mp hb
    exact List.pairwise_iff_getElem.mp hmono a b hla hlb hlt
  · rw [ha] at hb; cases hb; exact Nat.le_refl _

/-- an ingredient `k` lying (in table order) between two ingredients `k0 ≤ k ≤ k1` with homes `s0` and `s1`
    (e.g. ingredients used by steps of sections `s0`, `s1`: `C6uHomeUsed`) has its home between `s0` and `s1` -/
theorem C6uHomeOK.between {secs : List Section} {ings : Array (Ingredient (ScalableValue α))}
    {homes : List Nat} (h : C6uHomeOK secs ings homes)
    {k0 k k1 s0 s1 x : Nat} (h0 : homes[k0]? = some s0) (h1 : homes[k1]? = some s1) (hx : homes[k]? = some x)
    (hk0 : k0 ≤ k) (hk1 : k ≤ k1) : s0 ≤ x ∧ x ≤ s1 :=
  ⟨h.mono hk0 h0 hx, h.mono hk1 hx h1⟩

end Cook
