import CookModel.Lemmas.SpansDataDoc
import CookModel.Lemmas.TextLaws
import CookModel.Lemmas.SpansKept
import CookModel.Lemmas.SpansTexts
import CookModel.Lemmas.LexLaws
/-
  C04, derived data, what Props/C04.lean states (wave 5): the readers spelled out (`readValue_text`,
  `readValue_is_parseValue`, marker tokens are their characters), the located derived data of an event
  (`Ev.qvalues`, `Ev.modifierSets`, `Ev.interRefs`: specification vocabulary), and the per-datum statements
  `QValFaithful` / `ModsFaithful` / `InterFaithful`, assembled into `EvFaithful` and `EvFull`
  (= `EvSpansOKO` + `EvFaithful`) for every event of `PullParser` and of the metadata-only scanner.
-/
set_option linter.unusedSectionVars false
set_option linter.unusedSimpArgs false
set_option linter.unusedVariables false
namespace Cook
variable {α : Type} [Arith α]

/-! ### `readValue`, spelled out -/

/-- `text_trimmed` on a string: outer trim, then runs of spaces collapsed -/
def trimmedStr (cs : CharSpec) (s : List Char) : List Char :=
  if hasDoubleSpace (trim cs.uws s) then collapseSpaces ' ' (trim cs.uws s) else trim cs.uws s

theorem sdat_trimmed_eq (cs : CharSpec) (t : Text) : t.trimmed cs = trimmedStr cs t.text := rfl

/-- a value that is not a number or a range is the trimmed VISIBLE text of its tokens (comments dropped, a newline is
    one space, an escape is the escaped character) -/
theorem readValue_text (cs : CharSpec) (r : Bool) (o : Nat) (toks : List Tok)
    (h : numOrRange (α := α) r toks = none) :
    readValue (α := α) cs r o toks = .text (trimmedStr cs (toks.flatMap vis)) := by
  unfold readValue
  rw [h, sdat_trimmed_eq, buildText_text]

/-- the offset argument of `readValue` is immaterial -/
theorem readValue_off (cs : CharSpec) (r : Bool) (o o' : Nat) (toks : List Tok) :
    readValue (α := α) cs r o toks = readValue cs r o' toks := by
  unfold readValue
  split <;> try rfl
  rw [sdat_trimmed_eq, sdat_trimmed_eq, buildText_text, buildText_text]

/-- **`parse_value` applied to the tokens, in ANY parser state with these tables and extensions, yields the value** -/
theorem readValue_is_parseValue (cs : CharSpec) (e : Ext) (o : Nat) (toks : List Tok) (st : BP α)
    (hcs : st.cs = cs) (he : st.ext = e) :
    (parseValue toks st).1.val = readValue cs (e.has Gen.EXT_RANGE_VALUES) o toks := by
  have := sdat_parseValue_fst toks st
  unfold Sat at this
  rw [this, hcs, he]
  exact readValue_off _ _ _ _ _

/-! ### the located derived data of an event -/

/-- the quantity values (value + scaling lock) an event carries -/
def Ev.qvalues : Ev α → List (PQValue α)
  | .ingredient i => match i.val.quantity with | some q => [q.val.value] | none => []
  | .cookware c => match c.val.quantity with | some q => [q.val] | none => []
  | .timer t => match t.val.quantity with | some q => [q.val.value] | none => []
  | _ => []

/-- the modifier sets an event carries -/
def Ev.modifierSets : Ev α → List (Loc Modifiers)
  | .ingredient i => [i.val.modifiers]
  | .cookware c => [c.val.modifiers]
  | _ => []

/-- the intermediate-reference data an event carries -/
def Ev.interRefs : Ev α → List (Loc InterData)
  | .ingredient i => match i.val.inter with | some d => [d] | none => []
  | _ => []

/-- the value part of the recovered quantity `parse` substitutes for a missing timer quantity -/
def recoverPQValue : PQValue α := (recoverPQuantity (α := α)).val.value

theorem EvRead.qvalues {cs : CharSpec} {e : Ext} {T : List Tok} {ev : Ev α} (h : EvRead cs e T ev) :
    ∀ v ∈ ev.qvalues, QValRead cs e T v ∨ v = recoverPQValue := by
  intro v hv
  cases ev with
  | ingredient i =>
    simp only [Ev.qvalues] at hv
    split at hv
    · rename_i q hq
      simp only [List.mem_singleton] at hv; subst hv
      have := h.2.2; rw [hq] at this; exact Or.inl this
    · cases hv
  | cookware c =>
    simp only [Ev.qvalues] at hv
    split at hv
    · rename_i q hq
      simp only [List.mem_singleton] at hv; subst hv
      have := h.2; rw [hq] at this; exact Or.inl this
    · cases hv
  | timer t =>
    simp only [Ev.qvalues] at hv
    split at hv
    · rename_i q hq
      simp only [List.mem_singleton] at hv; subst hv
      have h' : OptOK _ t.val.quantity := h
      rw [hq] at h'
      rcases h' with h1 | h1
      · exact Or.inl h1
      · right; rw [h1]; rfl
    · cases hv
  | _ => cases hv

theorem EvRead.modifierSets {cs : CharSpec} {e : Ext} {T : List Tok} {ev : Ev α} (h : EvRead cs e T ev) :
    ∀ m ∈ ev.modifierSets, ModsRead T m := by
  intro m hm
  cases ev with
  | ingredient i => simp only [Ev.modifierSets, List.mem_singleton] at hm; subst hm; exact h.1
  | cookware c => simp only [Ev.modifierSets, List.mem_singleton] at hm; subst hm; exact h.1
  | _ => cases hm

theorem EvRead.interRefs {cs : CharSpec} {e : Ext} {T : List Tok} {ev : Ev α} (h : EvRead cs e T ev) :
    ∀ d ∈ ev.interRefs, InterRead T d := by
  intro d hd
  cases ev with
  | ingredient i =>
    simp only [Ev.interRefs] at hd
    split at hd
    · rename_i x hx
      simp only [List.mem_singleton] at hd; subst hd
      have := h.2.1; rw [hx] at this; exact this
    · cases hd
  | _ => cases hd

/-- the spans of the derived data of an event with good spans are good spans -/
theorem EvSpansOK.qvalues {off : Nat} {w : List Char} {ev : Ev α} (h : EvSpansOK off w ev) :
    ∀ v ∈ ev.qvalues, PQValueOK off w v := by
  intro v hv
  cases ev with
  | ingredient i =>
    simp only [Ev.qvalues] at hv
    split at hv
    · rename_i q hq
      simp only [List.mem_singleton] at hv; subst hv
      have := h.2.2.2.2.2.1; rw [hq] at this; exact this.2.1
    · cases hv
  | cookware c =>
    simp only [Ev.qvalues] at hv
    split at hv
    · rename_i q hq
      simp only [List.mem_singleton] at hv; subst hv
      have := h.2.2.2.2.1; rw [hq] at this; exact this.2
    · cases hv
  | timer t =>
    simp only [Ev.qvalues] at hv
    split at hv
    · rename_i q hq
      simp only [List.mem_singleton] at hv; subst hv
      have := h.2.2; rw [hq] at this; exact this.2.1
    · cases hv
  | _ => cases hv

theorem EvSpansOK.modifierSets {off : Nat} {w : List Char} {ev : Ev α} (h : EvSpansOK off w ev) :
    ∀ m ∈ ev.modifierSets, SpanOK off w m.span := by
  intro m hm
  cases ev with
  | ingredient i => simp only [Ev.modifierSets, List.mem_singleton] at hm; subst hm; exact h.2.1
  | cookware c => simp only [Ev.modifierSets, List.mem_singleton] at hm; subst hm; exact h.2.1
  | _ => cases hm

theorem EvSpansOK.interRefs {off : Nat} {w : List Char} {ev : Ev α} (h : EvSpansOK off w ev) :
    ∀ d ∈ ev.interRefs, SpanOK off w d.span := by
  intro d hd
  cases ev with
  | ingredient i =>
    simp only [Ev.interRefs] at hd
    split at hd
    · rename_i x hx
      simp only [List.mem_singleton] at hd; subst hd
      have := h.2.2.1; rw [hx] at this; exact this
    · cases hd
  | _ => cases hd

/-! ### the marker tokens are their characters -/

theorem sdat_singleKind_mem {c : Char} {k : TK} (h : singleKind c = some k) : (c, k) ∈ singleTable := by
  unfold singleKind at h
  cases hf : singleTable.find? (fun p => p.1 == c) with
  | none => rw [hf] at h; simp at h
  | some q =>
    rw [hf] at h
    simp only [Option.map_some, Option.some.injEq] at h
    have hm := List.mem_of_find?_eq_some hf
    have hq := List.find?_some hf
    have hc : q.1 = c := by simpa using hq
    rw [← hc, ← h]; exact hm

theorem sdat_single_text {cs : CharSpec} {k : TK} {text : List Char} (h : KindText cs k text) (c : Char)
    (hk : (c, k) ∈ singleTable) (huniq : ∀ q ∈ singleTable, q.2 = k → q.1 = c) : text = [c] := by
  have hmem : k ∈ singleTable.map (·.2) := List.mem_map.mpr ⟨(c, k), hk, rfl⟩
  obtain ⟨c', h1, h2⟩ := h.2.2.2.2.2.2.2.2.2.2.2.2 hmem
  have := huniq _ (sdat_singleKind_mem h2) rfl
  rw [h1]; simpa using this

/-- the tokens the readers look at are exactly their characters -/
theorem sdat_marker_text {cs : CharSpec} {k : TK} {text : List Char} (h : KindText cs k text) :
    (k = .at → text = ['@']) ∧ (k = .and → text = ['&']) ∧ (k = .question → text = ['?']) ∧
    (k = .plus → text = ['+']) ∧ (k = .minus → text = ['-']) ∧ (k = .eq → text = ['=']) ∧
    (k = .openParen → text = ['(']) ∧ (k = .closeParen → text = [')']) ∧ (k = .tilde → text = ['~']) ∧
    (k = .slash → text = ['/']) ∧ (k = .dot → text = ['.']) := by
  refine ⟨?_, ?_, ?_, ?_, ?_, ?_, ?_, ?_, ?_, ?_, ?_⟩
  · rintro rfl; exact sdat_single_text h '@' (by decide) (by decide)
  · rintro rfl; exact sdat_single_text h '&' (by decide) (by decide)
  · rintro rfl; exact sdat_single_text h '?' (by decide) (by decide)
  · rintro rfl; exact sdat_single_text h '+' (by decide) (by decide)
  · rintro rfl; exact h.2.2.2.2.2.2.2.2.2.2.2.1 rfl
  · rintro rfl; exact sdat_single_text h '=' (by decide) (by decide)
  · rintro rfl; exact sdat_single_text h '(' (by decide) (by decide)
  · rintro rfl; exact sdat_single_text h ')' (by decide) (by decide)
  · rintro rfl; exact sdat_single_text h '~' (by decide) (by decide)
  · rintro rfl; exact sdat_single_text h '/' (by decide) (by decide)
  · rintro rfl; exact sdat_single_text h '.' (by decide) (by decide)

theorem pullToks_kindText (cs : CharSpec) (input : List Char) :
    ∀ t ∈ pullToks cs input, KindText cs t.kind t.text := by
  unfold pullToks
  split
  · exact lexFrom_kindText cs _ _
  · exact lexFrom_kindText cs _ _

/-! ### C04 for the derived data, spelled out at document level (what Props/C04.lean states) -/

/-- **a quantity value is faithful**: let `toks` be the tokens of the document's token stream inside the span of the
    value.  They are adjacent tokens; their characters are exactly `input[span]`; the value is what `readValue` reads
    from them — and what `parse_value` returns on them in ANY parser state with the same tables and extensions —; and
    a scaling lock is the span of one `=` token whose text is `input[lock span]`. -/
def QValFaithful (cs : CharSpec) (e : Ext) (input : List Char) (v : PQValue α) : Prop :=
  toksIn (pullToks cs input) v.value.span <:+: pullToks cs input ∧
  SpanText input (pullToks cs input) v.value.span ∧
  v.value.val = readValue cs (e.has Gen.EXT_RANGE_VALUES) v.value.span.start (toksIn (pullToks cs input) v.value.span) ∧
  (∀ st : BP α, st.cs = cs → st.ext = e →
    (parseValue (toksIn (pullToks cs input) v.value.span) st).1.val = v.value.val) ∧
  ∀ sp, v.lock = some sp → ∃ t, toksIn (pullToks cs input) sp = [t] ∧ t.kind = .eq ∧ t.text = ['='] ∧
    sp = ⟨t.start, t.stop⟩ ∧ SpanText input (pullToks cs input) sp

/-- **a modifier set is faithful**: the tokens inside its span are adjacent, spell `input[span]`, and the set is what
    `readModifiers` reads from them (`readModifiers_contains`: flag by flag, the modifier characters outside the
    parenthesised groups) -/
def ModsFaithful (cs : CharSpec) (input : List Char) (m : Loc Modifiers) : Prop :=
  toksIn (pullToks cs input) m.span <:+: pullToks cs input ∧
  SpanText input (pullToks cs input) m.span ∧
  m.val = readModifiers (toksIn (pullToks cs input) m.span)

/-- **intermediate-reference data is faithful**: the tokens inside its span are adjacent (the group `( … )`), spell
    `input[span]`, and the data is the reading of that group -/
def InterFaithful (cs : CharSpec) (input : List Char) (d : Loc InterData) : Prop :=
  toksIn (pullToks cs input) d.span <:+: pullToks cs input ∧ toksIn (pullToks cs input) d.span ≠ [] ∧
  SpanText input (pullToks cs input) d.span ∧
  readInterRef (toksIn (pullToks cs input) d.span) = some d.val

theorem QValRead.faithful {cs : CharSpec} {e : Ext} {input : List Char} {v : PQValue α}
    (h : QValRead cs e (pullToks cs input) v) (hok : PQValueOK 0 input v) : QValFaithful cs e input v := by
  obtain ⟨⟨h1, h2, h3⟩, h4⟩ := h
  refine ⟨h1, spanText_of (pullToks_emb cs input) h1 h2 hok.1.1, h3, ?_, ?_⟩
  · intro st hcs he
    rw [h3]
    exact readValue_is_parseValue cs e _ _ st hcs he
  · intro sp hsp
    obtain ⟨t, e1, e2, e3, e4⟩ := h4 sp hsp
    have hsok : SpanOK 0 input sp := by
      have := hok.2; rw [hsp] at this; exact this
    have htm : t ∈ pullToks cs input := e2.subset (by simp)
    have htx := (sdat_marker_text (pullToks_kindText cs input t htm)).2.2.2.2.2.1 e3
    refine ⟨t, e1, e3, htx, e4, spanText_of (pullToks_emb cs input) (by rw [e1]; exact e2) ?_ hsok.1⟩
    rw [e1]
    exact ⟨fun _ => by rw [e4]; simp [tokensSpan], fun h0 => by cases h0⟩

theorem ModsRead.faithful {cs : CharSpec} {input : List Char} {m : Loc Modifiers}
    (h : ModsRead (pullToks cs input) m) (hok : SpanOK 0 input m.span) : ModsFaithful cs input m :=
  ⟨h.1, spanText_of (pullToks_emb cs input) h.1 h.2.1 hok.1, h.2.2⟩

theorem InterRead.faithful {cs : CharSpec} {input : List Char} {d : Loc InterData}
    (h : InterRead (pullToks cs input) d) (hok : SpanOK 0 input d.span) : InterFaithful cs input d :=
  ⟨h.1, h.2.1, spanText_of (pullToks_emb cs input) h.1 ⟨fun _ => h.2.2.1, fun h0 => absurd h0 h.2.1⟩ hok.1, h.2.2.2⟩

/-- C04 for all derived data of one event -/
def EvFaithful (cs : CharSpec) (e : Ext) (input : List Char) (ev : Ev α) : Prop :=
  (∀ v ∈ ev.qvalues, QValFaithful cs e input v ∨ v = recoverPQValue) ∧
  (∀ m ∈ ev.modifierSets, ModsFaithful cs input m) ∧
  (∀ d ∈ ev.interRefs, InterFaithful cs input d)

theorem EvRead.faithful {cs : CharSpec} {e : Ext} {input : List Char} {ev : Ev α}
    (h : EvRead cs e (pullToks cs input) ev) (hok : EvSpansOK 0 input ev) : EvFaithful cs e input ev := by
  refine ⟨fun v hv => ?_, fun m hm => (h.modifierSets m hm).faithful (hok.modifierSets m hm),
    fun d hd => (h.interRefs d hd).faithful (hok.interRefs d hd)⟩
  rcases h.qvalues v hv with h1 | h1
  · exact Or.inl (h1.faithful (hok.qvalues v hv))
  · exact Or.inr h1

/-- everything C04 says about one event: all spans valid, texts faithful with ordered fragments (`EvSpansOKO`),
    derived data faithful (`EvFaithful`) -/
def EvFull (cs : CharSpec) (e : Ext) (input : List Char) (ev : Ev α) : Prop :=
  EvSpansOKO 0 input ev ∧ EvFaithful cs e input ev

theorem pullEvents_evFull (cs : CharSpec) (ext : Ext) (input : List Char) :
    ∀ ev ∈ (pullEvents (α := α) cs ext input).1.toList, EvFull cs ext input ev := by
  obtain ⟨b, h⟩ := pullEvents_topInvO (α := α) cs ext input
  intro ev hev
  exact ⟨h.ok ev hev, (pullEvents_evRead cs ext input ev hev).faithful (h.ok ev hev).evSpansOK⟩

theorem pullMetaEvents_evFull (cs : CharSpec) (ext : Ext) (input : List Char) :
    ∀ ev ∈ (pullMetaEvents (α := α) cs ext input).1.toList, EvFull cs ext input ev := by
  obtain ⟨b, h⟩ := pullMetaEvents_topInvO (α := α) cs ext input
  intro ev hev
  exact ⟨h.ok ev hev, (pullMetaEvents_evRead cs ext input ev hev).faithful (h.ok ev hev).evSpansOK⟩
end Cook
