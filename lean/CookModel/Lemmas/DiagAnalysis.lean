import CookModel.Lemmas.CollectorInv
/-
  Diagnostics of the analysis pass (C07, completeness in isolation): which analysis-stage
  diagnostic `resolve_reference`, `resolve_intermediate_ref`, the `[mode]` keys and the timer unit
  checks push, with which labels.
-/
namespace Cook
variable {α : Type} [Arith α]
set_option linter.unusedSectionVars false
set_option linter.unusedSimpArgs false
set_option linter.unusedVariables false

def adiag (sev : Sev) (kind : String) (labels : List Span) : Diag := ⟨sev, .analysis, kind, labels⟩

/-- no earlier component without REF has a `nameEq`-equal name ⇒ `rposition` finds nothing -/
theorem sameNameIdx_none (env : Env) (existing : List (Str × Modifiers)) (name : Str)
    (h : ∀ (i : Nat) (n : Str) (m : Modifiers), existing[i]? = some (n, m) → m.contains Modifiers.REF = false →
      nameEq env name n = false) :
    sameNameIdx env existing name = none := by
  unfold sameNameIdx
  show (List.filter _ _).getLast? = none
  have hnil : ∀ l : List Nat, l = [] → l.getLast? = none := by intro l h; rw [h]; rfl
  apply hnil
  rw [List.filter_eq_nil_iff]
  intro i _
  split
  · rename_i n m he
    cases hm : m.contains Modifiers.REF
    · simp [h i n m he hm]
    · simp
  · simp

/-- `+` together with `&` -/
theorem resolveReference_new_and_ref (env : Env) (container : String) (inherit : Nat)
    (existing : List (Str × Modifiers)) (name : Str) (mods : Modifiers) (location modLoc : Span) (s : Col α)
    (hn : mods.contains Modifiers.NEW = true) (hr : mods.contains Modifiers.REF = true) :
    resolveReference env container inherit existing name mods location modLoc s =
      ((mods, none), { s with diags := s.diags.push (adiag .error "ref-conflicting-modifiers" [modLoc]) }) := by
  unfold resolveReference
  simp +instances only [A_bind, A_pure, A_get, A_ite, aerr, awarn, A_modify, hn, hr, Bool.and_self, if_true]
  rfl

/-- a reference (explicit `&`, or every component in `[mode]: steps`) whose name is not found -/
theorem resolveReference_not_found (env : Env) (container : String) (inherit : Nat)
    (existing : List (Str × Modifiers)) (name : Str) (mods : Modifiers) (location modLoc : Span) (s : Col α)
    (hn : mods.contains Modifiers.NEW = false)
    (hnone : sameNameIdx env existing name = none)
    (href : mods.contains Modifiers.REF = true ∨ s.defineMode = .steps) :
    (resolveReference env container inherit existing name mods location modLoc s).1 = (mods, none) ∧
    ∃ pre, (resolveReference env container inherit existing name mods location modLoc s).2.diags.toList =
        s.diags.toList ++ pre ++ [adiag .error "reference-not-found" [location]] ∧
      (resolveReference env container inherit existing name mods location modLoc s).2 =
        { s with diags := (resolveReference env container inherit existing name mods location modLoc s).2.diags } := by
  have htreat : (mods.contains Modifiers.REF || s.defineMode == .steps ||
      (s.duplicateMode == .reference && (none : Option Nat).isSome)) = true := by
    rcases href with h | h
    · simp [h]
    · simp [h]
  unfold resolveReference
  simp +instances only [A_bind, A_pure, A_get, A_ite, aerr, awarn, A_modify, hn, hnone, Bool.false_and,
    Bool.false_eq_true, if_false, htreat, Bool.not_true]
  split
  · exact ⟨rfl, [adiag .warning "redundant-ref" [modLoc]], by simp [adiag], rfl⟩
  · exact ⟨rfl, [], by simp [adiag], rfl⟩

/-- `resolve_intermediate_ref`: the error of the pure part becomes an analysis error on the data's span -/
theorem resolveInterRef_error (d : Loc InterData) (s : Col α) (kind : String) (hv : 0 ≤ d.val.val)
    (h : interRefTarget s.cur.content s.sections.length d.val = .error kind) :
    resolveInterRef d s = (none, { s with diags := s.diags.push (adiag .error kind [d.span]) }) := by
  unfold resolveInterRef
  have hv' : ¬ d.val.val < 0 := by omega
  simp +instances only [A_bind, A_pure, A_get, A_ite, aerr, A_modify, h, hv', if_false]
  rfl

theorem interRefTarget_zero (content : List Content) (n : Nat) (d : InterData) (h : d.val.toNat = 0) :
    interRefTarget content n d = .error (if d.relative then "inter-ref-self" else "inter-ref-zero") := by
  unfold interRefTarget
  simp [h]

theorem interRefTarget_bounds_step (content : List Content) (n : Nat) (d : InterData) (h0 : d.val.toNat ≠ 0)
    (hs : d.isSection = false) (hb : (stepIndices content).length < d.val.toNat) :
    interRefTarget content n d = .error "inter-ref-bounds" := by
  unfold interRefTarget
  have h1 : (d.val.toNat == 0) = false := by simpa using h0
  have h2 : (stepIndices content)[d.val.toNat - 1]? = none := List.getElem?_eq_none (by omega)
  have h3 : (stepIndices content).reverse[d.val.toNat - 1]? = none :=
    List.getElem?_eq_none (by simp only [List.length_reverse]; omega)
  simp only [h1, Bool.false_eq_true, if_false, hs]
  cases d.relative <;> simp [h2, h3]

theorem interRefTarget_bounds_section (content : List Content) (n : Nat) (d : InterData) (h0 : d.val.toNat ≠ 0)
    (hs : d.isSection = true) (hb : n < d.val.toNat) :
    interRefTarget content n d = .error "inter-ref-bounds" := by
  unfold interRefTarget
  have h1 : (d.val.toNat == 0) = false := by simpa using h0
  simp only [h1, Bool.false_eq_true, if_false, hs]
  cases d.relative
  · have : d.val.toNat - 1 ≥ n := by omega
    simp [this]
  · simp [hb]

/-- ADVANCED_UNITS: the checks on a timer's quantity -/
theorem timerQuantityChecks_text (env : Env) (q : Loc (PQuantity α)) (r : Quantity (ScalableValue α)) (s : Col α)
    (he : env.ext.has Gen.EXT_ADVANCED_UNITS = true) (ht : r.value.val.isText = true) (hu : r.unit = none) :
    (timerQuantityChecks env q r s).2 =
      { s with diags := s.diags.push (adiag .error "timer-value-text" [q.val.value.value.span]) } := by
  unfold timerQuantityChecks
  simp +instances only [A_bind, A_pure, A_get, A_ite, aerr, A_modify, he, ht, hu, if_true]
  rfl

theorem timerQuantityChecks_unit (env : Env) (q : Loc (PQuantity α)) (r : Quantity (ScalableValue α)) (s : Col α)
    (u : Str) (he : env.ext.has Gen.EXT_ADVANCED_UNITS = true) (ht : r.value.val.isText = false)
    (hu : r.unit = some u) :
    (env.findUnit u = none → (timerQuantityChecks env q r s).2 =
      { s with diags := s.diags.push (adiag .error "timer-unit-unknown" [(q.val.unit.map (·.span)).getD ⟨0, 0⟩]) }) ∧
    (∀ pq, env.findUnit u = some pq → pq ≠ env.timeQ → (timerQuantityChecks env q r s).2 =
      { s with diags := s.diags.push (adiag .error "timer-unit-not-time" [(q.val.unit.map (·.span)).getD ⟨0, 0⟩]) }) ∧
    (env.findUnit u = some env.timeQ → (timerQuantityChecks env q r s).2 = s) := by
  unfold timerQuantityChecks
  refine ⟨fun hf => ?_, fun pq hf hne => ?_, fun hf => ?_⟩
  · simp +instances only [A_bind, A_pure, A_get, A_ite, aerr, A_modify, he, ht, hu, hf, if_true, Bool.false_eq_true,
      if_false]
    rfl
  · simp +instances only [A_bind, A_pure, A_get, A_ite, aerr, A_modify, he, ht, hu, hf, if_true, Bool.false_eq_true,
      if_false, hne, ne_eq, not_false_eq_true]
    rfl
  · simp +instances only [A_bind, A_pure, A_get, A_ite, aerr, A_modify, he, ht, hu, hf, if_true, Bool.false_eq_true,
      if_false, ne_eq, not_true_eq_false]

/-- `note_reference_error` -/
theorem noteReferenceError_run (input : Str) (noteSpan defSpan : Span) (defNote : Option Span) (s : Col α) :
    (noteReferenceError (α := α) input noteSpan defSpan defNote s).2 =
      { s with diags := s.diags.push (adiag .error "note-in-reference"
        [noteRefSpan input noteSpan, defNote.getD (Span.pos defSpan.stop)]) } := by
  unfold noteReferenceError
  cases defNote <;> rfl

/-- a `[mode]` / `[define]` key with a value outside the accepted words -/
theorem metadataA_bad_mode (env : Env) (key value : Text) (s : Col α)
    (hm : env.ext.has Gen.EXT_MODES = true)
    (hk1 : (key.trimmed env.cs).head? = some '[') (hk2 : (key.trimmed env.cs).getLast? = some ']')
    (hk3 : (key.trimmed env.cs).length ≥ 2)
    (hc : String.ofList (((key.trimmed env.cs).drop 1).dropLast) = "define" ∨
          String.ofList (((key.trimmed env.cs).drop 1).dropLast) = "mode")
    (hv : ∀ w ∈ ["all", "default", "components", "ingredients", "steps", "text"],
      String.ofList (value.outerTrimmed env.cs) ≠ w) :
    (metadataA env key value s).2 =
      { s with diags := s.diags.push (adiag .error "config-invalid-value" [value.span, key.span]) } := by
  have v1 := hv "all" (by simp)
  have v2 := hv "default" (by simp)
  have v3 := hv "components" (by simp)
  have v4 := hv "ingredients" (by simp)
  have v5 := hv "steps" (by simp)
  have v6 := hv "text" (by simp)
  have hcond : (String.ofList (((key.trimmed env.cs).drop 1).dropLast) == "define" ||
      String.ofList (((key.trimmed env.cs).drop 1).dropLast) == "mode") = true := by
    rcases hc with h | h <;> rw [h] <;> decide
  unfold metadataA
  simp +instances only [A_bind, A_pure, A_get, A_ite, aerr, A_modify, hm, hk1, hk2, hk3, hcond, beq_self_eq_true,
    Bool.and_self, decide_true, if_true, beq_iff_eq, v1, v2, v3, v4, v5, v6, Bool.or_self, Bool.false_eq_true,
    if_false, Bool.or_eq_true, or_self, ge_iff_le]
  rfl

/-- a `[duplicate]` key with a value outside the accepted words -/
theorem metadataA_bad_duplicate (env : Env) (key value : Text) (s : Col α)
    (hm : env.ext.has Gen.EXT_MODES = true)
    (hk1 : (key.trimmed env.cs).head? = some '[') (hk2 : (key.trimmed env.cs).getLast? = some ']')
    (hk3 : (key.trimmed env.cs).length ≥ 2)
    (hc : String.ofList (((key.trimmed env.cs).drop 1).dropLast) = "duplicate")
    (hv : ∀ w ∈ ["new", "default", "reference", "ref"], String.ofList (value.outerTrimmed env.cs) ≠ w) :
    (metadataA env key value s).2 =
      { s with diags := s.diags.push (adiag .error "config-invalid-value" [value.span, key.span]) } := by
  have v1 := hv "new" (by simp)
  have v2 := hv "default" (by simp)
  have v3 := hv "reference" (by simp)
  have v4 := hv "ref" (by simp)
  have hcond : (String.ofList (((key.trimmed env.cs).drop 1).dropLast) == "define" ||
      String.ofList (((key.trimmed env.cs).drop 1).dropLast) == "mode") = false := by
    rw [hc]; decide
  unfold metadataA
  simp +instances only [A_bind, A_pure, A_get, A_ite, aerr, A_modify, hm, hk1, hk2, hk3, hcond, beq_self_eq_true,
    Bool.and_self, decide_true, if_true, beq_iff_eq, v1, v2, v3, v4, Bool.or_self, Bool.false_eq_true,
    if_false, Bool.or_eq_true, or_self, ge_iff_le, hc]
  rfl

end Cook
