import CookModel.Lemmas.LooseText
/-
  C17, wave 5 (tag `bl17`): the event relation `EvLoose` and the lift through the analysis.

  `EvSim` (Lemmas/SimParser.lean) compares texts fragment by fragment, so it cannot relate a
  component whose name holds a comment (one more fragment) to the same component without it.
  `EvLoose cs` keeps everything of `EvSim` except that: same constructor; component names, aliases,
  notes, units, section names and metadata keys with equal `text_trimmed()`; metadata values with
  equal outer `trim()`; step / paragraph text events with equal `text()`; equal modifiers,
  intermediate-reference data, quantity values, lock present / absent; diagnostics of the same
  severity, stage, kind and number of labels.  That is exactly what the analysis reads from an
  event (`processEvent_loose`): the collector functions read names through `text_trimmed`, never
  through the fragments.
-/
set_option linter.unusedSectionVars false
set_option linter.unusedVariables false
set_option linter.unusedSimpArgs false
set_option linter.unnecessarySimpa false
namespace Cook
variable {α : Type} [Arith α]

/-- the same `text_trimmed()` -/
def TrimEq (cs : CharSpec) (t' t : Text) : Prop := t'.trimmed cs = t.trimmed cs

theorem TextLoose.trimEq {cs : CharSpec} {t' t : Text} (h : TextLoose cs t' t) : TrimEq cs t' t := h.trimmed
theorem TextSim.trimEq {cs : CharSpec} {t' t : Text} (h : TextSim cs.uws t' t) : TrimEq cs t' t := h.trimmed

def PQuantityLoose (cs : CharSpec) (q' q : PQuantity α) : Prop :=
  PQValueSim q'.value q.value ∧ OptRel (TrimEq cs) q'.unit q.unit

structure PIngredientLoose (cs : CharSpec) (i' i : PIngredient α) : Prop where
  modifiers : i'.modifiers.val = i.modifiers.val
  inter : OptRel (LocSim Eq) i'.inter i.inter
  name : TrimEq cs i'.name i.name
  alias : OptRel (TrimEq cs) i'.alias i.alias
  quantity : OptRel (LocSim (PQuantityLoose cs)) i'.quantity i.quantity
  note : OptRel (TrimEq cs) i'.note i.note

structure PCookwareLoose (cs : CharSpec) (c' c : PCookware α) : Prop where
  modifiers : c'.modifiers.val = c.modifiers.val
  name : TrimEq cs c'.name c.name
  alias : OptRel (TrimEq cs) c'.alias c.alias
  quantity : OptRel (LocSim PQValueSim) c'.quantity c.quantity
  note : OptRel (TrimEq cs) c'.note c.note

structure PTimerLoose (cs : CharSpec) (t' t : PTimer α) : Prop where
  name : OptRel (TrimEq cs) t'.name t.name
  quantity : OptRel (LocSim (PQuantityLoose cs)) t'.quantity t.quantity

/-- **events with the same content as far as the analysis reads it** (see the header) -/
def EvLoose (cs : CharSpec) : Ev α → Ev α → Prop
  | .frontMatter t', .frontMatter t => TextSim cs.uws t' t ∨ FmTextCrlf t' t
  | .ingredient i', .ingredient i => PIngredientLoose cs i'.val i.val
  | .cookware c', .cookware c => PCookwareLoose cs c'.val c.val
  | .timer t', .timer t => PTimerLoose cs t'.val t.val
  | .metadata k' v', .metadata k v => TrimEq cs k' k ∧ v'.outerTrimmed cs = v.outerTrimmed cs
  | .«section» n', .«section» n => OptRel (TrimEq cs) n' n
  | .start k', .start k => k' = k
  | .stop k', .stop k => k' = k
  | .text t', .text t => t'.text = t.text
  | .error d', .error d => DiagSim d' d
  | .warning d', .warning d => DiagSim d' d
  | _, _ => False

theorem bl17_optTrim_of_sim {cs : CharSpec} {a' a : Option Text} (h : OptRel (TextSim cs.uws) a' a) :
    OptRel (TrimEq cs) a' a := h.a17_mono (fun _ _ hx => hx.trimmed)

theorem bl17_qty_of_sim {cs : CharSpec} {q' q : Option (Loc (PQuantity α))}
    (h : OptRel (LocSim (PQuantitySim cs.uws)) q' q) : OptRel (LocSim (PQuantityLoose cs)) q' q :=
  h.a17_mono (fun _ _ hx => ⟨hx.1, bl17_optTrim_of_sim hx.2⟩)

/-- every strict relation is a loose one -/
theorem EvSim.loose {cs : CharSpec} {ev' ev : Ev α} (h : EvSim cs.uws ev' ev) : EvLoose cs ev' ev := by
  cases ev' <;> cases ev <;> first | (exfalso; simp [EvSim] at h; done) | skip
  case frontMatter.frontMatter t' t => simpa [EvSim, EvLoose] using h
  case metadata.metadata k' v' k v =>
    have h2 : TextSim cs.uws k' k ∧ TextSim cs.uws v' v := by simpa [EvSim] using h
    exact ⟨h2.1.trimmed, h2.2.outerTrimmed⟩
  case «section».«section» n' n =>
    have h2 : OptRel (TextSim cs.uws) n' n := by simpa [EvSim] using h
    exact bl17_optTrim_of_sim h2
  case start.start k' k => simpa [EvSim, EvLoose] using h
  case stop.stop k' k => simpa [EvSim, EvLoose] using h
  case text.text t' t =>
    have h2 : TextSim cs.uws t' t := by simpa [EvSim] using h
    exact h2.text
  case ingredient.ingredient i' i =>
    have h2 : PIngredientSim cs.uws i'.val i.val := by simpa [EvSim] using h
    exact ⟨h2.modifiers, h2.inter, h2.name.trimmed, bl17_optTrim_of_sim h2.alias, bl17_qty_of_sim h2.quantity,
      bl17_optTrim_of_sim h2.note⟩
  case cookware.cookware c' c =>
    have h2 : PCookwareSim cs.uws c'.val c.val := by simpa [EvSim] using h
    exact ⟨h2.modifiers, h2.name.trimmed, bl17_optTrim_of_sim h2.alias, h2.quantity, bl17_optTrim_of_sim h2.note⟩
  case timer.timer t' t =>
    have h2 : PTimerSim cs.uws t'.val t.val := by simpa [EvSim] using h
    exact ⟨bl17_optTrim_of_sim h2.name, bl17_qty_of_sim h2.quantity⟩
  case error.error d' d => simpa [EvSim, EvLoose] using h
  case warning.warning d' d => simpa [EvSim, EvLoose] using h

theorem bl17_lrel_loose {cs : CharSpec} {l' l : List (Ev α)} (h : LRel (EvSim cs.uws) l' l) : LRel (EvLoose cs) l' l :=
  h.mono (fun _ _ hx => hx.loose)

/-! ### the collector functions read components through `text_trimmed` only -/

theorem bl17_optTrimmed_eq {cs : CharSpec} {a' a : Option Text} (h : OptRel (TrimEq cs) a' a) :
    a'.map (fun t => t.trimmed cs) = a.map (fun t => t.trimmed cs) := by
  rcases h.elim with ⟨e', e⟩ | ⟨x', x, e', e, hx⟩
  · rw [e', e]
  · rw [e', e]; simp only [Option.map_some]; exact congrArg some hx

theorem bl17_quantityOf_arel {uws : Char → Bool} (env : Env) {q' q : Loc (PQuantity α)}
    (h : LocSim (PQuantityLoose env.cs) q' q) (b : Bool) :
    ARel uws Eq (quantityOf env q' b) (quantityOf env q b) := by
  unfold quantityOf
  refine ARel.bind (valueOf_arel env h.1 b) ?_
  intro v' v hv
  subst hv
  refine ARel.pure ?_
  rw [bl17_optTrimmed_eq h.2]

theorem bl17_optQuantityOf_arel {uws : Char → Bool} (env : Env) {q' q : Option (Loc (PQuantity α))}
    (h : OptRel (LocSim (PQuantityLoose env.cs)) q' q) (b : Bool) :
    ARel uws Eq (optQuantityOf env q' b) (optQuantityOf env q b) := by
  unfold optQuantityOf
  rcases h.elim with ⟨rfl, rfl⟩ | ⟨x', x, rfl, rfl, hx⟩
  · exact ARel.pure rfl
  · dsimp only
    refine ARel.bind (bl17_quantityOf_arel env hx b) ?_
    intro r' r hr
    subst hr
    exact ARel.pure rfl

variable {uws : Char → Bool}

theorem bl17_ingrRefChecks_arel (env : Env) (input' input : Str) {li' li : Loc (PIngredient α)}
    (h : PIngredientLoose env.cs li'.val li.val) (igr : Ingredient (ScalableValue α)) (refTo : Nat)
    (defn : Ingredient (ScalableValue α)) (defLoc' defLoc : Loc (PIngredient α)) :
    ARel (α := α) uws (fun _ _ => True) (ingrRefChecks env input' li' igr refTo defn defLoc')
      (ingrRefChecks env input li igr refTo defn defLoc) := by
  unfold ingrRefChecks
  dsimp only
  rcases h.note.elim with ⟨e', e⟩ | ⟨x', x, e', e, hx⟩ <;> rw [e', e] <;>
    cases igr.quantity <;> cases defn.quantity <;> dsimp only <;> arel

theorem bl17_ingrRegular_arel (env : Env) (input' input : Str) {li' li : Loc (PIngredient α)}
    (h : PIngredientLoose env.cs li'.val li.val) (igr0 : Ingredient (ScalableValue α)) :
    ARel (α := α) uws Eq (ingrRegular env input' li' igr0) (ingrRegular env input li igr0) := by
  unfold ingrRegular
  apply ARel.bind ARel.get
  intro s' s hs
  simp only [hs.ingredients]
  apply ARel.bind (resolveReference_arel _ _ _ _ _ _ _ _ _ _)
  intro r' r hr
  subst hr
  cases r'.2 with
  | none => exact ARel.pure rfl
  | some o =>
    dsimp only
    apply ARel.bind ARel.get
    intro t' t ht
    simp only [ht.ingredients]
    rcases getElem?_of_size_eq ht.locIngr o.refTo with ⟨e', e⟩ | ⟨x, y, e', e⟩
    · rw [e', e]
      cases t.ingredients[o.refTo]? <;> arel
    · rw [e', e]
      cases t.ingredients[o.refTo]? with
      | none => arel
      | some defn =>
        dsimp only
        apply ARel.bind (bl17_ingrRefChecks_arel env input' input h _ _ _ _ _)
        intro _ _ _
        apply ARel.bind (ingrSetReferencedFrom_arel _ _ _)
        intro _ _ _
        exact ARel.pure rfl

theorem bl17_ingrBuild_arel (env : Env) (input' input : Str) {li' li : Loc (PIngredient α)}
    (h : PIngredientLoose env.cs li'.val li.val) (igr0 : Ingredient (ScalableValue α)) :
    ARel (α := α) uws Eq (ingrBuild env input' li' igr0) (ingrBuild env input li igr0) := by
  unfold ingrBuild
  apply ARel.bind (R := Eq)
  · rcases h.inter.elim with ⟨e', e⟩ | ⟨x', x, e', e, hx⟩
    · rw [e', e]; exact bl17_ingrRegular_arel env input' input h igr0
    · rw [e', e]; exact ingrInter_arel igr0 hx
  intro g' g hg
  subst hg
  apply ARel.bind (R := fun _ _ => True)
  · apply ARel.modify
    intro c' c hc
    colsim hc
    show (c'.locIngr.push _).size = (c.locIngr.push _).size
    simp [hc.locIngr]
  intro _ _ _
  apply ARel.bind ARel.get
  intro t' t ht
  rw [ht.ingredients]
  exact ARel.pure rfl

theorem bl17_ingredientA_arel (env : Env) (input' input : Str) {li' li : Loc (PIngredient α)}
    (h : PIngredientLoose env.cs li'.val li.val) :
    ARel (α := α) uws Eq (ingredientA env input' li') (ingredientA env input li) := by
  unfold ingredientA
  have hn : li'.val.name.trimmed env.cs = li.val.name.trimmed env.cs := h.name
  simp only [hn, bl17_optTrimmed_eq h.alias, bl17_optTrimmed_eq h.note, h.modifiers]
  apply ARel.bind (bl17_optQuantityOf_arel env h.quantity true)
  intro q' q hq
  subst hq
  apply ARel.bind ARel.get
  intro s' s hs
  rw [hs.defineMode]
  exact bl17_ingrBuild_arel env input' input h _

theorem bl17_cwRefChecks_arel (input' input : Str) {cs : CharSpec} {lc' lc : Loc (PCookware α)}
    (h : PCookwareLoose cs lc'.val lc.val) (cw : Cookware (ScalableValue α))
    (defn : Cookware (ScalableValue α)) (defLoc' defLoc : Loc (PCookware α)) :
    ARel (α := α) uws (fun _ _ => True) (cwRefChecks input' lc' cw defn defLoc')
      (cwRefChecks input lc cw defn defLoc) := by
  unfold cwRefChecks
  dsimp only
  rcases h.note.elim with ⟨e', e⟩ | ⟨x', x, e', e, hx⟩ <;> rw [e', e] <;>
    cases cw.quantity <;> cases defn.quantity <;> dsimp only <;> arel

theorem bl17_cwResolve_arel (env : Env) (input' input : Str) {cs : CharSpec} {lc' lc : Loc (PCookware α)}
    (h : PCookwareLoose cs lc'.val lc.val) (cw0 : Cookware (ScalableValue α)) :
    ARel (α := α) uws Eq (cwResolve env input' lc' cw0) (cwResolve env input lc cw0) := by
  unfold cwResolve
  apply ARel.bind ARel.get
  intro s' s hs
  simp only [hs.cookware]
  apply ARel.bind (resolveReference_arel _ _ _ _ _ _ _ _ _ _)
  intro r' r hr
  subst hr
  cases r'.2 with
  | none => exact ARel.pure rfl
  | some o =>
    dsimp only
    apply ARel.bind ARel.get
    intro t' t ht
    simp only [ht.cookware]
    rcases getElem?_of_size_eq ht.locCw o.refTo with ⟨e', e⟩ | ⟨x, y, e', e⟩
    · rw [e', e]
      cases t.cookware[o.refTo]? <;> arel
    · rw [e', e]
      cases t.cookware[o.refTo]? with
      | none => arel
      | some defn =>
        dsimp only
        apply ARel.bind (bl17_cwRefChecks_arel input' input h _ _ _ _)
        intro _ _ _
        apply ARel.bind (cwSetReferencedFrom_arel _ _ _)
        intro _ _ _
        exact ARel.pure rfl

theorem bl17_cwBuild_arel (env : Env) (input' input : Str) {cs : CharSpec} {lc' lc : Loc (PCookware α)}
    (h : PCookwareLoose cs lc'.val lc.val) (cw0 : Cookware (ScalableValue α)) :
    ARel (α := α) uws Eq (cwBuild env input' lc' cw0) (cwBuild env input lc cw0) := by
  unfold cwBuild
  apply ARel.bind (bl17_cwResolve_arel env input' input h cw0)
  intro g' g hg
  subst hg
  apply ARel.bind (R := fun _ _ => True)
  · apply ARel.modify
    intro c' c hc
    colsim hc
    show (c'.locCw.push _).size = (c.locCw.push _).size
    simp [hc.locCw]
  intro _ _ _
  apply ARel.bind ARel.get
  intro t' t ht
  rw [ht.cookware]
  exact ARel.pure rfl

theorem bl17_cookwareA_arel (env : Env) (input' input : Str) {lc' lc : Loc (PCookware α)}
    (h : PCookwareLoose env.cs lc'.val lc.val) :
    ARel (α := α) uws Eq (cookwareA env input' lc') (cookwareA env input lc) := by
  unfold cookwareA
  have hn : lc'.val.name.trimmed env.cs = lc.val.name.trimmed env.cs := h.name
  simp only [hn, bl17_optTrimmed_eq h.alias, bl17_optTrimmed_eq h.note, h.modifiers]
  apply ARel.bind (optValueOf_arel env h.quantity)
  intro q' q hq
  subst hq
  apply ARel.bind ARel.get
  intro s' s hs
  rw [hs.defineMode]
  exact bl17_cwBuild_arel env input' input h _

theorem bl17_timerQuantity_arel (env : Env) {q' q : Option (Loc (PQuantity α))}
    (h : OptRel (LocSim (PQuantityLoose env.cs)) q' q) :
    ARel (α := α) uws Eq (timerQuantity env q') (timerQuantity env q) := by
  unfold timerQuantity
  rcases h.elim with ⟨rfl, rfl⟩ | ⟨x', x, rfl, rfl, hx⟩
  · exact ARel.pure rfl
  · dsimp only
    apply ARel.bind (bl17_quantityOf_arel env hx false)
    intro r' r hr
    subst hr
    apply ARel.bind (timerQuantityChecks_arel env _)
    intro _ _ _
    exact ARel.pure rfl

theorem bl17_timerA_arel (env : Env) {lt' lt : Loc (PTimer α)} (h : PTimerLoose env.cs lt'.val lt.val) :
    ARel (α := α) uws Eq (timerA env lt') (timerA env lt) := by
  unfold timerA
  simp only [bl17_optTrimmed_eq h.name]
  apply ARel.bind (bl17_timerQuantity_arel env h.quantity)
  intro q' q hq
  subst hq
  apply ARel.bind (R := fun _ _ => True)
  · apply ARel.modify
    intro c' c hc
    colsim hc
  intro _ _ _
  apply ARel.bind ARel.get
  intro t' t ht
  rw [ht.timers]
  exact ARel.pure rfl

theorem bl17_inStepComponent_arel (env : Env) (input' input : Str) {ev' ev : Ev α} (h : EvLoose env.cs ev' ev) :
    ARel (α := α) env.cs.uws (fun _ _ => True) (inStepComponent env input' ev') (inStepComponent env input ev) := by
  unfold inStepComponent
  cases ev' <;> cases ev <;> try (first | exact ARel.apanic _ _ | (exfalso; simp [EvLoose] at h; done))
  · apply ARel.bind (bl17_ingredientA_arel env input' input (by simpa [EvLoose] using h))
    intro i' i hi
    subst hi
    exact pushItem_arel _
  · apply ARel.bind (bl17_cookwareA_arel env input' input (by simpa [EvLoose] using h))
    intro i' i hi
    subst hi
    exact pushItem_arel _
  · apply ARel.bind (bl17_timerA_arel env (by simpa [EvLoose] using h))
    intro i' i hi
    subst hi
    exact pushItem_arel _

theorem bl17_inBlockComponent (env : Env) (input' input : Str) {ev' ev : Ev α} (h : EvLoose env.cs ev' ev)
    {c' c : Col α} (hc : ColSim env.cs.uws c' c) (hnt : ∀ buf, c.block ≠ some (.text buf)) :
    ColSim env.cs.uws (inBlockComponent env input' ev' c').2 (inBlockComponent env input ev c).2 := by
  unfold inBlockComponent
  simp only [A_bind, A_get, hc.block]
  cases hb : c.block with
  | none => exact ((ARel.apanic (uws := env.cs.uws) _ _).out c' c hc).2
  | some buf =>
    cases buf with
    | step items => exact ((bl17_inStepComponent_arel env input' input h).out c' c hc).2
    | text b => exact absurd hb (hnt b)

/-! ### step text and metadata: only `text()` / `text_trimmed()` / the outer `trim()` are read -/

theorem bl17_inStepTextStep_arel (env : Env) {t' t : Text} (h : t'.text = t.text) (items : List Item) :
    ARel (α := α) uws (fun _ _ => True) (inStepTextStep env t' items) (inStepTextStep env t items) := by
  unfold inStepTextStep
  apply ARel.bind ARel.get
  intro s' s hs
  simp only [h, hs.defineMode, hs.inlineQ]
  apply ARel.ite
  · arel
  · apply ARel.ite
    · apply ARel.modify
      intro c' c hc
      colsim hc
    · apply ARel.modify
      intro c' c hc
      colsim hc

theorem bl17_inStepText_arel (env : Env) {t' t : Text} (h : t'.text = t.text) :
    ARel (α := α) uws (fun _ _ => True) (inStepText env t') (inStepText env t) := by
  unfold inStepText
  apply ARel.bind ARel.get
  intro s' s hs
  simp only [h, hs.block]
  cases s.block with
  | none => exact ARel.apanic _ _
  | some buf =>
    cases buf with
    | step items => exact bl17_inStepTextStep_arel env h items
    | text b =>
      dsimp only
      apply ARel.modify
      intro c' c hc
      colsim hc

theorem bl17_metadataA_arel (env : Env) {k' k v' v : Text} (hk : k'.trimmed env.cs = k.trimmed env.cs)
    (hv : v'.outerTrimmed env.cs = v.outerTrimmed env.cs) :
    ARel (α := α) uws (fun _ _ => True) (metadataA env k' v') (metadataA env k v) := by
  unfold metadataA
  simp only [hk, hv]
  apply ARel.bind ARel.get
  intro s' s hs
  simp only [hs.oldStyle]
  have hstore : ARel (α := α) uws (fun _ _ => True)
      (modify fun s => { s with oldStyleUsed := s.oldStyleUsed ++ [⟨k'.span.start, v'.span.stop⟩],
                                metaMap := metaInsert s.metaMap (k.trimmed env.cs) (v.outerTrimmed env.cs) })
      (modify fun s => { s with oldStyleUsed := s.oldStyleUsed ++ [⟨k.span.start, v.span.stop⟩],
                                metaMap := metaInsert s.metaMap (k.trimmed env.cs) (v.outerTrimmed env.cs) }) := by
    apply ARel.modify
    intro c' c hc
    colsim hc
    show (c'.oldStyleUsed ++ [_]).length = (c.oldStyleUsed ++ [_]).length
    simp [hc.oldStyleUsed]
  have hrest : ARel (α := α) uws (fun _ _ => True)
      (match StdKey.ofStr (String.ofList (k.trimmed env.cs)) with
        | none => pure ()
        | some sk =>
          match env.stdCheck sk (v.outerTrimmed env.cs) with
          | .rejected => do awarn "std-unsupported-value" [v'.span, k'.span]; pure ()
          | .servings sv => do
            modify fun s => { s with servings := some sv }
            modify fun s => { s with metaLocs := (s.metaLocs.filter (fun p => p.1 != sk)) ++ [(sk, ⟨k'.span.start, v'.span.stop⟩)] }
            if stdKeyIsTime sk then timeOverrideCheck sk else pure ()
          | .ok => do
            modify fun s => { s with metaLocs := (s.metaLocs.filter (fun p => p.1 != sk)) ++ [(sk, ⟨k'.span.start, v'.span.stop⟩)] }
            if stdKeyIsTime sk then timeOverrideCheck sk else pure ())
      (match StdKey.ofStr (String.ofList (k.trimmed env.cs)) with
        | none => pure ()
        | some sk =>
          match env.stdCheck sk (v.outerTrimmed env.cs) with
          | .rejected => do awarn "std-unsupported-value" [v.span, k.span]; pure ()
          | .servings sv => do
            modify fun s => { s with servings := some sv }
            modify fun s => { s with metaLocs := (s.metaLocs.filter (fun p => p.1 != sk)) ++ [(sk, ⟨k.span.start, v.span.stop⟩)] }
            if stdKeyIsTime sk then timeOverrideCheck sk else pure ()
          | .ok => do
            modify fun s => { s with metaLocs := (s.metaLocs.filter (fun p => p.1 != sk)) ++ [(sk, ⟨k.span.start, v.span.stop⟩)] }
            if stdKeyIsTime sk then timeOverrideCheck sk else pure ()) := by
    cases StdKey.ofStr (String.ofList (k.trimmed env.cs)) with
    | none => exact ARel.pure trivial
    | some sk => exact metadataStd_arel env sk _ _ _ _ _ rfl
  apply ARel.ite
  · apply ARel.ite
    · apply ARel.ite
      amod
      apply ARel.ite
      amod
      apply ARel.ite
      amod
      apply ARel.ite
      amod
      aerrp
    · apply ARel.ite
      · apply ARel.ite
        amod
        apply ARel.ite
        amod
        aerrp
      · apply ARel.bind (ARel.awarn _ (by rfl))
        intro _ _ _
        apply ARel.ite
        amod
        exact ARel.pure trivial
  · apply ARel.ite
    · apply ARel.bind (ARel.apanic _ _)
      intro _ _ _
      apply ARel.bind hstore
      intro _ _ _
      exact hrest
    · apply ARel.bind hstore
      intro _ _ _
      exact hrest

/-- **one event**: `EvLoose`-related events take `ColSim`-related collector states to
    `ColSim`-related states, for any two source texts, unless the event is a component inside a
    text-mode block (where the source slice is copied) -/
theorem processEvent_loose (env : Env) (input' input : Str) {ev' ev : Ev α} (h : EvLoose env.cs ev' ev)
    {c' c : Col α} (hc : ColSim env.cs.uws c' c) (hns : ¬ TextModeSliceAt ev c) :
    ColSim env.cs.uws (processEvent env input' ev' c').2 (processEvent env input ev c).2 := by
  have hnt : ev.isComp = true → ∀ buf, c.block ≠ some (.text buf) := fun h1 buf h2 => hns ⟨h1, buf, h2⟩
  cases ev' <;> cases ev <;> try (exfalso; simp [EvLoose] at h; done)
  case frontMatter.frontMatter t' t =>
    simp only [processEvent, A_modify]
    colsim hc
    show FmSim env.cs.uws t' t
    unfold FmSim
    simpa [EvLoose] using h
  case metadata.metadata k' v' k v =>
    simp only [processEvent]
    have h2 : TrimEq env.cs k' k ∧ v'.outerTrimmed env.cs = v.outerTrimmed env.cs := by simpa [EvLoose] using h
    exact ((bl17_metadataA_arel env h2.1 h2.2).out c' c hc).2
  case «section».«section» n' n =>
    have h2 : OptRel (TrimEq env.cs) n' n := by simpa [EvLoose] using h
    have h3 := bl17_optTrimmed_eq h2
    simp only [processEvent, A_modify, h3]
    colsim hc
  case start.start k' k =>
    simp only [processEvent, A_modify]
    have h2 : k' = k := by simpa [EvLoose] using h
    subst h2
    colsim hc
  case stop.stop k' k =>
    simp only [processEvent]
    have h2 : k' = k := by simpa [EvLoose] using h
    subst h2
    exact ((endBlock_arel k').out c' c hc).2
  case text.text t' t =>
    simp only [processEvent]
    exact ((bl17_inStepText_arel env (by simpa [EvLoose] using h)).out c' c hc).2
  case ingredient.ingredient i' i =>
    simp only [processEvent]
    exact bl17_inBlockComponent env input' input h hc (hnt rfl)
  case cookware.cookware i' i =>
    simp only [processEvent]
    exact bl17_inBlockComponent env input' input h hc (hnt rfl)
  case timer.timer i' i =>
    simp only [processEvent]
    exact bl17_inBlockComponent env input' input h hc (hnt rfl)
  case error.error d' d =>
    simp only [processEvent]
    exact hc
  case warning.warning d' d =>
    simp only [processEvent, A_modify]
    exact hc.pushDiag (by simpa [EvLoose] using h)

/-! ### the fold -/

theorem bl17_filterMap_isDiagEv {cs : CharSpec} {l' l : List (Ev α)} (h : LRel (EvLoose cs) l' l) :
    LRel DiagSim (l'.filterMap isDiagEv) (l.filterMap isDiagEv) := by
  induction h with
  | nil => exact .nil
  | @cons a b l' l hab _ ih =>
    cases a <;> cases b <;> first | (exfalso; simp [EvLoose] at hab; done) | skip
    all_goals first
      | (simp only [List.filterMap_cons, isDiagEv]; exact ih)
      | (simp only [List.filterMap_cons, isDiagEv]; exact .cons (by simpa [EvLoose] using hab) ih)

theorem bl17_parseEventsLoop_error (env : Env) (input' input : Str) {c' c : Col α} (hc : ColSim env.cs.uws c' c)
    {d' d : Diag} (hd : DiagSim d' d) {rest' rest : List (Ev α)} (hr : LRel (EvLoose env.cs) rest' rest) :
    ResSim env.cs.uws (parseEventsLoop env input' (.error d' :: rest') c') (parseEventsLoop env input (.error d :: rest) c) := by
  simp only [parseEventsLoop]
  refine ⟨trivial, ?_⟩
  simp only [Array.toList_filter, Array.toList_append, Array.toList_push, List.toList_toArray]
  refine LRel.filter ?_ ((hc.diags.append (.cons hd .nil)).append (bl17_filterMap_isDiagEv hr))
  intro a b hab
  show (a.stage == Stage.parse) = (b.stage == Stage.parse)
  rw [hab.2.1]

/-- **the fold**: `EvLoose`-related event lists take `ColSim`-related states to `ResSim`-related
    results, as long as the text-mode slice branch is not taken -/
theorem parseEventsLoop_loose (env : Env) (input' input : Str) {evs' evs : List (Ev α)}
    (h : LRel (EvLoose env.cs) evs' evs) {c' c : Col α} (hc : ColSim env.cs.uws c' c)
    (hf : TextModeFree env input evs c) :
    ResSim env.cs.uws (parseEventsLoop env input' evs' c') (parseEventsLoop env input evs c) := by
  induction h generalizing c' c with
  | nil => exact parseEventsLoop_nil_sim env input' input hc
  | @cons a b l' l hab hl ih =>
    cases a <;> cases b <;> first | (exfalso; simp [EvLoose] at hab; done) | skip
    case error.error d' d => exact bl17_parseEventsLoop_error env input' input hc (by simpa [EvLoose] using hab) hl
    all_goals
      simp only [parseEventsLoop]
      simp only [TextModeFree] at hf
      exact ih (processEvent_loose env input' input hab hc hf.1) hf.2

/-- **the analysis respects `EvLoose`** -/
theorem parseEvents_loose (env : Env) (input' input : Str) {evs' evs : List (Ev α)}
    (h : LRel (EvLoose env.cs) evs' evs) (hf : TextModeFree env input evs {}) :
    ResSim env.cs.uws (parseEvents env input' evs') (parseEvents env input evs) :=
  parseEventsLoop_loose env input' input h (ColSim.init _) hf

/-- two sources whose pull-parser events are `EvLoose`-related parse to the same recipe -/
theorem bl17_parseRecipe_loose (env : Env) (s' s : List Char)
    (h : LRel (EvLoose env.cs) (pullEvents (α := α) env.cs env.ext s').1.toList (pullEvents (α := α) env.cs env.ext s).1.toList)
    (hf : TextModeFree env s (pullEvents (α := α) env.cs env.ext s).1.toList {}) :
    ResSim env.cs.uws (parseRecipe (α := α) env s') (parseRecipe (α := α) env s) := by
  unfold parseRecipe
  exact (parseEvents_loose env s' s h hf).setPanic _ _

end Cook
