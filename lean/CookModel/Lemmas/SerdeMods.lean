import CookModel.Lemmas.ClosingEvOK
import CookModel.Lemmas.CollectorInv
/-
  C15 — towards `RecipeModsKnown` for parsed recipes (notes/audit-C15.md): the two places where modifier
  bits are COMPUTED only produce the five declared flags: `parse_modifiers` (parser) and
  `resolve_reference` (analysis).
-/
set_option linter.unusedSectionVars false
set_option linter.unusedVariables false
set_option linter.unusedSimpArgs false
namespace Cook

theorem audit_or_lt_32 {a b : Nat} (ha : a < 32) (hb : b < 32) : a ||| b < 32 :=
  Nat.or_lt_two_pow (n := 5) ha hb

theorem audit_and_lt_32 {a b : Nat} (hb : b < 32) : a &&& b < 32 :=
  Nat.lt_of_le_of_lt Nat.and_le_right hb

theorem audit_modifierFlag_lt (k : TK) (f : Nat) (h : modifierFlag k = some f) : f < 32 := by
  unfold modifierFlag at h
  split at h
  · cases h; decide
  · split at h
    · cases h; decide
    · split at h
      · cases h; decide
      · split at h
        · cases h; decide
        · split at h
          · cases h; decide
          · cases h

section parser
variable {α : Type} [Arith α] {I : Array (Ev α) → Prop} [DiagStable I]

/-- `parse_modifiers`' loop only ORs declared flags into the set -/
theorem audit_parseModifiersLoop_bits (span : Span) (ie : Bool) (fuel : Nat) (mtoks : List Tok)
    (m : Modifiers) (d : Option (Loc InterData)) (hm : m.bits < 32) :
    Keeps I (parseModifiersLoop (α := α) span ie fuel mtoks m d) (fun r => r.1.bits < 32) := by
  induction fuel generalizing mtoks m d with
  | zero => unfold parseModifiersLoop; exact Keeps.pure hm
  | succ fuel ih =>
    cases mtoks with
    | nil => unfold parseModifiersLoop; exact Keeps.pure hm
    | cons tok rest =>
      unfold parseModifiersLoop
      dsimp only
      apply Keeps.bind (R := fun flag => flag < 32)
      · split
        · rename_i f hf; exact Keeps.pure (audit_modifierFlag_lt _ _ hf)
        · exact Keeps.bind (Keeps.panicWith _) (fun _ _ => Keeps.pure (by decide))
      intro flag hflag
      have tail : ∀ (rest' : List Tok) (d' : Option (Loc InterData)),
          Keeps I (if (decide (flag ≠ 0) && m.contains flag) = true then do
                perr "duplicate-modifier" [span]
                parseModifiersLoop (α := α) span ie fuel rest' m d'
              else parseModifiersLoop span ie fuel rest' (m.insert flag) d')
            (fun r => r.1.bits < 32) := by
        intro rest' d'
        split
        · exact Keeps.bind (Keeps.perr _ _) (fun _ _ => ih rest' m d' hm)
        · exact ih rest' (m.insert flag) d' (audit_or_lt_32 hm hflag)
      split
      · exact Keeps.bind (closing_parseInterRef_keeps rest) (fun r _ => tail r.2 r.1)
      · exact tail rest d

theorem audit_parseModifiers_bits (mtoks : List Tok) (pos : Nat) :
    Keeps I (parseModifiers (α := α) mtoks pos) (fun r => r.flags.val.bits < 32) := by
  unfold parseModifiers
  split
  · exact Keeps.pure (show (0 : Nat) < 32 by decide)
  dsimp only
  refine Keeps.bind (hasExt_keeps _) (fun ie _ => ?_)
  refine Keeps.bind (audit_parseModifiersLoop_bits _ _ _ _ _ _ (show (0 : Nat) < 32 by decide)) (fun r hr => ?_)
  exact Keeps.pure hr

instance audit_trivialStable : DiagStable (α := α) (fun _ => True) := ⟨fun _ _ _ => trivial, fun _ _ _ => trivial⟩

/-- … as a plain statement about the parser function: from every parser state -/
theorem audit_parseModifiers_bits_run (mtoks : List Tok) (pos : Nat) (s : BP α) :
    (parseModifiers (α := α) mtoks pos s).1.flags.val.bits < 32 :=
  ((audit_parseModifiers_bits (I := fun _ => True) mtoks pos).run s trivial).2

end parser

section collector
variable {α : Type} [Arith α]

/-- `resolve_reference` returns the modifiers it was given, or those joined with the inherited ones and REF -/
theorem audit_resolveReference_bits (env : Env) (container : String) (inherit : Nat)
    (existing : List (Str × Modifiers)) (name : Str) (mods : Modifiers) (location modLoc : Span) (s : Col α)
    (hm : mods.bits < 32) (hi : inherit < 32) :
    (resolveReference env container inherit existing name mods location modLoc s).1.1.bits < 32 := by
  generalize hr : resolveReference env container inherit existing name mods location modLoc s = r
  unfold resolveReference at hr
  simp +instances only [A_bind, A_pure, A_get, A_ite, aerr, awarn, A_modify] at hr
  generalize sameNameIdx env existing name = sn at hr ⊢
  repeat' split at hr
  all_goals subst hr
  all_goals simp only [A_bind, A_pure, A_modify]
  all_goals first
    | exact hm
    | exact audit_or_lt_32 (audit_or_lt_32 hm (audit_and_lt_32 hi)) (by decide)

end collector

end Cook
