import CookModel.Lemmas.CollectorTrans
import CookModel.Lemmas.ClosingStream
/-
  C06, "no text item is empty": no `Item::Text` of a step of the returned recipe has an empty value.

  Analysis side: a text item is pushed by `inStepTextStep` only — the text of the `Text` event, or the
  non-empty pieces `inlineLoop` cuts it into.  Parser side: the pull parser pushes a `Text` event only
  when the text it built has a fragment, and `Text::append` never stores an empty fragment.
-/
set_option linter.unusedSectionVars false
set_option linter.unusedSimpArgs false
set_option linter.unusedVariables false
namespace Cook
variable {α : Type} [Arith α]

/-- a `Text` event carries a non-empty text -/
def TextNE : Ev α → Prop
  | .text t => t.text ≠ []
  | _ => True

/-! ### analysis side -/

def StepTxt (items : List Item) : Prop := ∀ v, Item.text v ∈ items → v ≠ []
def ContentTxt (content : List Content) : Prop := ∀ ct ∈ content, ∀ st, ct = .step st → StepTxt st.items

structure TxtInv (s : Col α) : Prop where
  secs : ∀ sec ∈ s.sections, ContentTxt sec.content
  cur : ContentTxt s.cur.content
  blk : StepTxt (blockItems s.block)

theorem TxtInv.init : TxtInv (α := α) {} :=
  ⟨fun sec h => (by cases h), fun ct h => (by cases h), fun v h => (by cases h)⟩

theorem Trans.txt {env : Env} {ev : Ev α} {s s' : Col α} (ht : Trans env ev s s') (h : TxtInv s) (hev : TextNE ev) :
    TxtInv s' := by
  cases ht with
  | keep hsec hcur hi hc hb =>
    refine ⟨(by rw [hsec]; exact h.secs), (by rw [hcur]; exact h.cur), ?_⟩
    rcases hb with hb | ⟨extra, hb, _, _, htx⟩
    · rw [hb]; intro v hv; cases hv
    · rw [hb]
      intro v hv
      rw [List.mem_append] at hv
      rcases hv with hv | hv
      · exact h.blk v hv
      · rcases htx v hv with h1 | ⟨t, rfl, rfl⟩
        · exact h1
        · exact hev
  | newSection name hse hsec hcur hi hc hb =>
    refine ⟨?_, (by rw [hcur]; intro ct hct; cases hct), (by rw [hb]; exact h.blk)⟩
    rw [hsec]
    intro sec hsec'
    split at hsec'
    · rw [List.mem_append, List.mem_singleton] at hsec'
      rcases hsec' with h1 | rfl
      · exact h.secs sec h1
      · exact h.cur
    · exact h.secs sec hsec'
  | pushBlock c hsec hcur hi hc hb hitems =>
    refine ⟨(by rw [hsec]; exact h.secs), ?_, (by rw [hb]; intro v hv; cases hv)⟩
    rw [hcur]
    intro ct hct st hst
    dsimp only at hct
    rw [List.mem_append, List.mem_singleton] at hct
    rcases hct with h1 | rfl
    · exact h.cur ct h1 st hst
    · subst hst
      have : st.items = blockItems s.block := hitems
      rw [this]; exact h.blk
  | ingr ings igr hsec hcur hi hsz hstep hc hb =>
    refine ⟨(by rw [hsec]; exact h.secs), (by rw [hcur]; exact h.cur), ?_⟩
    rw [hb]
    intro v hv
    rw [List.mem_append, List.mem_singleton] at hv
    rcases hv with hv | hv
    · exact h.blk v hv
    · cases hv
  | cw cws cwn hsec hcur hi hc hsz hstep hb =>
    refine ⟨(by rw [hsec]; exact h.secs), (by rw [hcur]; exact h.cur), ?_⟩
    rw [hb]
    intro v hv
    rw [List.mem_append, List.mem_singleton] at hv
    rcases hv with hv | hv
    · exact h.blk v hv
    · cases hv

theorem processEvent_txt (env : Env) (input : Str) (ev : Ev α) (s : Col α) (hi : Inv env s) (h : TxtInv s)
    (hev : EvOK ev) (hne : TextNE ev) : TxtInv (processEvent env input ev s).2 :=
  (processEvent_trans env input ev s hi hev).txt h hne

theorem parseEventsLoop_txt (env : Env) (input : Str) (evs : List (Ev α)) (s c : Col α) (hi : Inv env s)
    (h : TxtInv s) (hev : ∀ ev ∈ evs, EvOK ev) (hne : ∀ ev ∈ evs, TextNE ev)
    (hc : (parseEventsLoop env input evs s).output = some c) : ∀ sec ∈ c.sections, ContentTxt sec.content := by
  induction evs generalizing s with
  | nil =>
    simp only [parseEventsLoop, Option.some.injEq] at hc
    subst hc
    have key : ∀ sec ∈ (if (!s.cur.isEmpty) = true then s.sections ++ [s.cur] else s.sections),
        ContentTxt sec.content := by
      intro sec hsec
      split at hsec
      · rw [List.mem_append, List.mem_singleton] at hsec
        rcases hsec with h1 | rfl
        · exact h.secs sec h1
        · exact h.cur
      · exact h.secs sec hsec
    split <;> split <;> rename_i h1 h2 <;> simp only [h1, if_true, if_false] at key <;> exact key
  | cons ev rest ih =>
    by_cases he : ∃ d0, ev = .error d0
    · obtain ⟨d0, rfl⟩ := he
      simp only [parseEventsLoop] at hc
      cases hc
    · rw [parseEventsLoop_cons_nonerror env input ev rest s he] at hc
      exact ih _ (processEvent_inv env input ev s hi (hev ev List.mem_cons_self))
        (processEvent_txt env input ev s hi h (hev ev List.mem_cons_self) (hne ev List.mem_cons_self))
        (fun e he' => hev e (List.mem_cons_of_mem _ he')) (fun e he' => hne e (List.mem_cons_of_mem _ he')) hc

/-! ### parser side: texts built by `BlockParser::text` have no empty fragment -/

def FragsNE (t : Text) : Prop := ∀ f ∈ t.frags, f.text ≠ []

theorem appendFrag_frags_ti (t : Text) (f : Frag) :
    (t.appendFrag f).frags = if f.text.isEmpty = true then t.frags else t.frags ++ [f] := by
  unfold Text.appendFrag
  dsimp only
  split <;> split <;> rfl

theorem FragsNE.appendFrag {t : Text} (h : FragsNE t) (f : Frag) : FragsNE (t.appendFrag f) := by
  intro g hg
  rw [appendFrag_frags_ti] at hg
  split at hg
  · exact h g hg
  · rename_i hne
    rw [List.mem_append, List.mem_singleton] at hg
    rcases hg with hg | rfl
    · exact h g hg
    · intro hc; rw [hc] at hne; exact hne rfl

theorem FragsNE.appendStr {t : Text} (h : FragsNE t) (s : List Char) (off : Nat) : FragsNE (t.appendStr s off) :=
  h.appendFrag _

theorem textStep_fragsNE (a : TextAcc) (tok : Tok) (h : FragsNE a.t) : FragsNE (textStep a tok).t := by
  unfold textStep
  split
  · exact (h.appendStr _ _).appendFrag _
  · exact h.appendStr _ _
  · exact h.appendStr _ _
  · exact h.appendStr _ _
  · exact h

theorem foldl_textStep_fragsNE (toks : List Tok) (a : TextAcc) (h : FragsNE a.t) :
    FragsNE (toks.foldl textStep a).t := by
  induction toks generalizing a with
  | nil => exact h
  | cons t ts ih => rw [List.foldl_cons]; exact ih _ (textStep_fragsNE a t h)

theorem buildText_fragsNE (off : Nat) (toks : List Tok) : FragsNE (buildText off toks) := by
  unfold buildText
  split
  · intro f hf; cases hf
  · dsimp only
    split <;> exact (foldl_textStep_fragsNE _ _ (fun f hf => (by cases hf))).appendStr _ _

theorem Text.text_ne_nil {t : Text} (h : FragsNE t) (hf : t.frags ≠ []) : t.text ≠ [] := by
  unfold Text.text
  cases hfr : t.frags with
  | nil => exact absurd hfr hf
  | cons f rest =>
    simp only [List.flatMap_cons]
    intro hc
    have := (List.append_eq_nil_iff.mp hc).1
    split at this
    · cases this
    · exact h f (by rw [hfr]; exact List.mem_cons_self) this

theorem frags_ne_of_not_isTextEmpty (cs : CharSpec) (t : Text) (h : t.isTextEmpty cs = false) : t.frags ≠ [] := by
  intro hc
  unfold Text.isTextEmpty at h
  rw [hc] at h
  cases h

/-! ### parser side: every `Text` event of the pull parser is non-empty -/

instance : DiagQ (TextNE (α := α)) := ⟨fun _ => trivial, fun _ => trivial⟩

section textne
local notation "ITX" => AllQ (TextNE (α := α))

variable {I : Array (Ev α) → Prop} [DiagStable I]

theorem bpText_keeps_val (off : Nat) (ts : List Tok) :
    Keeps I (bpText (α := α) off ts) (fun t => t = buildText off ts) := by
  unfold bpText
  dsimp only
  split
  · exact Keeps.bind (I := I) (R := fun _ => True) (Keeps.panicWith _) (fun _ _ => Keeps.pure (I := I) rfl)
  · exact Keeps.pure (I := I) rfl

theorem TextNE.of_comp {ev : Ev α} (h : (evSpan ev).isSome = true) : TextNE ev := by
  cases ev <;> first | trivial | cases h

theorem text_pushText_keeps (off : Nat) (ts : List Tok) (t : Text) (ht : t = buildText off ts)
    (hf : t.frags ≠ []) : Keeps ITX (pushEv (α := α) (.text t)) (fun _ => True) :=
  Keeps.pushEv (fun evs h => h.push (by
    show t.text ≠ []
    exact Text.text_ne_nil (ht ▸ buildText_fragsNE off ts) hf))

theorem text_stepOne_keeps : Keeps ITX (stepOne (α := α)) (fun _ => True) := by
  unfold stepOne
  apply Keeps.bind (R := RComp)
  · keeps
  · intro comp hc
    split
    · rename_i ev
      exact Keeps.pushEv (fun evs h => h.push (TextNE.of_comp (hc ev rfl).2))
    · refine Keeps.bind (R := fun _ => True) currentOffset_keeps (fun start _ => ?_)
      refine Keeps.bind (R := fun _ => True) Keeps.getCur (fun c0 _ => ?_)
      refine Keeps.bind (R := fun _ => True) bumpAny_keeps (fun _ _ => ?_)
      refine Keeps.bind (R := fun _ => True) (consumeWhile_keeps _) (fun _ _ => ?_)
      refine Keeps.get_bind (fun s0 _ => ?_)
      dsimp only
      refine Keeps.bind (bpText_keeps_val _ _) (fun text ht => ?_)
      split
      · rename_i hcond
        exact text_pushText_keeps _ _ text ht (by simpa using hcond)
      · exact Keeps.pure trivial

theorem text_stepLoop_keeps (fuel : Nat) : Keeps ITX (stepLoop (α := α) fuel) (fun _ => True) := by
  have h1 := text_stepOne_keeps (α := α)
  induction fuel with
  | zero => unfold stepLoop; keeps
  | succ fuel ih => unfold stepLoop; keeps

/-- in this file `bpText` is a leaf that remembers which text it returns -/
local macro_rules | `(tactic| keeps_leaf) => `(tactic| with_reducible exact bpText_keeps_val ..)

theorem text_textBlockLoop_keeps (fuel : Nat) : Keeps ITX (textBlockLoop (α := α) fuel) (fun _ => True) := by
  induction fuel with
  | zero => unfold textBlockLoop; keeps
  | succ fuel ih =>
    unfold textBlockLoop
    keeps
    all_goals (
      rename_i t ht hcond
      exact ⟨fun s hs => ⟨((text_pushText_keeps _ _ t ht
        (frags_ne_of_not_isTextEmpty _ _ (by simpa using hcond))).run s hs).1, ih⟩⟩)

local macro_rules | `(tactic| keeps_leaf) => `(tactic| with_reducible exact text_stepLoop_keeps _)
local macro_rules | `(tactic| keeps_leaf) => `(tactic| with_reducible exact text_textBlockLoop_keeps _)

theorem text_parseBlock_keeps (oldStyle : Bool) : Keeps ITX (parseBlock (α := α) oldStyle) (fun _ => True) := by
  have hstart : ∀ k, Keeps ITX (pushEv (α := α) (.start k)) (fun _ => True) :=
    fun k => Keeps.pushEv (fun _ h => h.push trivial)
  have hstop : ∀ k, Keeps ITX (pushEv (α := α) (.stop k)) (fun _ => True) :=
    fun k => Keeps.pushEv (fun _ h => h.push trivial)
  have hstep : Keeps ITX (parseStep (α := α)) (fun _ => True) := by
    have h1 := hstart .step
    have h2 := hstop .step
    unfold parseStep; keeps
  have htext : Keeps ITX (parseTextBlock (α := α)) (fun _ => True) := by
    have h1 := hstart .text
    have h2 := hstop .text
    unfold parseTextBlock; keeps
  have hmulti : Keeps ITX (parseMultilineBlock (α := α)) (fun _ => True) := by
    unfold parseMultilineBlock; keeps
  unfold parseBlock
  apply Keeps.bind (R := fun r => ∀ ev, r = some ev → TextNE ev)
  · have h1 := (closing_sectionP_keeps (α := α) (I := ITX)).mono
      (R' := fun r => ∀ ev, r = some ev → TextNE ev) (fun r hr ev he => by obtain ⟨n, rfl⟩ := hr ev he; trivial)
    have h2 := (closing_metadataEntry_keeps (α := α) (I := ITX)).mono
      (R' := fun r => ∀ ev, r = some ev → TextNE ev) (fun r hr ev he => by obtain ⟨k, v, rfl⟩ := hr ev he; trivial)
    keeps
    all_goals (refine Keeps.pure ?_; intro ev he; first | (cases he; done) | (cases he; trivial))
  · intro r hr
    split
    · rename_i ev
      exact Keeps.pushEv (fun _ h => h.push (hr ev rfl))
    · exact hmulti

theorem text_runBlock (cs : CharSpec) (ext : Ext) (oldStyle : Bool) (b : List Tok)
    (evs : Array (Ev α)) (panic : Option String) (h : ITX evs) :
    ITX (runBlock cs ext oldStyle b evs panic).1 := by
  have key : Keeps ITX (do
      if b.isEmpty then panicWith "BlockParser::new: empty tokens"
      parseBlock (α := α) oldStyle
      let s ← get
      if s.cur ≠ s.toks.length then panicWith "Block tokens not parsed") (fun _ => True) := by
    have := text_parseBlock_keeps (α := α) oldStyle
    keeps
  exact (key.run ⟨b, 0, ext, cs, evs, panic⟩ h).1

theorem text_foldl_runBlock (cs : CharSpec) (ext : Ext) (oldStyle : Bool) (blocks : List (List Tok))
    (acc : Array (Ev α) × Option String) (h : ITX acc.1) :
    ITX (blocks.foldl (fun acc b => runBlock (α := α) cs ext oldStyle b acc.1 acc.2) acc).1 := by
  induction blocks generalizing acc with
  | nil => exact h
  | cons b bs ih =>
    rw [List.foldl_cons]
    exact ih _ (text_runBlock cs ext oldStyle b acc.1 acc.2 h)

/-- **every `Text` event of the pull parser carries a non-empty text** -/
theorem pullEvents_textNE (cs : CharSpec) (ext : Ext) (input : List Char) :
    ∀ ev ∈ (pullEvents (α := α) cs ext input).1.toList, TextNE ev := by
  unfold pullEvents
  split
  rename_i toks evs0 oldStyle heq
  apply text_foldl_runBlock
  split at heq
  · simp only [Prod.mk.injEq] at heq
    rw [← heq.2.1]
    intro ev hev
    simp only [List.mem_singleton] at hev
    subst hev; trivial
  · simp only [Prod.mk.injEq] at heq
    rw [← heq.2.1]
    intro ev hev
    simp at hev

end textne

end Cook
