import CookModel.Lemmas.DiagQuiet
import CookModel.Lemmas.DiagInsideTimer
/-
  C07, exact emission of two parse-stage warnings:
  * `note-not-allowed:timer` (`check_note` after a timer): what `checkNoteTimer` pushes, as a function
    of the tokens at the cursor, for EVERY state; lifted to `timer`;
  * `invalid-single-word-name` (`comp_body`'s second attempt): what `comp_body` pushes when it finds
    no body, for every state.
-/
set_option linter.unusedSectionVars false
set_option linter.unusedSimpArgs false
set_option linter.unusedVariables false
namespace Cook

variable {α : Type} [Arith α]

/-- the warning of `check_note` for a timer followed by the note `( … )` -/
def timerNoteWarn (op cp : Tok) : Ev α :=
  .warning ⟨.warning, .parse, "note-not-allowed:timer", [⟨op.start, cp.stop⟩, Span.pos op.start]⟩

/-- the events `check_note` pushes at the cursor of `s`: the warning iff the next token is `(` and a
    `)` follows somewhere in the block -/
def timerNoteEvs (s : BP α) : List (Ev α) :=
  match s.toks[s.cur]? with
  | some op =>
    if op.kind = .openParen then
      match (s.toks.drop (s.cur + 1)).findIdx? (fun t => t.kind == .closeParen) with
      | some n => [timerNoteWarn op ((s.toks[s.cur + 1 + n]?).getD dummyTok)]
      | none => []
    else []
  | none => []

def pushAll (l : List (Ev α)) (s : BP α) : BP α := l.foldl (fun st e => { st with evs := st.evs.push e }) s

theorem pushAll_pushed (l : List (Ev α)) (s : BP α) : Pushed l s (pushAll l s) := by
  induction l generalizing s with
  | nil => exact Pushed.refl s
  | cons a l ih =>
    have := (Pushed.one s a).trans (ih ({ s with evs := s.evs.push a } : BP α))
    exact this

theorem pushAll_fields (l : List (Ev α)) (s : BP α) :
    (pushAll l s).toks = s.toks ∧ (pushAll l s).cur = s.cur ∧ (pushAll l s).panic = s.panic := by
  induction l generalizing s with
  | nil => exact ⟨rfl, rfl, rfl⟩
  | cons a l ih => exact ih ({ s with evs := s.evs.push a } : BP α)

theorem consumeK_run' (k : TK) (s : BP α) : consumeK k s =
    match s.toks[s.cur]? with
    | some t => if t.kind = k then (some t, { s with cur := s.cur + 1 }) else (none, s)
    | none => (none, s) := by
  unfold consumeK
  have ha : atK k s = ((s.toks[s.cur]?).map (·.kind) == some k, s) := rfl
  simp only [bind, StateT.bind, ha]
  cases ht : s.toks[s.cur]? with
  | none => rfl
  | some t =>
    by_cases hk : t.kind = k
    · have : ((some t).map (·.kind) == some k) = true := by simp [hk]
      simp only [this, if_true, hk]
      unfold bumpAny
      simp only [bind, StateT.bind, nextToken_run, ht]
      rfl
    · have : ((some t).map (·.kind) == some k) = false := by simp [hk]
      simp only [this, Bool.false_eq_true, if_false, hk]
      rfl

/-- the body of `check_note` for timers (verbatim) -/
def noteInner : P α (Option Unit) := do
  match ← consumeK .openParen with
  | none => return none
  | some op =>
    match ← untilK (fun k => k == .closeParen) with
    | none => return none
    | some _ =>
      let cp ← bump .closeParen
      pwarn "note-not-allowed:timer" [⟨op.start, cp.stop⟩, Span.pos op.start]
      return none

theorem checkNoteTimer_eq : checkNoteTimer (α := α) = (withRecover noteInner >>= fun _ => pure ()) := rfl

theorem noteInner_run (s : BP α) :
    ∃ c, noteInner s = (none, { pushAll (timerNoteEvs s) s with cur := c }) := by
  have bind_run : ∀ {β γ : Type} (m : P α β) (k : β → P α γ) (s : BP α), (m >>= k) s = k (m s).1 (m s).2 :=
    fun _ _ _ => rfl
  unfold noteInner timerNoteEvs
  rw [bind_run, consumeK_run']
  cases ht : s.toks[s.cur]? with
  | none => exact ⟨s.cur, rfl⟩
  | some op =>
    by_cases hk : op.kind = .openParen
    · simp only [hk, if_true]
      rw [bind_run, untilK_run]
      cases hf : (s.toks.drop (s.cur + 1)).findIdx? (fun t => t.kind == .closeParen) with
      | none =>
        have hf' : List.findIdx? (fun t => t.kind == TK.closeParen)
            (List.drop ({ s with cur := s.cur + 1 } : BP α).cur ({ s with cur := s.cur + 1 } : BP α).toks) = none := hf
        simp only [hf']
        exact ⟨s.cur + 1, rfl⟩
      | some n =>
        have hf' : List.findIdx? (fun t => t.kind == TK.closeParen)
            (List.drop ({ s with cur := s.cur + 1 } : BP α).cur ({ s with cur := s.cur + 1 } : BP α).toks) = some n := hf
        simp only [hf']
        obtain ⟨hn, hp, -⟩ := List.findIdx?_eq_some_iff_getElem.mp hf
        have hget : s.toks[s.cur + 1 + n]? = some ((s.toks.drop (s.cur + 1))[n]) := by
          rw [← List.getElem?_drop, List.getElem?_eq_getElem hn]
        have hkc : ((s.toks.drop (s.cur + 1))[n]).kind = .closeParen := by simpa using hp
        have hb : bump (α := α) .closeParen ({ s with cur := s.cur + 1 + n } : BP α) =
            ((s.toks.drop (s.cur + 1))[n], { s with cur := s.cur + 1 + n + 1 }) := by
          unfold bump bumpAny
          simp only [bind, StateT.bind, nextToken_run, hget, pure, StateT.pure, hkc, ne_eq, not_true_eq_false,
            if_false]
        rw [bind_run, hb]
        simp only [hget, Option.getD_some]
        exact ⟨s.cur + 1 + n + 1, rfl⟩
    · simp only [hk, if_false]
      exact ⟨s.cur, rfl⟩

/-- **`check_note` of a timer, exactly**: from every state it pushes `timerNoteEvs` (the warning
    `note-not-allowed:timer`, labelled with the parenthesised note and the position of its `(`, iff
    the next token is `(` and a `)` follows; nothing otherwise) and changes nothing else -/
theorem checkNoteTimer_exact (s : BP α) : checkNoteTimer s = ((), pushAll (timerNoteEvs s) s) := by
  have bind_run : ∀ {β γ : Type} (m : P α β) (k : β → P α γ) (s : BP α), (m >>= k) s = k (m s).1 (m s).2 :=
    fun _ _ _ => rfl
  obtain ⟨c, hc⟩ := noteInner_run s
  rw [checkNoteTimer_eq, bind_run, withRecover_run, hc]
  simp only [Option.isNone_none, if_true]
  have h2 := (pushAll_fields (timerNoteEvs s) s).2.1
  generalize pushAll (timerNoteEvs s) s = s2 at h2 ⊢
  rw [← h2]
  rfl

/-! ### `timer` with a quiet quantity, followed by anything -/

theorem timerTail_noted (start stop nameOffset : Nat) (body : Body) (s : BP α)
    (qt : List Tok) (hq : body.quantity = some qt)
    (ha : s.ext.has Gen.EXT_COMPONENT_ALIAS = false ∨ ∀ t ∈ body.name, t.kind ≠ .or)
    (hQ : ∀ sq, sq.cs = s.cs → sq.ext = s.ext → Sat (parseQuantity (α := α) qt) sq
      (fun r s' => Same sq s' ∧ r.quantity.val.unit.isNone = false)) :
    Sat (timerTail (α := α) start stop nameOffset [] body) s (fun r s' => Pushed (timerNoteEvs s) s s' ∧
      ∃ q, r = some (.timer ⟨⟨if (buildText nameOffset body.name).isTextEmpty s.cs then none
        else some (buildText nameOffset body.name), some q⟩, ⟨start, stop⟩⟩)) := by
  have hsep : (if s.ext.has Gen.EXT_COMPONENT_ALIAS = true then body.name.findIdx? (fun t => t.kind == .or) else none)
      = none := by
    rcases ha with h | h
    · simp [h]
    · split
      · rw [List.findIdx?_eq_none_iff]
        intro t ht; simpa using h t ht
      · rfl
  have hrest : Sat (α := α) (do
      checkNoteTimer
      let name ← bpText nameOffset body.name
      let l ← get
      let quantity ← timerQty body
      timerFinish start stop nameOffset body name l.cs quantity) s (fun r s' => Pushed (timerNoteEvs s) s s' ∧
      ∃ q, r = some (.timer ⟨⟨if (buildText nameOffset body.name).isTextEmpty s.cs then none
        else some (buildText nameOffset body.name), some q⟩, ⟨start, stop⟩⟩)) := by
    refine Sat.bind (Sat.of_eq (checkNoteTimer_exact s) ?_)
    have p2 := pushAll_pushed (timerNoteEvs s) s
    generalize pushAll (timerNoteEvs s) s = s2 at p2 ⊢
    refine Sat.bind (Sat.mono (bpText_spec nameOffset body.name s2) ?_)
    rintro name s3 ⟨rfl, q3⟩
    refine Sat.bind (Sat.get ?_)
    refine Sat.bind ?_
    unfold timerQty
    rw [hq]
    dsimp only
    refine Sat.bind (Sat.mono (hQ s3 (q3.1.trans p2.1) (q3.2.1.trans p2.2.1)) ?_)
    rintro q s4 ⟨q4, hu⟩
    rw [hu]
    simp only [Bool.false_eq_true, if_false]
    refine Sat.bind (Sat.pure ?_)
    refine Sat.pure ?_
    refine Sat.mono (timerFinish_some start stop nameOffset body _ s3.cs q.quantity s4) ?_
    rintro r s5 ⟨rfl, hr⟩
    refine ⟨(p2.trans (q3.trans q4).pushed).cast (by simp), q.quantity, ?_⟩
    rw [hr, q3.1, p2.1]
  unfold timerTail
  simp only [List.isEmpty_nil, Bool.not_true, Bool.false_eq_true, if_false]
  refine Sat.bind (Sat.hasExt ?_)
  split
  · rename_i he
    rw [if_pos he] at hsep
    split
    · rename_i i hi
      rw [hi] at hsep; cases hsep
    · exact hrest
  · exact hrest

/-! ### `invalid-single-word-name` -/

/-- what `comp_body`'s second attempt pushes when no word/number token is at the cursor: the warning,
    at the current offset, iff a token other than whitespace is there -/
def singleWordWarn (s : BP α) : List (Ev α) :=
  match s.toks[s.cur]? with
  | some t =>
    if t.kind = .ws then []
    else [.warning ⟨.warning, .parse, "invalid-single-word-name", [Span.pos (offAt s.toks s.cur)]⟩]
  | none => []

def isShortK (k : TK) : Bool := k == .word || k == .int || k == .zeroInt

/-- the body of `comp_body`'s second attempt (verbatim) -/
def shortInner : P α (Option Body) := do
  let toks ← consumeWhile (fun k => k == .word || k == .int || k == .zeroInt)
  if toks.isEmpty then
    let r ← restToks
    if !r.isEmpty && !(← atK .ws) then
      pwarn "invalid-single-word-name" [Span.pos (← currentOffset)]
    return none
  return some ⟨toks, none, none⟩

theorem compBodyShort_eq : compBodyShort (α := α) = withRecover shortInner := rfl

theorem shortInner_run (s : BP α) (hns : ∀ t, s.toks[s.cur]? = some t → isShortK t.kind = false) :
    shortInner s = (none, pushAll (singleWordWarn s) s) := by
  have bind_run : ∀ {β γ : Type} (m : P α β) (k : β → P α γ) (s : BP α), (m >>= k) s = k (m s).1 (m s).2 :=
    fun _ _ _ => rfl
  have hcw : consumeWhile (α := α) (fun k => k == .word || k == .int || k == .zeroInt) s = ([], s) := by
    rw [consumeWhile_run]
    dsimp only
    cases hd : s.toks.drop s.cur with
    | nil => rfl
    | cons t r =>
      have ht : s.toks[s.cur]? = some t := by
        have := congrArg List.head? hd
        rw [List.head?_drop] at this
        simpa using this
      have hk' : (t.kind == .word || t.kind == .int || t.kind == .zeroInt) = false := hns t ht
      simp only [List.findIdx?_cons, hk', Bool.not_false, if_true, Option.getD_some, List.take_zero]
      rfl
  unfold shortInner singleWordWarn
  rw [bind_run, hcw]
  simp only [List.isEmpty_nil, if_true]
  have hr : restToks (α := α) s = (s.toks.drop s.cur, s) := rfl
  have ha : atK (α := α) .ws s = ((s.toks[s.cur]?).map (·.kind) == some .ws, s) := rfl
  rw [bind_run, hr]
  dsimp only
  rw [bind_run, ha]
  dsimp only
  cases hd : s.toks.drop s.cur with
  | nil =>
    have ht : s.toks[s.cur]? = none := by
      have := congrArg List.head? hd
      rw [List.head?_drop] at this
      simpa using this
    rw [ht]
    rfl
  | cons t r =>
    have ht : s.toks[s.cur]? = some t := by
      have := congrArg List.head? hd
      rw [List.head?_drop] at this
      simpa using this
    rw [ht]
    by_cases hw : t.kind = .ws
    · simp only [hw, Option.map_some, beq_self_eq_true, List.isEmpty_cons, Bool.not_true, Bool.not_false,
        Bool.and_false, Bool.false_eq_true, if_false, if_true]
      rfl
    · have hw' : (some t.kind == some TK.ws) = false := by simpa using hw
      simp only [hw, Option.map_some, hw', List.isEmpty_cons, Bool.not_false, Bool.and_true, if_true, if_false]
      rw [bind_run, bind_run, currentOffset_run]
      rfl

theorem compBodyShort_exact (s : BP α) (hns : ∀ t, s.toks[s.cur]? = some t → isShortK t.kind = false) :
    compBodyShort s = (none, pushAll (singleWordWarn s) s) := by
  rw [compBodyShort_eq, withRecover_run, shortInner_run s hns]
  simp only [Option.isNone_none, if_true]
  have h2 := (pushAll_fields (singleWordWarn s) s).2.1
  generalize pushAll (singleWordWarn s) s = s2 at h2 ⊢
  rw [← h2]

end Cook
