import CookModel.Lemmas.TableFacts
/-
  C17, wave 7 (tag `w7u`): no key of the bundled unit table is blank — every key holds a character
  that is not Unicode white space.  Hence `find_unit("")` (and of any blank string) is `None` for the
  bundled converter: the candidate `(n, "")` of the inline-quantity scan that appears when blanks are
  appended behind a final number is rejected.
-/
namespace Cook

theorem w7u_keys_not_blank : unitKeyTable.all (fun p => p.1.any (fun c => !realCharSpec.uws c)) = true := by
  decide +kernel

theorem w7u_bundled_blank (k : List Char) (h : k.all realCharSpec.uws = true) : bundledFindUnit k = none := by
  unfold bundledFindUnit
  have : unitKeyTable.find? (fun p => p.1 == k) = none := by
    rw [List.find?_eq_none]
    intro p hp hk
    have e : p.1 = k := by simpa using hk
    have := List.all_eq_true.1 w7u_keys_not_blank p hp
    rw [e, List.any_eq_true] at this
    obtain ⟨c, hc, hcu⟩ := this
    have := List.all_eq_true.1 h c hc
    simp [this] at hcu
  rw [this]; rfl

end Cook
