import CookModel.Syntax.Blocks
import CookModel.Lemmas.Blocks
/-
  "Only `metadata_entry` produces metadata events": a sweep over the block parsers showing that
  every parser function leaves the `.metadata` events of the shared event queue unchanged, and
  that the result of `metadata_entry` does not depend on the queue or the panic flag.
  Used for C14 (metadata-only parsing agrees with full parsing, at the level of events).
-/
set_option linter.unusedSectionVars false
namespace Cook
variable {α : Type} [Arith α]

/-- a metadata-carrying event: `Event::Metadata` or `Event::YAMLFrontMatter` -/
def Ev.isKey : Ev α → Bool
  | .metadata _ _ => true
  | .frontMatter _ => true
  | _ => false

/-- the metadata events of an event queue, in order -/
def metaOf (evs : Array (Ev α)) : List (Ev α) := evs.toList.filter Ev.isKey

theorem metaOf_push (evs : Array (Ev α)) (e : Ev α) :
    metaOf (evs.push e) = metaOf evs ++ (if e.isKey then [e] else []) := by
  unfold metaOf
  rw [Array.toList_push, List.filter_append]
  cases h : e.isKey <;> simp [List.filter, h]

/-- `f` adds no metadata event to the queue, and its result satisfies `Q` -/
structure MF {β : Type} (Q : β → Prop) (f : P α β) : Prop where
  run : ∀ s, metaOf (f s).2.evs = metaOf s.evs ∧ Q (f s).1

theorem MF.pure {β : Type} {Q : β → Prop} (a : β) (h : Q a) : MF (α := α) Q (pure a) :=
  ⟨fun _ => ⟨rfl, h⟩⟩

theorem MF.bind {β γ : Type} {Q : β → Prop} {R : γ → Prop} {f : P α β} {g : β → P α γ}
    (hf : MF Q f) (hg : ∀ a, Q a → MF R (g a)) : MF R (f >>= g) := by
  refine ⟨fun s => ?_⟩
  have h1 := hf.run s
  have h2 := (hg (f s).1 h1.2).run (f s).2
  exact ⟨h2.1.trans h1.1, h2.2⟩

theorem MF.bind0 {β γ : Type} {R : γ → Prop} {f : P α β} {g : β → P α γ}
    (hf : MF (fun _ => True) f) (hg : ∀ a, MF R (g a)) : MF R (f >>= g) :=
  MF.bind hf (fun a _ => hg a)

theorem MF.weaken {β : Type} {Q R : β → Prop} {f : P α β} (hf : MF Q f) (h : ∀ a, Q a → R a) : MF R f :=
  ⟨fun s => ⟨(hf.run s).1, h _ (hf.run s).2⟩⟩

theorem MF.triv {β : Type} {Q : β → Prop} {f : P α β} (hf : MF Q f) : MF (fun _ => True) f :=
  hf.weaken (fun _ _ => trivial)

theorem MF.get : MF (α := α) (fun _ => True) (get : P α (BP α)) := ⟨fun _ => ⟨rfl, trivial⟩⟩

theorem MF.modify (k : BP α → BP α) (h : ∀ s, (k s).evs = s.evs) :
    MF (α := α) (fun _ => True) (modify k : P α Unit) := ⟨fun s => ⟨by show metaOf (k s).evs = _; rw [h], trivial⟩⟩

syntax "mf_leaf" : tactic
macro_rules | `(tactic| mf_leaf) => `(tactic| with_reducible exact MF.get)
macro_rules | `(tactic| mf_leaf) => `(tactic| with_reducible exact MF.pure _ trivial)
macro_rules | `(tactic| mf_leaf) => `(tactic| assumption)

/-- structural decomposition of a `do` block -/
macro "mf" : tactic => `(tactic| repeat' (first
  | intro _
  | mf_leaf
  | dsimp only
  | with_reducible apply MF.bind0
  | split))

theorem mf_panicWith (site : String) : MF (α := α) (fun _ => True) (panicWith site) := by
  unfold panicWith
  apply MF.modify
  intro s; split <;> rfl
macro_rules | `(tactic| mf_leaf) => `(tactic| with_reducible exact mf_panicWith _)

theorem mf_pushEv (e : Ev α) (h : e.isKey = false) : MF (α := α) (fun _ => True) (pushEv e) := by
  refine ⟨fun s => ⟨?_, trivial⟩⟩
  show metaOf (s.evs.push e) = _
  rw [metaOf_push, h]; simp

theorem mf_perr (k : String) (l : List Span) : MF (α := α) (fun _ => True) (perr k l) := mf_pushEv _ rfl
theorem mf_pwarn (k : String) (l : List Span) : MF (α := α) (fun _ => True) (pwarn k l) := mf_pushEv _ rfl
macro_rules | `(tactic| mf_leaf) => `(tactic| with_reducible exact mf_perr _ _)
macro_rules | `(tactic| mf_leaf) => `(tactic| with_reducible exact mf_pwarn _ _)

theorem mf_hasExt (f : Nat) : MF (α := α) (fun _ => True) (hasExt f) := by unfold hasExt; mf
macro_rules | `(tactic| mf_leaf) => `(tactic| with_reducible exact mf_hasExt _)
theorem mf_restToks : MF (α := α) (fun _ => True) restToks := by unfold restToks; mf
macro_rules | `(tactic| mf_leaf) => `(tactic| with_reducible exact mf_restToks)
theorem mf_allToks : MF (α := α) (fun _ => True) allToks := by unfold allToks; mf
macro_rules | `(tactic| mf_leaf) => `(tactic| with_reducible exact mf_allToks)
theorem mf_getCur : MF (α := α) (fun _ => True) getCur := by unfold getCur; mf
macro_rules | `(tactic| mf_leaf) => `(tactic| with_reducible exact mf_getCur)
theorem mf_setCur (c : Nat) : MF (α := α) (fun _ => True) (setCur c) := by
  unfold setCur; exact MF.modify _ (fun _ => rfl)
macro_rules | `(tactic| mf_leaf) => `(tactic| with_reducible exact mf_setCur _)
theorem mf_tokensSpanP (site : String) (ts : List Tok) : MF (α := α) (fun _ => True) (tokensSpanP site ts) := by
  unfold tokensSpanP; mf
macro_rules | `(tactic| mf_leaf) => `(tactic| with_reducible exact mf_tokensSpanP _ _)
theorem mf_baseOffset : MF (α := α) (fun _ => True) baseOffset := by unfold baseOffset; mf
macro_rules | `(tactic| mf_leaf) => `(tactic| with_reducible exact mf_baseOffset)
theorem mf_currentOffset : MF (α := α) (fun _ => True) currentOffset := by unfold currentOffset; mf
macro_rules | `(tactic| mf_leaf) => `(tactic| with_reducible exact mf_currentOffset)
theorem mf_bpSpan : MF (α := α) (fun _ => True) bpSpan := by unfold bpSpan; mf
macro_rules | `(tactic| mf_leaf) => `(tactic| with_reducible exact mf_bpSpan)
theorem mf_peekK : MF (α := α) (fun _ => True) peekK := by unfold peekK; mf
macro_rules | `(tactic| mf_leaf) => `(tactic| with_reducible exact mf_peekK)
theorem mf_atK (k : TK) : MF (α := α) (fun _ => True) (atK k) := by unfold atK; mf
macro_rules | `(tactic| mf_leaf) => `(tactic| with_reducible exact mf_atK _)

theorem mf_nextToken : MF (α := α) (fun _ => True) nextToken := by
  refine ⟨fun s => ⟨?_, trivial⟩⟩
  simp only [nextToken, bind, StateT.bind, get, getThe, MonadStateOf.get, StateT.get, set, pure]
  cases s.toks[s.cur]? <;> rfl
macro_rules | `(tactic| mf_leaf) => `(tactic| with_reducible exact mf_nextToken)

theorem mf_bumpAny : MF (α := α) (fun _ => True) bumpAny := by unfold bumpAny; mf
macro_rules | `(tactic| mf_leaf) => `(tactic| with_reducible exact mf_bumpAny)
theorem mf_bump (k : TK) : MF (α := α) (fun _ => True) (bump k) := by unfold bump; mf
macro_rules | `(tactic| mf_leaf) => `(tactic| with_reducible exact mf_bump _)

theorem mf_modCur (k : BP α → Nat) : MF (α := α) (fun _ => True) (modify fun s => { s with cur := k s } : P α Unit) :=
  MF.modify _ (fun _ => rfl)

theorem mf_untilK (f : TK → Bool) : MF (α := α) (fun _ => True) (untilK f) := by
  unfold untilK; mf
  exact MF.modify _ (fun _ => rfl)
macro_rules | `(tactic| mf_leaf) => `(tactic| with_reducible exact mf_untilK _)
theorem mf_consumeWhile (f : TK → Bool) : MF (α := α) (fun _ => True) (consumeWhile f) := by
  unfold consumeWhile; mf
  exact MF.modify _ (fun _ => rfl)
macro_rules | `(tactic| mf_leaf) => `(tactic| with_reducible exact mf_consumeWhile _)
theorem mf_wsComments : MF (α := α) (fun _ => True) wsComments := mf_consumeWhile _
macro_rules | `(tactic| mf_leaf) => `(tactic| with_reducible exact mf_wsComments)
theorem mf_consumeK (k : TK) : MF (α := α) (fun _ => True) (consumeK k) := by unfold consumeK; mf
macro_rules | `(tactic| mf_leaf) => `(tactic| with_reducible exact mf_consumeK _)
theorem mf_consumeRest : MF (α := α) (fun _ => True) consumeRest := by
  unfold consumeRest; mf
  exact MF.modify _ (fun _ => rfl)
macro_rules | `(tactic| mf_leaf) => `(tactic| with_reducible exact mf_consumeRest)

theorem mf_withRecover {β : Type} {Q : Option β → Prop} {f : P α (Option β)} (hf : MF Q f) :
    MF Q (withRecover f) := by
  unfold withRecover
  apply MF.bind0 mf_getCur
  intro old
  apply MF.bind hf
  intro r hr
  dsimp only
  split
  · apply MF.bind0 (mf_setCur _)
    intro _; exact MF.pure _ hr
  · exact MF.pure _ hr
macro_rules | `(tactic| mf_leaf) => `(tactic| with_reducible apply mf_withRecover)

theorem mf_bpText (o : Nat) (ts : List Tok) : MF (α := α) (fun _ => True) (bpText o ts) := by unfold bpText; mf
macro_rules | `(tactic| mf_leaf) => `(tactic| with_reducible exact mf_bpText _ _)

theorem mf_scalingLock : MF (α := α) (fun _ => True) scalingLock := by unfold scalingLock; mf
macro_rules | `(tactic| mf_leaf) => `(tactic| with_reducible exact mf_scalingLock)
theorem mf_textValue (ts : List Tok) (o : Nat) : MF (α := α) (fun _ => True) (textValue (α := α) ts o) := by
  unfold textValue; mf
macro_rules | `(tactic| mf_leaf) => `(tactic| with_reducible exact mf_textValue _ _)

macro_rules | `(tactic| mf_leaf) => `(tactic| (with_reducible refine mf_pushEv _ ?_) <;> rfl)

theorem mf_get_set {β : Type} {Q : β → Prop} (upd : BP α → BP α) (hupd : ∀ s, (upd s).evs = s.evs)
    (g : BP α → PUnit → P α β) (hg : ∀ o u, MF Q (g o u)) :
    MF Q ((get : P α (BP α)) >>= fun o => (set (upd o) : P α PUnit) >>= g o) := by
  refine ⟨fun s => ?_⟩
  have := (hg s ⟨⟩).run (upd s)
  rw [hupd] at this
  exact this

theorem mf_parseValue (ts : List Tok) : MF (α := α) (fun _ => True) (parseValue (α := α) ts) := by
  unfold parseValue; mf
macro_rules | `(tactic| mf_leaf) => `(tactic| with_reducible exact mf_parseValue _)
theorem mf_qvalue : MF (α := α) (fun _ => True) (qvalue (α := α)) := by unfold qvalue; mf
macro_rules | `(tactic| mf_leaf) => `(tactic| with_reducible exact mf_qvalue)
theorem mf_parseRegularQuantity : MF (α := α) (fun _ => True) (parseRegularQuantity (α := α)) := by
  unfold parseRegularQuantity; mf
macro_rules | `(tactic| mf_leaf) => `(tactic| with_reducible exact mf_parseRegularQuantity)
theorem mf_parseAdvancedQuantity : MF (α := α) (fun _ => True) (parseAdvancedQuantity (α := α)) := by
  unfold parseAdvancedQuantity; mf
macro_rules | `(tactic| mf_leaf) => `(tactic| with_reducible exact mf_parseAdvancedQuantity)

theorem mf_parseQuantity (ts : List Tok) : MF (α := α) (fun _ => True) (parseQuantity (α := α) ts) := by
  unfold parseQuantity
  dsimp only
  split
  · apply MF.bind0 (mf_panicWith _)
    intro _
    apply mf_get_set (upd := fun o => { o with toks := ts, cur := 0 }) (fun _ => rfl)
    intro o u
    mf
    exact MF.modify _ (fun _ => rfl)
  · apply mf_get_set (upd := fun o => { o with toks := ts, cur := 0 }) (fun _ => rfl)
    intro o u
    mf
    exact MF.modify _ (fun _ => rfl)
macro_rules | `(tactic| mf_leaf) => `(tactic| with_reducible exact mf_parseQuantity _)

theorem mf_compBodyLong : MF (α := α) (fun _ => True) (compBodyLong (α := α)) := by unfold compBodyLong; mf
macro_rules | `(tactic| mf_leaf) => `(tactic| with_reducible exact mf_compBodyLong)
theorem mf_compBodyShort : MF (α := α) (fun _ => True) (compBodyShort (α := α)) := by unfold compBodyShort; mf
macro_rules | `(tactic| mf_leaf) => `(tactic| with_reducible exact mf_compBodyShort)
theorem mf_compBody : MF (α := α) (fun _ => True) (compBody (α := α)) := by unfold compBody; mf
macro_rules | `(tactic| mf_leaf) => `(tactic| with_reducible exact mf_compBody)

theorem mf_modifiersLoop (inter : Bool) (fuel : Nat) : MF (α := α) (fun _ => True) (modifiersLoop (α := α) inter fuel) := by
  induction fuel with
  | zero => unfold modifiersLoop; mf
  | succ n ih => unfold modifiersLoop; mf
macro_rules | `(tactic| mf_leaf) => `(tactic| with_reducible exact mf_modifiersLoop _ _)
theorem mf_modifiersP : MF (α := α) (fun _ => True) (modifiersP (α := α)) := by unfold modifiersP; mf
macro_rules | `(tactic| mf_leaf) => `(tactic| with_reducible exact mf_modifiersP)
theorem mf_noteP : MF (α := α) (fun _ => True) (noteP (α := α)) := by unfold noteP; mf
macro_rules | `(tactic| mf_leaf) => `(tactic| with_reducible exact mf_noteP)
theorem mf_parseInterRef (ts : List Tok) : MF (α := α) (fun _ => True) (parseInterRef (α := α) ts) := by
  unfold parseInterRef; mf
macro_rules | `(tactic| mf_leaf) => `(tactic| with_reducible exact mf_parseInterRef _)

theorem mf_parseModifiersLoop (span : Span) (ie : Bool) (fuel : Nat) : ∀ (ts : List Tok) (m : Modifiers) (d : Option (Loc InterData)),
    MF (α := α) (fun _ => True) (parseModifiersLoop (α := α) span ie fuel ts m d) := by
  induction fuel with
  | zero => intro ts m d; unfold parseModifiersLoop; mf
  | succ n ih =>
    intro ts m d
    cases ts with
    | nil => unfold parseModifiersLoop; mf
    | cons t r =>
      unfold parseModifiersLoop; mf
      all_goals exact ih _ _ _
macro_rules | `(tactic| mf_leaf) => `(tactic| with_reducible exact mf_parseModifiersLoop _ _ _ _ _ _)
theorem mf_parseModifiers (ts : List Tok) (pos : Nat) : MF (α := α) (fun _ => True) (parseModifiers (α := α) ts pos) := by
  unfold parseModifiers; mf
macro_rules | `(tactic| mf_leaf) => `(tactic| with_reducible exact mf_parseModifiers _ _)
theorem mf_parseAlias (c : String) (ts : List Tok) (o : Nat) : MF (α := α) (fun _ => True) (parseAlias (α := α) c ts o) := by
  unfold parseAlias; mf
macro_rules | `(tactic| mf_leaf) => `(tactic| with_reducible exact mf_parseAlias _ _ _)
theorem mf_checkEmptyName (c : String) (n : Text) : MF (α := α) (fun _ => True) (checkEmptyName (α := α) c n) := by
  unfold checkEmptyName; mf
macro_rules | `(tactic| mf_leaf) => `(tactic| with_reducible exact mf_checkEmptyName _ _)

/-- an optional event that is not a metadata event -/
def NM (r : Option (Ev α)) : Prop := ∀ ev, r = some ev → ev.isKey = false

macro_rules | `(tactic| mf_leaf) => `(tactic| (with_reducible refine MF.pure _ ?_) <;> (intro ev h; cases h <;> rfl))

theorem mf_ingredientP : MF (α := α) NM (ingredientP (α := α)) := by unfold ingredientP; mf
theorem mf_cookwareP : MF (α := α) NM (cookwareP (α := α)) := by unfold cookwareP; mf
theorem mf_checkNoteTimer : MF (α := α) (fun _ => True) (checkNoteTimer (α := α)) := by unfold checkNoteTimer; mf
macro_rules | `(tactic| mf_leaf) => `(tactic| with_reducible exact mf_checkNoteTimer)
theorem mf_timerP : MF (α := α) NM (timerP (α := α)) := by unfold timerP; mf
macro_rules | `(tactic| mf_leaf) => `(tactic| with_reducible exact mf_ingredientP)
macro_rules | `(tactic| mf_leaf) => `(tactic| with_reducible exact mf_cookwareP)
macro_rules | `(tactic| mf_leaf) => `(tactic| with_reducible exact mf_timerP)

theorem mf_stepOne : MF (α := α) (fun _ => True) (stepOne (α := α)) := by
  unfold stepOne
  apply MF.bind (Q := NM)
  · mf
  · intro comp hc
    split
    · rename_i ev
      exact mf_pushEv _ (hc ev rfl)
    · mf
macro_rules | `(tactic| mf_leaf) => `(tactic| with_reducible exact mf_stepOne)

theorem mf_stepLoop (fuel : Nat) : MF (α := α) (fun _ => True) (stepLoop (α := α) fuel) := by
  induction fuel with
  | zero => unfold stepLoop; mf
  | succ n ih => unfold stepLoop; mf
macro_rules | `(tactic| mf_leaf) => `(tactic| with_reducible exact mf_stepLoop _)
theorem mf_parseStep : MF (α := α) (fun _ => True) (parseStep (α := α)) := by unfold parseStep; mf
macro_rules | `(tactic| mf_leaf) => `(tactic| with_reducible exact mf_parseStep)

theorem mf_textBlockLoop (fuel : Nat) : MF (α := α) (fun _ => True) (textBlockLoop (α := α) fuel) := by
  induction fuel with
  | zero => unfold textBlockLoop; mf
  | succ n ih => unfold textBlockLoop; mf
macro_rules | `(tactic| mf_leaf) => `(tactic| with_reducible exact mf_textBlockLoop _)
theorem mf_parseTextBlock : MF (α := α) (fun _ => True) (parseTextBlock (α := α)) := by unfold parseTextBlock; mf
macro_rules | `(tactic| mf_leaf) => `(tactic| with_reducible exact mf_parseTextBlock)

theorem mf_sectionP : MF (α := α) NM (sectionP (α := α)) := by unfold sectionP; mf
macro_rules | `(tactic| mf_leaf) => `(tactic| with_reducible exact mf_sectionP)
theorem mf_metadataEntry : MF (α := α) (fun _ => True) (metadataEntry (α := α)) := by unfold metadataEntry; mf
macro_rules | `(tactic| mf_leaf) => `(tactic| with_reducible exact mf_metadataEntry)
theorem mf_parseMultilineBlock : MF (α := α) (fun _ => True) (parseMultilineBlock (α := α)) := by
  unfold parseMultilineBlock; mf
macro_rules | `(tactic| mf_leaf) => `(tactic| with_reducible exact mf_parseMultilineBlock)

/-! ### the result of `metadata_entry` does not depend on the event queue or the panic flag -/

/-- the part of the parser state that parsing decisions depend on -/
structure Core where
  toks : List Tok
  cur : Nat
  ext : Ext
  cs : CharSpec

def BP.core (s : BP α) : Core := ⟨s.toks, s.cur, s.ext, s.cs⟩

/-- on states with the same core, `f` and `f'` return the same value and end in the same core -/
structure Sim {β : Type} (f f' : P α β) : Prop where
  run : ∀ s s', s.core = s'.core → (f s).1 = (f' s').1 ∧ (f s).2.core = (f' s').2.core

theorem Sim.pure {β : Type} (a : β) : Sim (α := α) (pure a) (pure a) := ⟨fun _ _ h => ⟨rfl, h⟩⟩

theorem Sim.bind {β γ : Type} {f f' : P α β} {g g' : β → P α γ}
    (hf : Sim f f') (hg : ∀ a, Sim (g a) (g' a)) : Sim (f >>= g) (f' >>= g') := by
  refine ⟨fun s s' h => ?_⟩
  have h1 := hf.run s s' h
  have h2 := (hg (f s).1).run (f s).2 (f' s').2 h1.2
  have e1 : (f >>= g) s = g (f s).1 (f s).2 := rfl
  have e2 : (f' >>= g') s' = g' (f' s').1 (f' s').2 := rfl
  rw [e1, e2, ← h1.1]
  exact h2

theorem Sim.get_bind {γ : Type} {g g' : BP α → P α γ}
    (hg : ∀ s0 s0', s0.core = s0'.core → Sim (g s0) (g' s0')) :
    Sim ((get : P α (BP α)) >>= g) ((get : P α (BP α)) >>= g') :=
  ⟨fun s s' h => (hg s s' h).run s s' h⟩

theorem Sim.modify (k : BP α → BP α) (h : ∀ s s', s.core = s'.core → (k s).core = (k s').core) :
    Sim (α := α) (modify k : P α Unit) (modify k : P α Unit) := ⟨fun s s' hc => ⟨rfl, h s s' hc⟩⟩

theorem core_eq {s s' : BP α} (h : s.core = s'.core) :
    s.toks = s'.toks ∧ s.cur = s'.cur ∧ s.ext = s'.ext ∧ s.cs = s'.cs :=
  ⟨congrArg Core.toks h, congrArg Core.cur h, congrArg Core.ext h, congrArg Core.cs h⟩

syntax "sm_leaf" : tactic
macro_rules | `(tactic| sm_leaf) => `(tactic| with_reducible exact Sim.pure _)
macro_rules | `(tactic| sm_leaf) => `(tactic| assumption)

macro "sm" : tactic => `(tactic| repeat' (first
  | intro _
  | sm_leaf
  | dsimp only
  | with_reducible apply Sim.bind
  | split))

/-- side condition of `Sim.modify` for updates that only touch / depend on the core -/
macro "core_tac" : tactic => `(tactic| (
  intro s s' h
  obtain ⟨h1, h2, h3, h4⟩ := core_eq h
  simp only [BP.core, Core.mk.injEq] at h ⊢
  simp [h1, h2, h3, h4]))

theorem sim_panicWith (site : String) : Sim (α := α) (panicWith site) (panicWith site) := by
  unfold panicWith
  apply Sim.modify
  intro s s' h
  have e : ∀ s : BP α, (if s.panic.isNone then { s with panic := some site } else s).core = s.core := by
    intro s; split <;> rfl
  rw [e, e]; exact h
macro_rules | `(tactic| sm_leaf) => `(tactic| with_reducible exact sim_panicWith _)

theorem sim_pushEv (e : Ev α) : Sim (α := α) (pushEv e) (pushEv e) := by
  unfold pushEv; apply Sim.modify; intro s s' h; exact h
theorem sim_perr (k : String) (l : List Span) : Sim (α := α) (perr k l) (perr k l) := sim_pushEv _
theorem sim_pwarn (k : String) (l : List Span) : Sim (α := α) (pwarn k l) (pwarn k l) := sim_pushEv _
macro_rules | `(tactic| sm_leaf) => `(tactic| with_reducible exact sim_perr _ _)
macro_rules | `(tactic| sm_leaf) => `(tactic| with_reducible exact sim_pwarn _ _)

theorem sim_restToks : Sim (α := α) restToks restToks := by
  unfold restToks
  apply Sim.get_bind
  intro s0 s0' h
  obtain ⟨h1, h2, _, _⟩ := core_eq h
  rw [h1, h2]; exact Sim.pure _
macro_rules | `(tactic| sm_leaf) => `(tactic| with_reducible exact sim_restToks)

theorem sim_peekK : Sim (α := α) peekK peekK := by
  unfold peekK
  apply Sim.get_bind
  intro s0 s0' h
  obtain ⟨h1, h2, _, _⟩ := core_eq h
  rw [h1, h2]; exact Sim.pure _
macro_rules | `(tactic| sm_leaf) => `(tactic| with_reducible exact sim_peekK)
theorem sim_atK (k : TK) : Sim (α := α) (atK k) (atK k) := by unfold atK; sm
macro_rules | `(tactic| sm_leaf) => `(tactic| with_reducible exact sim_atK _)

theorem sim_nextToken : Sim (α := α) nextToken nextToken := by
  refine ⟨fun s s' h => ?_⟩
  obtain ⟨h1, h2, h3, h4⟩ := core_eq h
  simp only [nextToken, bind, StateT.bind, get, getThe, MonadStateOf.get, StateT.get, set, pure]
  rw [← h1, ← h2]
  cases s.toks[s.cur]? with
  | none => exact ⟨rfl, h⟩
  | some t =>
    refine ⟨rfl, ?_⟩
    simp [BP.core, StateT.bind, StateT.set, StateT.pure, h3, h4]
    exact ⟨rfl, rfl, rfl, rfl⟩
macro_rules | `(tactic| sm_leaf) => `(tactic| with_reducible exact sim_nextToken)

theorem sim_bumpAny : Sim (α := α) bumpAny bumpAny := by unfold bumpAny; sm
macro_rules | `(tactic| sm_leaf) => `(tactic| with_reducible exact sim_bumpAny)
theorem sim_bump (k : TK) : Sim (α := α) (bump k) (bump k) := by unfold bump; sm
macro_rules | `(tactic| sm_leaf) => `(tactic| with_reducible exact sim_bump _)
theorem sim_consumeK (k : TK) : Sim (α := α) (consumeK k) (consumeK k) := by unfold consumeK; sm
macro_rules | `(tactic| sm_leaf) => `(tactic| with_reducible exact sim_consumeK _)

theorem sim_addCur (n : Nat) : Sim (α := α) (modify fun s => { s with cur := s.cur + n } : P α Unit)
    (modify fun s => { s with cur := s.cur + n }) := by
  apply Sim.modify; core_tac
macro_rules | `(tactic| sm_leaf) => `(tactic| with_reducible exact sim_addCur _)

theorem sim_untilK (f : TK → Bool) : Sim (α := α) (untilK f) (untilK f) := by unfold untilK; sm
macro_rules | `(tactic| sm_leaf) => `(tactic| with_reducible exact sim_untilK _)
theorem sim_consumeRest : Sim (α := α) consumeRest consumeRest := by unfold consumeRest; sm
macro_rules | `(tactic| sm_leaf) => `(tactic| with_reducible exact sim_consumeRest)
theorem sim_tokensSpanP (site : String) (ts : List Tok) : Sim (α := α) (tokensSpanP site ts) (tokensSpanP site ts) := by
  unfold tokensSpanP; sm
macro_rules | `(tactic| sm_leaf) => `(tactic| with_reducible exact sim_tokensSpanP _ _)

theorem sim_baseOffset : Sim (α := α) baseOffset baseOffset := by
  unfold baseOffset
  apply Sim.get_bind
  intro s0 s0' h
  obtain ⟨h1, _, _, _⟩ := core_eq h
  rw [h1]; exact Sim.pure _
macro_rules | `(tactic| sm_leaf) => `(tactic| with_reducible exact sim_baseOffset)

theorem sim_currentOffset : Sim (α := α) currentOffset currentOffset := by
  unfold currentOffset
  apply Sim.get_bind
  intro s0 s0' h
  obtain ⟨h1, h2, _, _⟩ := core_eq h
  rw [h1, h2]; sm
macro_rules | `(tactic| sm_leaf) => `(tactic| with_reducible exact sim_currentOffset)

theorem sim_bpSpan : Sim (α := α) bpSpan bpSpan := by
  unfold bpSpan
  apply Sim.get_bind
  intro s0 s0' h
  obtain ⟨h1, _, _, _⟩ := core_eq h
  rw [h1]; sm
macro_rules | `(tactic| sm_leaf) => `(tactic| with_reducible exact sim_bpSpan)

theorem sim_bpText (o : Nat) (ts : List Tok) : Sim (α := α) (bpText o ts) (bpText o ts) := by unfold bpText; sm
macro_rules | `(tactic| sm_leaf) => `(tactic| with_reducible exact sim_bpText _ _)

end Cook
