import CookModel.Side.StdMetaMap
import CookModel.Lemmas.StdMetaCoupling
import CookModel.Lemmas.StdMetaLists
/-
  C13 — the `Metadata` accessors over the whole mapping (Side/StdMetaMap.lean): each is the
  value accessor applied to the entry under the canonical name; `Metadata::time` reads the `time`
  key and only in its absence `prep time` / `cook time`; the parse-time warning of the entry a
  `Metadata` accessor reads is raised exactly when that accessor returns nothing.
-/
namespace Cook.SM
open Cook Spec

theorem stdKey_mem_all (k : StdKey) : k ∈ StdKey.all := by cases k <;> simp [StdKey.all]

/-- `StdKey::from_str(key.as_ref()) == Ok(key)` for every key -/
theorem stdKey_canon_roundtrip (k : StdKey) : StdKey.fromStr k.canon = some k := by
  have h : StdKey.all.all (fun k => decide (StdKey.fromStr k.canon = some k)) = true := by decide +kernel
  have := List.all_eq_true.mp h k (stdKey_mem_all k)
  simpa using this

namespace Spec

/-- `prep time` / `cook time` as `Metadata::time` reads them: the minutes of the entry when it is
    present and of a documented form, nothing otherwise (no error: the warning was given at parse time) -/
def LenientMinutes (c : Conv Rat) (o : Option Y) (p : Option Nat) : Prop :=
  ∀ n, p = some n ↔ ∃ v, o = some v ∧ MinutesOf c v n

/-- `Metadata::time` as documented: "The `time` key `as_time`.  Or, if missing, the combination of
    the `prep time` and `cook time` keys `as_minutes`." -/
def MetaTime (c : Conv Rat) (time prep cook : Option Y) (t : RecipeTime) : Prop :=
  (∃ v, time = some v ∧ TimeOf c v t) ∨
  (time = none ∧ ∃ p k, t = .composed p k ∧ LenientMinutes c prep p ∧ LenientMinutes c cook k ∧ (p ≠ none ∨ k ≠ none))

end Spec

theorem lenientMinutes_unique {c : Conv Rat} {o : Option Y} {p p' : Option Nat}
    (h : Spec.LenientMinutes c o p) (h' : Spec.LenientMinutes c o p') : p = p' := by
  cases p with
  | none =>
    cases p' with
    | none => rfl
    | some n' =>
      have := (h n').mpr ((h' n').mp rfl)
      cases this
  | some n =>
    have := (h' n).mpr ((h n).mp rfl)
    exact this.symm

section
variable {α : Type} [Arith α]

/-- for a key that is present, the `Metadata` accessor gives something iff the value accessor does -/
theorem metaGives_eq (c : Conv α) (alpha : Char → Bool) (k : StdKey) (m : List (Y × Y)) (v : Y)
    (hv : metaGet k m = some v) : metaGives c alpha k m = accessorGives c alpha k v := by
  cases k <;>
    simp only [metaGives, accessorGives, metaTitle, metaDescription, metaTags, metaAuthor, metaSource, metaServings,
      metaLocale, metaTime, metaMinutes, hv, Option.bind_some]

/-- the warning of the entry a `Metadata` accessor reads, against that accessor -/
theorem metaWarns_iff (c : Conv α) (alpha : Char → Bool) (k : StdKey) (m : List (Y × Y)) (v : Y)
    (hv : metaGet k m = some v) : entryWarns c alpha k.canon v = true ↔ metaGives c alpha k m = false := by
  rw [metaGives_eq c alpha k m v hv]
  unfold entryWarns
  rw [stdKey_canon_roundtrip k]
  simp only [check_none_iff]
  cases accessorGives c alpha k v <;> simp

theorem metaTime_of_time_key (c : Conv α) (m : List (Y × Y)) (v : Y) (hv : metaGet .time m = some v) :
    metaTime c m = (valueAsTime c v).toOption := by
  simp only [metaTime, hv]

theorem metaTime_without_time_key (c : Conv α) (m : List (Y × Y)) (hv : metaGet .time m = none) (t : RecipeTime) :
    metaTime c m = some t ↔
      t = .composed (metaMinutes c .prepTime m) (metaMinutes c .cookTime m) ∧
      (metaMinutes c .prepTime m ≠ none ∨ metaMinutes c .cookTime m ≠ none) := by
  simp only [metaTime, hv]
  cases hp : metaMinutes c .prepTime m <;> cases hk : metaMinutes c .cookTime m <;> simp [eq_comm]

end

theorem toOption_eq_some_iff {ε β : Type} (e : Except ε β) (b : β) : e.toOption = some b ↔ e = .ok b := by
  cases e <;> simp [Except.toOption]

theorem metaMinutes_spec (c : Conv Rat) (hr : TimeRatiosNonzero c) (k : StdKey) (m : List (Y × Y)) :
    Spec.LenientMinutes c (metaGet k m) (metaMinutes c k m) := by
  intro n
  unfold metaMinutes
  rw [Option.bind_eq_some_iff]
  constructor
  · rintro ⟨v, hv, h⟩
    exact ⟨v, hv, (valueAsMinutes_iff c hr v n).mp ((toOption_eq_some_iff _ _).mp h)⟩
  · rintro ⟨v, hv, h⟩
    exact ⟨v, hv, (toOption_eq_some_iff _ _).mpr ((valueAsMinutes_iff c hr v n).mpr h)⟩

/-- `Metadata::time` is the documented combination of the three keys -/
theorem metaTime_iff (c : Conv Rat) (hr : TimeRatiosNonzero c) (m : List (Y × Y)) (t : RecipeTime) :
    metaTime c m = some t ↔ Spec.MetaTime c (metaGet .time m) (metaGet .prepTime m) (metaGet .cookTime m) t := by
  unfold Spec.MetaTime
  cases hv : metaGet .time m with
  | some v =>
    rw [metaTime_of_time_key c m v hv, toOption_eq_some_iff, valueAsTime_iff c hr]
    simp
  | none =>
    rw [metaTime_without_time_key c m hv]
    simp only [reduceCtorEq, false_and, exists_false, true_and, false_or]
    constructor
    · rintro ⟨rfl, hne⟩
      exact ⟨_, _, rfl, metaMinutes_spec c hr .prepTime m, metaMinutes_spec c hr .cookTime m, hne⟩
    · rintro ⟨p, k, rfl, hp, hk, hne⟩
      have e1 := lenientMinutes_unique hp (metaMinutes_spec c hr .prepTime m)
      have e2 := lenientMinutes_unique hk (metaMinutes_spec c hr .cookTime m)
      subst e1; subst e2
      exact ⟨rfl, hne⟩

end Cook.SM
