import CookModel.Lemmas.LexLaws
import CookModel.Lemmas.Text
/-
  C05, soft line breaks (wave 6, partial): the only site that builds a soft fragment is the `Newline` arm of
  `BlockParser::text` (`textStep`); the fragment is the text of that newline token, which the lexer spells
  LF or CR LF.  Pure facts about `buildText`; the lifting to "every text of every event of the pull parser"
  (a sweep over the block parsers with token spelling carried along) is not done, see notes/audit-C05.md.
-/
set_option linter.unusedVariables false
namespace Cook

/-- every soft fragment of the text is the text of a newline token of `ts`, at that token's offset -/
def SoftFromNewlines (ts : List Tok) (t : Text) : Prop :=
  ∀ f ∈ t.frags, f.soft = true → ∃ tok ∈ ts, tok.kind = .newline ∧ f.text = tok.text ∧ f.offset = tok.start

theorem rks_appendFrag {ts : List Tok} {t : Text} (h : SoftFromNewlines ts t) (f : Frag)
    (hf : f.soft = true → ∃ tok ∈ ts, tok.kind = .newline ∧ f.text = tok.text ∧ f.offset = tok.start) :
    SoftFromNewlines ts (t.appendFrag f) := by
  unfold Text.appendFrag
  intro g hg
  dsimp only at hg
  split at hg
  · split at hg
    · exact h g hg
    · exact h g hg
  · split at hg <;>
    · simp only [List.mem_append, List.mem_singleton] at hg
      rcases hg with hg | rfl
      · exact h g hg
      · exact hf

theorem rks_appendStr {ts : List Tok} {t : Text} (h : SoftFromNewlines ts t) (s : List Char) (o : Nat) :
    SoftFromNewlines ts (t.appendStr s o) :=
  rks_appendFrag h _ (fun hs => by cases hs)

theorem rks_mono {ts ts' : List Tok} {t : Text} (h : SoftFromNewlines ts t) (hsub : ∀ x ∈ ts, x ∈ ts') :
    SoftFromNewlines ts' t := fun f hf hs => by
  obtain ⟨tok, hm, r⟩ := h f hf hs
  exact ⟨tok, hsub tok hm, r⟩

theorem rks_textStep (ts : List Tok) (a : TextAcc) (tok : Tok) (hm : tok ∈ ts) (h : SoftFromNewlines ts a.t) :
    SoftFromNewlines ts (textStep a tok).t := by
  unfold textStep
  split
  · exact rks_appendFrag (rks_appendStr h _ _) _ (fun _ => ⟨tok, hm, by assumption, rfl, rfl⟩)
  · exact rks_appendStr h _ _
  · exact rks_appendStr h _ _
  · exact rks_appendStr h _ _
  · exact h

theorem rks_foldl (ts : List Tok) (l : List Tok) (hsub : ∀ x ∈ l, x ∈ ts) (a : TextAcc)
    (h : SoftFromNewlines ts a.t) : SoftFromNewlines ts (l.foldl textStep a).t := by
  induction l generalizing a with
  | nil => exact h
  | cons x xs ih =>
    exact ih (fun y hy => hsub y (List.mem_cons_of_mem _ hy)) _ (rks_textStep ts a x (hsub x List.mem_cons_self) h)

/-- `BlockParser::text`: every soft fragment is the text of one of the newline tokens it was given -/
theorem rks_buildText (off : Nat) (ts : List Tok) : SoftFromNewlines ts (buildText off ts) := by
  unfold buildText
  cases ts with
  | nil => intro f hf; cases hf
  | cons t0 rest =>
    dsimp only
    have h := rks_appendStr (rks_foldl (t0 :: rest) (t0 :: rest) (fun _ h => h)
      ⟨Text.empty off, t0.start, []⟩ (fun f hf => by cases hf)) 
      ((t0 :: rest).foldl textStep ⟨Text.empty off, t0.start, []⟩).cur
      ((t0 :: rest).foldl textStep ⟨Text.empty off, t0.start, []⟩).start
    split
    · exact h
    · exact h

/-- … hence, over tokens of the lexer, a soft fragment holds only the characters of a line break -/
theorem rks_buildText_lexed (cs : CharSpec) (o : Nat) (s : List Char) (off : Nat) (ts : List Tok)
    (hsub : ∀ x ∈ ts, x ∈ lexFrom cs o s) :
    ∀ f ∈ (buildText off ts).frags, f.soft = true → f.text = ['\n'] ∨ f.text = ['\r', '\n'] := by
  intro f hf hs
  obtain ⟨tok, hm, hk, ht, -⟩ := rks_buildText off ts f hf hs
  obtain ⟨nx, hsp⟩ := lexFrom_kind_text cs o s tok (hsub tok hm)
  rw [hk] at hsp
  rw [ht]
  unfold spellOK at hsp
  cases htx : tok.text with
  | nil => rw [htx] at hsp; simp at hsp
  | cons c r =>
    rw [htx] at hsp
    simp only [Bool.or_eq_true, Bool.and_eq_true, beq_iff_eq, List.isEmpty_iff] at hsp
    rcases hsp with ⟨rfl, rfl⟩ | ⟨rfl, rfl⟩
    · exact Or.inl rfl
    · exact Or.inr rfl

end Cook
